package main

// C04 — Gen/BuiltinKeys.lean: for every `slip.Define` whose documented lambda list has a `&key`
// section: the documented keyword names next to the keyword literals (":name" strings) that the
// Call method of the built-in — and the functions of its package it calls, one level deep — look
// at. A documented key that the body never looks up cannot be passed with effect; a key the body
// looks up without being documented is accepted without being part of the documented lambda list.

import (
	"fmt"
	"go/ast"
	"go/parser"
	"go/token"
	"os"
	"path/filepath"
	"regexp"
	"sort"
	"strconv"
	"strings"
)

func init() { generators["BuiltinKeys"] = genBuiltinKeys }

var bkKeyword = regexp.MustCompile(`^:[a-z][a-z0-9*-]*$`)

// keyword literals in a function body (closures included)
func bkLiterals(body ast.Node, into map[string]bool) {
	ast.Inspect(body, func(n ast.Node) bool {
		if bl, ok := n.(*ast.BasicLit); ok && bl.Kind == token.STRING {
			if s, err := strconv.Unquote(bl.Value); err == nil && bkKeyword.MatchString(s) {
				into[s[1:]] = true
			}
		}
		return true
	})
}

// names of the functions and methods called in a body
func bkCallees(body ast.Node) map[string]bool {
	out := map[string]bool{}
	ast.Inspect(body, func(n ast.Node) bool {
		ce, ok := n.(*ast.CallExpr)
		if !ok {
			return true
		}
		switch f := ce.Fun.(type) {
		case *ast.Ident:
			out[f.Name] = true
		case *ast.SelectorExpr:
			if id, ok := f.X.(*ast.Ident); ok && (id.Name == "f" || id.Obj != nil) {
				out[f.Sel.Name] = true
			}
		}
		return true
	})
	return out
}

type bkEntry struct {
	name       string
	doc, body  []string
	where      string
	docHasAOK  bool
	viaHelpers bool
}

func genBuiltinKeys(repo string) (string, error) {
	var dirs []string
	dirs = append(dirs, repo)
	err := filepath.Walk(filepath.Join(repo, "pkg"), func(p string, info os.FileInfo, err error) error {
		if err != nil {
			return err
		}
		if info.IsDir() {
			dirs = append(dirs, p)
		}
		return nil
	})
	if err != nil {
		return "", err
	}
	sort.Strings(dirs)
	var entries []bkEntry
	nkey := 0
	for _, dir := range dirs {
		fset := token.NewFileSet()
		files, _ := filepath.Glob(filepath.Join(dir, "*.go"))
		sort.Strings(files)
		var parsed []*ast.File
		for _, f := range files {
			if strings.HasSuffix(f, "_test.go") {
				continue
			}
			af, err := parser.ParseFile(fset, f, nil, 0)
			if err != nil {
				return "", fmt.Errorf("%s: %v", f, err)
			}
			parsed = append(parsed, af)
		}
		rel, _ := filepath.Rel(repo, dir)
		consts := map[string]string{}
		funcs := map[string][]*ast.FuncDecl{} // by simple name (functions and methods of the package)
		calls := map[string]*ast.FuncDecl{}    // receiver type -> Call
		for _, af := range parsed {
			for _, d := range af.Decls {
				switch t := d.(type) {
				case *ast.GenDecl:
					if t.Tok != token.CONST {
						continue
					}
					for _, sp := range t.Specs {
						vs := sp.(*ast.ValueSpec)
						for i, n := range vs.Names {
							if i < len(vs.Values) {
								if s, ok := biStr(vs.Values[i], nil); ok {
									consts[n.Name] = s
								}
							}
						}
					}
				case *ast.FuncDecl:
					if t.Body == nil {
						continue
					}
					funcs[t.Name.Name] = append(funcs[t.Name.Name], t)
					if t.Recv != nil && t.Name.Name == "Call" && len(t.Recv.List) == 1 {
						rt := t.Recv.List[0].Type
						if st, ok := rt.(*ast.StarExpr); ok {
							rt = st.X
						}
						if id, ok := rt.(*ast.Ident); ok {
							calls[id.Name] = t
						}
					}
				}
			}
		}
		for _, af := range parsed {
			ast.Inspect(af, func(n ast.Node) bool {
				ce, ok := n.(*ast.CallExpr)
				if !ok || !biIsSel(ce.Fun, "Define") || len(ce.Args) < 2 {
					return true
				}
				doc := biFuncDoc(ce.Args[1])
				if doc == nil {
					return true
				}
				var name string
				var args []string
				argsOk := true
				for _, el := range doc.Elts {
					kv, ok := el.(*ast.KeyValueExpr)
					if !ok {
						continue
					}
					k, _ := kv.Key.(*ast.Ident)
					if k == nil {
						continue
					}
					switch k.Name {
					case "Name":
						name, _ = biStr(kv.Value, consts)
					case "Args":
						al, ok := kv.Value.(*ast.CompositeLit)
						if !ok {
							argsOk = false
							break
						}
						for _, ae := range al.Elts {
							if u, ok := ae.(*ast.UnaryExpr); ok && u.Op == token.AND {
								ae = u.X
							}
							acl, ok := ae.(*ast.CompositeLit)
							if !ok {
								argsOk = false
								continue
							}
							an, found := "", false
							for _, fe := range acl.Elts {
								if fkv, ok := fe.(*ast.KeyValueExpr); ok {
									if fk, ok := fkv.Key.(*ast.Ident); ok && fk.Name == "Name" {
										an, found = biStr(fkv.Value, consts)
									}
								}
							}
							if !found {
								argsOk = false
							}
							args = append(args, an)
						}
					}
				}
				if name == "" || !argsOk {
					return true
				}
				var docKeys []string
				inKeys, aok := false, false
				for _, a := range args {
					switch {
					case a == "&key":
						inKeys = true
					case a == "&allow-other-keys":
						aok = true
					case strings.HasPrefix(a, "&"):
						inKeys = false
					case inKeys:
						docKeys = append(docKeys, strings.ToLower(a))
					}
				}
				if !inKeys && len(docKeys) == 0 {
					return true
				}
				nkey++
				call := calls[biCreatorType(ce.Args[0])]
				if call == nil {
					return true
				}
				lits := map[string]bool{}
				bkLiterals(call.Body, lits)
				direct := len(lits)
				for callee := range bkCallees(call.Body) {
					if callee == "Call" {
						continue
					}
					for _, fd := range funcs[callee] {
						bkLiterals(fd.Body, lits)
					}
				}
				var body []string
				for k := range lits {
					body = append(body, k)
				}
				sort.Strings(body)
				pos := fset.Position(ce.Pos())
				relf, _ := filepath.Rel(repo, pos.Filename)
				pkgName := filepath.Base(rel)
				if rel == "." {
					pkgName = "slip"
				}
				entries = append(entries, bkEntry{name: pkgName + ":" + name, doc: docKeys, body: body,
					where: fmt.Sprintf("%s:%d", relf, pos.Line), docHasAOK: aok, viaHelpers: len(lits) > direct})
				return true
			})
		}
	}
	sort.Slice(entries, func(i, j int) bool { return entries[i].name < entries[j].name })
	var b strings.Builder
	b.WriteString("/- GENERATED by /verif/extract (builtinkeys.go) from the repository sources — do not edit.\n")
	b.WriteString("   Built-ins whose documented lambda list has a &key section: documented keys and the keyword\n")
	b.WriteString("   literals their Call method (and its callees in the package, one level) looks at. -/\n")
	b.WriteString("namespace SlipVerif.Gen.BuiltinKeys\n\nstructure Entry where\n  name : String\n  doc : List String\n  body : List String\n  aok : Bool\n\n")
	fmt.Fprintf(&b, "def keyDocCount : Nat := %d\n\n", nkey)
	b.WriteString("def entries : List Entry := [\n")
	for i, e := range entries {
		sep := ","
		if i == len(entries)-1 {
			sep = ""
		}
		fmt.Fprintf(&b, "  ⟨%s, %s, %s, %v⟩%s  -- %s\n", leanStr(e.name), leanStrList(e.doc), leanStrList(e.body), e.docHasAOK, sep, e.where)
	}
	b.WriteString("]\n\nend SlipVerif.Gen.BuiltinKeys\n")
	return b.String(), nil
}
