package main

// EvalFacts: facts about the special forms of the evaluator slices (C01 / C07), regenerated from
// the sources on every run:
//   skipEval   — the SkipEval literal in each form's Define creator (which argument positions
//                Function.Eval leaves unevaluated for the form's Call to handle)
//   forwards   — whether the form's Call method mentions *slip.ReturnResult / *GoTo at all (the
//                only way an exit marker can be forwarded by a body-evaluating form)
//   deferred   — the names of the functions / methods called from the `defer` statements of the
//                form's Call method (a deferred function literal, a deferred local closure or a
//                deferred function of the same file are followed one call level deep): what the
//                form does on EVERY way out of its body, a Go panic (= a slip error) included

import (
	"fmt"
	"go/ast"
	"go/parser"
	"go/token"
	"path/filepath"
	"sort"
	"strconv"
	"strings"
)

var evalFactFiles = []string{
	"pkg/cl/quote.go", "pkg/cl/progn.go", "pkg/cl/prog1.go", "pkg/cl/if.go", "pkg/cl/when.go", "pkg/cl/unless.go",
	"pkg/cl/cond.go", "pkg/cl/case.go", "pkg/cl/and.go", "pkg/cl/or.go", "pkg/cl/let.go", "pkg/cl/letx.go",
	"pkg/cl/setq.go", "pkg/cl/lambda.go", "pkg/cl/funcall.go", "pkg/cl/apply.go", "pkg/cl/mapcar.go",
	"pkg/cl/defun.go", "pkg/cl/dolist.go", "pkg/cl/dotimes.go", "pkg/cl/do.go", "pkg/cl/dox.go", "pkg/cl/values.go",
	"pkg/cl/multiple-value-bind.go", "pkg/cl/multiple-value-list.go", "pkg/cl/block.go", "pkg/cl/return-from.go",
	"pkg/cl/return.go", "pkg/cl/tagbody.go", "pkg/cl/go.go", "pkg/cl/unwind-protect.go", "pkg/cl/ignore-errors.go",
	"pkg/cl/error.go", "pkg/gi/with-mutex-lock.go", "pkg/gi/recover.go", "pkg/cl/with-open-file.go",
}

func init() {
	generators["EvalFacts"] = func(repo string) (string, error) {
		type fact struct {
			name      string
			skip      []bool
			ret, goto_ bool
			deferred   map[string]bool
		}
		var facts []fact
		for _, rel := range evalFactFiles {
			fset := token.NewFileSet()
			file, err := parser.ParseFile(fset, filepath.Join(repo, rel), nil, 0)
			if err != nil {
				return "", err
			}
			f := fact{deferred: map[string]bool{}}
			found := false
			fileFuncs := map[string]*ast.BlockStmt{}
			for _, d := range file.Decls {
				if fd, ok := d.(*ast.FuncDecl); ok && fd.Body != nil {
					fileFuncs[fd.Name.Name] = fd.Body
				}
			}
			calls := func(n ast.Node, out map[string]bool) {
				ast.Inspect(n, func(m ast.Node) bool {
					if ce, ok := m.(*ast.CallExpr); ok {
						switch fn := ce.Fun.(type) {
						case *ast.SelectorExpr:
							out[fn.Sel.Name] = true
						case *ast.Ident:
							out[fn.Name] = true
						}
					}
					return true
				})
			}
			ast.Inspect(file, func(n ast.Node) bool {
				switch tn := n.(type) {
				case *ast.CompositeLit:
					// slip.Function{Name: "...", Args: args, SkipEval: []bool{...}}
					if se, ok := tn.Type.(*ast.SelectorExpr); ok && se.Sel.Name == "Function" && !found {
						for _, el := range tn.Elts {
							kv, ok := el.(*ast.KeyValueExpr)
							if !ok {
								continue
							}
							key, _ := kv.Key.(*ast.Ident)
							if key == nil {
								continue
							}
							switch key.Name {
							case "Name":
								if bl, ok := kv.Value.(*ast.BasicLit); ok {
									f.name, _ = strconv.Unquote(bl.Value)
									found = true
								}
							case "SkipEval":
								if cl, ok := kv.Value.(*ast.CompositeLit); ok {
									for _, b := range cl.Elts {
										if id, ok := b.(*ast.Ident); ok {
											f.skip = append(f.skip, id.Name == "true")
										}
									}
								}
							}
						}
					}
				case *ast.FuncDecl:
					if tn.Name.Name == "Call" && tn.Recv != nil && tn.Body != nil {
						locals := map[string]ast.Node{}
						ast.Inspect(tn.Body, func(m ast.Node) bool {
							if as, ok := m.(*ast.AssignStmt); ok && len(as.Lhs) == len(as.Rhs) {
								for i, l := range as.Lhs {
									if id, ok := l.(*ast.Ident); ok {
										if fl, ok := as.Rhs[i].(*ast.FuncLit); ok {
											locals[id.Name] = fl.Body
										}
									}
								}
							}
							return true
						})
						ast.Inspect(tn.Body, func(m ast.Node) bool {
							if ds, ok := m.(*ast.DeferStmt); ok {
								first := map[string]bool{}
								calls(ds.Call, first)
								for nm := range first {
									f.deferred[nm] = true
									if body, ok := locals[nm]; ok {
										calls(body, f.deferred)
									} else if body, ok := fileFuncs[nm]; ok && nm != "Call" {
										calls(body, f.deferred)
									}
								}
							}
							return true
						})
						ast.Inspect(tn.Body, func(m ast.Node) bool {
							if st, ok := m.(*ast.StarExpr); ok {
								switch x := st.X.(type) {
								case *ast.SelectorExpr:
									if x.Sel.Name == "ReturnResult" {
										f.ret = true
									}
								case *ast.Ident:
									if x.Name == "GoTo" {
										f.goto_ = true
									}
								}
							}
							return true
						})
					}
				}
				return true
			})
			if !found {
				return "", fmt.Errorf("%s: no slip.Function literal with a Name", rel)
			}
			facts = append(facts, f)
		}
		sort.Slice(facts, func(i, j int) bool { return facts[i].name < facts[j].name })
		var b strings.Builder
		b.WriteString("/- GENERATED by /verif/extract (evalfacts.go) from pkg/cl/*.go, pkg/gi/with-mutex-lock.go — do not edit -/\n")
		b.WriteString("namespace SlipVerif.Gen.EvalFacts\n\n")
		b.WriteString("/-- the SkipEval literal of each form's creator (the last flag applies to all further arguments) -/\n")
		b.WriteString("def skipEval : List (String × List Bool) := [\n")
		for i, f := range facts {
			var fl []string
			for _, s := range f.skip {
				fl = append(fl, strconv.FormatBool(s))
			}
			sep := ","
			if i == len(facts)-1 {
				sep = ""
			}
			fmt.Fprintf(&b, "  (%q, [%s])%s\n", f.name, strings.Join(fl, ", "), sep)
		}
		b.WriteString("]\n\n")
		list := func(name, doc string, pred func(f fact) bool) {
			var ns []string
			for _, f := range facts {
				if pred(f) {
					ns = append(ns, strconv.Quote(f.name))
				}
			}
			fmt.Fprintf(&b, "/-- %s -/\ndef %s : List String := [%s]\n\n", doc, name, strings.Join(ns, ", "))
		}
		list("mentionsReturnResult", "forms whose Call method mentions *slip.ReturnResult", func(f fact) bool { return f.ret })
		list("mentionsGoTo", "forms whose Call method mentions *GoTo", func(f fact) bool { return f.goto_ })
		b.WriteString("/-- per form: the functions / methods called from the defer statements of its Call method -/\n")
		b.WriteString("def deferred : List (String × List String) := [\n")
		for i, f := range facts {
			var ns []string
			for nm := range f.deferred {
				ns = append(ns, strconv.Quote(nm))
			}
			sort.Strings(ns)
			sep := ","
			if i == len(facts)-1 {
				sep = ""
			}
			fmt.Fprintf(&b, "  (%q, [%s])%s\n", f.name, strings.Join(ns, ", "), sep)
		}
		b.WriteString("]\n\n")
		b.WriteString("end SlipVerif.Gen.EvalFacts\n")
		return b.String(), nil
	}
}
