package main

// C20: facts about how pkg/repl/history.go and stash.go touch the file system, regenerated on every
// run:
//   opens   — the flags of every os.OpenFile call reached from History.Add/Clear and Stash.Add/Clear
//             (by method and file expression),
//   fsPaths — for each of these methods the file-system calls along every path, in execution order:
//             a token per call ("open:<tmp|file>:<trunc|append>", "write", "close",
//             "rename:<src>:<dst>", …), "write*" for a call inside a loop, one path per arm of an
//             if/else whose arms both touch the file system, deferred calls at the end (a deferred
//             close after an explicit one is the usual double close and is dropped).
// Calls of functions and methods declared in the same two files are followed one level deep with
// their parameters replaced by the caller's arguments, so moving an open or the write loop into a
// helper does not change what is generated, while a helper that opens with other flags does.
// Theorems/GenC20.lean states the obligations the crash model relies on (compaction truncates the
// temporary file, rewrites truncate, appends append, and every path is the model's call pattern —
// the rename follows the close).

import (
	"fmt"
	"go/ast"
	"go/parser"
	"go/printer"
	"go/token"
	"path/filepath"
	"strings"
)

type hcPath struct {
	toks     []string
	deferred []string
}

type hcWalker struct {
	fset   *token.FileSet
	decls  map[string]*ast.FuncDecl // by bare name
	assign map[string]string        // identifier → text of the expression it was defined with
	method string
	opens  *[]string
}

func (w *hcWalker) text(n ast.Node) string {
	var b strings.Builder
	_ = printer.Fprint(&b, w.fset, n)
	return b.String()
}

func (w *hcWalker) sub(e ast.Expr, subst map[string]string) string {
	t := w.text(e)
	if s, ok := subst[t]; ok {
		return s
	}
	return t
}

// fileTok names the file an expression denotes: the method's own file, its temporary file, or the text
func (w *hcWalker) fileTok(t string) string {
	if strings.HasSuffix(t, ".filename") || t == "filename" {
		return "file"
	}
	if def, ok := w.assign[t]; ok && strings.Contains(def, ".tmp") {
		return "tmp"
	}
	if strings.Contains(t, ".tmp") {
		return "tmp"
	}
	return t
}

// callTok classifies one call; "" = not a file-system call, "@name" = a call of a local helper
func (w *hcWalker) callTok(call *ast.CallExpr, subst map[string]string) string {
	name := w.text(call.Fun)
	switch name {
	case "os.OpenFile":
		if len(call.Args) != 3 {
			return "open:?"
		}
		fileExpr := w.sub(call.Args[0], subst)
		var flags []string
		trunc := false
		for _, fl := range strings.Split(w.sub(call.Args[1], subst), "|") {
			fl = strings.TrimPrefix(strings.TrimSpace(fl), "os.")
			if fl == "O_TRUNC" {
				trunc = true
			}
			flags = append(flags, fmt.Sprintf("%q", fl))
		}
		*w.opens = append(*w.opens, fmt.Sprintf("  (%q, %q, [%s])", w.method, w.fileTok(fileExpr), strings.Join(flags, ", ")))
		mode := "append"
		if trunc {
			mode = "trunc"
		}
		return "open:" + w.fileTok(fileExpr) + ":" + mode
	case "os.Rename":
		if len(call.Args) != 2 {
			return "rename:?"
		}
		return "rename:" + w.fileTok(w.sub(call.Args[0], subst)) + ":" + w.fileTok(w.sub(call.Args[1], subst))
	case "os.WriteFile":
		return "writefile"
	case "os.Remove", "os.RemoveAll":
		return "remove"
	case "os.Truncate":
		return "truncate"
	case "os.Create":
		return "create"
	case "os.Link", "os.Symlink":
		return "link"
	}
	if sel, ok := call.Fun.(*ast.SelectorExpr); ok {
		if _, isIdent := sel.X.(*ast.Ident); isIdent {
			switch sel.Sel.Name {
			case "Write", "WriteString":
				return "write"
			case "Close":
				return "close"
			case "Truncate":
				return "truncate"
			case "Sync":
				return "sync"
			}
		}
		if _, ok := w.decls[sel.Sel.Name]; ok {
			return "@" + sel.Sel.Name
		}
		return ""
	}
	if id, ok := call.Fun.(*ast.Ident); ok {
		if _, ok := w.decls[id.Name]; ok {
			return "@" + id.Name
		}
	}
	return ""
}

// calls returns the tokens of the calls inside a node in source order (function literals included:
// `defer func() { _ = f.Close() }()`), following local helpers while depth > 0
func (w *hcWalker) calls(n ast.Node, subst map[string]string, depth int, loop bool) []hcPath {
	paths := []hcPath{{}}
	if n == nil {
		return paths
	}
	ast.Inspect(n, func(x ast.Node) bool {
		call, ok := x.(*ast.CallExpr)
		if !ok {
			return true
		}
		// arguments first (they are evaluated before the call)
		for _, a := range call.Args {
			paths = hcSeq(paths, w.calls(a, subst, depth, loop))
		}
		if fl, ok := call.Fun.(*ast.FuncLit); ok {
			paths = hcSeq(paths, w.stmts(fl.Body.List, subst, depth, loop))
			return false
		}
		tok := w.callTok(call, subst)
		switch {
		case tok == "":
		case strings.HasPrefix(tok, "@"):
			if depth > 0 {
				fd := w.decls[tok[1:]]
				inner := map[string]string{}
				i := 0
				for _, fld := range fd.Type.Params.List {
					for _, nm := range fld.Names {
						if i < len(call.Args) {
							inner[nm.Name] = w.sub(call.Args[i], subst)
						}
						i++
					}
				}
				sub := w.stmts(fd.Body.List, inner, depth-1, loop)
				for i := range sub { // the helper's deferred calls run when it returns
					sub[i] = hcFinish(sub[i])
				}
				paths = hcSeq(paths, sub)
			}
		default:
			if loop && !strings.HasSuffix(tok, "*") {
				tok += "*"
			}
			paths = hcSeq(paths, []hcPath{{toks: []string{tok}}})
		}
		return false
	})
	return paths
}

func hcSeq(a, b []hcPath) []hcPath {
	var out []hcPath
	for _, x := range a {
		for _, y := range b {
			p := hcPath{toks: append(append([]string{}, x.toks...), y.toks...), deferred: append(append([]string{}, x.deferred...), y.deferred...)}
			out = append(out, p)
		}
	}
	return out
}

// hcFinish appends the deferred calls (last deferred first); a deferred close when the path already
// closes explicitly as often as it opens is the harmless double close and is dropped
func hcFinish(p hcPath) hcPath {
	toks := append([]string{}, p.toks...)
	for i := len(p.deferred) - 1; i >= 0; i-- {
		t := p.deferred[i]
		if t == "close" {
			opens, closes := 0, 0
			for _, x := range toks {
				if strings.HasPrefix(x, "open:") {
					opens++
				}
				if x == "close" {
					closes++
				}
			}
			if closes >= opens {
				continue
			}
		}
		toks = append(toks, t)
	}
	// a loop writes any number of times: adjacent "write*" tokens are one
	var out []string
	for _, t := range toks {
		if t == "write*" && len(out) > 0 && out[len(out)-1] == "write*" {
			continue
		}
		out = append(out, t)
	}
	return hcPath{toks: out}
}

func (w *hcWalker) hasFS(n ast.Node, subst map[string]string, depth int) bool {
	if n == nil {
		return false
	}
	saved := *w.opens
	ps := w.calls(n, subst, depth, false)
	*w.opens = saved
	for _, p := range ps {
		if len(p.toks) > 0 || len(p.deferred) > 0 {
			return true
		}
	}
	return false
}

func (w *hcWalker) stmts(list []ast.Stmt, subst map[string]string, depth int, loop bool) []hcPath {
	paths := []hcPath{{}}
	for _, st := range list {
		switch s := st.(type) {
		case *ast.DeferStmt:
			d := w.calls(s.Call, subst, depth, loop)
			var flat []string
			for _, p := range d {
				flat = append(flat, p.toks...)
			}
			for i := range paths {
				paths[i].deferred = append(paths[i].deferred, flat...)
			}
		case *ast.IfStmt:
			if s.Init != nil {
				paths = hcSeq(paths, w.stmts([]ast.Stmt{s.Init}, subst, depth, loop))
			}
			paths = hcSeq(paths, w.calls(s.Cond, subst, depth, loop))
			var elseList []ast.Stmt
			switch e := s.Else.(type) {
			case *ast.BlockStmt:
				elseList = e.List
			case *ast.IfStmt:
				elseList = []ast.Stmt{e}
			}
			if s.Else != nil && w.hasFS(s.Body, subst, depth) && w.hasFS(s.Else, subst, depth) {
				a := hcSeq(paths, w.stmts(s.Body.List, subst, depth, loop))
				b := hcSeq(paths, w.stmts(elseList, subst, depth, loop))
				paths = append(a, b...)
			} else {
				paths = hcSeq(paths, w.stmts(s.Body.List, subst, depth, loop))
				paths = hcSeq(paths, w.stmts(elseList, subst, depth, loop))
			}
		case *ast.ForStmt:
			paths = hcSeq(paths, w.stmts(s.Body.List, subst, depth, true))
		case *ast.RangeStmt:
			paths = hcSeq(paths, w.stmts(s.Body.List, subst, depth, true))
		case *ast.BlockStmt:
			paths = hcSeq(paths, w.stmts(s.List, subst, depth, loop))
		default:
			paths = hcSeq(paths, w.calls(st, subst, depth, loop))
		}
	}
	return paths
}

func init() {
	generators["HistoryCode"] = func(repo string) (string, error) {
		fset := token.NewFileSet()
		decls := map[string]*ast.FuncDecl{}
		type target struct {
			method string
			fd     *ast.FuncDecl
		}
		var targets []target
		assign := map[string]string{}
		tmpW := &hcWalker{fset: fset}
		for _, file := range []string{"history.go", "stash.go"} {
			f, err := parser.ParseFile(fset, filepath.Join(repo, "pkg", "repl", file), nil, 0)
			if err != nil {
				return "", err
			}
			for _, d := range f.Decls {
				fd, ok := d.(*ast.FuncDecl)
				if !ok || fd.Body == nil {
					continue
				}
				decls[fd.Name.Name] = fd
				ast.Inspect(fd.Body, func(n ast.Node) bool {
					if as, ok := n.(*ast.AssignStmt); ok && len(as.Lhs) == 1 && len(as.Rhs) == 1 {
						if id, ok := as.Lhs[0].(*ast.Ident); ok {
							assign[id.Name] = tmpW.text(as.Rhs[0])
						}
					}
					return true
				})
				if fd.Recv != nil && len(fd.Recv.List) > 0 {
					recv := strings.TrimPrefix(tmpW.text(fd.Recv.List[0].Type), "*")
					targets = append(targets, target{recv + "." + fd.Name.Name, fd})
				}
			}
		}
		want := map[string]bool{"History.Add": true, "History.Clear": true, "Stash.Add": true, "Stash.Clear": true}
		var opens []string
		var pathLines []string
		found := 0
		for _, t := range targets {
			if !want[t.method] {
				continue
			}
			found++
			// the methods themselves are not helpers of each other
			local := map[string]*ast.FuncDecl{}
			for k, v := range decls {
				if k != "Add" && k != "Clear" && k != "Load" && k != "LoadExpanded" {
					local[k] = v
				}
			}
			w := &hcWalker{fset: fset, decls: local, assign: assign, method: t.method, opens: &opens}
			var ps []string
			for _, p := range w.stmts(t.fd.Body.List, map[string]string{}, 1, false) {
				p = hcFinish(p)
				var q []string
				for _, tok := range p.toks {
					q = append(q, fmt.Sprintf("%q", tok))
				}
				ps = append(ps, "["+strings.Join(q, ", ")+"]")
			}
			pathLines = append(pathLines, fmt.Sprintf("  (%q, [%s])", t.method, strings.Join(ps, ", ")))
		}
		if found != len(want) {
			return "", fmt.Errorf("History.Add/Clear, Stash.Add/Clear: only %d of %d methods found", found, len(want))
		}
		var b strings.Builder
		b.WriteString("/- GENERATED by extract/history.go from pkg/repl/history.go and pkg/repl/stash.go — do not edit -/\n")
		b.WriteString("namespace SlipVerif.Gen.HistoryCode\n\n")
		b.WriteString("/-- (method, file: the method's own `file` or its `tmp`, flags) of every os.OpenFile call (helpers followed one level) -/\n")
		b.WriteString("def opens : List (String × String × List String) := [\n" + strings.Join(opens, ",\n") + "]\n\n")
		b.WriteString("/-- the file-system calls along every path of each method, in execution order -/\n")
		b.WriteString("def fsPaths : List (String × List (List String)) := [\n" + strings.Join(pathLines, ",\n") + "]\n\n")
		b.WriteString("end SlipVerif.Gen.HistoryCode\n")
		return b.String(), nil
	}
}
