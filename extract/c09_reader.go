package main

// Gen/C09Reader.lean — the reader's byte tables and the shape of its step switch, for C09
// (reader step totality). Extracted from <repo>/code.go with go/ast only:
//   * every string constant whose name ends in "Mode" (the 256+1 byte mode tables) and escByteMap
//   * the switch on r.mode[b] in (*reader).read: the case labels (action codes), which clauses
//     `goto Retry`, which mode each clause assigns (r.mode = <table> / r.nextMode), whether that
//     assignment is unconditional, and whether the default clause always raises.

import (
	"fmt"
	"go/ast"
	"go/parser"
	"go/token"
	"path/filepath"
	"sort"
	"strconv"
	"strings"
)

func init() { generators["C09Reader"] = genC09Reader }

// c09ConstString evaluates a constant string expression ("" + "…" + "…").
func c09ConstString(e ast.Expr) (string, bool) {
	switch te := e.(type) {
	case *ast.BasicLit:
		if te.Kind == token.STRING {
			s, err := strconv.Unquote(te.Value)
			return s, err == nil
		}
	case *ast.BinaryExpr:
		if te.Op == token.ADD {
			a, ok1 := c09ConstString(te.X)
			b, ok2 := c09ConstString(te.Y)
			return a + b, ok1 && ok2
		}
	case *ast.ParenExpr:
		return c09ConstString(te.X)
	}
	return "", false
}

func c09NatList(s string) string {
	parts := make([]string, len(s))
	for i := 0; i < len(s); i++ {
		parts[i] = strconv.Itoa(int(s[i]))
	}
	return "[" + strings.Join(parts, ", ") + "]"
}

func c09Ints(xs []int) string {
	parts := make([]string, len(xs))
	for i, x := range xs {
		parts[i] = strconv.Itoa(x)
	}
	return "[" + strings.Join(parts, ", ") + "]"
}

// c09IsSel reports whether e is the selector <recv>.<name>.
func c09IsSel(e ast.Expr, recv, name string) bool {
	se, ok := e.(*ast.SelectorExpr)
	if !ok || se.Sel.Name != name {
		return false
	}
	id, ok := se.X.(*ast.Ident)
	return ok && id.Name == recv
}

func genC09Reader(repo string) (string, error) {
	fset := token.NewFileSet()
	file, err := parser.ParseFile(fset, filepath.Join(repo, "code.go"), nil, 0)
	if err != nil {
		return "", err
	}
	// --- constants
	strConst := map[string]string{}
	runeConst := map[string]int{}
	blockSize := 0
	var modeNames []string
	for _, d := range file.Decls {
		gd, ok := d.(*ast.GenDecl)
		if !ok || gd.Tok != token.CONST {
			continue
		}
		for _, sp := range gd.Specs {
			vs := sp.(*ast.ValueSpec)
			for i, n := range vs.Names {
				if i >= len(vs.Values) {
					continue
				}
				if s, ok := c09ConstString(vs.Values[i]); ok {
					strConst[n.Name] = s
					if strings.HasSuffix(n.Name, "Mode") {
						modeNames = append(modeNames, n.Name)
					}
				} else if bl, ok := vs.Values[i].(*ast.BasicLit); ok && bl.Kind == token.INT && n.Name == "readBlockSize" {
					blockSize, _ = strconv.Atoi(bl.Value)
				} else if bl, ok := vs.Values[i].(*ast.BasicLit); ok && bl.Kind == token.CHAR {
					if r, _, _, err := strconv.UnquoteChar(bl.Value[1:len(bl.Value)-1], '\''); err == nil {
						runeConst[n.Name] = int(r)
					}
				}
			}
		}
	}
	if len(modeNames) == 0 {
		return "", fmt.Errorf("no *Mode string constants found in code.go")
	}
	modeIndex := map[string]int{}
	for i, n := range modeNames {
		modeIndex[n] = i
	}
	const nextMarker = 1000
	// --- methods of reader
	methods := map[string]*ast.FuncDecl{}
	for _, d := range file.Decls {
		if fd, ok := d.(*ast.FuncDecl); ok && fd.Recv != nil && len(fd.Recv.List) == 1 {
			if st, ok := fd.Recv.List[0].Type.(*ast.StarExpr); ok {
				if id, ok := st.X.(*ast.Ident); ok && id.Name == "reader" {
					methods[fd.Name.Name] = fd
				}
			}
		}
	}
	read := methods["read"]
	if read == nil {
		return "", fmt.Errorf("(*reader).read not found")
	}
	recv := read.Recv.List[0].Names[0].Name
	var sw *ast.SwitchStmt
	ast.Inspect(read.Body, func(n ast.Node) bool {
		if s, ok := n.(*ast.SwitchStmt); ok && sw == nil {
			if ix, ok := s.Tag.(*ast.IndexExpr); ok && c09IsSel(ix.X, recv, "mode") {
				sw = s
				return false
			}
		}
		return true
	})
	if sw == nil {
		return "", fmt.Errorf("switch on %s.mode[b] not found in read", recv)
	}
	// mode assignments in a statement list: targets (mode index / nextMarker); unconditional =
	// assigned by a top-level statement of the list or under the guard `if r.mode != X`
	var modeAssigns func(stmts []ast.Stmt, top bool, depth int) (targets []int, uncond int, retry bool)
	targetOf := func(rhs ast.Expr, r string) (int, bool) {
		if id, ok := rhs.(*ast.Ident); ok {
			if ix, ok := modeIndex[id.Name]; ok {
				return ix, true
			}
		}
		if c09IsSel(rhs, r, "nextMode") {
			return nextMarker, true
		}
		return 0, false
	}
	modeAssigns = func(stmts []ast.Stmt, top bool, depth int) (targets []int, uncond int, retry bool) {
		uncond = -1
		for _, st := range stmts {
			switch ts := st.(type) {
			case *ast.AssignStmt:
				for i, lhs := range ts.Lhs {
					if c09IsSel(lhs, recv, "mode") && i < len(ts.Rhs) {
						if t, ok := targetOf(ts.Rhs[i], recv); ok {
							targets = append(targets, t)
							if top {
								uncond = t
							}
						} else {
							targets = append(targets, -1) // unknown expression
						}
					}
				}
			case *ast.BranchStmt:
				if ts.Tok == token.GOTO && ts.Label != nil && ts.Label.Name == "Retry" {
					retry = true
				}
			case *ast.IfStmt:
				// guard of the form r.mode != X { ...; r.mode = X }: the clause ends in X either way
				guardMode := -1
				if be, ok := ts.Cond.(*ast.BinaryExpr); ok && be.Op == token.NEQ && c09IsSel(be.X, recv, "mode") {
					if t, ok := targetOf(be.Y, recv); ok {
						guardMode = t
					}
				}
				t1, u1, r1 := modeAssigns(ts.Body.List, false, depth)
				targets = append(targets, t1...)
				retry = retry || r1
				if guardMode >= 0 && top && len(t1) > 0 {
					all := true
					for _, x := range t1 {
						if x != guardMode {
							all = false
						}
					}
					if all {
						uncond = guardMode
					}
				}
				_ = u1
				if ts.Else != nil {
					var list []ast.Stmt
					switch e := ts.Else.(type) {
					case *ast.BlockStmt:
						list = e.List
					default:
						list = []ast.Stmt{e}
					}
					t2, _, r2 := modeAssigns(list, false, depth)
					targets = append(targets, t2...)
					retry = retry || r2
				}
			case *ast.SwitchStmt:
				for _, c := range ts.Body.List {
					t2, _, r2 := modeAssigns(c.(*ast.CaseClause).Body, false, depth)
					targets = append(targets, t2...)
					retry = retry || r2
				}
			case *ast.BlockStmt:
				t2, u2, r2 := modeAssigns(ts.List, top, depth)
				targets = append(targets, t2...)
				retry = retry || r2
				if u2 >= 0 {
					uncond = u2
				}
			case *ast.ExprStmt:
				// a call of another reader method: its mode assignments count as conditional
				if call, ok := ts.X.(*ast.CallExpr); ok && depth < 2 {
					if se, ok := call.Fun.(*ast.SelectorExpr); ok {
						if id, ok := se.X.(*ast.Ident); ok && id.Name == recv {
							if m := methods[se.Sel.Name]; m != nil && m.Body != nil {
								r2 := m.Recv.List[0].Names[0].Name
								if r2 == recv {
									t2, _, _ := modeAssigns(m.Body.List, false, depth+1)
									targets = append(targets, t2...)
								}
							}
						}
					}
				}
			}
		}
		return
	}
	type clause struct {
		code    int
		targets []int
		uncond  int
		retry   bool
		next    int // mode assigned to r.nextMode by a top-level statement of the clause, -1 none
	}
	nextAssign := func(stmts []ast.Stmt) int {
		res := -1
		for _, st := range stmts {
			if as, ok := st.(*ast.AssignStmt); ok {
				for i, lhs := range as.Lhs {
					if c09IsSel(lhs, recv, "nextMode") && i < len(as.Rhs) {
						if id, ok := as.Rhs[i].(*ast.Ident); ok {
							if ix, ok := modeIndex[id.Name]; ok {
								res = ix
								continue
							}
						}
						res = 2000
					}
				}
			}
		}
		return res
	}
	var clauses []clause
	defaultRaises := false
	var alwaysRaises func(stmts []ast.Stmt) bool
	alwaysRaises = func(stmts []ast.Stmt) bool {
		if len(stmts) == 0 {
			return false
		}
		switch last := stmts[len(stmts)-1].(type) {
		case *ast.ExprStmt:
			if call, ok := last.X.(*ast.CallExpr); ok {
				return c09IsSel(call.Fun, recv, "raise")
			}
		case *ast.SwitchStmt:
			hasDefault := false
			for _, c := range last.Body.List {
				cc := c.(*ast.CaseClause)
				if cc.List == nil {
					hasDefault = true
				}
				if !alwaysRaises(cc.Body) {
					return false
				}
			}
			return hasDefault
		}
		return false
	}
	for _, c := range sw.Body.List {
		cc := c.(*ast.CaseClause)
		if cc.List == nil {
			defaultRaises = alwaysRaises(cc.Body)
			continue
		}
		targets, uncond, retry := modeAssigns(cc.Body, true, 0)
		for _, lab := range cc.List {
			code := -1
			switch tl := lab.(type) {
			case *ast.Ident:
				if v, ok := runeConst[tl.Name]; ok {
					code = v
				}
			case *ast.BasicLit:
				if tl.Kind == token.CHAR {
					if r, _, _, err := strconv.UnquoteChar(tl.Value[1:len(tl.Value)-1], '\''); err == nil {
						code = int(r)
					}
				}
			}
			if code < 0 {
				return "", fmt.Errorf("case label %v of the reader switch is not a character constant", lab)
			}
			clauses = append(clauses, clause{code, targets, uncond, retry, nextAssign(cc.Body)})
		}
	}
	sort.Slice(clauses, func(i, j int) bool { return clauses[i].code < clauses[j].code })
	// r.nextMode assignments anywhere in read and the initial mode of the Read* entry points
	nextTargets := map[int]bool{}
	ast.Inspect(file, func(n ast.Node) bool {
		switch tn := n.(type) {
		case *ast.AssignStmt:
			for i, lhs := range tn.Lhs {
				if se, ok := lhs.(*ast.SelectorExpr); ok && se.Sel.Name == "nextMode" && i < len(tn.Rhs) {
					if id, ok := tn.Rhs[i].(*ast.Ident); ok {
						if ix, ok := modeIndex[id.Name]; ok {
							nextTargets[ix] = true
						} else {
							nextTargets[-1] = true
						}
					} else {
						nextTargets[-1] = true
					}
				}
			}
		case *ast.KeyValueExpr:
			if k, ok := tn.Key.(*ast.Ident); ok && (k.Name == "nextMode" || k.Name == "mode") {
				if id, ok := tn.Value.(*ast.Ident); ok {
					if ix, ok := modeIndex[id.Name]; ok {
						if k.Name == "nextMode" {
							nextTargets[ix] = true
						}
					}
				}
			}
		}
		return true
	})
	initial := -1
	ast.Inspect(file, func(n ast.Node) bool {
		if kv, ok := n.(*ast.KeyValueExpr); ok {
			if k, ok := kv.Key.(*ast.Ident); ok && k.Name == "mode" {
				if id, ok := kv.Value.(*ast.Ident); ok {
					if ix, ok := modeIndex[id.Name]; ok {
						if initial == -1 {
							initial = ix
						} else if initial != ix {
							initial = -2 // entry points disagree
						}
					}
				}
			}
		}
		return true
	})
	if initial < 0 {
		return "", fmt.Errorf("initial reader mode not found (reader{mode: …} literals)")
	}

	var b strings.Builder
	b.WriteString("/- GENERATED by /verif/extract (c09_reader.go) from code.go — do not edit. -/\n")
	b.WriteString("namespace SlipVerif.Gen.C09Reader\n\n")
	b.WriteString("def modeNames : List String := [")
	for i, n := range modeNames {
		if i > 0 {
			b.WriteString(", ")
		}
		fmt.Fprintf(&b, "%q", n)
	}
	b.WriteString("]\n\n")
	for _, n := range modeNames {
		fmt.Fprintf(&b, "def %s : List Nat := %s\n", n, c09NatList(strConst[n]))
	}
	b.WriteString("\ndef tables : List (List Nat) := [" + strings.Join(modeNames, ", ") + "]\n\n")
	fmt.Fprintf(&b, "def escByteMap : List Nat := %s\n\n", c09NatList(strConst["escByteMap"]))
	var handled, retry []int
	for _, c := range clauses {
		handled = append(handled, c.code)
		if c.retry {
			retry = append(retry, c.code)
		}
	}
	fmt.Fprintf(&b, "/-- action codes with a clause in the switch of (*reader).read -/\ndef handled : List Nat := %s\n\n", c09Ints(handled))
	fmt.Fprintf(&b, "/-- action codes whose clause ends in `goto Retry` -/\ndef retry : List Nat := %s\n\n", c09Ints(retry))
	b.WriteString("/-- (code, modes assigned to r.mode somewhere in the clause; 1000 = r.nextMode, 2000 = not a table name) -/\ndef targets : List (Nat × List Nat) := [")
	first := true
	for _, c := range clauses {
		if len(c.targets) == 0 {
			continue
		}
		ts := make([]int, len(c.targets))
		for i, t := range c.targets {
			if t < 0 {
				t = 2000
			}
			ts[i] = t
		}
		if !first {
			b.WriteString(", ")
		}
		first = false
		fmt.Fprintf(&b, "(%d, %s)", c.code, c09Ints(ts))
	}
	b.WriteString("]\n\n")
	b.WriteString("/-- (code, mode) for the clauses that end in that mode on every path -/\ndef uncond : List (Nat × Nat) := [")
	first = true
	for _, c := range clauses {
		if c.uncond < 0 {
			continue
		}
		if !first {
			b.WriteString(", ")
		}
		first = false
		fmt.Fprintf(&b, "(%d, %d)", c.code, c.uncond)
	}
	b.WriteString("]\n\n")
	b.WriteString("/-- (code, mode) for the clauses that assign r.nextMode -/\ndef nextAssign : List (Nat × Nat) := [")
	first = true
	for _, c := range clauses {
		if c.next < 0 {
			continue
		}
		if !first {
			b.WriteString(", ")
		}
		first = false
		fmt.Fprintf(&b, "(%d, %d)", c.code, c.next)
	}
	b.WriteString("]\n\n")
	var nts []int
	for t := range nextTargets {
		if t < 0 {
			t = 2000
		}
		nts = append(nts, t)
	}
	sort.Ints(nts)
	fmt.Fprintf(&b, "/-- modes r.nextMode is ever set to -/\ndef nextModes : List Nat := %s\n\n", c09Ints(nts))
	fmt.Fprintf(&b, "def initial : Nat := %d\n\n", initial)
	fmt.Fprintf(&b, "/-- readBlockSize: the size of the blocks the stream entry points read (0: constant not found) -/\ndef readBlockSize : Nat := %d\n\n", blockSize)
	fmt.Fprintf(&b, "/-- the default clause of the switch ends in r.raise on every path -/\ndef defaultRaises : Bool := %v\n\n", defaultRaises)
	b.WriteString("end SlipVerif.Gen.C09Reader\n")
	return b.String(), nil
}
