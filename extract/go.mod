module verif/extract

go 1.25
