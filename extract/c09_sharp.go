package main

// Gen/C09Sharp.lean — constants and guards of the reader clauses that do integer arithmetic on the
// numeric argument of the sharp macro (`#<n>A`, `#<n>R`), and the discipline of r.starts / r.stack,
// for C09 (Model/ReaderStack.lean). Extracted from <repo>/code.go with go/ast only. Clauses are found
// by what they do (the statement shapes below), not by the names of their case labels, and helper
// methods of the reader are followed one call level deep:
//   * the clause with `r.sharpNum = r.sharpNum*10 + …`: the constant K of the preceding guard
//     `if K < r.sharpNum { r.raise(…) }` (any comparison direction); no guard: K = MaxInt
//   * the clause with `make([]int, r.sharpNum)`: the constant of the guard `if K < r.sharpNum { raise }`
//   * the clause with `r.base = r.sharpNum`: the bounds of a guard `r.sharpNum < L || H < r.sharpNum`
//   * every `r.starts = append(r.starts, X)`: X is len(r.stack) and the next statement appends one
//     element to r.stack; r.starts shrinks only in the function that reads r.starts[len(r.starts)-1],
//     and that function raises first when r.starts is empty

import (
	"fmt"
	"go/ast"
	"go/parser"
	"go/token"
	"math/big"
	"os"
	"path/filepath"
	"strings"
)

func init() { generators["C09Sharp"] = genC09Sharp }

var c09MaxInt = new(big.Int).SetUint64(1<<63 - 1)

// c09ConstInt evaluates an integer constant expression over literals, math.MaxInt / MaxInt64 /
// MaxInt32 and package level constants (consts), with + - * / and parentheses.
func c09ConstInt(e ast.Expr, consts map[string]ast.Expr, depth int) (*big.Int, bool) {
	if depth > 8 {
		return nil, false
	}
	switch te := e.(type) {
	case *ast.BasicLit:
		if te.Kind == token.INT {
			v, ok := new(big.Int).SetString(strings.ReplaceAll(te.Value, "_", ""), 0)
			return v, ok
		}
	case *ast.ParenExpr:
		return c09ConstInt(te.X, consts, depth)
	case *ast.SelectorExpr:
		if id, ok := te.X.(*ast.Ident); ok && id.Name == "math" {
			switch te.Sel.Name {
			case "MaxInt", "MaxInt64":
				return new(big.Int).Set(c09MaxInt), true
			case "MaxInt32":
				return big.NewInt(1<<31 - 1), true
			case "MaxInt16":
				return big.NewInt(1<<15 - 1), true
			case "MaxUint16":
				return big.NewInt(1<<16 - 1), true
			case "MaxUint8":
				return big.NewInt(255), true
			}
		}
	case *ast.Ident:
		if v, ok := consts[te.Name]; ok {
			return c09ConstInt(v, consts, depth+1)
		}
	case *ast.CallExpr: // int(x), int64(x)
		if id, ok := te.Fun.(*ast.Ident); ok && (id.Name == "int" || id.Name == "int64") && len(te.Args) == 1 {
			return c09ConstInt(te.Args[0], consts, depth)
		}
	case *ast.BinaryExpr:
		a, ok1 := c09ConstInt(te.X, consts, depth)
		b, ok2 := c09ConstInt(te.Y, consts, depth)
		if !ok1 || !ok2 {
			return nil, false
		}
		switch te.Op {
		case token.ADD:
			return new(big.Int).Add(a, b), true
		case token.SUB:
			return new(big.Int).Sub(a, b), true
		case token.MUL:
			return new(big.Int).Mul(a, b), true
		case token.QUO:
			if b.Sign() == 0 {
				return nil, false
			}
			return new(big.Int).Quo(a, b), true
		case token.SHL:
			if b.IsInt64() && b.Int64() >= 0 && b.Int64() < 200 {
				return new(big.Int).Lsh(a, uint(b.Int64())), true
			}
		}
	}
	return nil, false
}

// c09PackageConsts collects the package level constant specs of the *.go files of dir.
func c09PackageConsts(dir string) map[string]ast.Expr {
	consts := map[string]ast.Expr{}
	entries, _ := os.ReadDir(dir)
	fset := token.NewFileSet()
	for _, en := range entries {
		if en.IsDir() || !strings.HasSuffix(en.Name(), ".go") || strings.HasSuffix(en.Name(), "_test.go") {
			continue
		}
		f, err := parser.ParseFile(fset, filepath.Join(dir, en.Name()), nil, 0)
		if err != nil {
			continue
		}
		for _, d := range f.Decls {
			gd, ok := d.(*ast.GenDecl)
			if !ok || gd.Tok != token.CONST {
				continue
			}
			for _, sp := range gd.Specs {
				vs := sp.(*ast.ValueSpec)
				for i, n := range vs.Names {
					if i < len(vs.Values) {
						consts[n.Name] = vs.Values[i]
					}
				}
			}
		}
	}
	return consts
}

func genC09Sharp(repo string) (string, error) {
	fset := token.NewFileSet()
	file, err := parser.ParseFile(fset, filepath.Join(repo, "code.go"), nil, 0)
	if err != nil {
		return "", err
	}
	consts := c09PackageConsts(repo)
	methods := map[string]*ast.FuncDecl{}
	for _, d := range file.Decls {
		if fd, ok := d.(*ast.FuncDecl); ok && fd.Recv != nil && len(fd.Recv.List) == 1 && fd.Body != nil {
			if st, ok := fd.Recv.List[0].Type.(*ast.StarExpr); ok {
				if id, ok := st.X.(*ast.Ident); ok && id.Name == "reader" && len(fd.Recv.List[0].Names) == 1 {
					methods[fd.Name.Name] = fd
				}
			}
		}
	}
	read := methods["read"]
	if read == nil {
		return "", fmt.Errorf("(*reader).read not found")
	}
	recv := read.Recv.List[0].Names[0].Name
	var sw *ast.SwitchStmt
	ast.Inspect(read.Body, func(n ast.Node) bool {
		if s, ok := n.(*ast.SwitchStmt); ok && sw == nil {
			if ix, ok := s.Tag.(*ast.IndexExpr); ok && c09IsSel(ix.X, recv, "mode") {
				sw = s
				return false
			}
		}
		return true
	})
	if sw == nil {
		return "", fmt.Errorf("switch on %s.mode[b] not found in read", recv)
	}
	isField := func(e ast.Expr, r, name string) bool {
		for {
			p, ok := e.(*ast.ParenExpr)
			if !ok {
				break
			}
			e = p.X
		}
		return c09IsSel(e, r, name)
	}
	// the statement lists a clause consists of: its own body plus the bodies of reader methods it
	// calls at statement level (one level deep), each with the receiver name that applies there
	type region struct {
		stmts []ast.Stmt
		recv  string
	}
	regionsOf := func(body []ast.Stmt) []region {
		rs := []region{{body, recv}}
		for _, st := range body {
			ast.Inspect(st, func(n ast.Node) bool {
				if call, ok := n.(*ast.CallExpr); ok {
					if se, ok := call.Fun.(*ast.SelectorExpr); ok {
						if id, ok := se.X.(*ast.Ident); ok && id.Name == recv {
							if m := methods[se.Sel.Name]; m != nil && se.Sel.Name != "raise" && se.Sel.Name != "partial" {
								rs = append(rs, region{m.Body.List, m.Recv.List[0].Names[0].Name})
							}
						}
					}
				}
				return true
			})
		}
		return rs
	}
	raises := func(stmts []ast.Stmt, r string) bool {
		found := false
		for _, st := range stmts {
			ast.Inspect(st, func(n ast.Node) bool {
				if call, ok := n.(*ast.CallExpr); ok {
					if c09IsSel(call.Fun, r, "raise") || c09IsSel(call.Fun, r, "partial") {
						found = true
					}
					if id, ok := call.Fun.(*ast.Ident); ok && (id.Name == "panic" || strings.HasSuffix(id.Name, "Panic")) {
						found = true
					}
				}
				return true
			})
		}
		return found
	}
	// bounds a raising guard puts on r.sharpNum: the clause goes on only with lo <= sharpNum <= hi
	type bounds struct{ lo, hi *big.Int }
	var condBounds func(e ast.Expr, r string, b *bounds)
	condBounds = func(e ast.Expr, r string, b *bounds) {
		switch te := e.(type) {
		case *ast.ParenExpr:
			condBounds(te.X, r, b)
		case *ast.BinaryExpr:
			if te.Op == token.LOR {
				condBounds(te.X, r, b)
				condBounds(te.Y, r, b)
				return
			}
			var k *big.Int
			var ok, fieldLeft bool
			if isField(te.X, r, "sharpNum") {
				k, ok = c09ConstInt(te.Y, consts, 0)
				fieldLeft = true
			} else if isField(te.Y, r, "sharpNum") {
				k, ok = c09ConstInt(te.X, consts, 0)
			}
			if !ok {
				return
			}
			op := te.Op
			if !fieldLeft { // K op field  ==  field op' K
				switch op {
				case token.LSS:
					op = token.GTR
				case token.LEQ:
					op = token.GEQ
				case token.GTR:
					op = token.LSS
				case token.GEQ:
					op = token.LEQ
				}
			}
			one := big.NewInt(1)
			switch op { // the guard raises when `field op K`
			case token.GTR: // field > K raises: field <= K goes on
				if b.hi == nil || k.Cmp(b.hi) < 0 {
					b.hi = k
				}
			case token.GEQ:
				v := new(big.Int).Sub(k, one)
				if b.hi == nil || v.Cmp(b.hi) < 0 {
					b.hi = v
				}
			case token.LSS: // field < K raises: field >= K goes on
				if b.lo == nil || k.Cmp(b.lo) > 0 {
					b.lo = k
				}
			case token.LEQ:
				v := new(big.Int).Add(k, one)
				if b.lo == nil || v.Cmp(b.lo) > 0 {
					b.lo = v
				}
			}
		}
	}
	// guardsBefore: the bounds established by raising if-statements that precede statement index `at`
	// in the list (at top level of the list)
	guardsBefore := func(stmts []ast.Stmt, at int, r string) bounds {
		var b bounds
		for _, st := range stmts[:at] {
			if is, ok := st.(*ast.IfStmt); ok && is.Else == nil && raises(is.Body.List, r) {
				condBounds(is.Cond, r, &b)
			}
		}
		return b
	}
	// find, in a statement list (searching nested blocks / switch clauses as lists of their own), the
	// statements that satisfy pred; report the guards that precede them in their own list and in the
	// enclosing lists
	type hit struct{ b bounds }
	var search func(stmts []ast.Stmt, r string, outer bounds, pred func(ast.Stmt, string) bool, hits *[]hit)
	merge := func(a, b bounds) bounds {
		res := a
		if b.lo != nil && (res.lo == nil || b.lo.Cmp(res.lo) > 0) {
			res.lo = b.lo
		}
		if b.hi != nil && (res.hi == nil || b.hi.Cmp(res.hi) < 0) {
			res.hi = b.hi
		}
		return res
	}
	search = func(stmts []ast.Stmt, r string, outer bounds, pred func(ast.Stmt, string) bool, hits *[]hit) {
		for i, st := range stmts {
			here := merge(outer, guardsBefore(stmts, i, r))
			if pred(st, r) {
				*hits = append(*hits, hit{here})
				continue
			}
			switch ts := st.(type) {
			case *ast.BlockStmt:
				search(ts.List, r, here, pred, hits)
			case *ast.IfStmt:
				search(ts.Body.List, r, here, pred, hits)
				if eb, ok := ts.Else.(*ast.BlockStmt); ok {
					search(eb.List, r, here, pred, hits)
				}
			case *ast.SwitchStmt:
				for _, c := range ts.Body.List {
					search(c.(*ast.CaseClause).Body, r, here, pred, hits)
				}
			case *ast.ForStmt:
				search(ts.Body.List, r, here, pred, hits)
			}
		}
	}
	containsExpr := func(n ast.Node, f func(ast.Expr) bool) bool {
		found := false
		ast.Inspect(n, func(x ast.Node) bool {
			if e, ok := x.(ast.Expr); ok && f(e) {
				found = true
			}
			return !found
		})
		return found
	}
	// predicates for the three statement shapes
	isAccum := func(st ast.Stmt, r string) bool {
		as, ok := st.(*ast.AssignStmt)
		if !ok || len(as.Lhs) != 1 || len(as.Rhs) != 1 || !isField(as.Lhs[0], r, "sharpNum") {
			return false
		}
		return containsExpr(as.Rhs[0], func(e ast.Expr) bool {
			be, ok := e.(*ast.BinaryExpr)
			return ok && be.Op == token.MUL && (isField(be.X, r, "sharpNum") || isField(be.Y, r, "sharpNum"))
		})
	}
	isMake := func(st ast.Stmt, r string) bool {
		if _, ok := st.(*ast.IfStmt); ok {
			return false
		}
		if _, ok := st.(*ast.SwitchStmt); ok {
			return false
		}
		if _, ok := st.(*ast.BlockStmt); ok {
			return false
		}
		return containsExpr(st, func(e ast.Expr) bool {
			call, ok := e.(*ast.CallExpr)
			if !ok {
				return false
			}
			id, ok := call.Fun.(*ast.Ident)
			if !ok || id.Name != "make" || len(call.Args) < 2 {
				return false
			}
			for _, a := range call.Args[1:] {
				if isField(a, r, "sharpNum") {
					return true
				}
			}
			return false
		})
	}
	isRadix := func(st ast.Stmt, r string) bool {
		as, ok := st.(*ast.AssignStmt)
		return ok && len(as.Lhs) == 1 && len(as.Rhs) == 1 && isField(as.Lhs[0], r, "base") && isField(as.Rhs[0], r, "sharpNum")
	}
	collect := func(pred func(ast.Stmt, string) bool) []hit {
		var hits []hit
		for _, c := range sw.Body.List {
			cc := c.(*ast.CaseClause)
			for _, rg := range regionsOf(cc.Body) {
				search(rg.stmts, rg.recv, bounds{}, pred, &hits)
			}
		}
		return hits
	}
	accum, makes, radix := collect(isAccum), collect(isMake), collect(isRadix)
	if len(accum) == 0 {
		return "", fmt.Errorf("no clause of the reader switch accumulates r.sharpNum (r.sharpNum = r.sharpNum*10 + …)")
	}
	if len(makes) == 0 {
		return "", fmt.Errorf("no clause of the reader switch allocates make(…, r.sharpNum)")
	}
	if len(radix) == 0 {
		return "", fmt.Errorf("no clause of the reader switch assigns r.base = r.sharpNum")
	}
	weakestHi := func(hs []hit) *big.Int { // the largest value any site lets through
		var res *big.Int
		for _, h := range hs {
			v := h.b.hi
			if v == nil {
				v = c09MaxInt
			}
			if res == nil || v.Cmp(res) > 0 {
				res = v
			}
		}
		return res
	}
	weakestLo := func(hs []hit) *big.Int {
		var res *big.Int
		for _, h := range hs {
			v := h.b.lo
			if v == nil {
				v = big.NewInt(0)
			}
			if res == nil || v.Cmp(res) < 0 {
				res = v
			}
		}
		return res
	}
	guard := weakestHi(accum)
	maxRank := weakestHi(makes)
	radixLo, radixHi := weakestLo(radix), weakestHi(radix)
	if radixHi.Cmp(c09MaxInt) == 0 { // no upper check at all
		radixLo, radixHi = big.NewInt(0), big.NewInt(0)
	}
	// --- r.starts / r.stack discipline (all reader methods)
	appendsOK, appendCount, shrinkOutside := true, 0, 0
	closeGuards := true
	isLenOf := func(e ast.Expr, r, field string) bool {
		call, ok := e.(*ast.CallExpr)
		if !ok || len(call.Args) != 1 {
			return false
		}
		id, ok := call.Fun.(*ast.Ident)
		return ok && id.Name == "len" && isField(call.Args[0], r, field)
	}
	isAppendTo := func(st ast.Stmt, r, field string) (ast.Expr, bool) {
		as, ok := st.(*ast.AssignStmt)
		if !ok || len(as.Lhs) != 1 || len(as.Rhs) != 1 || !isField(as.Lhs[0], r, field) {
			return nil, false
		}
		call, ok := as.Rhs[0].(*ast.CallExpr)
		if !ok || len(call.Args) != 2 || call.Ellipsis != token.NoPos {
			return nil, false
		}
		id, ok := call.Fun.(*ast.Ident)
		if !ok || id.Name != "append" || !isField(call.Args[0], r, field) {
			return nil, false
		}
		return call.Args[1], true
	}
	var walkLists func(stmts []ast.Stmt, f func(list []ast.Stmt))
	walkLists = func(stmts []ast.Stmt, f func(list []ast.Stmt)) {
		f(stmts)
		for _, st := range stmts {
			switch ts := st.(type) {
			case *ast.BlockStmt:
				walkLists(ts.List, f)
			case *ast.IfStmt:
				walkLists(ts.Body.List, f)
				switch e := ts.Else.(type) {
				case *ast.BlockStmt:
					walkLists(e.List, f)
				case *ast.IfStmt:
					walkLists([]ast.Stmt{e}, f)
				}
			case *ast.SwitchStmt:
				for _, c := range ts.Body.List {
					walkLists(c.(*ast.CaseClause).Body, f)
				}
			case *ast.TypeSwitchStmt:
				for _, c := range ts.Body.List {
					walkLists(c.(*ast.CaseClause).Body, f)
				}
			case *ast.ForStmt:
				walkLists(ts.Body.List, f)
			case *ast.RangeStmt:
				walkLists(ts.Body.List, f)
			case *ast.LabeledStmt:
				walkLists([]ast.Stmt{ts.Stmt}, f)
			}
		}
	}
	for _, m := range methods {
		r := m.Recv.List[0].Names[0].Name
		readsLast := containsExpr(m.Body, func(e ast.Expr) bool {
			ix, ok := e.(*ast.IndexExpr)
			if !ok || !isField(ix.X, r, "starts") {
				return false
			}
			be, ok := ix.Index.(*ast.BinaryExpr)
			return ok && be.Op == token.SUB && isLenOf(be.X, r, "starts")
		})
		if readsLast {
			// the first statement that mentions r.starts must be `if len(r.starts) == 0 { raise }`
			guarded := false
			for _, st := range m.Body.List {
				if !containsExpr(st, func(e ast.Expr) bool { return isField(e, r, "starts") }) {
					continue
				}
				if is, ok := st.(*ast.IfStmt); ok && raises(is.Body.List, r) {
					if be, ok := is.Cond.(*ast.BinaryExpr); ok {
						zero := func(e ast.Expr) bool { bl, ok := e.(*ast.BasicLit); return ok && bl.Value == "0" }
						one := func(e ast.Expr) bool { bl, ok := e.(*ast.BasicLit); return ok && bl.Value == "1" }
						switch {
						case be.Op == token.EQL && isLenOf(be.X, r, "starts") && zero(be.Y),
							be.Op == token.EQL && isLenOf(be.Y, r, "starts") && zero(be.X),
							be.Op == token.LSS && isLenOf(be.X, r, "starts") && one(be.Y),
							be.Op == token.LEQ && isLenOf(be.X, r, "starts") && zero(be.Y),
							be.Op == token.GTR && isLenOf(be.Y, r, "starts") && one(be.X),
							be.Op == token.GEQ && isLenOf(be.Y, r, "starts") && zero(be.X):
							guarded = true
						}
					}
				}
				break
			}
			if !guarded {
				closeGuards = false
			}
		}
		walkLists(m.Body.List, func(list []ast.Stmt) {
			for i, st := range list {
				if arg, ok := isAppendTo(st, r, "starts"); ok {
					appendCount++
					good := isLenOf(arg, r, "stack")
					if good {
						good = false
						if i+1 < len(list) {
							if _, ok := isAppendTo(list[i+1], r, "stack"); ok {
								good = true
							}
						}
						// or the next statement is a switch whose every clause appends to r.stack once
						if !good && i+1 < len(list) {
							if ss, ok := list[i+1].(*ast.SwitchStmt); ok {
								all := len(ss.Body.List) > 0
								hasDefault := false
								for _, c := range ss.Body.List {
									cc := c.(*ast.CaseClause)
									if cc.List == nil {
										hasDefault = true
									}
									n := 0
									walkLists(cc.Body, func(l2 []ast.Stmt) {
										for _, s2 := range l2 {
											if _, ok := isAppendTo(s2, r, "stack"); ok {
												n++
											}
										}
									})
									if n != 1 {
										all = false
									}
								}
								good = all && hasDefault
							}
						}
					}
					if !good {
						appendsOK = false
					}
					continue
				}
				if as, ok := st.(*ast.AssignStmt); ok {
					for _, lhs := range as.Lhs {
						if isField(lhs, r, "starts") && !readsLast {
							shrinkOutside++
						}
					}
				}
			}
		})
	}
	var b strings.Builder
	b.WriteString("-- GENERATED by /verif/extract (c09_sharp.go) from code.go — do not edit\n")
	b.WriteString("namespace SlipVerif.Gen.C09Sharp\n\n")
	fmt.Fprintf(&b, "/-- math.MaxInt -/\ndef maxInt : Nat := %s\n\n", c09MaxInt)
	fmt.Fprintf(&b, "/-- the largest r.sharpNum the clause `r.sharpNum = r.sharpNum*10 + digit` multiplies (its guard raises above it) -/\ndef guard : Nat := %s\n\n", guard)
	fmt.Fprintf(&b, "/-- the largest r.sharpNum that reaches make(…, r.sharpNum) (ArrayMaxRank) -/\ndef maxRank : Nat := %s\n\n", maxRank)
	fmt.Fprintf(&b, "/-- the bounds the clause `r.base = r.sharpNum` checks (0, 0: no check) -/\ndef radixLo : Nat := %s\ndef radixHi : Nat := %s\n\n", radixLo, radixHi)
	fmt.Fprintf(&b, "/-- every `r.starts = append(r.starts, X)` has X = len(r.stack) and is followed by one append to r.stack -/\ndef startsAppendsOK : Bool := %v\ndef startsAppendCount : Nat := %d\n\n", appendsOK, appendCount)
	fmt.Fprintf(&b, "/-- assignments that shrink / replace r.starts outside the function that reads r.starts[len(r.starts)-1] -/\ndef startsShrinkOutsideClose : Nat := %d\n\n", shrinkOutside)
	fmt.Fprintf(&b, "/-- that function raises first when r.starts is empty -/\ndef closeGuardsEmpty : Bool := %v\n\n", closeGuards)
	b.WriteString("end SlipVerif.Gen.C09Sharp\n")
	return b.String(), nil
}
