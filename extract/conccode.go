package main

// C17 — Gen/ConcCode.lean: what the Go code of the concurrency primitives says *now* about the
// few structural facts the abstract model of Model/Conc.lean takes for granted:
//
//   Channel.Range      receives only with the closed check (`for v := range ch` / `v, ok := <-ch`),
//                      never decides from len(ch) (model: Op.range ends exactly at closed ∧ empty)
//   Channel.Pop        one blocking receive (no select/default)          (model: pop blocks when empty)
//   ChannelPush.Call   one blocking send (no select/default)             (model: push blocks when full)
//   WithMutexLock.Call one Lock, the Unlock deferred unconditionally     (model: compile emits the
//                      unlock on the normal and on the error exit)
//   Run.Call           SynchronizeAll before the go statement            (let variables of the caller)
//   SetSynchronized.Call / Scope.SynchronizeAll  a mutex that is in use is never replaced; all
//                      parents are followed
//   Aux.findMethod     lookup, build and store of the effective method in ONE locked region whose
//                      unlock is deferred; Aux.AddMethod writes the tables under the lock
//   Package.Set        the new variable enters the table under the package lock
//   (*Printer) methods keep nothing between calls: no statement of a method of Printer (printer.go)
//                      assigns to, increments or appends to a package level variable of package slip
//                      (printing from several routines shares no printer state but the read-only
//                      print variables)
//
// Only counts and booleans are emitted, computed from the syntax tree (go/ast, no type checking);
// renaming variables, reordering `Lock(); defer Unlock()`, or wrapping the deferred unlock in a
// function literal that unlocks unconditionally do not change them.

import (
	"fmt"
	"go/ast"
	"go/parser"
	"go/token"
	"os"
	"path/filepath"
	"sort"
	"strings"
)

func init() { generators["ConcCode"] = genConcCode }

func ccFunc(repo, rel, recv, name string) (*ast.FuncDecl, error) {
	fset := token.NewFileSet()
	file, err := parser.ParseFile(fset, filepath.Join(repo, rel), nil, 0)
	if err != nil {
		return nil, err
	}
	for _, d := range file.Decls {
		fd, ok := d.(*ast.FuncDecl)
		if !ok || fd.Name.Name != name || fd.Body == nil {
			continue
		}
		got := ""
		if fd.Recv != nil && len(fd.Recv.List) == 1 {
			t := fd.Recv.List[0].Type
			if st, ok := t.(*ast.StarExpr); ok {
				t = st.X
			}
			if id, ok := t.(*ast.Ident); ok {
				got = id.Name
			}
		}
		if got == recv {
			return fd, nil
		}
	}
	return nil, fmt.Errorf("%s: func (%s) %s not found", rel, recv, name)
}

// method call `X.name(...)`
func ccIsCall(n ast.Node, name string) (*ast.CallExpr, bool) {
	ce, ok := n.(*ast.CallExpr)
	if !ok {
		return nil, false
	}
	if se, ok := ce.Fun.(*ast.SelectorExpr); ok && se.Sel.Name == name {
		return ce, true
	}
	return nil, false
}

func ccIsRecvExpr(e ast.Expr) bool {
	u, ok := e.(*ast.UnaryExpr)
	return ok && u.Op == token.ARROW
}

type ccRecvFacts struct {
	checked, unchecked, lenUses, sends int
	nonBlocking                        bool // a receive or send sits in a select that has a default clause
}

// receives / sends of a function body. A receive is "checked" when the closed state is looked at:
// `for … range ch` or `v, ok := <-ch` (also as the communication of a select clause).
func ccChanOps(body ast.Node, methodsThatReceive map[string]bool) ccRecvFacts {
	var f ccRecvFacts
	var walk func(n ast.Node, inDefaultSelect bool)
	walk = func(n ast.Node, inDef bool) {
		if n == nil {
			return
		}
		switch tn := n.(type) {
		case *ast.RangeStmt:
			// `range x` over a channel cannot be told from a slice without types: in the functions
			// inspected here (methods of Channel) the only thing ranged over is the channel
			f.checked++
			walk(tn.Body, inDef)
			return
		case *ast.AssignStmt:
			if len(tn.Lhs) == 2 && len(tn.Rhs) == 1 && ccIsRecvExpr(tn.Rhs[0]) {
				f.checked++
				if inDef {
					f.nonBlocking = true
				}
				return
			}
		case *ast.UnaryExpr:
			if tn.Op == token.ARROW {
				f.unchecked++
				if inDef {
					f.nonBlocking = true
				}
			}
		case *ast.SendStmt:
			f.sends++
			if inDef {
				f.nonBlocking = true
			}
		case *ast.SelectStmt:
			hasDefault := false
			for _, c := range tn.Body.List {
				if cc, ok := c.(*ast.CommClause); ok && cc.Comm == nil {
					hasDefault = true
				}
			}
			for _, c := range tn.Body.List {
				cc := c.(*ast.CommClause)
				if cc.Comm != nil {
					walk(cc.Comm, inDef || hasDefault)
				}
				for _, st := range cc.Body {
					walk(st, inDef)
				}
			}
			return
		case *ast.CallExpr:
			if id, ok := tn.Fun.(*ast.Ident); ok && (id.Name == "len" || id.Name == "cap") {
				f.lenUses++
			}
			if se, ok := tn.Fun.(*ast.SelectorExpr); ok && methodsThatReceive[se.Sel.Name] {
				// one call level deep: a helper that receives without the closed check
				f.unchecked++
			}
		}
		// generic descent
		ast.Inspect(n, func(c ast.Node) bool {
			if c == n {
				return true
			}
			if c != nil {
				walk(c, inDef)
			}
			return false
		})
	}
	walk(body, false)
	return f
}

type ccLockFacts struct {
	lockCalls, plainUnlocks int
	deferredUnlock          bool // a top-level `defer X.Unlock()` (or a deferred function literal that unlocks unconditionally) before the first loop
}

func ccUnconditionalUnlock(ds *ast.DeferStmt) bool {
	if _, ok := ccIsCall(ds.Call, "Unlock"); ok {
		return true
	}
	if fl, ok := ds.Call.Fun.(*ast.FuncLit); ok {
		for _, st := range fl.Body.List {
			if es, ok := st.(*ast.ExprStmt); ok {
				if _, ok := ccIsCall(es.X, "Unlock"); ok {
					return true
				}
			}
		}
	}
	return false
}

func ccLocks(fd *ast.FuncDecl) ccLockFacts {
	var f ccLockFacts
	for _, st := range fd.Body.List {
		if _, ok := st.(*ast.ForStmt); ok {
			break
		}
		if _, ok := st.(*ast.RangeStmt); ok {
			break
		}
		if ds, ok := st.(*ast.DeferStmt); ok && ccUnconditionalUnlock(ds) {
			f.deferredUnlock = true
		}
	}
	deferred := map[ast.Node]bool{}
	ast.Inspect(fd.Body, func(n ast.Node) bool {
		if ds, ok := n.(*ast.DeferStmt); ok {
			ast.Inspect(ds, func(c ast.Node) bool {
				if c != nil {
					deferred[c] = true
				}
				return true
			})
		}
		return true
	})
	ast.Inspect(fd.Body, func(n ast.Node) bool {
		if _, ok := ccIsCall(n, "Lock"); ok {
			f.lockCalls++
		}
		if _, ok := ccIsCall(n, "Unlock"); ok && !deferred[n] {
			f.plainUnlocks++
		}
		return true
	})
	return f
}

// every write to `X.field[...]` / `X.field = …` / delete(X.field, …) in the function lies in a
// locked region: the nearest preceding Lock/Unlock call (source order) is a Lock, or the unlock is deferred
func ccWritesLocked(fd *ast.FuncDecl, fields ...string) (writes int, allLocked bool) {
	isField := func(e ast.Expr) bool {
		if ix, ok := e.(*ast.IndexExpr); ok {
			e = ix.X
		}
		se, ok := e.(*ast.SelectorExpr)
		if !ok {
			return false
		}
		for _, f := range fields {
			if se.Sel.Name == f {
				return true
			}
		}
		return false
	}
	type ev struct {
		pos  token.Pos
		lock bool
	}
	var evs []ev
	deferredUnlock := ccLocks(fd).deferredUnlock
	ast.Inspect(fd.Body, func(n ast.Node) bool {
		if ce, ok := ccIsCall(n, "Lock"); ok {
			evs = append(evs, ev{ce.Pos(), true})
		}
		if ce, ok := ccIsCall(n, "Unlock"); ok {
			evs = append(evs, ev{ce.Pos(), false})
		}
		return true
	})
	allLocked = true
	check := func(pos token.Pos) {
		writes++
		state, seen := false, false
		var best token.Pos
		for _, e := range evs {
			if e.pos < pos && (!seen || best < e.pos) {
				best, state, seen = e.pos, e.lock, true
			}
		}
		if deferredUnlock {
			// the only Unlock is the deferred one: locked from the Lock call on
			state = false
			for _, e := range evs {
				if e.lock && e.pos < pos {
					state = true
				}
			}
		}
		if !state {
			allLocked = false
		}
	}
	ast.Inspect(fd.Body, func(n ast.Node) bool {
		switch tn := n.(type) {
		case *ast.AssignStmt:
			for _, l := range tn.Lhs {
				if isField(l) {
					check(l.Pos())
				}
			}
		case *ast.CallExpr:
			if id, ok := tn.Fun.(*ast.Ident); ok && id.Name == "delete" && len(tn.Args) > 0 && isField(tn.Args[0]) {
				check(tn.Pos())
			}
		}
		return true
	})
	return
}

// ccPackageVars are the names of the package level variables declared in the non-test Go files of
// directory dir.
func ccPackageVars(dir string) (map[string]bool, error) {
	entries, err := os.ReadDir(dir)
	if err != nil {
		return nil, err
	}
	vars := map[string]bool{}
	for _, e := range entries {
		if e.IsDir() || !strings.HasSuffix(e.Name(), ".go") || strings.HasSuffix(e.Name(), "_test.go") {
			continue
		}
		file, err := parser.ParseFile(token.NewFileSet(), filepath.Join(dir, e.Name()), nil, parser.SkipObjectResolution)
		if err != nil {
			return nil, err
		}
		for _, d := range file.Decls {
			gd, ok := d.(*ast.GenDecl)
			if !ok || gd.Tok != token.VAR {
				continue
			}
			for _, sp := range gd.Specs {
				if vs, ok := sp.(*ast.ValueSpec); ok {
					for _, n := range vs.Names {
						vars[n.Name] = true
					}
				}
			}
		}
	}
	return vars, nil
}

// ccSharedWrites lists the package level variables (of pkgVars) that the methods with receiver
// recv in file rel write: the target of an assignment, op-assignment or ++/-- whose root
// identifier (below index, slice, selector, star and parentheses) is not declared inside the method.
func ccSharedWrites(repo, rel, recv string, pkgVars map[string]bool) (methods int, written []string, err error) {
	fset := token.NewFileSet()
	file, err := parser.ParseFile(fset, filepath.Join(repo, rel), nil, 0)
	if err != nil {
		return 0, nil, err
	}
	seen := map[string]bool{}
	for _, d := range file.Decls {
		fd, ok := d.(*ast.FuncDecl)
		if !ok || fd.Body == nil || fd.Recv == nil || len(fd.Recv.List) != 1 {
			continue
		}
		t := fd.Recv.List[0].Type
		if st, ok := t.(*ast.StarExpr); ok {
			t = st.X
		}
		if id, ok := t.(*ast.Ident); !ok || id.Name != recv {
			continue
		}
		methods++
		target := func(e ast.Expr) {
			for {
				switch te := e.(type) {
				case *ast.IndexExpr:
					e = te.X
					continue
				case *ast.SliceExpr:
					e = te.X
					continue
				case *ast.SelectorExpr:
					e = te.X
					continue
				case *ast.StarExpr:
					e = te.X
					continue
				case *ast.ParenExpr:
					e = te.X
					continue
				}
				break
			}
			id, ok := e.(*ast.Ident)
			if !ok || !pkgVars[id.Name] {
				return
			}
			if id.Obj != nil && fd.Pos() <= id.Obj.Pos() && id.Obj.Pos() < fd.End() {
				return // a parameter, the receiver or a local variable of the same name
			}
			if !seen[id.Name] {
				seen[id.Name] = true
				written = append(written, id.Name)
			}
		}
		ast.Inspect(fd.Body, func(n ast.Node) bool {
			switch tn := n.(type) {
			case *ast.AssignStmt:
				if tn.Tok != token.DEFINE {
					for _, l := range tn.Lhs {
						target(l)
					}
				}
			case *ast.IncDecStmt:
				target(tn.X)
			}
			return true
		})
	}
	sort.Strings(written)
	return methods, written, nil
}

// every call `X.SetSynchronized(true)` sits in an if whose condition is `!Y.Synchronized()`
func ccSetSyncGuarded(fd *ast.FuncDecl) (calls int, guarded bool) {
	guarded = true
	var walk func(n ast.Node, g bool)
	walk = func(n ast.Node, g bool) {
		if n == nil {
			return
		}
		if is, ok := n.(*ast.IfStmt); ok {
			cg := false
			if u, ok := is.Cond.(*ast.UnaryExpr); ok && u.Op == token.NOT {
				if _, ok := ccIsCall(u.X, "Synchronized"); ok {
					cg = true
				}
			}
			walk(is.Init, g)
			walk(is.Body, g || cg)
			walk(is.Else, g)
			return
		}
		if ce, ok := ccIsCall(n, "SetSynchronized"); ok && len(ce.Args) == 1 {
			if id, ok := ce.Args[0].(*ast.Ident); ok && id.Name == "true" {
				calls++
				if !g {
					guarded = false
				}
			}
		}
		ast.Inspect(n, func(c ast.Node) bool {
			if c == n {
				return true
			}
			if c != nil {
				walk(c, g)
			}
			return false
		})
	}
	walk(fd.Body, false)
	return
}

func genConcCode(repo string) (string, error) {
	var b strings.Builder
	b.WriteString("/- GENERATED by extract/conccode.go from pkg/gi/{channel,channel-push,with-mutex-lock,run}.go,\n   pkg/clos/set-synchronized.go, scope.go, pkg/generic/uax.go, package.go, printer.go. Do not edit. -/\nnamespace SlipVerif.Gen.ConcCode\n\n")
	nat := func(name string, v int, doc string) {
		fmt.Fprintf(&b, "/-- %s -/\ndef %s : Nat := %d\n", doc, name, v)
	}
	boolean := func(name string, v bool, doc string) {
		fmt.Fprintf(&b, "/-- %s -/\ndef %s : Bool := %v\n", doc, name, v)
	}

	rangeFn, err := ccFunc(repo, "pkg/gi/channel.go", "Channel", "Range")
	if err != nil {
		return "", err
	}
	rf := ccChanOps(rangeFn.Body, map[string]bool{"Pop": true})
	nat("rangeChecked", rf.checked, "Channel.Range: receives that look at the closed state (`range ch`, `v, ok := <-ch`)")
	nat("rangeUnchecked", rf.unchecked, "Channel.Range: receives that do not (a closed, empty channel then delivers nil as if it were an item)")
	nat("rangeLenUses", rf.lenUses, "Channel.Range: uses of len/cap (a length read is stale as soon as another consumer receives)")
	boolean("rangeNonBlocking", rf.nonBlocking, "Channel.Range: a receive sits in a select with a default clause")

	popFn, err := ccFunc(repo, "pkg/gi/channel.go", "Channel", "Pop")
	if err != nil {
		return "", err
	}
	pf := ccChanOps(popFn.Body, nil)
	nat("popReceives", pf.checked+pf.unchecked, "Channel.Pop: receive expressions")
	boolean("popNonBlocking", pf.nonBlocking, "Channel.Pop: the receive sits in a select with a default clause (pop would return nil on an empty channel)")

	pushFn, err := ccFunc(repo, "pkg/gi/channel-push.go", "ChannelPush", "Call")
	if err != nil {
		return "", err
	}
	sf := ccChanOps(pushFn.Body, nil)
	nat("pushSends", sf.sends, "ChannelPush.Call: send statements")
	boolean("pushNonBlocking", sf.nonBlocking, "ChannelPush.Call: the send sits in a select with a default clause (the item would be dropped when the channel is full)")

	wml, err := ccFunc(repo, "pkg/gi/with-mutex-lock.go", "WithMutexLock", "Call")
	if err != nil {
		return "", err
	}
	wf := ccLocks(wml)
	nat("wmlLockCalls", wf.lockCalls, "WithMutexLock.Call: calls of Lock")
	boolean("wmlDeferredUnlock", wf.deferredUnlock, "WithMutexLock.Call: the Unlock is deferred unconditionally before the body is evaluated")
	nat("wmlPlainUnlocks", wf.plainUnlocks, "WithMutexLock.Call: Unlock calls outside a defer")

	runFn, err := ccFunc(repo, "pkg/gi/run.go", "Run", "Call")
	if err != nil {
		return "", err
	}
	var syncPos, goPos token.Pos
	ast.Inspect(runFn.Body, func(n ast.Node) bool {
		if ce, ok := ccIsCall(n, "SynchronizeAll"); ok && syncPos == 0 {
			syncPos = ce.Pos()
		}
		if gs, ok := n.(*ast.GoStmt); ok && goPos == 0 {
			goPos = gs.Pos()
		}
		return true
	})
	boolean("runSyncBeforeGo", syncPos != 0 && goPos != 0 && syncPos < goPos, "Run.Call: the caller's scope chain is synchronized before the go statement")

	ssFn, err := ccFunc(repo, "pkg/clos/set-synchronized.go", "SetSynchronized", "Call")
	if err != nil {
		return "", err
	}
	ssCalls, ssGuarded := ccSetSyncGuarded(ssFn)
	boolean("setSyncGuarded", 0 < ssCalls && ssGuarded, "SetSynchronized.Call: SetSynchronized(true) only when the instance is not synchronized yet (a mutex in use is never replaced)")

	saFn, err := ccFunc(repo, "scope.go", "Scope", "SynchronizeAll")
	if err != nil {
		return "", err
	}
	saCalls, saGuarded := ccSetSyncGuarded(saFn)
	boolean("syncAllGuarded", 0 < saCalls && saGuarded, "Scope.SynchronizeAll: a scope that is synchronized keeps its mutex")
	allParents := false
	ast.Inspect(saFn.Body, func(n ast.Node) bool {
		if rs, ok := n.(*ast.RangeStmt); ok {
			if se, ok := rs.X.(*ast.SelectorExpr); ok && se.Sel.Name == "parents" {
				ast.Inspect(rs.Body, func(c ast.Node) bool {
					if _, ok := ccIsCall(c, "SynchronizeAll"); ok {
						allParents = true
					}
					return true
				})
			}
		}
		return true
	})
	boolean("syncAllAllParents", allParents, "Scope.SynchronizeAll: recursion over every parent (range over parents)")

	fmFn, err := ccFunc(repo, "pkg/generic/uax.go", "Aux", "findMethod")
	if err != nil {
		return "", err
	}
	ff := ccLocks(fmFn)
	nat("findMethodLockCalls", ff.lockCalls, "Aux.findMethod: calls of Lock (one region: lookup, build and store of the effective method)")
	boolean("findMethodDeferredUnlock", ff.deferredUnlock, "Aux.findMethod: the Unlock is deferred (released even if building the method panics)")
	nat("findMethodPlainUnlocks", ff.plainUnlocks, "Aux.findMethod: Unlock calls outside a defer")

	amFn, err := ccFunc(repo, "pkg/generic/uax.go", "Aux", "AddMethod")
	if err != nil {
		return "", err
	}
	amWrites, amLocked := ccWritesLocked(amFn, "methods", "cache")
	boolean("addMethodWritesLocked", 0 < amWrites && amLocked, "Aux.AddMethod: the method table and the cache are written under the generic function's lock")

	setFn, err := ccFunc(repo, "package.go", "Package", "Set")
	if err != nil {
		return "", err
	}
	psWrites, psLocked := ccWritesLocked(setFn, "vars")
	boolean("pkgSetWriteLocked", 0 < psWrites && psLocked, "Package.Set: a new variable enters the variable table under the package lock")

	pkgVars, err := ccPackageVars(repo)
	if err != nil {
		return "", err
	}
	pm, pw, err := ccSharedWrites(repo, "printer.go", "Printer", pkgVars)
	if err != nil {
		return "", err
	}
	nat("printerMethods", pm, "printer.go: methods of Printer looked at")
	doc := "printer.go: package level variables written (assigned, op-assigned, incremented, appended to or stored into) by a method of Printer"
	if len(pw) > 0 {
		doc += ": " + strings.Join(pw, ", ")
	}
	nat("printerSharedWrites", len(pw), doc)

	b.WriteString("\nend SlipVerif.Gen.ConcCode\n")
	return b.String(), nil
}
