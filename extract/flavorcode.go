package main

// Gen/FlavorCode.lean (C11): the parts of the flavor code whose loop shape decides the order of
// inheritance and of the daemons.
//
//   * generic.insertMethod (pkg/generic/defmethod.go): the position computation is TRANSLATED,
//     statement by statement, into the Lean functions `insertStart` / `insertLoop` (for-range with
//     break / conditional increment over the inherit list, indexing the combination list), and the
//     final three-part append into `insertAt`. Theorems/GenC11.lean proves that the translation
//     computes the model's `splice` for every input.
//   * Flavor.inheritFlavor / DefFlavor (pkg/flavors), Method.InnerCall / BoundInnerCall / Call /
//     BoundCall (method.go), WhopLoc.Continue (whoploc.go): SHAPE facts — which loops run forward,
//     which backward, which stop at the first hit, where the membership guard and the append are.
//
// Names of receivers, parameters and loop variables are read from the declarations, so renaming
// them changes nothing. A statement the translator does not know makes the generator fail
// (EXTRACT-FAILED): the tie is then reported broken and the harness looks for a failing history.

import (
	"fmt"
	"go/ast"
	"go/parser"
	"go/token"
	"path/filepath"
	"strings"
)

func init() { generators["FlavorCode"] = genFlavorCode }

func fcParse(path string) (*ast.File, error) {
	return parser.ParseFile(token.NewFileSet(), path, nil, 0)
}

func fcFunc(f *ast.File, recv, name string) *ast.FuncDecl {
	for _, d := range f.Decls {
		fd, ok := d.(*ast.FuncDecl)
		if !ok || fd.Body == nil || fd.Name.Name != name {
			continue
		}
		r := ""
		if fd.Recv != nil && len(fd.Recv.List) > 0 {
			t := fd.Recv.List[0].Type
			if st, ok := t.(*ast.StarExpr); ok {
				t = st.X
			}
			if id, ok := t.(*ast.Ident); ok {
				r = id.Name
			}
		}
		if r == recv {
			return fd
		}
	}
	return nil
}

func fcParams(fd *ast.FuncDecl) (names []string) {
	for _, p := range fd.Type.Params.List {
		for _, n := range p.Names {
			names = append(names, n.Name)
		}
	}
	return
}

func fcRecvName(fd *ast.FuncDecl) string {
	if fd.Recv != nil && len(fd.Recv.List) > 0 && len(fd.Recv.List[0].Names) > 0 {
		return fd.Recv.List[0].Names[0].Name
	}
	return ""
}

func fcIdent(e ast.Expr, name string) bool {
	id, ok := e.(*ast.Ident)
	return ok && id.Name == name
}

// x.field
func fcSel(e ast.Expr, x, field string) bool {
	sel, ok := e.(*ast.SelectorExpr)
	return ok && sel.Sel.Name == field && fcIdent(sel.X, x)
}

// ---------------------------------------------------------------------------------------------
// insertMethod: translation of the position computation

type fcIns struct {
	class, super, combo string // parameter names
	m                   string // the local *slip.Method whose Combinations are edited
	pos                 string // the position variable
	loopVar             string
}

// integer expressions: pos, literals, len(m.Combinations), a + b, a - b
func (t *fcIns) intExpr(e ast.Expr) (string, error) {
	switch te := e.(type) {
	case *ast.ParenExpr:
		return t.intExpr(te.X)
	case *ast.Ident:
		if te.Name == t.pos {
			return "pos", nil
		}
	case *ast.BasicLit:
		if te.Kind == token.INT {
			return te.Value, nil
		}
	case *ast.CallExpr:
		if fcIdent(te.Fun, "len") && len(te.Args) == 1 && fcSel(te.Args[0], t.m, "Combinations") {
			return "srcs.length", nil
		}
	case *ast.BinaryExpr:
		if te.Op == token.ADD || te.Op == token.SUB {
			a, err := t.intExpr(te.X)
			if err != nil {
				return "", err
			}
			b, err := t.intExpr(te.Y)
			if err != nil {
				return "", err
			}
			return fmt.Sprintf("(%s %s %s)", a, te.Op.String(), b), nil
		}
	}
	return "", fmt.Errorf("insertMethod: integer expression not understood")
}

// class-valued expressions: class, super, the loop variable, m.Combinations[i].From
func (t *fcIns) classExpr(e ast.Expr) (string, error) {
	switch te := e.(type) {
	case *ast.ParenExpr:
		return t.classExpr(te.X)
	case *ast.Ident:
		switch te.Name {
		case t.class:
			return "(some cls)", nil
		case t.super:
			return "(some super)", nil
		case t.loopVar:
			if t.loopVar != "" {
				return "(some f)", nil
			}
		}
	case *ast.SelectorExpr:
		if te.Sel.Name == "From" {
			if ix, ok := te.X.(*ast.IndexExpr); ok && fcSel(ix.X, t.m, "Combinations") {
				i, err := t.intExpr(ix.Index)
				if err != nil {
					return "", err
				}
				return fmt.Sprintf("srcs[%s]?", i), nil
			}
		}
	}
	return "", fmt.Errorf("insertMethod: class expression not understood")
}

func (t *fcIns) boolExpr(e ast.Expr) (string, error) {
	switch te := e.(type) {
	case *ast.ParenExpr:
		return t.boolExpr(te.X)
	case *ast.UnaryExpr:
		if te.Op == token.NOT {
			x, err := t.boolExpr(te.X)
			if err != nil {
				return "", err
			}
			return "(!" + x + ")", nil
		}
	case *ast.BinaryExpr:
		switch te.Op {
		case token.LAND, token.LOR:
			a, err := t.boolExpr(te.X)
			if err != nil {
				return "", err
			}
			b, err := t.boolExpr(te.Y)
			if err != nil {
				return "", err
			}
			op := "&&"
			if te.Op == token.LOR {
				op = "||"
			}
			return fmt.Sprintf("(%s %s %s)", a, op, b), nil
		case token.EQL, token.NEQ:
			if a, err := t.classExpr(te.X); err == nil {
				b, err := t.classExpr(te.Y)
				if err != nil {
					return "", err
				}
				op := "=="
				if te.Op == token.NEQ {
					op = "!="
				}
				if b < a { // == is symmetric: one spelling whatever the order in the source
					a, b = b, a
				}
				return fmt.Sprintf("(%s %s %s)", a, op, b), nil
			}
			fallthrough
		case token.LSS, token.LEQ, token.GTR, token.GEQ:
			a, err := t.intExpr(te.X)
			if err != nil {
				return "", err
			}
			b, err := t.intExpr(te.Y)
			if err != nil {
				return "", err
			}
			tok := te.Op
			if tok == token.GTR || tok == token.GEQ { // a > b is b < a: one spelling
				a, b = b, a
				tok = map[token.Token]token.Token{token.GTR: token.LSS, token.GEQ: token.LEQ}[tok]
			}
			op := map[token.Token]string{token.LSS: "<", token.LEQ: "<=", token.EQL: "==", token.NEQ: "!="}[tok]
			return fmt.Sprintf("(decide (%s %s %s))", a, strings.Replace(strings.Replace(op, "==", "=", 1), "!=", "≠", 1), b), nil
		}
	}
	return "", fmt.Errorf("insertMethod: condition not understood")
}

// one simple statement of the loop body / the prologue: pos++, pos += 1, break, continue
func (t *fcIns) simple(s ast.Stmt) (string, error) {
	switch ts := s.(type) {
	case *ast.IncDecStmt:
		if fcIdent(ts.X, t.pos) && ts.Tok == token.INC {
			return "inc", nil
		}
	case *ast.AssignStmt:
		if len(ts.Lhs) == 1 && fcIdent(ts.Lhs[0], t.pos) && ts.Tok == token.ADD_ASSIGN {
			if bl, ok := ts.Rhs[0].(*ast.BasicLit); ok && bl.Value == "1" {
				return "inc", nil
			}
		}
	case *ast.BranchStmt:
		if ts.Label == nil && ts.Tok == token.BREAK {
			return "break", nil
		}
		if ts.Label == nil && ts.Tok == token.CONTINUE {
			return "continue", nil
		}
	}
	return "", fmt.Errorf("insertMethod: statement not understood")
}

// stmts → a Lean expression of type Nat; `next` is what runs after the last statement with the
// current `pos`; `brk` what a break yields; `cont` what a continue yields
func (t *fcIns) block(stmts []ast.Stmt, next, brk, cont string, ind string) (string, error) {
	if len(stmts) == 0 {
		return next, nil
	}
	rest, err := t.block(stmts[1:], next, brk, cont, ind)
	if err != nil {
		return "", err
	}
	act := func(a string) (string, error) {
		switch a {
		case "inc":
			return fmt.Sprintf("(let pos := pos + 1\n%s  %s)", ind, rest), nil
		case "break":
			if brk == "" {
				return "", fmt.Errorf("insertMethod: break outside the loop")
			}
			return brk, nil
		case "continue":
			if cont == "" {
				return "", fmt.Errorf("insertMethod: continue outside the loop")
			}
			return cont, nil
		}
		return "", fmt.Errorf("insertMethod: statement not understood")
	}
	one := func(b *ast.BlockStmt) (string, error) {
		if b == nil || len(b.List) == 0 {
			return rest, nil
		}
		if len(b.List) != 1 {
			return "", fmt.Errorf("insertMethod: branch with more than one statement")
		}
		a, err := t.simple(b.List[0])
		if err != nil {
			return "", err
		}
		return act(a)
	}
	switch ts := stmts[0].(type) {
	case *ast.IfStmt:
		if ts.Init != nil {
			return "", fmt.Errorf("insertMethod: if with init statement")
		}
		c, err := t.boolExpr(ts.Cond)
		if err != nil {
			return "", err
		}
		th, err := one(ts.Body)
		if err != nil {
			return "", err
		}
		el := rest
		if ts.Else != nil {
			eb, ok := ts.Else.(*ast.BlockStmt)
			if !ok {
				return "", fmt.Errorf("insertMethod: else-if chain")
			}
			if el, err = one(eb); err != nil {
				return "", err
			}
		}
		return fmt.Sprintf("if %s then\n%s  %s\n%selse\n%s  %s", c, ind, th, ind, ind, el), nil
	default:
		a, err := t.simple(ts)
		if err != nil {
			return "", err
		}
		return act(a)
	}
}

func genInsertMethod(repo string, b *strings.Builder) error {
	f, err := fcParse(filepath.Join(repo, "pkg", "generic", "defmethod.go"))
	if err != nil {
		return err
	}
	fd := fcFunc(f, "", "insertMethod")
	if fd == nil {
		return fmt.Errorf("func insertMethod not found in pkg/generic/defmethod.go")
	}
	ps := fcParams(fd)
	if len(ps) != 4 {
		return fmt.Errorf("insertMethod: expected (class, super, method, combo)")
	}
	t := &fcIns{class: ps[0], super: ps[1], combo: ps[3]}
	// the local method: `m := mm[method.Name]`
	var stmts []ast.Stmt
	for _, s := range fd.Body.List {
		if as, ok := s.(*ast.AssignStmt); ok && as.Tok == token.DEFINE && len(as.Lhs) == 1 && t.m == "" {
			if ix, ok := as.Rhs[0].(*ast.IndexExpr); ok {
				if sel, ok := ix.Index.(*ast.SelectorExpr); ok && sel.Sel.Name == "Name" && fcIdent(sel.X, ps[2]) {
					t.m = as.Lhs[0].(*ast.Ident).Name
				}
			}
		}
	}
	if t.m == "" {
		return fmt.Errorf("insertMethod: the method table lookup was not found")
	}
	// statements from the declaration of the position variable on
	start := -1
	for i, s := range fd.Body.List {
		if ds, ok := s.(*ast.DeclStmt); ok {
			if gd, ok := ds.Decl.(*ast.GenDecl); ok && gd.Tok == token.VAR && len(gd.Specs) == 1 {
				vs := gd.Specs[0].(*ast.ValueSpec)
				if len(vs.Names) == 1 && len(vs.Values) == 0 && fcIdent(vs.Type, "int") {
					t.pos, start = vs.Names[0].Name, i+1
				}
			}
		}
		if as, ok := s.(*ast.AssignStmt); ok && as.Tok == token.DEFINE && len(as.Lhs) == 1 && len(as.Rhs) == 1 {
			if bl, ok := as.Rhs[0].(*ast.BasicLit); ok && bl.Value == "0" {
				t.pos, start = as.Lhs[0].(*ast.Ident).Name, i+1
			}
		}
		if start >= 0 {
			break
		}
	}
	if start < 0 {
		return fmt.Errorf("insertMethod: the position variable was not found")
	}
	stmts = fd.Body.List[start:]
	// prologue statements up to the range loop
	li := -1
	for i, s := range stmts {
		if _, ok := s.(*ast.RangeStmt); ok {
			li = i
			break
		}
	}
	if li < 0 {
		return fmt.Errorf("insertMethod: the range loop over the inherit list was not found")
	}
	loop := stmts[li].(*ast.RangeStmt)
	call, ok := loop.X.(*ast.CallExpr)
	if !ok || len(call.Args) != 0 {
		return fmt.Errorf("insertMethod: the loop does not range over class.InheritsList()")
	}
	if sel, ok := call.Fun.(*ast.SelectorExpr); !ok || sel.Sel.Name != "InheritsList" || !fcIdent(sel.X, t.class) {
		return fmt.Errorf("insertMethod: the loop does not range over class.InheritsList()")
	}
	if loop.Key != nil && !fcIdent(loop.Key, "_") {
		return fmt.Errorf("insertMethod: the loop uses the index")
	}
	lv, ok := loop.Value.(*ast.Ident)
	if !ok {
		return fmt.Errorf("insertMethod: the loop has no value variable")
	}
	pro, err := t.block(stmts[:li], "pos", "", "", "  ")
	if err != nil {
		return err
	}
	t.loopVar = lv.Name
	body, err := t.block(loop.Body.List, "insertLoop super srcs rest pos", "pos", "insertLoop super srcs rest pos", "    ")
	if err != nil {
		return err
	}
	t.loopVar = ""
	// epilogue: the three-part append  m.Combinations[:pos] ++ [combo] ++ m.Combinations[pos:]
	var parts []string
	for _, s := range stmts[li+1:] {
		ast.Inspect(s, func(n ast.Node) bool {
			ce, ok := n.(*ast.CallExpr)
			if !ok || !fcIdent(ce.Fun, "append") || len(ce.Args) != 2 {
				return true
			}
			switch a := ce.Args[1].(type) {
			case *ast.Ident:
				if a.Name == t.combo && !ce.Ellipsis.IsValid() {
					parts = append(parts, "new")
				}
			case *ast.SliceExpr:
				if fcSel(a.X, t.m, "Combinations") && ce.Ellipsis.IsValid() {
					switch {
					case a.Low == nil && fcIdent(a.High, t.pos):
						parts = append(parts, "take")
					case a.High == nil && fcIdent(a.Low, t.pos):
						parts = append(parts, "drop")
					}
				}
			}
			return true
		})
	}
	// ast.Inspect visits an outer append before the inner one it wraps: order the parts by the
	// way the statements nest is not needed, the three must simply all be there, each once, with
	// "new" appended after "take" (same statement order as written)
	cnt := map[string]int{}
	for _, p := range parts {
		cnt[p]++
	}
	if cnt["take"] != 1 || cnt["new"] != 1 || cnt["drop"] != 1 {
		return fmt.Errorf("insertMethod: the result is not m.Combinations[:pos] ++ [combo] ++ m.Combinations[pos:]")
	}
	fmt.Fprintf(b, `/-- generic.insertMethod, the statements between the declaration of the position and the loop:
    srcs = the flavors the combinations of the method come from, in table order -/
def insertStart (cls : Nat) (srcs : List Nat) : Nat :=
  let pos := 0
  %s

/-- generic.insertMethod, the loop over class.InheritsList() (break = the position is final) -/
def insertLoop (super : Nat) (srcs : List Nat) : List Nat → Nat → Nat
  | [], pos => pos
  | f :: rest, pos =>
    %s

/-- generic.insertMethod: where the new combination goes in the table of an inheriting class -/
def insertPos (cls super : Nat) (inh : List Nat) (srcs : List Nat) : Nat :=
  insertLoop super srcs inh (insertStart cls srcs)

/-- the result: m.Combinations[:pos] ++ [combo] ++ m.Combinations[pos:] -/
def insertAt {α : Type} (pos : Nat) (c : α) (cs : List α) : List α := cs.take pos ++ c :: cs.drop pos

`, pro, body)
	return nil
}

// ---------------------------------------------------------------------------------------------
// shape facts

type fcFact struct {
	name, doc string
	val       bool
}

// a `for _, v := range <recv>.<field>` statement
func fcRangeOver(s ast.Stmt, x, field string) (*ast.RangeStmt, string) {
	rs, ok := s.(*ast.RangeStmt)
	if !ok || !fcSel(rs.X, x, field) {
		return nil, ""
	}
	if v, ok := rs.Value.(*ast.Ident); ok {
		return rs, v.Name
	}
	if k, ok := rs.Key.(*ast.Ident); ok {
		return rs, k.Name
	}
	return rs, ""
}

func fcContainsCall(n ast.Node, pred func(*ast.CallExpr) bool) bool {
	found := false
	ast.Inspect(n, func(x ast.Node) bool {
		if ce, ok := x.(*ast.CallExpr); ok && pred(ce) {
			found = true
		}
		return !found
	})
	return found
}

func fcHasReturn(n ast.Node) bool {
	found := false
	ast.Inspect(n, func(x ast.Node) bool {
		if _, ok := x.(*ast.ReturnStmt); ok {
			found = true
		}
		return !found
	})
	return found
}

func fcHasBreak(n ast.Node) bool {
	found := false
	ast.Inspect(n, func(x ast.Node) bool {
		if bs, ok := x.(*ast.BranchStmt); ok && bs.Tok == token.BREAK {
			found = true
		}
		return !found
	})
	return found
}

func fcMentions(n ast.Node, name string) bool {
	found := false
	ast.Inspect(n, func(x ast.Node) bool {
		if id, ok := x.(*ast.Ident); ok && id.Name == name {
			found = true
		}
		return !found
	})
	return found
}

// `x.field = append(x.field, v)` (the new element goes last)
func fcAppendLast(s ast.Stmt, field string) (x string, ok bool) {
	as, isAs := s.(*ast.AssignStmt)
	if !isAs || len(as.Lhs) != 1 || len(as.Rhs) != 1 {
		return "", false
	}
	lhs, isSel := as.Lhs[0].(*ast.SelectorExpr)
	ce, isCall := as.Rhs[0].(*ast.CallExpr)
	if !isSel || !isCall || lhs.Sel.Name != field || !fcIdent(ce.Fun, "append") || len(ce.Args) != 2 || ce.Ellipsis.IsValid() {
		return "", false
	}
	rs, isSel2 := ce.Args[0].(*ast.SelectorExpr)
	if !isSel2 || rs.Sel.Name != field {
		return "", false
	}
	lx, ok1 := lhs.X.(*ast.Ident)
	rx, ok2 := rs.X.(*ast.Ident)
	if !ok1 || !ok2 || lx.Name != rx.Name {
		return "", false
	}
	return lx.Name, true
}

// is the loop `for i := len(X) - 1; 0 <= i; i--` (or `i >= 0`)
func fcReverseIndexLoop(s ast.Stmt) bool {
	fs, ok := s.(*ast.ForStmt)
	if !ok || fs.Init == nil || fs.Post == nil {
		return false
	}
	post, ok := fs.Post.(*ast.IncDecStmt)
	if !ok || post.Tok != token.DEC {
		return false
	}
	init, ok := fs.Init.(*ast.AssignStmt)
	if !ok || len(init.Rhs) != 1 {
		return false
	}
	be, ok := init.Rhs[0].(*ast.BinaryExpr)
	return ok && be.Op == token.SUB && fcContainsCall(be.X, func(ce *ast.CallExpr) bool { return fcIdent(ce.Fun, "len") })
}

// direction of the loops of an inner-call function, by the daemon field they look at
func fcInnerShape(fd *ast.FuncDecl) (before, primary, after string) {
	m := fcRecvName(fd)
	for _, s := range fd.Body.List {
		dir := ""
		var body *ast.BlockStmt
		if rs, _ := fcRangeOver(s, m, "Combinations"); rs != nil {
			dir, body = "forward", rs.Body
		} else if fs, ok := s.(*ast.ForStmt); ok && fcReverseIndexLoop(s) {
			dir, body = "reverse", fs.Body
		} else {
			continue
		}
		field := ""
		ast.Inspect(body, func(x ast.Node) bool {
			if sel, ok := x.(*ast.SelectorExpr); ok {
				switch sel.Sel.Name {
				case "Before", "Primary", "After":
					if field == "" {
						field = sel.Sel.Name
					}
				}
			}
			return true
		})
		if fcHasBreak(body) {
			dir += "-first-only"
		}
		switch field {
		case "Before":
			before += dir
		case "Primary":
			primary += dir
		case "After":
			after += dir
		}
	}
	return
}

func genFlavorCode(repo string) (string, error) {
	var b strings.Builder
	b.WriteString("/- GENERATED by /verif/extract (flavorcode.go) from pkg/generic/defmethod.go, pkg/flavors/flavor.go,\n   pkg/flavors/defflavor.go, method.go, whoploc.go — do not edit. -/\nnamespace SlipVerif.Gen.FlavorCode\n\n")
	if err := genInsertMethod(repo, &b); err != nil {
		return "", err
	}
	var facts []fcFact
	add := func(name, doc string, v bool) { facts = append(facts, fcFact{name, doc, v}) }

	// --- Flavor.inheritFlavor
	ff, err := fcParse(filepath.Join(repo, "pkg", "flavors", "flavor.go"))
	if err != nil {
		return "", err
	}
	inh := fcFunc(ff, "Flavor", "inheritFlavor")
	if inh == nil {
		return "", fmt.Errorf("Flavor.inheritFlavor not found")
	}
	obj := fcRecvName(inh)
	ips := fcParams(inh)
	if obj == "" || len(ips) != 1 {
		return "", fmt.Errorf("Flavor.inheritFlavor: unexpected signature")
	}
	cf := ips[0]
	guardAt, appendAt, recurseAt := -1, -1, -1
	recForward, recSkipsVanilla := false, false
	varsGuard, kwGuard, combosGuard := false, false, false
	firstWins := func(rs *ast.RangeStmt, field string) bool {
		// every assignment obj.<field>[k] = v inside the loop is under `if _, has := obj.<field>[k]; !has`
		ok, any := true, false
		var walk func(n ast.Node, guarded bool)
		walk = func(n ast.Node, guarded bool) {
			switch tn := n.(type) {
			case *ast.BlockStmt:
				for _, s := range tn.List {
					walk(s, guarded)
				}
			case *ast.IfStmt:
				g := guarded
				if as, isAs := tn.Init.(*ast.AssignStmt); isAs && len(as.Lhs) == 2 && len(as.Rhs) == 1 {
					if ix, isIx := as.Rhs[0].(*ast.IndexExpr); isIx && fcSel(ix.X, obj, field) {
						if ue, isU := tn.Cond.(*ast.UnaryExpr); isU && ue.Op == token.NOT && fcIdent(ue.X, as.Lhs[1].(*ast.Ident).Name) {
							g = true
						}
					}
				}
				walk(tn.Body, g)
				if tn.Else != nil {
					walk(tn.Else, guarded)
				}
			case *ast.AssignStmt:
				for _, l := range tn.Lhs {
					if ix, isIx := l.(*ast.IndexExpr); isIx && fcSel(ix.X, obj, field) {
						any = true
						if !guarded {
							ok = false
						}
					}
				}
			}
		}
		walk(rs.Body, false)
		return ok && any
	}
	for i, s := range inh.Body.List {
		if rs, v := fcRangeOver(s, obj, "inherit"); rs != nil && guardAt < 0 {
			// for _, f2 := range obj.inherit { if f2 == cf { return } }
			if fcHasReturn(rs.Body) && fcMentions(rs.Body, cf) && fcMentions(rs.Body, v) {
				guardAt = i
			}
		}
		if x, ok := fcAppendLast(s, "inherit"); ok && x == obj {
			if ce := s.(*ast.AssignStmt).Rhs[0].(*ast.CallExpr); fcIdent(ce.Args[1], cf) {
				appendAt = i
			}
		}
		if rs, _ := fcRangeOver(s, cf, "defaultVars"); rs != nil {
			varsGuard = firstWins(rs, "defaultVars")
		}
		if rs, _ := fcRangeOver(s, cf, "keywords"); rs != nil {
			kwGuard = firstWins(rs, "keywords")
		}
		if rs, _ := fcRangeOver(s, cf, "methods"); rs != nil {
			// inner: for _, ic := range im.Combinations { if !m.HasMethodFromClass(..) { m.Combinations = append(m.Combinations, ic) } }
			ast.Inspect(rs.Body, func(n ast.Node) bool {
				irs, ok := n.(*ast.RangeStmt)
				if !ok {
					return true
				}
				if sel, ok := irs.X.(*ast.SelectorExpr); !ok || sel.Sel.Name != "Combinations" {
					return true
				}
				iv, _ := irs.Value.(*ast.Ident)
				if iv == nil || len(irs.Body.List) != 1 {
					return true
				}
				is, ok := irs.Body.List[0].(*ast.IfStmt)
				if !ok || len(is.Body.List) != 1 || is.Else != nil {
					return true
				}
				ue, ok := is.Cond.(*ast.UnaryExpr)
				if !ok || ue.Op != token.NOT || !fcContainsCall(ue.X, func(ce *ast.CallExpr) bool {
					sel, ok := ce.Fun.(*ast.SelectorExpr)
					return ok && sel.Sel.Name == "HasMethodFromClass" && fcMentions(ce, iv.Name)
				}) {
					return true
				}
				if _, ok := fcAppendLast(is.Body.List[0], "Combinations"); ok {
					if ce := is.Body.List[0].(*ast.AssignStmt).Rhs[0].(*ast.CallExpr); fcIdent(ce.Args[1], iv.Name) {
						combosGuard = true
					}
				}
				return true
			})
		}
		if rs, v := fcRangeOver(s, cf, "inherit"); rs != nil {
			if fcContainsCall(rs.Body, func(ce *ast.CallExpr) bool {
				sel, ok := ce.Fun.(*ast.SelectorExpr)
				return ok && sel.Sel.Name == "inheritFlavor" && fcIdent(sel.X, obj) && len(ce.Args) == 1 && fcIdent(ce.Args[0], v)
			}) {
				recurseAt, recForward = i, true
				recSkipsVanilla = fcMentions(rs.Body, "vanilla")
			}
		}
	}
	add("inheritGuardFirst", "inheritFlavor returns at once when the component is already on the inherit list, before anything is merged", guardAt == 0)
	add("inheritAppendsLast", "inheritFlavor puts the component at the END of the inherit list, before it merges anything from the component's own components", appendAt > guardAt && guardAt >= 0 && recurseAt > appendAt)
	add("inheritRecursesForward", "inheritFlavor then walks the component's own inherit list front to back, skipping vanilla-flavor", recForward && recSkipsVanilla)
	add("inheritVarsFirstWins", "an instance variable default is only taken when the flavor has none yet", varsGuard)
	add("inheritKeywordsFirstWins", "an init keyword default is only taken when the flavor has none yet", kwGuard)
	add("inheritCombosAppendIfAbsent", "a combination is appended last, and only when the table has none from that flavor", combosGuard)

	// --- DefFlavor: components in the order written, vanilla-flavor after them
	df, err := fcParse(filepath.Join(repo, "pkg", "flavors", "defflavor.go"))
	if err != nil {
		return "", err
	}
	dfn := fcFunc(df, "", "DefFlavor")
	if dfn == nil {
		return "", fmt.Errorf("DefFlavor not found")
	}
	compLoop, vanillaAfter := -1, -1
	dps := fcParams(dfn)
	for i, s := range dfn.Body.List {
		if rs, ok := s.(*ast.RangeStmt); ok && len(dps) >= 3 && fcIdent(rs.X, dps[2]) && compLoop < 0 {
			if fcContainsCall(rs.Body, func(ce *ast.CallExpr) bool {
				sel, ok := ce.Fun.(*ast.SelectorExpr)
				return ok && sel.Sel.Name == "inheritFlavor"
			}) {
				compLoop = i
			}
		}
		if is, ok := s.(*ast.IfStmt); ok && fcMentions(is.Cond, "noVanilla") && fcContainsCall(is.Body, func(ce *ast.CallExpr) bool {
			sel, ok := ce.Fun.(*ast.SelectorExpr)
			return ok && sel.Sel.Name == "inheritFlavor" && fcMentions(ce, "vanilla")
		}) {
			vanillaAfter = i
		}
	}
	add("defflavorComponentsInOrder", "DefFlavor inherits the components in one forward loop over the list as written", compLoop >= 0)
	add("defflavorVanillaLast", "DefFlavor inherits vanilla-flavor after all components (unless :no-vanilla-flavor)", compLoop >= 0 && vanillaAfter > compLoop)

	// --- Method.InnerCall / BoundInnerCall / Call / BoundCall, WhopLoc.Continue
	mf, err := fcParse(filepath.Join(repo, "method.go"))
	if err != nil {
		return "", err
	}
	for _, nm := range []string{"InnerCall", "BoundInnerCall"} {
		fd := fcFunc(mf, "Method", nm)
		if fd == nil {
			return "", fmt.Errorf("Method.%s not found", nm)
		}
		bf, pr, af := fcInnerShape(fd)
		low := strings.ToLower(nm[:1]) + nm[1:]
		add(low+"BeforeForward", "Method."+nm+" runs every :before daemon in table order", bf == "forward")
		add(low+"PrimaryFirstOnly", "Method."+nm+" runs the first primary in table order and stops", pr == "forward-first-only")
		add(low+"AfterReverse", "Method."+nm+" runs every :after daemon in reverse table order", af == "reverse")
	}
	for _, nm := range []string{"Call", "BoundCall"} {
		fd := fcFunc(mf, "Method", nm)
		if fd == nil {
			return "", fmt.Errorf("Method.%s not found", nm)
		}
		m := fcRecvName(fd)
		okShape := false
		for _, s := range fd.Body.List {
			if rs, _ := fcRangeOver(s, m, "Combinations"); rs != nil {
				// the first combination with a whopper takes the call: a return inside an `if … Wrap …`
				ast.Inspect(rs.Body, func(n ast.Node) bool {
					if is, ok := n.(*ast.IfStmt); ok && fcHasReturn(is.Body) {
						mentionsWrap := false
						ast.Inspect(is.Cond, func(x ast.Node) bool {
							if sel, ok := x.(*ast.SelectorExpr); ok && sel.Sel.Name == "Wrap" {
								mentionsWrap = true
							}
							return true
						})
						if mentionsWrap {
							okShape = true
						}
					}
					return true
				})
			}
		}
		low := strings.ToLower(nm[:1]) + nm[1:]
		add(low+"FirstWhopperForward", "Method."+nm+" hands the call to the first combination in table order that has a whopper", okShape)
	}
	wf, err := fcParse(filepath.Join(repo, "whoploc.go"))
	if err != nil {
		return "", err
	}
	cont := fcFunc(wf, "WhopLoc", "Continue")
	if cont == nil {
		return "", fmt.Errorf("WhopLoc.Continue not found")
	}
	wl := fcRecvName(cont)
	contShape, contKeepsLoc, contNoBreak := false, true, false
	for _, s := range cont.Body.List {
		fs, ok := s.(*ast.ForStmt)
		if !ok || fs.Init == nil || fs.Post == nil {
			continue
		}
		init, ok1 := fs.Init.(*ast.AssignStmt)
		post, ok2 := fs.Post.(*ast.IncDecStmt)
		if !ok1 || !ok2 || post.Tok != token.INC || len(init.Rhs) != 1 {
			continue
		}
		// i := wl.Current + 1
		if be, ok := init.Rhs[0].(*ast.BinaryExpr); ok && be.Op == token.ADD && fcSel(be.X, wl, "Current") {
			if bl, ok := be.Y.(*ast.BasicLit); ok && bl.Value == "1" && fcHasReturn(fs.Body) {
				contShape = true
				contNoBreak = !fcHasBreak(fs.Body)
			}
		}
	}
	ast.Inspect(cont.Body, func(n ast.Node) bool {
		switch tn := n.(type) {
		case *ast.AssignStmt:
			for _, l := range tn.Lhs {
				if fcSel(l, wl, "Current") {
					contKeepsLoc = false
				}
			}
		case *ast.IncDecStmt:
			if fcSel(tn.X, wl, "Current") {
				contKeepsLoc = false
			}
		}
		return true
	})
	add("continueNextWhopperForward", "WhopLoc.Continue looks for the next whopper from the position after the current one, front to back", contShape)
	add("continueSkipsWhopperless", "WhopLoc.Continue passes over combinations without a whopper (it never stops the search early)", contNoBreak)
	add("continueKeepsLocation", "WhopLoc.Continue does not move the location: a second continue runs the same rest again", contKeepsLoc)

	for _, f := range facts {
		fmt.Fprintf(&b, "/-- %s -/\ndef %s : Bool := %v\n\n", f.doc, f.name, f.val)
	}
	b.WriteString("end SlipVerif.Gen.FlavorCode\n")
	return b.String(), nil
}
