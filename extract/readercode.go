package main

// Gen/ReaderCode.lean: the token / string storage code of slip's reader (code.go), translated
// statement by statement into Lean state transformers over `SlipVerif.ReaderGo.R` (C02).
//
// Units:
//   * blockTail  — what (*reader).read does behind its byte loop: `r.pos++`, then the `if r.more`
//                  branch (what is carried to the next block) or the end-of-input branch
//   * makeToken  — (*reader).makeToken: carry ++ src[tokenStart:pos], carry reset
//   * oneCond / oneExit — the one-form exit inside the byte loop (`if r.one && 0 < len(r.code)`)
//   * caseBody   — the body of every `case` of the byte switch that the translator understands
//                  (`none` for the others)
//
// The translator understands assignments to the reader's int / byte-slice / mode / bool fields,
// `append`, slicing, `len`, `make([]byte, n)` + `copy`, `if`/`else`, expression `switch`, `break`,
// `return`, `goto` (recorded as an effect) and calls: a call of another method of the reader is
// inlined when its body is translatable (one level deep: a helper extraction does not change the
// result), otherwise it is recorded, in order, in the effect list `eff` (so is every append to
// r.stack / r.code / r.starts). Control flow is translated in continuation style as in numimpl.go.
//
// Modes are numbered in declaration order (`m_valueMode` …): the kernel compares numbers fast.
//
// blockTail, makeToken and the one-form exit must be translatable (otherwise the generator fails:
// EXTRACT-FAILED, the tie is reported as broken); an untranslatable case body is `none`.
// Theorems/GenC02.lean compares the translated code with the model's `endBlock`, `makeToken`,
// `oneCheck` and `body2` on an exhaustive finite set of states.

import (
	"fmt"
	"go/ast"
	"go/constant"
	"go/parser"
	"go/token"
	"path/filepath"
	"strings"
)

func init() { generators["ReaderCode"] = genReaderCode }

var rcIntFields = map[string]bool{"tokenStart": true, "pos": true, "base": true, "rbase": true, "sharpNum": true,
	"rcnt": true, "rn": true, "line": true, "lineStart": true}
var rcBytesFields = map[string]bool{"carry": true, "buf": true}
var rcModeFields = map[string]bool{"mode": true, "nextMode": true}
var rcBoolFields = map[string]bool{"more": true, "one": true}
var rcLenFields = map[string]string{"code": "codeLen", "stack": "stackLen", "starts": "startsLen"}

type rcTr struct {
	env     *constEnv
	methods map[string]*ast.FuncDecl
	recv    string
	locals  map[string]string // name → kind: int, bytes, obj, bool
	depth   int
}

type rcErr struct{ msg string }

func (e rcErr) Error() string { return e.msg }

func rcFail(format string, args ...any) error { return rcErr{fmt.Sprintf(format, args...)} }

func (t *rcTr) isRecv(e ast.Expr) bool {
	id, ok := e.(*ast.Ident)
	return ok && id.Name == t.recv
}

// expr translates an expression; kinds: int, bool, bytes, mode.
func (t *rcTr) expr(e ast.Expr) (string, string, error) {
	switch te := e.(type) {
	case *ast.ParenExpr:
		return t.expr(te.X)
	case *ast.BasicLit:
		v := constant.MakeFromLiteral(te.Value, te.Kind, 0)
		if v.Kind() == constant.Int {
			n, _ := constant.Int64Val(v)
			return fmt.Sprintf("(%d : Int)", n), "int", nil
		}
		return "", "", rcFail("literal %s", te.Value)
	case *ast.Ident:
		if k, ok := t.locals[te.Name]; ok {
			return te.Name, k, nil
		}
		switch te.Name {
		case "true", "false":
			return te.Name, "bool", nil
		}
		if _, ok := t.env.strs[te.Name]; ok && strings.HasSuffix(te.Name, "Mode") {
			return "m_" + te.Name, "mode", nil
		}
		if c, ok := t.env.chars[te.Name]; ok {
			return fmt.Sprintf("(%d : Int)", c), "int", nil
		}
		if c, ok := t.env.ints[te.Name]; ok {
			return fmt.Sprintf("(%d : Int)", c), "int", nil
		}
		return "", "", rcFail("identifier %s", te.Name)
	case *ast.SelectorExpr:
		if t.isRecv(te.X) {
			n := te.Sel.Name
			switch {
			case rcIntFields[n]:
				return "r." + n, "int", nil
			case rcBytesFields[n]:
				return "r." + n, "bytes", nil
			case rcModeFields[n]:
				return "r." + n, "mode", nil
			case rcBoolFields[n]:
				return "r." + n, "bool", nil
			}
			return "", "", rcFail("field %s", n)
		}
		if id, ok := te.X.(*ast.Ident); ok && id.Name == "math" && te.Sel.Name == "MaxInt" {
			return "(9223372036854775807 : Int)", "int", nil
		}
		return "", "", rcFail("selector %s", te.Sel.Name)
	case *ast.CallExpr:
		fn, _ := te.Fun.(*ast.Ident)
		if fn == nil {
			// []byte(x) and the like are not needed
			return "", "", rcFail("call")
		}
		switch fn.Name {
		case "len":
			if len(te.Args) != 1 {
				return "", "", rcFail("len")
			}
			if sel, ok := te.Args[0].(*ast.SelectorExpr); ok && t.isRecv(sel.X) {
				if f, ok := rcLenFields[sel.Sel.Name]; ok {
					return "r." + f, "int", nil
				}
			}
			x, k, err := t.expr(te.Args[0])
			if err != nil {
				return "", "", err
			}
			if k != "bytes" {
				return "", "", rcFail("len of %s", k)
			}
			return "(len " + x + ")", "int", nil
		case "append":
			if len(te.Args) != 2 {
				return "", "", rcFail("append")
			}
			x, k, err := t.expr(te.Args[0])
			if err != nil {
				return "", "", err
			}
			if k != "bytes" {
				return "", "", rcFail("append to %s", k)
			}
			y, ky, err := t.expr(te.Args[1])
			if err != nil {
				return "", "", err
			}
			if te.Ellipsis.IsValid() {
				if ky != "bytes" {
					return "", "", rcFail("append %s...", ky)
				}
				return "(" + x + " ++ " + y + ")", "bytes", nil
			}
			if ky != "int" {
				return "", "", rcFail("append element %s", ky)
			}
			return "(" + x + " ++ [byteOf " + y + "])", "bytes", nil
		case "make":
			if len(te.Args) == 2 {
				if at, ok := te.Args[0].(*ast.ArrayType); ok && at.Len == nil {
					if id, ok := at.Elt.(*ast.Ident); ok && id.Name == "byte" {
						n, k, err := t.expr(te.Args[1])
						if err != nil {
							return "", "", err
						}
						if k == "int" {
							return "(zeros " + n + ")", "bytes", nil
						}
					}
				}
			}
			return "", "", rcFail("make")
		case "int", "rune", "byte", "int64":
			if len(te.Args) == 1 {
				x, k, err := t.expr(te.Args[0])
				if err == nil && k == "int" {
					return x, "int", nil
				}
			}
			return "", "", rcFail("conversion")
		}
		return "", "", rcFail("call of %s", fn.Name)
	case *ast.SliceExpr:
		x, k, err := t.expr(te.X)
		if err != nil {
			return "", "", err
		}
		if k != "bytes" || te.Slice3 {
			return "", "", rcFail("slice of %s", k)
		}
		lo, hi := "(0 : Int)", "(len "+x+")"
		if te.Low != nil {
			l, kl, err := t.expr(te.Low)
			if err != nil || kl != "int" {
				return "", "", rcFail("slice bound")
			}
			lo = l
		}
		if te.High != nil {
			h, kh, err := t.expr(te.High)
			if err != nil || kh != "int" {
				return "", "", rcFail("slice bound")
			}
			hi = h
		}
		return "(sl " + x + " " + lo + " " + hi + ")", "bytes", nil
	case *ast.IndexExpr:
		ix, ki, err := t.expr(te.Index)
		if err != nil || ki != "int" {
			return "", "", rcFail("index")
		}
		if id, ok := te.X.(*ast.Ident); ok {
			if _, ok := t.env.strs[id.Name]; ok && t.locals[id.Name] == "" {
				return "(byteAt SlipVerif.Gen.ReaderTables." + id.Name + " " + ix + ")", "int", nil
			}
		}
		x, k, err := t.expr(te.X)
		if err != nil || k != "bytes" {
			return "", "", rcFail("index of %s", k)
		}
		return "(byteAt " + x + " " + ix + ")", "int", nil
	case *ast.UnaryExpr:
		x, k, err := t.expr(te.X)
		if err != nil {
			return "", "", err
		}
		switch {
		case te.Op == token.NOT && k == "bool":
			return "(!" + x + ")", "bool", nil
		case te.Op == token.SUB && k == "int":
			return "(-" + x + ")", "int", nil
		}
		return "", "", rcFail("unary %s", te.Op)
	case *ast.BinaryExpr:
		x, kx, err := t.expr(te.X)
		if err != nil {
			return "", "", err
		}
		y, ky, err := t.expr(te.Y)
		if err != nil {
			return "", "", err
		}
		if kx != ky {
			return "", "", rcFail("operands %s %s %s", kx, te.Op, ky)
		}
		switch te.Op {
		case token.ADD, token.SUB, token.MUL:
			if kx == "int" {
				return "(" + x + " " + te.Op.String() + " " + y + ")", "int", nil
			}
		case token.QUO:
			if kx == "int" {
				return "(Int.tdiv " + x + " " + y + ")", "int", nil
			}
		case token.LSS, token.LEQ, token.GTR, token.GEQ:
			if kx == "int" {
				op := map[token.Token]string{token.LSS: "<", token.LEQ: "≤", token.GTR: ">", token.GEQ: "≥"}[te.Op]
				return "(decide (" + x + " " + op + " " + y + "))", "bool", nil
			}
		case token.EQL:
			if kx == "int" || kx == "mode" || kx == "bool" {
				return "(" + x + " == " + y + ")", "bool", nil
			}
		case token.NEQ:
			if kx == "int" || kx == "mode" || kx == "bool" {
				return "(" + x + " != " + y + ")", "bool", nil
			}
		case token.LAND:
			if kx == "bool" {
				return "(" + x + " && " + y + ")", "bool", nil
			}
		case token.LOR:
			if kx == "bool" {
				return "(" + x + " || " + y + ")", "bool", nil
			}
		}
		return "", "", rcFail("binary %s on %s", te.Op, kx)
	}
	return "", "", rcFail("expression %T", e)
}

func rcEff(name string) string {
	return fmt.Sprintf("let r := { r with eff := r.eff ++ [%q] };\n", name)
}

// cutBreak cuts a case body at a top-level `break`.
func cutBreak(list []ast.Stmt) []ast.Stmt {
	for i, s := range list {
		if bs, ok := s.(*ast.BranchStmt); ok && bs.Tok == token.BREAK && bs.Label == nil {
			return list[:i]
		}
	}
	return list
}

// stmts translates a statement list into a Lean expression of type R (the state after it).
func (t *rcTr) stmts(list []ast.Stmt) (string, error) {
	if len(list) == 0 {
		return "r", nil
	}
	s, rest := list[0], list[1:]
	seq := func(prefix string) (string, error) {
		k, err := t.stmts(rest)
		if err != nil {
			return "", err
		}
		return prefix + k, nil
	}
	switch ts := s.(type) {
	case *ast.EmptyStmt:
		return t.stmts(rest)
	case *ast.BlockStmt:
		return t.stmts(append(append([]ast.Stmt{}, ts.List...), rest...))
	case *ast.LabeledStmt:
		return t.stmts(append([]ast.Stmt{ts.Stmt}, rest...))
	case *ast.DeclStmt:
		gd, ok := ts.Decl.(*ast.GenDecl)
		if !ok || gd.Tok != token.VAR {
			return "", rcFail("declaration")
		}
		prefix := ""
		for _, sp := range gd.Specs {
			vs := sp.(*ast.ValueSpec)
			id, _ := vs.Type.(*ast.Ident)
			if id == nil || id.Name != "Object" || len(vs.Values) != 0 {
				return "", rcFail("var declaration")
			}
			for _, n := range vs.Names {
				t.locals[n.Name] = "obj"
				prefix += "let " + n.Name + " : List Nat := [];\n"
			}
		}
		return seq(prefix)
	case *ast.IncDecStmt:
		x, k, err := t.expr(ts.X)
		if err != nil || k != "int" {
			return "", rcFail("inc/dec")
		}
		op := "+"
		if ts.Tok == token.DEC {
			op = "-"
		}
		return t.assign(ts.X, "("+x+" "+op+" 1)", "int", rest)
	case *ast.AssignStmt:
		if len(ts.Lhs) != 1 || len(ts.Rhs) != 1 {
			return "", rcFail("multi assignment")
		}
		lhs, rhs := ts.Lhs[0], ts.Rhs[0]
		// appends to the object stacks are effects
		if sel, ok := lhs.(*ast.SelectorExpr); ok && t.isRecv(sel.X) {
			if f, ok := rcLenFields[sel.Sel.Name]; ok {
				if ce, ok := rhs.(*ast.CallExpr); ok {
					if fn, ok := ce.Fun.(*ast.Ident); ok && fn.Name == "append" {
						return seq(fmt.Sprintf("let r := { r with %s := r.%s + 1, eff := r.eff ++ [%q] };\n", f, f, "push:"+sel.Sel.Name))
					}
				}
				return "", rcFail("assignment to r.%s", sel.Sel.Name)
			}
		}
		// obj = String(bytes)
		if id, ok := lhs.(*ast.Ident); ok && t.locals[id.Name] == "obj" {
			if ce, ok := rhs.(*ast.CallExpr); ok && len(ce.Args) == 1 {
				if fn, ok := ce.Fun.(*ast.Ident); ok {
					x, k, err := t.expr(ce.Args[0])
					if err == nil && k == "bytes" {
						return seq("let " + id.Name + " := " + x + ";\n" +
							fmt.Sprintf("let r := { r with obj := %s, eff := r.eff ++ [%q] };\n", id.Name, "make:"+fn.Name))
					}
				}
			}
			return "", rcFail("object assignment")
		}
		if ts.Tok != token.ASSIGN && ts.Tok != token.DEFINE {
			// op-assign
			x, kx, err := t.expr(lhs)
			if err != nil {
				return "", err
			}
			y, ky, err := t.expr(rhs)
			if err != nil {
				return "", err
			}
			if kx != "int" || ky != "int" {
				return "", rcFail("op-assign")
			}
			op := map[token.Token]string{token.ADD_ASSIGN: "+", token.SUB_ASSIGN: "-", token.MUL_ASSIGN: "*"}[ts.Tok]
			if op == "" {
				return "", rcFail("op-assign %s", ts.Tok)
			}
			return t.assign(lhs, "("+x+" "+op+" "+y+")", "int", rest)
		}
		y, ky, err := t.expr(rhs)
		if err != nil {
			// x := F(…) with a call the translator does not look into: an opaque object
			if id, ok := lhs.(*ast.Ident); ok && ts.Tok == token.DEFINE {
				if ce, ok := rhs.(*ast.CallExpr); ok {
					name := "?"
					switch fn := ce.Fun.(type) {
					case *ast.Ident:
						name = fn.Name
					case *ast.SelectorExpr:
						name = fn.Sel.Name
					}
					t.locals[id.Name] = "obj"
					return seq("let " + id.Name + " : List Nat := [];\n" + rcEff("def:"+name))
				}
			}
			return "", err
		}
		if ts.Tok == token.DEFINE {
			id, ok := lhs.(*ast.Ident)
			if !ok {
				return "", rcFail("define")
			}
			t.locals[id.Name] = ky
			return seq("let " + id.Name + " := " + y + ";\n")
		}
		return t.assign(lhs, y, ky, rest)
	case *ast.ExprStmt:
		ce, ok := ts.X.(*ast.CallExpr)
		if !ok {
			return "", rcFail("expression statement")
		}
		if fn, ok := ce.Fun.(*ast.Ident); ok && fn.Name == "copy" && len(ce.Args) == 2 {
			src, ks, err := t.expr(ce.Args[1])
			if err != nil || ks != "bytes" {
				return "", rcFail("copy source")
			}
			dst, off := ce.Args[0], "(0 : Int)"
			if se, ok := dst.(*ast.SliceExpr); ok && se.High == nil && se.Low != nil {
				o, ko, err := t.expr(se.Low)
				if err != nil || ko != "int" {
					return "", rcFail("copy offset")
				}
				dst, off = se.X, o
			}
			id, ok := dst.(*ast.Ident)
			if !ok || t.locals[id.Name] != "bytes" {
				return "", rcFail("copy destination")
			}
			return seq("let " + id.Name + " := copyTo " + id.Name + " " + off + " " + src + ";\n")
		}
		if sel, ok := ce.Fun.(*ast.SelectorExpr); ok && t.isRecv(sel.X) {
			if inl, ok := t.inline(sel.Sel.Name, ce.Args); ok {
				return seq("let r := (" + inl + ");\n")
			}
			return seq(rcEff(sel.Sel.Name))
		}
		if fn, ok := ce.Fun.(*ast.Ident); ok {
			return seq(rcEff("call:" + fn.Name))
		}
		if sel, ok := ce.Fun.(*ast.SelectorExpr); ok {
			return seq(rcEff("call:" + sel.Sel.Name))
		}
		return "", rcFail("call statement")
	case *ast.ReturnStmt:
		if len(ts.Results) == 0 {
			return "r", nil
		}
		if len(ts.Results) == 1 {
			x, k, err := t.expr(ts.Results[0])
			if err == nil && k == "bytes" {
				return "{ r with ret := " + x + " }", nil
			}
		}
		return "", rcFail("return value")
	case *ast.BranchStmt:
		if ts.Tok == token.GOTO && ts.Label != nil {
			return fmt.Sprintf("{ r with eff := r.eff ++ [%q] }", "goto:"+ts.Label.Name), nil
		}
		return "", rcFail("branch %s", ts.Tok)
	case *ast.IfStmt:
		if ts.Init != nil {
			return "", rcFail("if with init")
		}
		c, k, err := t.expr(ts.Cond)
		if err != nil {
			return "", err
		}
		if k != "bool" {
			return "", rcFail("condition %s", k)
		}
		saved := t.copyLocals()
		th, err := t.stmts(append(append([]ast.Stmt{}, ts.Body.List...), rest...))
		if err != nil {
			return "", err
		}
		t.locals = saved
		var elList []ast.Stmt
		if ts.Else != nil {
			elList = []ast.Stmt{ts.Else}
		}
		saved = t.copyLocals()
		el, err := t.stmts(append(elList, rest...))
		if err != nil {
			return "", err
		}
		t.locals = saved
		return "if " + c + " then (\n" + th + "\n) else (\n" + el + "\n)", nil
	case *ast.SwitchStmt:
		if ts.Init != nil || ts.Tag == nil {
			return "", rcFail("switch form")
		}
		tag, ktag, err := t.expr(ts.Tag)
		if err != nil {
			return "", err
		}
		var out strings.Builder
		var deflt []ast.Stmt
		closers := 0
		for _, cs := range ts.Body.List {
			cc := cs.(*ast.CaseClause)
			if cc.List == nil {
				deflt = cutBreak(cc.Body)
				continue
			}
			var conds []string
			for _, e := range cc.List {
				v, kv, err := t.expr(e)
				if err != nil {
					return "", err
				}
				if kv != ktag {
					return "", rcFail("case %s against %s", kv, ktag)
				}
				conds = append(conds, "("+tag+" == "+v+")")
			}
			saved := t.copyLocals()
			body, err := t.stmts(append(append([]ast.Stmt{}, cutBreak(cc.Body)...), rest...))
			if err != nil {
				return "", err
			}
			t.locals = saved
			out.WriteString("if " + strings.Join(conds, " || ") + " then (\n" + body + "\n) else (\n")
			closers++
		}
		saved := t.copyLocals()
		body, err := t.stmts(append(append([]ast.Stmt{}, deflt...), rest...))
		if err != nil {
			return "", err
		}
		t.locals = saved
		out.WriteString(body)
		out.WriteString(strings.Repeat("\n)", closers))
		return out.String(), nil
	}
	return "", rcFail("statement %T", s)
}

func (t *rcTr) copyLocals() map[string]string {
	m := map[string]string{}
	for k, v := range t.locals {
		m[k] = v
	}
	return m
}

func (t *rcTr) assign(lhs ast.Expr, val, kind string, rest []ast.Stmt) (string, error) {
	k, err := t.stmts(rest)
	if sel, ok := lhs.(*ast.SelectorExpr); ok && t.isRecv(sel.X) {
		_, kf, ferr := t.expr(lhs)
		if ferr != nil {
			return "", ferr
		}
		if kf != kind {
			return "", rcFail("assignment of %s to %s field", kind, kf)
		}
		if err != nil {
			return "", err
		}
		return "let r := { r with " + sel.Sel.Name + " := " + val + " };\n" + k, nil
	}
	if id, ok := lhs.(*ast.Ident); ok && t.locals[id.Name] == kind && kind != "" {
		if err != nil {
			return "", err
		}
		return "let " + id.Name + " := " + val + ";\n" + k, nil
	}
	return "", rcFail("assignment target")
}

// inline translates a call of another reader method whose body is translatable (one level deep).
func (t *rcTr) inline(name string, args []ast.Expr) (string, bool) {
	fd := t.methods[name]
	if fd == nil || fd.Body == nil || t.depth > 0 || fd.Type.Results != nil {
		return "", false
	}
	var names []string
	for _, f := range fd.Type.Params.List {
		for _, n := range f.Names {
			names = append(names, n.Name)
		}
	}
	if len(names) != len(args) {
		return "", false
	}
	var sb strings.Builder
	sub := &rcTr{env: t.env, methods: t.methods, recv: "r", locals: map[string]string{}, depth: t.depth + 1}
	if fd.Recv != nil && len(fd.Recv.List) == 1 && len(fd.Recv.List[0].Names) == 1 {
		if fd.Recv.List[0].Names[0].Name != t.recv {
			return "", false
		}
	}
	for i, a := range args {
		x, k, err := t.expr(a)
		if err != nil {
			return "", false
		}
		sub.locals[names[i]] = k
		sb.WriteString("let " + names[i] + " := " + x + ";\n")
	}
	body, err := sub.stmts(fd.Body.List)
	if err != nil {
		return "", false
	}
	sb.WriteString(body)
	return sb.String(), true
}

func genReaderCode(repo string) (string, error) {
	fset := token.NewFileSet()
	f, err := parser.ParseFile(fset, filepath.Join(repo, "code.go"), nil, 0)
	if err != nil {
		return "", err
	}
	env := &constEnv{strs: map[string]string{}, chars: map[string]int64{}, ints: map[string]int64{}}
	env.collect(f)
	methods := map[string]*ast.FuncDecl{}
	for _, d := range f.Decls {
		if fd, ok := d.(*ast.FuncDecl); ok && fd.Recv != nil && len(fd.Recv.List) == 1 {
			if se, ok := fd.Recv.List[0].Type.(*ast.StarExpr); ok {
				if id, ok := se.X.(*ast.Ident); ok && id.Name == "reader" {
					methods[fd.Name.Name] = fd
				}
			}
		}
	}
	read := methods["read"]
	if read == nil || read.Body == nil {
		return "", fmt.Errorf("(*reader).read not found in code.go")
	}
	recv := "r"
	if len(read.Recv.List[0].Names) == 1 {
		recv = read.Recv.List[0].Names[0].Name
	}
	if recv != "r" {
		return "", fmt.Errorf("receiver of (*reader).read is %s, expected r", recv)
	}
	newTr := func(locals map[string]string) *rcTr {
		return &rcTr{env: env, methods: methods, recv: recv, locals: locals}
	}
	var sb strings.Builder
	sb.WriteString("/- GENERATED by /verif/extract (readercode.go) from code.go — do not edit.\n" +
		"   The token / string storage code of the reader, translated statement by statement. -/\n" +
		"import SlipVerif.Model.ReaderGo\nimport SlipVerif.Gen.ReaderTables\n" +
		"set_option linter.unusedVariables false\nnamespace SlipVerif.Gen.ReaderCode\nopen SlipVerif.ReaderGo\n\n")

	// --- the modes as numbers (string comparison is slow in the kernel): position in declaration order
	mi := 0
	for _, n := range env.order {
		if _, ok := env.strs[n]; ok && strings.HasSuffix(n, "Mode") {
			fmt.Fprintf(&sb, "def m_%s : Nat := %d\n", n, mi)
			mi++
		}
	}
	sb.WriteString("\n")

	// --- the byte loop and what follows it
	var loop *ast.RangeStmt
	loopIx := -1
	for i, st := range read.Body.List {
		if rs, ok := st.(*ast.RangeStmt); ok {
			loop, loopIx = rs, i
		}
	}
	if loop == nil {
		return "", fmt.Errorf("byte loop `for r.pos, b = range src` not found in (*reader).read")
	}
	bName := "b"
	if id, ok := loop.Value.(*ast.Ident); ok {
		bName = id.Name
	}
	srcName := "src"
	if len(read.Type.Params.List) == 1 && len(read.Type.Params.List[0].Names) == 1 {
		srcName = read.Type.Params.List[0].Names[0].Name
	}
	tail := read.Body.List[loopIx+1:]
	tr := newTr(map[string]string{srcName: "bytes"})
	body, err := tr.stmts(tail)
	if err != nil {
		return "", fmt.Errorf("statements behind the byte loop of (*reader).read: %v", err)
	}
	fmt.Fprintf(&sb, "/-- what `(*reader).read` does behind its byte loop (`r.pos` is the index of the last byte, -1 for an empty block) -/\n"+
		"def blockTail (%s : List Nat) (r : R) : R :=\n%s\n\n", srcName, body)

	// --- makeToken
	mk := methods["makeToken"]
	if mk == nil || mk.Body == nil || len(mk.Type.Params.List) != 1 || len(mk.Type.Params.List[0].Names) != 1 {
		return "", fmt.Errorf("(*reader).makeToken(src) not found in code.go")
	}
	mkSrc := mk.Type.Params.List[0].Names[0].Name
	tr = newTr(map[string]string{mkSrc: "bytes"})
	body, err = tr.stmts(mk.Body.List)
	if err != nil {
		return "", fmt.Errorf("(*reader).makeToken: %v", err)
	}
	fmt.Fprintf(&sb, "/-- `(*reader).makeToken`: the token is `ret` -/\ndef makeToken (%s : List Nat) (r : R) : R :=\n%s\n\n", mkSrc, body)

	// --- the byte switch and the one-form exit inside the loop
	var sw *ast.SwitchStmt
	var oneIf *ast.IfStmt
	for _, st := range loop.Body.List {
		inner := st
		if ls, ok := inner.(*ast.LabeledStmt); ok {
			inner = ls.Stmt
		}
		switch ti := inner.(type) {
		case *ast.SwitchStmt:
			if ix, ok := ti.Tag.(*ast.IndexExpr); ok {
				if sel, ok := ix.X.(*ast.SelectorExpr); ok && sel.Sel.Name == "mode" {
					sw = ti
				}
			}
		case *ast.IfStmt:
			mentionsOne := false
			ast.Inspect(ti.Cond, func(n ast.Node) bool {
				if sel, ok := n.(*ast.SelectorExpr); ok && sel.Sel.Name == "one" {
					mentionsOne = true
				}
				return true
			})
			if mentionsOne {
				oneIf = ti
			}
		}
	}
	if sw == nil {
		return "", fmt.Errorf("byte switch `switch r.mode[b]` not found in the byte loop")
	}
	if oneIf == nil {
		return "", fmt.Errorf("one-form exit `if r.one && …` not found in the byte loop")
	}
	tr = newTr(map[string]string{srcName: "bytes", bName: "int"})
	cond, kc, err := tr.expr(oneIf.Cond)
	if err != nil || kc != "bool" {
		return "", fmt.Errorf("condition of the one-form exit: %v", err)
	}
	exitBody := oneIf.Body.List
	if n := len(exitBody); n > 0 {
		if _, ok := exitBody[n-1].(*ast.ReturnStmt); ok {
			exitBody = exitBody[:n-1]
		}
	}
	body, err = tr.stmts(exitBody)
	if err != nil {
		return "", fmt.Errorf("body of the one-form exit: %v", err)
	}
	fmt.Fprintf(&sb, "/-- the condition of the one-form exit -/\ndef oneCond (r : R) : Bool :=\n%s\n\n", cond)
	fmt.Fprintf(&sb, "/-- the one-form exit: what happens to the state before `return` -/\ndef oneExit (%s : Int) (r : R) : R :=\n%s\n\n", bName, body)

	// --- case bodies
	var cases strings.Builder
	closers := 0
	var translated, opaque []string
	for _, cs := range sw.Body.List {
		cc := cs.(*ast.CaseClause)
		if cc.List == nil {
			continue
		}
		tr = newTr(map[string]string{srcName: "bytes", bName: "int"})
		body, err := tr.stmts(cc.Body)
		for _, e := range cc.List {
			v, ok := env.evalConst(e)
			if !ok || v.Kind() != constant.Int {
				continue
			}
			code, _ := constant.Int64Val(v)
			name := "?"
			if id, ok := e.(*ast.Ident); ok {
				name = id.Name
			}
			if err != nil {
				opaque = append(opaque, name)
				continue
			}
			translated = append(translated, name)
			fmt.Fprintf(&cases, "if code = %d then some (\n%s\n) else (\n", code, body)
			closers++
		}
	}
	fmt.Fprintf(&sb, "/-- the body of the `case` of the byte switch for action code `code` (`none`: not translated) -/\n"+
		"def caseBody (code : Nat) (%s : List Nat) (%s : Int) (r : R) : Option R :=\n%snone%s\n\n",
		srcName, bName, cases.String(), strings.Repeat("\n)", closers))
	fmt.Fprintf(&sb, "def translatedCases : List String := %s\n\ndef opaqueCases : List String := %s\n\n",
		rdLeanStrList(translated), rdLeanStrList(opaque))
	sb.WriteString("end SlipVerif.Gen.ReaderCode\n")
	return sb.String(), nil
}
