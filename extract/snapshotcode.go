package main

// C19: facts about pkg/gi/snapshot.go, code.go and list.go, regenerated on every run.
//
//	sections   the section writers AppendSnapshot calls, in call order, each named by a MARKER found in
//	           the writer's body or in the bodies of the package-local functions it calls (one level):
//	           the operator symbol it builds (slip.Symbol("defpackage") …) or the enumeration it walks
//	           (flavors.All → defflavor, EachClass → defclass, EachFuncInfo → defun). Renaming a writer,
//	           extracting a helper or re-ordering statements inside a writer does not change the fact.
//	hoisted    the operators Code.Compile evaluates in its first pass (the string cases of its switch)
//	valueCases the cases of ppValue's type switch: (Go type, operator of the form it builds)
//	excluded   the keys of excludeVars
//	elemQuoted the cases of elementLoadForm's type switch (list.go) that build a (quote x) form, and
//	           whether the Symbol case keeps a keyword as it is
//	listHeads  the operators List.LoadForm builds
//
// Theorems/GenC19.lean states what the property needs of them.

import (
	"fmt"
	"go/ast"
	"go/parser"
	"go/token"
	"path/filepath"
	"sort"
	"strconv"
	"strings"
)

func init() { generators["SnapshotCode"] = genSnapshotCode }

type snapFuncs map[string]*ast.FuncDecl

func snapParseDir(dir string, files ...string) (snapFuncs, map[string]*ast.GenDecl, error) {
	funcs := snapFuncs{}
	vars := map[string]*ast.GenDecl{}
	fset := token.NewFileSet()
	if len(files) == 0 {
		all, _ := filepath.Glob(filepath.Join(dir, "*.go"))
		for _, f := range all {
			if !strings.HasSuffix(f, "_test.go") {
				files = append(files, filepath.Base(f))
			}
		}
	}
	for _, name := range files {
		f, err := parser.ParseFile(fset, filepath.Join(dir, name), nil, 0)
		if err != nil {
			return nil, nil, err
		}
		for _, d := range f.Decls {
			switch td := d.(type) {
			case *ast.FuncDecl:
				key := td.Name.Name
				if td.Recv != nil && len(td.Recv.List) > 0 {
					key = snapTypeText(td.Recv.List[0].Type) + "." + key
				}
				funcs[key] = td
			case *ast.GenDecl:
				for _, sp := range td.Specs {
					if vs, ok := sp.(*ast.ValueSpec); ok {
						for _, n := range vs.Names {
							vars[n.Name] = td
						}
					}
				}
			}
		}
	}
	return funcs, vars, nil
}

func snapTypeText(e ast.Expr) string {
	switch te := e.(type) {
	case *ast.Ident:
		return te.Name
	case *ast.StarExpr:
		return "*" + snapTypeText(te.X)
	case *ast.SelectorExpr:
		return snapTypeText(te.X) + "." + te.Sel.Name
	case nil:
		return "nil"
	}
	return "?"
}

// snapSymbolLit: the text of Symbol("text") / slip.Symbol("text")
func snapSymbolLit(n ast.Node) (string, bool) {
	call, ok := n.(*ast.CallExpr)
	if !ok || len(call.Args) != 1 {
		return "", false
	}
	name := ""
	switch tf := call.Fun.(type) {
	case *ast.Ident:
		name = tf.Name
	case *ast.SelectorExpr:
		name = tf.Sel.Name
	}
	if name != "Symbol" {
		return "", false
	}
	lit, ok := call.Args[0].(*ast.BasicLit)
	if !ok || lit.Kind != token.STRING {
		return "", false
	}
	s, err := strconv.Unquote(lit.Value)
	return s, err == nil
}

// snapMarkers: the section markers in a body, in priority order
var snapMarkerOrder = []string{"require", "defpackage", "defconstant", "defflavor", "defclass", "defvar", "defun"}

func snapMarkersOf(body ast.Node, found map[string]bool) {
	ast.Inspect(body, func(n ast.Node) bool {
		if s, ok := snapSymbolLit(n); ok {
			switch s {
			case "require", "defpackage", "defconstant", "defvar":
				found[s] = true
			case "setq":
				found["defvar"] = true
			}
		}
		if call, ok := n.(*ast.CallExpr); ok {
			if sel, ok := call.Fun.(*ast.SelectorExpr); ok {
				switch {
				case sel.Sel.Name == "All" && snapTypeText(sel.X) == "flavors":
					found["defflavor"] = true
				case sel.Sel.Name == "EachClass":
					found["defclass"] = true
				case sel.Sel.Name == "EachFuncInfo":
					found["defun"] = true
				}
			}
		}
		return true
	})
}

func snapCallees(body ast.Node, funcs snapFuncs) []*ast.FuncDecl {
	var out []*ast.FuncDecl
	seen := map[string]bool{}
	ast.Inspect(body, func(n ast.Node) bool {
		if call, ok := n.(*ast.CallExpr); ok {
			if id, ok := call.Fun.(*ast.Ident); ok && !seen[id.Name] {
				seen[id.Name] = true
				if fd := funcs[id.Name]; fd != nil && fd.Body != nil {
					out = append(out, fd)
				}
			}
		}
		return true
	})
	return out
}

func snapQuoteList(items []string) string {
	q := make([]string, len(items))
	for i, s := range items {
		q[i] = fmt.Sprintf("%q", s)
	}
	return "[" + strings.Join(q, ", ") + "]"
}

func genSnapshotCode(repo string) (string, error) {
	gi, giVars, err := snapParseDir(filepath.Join(repo, "pkg", "gi"), "snapshot.go")
	if err != nil {
		return "", err
	}
	top := gi["AppendSnapshot"]
	if top == nil || top.Body == nil {
		return "", fmt.Errorf("pkg/gi/snapshot.go: func AppendSnapshot not found")
	}
	// 1. the section writers in call order
	var sections []string
	for _, st := range top.Body.List {
		ast.Inspect(st, func(n ast.Node) bool {
			call, ok := n.(*ast.CallExpr)
			if !ok {
				return true
			}
			id, ok := call.Fun.(*ast.Ident)
			if !ok {
				return true
			}
			fd := gi[id.Name]
			if fd == nil || fd.Body == nil {
				return true
			}
			found := map[string]bool{}
			snapMarkersOf(fd.Body, found)
			if len(found) == 0 {
				// a writer that only delegates: look one level deeper
				for _, cal := range snapCallees(fd.Body, gi) {
					snapMarkersOf(cal.Body, found)
				}
			} else {
				// helpers called by the writer that build the writer's own forms (appendDefVar, appendSetq)
				for _, cal := range snapCallees(fd.Body, gi) {
					sub := map[string]bool{}
					snapMarkersOf(cal.Body, sub)
					for k := range sub {
						found[k] = true
					}
				}
			}
			label := ""
			for _, m := range snapMarkerOrder {
				if found[m] {
					label = m
					break
				}
			}
			if label != "" {
				sections = append(sections, label)
			}
			return false
		})
	}
	if len(sections) == 0 {
		return "", fmt.Errorf("pkg/gi/snapshot.go: AppendSnapshot calls no recognisable section writer")
	}
	// 2. ppValue's type switch
	var valueCases []string
	if pv := gi["ppValue"]; pv != nil && pv.Body != nil {
		ast.Inspect(pv.Body, func(n ast.Node) bool {
			ts, ok := n.(*ast.TypeSwitchStmt)
			if !ok {
				return true
			}
			for _, cc := range ts.Body.List {
				clause := cc.(*ast.CaseClause)
				op := ""
				for _, st := range clause.Body {
					ast.Inspect(st, func(m ast.Node) bool {
						if op != "" {
							return false
						}
						if s, ok := snapSymbolLit(m); ok {
							op = s
							return false
						}
						if call, ok := m.(*ast.CallExpr); ok {
							if id, ok := call.Fun.(*ast.Ident); ok && gi[id.Name] != nil {
								op = "call:" + id.Name
								return false
							}
						}
						return true
					})
				}
				for _, t := range clause.List {
					valueCases = append(valueCases, fmt.Sprintf("(%q, %q)", strings.TrimPrefix(snapTypeText(t), "*"), op))
				}
			}
			return false
		})
	} else {
		return "", fmt.Errorf("pkg/gi/snapshot.go: func ppValue not found")
	}
	// 3. excludeVars
	var excluded []string
	if gd := giVars["excludeVars"]; gd != nil {
		ast.Inspect(gd, func(n ast.Node) bool {
			if kv, ok := n.(*ast.KeyValueExpr); ok {
				if lit, ok := kv.Key.(*ast.BasicLit); ok && lit.Kind == token.STRING {
					if s, err := strconv.Unquote(lit.Value); err == nil {
						excluded = append(excluded, s)
					}
				}
			}
			return true
		})
	}
	sort.Strings(excluded)
	// 4. the first pass of Code.Compile
	core, _, err := snapParseDir(repo, "code.go", "list.go")
	if err != nil {
		return "", err
	}
	comp := core["Code.Compile"]
	if comp == nil || comp.Body == nil {
		return "", fmt.Errorf("code.go: func (Code) Compile not found")
	}
	var hoisted []string
	ast.Inspect(comp.Body, func(n ast.Node) bool {
		sw, ok := n.(*ast.SwitchStmt)
		if !ok {
			return true
		}
		for _, cc := range sw.Body.List {
			clause := cc.(*ast.CaseClause)
			if len(clause.Body) == 0 {
				continue
			}
			for _, e := range clause.List {
				if lit, ok := e.(*ast.BasicLit); ok && lit.Kind == token.STRING {
					if s, err := strconv.Unquote(lit.Value); err == nil {
						hoisted = append(hoisted, s)
					}
				}
			}
		}
		return true
	})
	if len(hoisted) == 0 {
		return "", fmt.Errorf("code.go: Code.Compile has no switch over operator names")
	}
	// 5. list.go: elementLoadForm and List.LoadForm
	var elemQuoted []string
	keywordKept := false
	if el := core["elementLoadForm"]; el != nil && el.Body != nil {
		ast.Inspect(el.Body, func(n ast.Node) bool {
			ts, ok := n.(*ast.TypeSwitchStmt)
			if !ok {
				return true
			}
			for _, cc := range ts.Body.List {
				clause := cc.(*ast.CaseClause)
				quotes, kw := false, false
				for _, st := range clause.Body {
					ast.Inspect(st, func(m ast.Node) bool {
						switch tm := m.(type) {
						case *ast.Ident:
							if tm.Name == "quoteSymbol" {
								quotes = true
							}
						case *ast.BasicLit:
							if tm.Value == "':'" {
								kw = true
							}
						}
						if s, ok := snapSymbolLit(m); ok && s == "quote" {
							quotes = true
						}
						return true
					})
				}
				for _, t := range clause.List {
					if quotes {
						elemQuoted = append(elemQuoted, snapTypeText(t))
						if snapTypeText(t) == "Symbol" && kw {
							keywordKept = true
						}
					}
				}
			}
			return false
		})
	} else {
		return "", fmt.Errorf("list.go: func elementLoadForm not found")
	}
	heads := map[string]bool{}
	if lf := core["List.LoadForm"]; lf != nil && lf.Body != nil {
		ast.Inspect(lf.Body, func(n ast.Node) bool {
			if s, ok := snapSymbolLit(n); ok {
				heads[s] = true
			}
			if id, ok := n.(*ast.Ident); ok && id.Name == "ListSymbol" {
				heads["list"] = true
			}
			return true
		})
	} else {
		return "", fmt.Errorf("list.go: func (List) LoadForm not found")
	}
	var listHeads []string
	for h := range heads {
		listHeads = append(listHeads, h)
	}
	sort.Strings(listHeads)

	var b strings.Builder
	b.WriteString("/- GENERATED by extract/snapshotcode.go from pkg/gi/snapshot.go, code.go and list.go — do not edit -/\n")
	b.WriteString("namespace SlipVerif.Gen.SnapshotCode\n\n")
	b.WriteString("/-- the section writers AppendSnapshot calls, in call order, by marker -/\n")
	b.WriteString("def sections : List String := " + snapQuoteList(sections) + "\n\n")
	b.WriteString("/-- the operators Code.Compile evaluates in its first pass -/\n")
	b.WriteString("def hoisted : List String := " + snapQuoteList(hoisted) + "\n\n")
	b.WriteString("/-- ppValue's type switch: (type, operator of the form built) -/\n")
	b.WriteString("def valueCases : List (String × String) := [" + strings.Join(valueCases, ", ") + "]\n\n")
	b.WriteString("/-- variables the snapshot never writes -/\n")
	b.WriteString("def excluded : List String := " + snapQuoteList(excluded) + "\n\n")
	b.WriteString("/-- the cases of elementLoadForm that build a quote form -/\n")
	b.WriteString("def elemQuoted : List String := " + snapQuoteList(elemQuoted) + "\n\n")
	b.WriteString(fmt.Sprintf("/-- the Symbol case of elementLoadForm keeps a keyword unquoted -/\ndef keywordKept : Bool := %v\n\n", keywordKept))
	b.WriteString("/-- the operators List.LoadForm builds -/\n")
	b.WriteString("def listHeads : List String := " + snapQuoteList(listHeads) + "\n\n")
	b.WriteString("end SlipVerif.Gen.SnapshotCode\n")
	return b.String(), nil
}
