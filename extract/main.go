// Command extract regenerates lean/SlipVerif/Gen/*.lean from the repository's current sources
// (go/ast only, no type checking). Files are rewritten only when their content changes so that
// lake stays incremental; stale generated files are removed.
package main

import (
	"flag"
	"fmt"
	"os"
	"path/filepath"
	"sort"
)

// generators maps a generated module name (file Gen/<name>.lean) to its producer.
var generators = map[string]func(repo string) (string, error){}

func main() {
	repo := flag.String("repo", "/repo", "repository root")
	out := flag.String("out", "", "output directory (lean/SlipVerif/Gen)")
	flag.Parse()
	if *out == "" {
		fmt.Fprintln(os.Stderr, "extract: -out required")
		os.Exit(2)
	}
	_ = os.MkdirAll(*out, 0o755)
	names := make([]string, 0, len(generators))
	for n := range generators {
		names = append(names, n)
	}
	sort.Strings(names)
	keep := map[string]bool{}
	failed := 0
	for _, n := range names {
		path := filepath.Join(*out, n+".lean")
		keep[path] = true
		src, err := generators[n](*repo)
		if err != nil {
			// a generator that no longer understands the source must not hide the other modules:
			// report it (one line per module, parsed by tools/check.py) and go on; exit status 3
			fmt.Fprintf(os.Stderr, "EXTRACT-FAILED %s: %v\n", n, err)
			failed++
			continue
		}
		old, _ := os.ReadFile(path)
		if string(old) != src {
			if err := os.WriteFile(path, []byte(src), 0o644); err != nil {
				fmt.Fprintln(os.Stderr, err)
				os.Exit(1)
			}
		}
	}
	files, _ := filepath.Glob(filepath.Join(*out, "*.lean"))
	for _, f := range files {
		if !keep[f] {
			_ = os.Remove(f)
		}
	}
	if failed > 0 {
		os.Exit(3)
	}
}
