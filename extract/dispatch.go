package main

// C10: structural facts about pkg/generic — every path that changes the method table of a
// generic.Aux resets the effective-method cache and recomputes the single-method fast path, and
// Aux.Call files a freshly built effective method under the key it probed with. They are cheap
// early-warning obligations (Theorems/GenC10.lean); the verdict comes from the correspondence run.
//
// The predicates look at the function itself and, up to two calls deep, at the functions of
// package generic it calls, so that moving the reset into a helper does not change the facts.

import (
	"fmt"
	"go/ast"
	"go/parser"
	"go/token"
	"path/filepath"
	"sort"
	"strings"
)

func init() { generators["DispatchFacts"] = genDispatchFacts }

type dispFuncs map[string]*ast.FuncDecl // "Recv.Name" or "Name"

func dispLoad(repo string) (dispFuncs, error) {
	dir := filepath.Join(repo, "pkg", "generic")
	fset := token.NewFileSet()
	files, _ := filepath.Glob(filepath.Join(dir, "*.go"))
	sort.Strings(files)
	funcs := dispFuncs{}
	for _, f := range files {
		if strings.HasSuffix(f, "_test.go") {
			continue
		}
		af, err := parser.ParseFile(fset, f, nil, 0)
		if err != nil {
			return nil, err
		}
		for _, d := range af.Decls {
			fd, ok := d.(*ast.FuncDecl)
			if !ok || fd.Body == nil {
				continue
			}
			name := fd.Name.Name
			if fd.Recv != nil && 0 < len(fd.Recv.List) {
				t := fd.Recv.List[0].Type
				if st, ok := t.(*ast.StarExpr); ok {
					t = st.X
				}
				if id, ok := t.(*ast.Ident); ok {
					name = id.Name + "." + name
				}
			}
			funcs[name] = fd
		}
	}
	return funcs, nil
}

func dispIsField(e ast.Expr, field string) bool {
	sel, ok := e.(*ast.SelectorExpr)
	return ok && sel.Sel.Name == field
}

// directly resets field: `x.field = <composite literal | make(...) | nil>` or `clear(x.field)`
func dispResetsDirect(fd *ast.FuncDecl, field string, allowNil bool) bool {
	found := false
	ast.Inspect(fd.Body, func(n ast.Node) bool {
		switch tn := n.(type) {
		case *ast.AssignStmt:
			for i, lhs := range tn.Lhs {
				if !dispIsField(lhs, field) || len(tn.Rhs) <= i {
					continue
				}
				switch r := tn.Rhs[i].(type) {
				case *ast.CompositeLit:
					found = true
				case *ast.CallExpr:
					if id, ok := r.Fun.(*ast.Ident); ok && id.Name == "make" {
						found = true
					}
				case *ast.Ident:
					if allowNil && r.Name == "nil" {
						found = true
					}
				}
			}
		case *ast.CallExpr:
			if id, ok := tn.Fun.(*ast.Ident); ok && id.Name == "clear" && len(tn.Args) == 1 && dispIsField(tn.Args[0], field) {
				found = true
			}
		}
		return true
	})
	return found
}

func dispCallees(fd *ast.FuncDecl, funcs dispFuncs) []*ast.FuncDecl {
	var out []*ast.FuncDecl
	ast.Inspect(fd.Body, func(n ast.Node) bool {
		ce, ok := n.(*ast.CallExpr)
		if !ok {
			return true
		}
		var name string
		switch f := ce.Fun.(type) {
		case *ast.Ident:
			name = f.Name
		case *ast.SelectorExpr:
			name = f.Sel.Name
		}
		// package-level functions by name; methods only when the name is unique in the package
		// (interface methods such as Call are dispatched dynamically and are not followed)
		var matches []*ast.FuncDecl
		for k, cand := range funcs {
			if k == name || strings.HasSuffix(k, "."+name) {
				matches = append(matches, cand)
			}
		}
		if len(matches) == 1 {
			out = append(out, matches[0])
		}
		return true
	})
	return out
}

func dispResets(fd *ast.FuncDecl, funcs dispFuncs, field string, allowNil bool, depth int) bool {
	if fd == nil {
		return false
	}
	if dispResetsDirect(fd, field, allowNil) {
		return true
	}
	if depth == 0 {
		return false
	}
	for _, c := range dispCallees(fd, funcs) {
		if c != fd && dispResets(c, funcs, field, allowNil, depth-1) {
			return true
		}
	}
	return false
}

// Aux.Call stores into the cache under the same identifier it used for the probe, and that
// identifier is initialised from buildSpecKey(args[:aux.reqCnt]).
// dispCallKeyedDeep: the fact holds for Aux.Call itself or for a method of Aux it calls (the cache
// probe and fill may live in a helper such as findMethod).
func dispCallKeyedDeep(fd *ast.FuncDecl, funcs dispFuncs) bool {
	if dispCallKeyed(fd) {
		return true
	}
	if fd == nil {
		return false
	}
	for _, c := range dispCallees(fd, funcs) {
		if dispCallKeyed(c) {
			return true
		}
	}
	return false
}

func dispCallKeyed(fd *ast.FuncDecl) bool {
	if fd == nil {
		return false
	}
	probe, store, keyFromAllRequired := "", "", false
	ast.Inspect(fd.Body, func(n ast.Node) bool {
		as, ok := n.(*ast.AssignStmt)
		if !ok {
			return true
		}
		for i, lhs := range as.Lhs {
			if len(as.Rhs) <= i {
				continue
			}
			// meth := aux.cache[key]
			if ix, ok := as.Rhs[i].(*ast.IndexExpr); ok && dispIsField(ix.X, "cache") {
				if id, ok := ix.Index.(*ast.Ident); ok {
					probe = id.Name
				}
			}
			// aux.cache[key] = meth
			if ix, ok := lhs.(*ast.IndexExpr); ok && dispIsField(ix.X, "cache") {
				if id, ok := ix.Index.(*ast.Ident); ok {
					store = id.Name
				}
			}
			// key := buildSpecKey(args[:aux.reqCnt])
			if ce, ok := as.Rhs[i].(*ast.CallExpr); ok {
				if id, ok := ce.Fun.(*ast.Ident); ok && id.Name == "buildSpecKey" && len(ce.Args) == 1 {
					if sl, ok := ce.Args[0].(*ast.SliceExpr); ok && sl.Low == nil && dispIsField(sl.High, "reqCnt") {
						keyFromAllRequired = true
					}
				}
			}
		}
		return true
	})
	return probe != "" && probe == store && keyFromAllRequired
}

// ---------------------------------------------------------------------------------------------
// lock discipline: positions of lock calls, table writes, cache probes / stores inside one function

func dispIsLockCall(n ast.Node, names ...string) bool {
	ce, ok := n.(*ast.CallExpr)
	if !ok || len(ce.Args) != 0 {
		return false
	}
	sel, ok := ce.Fun.(*ast.SelectorExpr)
	if !ok {
		return false
	}
	for _, nm := range names {
		if sel.Sel.Name == nm {
			return true
		}
	}
	return false
}

type dispPositions struct {
	locks, rlocks, unlocks []token.Pos // non-deferred Lock / RLock / Unlock+RUnlock calls
	deferredUnlock         bool
	probes, stores         []token.Pos // reads / writes of x.cache[...]
	tableWrites            []token.Pos // x.methods[...] = …, delete(x.methods, …), c.Primary/Before/After/Wrap = …, x.Combinations = …
	resets                 []token.Pos // cache resets (direct, or the call of a helper that resets, two levels deep)
}

func dispScan(fd *ast.FuncDecl, funcs dispFuncs) dispPositions {
	var p dispPositions
	deferred := map[ast.Node]bool{}
	ast.Inspect(fd.Body, func(n ast.Node) bool {
		if ds, ok := n.(*ast.DeferStmt); ok {
			deferred[ds.Call] = true
			if dispIsLockCall(ds.Call, "Unlock", "RUnlock") {
				p.deferredUnlock = true
			}
		}
		return true
	})
	storeIdx := map[ast.Node]bool{}
	ast.Inspect(fd.Body, func(n ast.Node) bool {
		switch tn := n.(type) {
		case *ast.CallExpr:
			if deferred[tn] {
				return true
			}
			switch {
			case dispIsLockCall(tn, "Lock"):
				p.locks = append(p.locks, tn.Pos())
			case dispIsLockCall(tn, "RLock"):
				p.rlocks = append(p.rlocks, tn.Pos())
			case dispIsLockCall(tn, "Unlock", "RUnlock"):
				p.unlocks = append(p.unlocks, tn.Pos())
			}
			if id, ok := tn.Fun.(*ast.Ident); ok && id.Name == "delete" && 0 < len(tn.Args) && dispIsField(tn.Args[0], "methods") {
				p.tableWrites = append(p.tableWrites, tn.Pos())
			}
			if id, ok := tn.Fun.(*ast.Ident); ok && id.Name == "clear" && len(tn.Args) == 1 && dispIsField(tn.Args[0], "cache") {
				p.resets = append(p.resets, tn.Pos())
			}
			// a helper of the package that resets the cache
			var name string
			switch f := tn.Fun.(type) {
			case *ast.Ident:
				name = f.Name
			case *ast.SelectorExpr:
				name = f.Sel.Name
			}
			var matches []*ast.FuncDecl
			for k, cand := range funcs {
				if k == name || strings.HasSuffix(k, "."+name) {
					matches = append(matches, cand)
				}
			}
			if len(matches) == 1 && matches[0] != fd && dispResets(matches[0], funcs, "cache", false, 1) {
				p.resets = append(p.resets, tn.Pos())
			}
		case *ast.AssignStmt:
			for i, lhs := range tn.Lhs {
				if ix, ok := lhs.(*ast.IndexExpr); ok {
					if dispIsField(ix.X, "cache") {
						p.stores = append(p.stores, tn.Pos())
						storeIdx[ix] = true
					}
					if dispIsField(ix.X, "methods") {
						p.tableWrites = append(p.tableWrites, tn.Pos())
					}
				}
				if sel, ok := lhs.(*ast.SelectorExpr); ok {
					switch sel.Sel.Name {
					case "Primary", "Before", "After", "Wrap", "Combinations":
						p.tableWrites = append(p.tableWrites, tn.Pos())
					case "cache":
						if i < len(tn.Rhs) {
							switch r := tn.Rhs[i].(type) {
							case *ast.CompositeLit:
								p.resets = append(p.resets, tn.Pos())
							case *ast.CallExpr:
								if id, ok := r.Fun.(*ast.Ident); ok && id.Name == "make" {
									p.resets = append(p.resets, tn.Pos())
								}
							}
						}
					}
				}
			}
		case *ast.IndexExpr:
			if dispIsField(tn.X, "cache") && !storeIdx[tn] {
				p.probes = append(p.probes, tn.Pos())
			}
		}
		return true
	})
	return p
}

// all positions lie in one critical section: after the first Lock of the function and before the
// first non-deferred Unlock that follows that Lock (the end of the function with a deferred Unlock)
func dispInOneSection(p dispPositions, pos ...[]token.Pos) bool {
	if len(p.locks) == 0 {
		return false
	}
	lock := p.locks[0]
	end := token.Pos(1 << 40)
	for _, u := range p.unlocks {
		if lock < u && u < end {
			end = u
		}
	}
	if end == token.Pos(1<<40) && !p.deferredUnlock {
		return false // never unlocked here: not a critical section of this function
	}
	n := 0
	for _, ps := range pos {
		for _, x := range ps {
			n++
			if x < lock || end < x {
				return false
			}
		}
	}
	return 0 < n
}

// the function of the package that stores into x.cache[...]
func dispCacheStoreFunc(funcs dispFuncs) *ast.FuncDecl {
	var names []string
	for k := range funcs {
		names = append(names, k)
	}
	sort.Strings(names)
	for _, k := range names {
		if p := dispScan(funcs[k], dispFuncs{}); 0 < len(p.stores) {
			return funcs[k]
		}
	}
	return nil
}

// dispFillUnderOneLock: the effective method is looked up, built and stored inside one critical
// section held with the write lock: a probe of x.cache precedes the store with no Unlock / RUnlock
// between them, and the lock taken last before the store is Lock, not RLock.
func dispFillUnderOneLock(funcs dispFuncs) bool {
	fd := dispCacheStoreFunc(funcs)
	if fd == nil {
		return false
	}
	p := dispScan(fd, funcs)
	for _, st := range p.stores {
		ok := false
		for _, pr := range p.probes {
			if st <= pr {
				continue
			}
			clean := true
			for _, u := range p.unlocks {
				if pr < u && u < st {
					clean = false
				}
			}
			if clean {
				ok = true
			}
		}
		var lastLock, lastRLock token.Pos
		for _, l := range p.locks {
			if l < st && lastLock < l {
				lastLock = l
			}
		}
		for _, l := range p.rlocks {
			if l < st && lastRLock < l {
				lastRLock = l
			}
		}
		if !ok || lastLock == 0 || lastLock < lastRLock {
			return false
		}
	}
	return 0 < len(p.stores)
}

// dispMutatesInOneSection: the function changes the method table and resets the cache inside one
// critical section (no Unlock between the table writes and the reset).
func dispMutatesInOneSection(fd *ast.FuncDecl, funcs dispFuncs) bool {
	if fd == nil {
		return false
	}
	p := dispScan(fd, funcs)
	if len(p.tableWrites) == 0 || len(p.resets) == 0 {
		return false
	}
	return dispInOneSection(p, p.tableWrites, p.resets)
}

// dispKeyWholeHierarchy: buildSpecKey ranges over the whole Hierarchy() of an argument (the
// effective method depends on the class precedence list, not on the class name).
func dispKeyWholeHierarchy(fd *ast.FuncDecl) bool {
	if fd == nil {
		return false
	}
	isHier := func(e ast.Expr) bool {
		ce, ok := e.(*ast.CallExpr)
		if !ok {
			return false
		}
		sel, ok := ce.Fun.(*ast.SelectorExpr)
		return ok && sel.Sel.Name == "Hierarchy"
	}
	ranged, indexed := false, false
	hierVars := map[string]bool{}
	ast.Inspect(fd.Body, func(n ast.Node) bool {
		switch tn := n.(type) {
		case *ast.AssignStmt:
			for i, r := range tn.Rhs {
				if isHier(r) && i < len(tn.Lhs) {
					if id, ok := tn.Lhs[i].(*ast.Ident); ok {
						hierVars[id.Name] = true
					}
				}
			}
		case *ast.RangeStmt:
			if isHier(tn.X) {
				ranged = true
			}
			if id, ok := tn.X.(*ast.Ident); ok && hierVars[id.Name] {
				ranged = true
			}
		case *ast.IndexExpr:
			if isHier(tn.X) {
				indexed = true
			}
		}
		return true
	})
	return ranged && !indexed
}

// dispWritesField: the function writes the map field as a whole or an entry of it:
// `x.field = …`, `x.field[k] = …`, `delete(x.field, …)`, `clear(x.field)`.
func dispWritesField(fd *ast.FuncDecl, field string) bool {
	found := false
	ast.Inspect(fd.Body, func(n ast.Node) bool {
		switch tn := n.(type) {
		case *ast.AssignStmt:
			for _, lhs := range tn.Lhs {
				if ix, ok := lhs.(*ast.IndexExpr); ok {
					lhs = ix.X
				}
				if dispIsField(lhs, field) {
					found = true
				}
			}
		case *ast.CallExpr:
			if id, ok := tn.Fun.(*ast.Ident); ok && (id.Name == "delete" || id.Name == "clear") && 0 < len(tn.Args) && dispIsField(tn.Args[0], field) {
				found = true
			}
		}
		return true
	})
	return found
}

// dispEveryTableWriterResetsCache: every function of pkg/generic that writes Aux.methods (an entry,
// a deletion or the whole map — whatever entry point it serves: defmethod, remove-method, a
// re-evaluated defgeneric, …) also resets Aux.cache, itself or through a helper up to two calls
// deep. A constructor that builds a new Aux with a composite literal writes no field of an
// existing one and is not concerned.
func dispEveryTableWriterResetsCache(funcs dispFuncs) bool {
	writers := 0
	for _, fd := range funcs {
		if !dispWritesField(fd, "methods") {
			continue
		}
		writers++
		if !dispResets(fd, funcs, "cache", false, 2) {
			return false
		}
	}
	return 0 < writers
}

func genDispatchFacts(repo string) (string, error) {
	funcs, err := dispLoad(repo)
	if err != nil {
		return "", err
	}
	b := func(v bool) string {
		if v {
			return "true"
		}
		return "false"
	}
	var sb strings.Builder
	sb.WriteString("/- GENERATED by /verif/extract (dispatch.go) from pkg/generic/*.go — do not edit. -/\n")
	sb.WriteString("namespace SlipVerif.Gen.DispatchFacts\n\n")
	facts := []struct {
		name, doc string
		val       bool
	}{
		{"defmethodClearsCache", "addMethodCaller (defmethod, defgeneric :method) resets Aux.cache", dispResets(funcs["addMethodCaller"], funcs, "cache", false, 2)},
		{"addMethodClearsCache", "Aux.AddMethod (methods defined from Go) resets Aux.cache", dispResets(funcs["Aux.AddMethod"], funcs, "cache", false, 2)},
		{"removeMethodClearsCache", "RemoveMethod.Call resets Aux.cache", dispResets(funcs["RemoveMethod.Call"], funcs, "cache", false, 2)},
		{"defmethodRecomputesDefault", "addMethodCaller recomputes Aux.defaultCaller", dispResets(funcs["addMethodCaller"], funcs, "defaultCaller", true, 2)},
		{"addMethodRecomputesDefault", "Aux.AddMethod recomputes Aux.defaultCaller", dispResets(funcs["Aux.AddMethod"], funcs, "defaultCaller", true, 2)},
		{"removeMethodRecomputesDefault", "RemoveMethod.Call recomputes Aux.defaultCaller", dispResets(funcs["RemoveMethod.Call"], funcs, "defaultCaller", true, 2)},
		{"callStoresUnderProbedKey", "Aux.Call probes and fills the cache with one key built from all required arguments", dispCallKeyedDeep(funcs["Aux.Call"], funcs)},
		{"cacheFilledUnderOneWriteLock", "the effective method is probed, built and stored in one critical section under the write lock", dispFillUnderOneLock(funcs)},
		{"defmethodMutatesInOneSection", "addMethodCaller changes the method table and resets the cache in one critical section", dispMutatesInOneSection(funcs["addMethodCaller"], funcs)},
		{"addMethodMutatesInOneSection", "Aux.AddMethod changes the method table and resets the cache in one critical section", dispMutatesInOneSection(funcs["Aux.AddMethod"], funcs)},
		{"removeMethodMutatesInOneSection", "RemoveMethod.Call changes the method table and resets the cache in one critical section", dispMutatesInOneSection(funcs["RemoveMethod.Call"], funcs)},
		{"everyTableWriterResetsCache", "every function of pkg/generic that writes Aux.methods (entry, deletion or whole map) also resets Aux.cache", dispEveryTableWriterResetsCache(funcs)},
		{"specKeyIsWholeHierarchy", "buildSpecKey is made of the whole Hierarchy() of every required argument", dispKeyWholeHierarchy(funcs["buildSpecKey"])},
	}
	for _, f := range facts {
		fmt.Fprintf(&sb, "/-- %s -/\ndef %s : Bool := %s\n\n", f.doc, f.name, b(f.val))
	}
	sb.WriteString("end SlipVerif.Gen.DispatchFacts\n")
	return sb.String(), nil
}
