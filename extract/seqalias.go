package main

// SeqAlias: stores into storage that may belong to an ARGUMENT, in the source files of the sequence
// functions that must not modify their arguments (find position count remove substitute remove-duplicates
// member assoc rassoc search mismatch subseq reverse reduce union intersection set-difference subsetp every
// some notany notevery map mapcar concatenate, and the delete* files whose loops remove* shares by
// embedding). go/ast only, flow-insensitive:
//
//   * a variable is "argument storage" when one of its assignments may alias an argument: the parameters
//     of the Call methods; an index / slice / type assertion / type-switch binding / .AsList() / []byte(…)
//     conversion / plain function call over argument storage; `append(x…)` whose first argument is argument
//     storage. A variable all of whose assignments are make(…), composite literals, nil, []rune(…) of a string,
//     method results, or append to itself is fresh.
//   * parameters of helper functions are argument storage only when a call site in the analysed files passes
//     argument storage (so extracting a helper that works on a fresh slice changes nothing).
//   * recorded: `x[i] = …` (kind index), `x.Set(…)` (set), `copy(x, …)` (copy), `append(x[:k], …)` (reslice)
//     with x argument storage.
//
// Consumed by Theorems/GenC14.lean: the table is empty (no function of the list writes into its argument).

import (
	"fmt"
	"go/ast"
	"go/parser"
	"go/token"
	"path/filepath"
	"sort"
	"strings"
)

var seqAliasFiles = []string{
	"find.go", "find-if.go", "position.go", "position-if.go", "count.go", "count-if.go",
	"remove.go", "remove-if.go", "remove-duplicates.go", "delete.go", "delete-if.go", "delete-duplicates.go",
	"substitute.go", "substitute-if.go", "member.go", "member-if.go", "assoc.go", "assoc-if.go", "rassoc.go", "rassoc-if.go",
	"search.go", "mismatch.go", "subseq.go", "reverse.go", "reduce.go",
	"union.go", "intersection.go", "set-difference.go", "subsetp.go",
	"every.go", "some.go", "notany.go", "notevery.go", "map.go", "mapcar.go", "concatenate.go", "seqfunvars.go",
}

type aliasFunc struct {
	file   string
	name   string // Type.method or function
	decl   *ast.FuncDecl
	params []string
	taint  map[string]bool // variables that may be argument storage
}

func aliasFuncName(fd *ast.FuncDecl) string {
	if fd.Recv != nil && len(fd.Recv.List) > 0 {
		t := fd.Recv.List[0].Type
		if st, ok := t.(*ast.StarExpr); ok {
			t = st.X
		}
		if id, ok := t.(*ast.Ident); ok {
			return id.Name + "." + fd.Name.Name
		}
	}
	return fd.Name.Name
}

func init() {
	generators["SeqAlias"] = func(repo string) (string, error) {
		var funcs []*aliasFunc
		byName := map[string][]*aliasFunc{} // bare function / method name -> declarations
		perFile := map[string]int{}
		for _, name := range seqAliasFiles {
			path := filepath.Join(repo, "pkg", "cl", name)
			fset := token.NewFileSet()
			f, err := parser.ParseFile(fset, path, nil, 0)
			if err != nil {
				return "", err
			}
			for _, d := range f.Decls {
				fd, ok := d.(*ast.FuncDecl)
				if !ok || fd.Body == nil || fd.Name.Name == "Place" || fd.Name.Name == "init" {
					continue // Place is the setf expander of a place (modifies by definition)
				}
				af := &aliasFunc{file: name, name: aliasFuncName(fd), decl: fd, taint: map[string]bool{}}
				for _, fld := range fd.Type.Params.List {
					for _, n := range fld.Names {
						af.params = append(af.params, n.Name)
					}
				}
				if fd.Name.Name == "Call" {
					for _, p := range af.params {
						af.taint[p] = true
					}
				}
				funcs = append(funcs, af)
				byName[fd.Name.Name] = append(byName[fd.Name.Name], af)
				perFile[name]++
			}
		}
		// may the expression be (part of) argument storage?
		var tainted func(af *aliasFunc, e ast.Expr) bool
		tainted = func(af *aliasFunc, e ast.Expr) bool {
			switch te := e.(type) {
			case *ast.Ident:
				return af.taint[te.Name]
			case *ast.ParenExpr:
				return tainted(af, te.X)
			case *ast.IndexExpr:
				return tainted(af, te.X)
			case *ast.SliceExpr:
				return tainted(af, te.X)
			case *ast.TypeAssertExpr:
				return tainted(af, te.X)
			case *ast.StarExpr:
				return tainted(af, te.X)
			case *ast.UnaryExpr:
				return tainted(af, te.X)
			case *ast.SelectorExpr:
				return false // a field of a local record (sfv.start …): not tracked
			case *ast.CallExpr:
				switch fn := te.Fun.(type) {
				case *ast.ArrayType:
					// []rune(string) copies; []byte(x) of an octets value does not
					if id, ok := fn.Elt.(*ast.Ident); ok && id.Name == "rune" {
						return false
					}
					return len(te.Args) == 1 && tainted(af, te.Args[0])
				case *ast.Ident:
					switch fn.Name {
					case "make", "len", "cap", "new", "string", "int", "byte", "rune", "uint":
						return false
					case "append":
						return len(te.Args) > 0 && tainted(af, te.Args[0])
					}
					for _, a := range te.Args {
						if tainted(af, a) {
							return true
						}
					}
					return false
				case *ast.SelectorExpr:
					if x, ok := fn.X.(*ast.Ident); ok && (x.Name == "slip" || x.Name == "strings" || x.Name == "sort") {
						// a package function: slip.CoerceToList(arg), slip.List(x) … hand their argument on
						if fn.Sel.Name == "NewVector" || fn.Sel.Name == "TypePanic" || fn.Sel.Name == "ErrorPanic" {
							return false
						}
						for _, a := range te.Args {
							if tainted(af, a) {
								return true
							}
						}
						return false
					}
					// a method: only AsList (the elements of a vector, not a copy) hands storage on
					return fn.Sel.Name == "AsList" && tainted(af, fn.X)
				}
				return false
			}
			return false
		}
		assign := func(af *aliasFunc, lhs ast.Expr, rhs ast.Expr) bool {
			id, ok := lhs.(*ast.Ident)
			if !ok || id.Name == "_" || af.taint[id.Name] {
				return false
			}
			if tainted(af, rhs) {
				af.taint[id.Name] = true
				return true
			}
			return false
		}
		// fixpoint over all functions (helper parameters get their status from the call sites)
		for changed := true; changed; {
			changed = false
			for _, af := range funcs {
				ast.Inspect(af.decl.Body, func(n ast.Node) bool {
					switch tn := n.(type) {
					case *ast.AssignStmt:
						if len(tn.Lhs) == len(tn.Rhs) {
							for i := range tn.Lhs {
								if assign(af, tn.Lhs[i], tn.Rhs[i]) {
									changed = true
								}
							}
						} else if len(tn.Rhs) == 1 {
							for _, l := range tn.Lhs {
								if assign(af, l, tn.Rhs[0]) {
									changed = true
								}
							}
						}
					case *ast.ValueSpec:
						for i, nme := range tn.Names {
							if i < len(tn.Values) && assign(af, nme, tn.Values[i]) {
								changed = true
							}
						}
					case *ast.RangeStmt:
						if tn.Value != nil && assign(af, tn.Value, tn.X) {
							changed = true
						}
					case *ast.TypeSwitchStmt:
						if as, ok := tn.Assign.(*ast.AssignStmt); ok && len(as.Lhs) == 1 && len(as.Rhs) == 1 {
							if assign(af, as.Lhs[0], as.Rhs[0]) {
								changed = true
							}
						}
					case *ast.CallExpr:
						// a call of an analysed helper: its parameters inherit the status of the arguments
						callee := ""
						switch fn := tn.Fun.(type) {
						case *ast.Ident:
							callee = fn.Name
						case *ast.SelectorExpr:
							callee = fn.Sel.Name
						}
						if callee == "Call" {
							return true // user functions (sfv.key.Call …), not the analysed Call methods
						}
						for _, g := range byName[callee] {
							for i, a := range tn.Args {
								if i < len(g.params) && tainted(af, a) && !g.taint[g.params[i]] {
									g.taint[g.params[i]] = true
									changed = true
								}
							}
						}
					}
					return true
				})
			}
		}
		// the stores
		type rec struct{ file, fn, v, kind string }
		var recs []rec
		seen := map[rec]bool{}
		add := func(r rec) {
			if !seen[r] {
				seen[r] = true
				recs = append(recs, r)
			}
		}
		base := func(e ast.Expr) string {
			for {
				switch te := e.(type) {
				case *ast.Ident:
					return te.Name
				case *ast.SliceExpr:
					e = te.X
				case *ast.ParenExpr:
					e = te.X
				default:
					return ""
				}
			}
		}
		for _, af := range funcs {
			af := af
			// the node path to the store under inspection; a store into x is not recorded when the nearest
			// assignment to x that precedes it (in its own block, else in the enclosing ones) assigns fresh storage
			//   keys := list2; if kc != nil { keys = make(…); for … { keys[i] = … } }
			var stack []ast.Node
			stmtsOf := func(n ast.Node) []ast.Stmt {
				switch tn := n.(type) {
				case *ast.BlockStmt:
					return tn.List
				case *ast.CaseClause:
					return tn.Body
				}
				return nil
			}
			assignedRhs := func(st ast.Stmt, x string) (ast.Expr, bool) {
				switch ts := st.(type) {
				case *ast.AssignStmt:
					for i, l := range ts.Lhs {
						if id, ok := l.(*ast.Ident); ok && id.Name == x {
							if len(ts.Lhs) == len(ts.Rhs) {
								return ts.Rhs[i], true
							}
							return ts.Rhs[0], true
						}
					}
				case *ast.DeclStmt:
					if gd, ok := ts.Decl.(*ast.GenDecl); ok {
						for _, sp := range gd.Specs {
							if vs, ok := sp.(*ast.ValueSpec); ok {
								for i, nme := range vs.Names {
									if nme.Name == x && i < len(vs.Values) {
										return vs.Values[i], true
									}
								}
							}
						}
					}
				}
				return nil, false
			}
			freshHere := func(x string) bool {
				for d := len(stack) - 2; 0 <= d; d-- {
					list := stmtsOf(stack[d])
					if list == nil {
						continue
					}
					at := -1
					for k, st := range list {
						if ast.Node(st) == stack[d+1] {
							at = k
						}
					}
					for k := at - 1; 0 <= k; k-- {
						if rhs, ok := assignedRhs(list[k], x); ok {
							return !tainted(af, rhs)
						}
					}
				}
				return false
			}
			taintedAt := func(v string) bool { return af.taint[v] && !freshHere(v) }
			ast.Inspect(af.decl.Body, func(n ast.Node) bool {
				if n == nil {
					stack = stack[:len(stack)-1]
					return true
				}
				stack = append(stack, n)
				switch tn := n.(type) {
				case *ast.AssignStmt:
					for _, l := range tn.Lhs {
						if ix, ok := l.(*ast.IndexExpr); ok {
							if v := base(ix.X); v != "" && taintedAt(v) {
								add(rec{af.file, af.name, v, "index"})
							}
						}
					}
				case *ast.CallExpr:
					switch fn := tn.Fun.(type) {
					case *ast.SelectorExpr:
						if x, ok := fn.X.(*ast.Ident); ok && (fn.Sel.Name == "Set" || fn.Sel.Name == "Put") && taintedAt(x.Name) {
							add(rec{af.file, af.name, x.Name, "set"})
						}
					case *ast.Ident:
						if fn.Name == "copy" && len(tn.Args) == 2 {
							if v := base(tn.Args[0]); v != "" && taintedAt(v) {
								add(rec{af.file, af.name, v, "copy"})
							}
						}
						if fn.Name == "append" && len(tn.Args) > 0 {
							if se, ok := tn.Args[0].(*ast.SliceExpr); ok {
								if v := base(se); v != "" && taintedAt(v) {
									add(rec{af.file, af.name, v, "reslice"})
								}
							} else if v := base(tn.Args[0]); v != "" && taintedAt(v) {
								add(rec{af.file, af.name, v, "append"})
							}
						}
					}
				}
				return true
			})
		}
		sort.Slice(recs, func(i, j int) bool {
			a, b := recs[i], recs[j]
			return a.file+a.fn+a.v+a.kind < b.file+b.fn+b.v+b.kind
		})
		var b strings.Builder
		b.WriteString("/- GENERATED by /verif/extract (extract/seqalias.go) from pkg/cl/*.go — do not edit. -/\n")
		b.WriteString("namespace SlipVerif.Gen.SeqAlias\n\n")
		b.WriteString("/-- (file, function, variable, kind of store): stores into storage that may belong to an argument, in the\n    files of the sequence functions that must not modify their arguments -/\n")
		b.WriteString("def argumentWrites : List (String × String × String × String) := [")
		for i, r := range recs {
			if i > 0 {
				b.WriteString(",")
			}
			fmt.Fprintf(&b, "\n  (%q, %q, %q, %q)", r.file, r.fn, r.v, r.kind)
		}
		b.WriteString("]\n\n/-- the files analysed and the number of functions found in each -/\n")
		b.WriteString("def analysed : List (String × Nat) := [")
		for i, name := range seqAliasFiles {
			if i > 0 {
				b.WriteString(",")
			}
			fmt.Fprintf(&b, "\n  (%q, %d)", name, perFile[name])
		}
		b.WriteString("]\n\nend SlipVerif.Gen.SeqAlias\n")
		return b.String(), nil
	}
}
