package main

// Gen/FormatCode.lean (C15): what pkg/cl/control.go SAYS NOW about the format directives, beyond
// the tables of Gen/FormatTables:
//
//   dispatch     — readDir's `switch b`: every case byte with the action of its clause (the handler
//                  it calls with (colon, at, params), a prefix-parameter / modifier action, stop, ignore)
//   intBases     — the radix literal each of dirB dirO dirD dirX hands to dirInt
//   radixCall    — how dirR hands over to dirInt (parameter list shifted by one, the radix variable)
//   paramSpecs   — for every handler the getIntParam / getCharParam calls in source order with the
//                  parameter index, the default value (resolved through the local it is taken from)
//                  and the not-negative flag
//   translated code — a small symbolic executor for straight-line Go (integer / boolean locals,
//                  if / switch / type switch over a prefix parameter, count-down emission loops, panics,
//                  the inlined nextArg) turns the bodies of getIntParam, getCharParam, dirT, dirMove,
//                  dirP, dirPercent, dirAmp, dirTilde, dirPage and the range tests of dirInt, dirAS and dirR
//                  into Lean definitions over Int / Bool / byte lists. Theorems/GenC15.lean proves
//                  them equal to the hand-written model for ALL inputs, so the proof is re-checked
//                  against the code as it is on every run.
//
// Anything the executor does not understand becomes an opaque input (a fresh parameter of the
// generated definition) — never a guess. A definition whose inputs change no longer fits the
// theorem that uses it: a broken obligation.

import (
	"fmt"
	"go/ast"
	"go/parser"
	"go/token"
	"go/types"
	"path/filepath"
	"sort"
	"strconv"
	"strings"
)

func init() { generators["FormatCode"] = genFormatCode }

// ---------------------------------------------------------------------------------------------
// symbolic expressions

type fcx struct {
	op   string // const input ite + - * / % neg == != < <= not and or app rep
	typ  byte   // 'i' int, 'b' bool, 'l' byte list, '?' opaque
	a    []*fcx
	n    int64
	name string
	bs   []byte
}

func fcConst(n int64) *fcx { return &fcx{op: "const", typ: 'i', n: n} }
func fcBool(b bool) *fcx {
	if b {
		return &fcx{op: "true", typ: 'b'}
	}
	return &fcx{op: "false", typ: 'b'}
}
func (x *fcx) isTrue() bool  { return x != nil && x.op == "true" }
func (x *fcx) isFalse() bool { return x != nil && x.op == "false" }

func fcEqual(a, b *fcx) bool {
	if a == b {
		return true
	}
	if a == nil || b == nil || a.op != b.op || a.typ != b.typ || a.n != b.n || a.name != b.name || string(a.bs) != string(b.bs) || len(a.a) != len(b.a) {
		return false
	}
	for i := range a.a {
		if !fcEqual(a.a[i], b.a[i]) {
			return false
		}
	}
	return true
}

func fcNot(a *fcx) *fcx {
	switch {
	case a.isTrue():
		return fcBool(false)
	case a.isFalse():
		return fcBool(true)
	case a.op == "not":
		return a.a[0]
	}
	return &fcx{op: "not", typ: 'b', a: []*fcx{a}}
}

func fcAnd(a, b *fcx) *fcx {
	switch {
	case a.isFalse() || b.isFalse():
		return fcBool(false)
	case a.isTrue():
		return b
	case b.isTrue():
		return a
	case fcEqual(a, b):
		return a
	}
	return &fcx{op: "and", typ: 'b', a: []*fcx{a, b}}
}

func fcOr(a, b *fcx) *fcx {
	switch {
	case a.isTrue() || b.isTrue():
		return fcBool(true)
	case a.isFalse():
		return b
	case b.isFalse():
		return a
	case fcEqual(a, b):
		return a
	}
	return &fcx{op: "or", typ: 'b', a: []*fcx{a, b}}
}

// fcAssume rewrites e under the assumption that the boolean c has the value val: occurrences of c
// (and of the conjuncts of a true conjunction / the disjuncts of a false disjunction) become constants
func fcAssume(e, c *fcx, val bool) *fcx {
	switch {
	case c.op == "not":
		return fcAssume(e, c.a[0], !val)
	case c.op == "and" && val:
		return fcAssume(fcAssume(e, c.a[0], true), c.a[1], true)
	case c.op == "or" && !val:
		return fcAssume(fcAssume(e, c.a[0], false), c.a[1], false)
	case c.op == "true" || c.op == "false":
		return e
	}
	return fcSubst(e, c, val)
}

func fcSubst(e, c *fcx, val bool) *fcx {
	if e.typ == 'b' && fcEqual(e, c) {
		return fcBool(val)
	}
	if len(e.a) == 0 {
		return e
	}
	args := make([]*fcx, len(e.a))
	changed := false
	for i, a := range e.a {
		args[i] = fcSubst(a, c, val)
		if args[i] != a {
			changed = true
		}
	}
	if !changed {
		return e
	}
	switch e.op {
	case "not":
		return fcNot(args[0])
	case "and":
		return fcAnd(args[0], args[1])
	case "or":
		return fcOr(args[0], args[1])
	case "ite":
		return fcIte(args[0], args[1], args[2])
	}
	cp := *e
	cp.a = args
	return &cp
}

func fcIte(c, a, b *fcx) *fcx {
	if !c.isTrue() && !c.isFalse() {
		a = fcAssume(a, c, true)
		b = fcAssume(b, c, false)
	}
	switch {
	case c.isTrue():
		return a
	case c.isFalse():
		return b
	case fcEqual(a, b):
		return a
	}
	if a.typ == 'b' && b.typ == 'b' {
		if a.isTrue() && b.isFalse() {
			return c
		}
		if a.isFalse() && b.isTrue() {
			return fcNot(c)
		}
		if a.isTrue() {
			return fcOr(c, b)
		}
		if b.isFalse() {
			return fcAnd(c, a)
		}
	}
	t := a.typ
	if t == '?' {
		t = b.typ
	}
	return &fcx{op: "ite", typ: t, a: []*fcx{c, a, b}}
}

func fcBin(op string, a, b *fcx) *fcx {
	if a.op == "const" && b.op == "const" {
		switch op {
		case "+":
			return fcConst(a.n + b.n)
		case "-":
			return fcConst(a.n - b.n)
		case "*":
			return fcConst(a.n * b.n)
		}
	}
	typ := byte('i')
	switch op {
	case "==", "!=", "<", "<=":
		typ = 'b'
	}
	return &fcx{op: op, typ: typ, a: []*fcx{a, b}}
}

var fcLeanKeywords = map[string]bool{"at": true, "from": true, "end": true, "open": true, "in": true, "do": true, "then": true, "else": true,
	"if": true, "fun": true, "let": true, "have": true, "show": true, "by": true, "match": true, "with": true, "def": true, "where": true,
	"section": true, "namespace": true, "variable": true, "theorem": true, "example": true, "instance": true, "structure": true, "class": true,
	"import": true, "export": true, "private": true, "protected": true, "mutual": true, "for": true, "return": true, "break": true,
	"continue": true, "unless": true, "try": true, "catch": true, "finally": true, "mut": true, "using": true, "calc": true, "Type": true,
	"Prop": true, "Sort": true, "max": true, "min": true}

func (x *fcx) lean() string {
	switch x.op {
	case "const":
		if x.n < 0 {
			return fmt.Sprintf("(%d : Int)", x.n)
		}
		return fmt.Sprintf("(%d : Int)", x.n)
	case "true", "false":
		return x.op
	case "input":
		return "i." + x.name
	case "ite":
		return "(if " + x.a[0].lean() + " = true then " + x.a[1].lean() + " else " + x.a[2].lean() + ")"
	case "+", "-", "*":
		return "(" + x.a[0].lean() + " " + x.op + " " + x.a[1].lean() + ")"
	case "/":
		return "(Int.tdiv " + x.a[0].lean() + " " + x.a[1].lean() + ")"
	case "%":
		return "(Int.tmod " + x.a[0].lean() + " " + x.a[1].lean() + ")"
	case "neg":
		return "(- " + x.a[0].lean() + ")"
	case "==":
		if x.a[0].typ == 'b' {
			return "(" + x.a[0].lean() + " == " + x.a[1].lean() + ")"
		}
		return "(decide (" + x.a[0].lean() + " = " + x.a[1].lean() + "))"
	case "!=":
		if x.a[0].typ == 'b' {
			return "(" + x.a[0].lean() + " != " + x.a[1].lean() + ")"
		}
		return "(decide (" + x.a[0].lean() + " ≠ " + x.a[1].lean() + "))"
	case "<":
		return "(decide (" + x.a[0].lean() + " < " + x.a[1].lean() + "))"
	case "<=":
		return "(decide (" + x.a[0].lean() + " ≤ " + x.a[1].lean() + "))"
	case "not":
		return "(!" + x.a[0].lean() + ")"
	case "and":
		return "(" + x.a[0].lean() + " && " + x.a[1].lean() + ")"
	case "or":
		return "(" + x.a[0].lean() + " || " + x.a[1].lean() + ")"
	case "app":
		parts := make([]string, len(x.bs))
		for i, b := range x.bs {
			parts[i] = strconv.Itoa(int(b))
		}
		return "(" + x.a[0].lean() + " ++ [" + strings.Join(parts, ", ") + "])"
	case "rep":
		return "(" + x.a[0].lean() + " ++ List.replicate (Int.toNat " + x.a[1].lean() + ") " + strconv.Itoa(int(x.bs[0])) + ")"
	case "loopres": // component n of the final state of loop `name` started with the values a[1:] and the fuel a[0]
		return fmt.Sprintf("(fcNth ((%s i (Int.toNat %s) %s).getD []) %d)", x.name, x.a[0].lean(), fcLeanList(x.a[1:]), x.n)
	case "loopok": // the fuel sufficed
		return fmt.Sprintf("(%s i (Int.toNat %s) %s).isSome", x.name, x.a[0].lean(), fcLeanList(x.a[1:]))
	case "var": // a variable of a loop state
		return fmt.Sprintf("(fcNth s %d)", x.n)
	}
	return "sorryUnknownOp_" + x.op
}

func fcLeanList(xs []*fcx) string {
	parts := make([]string, len(xs))
	for i, a := range xs {
		parts[i] = a.lean()
	}
	return "[" + strings.Join(parts, ", ") + "]"
}

func (x *fcx) inputs(seen map[string]*fcx) {
	if x.op == "input" {
		seen[x.name] = x
	}
	for _, a := range x.a {
		a.inputs(seen)
	}
}

// ---------------------------------------------------------------------------------------------
// the executor

type fcExec struct {
	funcs   map[string]*ast.FuncDecl
	seen    map[string]int  // source text -> number of inputs created for it
	inputs  map[string]*fcx // every input created
	depth   int
	declared map[string]*fcx // names declared in the block being executed -> the outer binding they hide
	loops    []fcLoop        // while loops translated into fuel-recursive definitions (of the function being run)
	fn       string          // the function being run
	unknown []string // constructs treated as opaque (for the comment in the generated file)
}

type fcEnv map[string]*fcx

func (e fcEnv) clone() fcEnv {
	c := fcEnv{}
	for k, v := range e {
		c[k] = v
	}
	return c
}

func fcSanitize(s string) string {
	var b strings.Builder
	for _, r := range s {
		switch {
		case r >= 'a' && r <= 'z', r >= 'A' && r <= 'Z', r >= '0' && r <= '9':
			b.WriteRune(r)
		default:
			b.WriteByte('_')
		}
	}
	out := strings.Trim(b.String(), "_")
	for strings.Contains(out, "__") {
		out = strings.ReplaceAll(out, "__", "_")
	}
	if out == "" {
		out = "x"
	}
	if out[0] >= '0' && out[0] <= '9' {
		out = "x" + out
	}
	return out
}

// input creates (or, with reuse, finds) the input named after a piece of source text
func (x *fcExec) input(text string, typ byte, reuse bool) *fcx {
	base := fcSanitize(text)
	if fcLeanKeywords[base] {
		base += "_"
	}
	if reuse {
		if in, ok := x.inputs[base]; ok {
			if in.typ == '?' {
				in.typ = typ
			}
			return in
		}
	}
	x.seen[base]++
	name := base
	if k := x.seen[base]; k > 1 {
		name = fmt.Sprintf("%s_%d", base, k)
	}
	in := &fcx{op: "input", typ: typ, name: name}
	x.inputs[name] = in
	return in
}

func fcStop(env fcEnv) *fcx { return fcOr(env["$err"], env["$ret"]) }

func fcMerge(c *fcx, a, b fcEnv) fcEnv {
	out := fcEnv{}
	for k, va := range a {
		if vb, ok := b[k]; ok {
			out[k] = fcIte(c, va, vb)
		} else {
			out[k] = va
		}
	}
	for k, vb := range b {
		if _, ok := a[k]; !ok {
			out[k] = vb
		}
	}
	return out
}

func fcReplace(env, with fcEnv) {
	for k := range env {
		delete(env, k)
	}
	for k, v := range with {
		env[k] = v
	}
}

func fcKey(e ast.Expr) (string, bool) {
	switch te := e.(type) {
	case *ast.Ident:
		return te.Name, true
	case *ast.SelectorExpr:
		if id, ok := te.X.(*ast.Ident); ok && id.Name == "c" {
			return "c." + te.Sel.Name, true
		}
	}
	return "", false
}

var fcPanicCalls = map[string]bool{"c.invalidDir": true, "c.invalidDirParam": true, "slip.ErrorPanic": true, "slip.TypePanic": true, "panic": true}

func fcCallName(ce *ast.CallExpr) string { return types.ExprString(ce.Fun) }

func (x *fcExec) coerce(v *fcx, want byte) *fcx {
	if v.typ == '?' && want != 0 && want != '?' {
		v.typ = want
	}
	return v
}

func (x *fcExec) eval(e ast.Expr, env fcEnv, want byte) *fcx {
	switch te := e.(type) {
	case *ast.ParenExpr:
		return x.eval(te.X, env, want)
	case *ast.BasicLit:
		switch te.Kind {
		case token.INT:
			if n, err := strconv.ParseInt(te.Value, 0, 64); err == nil {
				return fcConst(n)
			}
		case token.CHAR:
			if s, err := strconv.Unquote(te.Value); err == nil {
				r := []rune(s)
				if len(r) == 1 {
					return fcConst(int64(r[0]))
				}
			}
		}
	case *ast.Ident:
		switch te.Name {
		case "true":
			return fcBool(true)
		case "false":
			return fcBool(false)
		}
		if v, ok := env[te.Name]; ok {
			return x.coerce(v, want)
		}
		return x.input(te.Name, want, true)
	case *ast.SelectorExpr:
		if types.ExprString(te) == "math.MaxInt" {
			return fcConst(9223372036854775807)
		}
		if k, ok := fcKey(te); ok {
			if v, has := env[k]; has {
				return x.coerce(v, want)
			}
			v := x.input(strings.TrimPrefix(k, "c."), want, true)
			env[k] = v
			return v
		}
		return x.input(types.ExprString(te), want, true)
	case *ast.UnaryExpr:
		switch te.Op {
		case token.NOT:
			return fcNot(x.eval(te.X, env, 'b'))
		case token.SUB:
			v := x.eval(te.X, env, 'i')
			if v.op == "const" {
				return fcConst(-v.n)
			}
			return &fcx{op: "neg", typ: 'i', a: []*fcx{v}}
		}
	case *ast.BinaryExpr:
		switch te.Op {
		case token.LAND:
			return fcAnd(x.eval(te.X, env, 'b'), x.eval(te.Y, env, 'b'))
		case token.LOR:
			return fcOr(x.eval(te.X, env, 'b'), x.eval(te.Y, env, 'b'))
		case token.ADD, token.SUB, token.MUL, token.QUO, token.REM:
			return fcBin(te.Op.String(), x.eval(te.X, env, 'i'), x.eval(te.Y, env, 'i'))
		case token.LSS, token.LEQ, token.GTR, token.GEQ, token.EQL, token.NEQ:
			if id, ok := te.Y.(*ast.Ident); ok && id.Name == "nil" {
				break // comparison with nil: opaque
			}
			a := x.eval(te.X, env, 0)
			b := x.eval(te.Y, env, a.typ)
			if a.typ == '?' {
				a.typ = b.typ
			}
			if a.typ == '?' {
				a.typ, b.typ = 'i', 'i'
			}
			switch te.Op {
			case token.LSS:
				return fcBin("<", a, b)
			case token.LEQ:
				return fcBin("<=", a, b)
			case token.GTR:
				return fcBin("<", b, a)
			case token.GEQ:
				return fcBin("<=", b, a)
			case token.EQL:
				return fcBin("==", a, b)
			default:
				return fcBin("!=", a, b)
			}
		}
	case *ast.CallExpr:
		name := fcCallName(te)
		switch {
		case (name == "int" || name == "rune" || name == "int64" || name == "byte") && len(te.Args) == 1:
			return x.eval(te.Args[0], env, 'i')
		case strings.HasSuffix(name, ".RealValue") && len(te.Args) == 0:
			return x.eval(te.Fun.(*ast.SelectorExpr).X, env, 'i')
		case name == "len" && len(te.Args) == 1:
			if id, ok := te.Args[0].(*ast.Ident); ok {
				if v, has := env["#"+id.Name]; has {
					return v // a byte slice the function builds: its length is tracked
				}
			}
			return x.input("len "+types.ExprString(te.Args[0]), 'i', true)
		case (name == "c.getIntParam" || name == "c.getCharParam") && len(te.Args) >= 3:
			// compositional: the decoded parameter is an input; getIntParam itself is translated separately
			return x.input("p "+types.ExprString(te.Args[0]), 'i', true)
		case name == "c.nextArg" && x.funcs["nextArg"] != nil && x.depth < 2:
			return x.inline(x.funcs["nextArg"], nil, env, want)
		}
		if sel, ok := te.Fun.(*ast.SelectorExpr); ok {
			if id, ok := sel.X.(*ast.Ident); ok && id.Name == "c" {
				// a method of the control may do anything to it, except the observers below
				switch sel.Sel.Name {
				case "column", "atLineStart":
				default:
					x.havocControl(env)
				}
			}
		}
		return x.input(types.ExprString(te.Fun), want, false)
	case *ast.IndexExpr:
		return x.input(types.ExprString(te), want, false)
	}
	x.unknown = append(x.unknown, types.ExprString(e))
	return x.input(types.ExprString(e), want, false)
}

func (x *fcExec) havocControl(env fcEnv) {
	for _, k := range []string{"c.out", "c.argPos", "c.stop", "c.pos"} {
		typ := byte('i')
		switch k {
		case "c.out":
			typ = 'l'
		case "c.stop":
			typ = 'b'
		}
		env[k] = x.input(strings.TrimPrefix(k, "c.")+" havoc", typ, false)
	}
}

// inline runs a small method of the control in the caller's environment and returns its result
func (x *fcExec) inline(fd *ast.FuncDecl, args []*fcx, env fcEnv, want byte) *fcx {
	x.depth++
	defer func() { x.depth-- }()
	saved := map[string]*fcx{}
	var names []string
	for _, f := range fd.Type.Params.List {
		for _, n := range f.Names {
			names = append(names, n.Name)
		}
	}
	for i, n := range names {
		saved[n] = env[n]
		if i < len(args) {
			env[n] = args[i]
		}
	}
	outerRet := env["$ret"]
	env["$ret"] = fcBool(false)
	delete(env, "$retval")
	outerDecl := x.declared
	x.declared = nil
	x.block(fd.Body.List, env)
	x.declared = outerDecl
	rv := env["$retval"]
	delete(env, "$retval")
	env["$ret"] = outerRet
	for n, v := range saved {
		if v == nil {
			delete(env, n)
		} else {
			env[n] = v
		}
	}
	if rv == nil {
		rv = x.input(fd.Name.Name+" result", want, false)
	}
	return x.coerce(rv, want)
}

// block runs the statements in the current scope. After a statement that may have stopped the
// function (return / panic) the rest of the block is the else-branch of the stop condition.
func (x *fcExec) block(stmts []ast.Stmt, env fcEnv) {
	for i, s := range stmts {
		x.stmt(s, env)
		stop := fcStop(env)
		if stop.isTrue() {
			return
		}
		if stop.isFalse() {
			continue
		}
		rest := env.clone()
		rest["$err"] = fcBool(false)
		rest["$ret"] = fcBool(false)
		x.block(stmts[i+1:], rest)
		fcReplace(env, fcMerge(stop, env, rest))
		return
	}
}

// scoped runs a nested block: names it declares (:= / var) are local to it
func (x *fcExec) scoped(stmts []ast.Stmt, env fcEnv) {
	outer := x.declared
	x.declared = map[string]*fcx{}
	x.block(stmts, env)
	for n, saved := range x.declared {
		if saved == nil {
			delete(env, n)
		} else {
			env[n] = saved
		}
	}
	x.declared = outer
}

func (x *fcExec) declare(name string, env fcEnv) {
	if x.declared == nil {
		return
	}
	if _, dup := x.declared[name]; !dup {
		x.declared[name] = env[name] // nil when there is no outer variable of that name
	}
}

// sliceAppend: `v = append(v, X...)` / `v = append(v, 'c')` for a byte slice v whose length is tracked
func (x *fcExec) sliceAppend(as *ast.AssignStmt, env fcEnv) (string, *fcx, bool) {
	if len(as.Lhs) != 1 || len(as.Rhs) != 1 {
		return "", nil, false
	}
	id, ok := as.Lhs[0].(*ast.Ident)
	if !ok {
		return "", nil, false
	}
	if _, tracked := env["#"+id.Name]; !tracked {
		return "", nil, false
	}
	ce, ok := as.Rhs[0].(*ast.CallExpr)
	if !ok || fcCallName(ce) != "append" || len(ce.Args) < 2 || types.ExprString(ce.Args[0]) != id.Name {
		return "", nil, false
	}
	if ce.Ellipsis.IsValid() {
		if len(ce.Args) != 2 {
			return "", nil, false
		}
		if s, isLit := fmtStrLit(ce.Args[1]); isLit {
			return id.Name, fcConst(int64(len(s))), true
		}
		if a, isId := ce.Args[1].(*ast.Ident); isId {
			if v, has := env["#"+a.Name]; has {
				return id.Name, v, true
			}
			return id.Name, x.input("len "+a.Name, 'i', true), true
		}
		return "", nil, false
	}
	return id.Name, fcConst(int64(len(ce.Args) - 1)), true
}

func fcIsByteSlice(t ast.Expr) bool { return t != nil && types.ExprString(t) == "[]byte" }

func fcZero(t ast.Expr) *fcx {
	if id, ok := t.(*ast.Ident); ok {
		switch id.Name {
		case "int", "int64", "byte", "rune":
			return fcConst(0)
		case "bool":
			return fcBool(false)
		}
	}
	return nil
}

// byte literals appended to c.out: 'x', 'i', 'e', 's' or "zeroth"...
func fcAppendBytes(ce *ast.CallExpr) ([]byte, bool) {
	if len(ce.Args) < 2 || types.ExprString(ce.Args[0]) != "c.out" {
		return nil, false
	}
	var bs []byte
	if ce.Ellipsis.IsValid() {
		if len(ce.Args) != 2 {
			return nil, false
		}
		s, ok := fmtStrLit(ce.Args[1])
		if !ok {
			return nil, false
		}
		return []byte(s), true
	}
	for _, a := range ce.Args[1:] {
		bl, ok := a.(*ast.BasicLit)
		if !ok || bl.Kind != token.CHAR {
			return nil, false
		}
		s, err := strconv.Unquote(bl.Value)
		if err != nil || len(s) != 1 {
			return nil, false
		}
		bs = append(bs, s[0])
	}
	return bs, true
}

func (x *fcExec) assign(lhs ast.Expr, v *fcx, env fcEnv) {
	if id, ok := lhs.(*ast.Ident); ok && id.Name == "_" {
		return
	}
	if k, ok := fcKey(lhs); ok {
		env[k] = v
	}
}

func (x *fcExec) assigned(n ast.Node, into map[string]bool) (callsControl bool) {
	ast.Inspect(n, func(m ast.Node) bool {
		switch tm := m.(type) {
		case *ast.AssignStmt:
			for _, l := range tm.Lhs {
				if k, ok := fcKey(l); ok {
					into[k] = true
				}
			}
		case *ast.IncDecStmt:
			if k, ok := fcKey(tm.X); ok {
				into[k] = true
			}
		case *ast.CallExpr:
			if sel, ok := tm.Fun.(*ast.SelectorExpr); ok {
				if id, ok := sel.X.(*ast.Ident); ok && id.Name == "c" {
					callsControl = true
				}
			}
		}
		return true
	})
	return
}

func (x *fcExec) havocLoop(n ast.Node, env fcEnv) {
	set := map[string]bool{}
	calls := x.assigned(n, set)
	keys := make([]string, 0, len(set))
	for k := range set {
		keys = append(keys, k)
	}
	sort.Strings(keys)
	for _, k := range keys {
		typ := byte('?')
		if old, ok := env[k]; ok {
			typ = old.typ
			env[k+"@loop"] = old // the value the variable has when the (last) loop that changes it starts
		}
		env[k] = x.input(strings.TrimPrefix(k, "c.")+" loop", typ, false)
	}
	if calls {
		x.havocControl(env)
	}
}

func (x *fcExec) cases(conds []*fcx, bodies [][]ast.Stmt, dflt []ast.Stmt, env fcEnv) {
	// if c0 {b0} else if c1 {b1} … else {dflt}
	if len(conds) == 0 {
		x.scoped(dflt, env)
		return
	}
	a := env.clone()
	x.scoped(bodies[0], a)
	b := env.clone()
	x.cases(conds[1:], bodies[1:], dflt, b)
	merged := fcMerge(conds[0], a, b)
	for k := range env {
		delete(env, k)
	}
	for k, v := range merged {
		env[k] = v
	}
}

var fcTypeCodes = map[string]int64{"nil": 0, "int": 1, "slip.Integer": 2, "slip.Character": 3}

func (x *fcExec) stmt(s ast.Stmt, env fcEnv) {
	switch ts := s.(type) {
	case *ast.BlockStmt:
		x.scoped(ts.List, env)
	case *ast.LabeledStmt:
		x.stmt(ts.Stmt, env)
	case *ast.EmptyStmt:
	case *ast.DeclStmt:
		gd, ok := ts.Decl.(*ast.GenDecl)
		if !ok {
			return
		}
		for _, sp := range gd.Specs {
			vs, ok := sp.(*ast.ValueSpec)
			if !ok {
				continue
			}
			for i, n := range vs.Names {
				x.declare(n.Name, env)
				switch {
				case i < len(vs.Values):
					env[n.Name] = x.eval(vs.Values[i], env, 0)
				case vs.Type != nil && fcZero(vs.Type) != nil:
					env[n.Name] = fcZero(vs.Type)
				case fcIsByteSlice(vs.Type):
					delete(env, n.Name)
					x.declare("#"+n.Name, env)
					env["#"+n.Name] = fcConst(0) // an empty byte slice: only its length is followed
				default:
					delete(env, n.Name)
				}
			}
		}
	case *ast.IncDecStmt:
		v := x.eval(ts.X, env, 'i')
		if ts.Tok == token.INC {
			x.assign(ts.X, fcBin("+", v, fcConst(1)), env)
		} else {
			x.assign(ts.X, fcBin("-", v, fcConst(1)), env)
		}
	case *ast.AssignStmt:
		switch {
		case len(ts.Lhs) == 1 && len(ts.Rhs) == 1:
			if ts.Tok != token.ASSIGN && ts.Tok != token.DEFINE {
				op := strings.TrimSuffix(ts.Tok.String(), "=")
				cur := x.eval(ts.Lhs[0], env, 'i')
				x.assign(ts.Lhs[0], fcBin(op, cur, x.eval(ts.Rhs[0], env, 'i')), env)
				return
			}
			if k, ok := fcKey(ts.Lhs[0]); ok && k == "c.out" {
				if ce, ok := ts.Rhs[0].(*ast.CallExpr); ok && fcCallName(ce) == "append" {
					if bs, ok := fcAppendBytes(ce); ok {
						cur := x.eval(ts.Lhs[0], env, 'l')
						env[k] = &fcx{op: "app", typ: 'l', a: []*fcx{cur}, bs: bs}
						return
					}
				}
				env[k] = x.input("out written", 'l', false)
				return
			}
			if name, n, ok := x.sliceAppend(ts, env); ok {
				env["#"+name] = fcBin("+", env["#"+name], n)
				return
			}
			if id, ok := ts.Lhs[0].(*ast.Ident); ok {
				if _, tracked := env["#"+id.Name]; tracked {
					x.eval(ts.Rhs[0], env, 0)
					env["#"+id.Name] = x.input("len "+id.Name, 'i', false) // written by something else: unknown length
					return
				}
			}
			var want byte
			if k, ok := fcKey(ts.Lhs[0]); ok {
				if old, has := env[k]; has && ts.Tok == token.ASSIGN {
					want = old.typ
				}
			}
			v := x.eval(ts.Rhs[0], env, want)
			if id, ok := ts.Lhs[0].(*ast.Ident); ok && ts.Tok == token.DEFINE {
				x.declare(id.Name, env)
			}
			x.assign(ts.Lhs[0], v, env)
		case len(ts.Lhs) == 2 && len(ts.Rhs) == 1:
			// n, ok := arg.(slip.Fixnum): two inputs named after the variables
			x.eval(ts.Rhs[0], env, 0)
			for i, l := range ts.Lhs {
				if id, ok := l.(*ast.Ident); ok && id.Name != "_" {
					typ := byte('i')
					if i == 1 {
						typ = 'b'
					}
					if ts.Tok == token.DEFINE {
						x.declare(id.Name, env)
					}
					env[id.Name] = x.input(id.Name, typ, false)
				}
			}
		case len(ts.Lhs) == len(ts.Rhs):
			vals := make([]*fcx, len(ts.Rhs))
			for i, r := range ts.Rhs {
				vals[i] = x.eval(r, env, 0)
			}
			for i, l := range ts.Lhs {
				if id, ok := l.(*ast.Ident); ok && ts.Tok == token.DEFINE {
					x.declare(id.Name, env)
				}
				x.assign(l, vals[i], env)
			}
		}
	case *ast.ExprStmt:
		ce, ok := ts.X.(*ast.CallExpr)
		if !ok {
			return
		}
		if fcPanicCalls[fcCallName(ce)] {
			env["$err"] = fcBool(true)
			env["$ret"] = fcBool(true)
			return
		}
		x.eval(ce, env, 0)
	case *ast.ReturnStmt:
		if len(ts.Results) == 1 {
			env["$retval"] = x.eval(ts.Results[0], env, 0)
		}
		env["$ret"] = fcBool(true)
	case *ast.IfStmt:
		if ts.Init != nil {
			x.stmt(ts.Init, env)
		}
		c := x.eval(ts.Cond, env, 'b')
		a := env.clone()
		x.scoped(ts.Body.List, a)
		b := env.clone()
		if ts.Else != nil {
			x.stmt(ts.Else, b)
		}
		fcReplace(env, fcMerge(c, a, b))
	case *ast.SwitchStmt:
		if ts.Init != nil {
			x.stmt(ts.Init, env)
		}
		var tag *fcx
		if ts.Tag != nil {
			tag = x.eval(ts.Tag, env, 0)
		}
		var conds []*fcx
		var bodies [][]ast.Stmt
		var dflt []ast.Stmt
		for _, cl := range ts.Body.List {
			cc := cl.(*ast.CaseClause)
			if cc.List == nil {
				dflt = cc.Body
				continue
			}
			c := fcBool(false)
			for _, e := range cc.List {
				if tag == nil {
					c = fcOr(c, x.eval(e, env, 'b'))
				} else {
					v := x.eval(e, env, tag.typ)
					if tag.typ == '?' {
						tag.typ = v.typ
					}
					c = fcOr(c, fcBin("==", tag, v))
				}
			}
			conds = append(conds, c)
			bodies = append(bodies, cc.Body)
		}
		x.cases(conds, bodies, dflt, env)
	case *ast.TypeSwitchStmt:
		x.typeSwitch(ts, env)
	case *ast.ForStmt:
		if x.countdown(ts, env) || x.whileLoop(ts, env) {
			return
		}
		x.havocLoop(ts, env)
	case *ast.RangeStmt:
		x.havocLoop(ts, env)
	default:
		x.unknown = append(x.unknown, fmt.Sprintf("%T", s))
	}
}

// for ; 0 < n; n-- { c.out = append(c.out, 'x') }  ==>  out ++ replicate n 'x', n = min n 0
// for i := e; 0 < i; i-- { pad = append(pad, padchar...) }  ==>  len(pad) += max e 0 * len(padchar)
func (x *fcExec) countdown(fs *ast.ForStmt, env fcEnv) bool {
	if fs.Cond == nil || fs.Post == nil || len(fs.Body.List) != 1 {
		return false
	}
	be, ok := fs.Cond.(*ast.BinaryExpr)
	if !ok {
		return false
	}
	var v ast.Expr
	switch {
	case be.Op == token.LSS && types.ExprString(be.X) == "0":
		v = be.Y
	case be.Op == token.GTR && types.ExprString(be.Y) == "0":
		v = be.X
	default:
		return false
	}
	id, ok := v.(*ast.Ident)
	if !ok {
		return false
	}
	post, ok := fs.Post.(*ast.IncDecStmt)
	if !ok || post.Tok != token.DEC || types.ExprString(post.X) != id.Name {
		return false
	}
	as, ok := fs.Body.List[0].(*ast.AssignStmt)
	if !ok || len(as.Lhs) != 1 || len(as.Rhs) != 1 {
		return false
	}
	local := false
	var n *fcx
	if fs.Init != nil {
		ini, ok := fs.Init.(*ast.AssignStmt)
		if !ok || ini.Tok != token.DEFINE || len(ini.Lhs) != 1 || len(ini.Rhs) != 1 || types.ExprString(ini.Lhs[0]) != id.Name {
			return false
		}
		n = x.eval(ini.Rhs[0], env, 'i')
		local = true
	}
	count := func() *fcx { return fcIte(fcBin("<", fcConst(0), n), n, fcConst(0)) }
	if types.ExprString(as.Lhs[0]) == "c.out" {
		ce, ok := as.Rhs[0].(*ast.CallExpr)
		if !ok || fcCallName(ce) != "append" {
			return false
		}
		bs, ok := fcAppendBytes(ce)
		if !ok || len(bs) != 1 {
			return false
		}
		if n == nil {
			n = x.eval(id, env, 'i')
		}
		cur := x.eval(as.Lhs[0], env, 'l')
		env["c.out"] = &fcx{op: "rep", typ: 'l', a: []*fcx{cur, n}, bs: bs}
	} else {
		if n == nil {
			n = x.eval(id, env, 'i')
		}
		name, unit, ok := x.sliceAppend(as, env)
		if !ok {
			return false
		}
		env["#"+name] = fcBin("+", env["#"+name], fcBin("*", count(), unit))
	}
	if !local {
		env[id.Name] = fcIte(fcBin("<", fcConst(0), n), fcConst(0), n)
	}
	return true
}

type fcLoop struct {
	name string
	vars []string // the variables the loop changes, in the order of the state list
	cond *fcx     // over "var" nodes (the state) and inputs
	next []*fcx   // the state after one round
}

// whileLoop: `for A < B { body }` whose body is straight-line code over integers (no calls on the control,
// no return / panic) becomes a fuel-recursive definition over the list of the variables it changes. The
// fuel is the gap B - A at the start plus 1 (every round must close it by at least 1: the theorem that
// uses the loop proves `isSome`, i.e. that this fuel sufficed, together with the value).
func (x *fcExec) whileLoop(fs *ast.ForStmt, env fcEnv) bool {
	if fs.Init != nil || fs.Post != nil || fs.Cond == nil {
		return false
	}
	be, ok := fs.Cond.(*ast.BinaryExpr)
	if !ok || (be.Op != token.LSS && be.Op != token.GTR) {
		return false
	}
	bad := false
	ast.Inspect(fs.Body, func(n ast.Node) bool {
		switch tn := n.(type) {
		case *ast.ReturnStmt, *ast.BranchStmt, *ast.GoStmt, *ast.DeferStmt:
			bad = true
		case *ast.CallExpr:
			name := fcCallName(tn)
			if name != "append" && name != "len" && name != "int" {
				bad = true
			}
		}
		return !bad
	})
	if bad {
		return false
	}
	set := map[string]bool{}
	x.assigned(fs.Body, set)
	var vars []string
	for k := range set {
		key := k
		if _, tracked := env["#"+k]; tracked {
			key = "#" + k
		}
		if _, has := env[key]; !has {
			continue // a local of the body
		}
		if env[key].typ != 'i' {
			return false
		}
		vars = append(vars, key)
	}
	sort.Strings(vars)
	if len(vars) == 0 {
		return false
	}
	inner := env.clone()
	for i, v := range vars {
		inner[v] = &fcx{op: "var", typ: 'i', n: int64(i), name: v}
	}
	savedDecl := x.declared
	x.declared = map[string]*fcx{}
	cond := x.eval(fs.Cond, inner, 'b')
	before := len(x.loops)
	x.block(fs.Body.List, inner)
	x.declared = savedDecl
	if len(x.loops) != before || !fcStop(inner).isFalse() {
		x.loops = x.loops[:before]
		return false // nested general loops / exits are not translated
	}
	lp := fcLoop{name: fmt.Sprintf("%s_loop%d", x.fn, len(x.loops)+1), vars: vars, cond: cond}
	for _, v := range vars {
		lp.next = append(lp.next, inner[v])
	}
	x.loops = append(x.loops, lp)
	// fuel: the gap of the condition at the start + 1
	a, b := x.eval(be.X, env, 'i'), x.eval(be.Y, env, 'i')
	if be.Op == token.GTR {
		a, b = b, a
	}
	fuel := fcBin("+", fcBin("-", b, a), fcConst(1))
	args := []*fcx{fuel}
	for _, v := range vars {
		args = append(args, env[v])
	}
	for i, v := range vars {
		env[v] = &fcx{op: "loopres", typ: 'i', name: lp.name, n: int64(i), a: args}
	}
	ok2 := &fcx{op: "loopok", typ: 'b', name: lp.name, a: args}
	if cur, has := env["$loopsok"]; has {
		env["$loopsok"] = fcAnd(cur, ok2)
	} else {
		env["$loopsok"] = ok2
	}
	return true
}

// switch tp := params[K].(type): the decoded prefix parameter is the pair of inputs (P<K>kind, P<K>val):
// kind 0 = nil (omitted, or nil given for v), 1 = int (literal, #), 2 = slip.Integer (v), 3 = slip.Character, 4 = anything else
func (x *fcExec) typeSwitch(ts *ast.TypeSwitchStmt, env fcEnv) {
	var bound string
	var subject ast.Expr
	switch ta := ts.Assign.(type) {
	case *ast.AssignStmt:
		if id, ok := ta.Lhs[0].(*ast.Ident); ok {
			bound = id.Name
		}
		if tae, ok := ta.Rhs[0].(*ast.TypeAssertExpr); ok {
			subject = tae.X
		}
	case *ast.ExprStmt:
		if tae, ok := ta.X.(*ast.TypeAssertExpr); ok {
			subject = tae.X
		}
	}
	var kind, val *fcx
	if ie, ok := subject.(*ast.IndexExpr); ok && types.ExprString(ie.X) == "params" {
		idx := types.ExprString(ie.Index)
		if _, err := strconv.Atoi(idx); err != nil {
			idx = ""
		}
		kind = x.input("P"+idx+"kind", 'i', true)
		val = x.input("P"+idx+"val", 'i', true)
	}
	var conds []*fcx
	var bodies [][]ast.Stmt
	var dflt []ast.Stmt
	subj := "nil"
	if subject != nil {
		subj = types.ExprString(subject)
	}
	for _, cl := range ts.Body.List {
		cc := cl.(*ast.CaseClause)
		if cc.List == nil {
			dflt = cc.Body
			continue
		}
		c := fcBool(false)
		for _, e := range cc.List {
			tname := types.ExprString(e)
			if kind != nil {
				code, ok := fcTypeCodes[tname]
				if !ok {
					code = 4
				}
				c = fcOr(c, fcBin("==", kind, fcConst(code)))
			} else {
				c = fcOr(c, x.input(subj+" is "+tname, 'b', true))
			}
		}
		conds = append(conds, c)
		bodies = append(bodies, cc.Body)
	}
	saved, had := env[bound]
	if bound != "" {
		if val != nil {
			env[bound] = val
		} else {
			env[bound] = x.input(subj+" value", '?', true)
		}
	}
	x.cases(conds, bodies, dflt, env)
	if bound != "" {
		if had {
			env[bound] = saved
		} else {
			delete(env, bound)
		}
	}
}

// run executes a method of the control and returns its final environment
func (x *fcExec) run(name string) (fcEnv, bool) {
	fd := x.funcs[name]
	if fd == nil || fd.Body == nil {
		return nil, false
	}
	x.seen = map[string]int{}
	x.inputs = map[string]*fcx{}
	x.fn = name
	x.loops = nil
	env := fcEnv{"$err": fcBool(false), "$ret": fcBool(false)}
	for _, f := range fd.Type.Params.List {
		typ := byte('?')
		if id, ok := f.Type.(*ast.Ident); ok {
			switch id.Name {
			case "int":
				typ = 'i'
			case "bool":
				typ = 'b'
			}
		}
		for _, n := range f.Names {
			if typ != '?' {
				env[n.Name] = x.input(n.Name, typ, true)
			}
		}
	}
	env["c.out"] = x.input("out", 'l', true)
	env["c.argPos"] = x.input("argPos", 'i', true)
	x.block(fd.Body.List, env)
	return env, true
}

type fcOutput struct {
	fn, key, leanName, doc string
}

func fcLeanType(t byte) string {
	switch t {
	case 'b':
		return "Bool"
	case 'l':
		return "List Nat"
	}
	return "Int"
}

type fcDef struct {
	name, doc string
	v         *fcx
	loop      *fcLoop // a loop definition instead of a value
}

// fcEmitDefs: one input record for all translated functions (every input any of them reads, with a
// default, so that a theorem names only the inputs it talks about), then the definitions
func fcEmitDefs(b *strings.Builder, defs []fcDef) {
	all := map[string]*fcx{}
	for _, d := range defs {
		if d.loop != nil {
			d.loop.cond.inputs(all)
			for _, n := range d.loop.next {
				n.inputs(all)
			}
			continue
		}
		d.v.inputs(all)
	}
	names := make([]string, 0, len(all))
	for n := range all {
		names = append(names, n)
	}
	sort.Strings(names)
	b.WriteString("/-- the inputs of the translated functions: function parameters, fields of the control (argPos, out),\n    the decoded prefix parameter `params[K]` as (P<K>kind, P<K>val), and every sub-expression the translator\n    treats as opaque (calls, lengths) -/\nstructure In where\n")
	for _, n := range names {
		dflt := "0"
		switch all[n].typ {
		case 'b':
			dflt = "false"
		case 'l':
			dflt = "[]"
		}
		fmt.Fprintf(b, "  %s : %s := %s\n", n, fcLeanType(all[n].typ), dflt)
	}
	b.WriteString("\n/-- component k of a loop state -/\ndef fcNth (s : List Int) (k : Nat) : Int := s.getD k 0\n\n")
	for _, d := range defs {
		if d.loop != nil {
			fmt.Fprintf(b, "/-- the condition of %s -/\ndef %s_cond (i : In) (s : List Int) : Bool :=\n  %s\n\n", d.name, d.name, d.loop.cond.lean())
			fmt.Fprintf(b, "/-- the state after one round of %s -/\ndef %s_next (i : In) (s : List Int) : List Int :=\n  %s\n\n", d.name, d.name, fcLeanList(d.loop.next))
			fmt.Fprintf(b, "/-- %s -/\ndef %s (i : In) : Nat → List Int → Option (List Int)\n  | 0, s => if %s_cond i s = true then none else some s\n  | n + 1, s => if %s_cond i s = true then %s i n (%s_next i s) else some s\n\n",
				d.doc, d.name, d.name, d.name, d.name, d.name)
			continue
		}
		fmt.Fprintf(b, "/-- %s -/\ndef %s (i : In) : %s :=\n  %s\n\n", d.doc, d.name, fcLeanType(d.v.typ), d.v.lean())
	}
}

// ---------------------------------------------------------------------------------------------
// the plain facts: dispatch, bases, parameter specifications

func fcDispatchAction(cc *ast.CaseClause) string {
	action := ""
	sawReturnOnly := true
	for _, s := range cc.Body {
		if _, ok := s.(*ast.ReturnStmt); !ok {
			sawReturnOnly = false
		}
	}
	if len(cc.Body) > 0 && sawReturnOnly {
		return "ignore"
	}
	for _, s := range cc.Body {
		ast.Inspect(s, func(n ast.Node) bool {
			if action != "" {
				return false
			}
			switch tn := n.(type) {
			case *ast.CallExpr:
				name := fcCallName(tn)
				switch {
				case strings.HasPrefix(name, "c.dir"):
					var args []string
					for _, a := range tn.Args {
						args = append(args, types.ExprString(a))
					}
					action = strings.TrimPrefix(name, "c.")
					if strings.Join(args, ",") != "colon,at,params" {
						action += "(" + strings.Join(args, ",") + ")"
					}
				case name == "c.readParam":
					action = "number"
				case name == "c.nextArg":
					action = "v"
				case name == "utf8.DecodeRune":
					action = "quote"
				}
			case *ast.AssignStmt:
				if len(tn.Lhs) == 1 && len(tn.Rhs) == 1 {
					l, r := types.ExprString(tn.Lhs[0]), types.ExprString(tn.Rhs[0])
					switch {
					case l == "colon" && r == "true":
						action = "colon"
					case l == "at" && r == "true":
						action = "at"
					case l == "c.stop" && r == "true":
						action = "stop"
					case l == "hasParam" && r == "false":
						action = "comma"
					case l == "params" && strings.Contains(r, "len(c.args) - c.argPos"):
						action = "hash"
					}
				}
			}
			return true
		})
		if action != "" && action != "colon" && action != "at" {
			break
		}
	}
	if action == "" {
		return "other"
	}
	return action
}

func fcLeanStr(s string) string { return strconv.Quote(s) }

func genFormatCode(repo string) (string, error) {
	path := filepath.Join(repo, "pkg", "cl", "control.go")
	fset := token.NewFileSet()
	file, err := parser.ParseFile(fset, path, nil, 0)
	if err != nil {
		return "", err
	}
	funcs := map[string]*ast.FuncDecl{}
	var order []string
	for _, d := range file.Decls {
		if fd, ok := d.(*ast.FuncDecl); ok && fd.Recv != nil && fd.Body != nil {
			funcs[fd.Name.Name] = fd
			order = append(order, fd.Name.Name)
		}
	}
	var b strings.Builder
	b.WriteString("/- GENERATED by /verif/extract (extract/formatcode.go) from pkg/cl/control.go — do not edit. -/\n")
	b.WriteString("namespace SlipVerif.Gen.FormatCode\n\n")

	// --- dispatch
	var disp []string
	if rd := funcs["readDir"]; rd != nil {
		ast.Inspect(rd.Body, func(n ast.Node) bool {
			sw, ok := n.(*ast.SwitchStmt)
			if !ok || sw.Tag == nil || types.ExprString(sw.Tag) != "b" {
				return true
			}
			for _, cl := range sw.Body.List {
				cc := cl.(*ast.CaseClause)
				if cc.List == nil {
					continue
				}
				action := fcDispatchAction(cc)
				for _, e := range cc.List {
					if bl, ok := e.(*ast.BasicLit); ok && bl.Kind == token.CHAR {
						if s, err := strconv.Unquote(bl.Value); err == nil && len(s) == 1 {
							disp = append(disp, fmt.Sprintf("(%d, %s)", s[0], fcLeanStr(action)))
						}
					}
				}
			}
			return false
		})
	}
	fmt.Fprintf(&b, "/-- readDir's switch over the byte after `~` (and after the prefix parameters): (byte, action of the clause) in source order -/\ndef dispatch : List (Nat × String) := [\n  %s]\n\n", strings.Join(disp, ",\n  "))

	// --- bases: func (c *control) dirX(colon, at bool, params []any) { c.dirInt(colon, at, params, N) }
	var bases []string
	for _, name := range order {
		fd := funcs[name]
		if len(fd.Body.List) != 1 {
			continue
		}
		es, ok := fd.Body.List[0].(*ast.ExprStmt)
		if !ok {
			continue
		}
		ce, ok := es.X.(*ast.CallExpr)
		if !ok || fcCallName(ce) != "c.dirInt" || len(ce.Args) != 4 {
			continue
		}
		var args []string
		for _, a := range ce.Args[:3] {
			args = append(args, types.ExprString(a))
		}
		if bl, ok := ce.Args[3].(*ast.BasicLit); ok && bl.Kind == token.INT && strings.Join(args, ",") == "colon,at,params" {
			bases = append(bases, fmt.Sprintf("(%s, %s)", fcLeanStr(name), bl.Value))
		}
	}
	fmt.Fprintf(&b, "/-- handlers that are `c.dirInt(colon, at, params, <radix>)` and nothing else -/\ndef intBases : List (String × Nat) := [%s]\n\n", strings.Join(bases, ", "))

	// --- dirR's hand-over to dirInt
	radixCall := ""
	if fd := funcs["dirR"]; fd != nil {
		ast.Inspect(fd.Body, func(n ast.Node) bool {
			if ce, ok := n.(*ast.CallExpr); ok && fcCallName(ce) == "c.dirInt" {
				var args []string
				for _, a := range ce.Args {
					args = append(args, types.ExprString(a))
				}
				radixCall = strings.Join(args, ",")
				return false
			}
			return true
		})
	}
	fmt.Fprintf(&b, "/-- the arguments of dirR's call of dirInt -/\ndef radixCall : String := %s\n\n", fcLeanStr(radixCall))

	// --- parameter specifications
	var specs []string
	for _, name := range order {
		fd := funcs[name]
		if name == "getIntParam" || name == "getCharParam" {
			continue
		}
		// literal initial values of locals: `mincol := 0`, `padchar := []byte{' '}`, `n := math.MaxInt`
		locals := map[string]string{}
		var entries []string
		ast.Inspect(fd.Body, func(n ast.Node) bool {
			switch tn := n.(type) {
			case *ast.AssignStmt:
				if tn.Tok == token.DEFINE && len(tn.Lhs) == 1 && len(tn.Rhs) == 1 {
					if id, ok := tn.Lhs[0].(*ast.Ident); ok {
						if v, ok := fcLiteral(tn.Rhs[0]); ok {
							if _, dup := locals[id.Name]; !dup {
								locals[id.Name] = v
							}
						}
					}
				}
			case *ast.CallExpr:
				cn := fcCallName(tn)
				if cn != "c.getIntParam" && cn != "c.getCharParam" {
					return true
				}
				kind := 0
				if cn == "c.getCharParam" {
					kind = 1
				}
				if len(tn.Args) < 3 {
					return true
				}
				idx, ok1 := fcLiteral(tn.Args[0])
				dflt, ok2 := fcLiteral(tn.Args[2])
				if !ok2 {
					if id, ok := tn.Args[2].(*ast.Ident); ok {
						dflt, ok2 = locals[id.Name]
					}
				}
				notNeg := "true"
				if kind == 0 {
					notNeg = "false"
					if len(tn.Args) == 4 && types.ExprString(tn.Args[3]) == "true" {
						notNeg = "true"
					}
				}
				if !ok1 || !ok2 || types.ExprString(tn.Args[1]) != "params" {
					entries = append(entries, "(9, 0, 0, false)") // not understood: no theorem accepts kind 9
					return true
				}
				entries = append(entries, fmt.Sprintf("(%d, %s, %s, %s)", kind, idx, dflt, notNeg))
			}
			return true
		})
		if len(entries) > 0 {
			specs = append(specs, fmt.Sprintf("(%s, [%s])", fcLeanStr(name), strings.Join(entries, ", ")))
		}
	}
	fmt.Fprintf(&b, "/-- per handler: its getIntParam (kind 0) / getCharParam (kind 1) calls in source order as\n    (kind, parameter index, default, not-negative); the default of a character parameter is its code, `math.MaxInt` is -1, `nil` is -2 -/\ndef paramSpecs : List (String × List (Nat × Nat × Int × Bool)) := [\n  %s]\n\n", strings.Join(specs, ",\n  "))

	// --- translated code
	x := &fcExec{funcs: funcs}
	outputs := []struct {
		fn   string
		keys []string
	}{
		{"getIntParam", []string{"$err", "$retval"}},
		{"getCharParam", []string{"$err"}},
		{"dirT", []string{"target@loop", "$err"}},
		{"dirMove", []string{"c.argPos", "$err", "c.out"}},
		{"dirP", []string{"c.argPos", "$err", "c.out"}},
		{"dirPercent", []string{"c.out", "$err", "c.argPos"}},
		{"dirAmp", []string{"c.out", "$err", "c.argPos"}},
		{"dirTilde", []string{"c.out", "$err", "c.argPos"}},
		{"dirPage", []string{"c.out", "$err", "c.argPos"}},
		{"dirInt", []string{"$err"}},
		{"dirAS", []string{"$err", "#pad", "#out", "$loopsok"}},
		{"nextArg", []string{"c.argPos", "$err"}},
	}
	var missing []string
	var defs []fcDef
	for _, o := range outputs {
		var env fcEnv
		var ok bool
		if o.fn == "getIntParam" || o.fn == "getCharParam" {
			// the result of these two is their return value: run them like an inlined call
			fd := funcs[o.fn]
			if fd != nil {
				x.seen = map[string]int{}
				x.inputs = map[string]*fcx{}
				env = fcEnv{"$err": fcBool(false), "$ret": fcBool(false)}
				for _, f := range fd.Type.Params.List {
					typ := byte('?')
					if id, isId := f.Type.(*ast.Ident); isId {
						switch id.Name {
						case "int":
							typ = 'i'
						case "bool":
							typ = 'b'
						}
					}
					for _, n := range f.Names {
						if typ != '?' {
							env[n.Name] = x.input(n.Name, typ, true)
						}
					}
				}
				x.block(fd.Body.List, env)
				ok = true
			}
		} else {
			env, ok = x.run(o.fn)
		}
		if !ok {
			missing = append(missing, o.fn)
			continue
		}
		for li := range x.loops {
			lp := x.loops[li]
			var vn []string
			for _, v := range lp.vars {
				vn = append(vn, strings.TrimPrefix(v, "#")+map[bool]string{true: " (length)", false: ""}[strings.HasPrefix(v, "#")])
			}
			defs = append(defs, fcDef{name: lp.name, loop: &lp,
				doc: fmt.Sprintf("control.go %s: a `for <cond> { … }` loop over the state [%s]: `none` when the fuel does not suffice, else the state when the condition fails", o.fn, strings.Join(vn, ", "))})
		}
		x.loops = nil
		for _, k := range o.keys {
			v, has := env[k]
			if !has || v.typ == '?' {
				missing = append(missing, o.fn+"."+k)
				continue
			}
			suffix := map[string]string{"$err": "err", "$retval": "result", "c.argPos": "argPos", "c.out": "out", "target@loop": "target", "#pad": "padlen", "#out": "outlen", "$loopsok": "loopsok"}[k]
			if suffix == "" {
				suffix = k
			}
			doc := fmt.Sprintf("control.go %s: %s when the function returns (Go int as Int, `/` truncating; opaque sub-expressions are parameters)", o.fn,
				map[string]string{"$err": "whether it has raised an error", "$retval": "the returned value", "c.argPos": "c.argPos", "c.out": "c.out", "#pad": "the length of the byte slice `pad`", "#out": "the length of the byte slice `out` (the printed argument)", "$loopsok": "whether the fuel of its translated loops sufficed"}[k]+
					map[bool]string{true: "", false: "the local `" + k + "`"}[suffix != k])
			defs = append(defs, fcDef{name: o.fn + "_" + suffix, doc: doc, v: v})
		}
	}
	fcEmitDefs(&b, defs)
	sort.Strings(missing)
	fmt.Fprintf(&b, "/-- functions / values the extractor could not translate (expected: none) -/\ndef untranslated : List String := [%s]\n\n", quoteAll(missing))
	b.WriteString("end SlipVerif.Gen.FormatCode\n")
	return b.String(), nil
}

// fcLiteral: an integer literal, a character literal, []byte{'c'} (its code) or math.MaxInt (-1)
func fcLiteral(e ast.Expr) (string, bool) {
	switch te := e.(type) {
	case *ast.BasicLit:
		switch te.Kind {
		case token.INT:
			return te.Value, true
		case token.CHAR:
			if s, err := strconv.Unquote(te.Value); err == nil && len(s) == 1 {
				return strconv.Itoa(int(s[0])), true
			}
		}
	case *ast.CompositeLit:
		if types.ExprString(te.Type) == "[]byte" && len(te.Elts) == 1 {
			return fcLiteral(te.Elts[0])
		}
	case *ast.SelectorExpr:
		if types.ExprString(te) == "math.MaxInt" {
			return "-1", true
		}
	case *ast.UnaryExpr:
		if te.Op == token.SUB {
			if v, ok := fcLiteral(te.X); ok {
				return "-" + v, true
			}
		}
	case *ast.Ident:
		if te.Name == "nil" {
			return "-2", true
		}
	}
	return "", false
}
