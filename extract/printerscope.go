package main

// Gen/PrinterScope.lean (property C03): facts about WHICH printer / WHICH base / WHICH length the code
// uses, taken from the repository's current sources with go/ast:
//
//   * printer.go: inside (*Printer).Append, createTree, appendTree and caseName every rendering call goes
//     through the receiver (p.Append, p.createTree, to.Readably(b, p), p.caseName) — the calls that leave
//     the scoped printer (x.Append(b) with one argument, ObjectString, the package-level Append / Write,
//     the global variable printer) are listed with the case they occur in;
//   * the receiver types that have a Readably(b, p) method (they are printed by the scoped printer);
//   * code.go: the base every strconv.ParseInt / (*big.Int).SetString uses in pushInteger (numbers behind
//     #b #o #x #NNr: r.base) and in resolveToken (plain tokens: r.rbase), helpers followed one call level
//     deep with their parameters replaced by the caller's arguments; the base set by the radix prefixes;
//     where scoped() takes intRx / ratioRx from;
//   * pkg/swank/wire.go: header width and format, what the header counts, the base it is parsed in, the
//     cap, io.ReadFull for header and payload, the printer WriteWireMessage uses.

import (
	"fmt"
	"go/ast"
	"go/parser"
	"go/token"
	"os"
	"path/filepath"
	"sort"
	"strconv"
	"strings"
)

func init() { generators["PrinterScope"] = genPrinterScope }

func psParse(fset *token.FileSet, path string) (*ast.File, error) {
	return parser.ParseFile(fset, path, nil, 0)
}

func psLeanStrList(l []string) string {
	q := make([]string, len(l))
	for i, s := range l {
		q[i] = strconv.Quote(s)
	}
	return "[" + strings.Join(q, ", ") + "]"
}

func psRecvName(fd *ast.FuncDecl) string {
	if fd.Recv != nil && len(fd.Recv.List) == 1 && len(fd.Recv.List[0].Names) == 1 {
		return fd.Recv.List[0].Names[0].Name
	}
	return ""
}

// psUsesIdent: the expression mentions the identifier (not as a selector's field name).
func psUsesIdent(e ast.Node, name string) bool {
	found := false
	ast.Inspect(e, func(n ast.Node) bool {
		switch t := n.(type) {
		case *ast.SelectorExpr:
			if psUsesIdent(t.X, name) {
				found = true
			}
			return false
		case *ast.Ident:
			if t.Name == name {
				found = true
			}
		}
		return !found
	})
	return found
}

// psRenderCalls walks the body of a Printer method and classifies every rendering call: scoped (through
// the receiver or with the receiver as printer argument) or global (leaves the scoped printer). where is
// the label of the innermost case clause.
func psRenderCalls(fd *ast.FuncDecl) (scoped int, global []string) {
	recv := psRecvName(fd)
	var walk func(n ast.Node, where string)
	walk = func(n ast.Node, where string) {
		if n == nil {
			return
		}
		switch t := n.(type) {
		case *ast.CaseClause:
			label := "default"
			if len(t.List) > 0 {
				parts := make([]string, len(t.List))
				for i, e := range t.List {
					parts[i] = exprStr(e)
				}
				label = strings.Join(parts, ",")
			}
			for _, e := range t.List {
				walk(e, where)
			}
			for _, s := range t.Body {
				walk(s, label)
			}
			return
		case *ast.CallExpr:
			switch fn := t.Fun.(type) {
			case *ast.SelectorExpr:
				name := fn.Sel.Name
				viaRecv := psUsesIdent(fn.X, recv)
				argRecv := false
				for _, a := range t.Args {
					if id, ok := a.(*ast.Ident); ok && id.Name == recv {
						argRecv = true
					}
				}
				switch name {
				case "Append", "Readably", "caseName", "createTree", "appendTree", "Write", "String":
					if id, ok := fn.X.(*ast.Ident); ok && (id.Name == "strconv" || id.Name == "strings" || id.Name == "bytes" || id.Name == "utf8") {
						break
					}
					if viaRecv || argRecv {
						scoped++
					} else {
						global = append(global, where+": "+exprStr(t))
					}
				}
			case *ast.Ident:
				switch fn.Name {
				case "ObjectString", "Append", "Write", "ObjectAppend":
					global = append(global, where+": "+exprStr(t))
				}
			}
		case *ast.Ident:
			if t.Name == "printer" {
				global = append(global, where+": printer")
			}
		}
		// generic descent
		ast.Inspect(n, func(c ast.Node) bool {
			if c == n || c == nil {
				return true
			}
			walk(c, where)
			return false
		})
	}
	walk(fd.Body, "top")
	return
}

// psBaseCode: 0 = r.base (the radix of the prefix), 1 = r.rbase (*read-base*), 2 = the literal 10, 3 = other
func psBaseCode(e ast.Expr, recv string) int {
	switch exprStr(e) {
	case recv + ".base":
		return 0
	case recv + ".rbase":
		return 1
	case "10":
		return 2
	}
	return 3
}

// psParseBases lists the base argument of every strconv.ParseInt / ParseUint / X.SetString call in the
// body, following calls to other methods of the same receiver one level deep (their parameters replaced
// by the caller's arguments).
func psParseBases(f *ast.File, fd *ast.FuncDecl, depth int, subst map[string]ast.Expr, recvType string) (codes []int, texts []string) {
	recv := psRecvName(fd)
	ast.Inspect(fd.Body, func(n ast.Node) bool {
		call, ok := n.(*ast.CallExpr)
		if !ok {
			return true
		}
		sel, ok := call.Fun.(*ast.SelectorExpr)
		if !ok {
			return true
		}
		var base ast.Expr
		switch {
		case exprStr(sel.X) == "strconv" && (sel.Sel.Name == "ParseInt" || sel.Sel.Name == "ParseUint") && len(call.Args) == 3:
			base = call.Args[1]
		case sel.Sel.Name == "SetString" && len(call.Args) == 2:
			base = call.Args[1]
		}
		if base != nil {
			if id, ok := base.(*ast.Ident); ok && subst != nil {
				if a, ok := subst[id.Name]; ok {
					base = a
				}
			}
			// a helper sees the caller's receiver under its own receiver name
			codes = append(codes, psBaseCode(base, recv))
			texts = append(texts, exprStr(base))
			return true
		}
		if id, ok := sel.X.(*ast.Ident); ok && id.Name == recv && depth > 0 {
			if h := pcFindFunc(f, recvType, sel.Sel.Name); h != nil && h != fd && sel.Sel.Name != "raise" {
				sub := map[string]ast.Expr{}
				i := 0
				for _, fl := range h.Type.Params.List {
					for _, nm := range fl.Names {
						if i < len(call.Args) {
							sub[nm.Name] = call.Args[i]
						}
						i++
					}
				}
				// arguments are written in terms of the caller's receiver name; the helper may use another
				hr := psRecvName(h)
				c2, t2 := psParseBases(f, h, depth-1, sub, recvType)
				for k := range c2 {
					if c2[k] == 3 && recv != hr {
						c2[k] = psBaseCodeText(t2[k], recv)
					}
				}
				codes = append(codes, c2...)
				texts = append(texts, t2...)
			}
		}
		return true
	})
	return
}

func psBaseCodeText(text, recv string) int {
	switch text {
	case recv + ".base":
		return 0
	case recv + ".rbase":
		return 1
	case "10":
		return 2
	}
	return 3
}

func psConstInt(f *ast.File, name string) (int, error) {
	v := findValue(f, name)
	if v == nil {
		return 0, fmt.Errorf("constant %s not found", name)
	}
	var eval func(e ast.Expr) (int, error)
	eval = func(e ast.Expr) (int, error) {
		switch t := e.(type) {
		case *ast.BasicLit:
			n, err := strconv.ParseInt(t.Value, 0, 64)
			return int(n), err
		case *ast.ParenExpr:
			return eval(t.X)
		case *ast.BinaryExpr:
			l, err := eval(t.X)
			if err != nil {
				return 0, err
			}
			r, err := eval(t.Y)
			if err != nil {
				return 0, err
			}
			switch t.Op {
			case token.MUL:
				return l * r, nil
			case token.ADD:
				return l + r, nil
			case token.SHL:
				return l << uint(r), nil
			}
		}
		return 0, fmt.Errorf("constant %s: expression %s not understood", name, exprStr(e))
	}
	return eval(v)
}

func genPrinterScope(repo string) (string, error) {
	fset := token.NewFileSet()
	pcFset = fset
	var b strings.Builder
	b.WriteString("/- GENERATED by extract/printerscope.go from printer.go, code.go, pkg/swank/wire.go and the Readably\n   methods of the repository — do not edit. -/\nnamespace SlipVerif.Gen.PrinterScope\n\n")

	// ---- printer.go
	pf, err := psParse(fset, filepath.Join(repo, "printer.go"))
	if err != nil {
		return "", err
	}
	for _, name := range []string{"Append", "createTree", "appendTree", "caseName"} {
		fd := pcFindFunc(pf, "*Printer", name)
		if fd == nil {
			return "", fmt.Errorf("printer.go: (*Printer).%s not found", name)
		}
		scoped, global := psRenderCalls(fd)
		lean := strings.ToLower(name[:1]) + name[1:]
		fmt.Fprintf(&b, "/-- printer.go `(*Printer).%s`: rendering calls that go through the receiver (the scoped printer) -/\ndef %sScoped : Nat := %d\n", name, lean, scoped)
		labels := make([]string, len(global))
		for i, g := range global {
			labels[i] = g[:strings.Index(g, ": ")]
		}
		fmt.Fprintf(&b, "/-- … and the cases in which a call leaves it (one-argument `x.Append(b)`, `ObjectString`, package-level `Append`, the global `printer`): %s -/\ndef %sGlobal : List String := %s\n\n",
			strings.ReplaceAll(strings.Join(global, "; "), "-/", "- /"), lean, psLeanStrList(labels))
	}

	// ---- types with a Readably(b []byte, p *Printer) method
	entries, err := os.ReadDir(repo)
	if err != nil {
		return "", err
	}
	var readble []string
	for _, e := range entries {
		n := e.Name()
		if e.IsDir() || !strings.HasSuffix(n, ".go") || strings.HasSuffix(n, "_test.go") {
			continue
		}
		f, err := psParse(fset, filepath.Join(repo, n))
		if err != nil {
			return "", err
		}
		for _, d := range f.Decls {
			fd, ok := d.(*ast.FuncDecl)
			if !ok || fd.Recv == nil || fd.Name.Name != "Readably" || len(fd.Recv.List) != 1 {
				continue
			}
			if fd.Type.Params == nil || fd.Type.Params.NumFields() != 2 {
				continue
			}
			last := fd.Type.Params.List[len(fd.Type.Params.List)-1]
			if exprStr(last.Type) != "*Printer" {
				continue
			}
			readble = append(readble, exprStr(fd.Recv.List[0].Type))
		}
	}
	sort.Strings(readble)
	fmt.Fprintf(&b, "/-- receiver types with a `Readably(b []byte, p *Printer) []byte` method: `Printer.Append` hands them the scoped printer -/\ndef readblyTypes : List String := %s\n\n", psLeanStrList(readble))

	// ---- code.go
	cf, err := psParse(fset, filepath.Join(repo, "code.go"))
	if err != nil {
		return "", err
	}
	for _, name := range []string{"pushInteger", "resolveToken"} {
		fd := pcFindFunc(cf, "*reader", name)
		if fd == nil {
			return "", fmt.Errorf("code.go: (*reader).%s not found", name)
		}
		codes, texts := psParseBases(cf, fd, 1, nil, "*reader")
		fmt.Fprintf(&b, "/-- code.go `%s`: the base of every strconv.ParseInt / SetString, helpers one level deep (0 = r.base, the radix of the prefix; 1 = r.rbase, *read-base*; 2 = literal 10; 3 = other): %s -/\ndef %sBases : List Nat := %s\n\n",
			name, strings.Join(texts, ", "), name, leanNatList(codes))
	}
	// the radix prefixes: r.base = … in read()
	rd := pcFindFunc(cf, "*reader", "read")
	if rd == nil {
		return "", fmt.Errorf("code.go: (*reader).read not found")
	}
	type ra struct {
		label string
		val   int
	}
	var assigns []ra
	ast.Inspect(rd.Body, func(n ast.Node) bool {
		cc, ok := n.(*ast.CaseClause)
		if !ok {
			return true
		}
		for _, st := range cc.Body {
			as, ok := st.(*ast.AssignStmt)
			if !ok || len(as.Lhs) != 1 || len(as.Rhs) != 1 || exprStr(as.Lhs[0]) != "r.base" {
				continue
			}
			label := "default"
			if len(cc.List) > 0 {
				label = exprStr(cc.List[0])
			}
			v := -1
			if n, ok := pcIntLit(as.Rhs[0]); ok {
				v = n
			} else if exprStr(as.Rhs[0]) == "r.sharpNum" {
				v = 0
			}
			assigns = append(assigns, ra{label, v})
		}
		return true
	})
	sort.Slice(assigns, func(i, j int) bool { return assigns[i].label < assigns[j].label })
	b.WriteString("/-- code.go `read`: `r.base = …` per case (0 = r.sharpNum, the number between # and r) -/\ndef radixAssign : List (String × Nat) :=\n  [")
	for i, a := range assigns {
		if i > 0 {
			b.WriteString(", ")
		}
		if a.val < 0 {
			return "", fmt.Errorf("code.go: read: r.base assigned something not understood in case %s", a.label)
		}
		fmt.Fprintf(&b, "(%q, %d)", a.label, a.val)
	}
	b.WriteString("]\n\n")
	// scoped(): the regexes follow *read-base*
	sc := pcFindFunc(cf, "*reader", "scoped")
	if sc == nil {
		return "", fmt.Errorf("code.go: (*reader).scoped not found")
	}
	consistent, inconsistent := 0, 0
	ast.Inspect(sc.Body, func(n ast.Node) bool {
		blk, ok := n.(*ast.BlockStmt)
		if !ok {
			return true
		}
		got := map[string]string{}
		for _, st := range blk.List {
			as, ok := st.(*ast.AssignStmt)
			if !ok || len(as.Lhs) != 1 || len(as.Rhs) != 1 {
				continue
			}
			rhs := as.Rhs[0]
			switch exprStr(as.Lhs[0]) {
			case "r.rbase":
				if call, ok := rhs.(*ast.CallExpr); ok && len(call.Args) == 1 && exprStr(call.Fun) == "int" {
					rhs = call.Args[0]
				}
				got["rbase"] = exprStr(rhs)
			case "r.intRx", "r.ratioRx":
				ix, ok := rhs.(*ast.IndexExpr)
				table := map[string]string{"r.intRx": "intRxs", "r.ratioRx": "ratioRxs"}[exprStr(as.Lhs[0])]
				if !ok || exprStr(ix.X) != table {
					got[exprStr(as.Lhs[0])] = "?" + exprStr(rhs)
				} else {
					got[exprStr(as.Lhs[0])] = exprStr(ix.Index)
				}
			}
		}
		if len(got) > 0 {
			if len(got) == 3 && got["rbase"] == got["r.intRx"] && got["rbase"] == got["r.ratioRx"] {
				consistent++
			} else {
				inconsistent++
			}
		}
		return true
	})
	fmt.Fprintf(&b, "/-- code.go `scoped`: blocks that set rbase, intRx = intRxs[·] and ratioRx = ratioRxs[·] together from the same value, and blocks that set only some of them or from different values -/\ndef readBaseBlocksConsistent : Nat := %d\ndef readBaseBlocksInconsistent : Nat := %d\n\n", consistent, inconsistent)

	// ---- pkg/swank/wire.go
	wf, err := psParse(fset, filepath.Join(repo, "pkg", "swank", "wire.go"))
	if err != nil {
		return "", err
	}
	hs, err := psConstInt(wf, "headerSize")
	if err != nil {
		return "", fmt.Errorf("wire.go: %v", err)
	}
	mx, err := psConstInt(wf, "maxMessageSize")
	if err != nil {
		return "", fmt.Errorf("wire.go: %v", err)
	}
	fmt.Fprintf(&b, "/-- wire.go constants -/\ndef wireHeaderSize : Nat := %d\ndef wireMaxMessage : Nat := %d\n\n", hs, mx)
	wr := pcFindFunc(wf, "", "WriteWireMessage")
	rdm := pcFindFunc(wf, "", "ReadWireMessage")
	if wr == nil || rdm == nil {
		return "", fmt.Errorf("wire.go: WriteWireMessage / ReadWireMessage not found")
	}
	// the variable that holds the printed text, the printer that printed it
	payloadVar, printerVar := "", ""
	format, counts := "", 3
	readablyTrue, copiesDefault := false, false
	var written []string
	ast.Inspect(wr.Body, func(n ast.Node) bool {
		switch t := n.(type) {
		case *ast.AssignStmt:
			if len(t.Lhs) == 1 && len(t.Rhs) == 1 {
				if call, ok := t.Rhs[0].(*ast.CallExpr); ok {
					if sel, ok := call.Fun.(*ast.SelectorExpr); ok && sel.Sel.Name == "Append" && len(call.Args) == 3 {
						payloadVar, printerVar = exprStr(t.Lhs[0]), exprStr(sel.X)
					}
					if sel, ok := call.Fun.(*ast.SelectorExpr); ok && exprStr(sel.X) == "fmt" && sel.Sel.Name == "Sprintf" && len(call.Args) == 2 {
						if s, err := stringConst(call.Args[0]); err == nil {
							format = s
						}
						switch a := exprStr(call.Args[1]); {
						case payloadVar != "" && a == "len("+payloadVar+")":
							counts = 0
						case strings.Contains(a, "RuneCount"):
							counts = 1
						default:
							counts = 2
						}
					}
				}
				if exprStr(t.Rhs[0]) == "*slip.DefaultPrinter()" {
					copiesDefault = true
				}
				if strings.HasSuffix(exprStr(t.Lhs[0]), ".Readably") && exprStr(t.Rhs[0]) == "true" {
					readablyTrue = true
				}
			}
		case *ast.CallExpr:
			if sel, ok := t.Fun.(*ast.SelectorExpr); ok && sel.Sel.Name == "Write" && len(t.Args) == 1 {
				written = append(written, exprStr(t.Args[0]))
			}
		}
		return true
	})
	if payloadVar == "" || format == "" {
		return "", fmt.Errorf("wire.go: WriteWireMessage: printed text / header format not found")
	}
	writesPayload := 0
	for _, w := range written {
		if w == payloadVar || w == "[]byte("+payloadVar+")" {
			writesPayload++
		}
	}
	bl := func(x bool) string {
		if x {
			return "true"
		}
		return "false"
	}
	fmt.Fprintf(&b, "/-- wire.go `WriteWireMessage`: the header format; what it counts (0 = len of the printed text in bytes, 1 = a rune count, 2 = other);\n    the printed text itself is what is written after the header; the printer is a copy of the default one (%s) with Readably set -/\n", printerVar)
	fmt.Fprintf(&b, "def wireFormat : String := %q\ndef wireHeaderCounts : Nat := %d\ndef wireWritesPrinted : Nat := %d\ndef wireCopiesDefault : Bool := %s\ndef wireReadably : Bool := %s\n\n",
		format, counts, writesPayload, bl(copiesDefault), bl(readablyTrue))
	// the reader
	parseBase, readFull, otherReads, capChecked, readsPayload := -1, 0, 0, false, false
	ast.Inspect(rdm.Body, func(n ast.Node) bool {
		switch t := n.(type) {
		case *ast.CallExpr:
			sel, ok := t.Fun.(*ast.SelectorExpr)
			if !ok {
				return true
			}
			switch {
			case exprStr(sel.X) == "strconv" && (sel.Sel.Name == "ParseUint" || sel.Sel.Name == "ParseInt") && len(t.Args) == 3:
				if n, ok := pcIntLit(t.Args[1]); ok {
					parseBase = n
				}
			case exprStr(sel.X) == "io" && sel.Sel.Name == "ReadFull":
				readFull++
			case sel.Sel.Name == "Read" && exprStr(sel.X) != "slip":
				otherReads++
			case exprStr(sel.X) == "slip" && sel.Sel.Name == "Read":
				readsPayload = true
			}
		case *ast.BinaryExpr:
			if t.Op == token.GTR && exprStr(t.Y) == "maxMessageSize" || t.Op == token.LSS && exprStr(t.X) == "maxMessageSize" {
				capChecked = true
			}
		}
		return true
	})
	fmt.Fprintf(&b, "/-- wire.go `ReadWireMessage`: base the header is parsed in, number of io.ReadFull calls (header, payload), other Read calls,\n    the cap is `length > maxMessageSize`, the payload goes to slip.Read -/\n")
	fmt.Fprintf(&b, "def wireParseBase : Nat := %d\ndef wireReadFull : Nat := %d\ndef wireOtherReads : Nat := %d\ndef wireCapChecked : Bool := %s\ndef wireReadsPayload : Bool := %s\n\n",
		max(parseBase, 0), readFull, otherReads, bl(capChecked), bl(readsPayload))
	b.WriteString("end SlipVerif.Gen.PrinterScope\n")
	return b.String(), nil
}
