package main

// NumImpl: a small translator from the pure machine-integer code of slip's numeric operators to
// Lean definitions (C05). It understands straight-line int64 / uint64 code: `:=`/`=`/op-assign,
// `if`/`else`, expression `switch`, `break`, `return`, counted `for` loops and `for cond` loops,
// int64 arithmetic, shifts and comparisons, uint64 bit operations, conversions between the two,
// calls between the translated functions and the value-level meaning of a handful of math/big
// constructors (`big.NewInt`, `new(big.Int).Add/Sub/Mul/Neg/Lsh/Exp/Sqrt`, `(*slip.Bignum)(…)`,
// `canonicalInteger`). Anything else is an error: the generator then fails (EXTRACT-FAILED) and the
// check reports the tie of C05 as broken instead of silently mistranslating.
//
// Semantics of the output: every int64 operation is emitted as the wrapping primitive of
// SlipVerif.Num.Impl (`addFix`, `subFix`, `mulFix`, `negFix`, `quoFix`, `remFix`, `shlFix`,
// `shrFix`), i.e. Go's two's-complement int64 semantics are explicit and nothing is assumed about
// the absence of overflow; `Theorems/GenC05.lean` proves that the translated code computes the exact
// results on the operands that reach it.
//
// Control flow is translated in continuation style: the statements after an `if`/`switch` are
// duplicated into every branch, so every definition is a decision tree of `let`s whose leaves are
// the returned tuples (no mutable state, no join points).

import (
	"fmt"
	"go/ast"
	"go/constant"
	"go/parser"
	"go/token"
	"path/filepath"
	"sort"
	"strings"
)

type nty int

const (
	tI nty = iota // int64 / int / slip.Fixnum  (Lean Int, wrapping operations)
	tU            // uint64 / uint              (Lean Int in [0, 2^64))
	tB            // bool
	tZ            // *big.Int by value          (Lean Int, exact)
	tR            // slip.Object holding an exact integer result (Lean Rep)
	tO            // slip.Object not yet assigned
	tQ            // an exact real value: *big.Rat by value, or a real operand of a comparison (Lean Rat)
)

func (t nty) String() string {
	return [...]string{"int64", "uint64", "bool", "big.Int", "object", "unassigned", "exact real"}[t]
}

// leanType is the Lean type a Go value of the kind is translated to.
func (t nty) leanType() string {
	switch t {
	case tB:
		return "Bool"
	case tR:
		return "Rep"
	case tQ:
		return "Rat"
	}
	return "Int"
}

type nenv map[string]nty

func (e nenv) with(name string, t nty) nenv {
	c := make(nenv, len(e)+1)
	for k, v := range e {
		c[k] = v
	}
	c[name] = t
	return c
}

type nkont func(e nenv, d int) (string, error)

// ntarget describes one piece of Go code to translate.
type ntarget struct {
	lean    string // name of the Lean definition
	file    string // repository relative file
	fn      string // function name (methods: "Type.Method")
	locate  string // "func" | "case" (the `case slip.Fixnum:` clause of the first type switch that has one) | "fixfix" (body of the nested `if x.(slip.Fixnum) { if y.(slip.Fixnum) {` )
	params  []nparam
	pre     []string // initial lets "name:type:lean expression"
	outs    []nparam // variables returned by a naked return / by falling off the end
	ret     nty      // type of a single returned value (tR: fixnum results are wrapped in .fix)
	retLean string   // Lean result type
	panics  string   // Lean expression for "a condition is raised" ("" = calls of *Panic functions are not understood)
	some    bool     // wrap returned values in `some (…)` (used together with panics = "none")
	doc     string
	fuel    string // Lean expression for the fuel of a `for cond` loop (an extra parameter when "fuel")
	nilLean string // Lean expression for `return nil` ("" = nil is the boolean false)
	fall    string // Lean expression for falling off the end of the located statements ("" = the named results / outs)
	goTypes []string            // normcell: the Go types of the two operands ("Fixnum", "*Bignum", "*Ratio")
	opaque  string              // Lean expression for an if-branch that is not understood ("" = an error)
	oracles map[string][]nparam // calls with two results whose values are parameters of the definition: "callee(arg)" -> (value, ok)
}

type nparam struct {
	goName string
	lean   string
	ty     nty
}

type ntr struct {
	fset   *token.FileSet
	tgt    *ntarget
	known  map[string]*ntarget // translated functions callable from others, by Go name
	named  []nparam            // named results of the enclosing function
	aux    []string            // auxiliary definitions (loops), emitted before the main one
	nloops int
	nst    int
	loops  map[string]string
	size   int
}

func (t *ntr) errf(n ast.Node, format string, a ...any) error {
	pos := t.fset.Position(n.Pos())
	return fmt.Errorf("%s:%d: %s", filepath.Base(pos.Filename), pos.Line, fmt.Sprintf(format, a...))
}

func selName(x ast.Expr) string {
	switch tx := x.(type) {
	case *ast.Ident:
		return tx.Name
	case *ast.SelectorExpr:
		return selName(tx.X) + "." + tx.Sel.Name
	case *ast.StarExpr:
		return "*" + selName(tx.X)
	case *ast.ParenExpr:
		return selName(tx.X)
	}
	return ""
}

func intLit(x ast.Expr) (string, bool) {
	switch tx := x.(type) {
	case *ast.BasicLit:
		if tx.Kind == token.INT {
			v := constant.MakeFromLiteral(tx.Value, token.INT, 0)
			return v.ExactString(), true
		}
	case *ast.ParenExpr:
		return intLit(tx.X)
	case *ast.UnaryExpr:
		if tx.Op == token.SUB {
			if s, ok := intLit(tx.X); ok {
				return "(-" + s + ")", true
			}
		}
	case *ast.SelectorExpr:
		switch selName(tx) {
		case "math.MinInt64":
			return "(-9223372036854775808)", true
		case "math.MaxInt64":
			return "9223372036854775807", true
		}
	case *ast.CallExpr:
		// slip.Fixnum(1), int64(2), uint64(1)
		if len(tx.Args) == 1 {
			switch selName(tx.Fun) {
			case "slip.Fixnum", "int64", "int", "uint", "uint64":
				return intLit(tx.Args[0])
			}
		}
	}
	return "", false
}

// expr translates an expression; want is the type an untyped constant should take.
func (t *ntr) expr(x ast.Expr, e nenv, want nty) (string, nty, error) {
	t.size++
	if s, ok := intLit(x); ok {
		if want == tB || want == tR || want == tO {
			want = tI
		}
		return s, want, nil
	}
	switch tx := x.(type) {
	case *ast.ParenExpr:
		return t.expr(tx.X, e, want)
	case *ast.Ident:
		switch tx.Name {
		case "true", "false":
			return tx.Name, tB, nil
		case "nil":
			return "false", tB, nil
		}
		ty, ok := e[tx.Name]
		if !ok {
			return "", 0, t.errf(x, "unknown variable %s", tx.Name)
		}
		if ty == tO {
			return "", 0, t.errf(x, "variable %s is read before it is assigned", tx.Name)
		}
		return nIdent(tx.Name), ty, nil
	case *ast.SelectorExpr:
		if selName(tx) == "slip.True" {
			return "true", tB, nil
		}
		return "", 0, t.errf(x, "selector %s is not understood", selName(tx))
	case *ast.TypeAssertExpr:
		if selName(tx.Type) != "slip.Fixnum" {
			return "", 0, t.errf(x, "type assertion to %s is not understood", selName(tx.Type))
		}
		s, ty, err := t.expr(tx.X, e, tI)
		if err != nil {
			return "", 0, err
		}
		if ty != tI {
			return "", 0, t.errf(x, "assertion .(slip.Fixnum) on a value of kind %v", ty)
		}
		return s, tI, nil
	case *ast.UnaryExpr:
		switch tx.Op {
		case token.AND: // &bi : a big.Int variable by value
			return t.expr(tx.X, e, want)
		case token.SUB:
			s, ty, err := t.expr(tx.X, e, want)
			if err != nil {
				return "", 0, err
			}
			if ty != tI {
				return "", 0, t.errf(x, "unary minus on %v", ty)
			}
			return "(negFix " + s + ")", tI, nil
		case token.NOT:
			s, ty, err := t.expr(tx.X, e, tB)
			if err != nil {
				return "", 0, err
			}
			if ty != tB {
				return "", 0, t.errf(x, "! on %v", ty)
			}
			return "(!" + s + ")", tB, nil
		case token.XOR:
			s, ty, err := t.expr(tx.X, e, want)
			if err != nil {
				return "", 0, err
			}
			if ty != tU {
				return "", 0, t.errf(x, "^ on %v (only uint64 is understood)", ty)
			}
			return "(notU " + s + ")", tU, nil
		}
		return "", 0, t.errf(x, "unary operator %s is not understood", tx.Op)
	case *ast.BinaryExpr:
		return t.binary(tx, e, want)
	case *ast.CallExpr:
		return t.call(tx, e, want)
	}
	return "", 0, t.errf(x, "expression %T is not understood", x)
}

func nIdent(s string) string {
	switch s {
	case "max", "min", "end", "at", "from", "to", "fun", "do", "then", "else", "if", "let", "have", "show", "in", "open", "def":
		return s + "_"
	}
	return s
}

func (t *ntr) binary(x *ast.BinaryExpr, e nenv, want nty) (string, nty, error) {
	switch x.Op {
	case token.LAND, token.LOR:
		a, ta, err := t.expr(x.X, e, tB)
		if err != nil {
			return "", 0, err
		}
		b, tb, err := t.expr(x.Y, e, tB)
		if err != nil {
			return "", 0, err
		}
		if ta != tB || tb != tB {
			return "", 0, t.errf(x, "%s on %v, %v", x.Op, ta, tb)
		}
		op := "&&"
		if x.Op == token.LOR {
			op = "||"
		}
		return "(" + a + " " + op + " " + b + ")", tB, nil
	}
	// operands: an untyped constant takes the type of the other side
	var a, b string
	var ta, tb nty
	var err error
	_, litA := intLit(x.X)
	hint := want
	switch x.Op {
	case token.EQL, token.NEQ, token.LSS, token.LEQ, token.GTR, token.GEQ:
		hint = tI
	}
	if litA {
		if b, tb, err = t.expr(x.Y, e, hint); err != nil {
			return "", 0, err
		}
		if a, ta, err = t.expr(x.X, e, tb); err != nil {
			return "", 0, err
		}
	} else {
		if a, ta, err = t.expr(x.X, e, hint); err != nil {
			return "", 0, err
		}
		h2 := ta
		if x.Op == token.SHL || x.Op == token.SHR {
			h2 = tU
		}
		if b, tb, err = t.expr(x.Y, e, h2); err != nil {
			return "", 0, err
		}
	}
	switch x.Op {
	case token.SHL, token.SHR:
		if tb != tU && tb != tI {
			return "", 0, t.errf(x, "shift count of kind %v", tb)
		}
		fn := map[[2]any]string{{token.SHL, tI}: "shlFix", {token.SHR, tI}: "shrFix", {token.SHL, tU}: "shlU", {token.SHR, tU}: "shrU"}[[2]any{x.Op, ta}]
		if fn == "" {
			return "", 0, t.errf(x, "shift of %v", ta)
		}
		return "(" + fn + " " + a + " " + b + ")", ta, nil
	}
	if ta != tb {
		return "", 0, t.errf(x, "operands of %s have kinds %v and %v", x.Op, ta, tb)
	}
	switch x.Op {
	case token.EQL, token.NEQ:
		op := "=="
		if x.Op == token.NEQ {
			op = "!="
		}
		if ta == tB || ta == tI || ta == tU || ta == tZ || ta == tQ {
			return "(" + a + " " + op + " " + b + ")", tB, nil
		}
	case token.LSS, token.LEQ, token.GTR, token.GEQ:
		if ta == tI || ta == tU || ta == tZ {
			op := map[token.Token]string{token.LSS: "<", token.LEQ: "≤", token.GTR: ">", token.GEQ: "≥"}[x.Op]
			return "(decide (" + a + " " + op + " " + b + "))", tB, nil
		}
	case token.ADD, token.SUB, token.MUL, token.QUO, token.REM:
		if ta == tI {
			fn := map[token.Token]string{token.ADD: "addFix", token.SUB: "subFix", token.MUL: "mulFix", token.QUO: "quoFix", token.REM: "remFix"}[x.Op]
			return "(" + fn + " " + a + " " + b + ")", tI, nil
		}
	case token.AND, token.OR, token.XOR:
		if ta == tU {
			fn := map[token.Token]string{token.AND: "andU", token.OR: "orU", token.XOR: "xorU"}[x.Op]
			return "(" + fn + " " + a + " " + b + ")", tU, nil
		}
	}
	return "", 0, t.errf(x, "operator %s on %v is not understood", x.Op, ta)
}

// bigRecv recognises `new(big.Int)` (a fresh value) or a big.Int variable as the receiver of a
// math/big method; the value of the call does not depend on the receiver's old value.
func (t *ntr) bigRecv(x ast.Expr, e nenv) bool {
	switch tx := x.(type) {
	case *ast.CallExpr:
		if id, ok := tx.Fun.(*ast.Ident); ok && id.Name == "new" && len(tx.Args) == 1 && selName(tx.Args[0]) == "big.Int" {
			return true
		}
	case *ast.Ident:
		return e[tx.Name] == tZ
	case *ast.UnaryExpr:
		if tx.Op == token.AND {
			return t.bigRecv(tx.X, e)
		}
	case *ast.ParenExpr:
		return t.bigRecv(tx.X, e)
	}
	return false
}

func (t *ntr) call(x *ast.CallExpr, e nenv, want nty) (string, nty, error) {
	fn := selName(x.Fun)
	arg := func(i int, w nty) (string, nty, error) { return t.expr(x.Args[i], e, w) }
	switch fn {
	case "slip.Fixnum", "Fixnum", "int64", "int":
		if len(x.Args) != 1 {
			break
		}
		s, ty, err := arg(0, tI)
		if err != nil {
			return "", 0, err
		}
		switch ty {
		case tI:
			return s, tI, nil
		case tU:
			return "(ofU64 " + s + ")", tI, nil
		}
		return "", 0, t.errf(x, "conversion %s of %v", fn, ty)
	case "uint", "uint64":
		if len(x.Args) != 1 {
			break
		}
		s, ty, err := arg(0, tI)
		if err != nil {
			return "", 0, err
		}
		switch ty {
		case tU:
			return s, tU, nil
		case tI:
			return "(toU64 " + s + ")", tU, nil
		}
		return "", 0, t.errf(x, "conversion %s of %v", fn, ty)
	case "big.NewInt":
		s, ty, err := arg(0, tI)
		if err != nil {
			return "", 0, err
		}
		if ty != tI {
			return "", 0, t.errf(x, "big.NewInt of %v", ty)
		}
		return s, tZ, nil
	case "big.NewRat":
		if len(x.Args) == 2 {
			a, ty, err := arg(0, tI)
			if err != nil {
				return "", 0, err
			}
			d, isLit := intLit(x.Args[1])
			if ty != tI || !isLit {
				return "", 0, t.errf(x, "big.NewRat of %v and a denominator that is not a literal", ty)
			}
			if d == "1" {
				return "((" + a + " : Int) : Rat)", tQ, nil
			}
			return "(((" + a + " : Int) : Rat) / ((" + d + " : Int) : Rat))", tQ, nil
		}
	case "*slip.Ratio", "*Ratio":
		s, ty, err := arg(0, tQ)
		if err != nil {
			return "", 0, err
		}
		if ty != tQ {
			return "", 0, t.errf(x, "(*Ratio) of %v", ty)
		}
		return "(Rep.ratio " + s + ")", tR, nil
	case "*Bignum":
		s, ty, err := arg(0, tZ)
		if err != nil {
			return "", 0, err
		}
		if ty != tZ {
			return "", 0, t.errf(x, "(*Bignum) of %v", ty)
		}
		return "(Rep.big " + s + ")", tR, nil
	case "*slip.Bignum":
		s, ty, err := arg(0, tZ)
		if err != nil {
			return "", 0, err
		}
		if ty != tZ {
			return "", 0, t.errf(x, "(*slip.Bignum) of %v", ty)
		}
		return "(Rep.big " + s + ")", tR, nil
	case "*big.Int":
		s, ty, err := arg(0, tZ)
		if err != nil {
			return "", 0, err
		}
		if ty != tZ {
			return "", 0, t.errf(x, "(*big.Int) of %v", ty)
		}
		return s, tZ, nil
	case "canonicalInteger":
		s, ty, err := arg(0, tZ)
		if err != nil {
			return "", 0, err
		}
		if ty != tZ {
			return "", 0, t.errf(x, "canonicalInteger of %v", ty)
		}
		return "(canonInt " + s + ")", tR, nil
	case "canonicalNumber":
		s, ty, err := arg(0, tI)
		if err != nil {
			return "", 0, err
		}
		switch ty {
		case tI: // canonicalNumber leaves a fixnum as it is
			return s, tI, nil
		case tR:
			return "(canonNumber " + s + ")", tR, nil
		}
		return "", 0, t.errf(x, "canonicalNumber of %v", ty)
	}
	if k, ok := t.known[fn]; ok {
		if len(x.Args) != len(k.params) {
			return "", 0, t.errf(x, "call of %s with %d arguments", fn, len(x.Args))
		}
		parts := []string{k.lean}
		if k.fuel == "fuel" {
			parts = append(parts, "fuel")
		}
		for i, p := range k.params {
			s, ty, err := arg(i, p.ty)
			if err != nil {
				return "", 0, err
			}
			if ty != p.ty {
				return "", 0, t.errf(x, "argument %d of %s has kind %v", i, fn, ty)
			}
			parts = append(parts, s)
		}
		return "(" + strings.Join(parts, " ") + ")", k.ret, nil
	}
	// big.Rat.Cmp on exact values
	if se, ok := x.Fun.(*ast.SelectorExpr); ok && se.Sel.Name == "Cmp" && len(x.Args) == 1 {
		if id, isId := se.X.(*ast.Ident); isId && e[id.Name] == tQ {
			b, tb, err := arg(0, tQ)
			if err != nil {
				return "", 0, err
			}
			if tb != tQ {
				return "", 0, t.errf(x, "Cmp with a value of kind %v", tb)
			}
			return "(cmpRat " + nIdent(id.Name) + " " + b + ")", tI, nil
		}
	}
	// math/big methods by value
	if se, ok := x.Fun.(*ast.SelectorExpr); ok {
		m := se.Sel.Name
		if t.bigRecv(se.X, e) {
			z := func(i int) (string, error) {
				s, ty, err := arg(i, tZ)
				if err == nil && ty != tZ {
					err = t.errf(x, "argument %d of big.Int.%s has kind %v", i, m, ty)
				}
				return s, err
			}
			bin := map[string]string{"Add": "+", "Sub": "-", "Mul": "*"}
			switch {
			case bin[m] != "" && len(x.Args) == 2:
				a, err := z(0)
				if err != nil {
					return "", 0, err
				}
				b, err := z(1)
				if err != nil {
					return "", 0, err
				}
				return "(" + a + " " + bin[m] + " " + b + ")", tZ, nil
			case m == "Neg" && len(x.Args) == 1:
				a, err := z(0)
				if err != nil {
					return "", 0, err
				}
				return "(-" + a + ")", tZ, nil
			case m == "Abs" && len(x.Args) == 1:
				a, err := z(0)
				if err != nil {
					return "", 0, err
				}
				return "(Int.natAbs " + a + " : Int)", tZ, nil
			case m == "Sqrt" && len(x.Args) == 1:
				a, err := z(0)
				if err != nil {
					return "", 0, err
				}
				return "(Nat.sqrt (Int.toNat " + a + ") : Int)", tZ, nil
			case m == "Lsh" && len(x.Args) == 2:
				a, err := z(0)
				if err != nil {
					return "", 0, err
				}
				k, ty, err := arg(1, tU)
				if err != nil {
					return "", 0, err
				}
				if ty != tU {
					return "", 0, t.errf(x, "Lsh by %v", ty)
				}
				return "(" + a + " * 2 ^ (Int.toNat " + k + "))", tZ, nil
			case m == "Rsh" && len(x.Args) == 2:
				a, err := z(0)
				if err != nil {
					return "", 0, err
				}
				k, ty, err := arg(1, tU)
				if err != nil {
					return "", 0, err
				}
				if ty != tU {
					return "", 0, t.errf(x, "Rsh by %v", ty)
				}
				return "(" + a + " >>> (Int.toNat " + k + "))", tZ, nil
			case m == "Exp" && len(x.Args) == 3 && selName(x.Args[2]) == "nil":
				a, err := z(0)
				if err != nil {
					return "", 0, err
				}
				b, err := z(1)
				if err != nil {
					return "", 0, err
				}
				return "(" + a + " ^ (Int.toNat " + b + "))", tZ, nil
			case m == "Int64" && len(x.Args) == 0:
				s, _, err := t.expr(se.X, e, tZ)
				if err != nil {
					return "", 0, err
				}
				return "(wrap64 " + s + ")", tI, nil
			}
		}
		if m == "IsInt64" && len(x.Args) == 0 {
			s, ty, err := t.expr(se.X, e, tZ)
			if err != nil {
				return "", 0, err
			}
			if ty == tZ {
				return "(isFix " + s + ")", tB, nil
			}
		}
		// value.Int64() on a big expression
		if m == "Int64" && len(x.Args) == 0 {
			s, ty, err := t.expr(se.X, e, tZ)
			if err != nil {
				return "", 0, err
			}
			if ty == tZ {
				return "(wrap64 " + s + ")", tI, nil
			}
		}
	}
	return "", 0, t.errf(x, "call of %s is not understood", fn)
}

func isPanicCall(x ast.Expr) bool {
	c, ok := x.(*ast.CallExpr)
	if !ok {
		return false
	}
	n := selName(c.Fun)
	return strings.HasPrefix(n, "slip.") && strings.HasSuffix(n, "Panic")
}

func (t *ntr) coerce(s string, ty, to nty, n ast.Node) (string, error) {
	if ty == to {
		return s, nil
	}
	if ty == tI && to == tR {
		return "(Rep.fix " + s + ")", nil
	}
	if ty == tZ && to == tR {
		return "(Rep.big " + s + ")", nil
	}
	if ty == tQ && to == tR {
		return "(Rep.ratio " + s + ")", nil
	}
	return "", t.errf(n, "a value of kind %v where %v is returned", ty, to)
}

func (t *ntr) outsExpr(e nenv, n ast.Node) (string, error) {
	outs := t.tgt.outs
	if len(outs) == 0 {
		outs = t.named
	}
	if len(outs) == 0 {
		return "", t.errf(n, "the code falls off its end and the target names no results")
	}
	var parts []string
	for _, o := range outs {
		ty, ok := e[o.goName]
		if !ok || ty == tO {
			return "", t.errf(n, "result %s is not assigned on this path", o.goName)
		}
		s, err := t.coerce(nIdent(o.goName), ty, o.ty, n)
		if err != nil {
			return "", err
		}
		parts = append(parts, s)
	}
	return t.wrapSome(tuple(parts)), nil
}

func tuple(parts []string) string {
	if len(parts) == 1 {
		return parts[0]
	}
	return "(" + strings.Join(parts, ", ") + ")"
}

func (t *ntr) wrapSome(s string) string {
	if t.tgt.some {
		return "(some " + s + ")"
	}
	return s
}

func (t *ntr) retStmt(r *ast.ReturnStmt, e nenv) (string, error) {
	if len(r.Results) == 0 {
		return t.outsExpr(e, r)
	}
	if len(r.Results) != 1 {
		return "", t.errf(r, "return of %d values", len(r.Results))
	}
	// slip.Values{a, b}
	if cl, ok := r.Results[0].(*ast.CompositeLit); ok && selName(cl.Type) == "slip.Values" {
		var parts []string
		for i, el := range cl.Elts {
			s, ty, err := t.expr(el, e, tI)
			if err != nil {
				return "", err
			}
			to := t.tgt.ret
			if i < len(t.tgt.outs) {
				to = t.tgt.outs[i].ty
			}
			if s, err = t.coerce(s, ty, to, el); err != nil {
				return "", err
			}
			parts = append(parts, s)
		}
		return t.wrapSome(tuple(parts)), nil
	}
	if t.tgt.nilLean != "" && selName(r.Results[0]) == "nil" {
		return t.tgt.nilLean, nil
	}
	s, ty, err := t.expr(r.Results[0], e, t.tgt.ret)
	if err != nil {
		return "", err
	}
	if s, err = t.coerce(s, ty, t.tgt.ret, r); err != nil {
		return "", err
	}
	return t.wrapSome(s), nil
}

func ind(n int) string { return strings.Repeat("  ", n) }

// assigned collects the variables assigned anywhere in the statements (loop state).
func assigned(list []ast.Stmt) []string {
	seen := map[string]bool{}
	var out []string
	add := func(x ast.Expr) {
		if id, ok := x.(*ast.Ident); ok && id.Name != "_" && !seen[id.Name] {
			seen[id.Name] = true
			out = append(out, id.Name)
		}
	}
	for _, s := range list {
		ast.Inspect(s, func(n ast.Node) bool {
			switch tn := n.(type) {
			case *ast.AssignStmt:
				if tn.Tok != token.DEFINE {
					for _, l := range tn.Lhs {
						add(l)
					}
				}
			case *ast.IncDecStmt:
				add(tn.X)
			}
			return true
		})
	}
	sort.Strings(out)
	return out
}

func (t *ntr) stmts(list []ast.Stmt, e nenv, brk, k nkont, d int) (string, error) {
	if t.size > 20000 {
		return "", fmt.Errorf("%s: translation too large", t.tgt.lean)
	}
	if len(list) == 0 {
		return k(e, d)
	}
	s, rest := list[0], list[1:]
	next := func(e2 nenv, d2 int) (string, error) { return t.stmts(rest, e2, brk, k, d2) }
	let := func(name, val string, ty nty) (string, error) {
		r, err := next(e.with(name, ty), d)
		if err != nil {
			return "", err
		}
		return ind(d) + "let " + nIdent(name) + " := " + val + ";\n" + r, nil
	}
	switch ts := s.(type) {
	case *ast.EmptyStmt:
		return next(e, d)
	case *ast.DeclStmt:
		gd, ok := ts.Decl.(*ast.GenDecl)
		if !ok || gd.Tok != token.VAR {
			return "", t.errf(s, "declaration is not understood")
		}
		e2 := e
		out := ""
		for _, sp := range gd.Specs {
			vs := sp.(*ast.ValueSpec)
			for i, nm := range vs.Names {
				tyName := selName(vs.Type)
				var ty nty
				switch tyName {
				case "big.Int":
					ty = tZ
				case "int", "int64", "slip.Fixnum":
					ty = tI
				case "uint", "uint64":
					ty = tU
				case "bool":
					ty = tB
				default:
					return "", t.errf(s, "variable of type %s is not understood", tyName)
				}
				val := "0"
				if ty == tB {
					val = "false"
				}
				if i < len(vs.Values) {
					v, vty, err := t.expr(vs.Values[i], e2, ty)
					if err != nil {
						return "", err
					}
					if vty != ty {
						return "", t.errf(s, "initial value of kind %v for %s", vty, tyName)
					}
					val = v
				}
				out += ind(d) + "let " + nIdent(nm.Name) + " := " + val + ";\n"
				e2 = e2.with(nm.Name, ty)
			}
		}
		r, err := t.stmts(rest, e2, brk, k, d)
		if err != nil {
			return "", err
		}
		return out + r, nil
	case *ast.AssignStmt:
		if len(ts.Lhs) == 1 && len(ts.Rhs) == 1 {
			name := selName(ts.Lhs[0])
			if name == "" {
				return "", t.errf(s, "assignment target is not understood")
			}
			switch ts.Tok {
			case token.ASSIGN, token.DEFINE:
				want := tI
				if cur, ok := e[name]; ok && cur != tO {
					want = cur
				}
				v, ty, err := t.expr(ts.Rhs[0], e, want)
				if err != nil {
					return "", err
				}
				if name == "_" {
					return next(e, d)
				}
				return let(name, v, ty)
			default:
				op := map[token.Token]token.Token{token.ADD_ASSIGN: token.ADD, token.SUB_ASSIGN: token.SUB, token.MUL_ASSIGN: token.MUL,
					token.QUO_ASSIGN: token.QUO, token.REM_ASSIGN: token.REM, token.AND_ASSIGN: token.AND, token.OR_ASSIGN: token.OR,
					token.XOR_ASSIGN: token.XOR, token.SHL_ASSIGN: token.SHL, token.SHR_ASSIGN: token.SHR}[ts.Tok]
				if op == token.ILLEGAL {
					return "", t.errf(s, "assignment %s is not understood", ts.Tok)
				}
				v, ty, err := t.binary(&ast.BinaryExpr{X: ts.Lhs[0], Op: op, Y: ts.Rhs[0], OpPos: ts.TokPos}, e, e[name])
				if err != nil {
					return "", err
				}
				return let(name, v, ty)
			}
		}
		if len(ts.Lhs) == 2 && len(ts.Rhs) == 1 {
			// value, ok := oracle(arg): both results are parameters of the definition
			if c, isCall := ts.Rhs[0].(*ast.CallExpr); isCall && len(c.Args) == 1 {
				if o, found := t.tgt.oracles[selName(c.Fun)+"("+selName(c.Args[0])+")"]; found {
					out := ""
					e2 := e
					for i, l := range ts.Lhs {
						out += fmt.Sprintf("%slet %s := %s;\n", ind(d), nIdent(selName(l)), o[i].lean)
						e2 = e2.with(selName(l), o[i].ty)
					}
					r, err := t.stmts(rest, e2, brk, k, d)
					if err != nil {
						return "", err
					}
					return out + r, nil
				}
			}
		}
		if len(ts.Lhs) == len(ts.Rhs) && (ts.Tok == token.ASSIGN || ts.Tok == token.DEFINE) {
			// parallel assignment through temporaries
			out := ""
			e2 := e
			tys := make([]nty, len(ts.Lhs))
			for i := range ts.Rhs {
				v, ty, err := t.expr(ts.Rhs[i], e, tI)
				if err != nil {
					return "", err
				}
				tys[i] = ty
				out += fmt.Sprintf("%slet t_%d := %s;\n", ind(d), i, v)
			}
			for i, l := range ts.Lhs {
				name := selName(l)
				if name == "_" {
					continue
				}
				out += fmt.Sprintf("%slet %s := t_%d;\n", ind(d), nIdent(name), i)
				e2 = e2.with(name, tys[i])
			}
			r, err := t.stmts(rest, e2, brk, k, d)
			if err != nil {
				return "", err
			}
			return out + r, nil
		}
		return "", t.errf(s, "assignment shape is not understood")
	case *ast.IncDecStmt:
		name := selName(ts.X)
		ty := e[name]
		fn := map[[2]any]string{{token.INC, tI}: "addFix", {token.DEC, tI}: "subFix"}[[2]any{ts.Tok, ty}]
		if fn == "" {
			return "", t.errf(s, "%s on %v", ts.Tok, ty)
		}
		return let(name, "("+fn+" "+nIdent(name)+" 1)", ty)
	case *ast.ExprStmt:
		if isPanicCall(ts.X) {
			if t.tgt.panics == "" {
				return "", t.errf(s, "a condition is raised here and the target does not say what that means")
			}
			return ind(d) + t.tgt.panics + "\n", nil
		}
		return "", t.errf(s, "expression statement is not understood")
	case *ast.ReturnStmt:
		r, err := t.retStmt(ts, e)
		if err != nil {
			return "", err
		}
		return ind(d) + r + "\n", nil
	case *ast.BranchStmt:
		if ts.Tok == token.BREAK && ts.Label == nil {
			if brk == nil {
				return "", t.errf(s, "break outside of a switch or loop")
			}
			return brk(e, d)
		}
		return "", t.errf(s, "%s is not understood", ts.Tok)
	case *ast.BlockStmt:
		return t.stmts(append(append([]ast.Stmt{}, ts.List...), rest...), e, brk, k, d)
	case *ast.IfStmt:
		if ts.Init != nil {
			return t.stmts(append([]ast.Stmt{ts.Init, &ast.IfStmt{If: ts.If, Cond: ts.Cond, Body: ts.Body, Else: ts.Else}}, rest...), e, brk, k, d)
		}
		c, ty, err := t.expr(ts.Cond, e, tB)
		if err != nil {
			return "", err
		}
		if ty != tB {
			return "", t.errf(s, "condition of kind %v", ty)
		}
		next1 := next
		th, err := t.stmts(ts.Body.List, e, brk, next1, d+1)
		if err != nil {
			if t.tgt.opaque == "" {
				return "", err
			}
			th = ind(d+1) + t.tgt.opaque + "\n"
		}
		var el string
		switch te := ts.Else.(type) {
		case nil:
			el, err = next1(e, d+1)
		case *ast.BlockStmt:
			el, err = t.stmts(te.List, e, brk, next1, d+1)
		case *ast.IfStmt:
			el, err = t.stmts([]ast.Stmt{te}, e, brk, next1, d+1)
		}
		if err != nil {
			if t.tgt.opaque == "" {
				return "", err
			}
			el = ind(d+1) + t.tgt.opaque + "\n"
		}
		return ind(d) + "if " + c + " then (\n" + th + ind(d) + ") else (\n" + el + ind(d) + ")\n", nil
	case *ast.SwitchStmt:
		if ts.Init != nil || ts.Tag != nil {
			return "", t.errf(s, "switch with a tag or an init statement is not understood")
		}
		var clauses []*ast.CaseClause
		var def *ast.CaseClause
		for _, c := range ts.Body.List {
			cc := c.(*ast.CaseClause)
			if cc.List == nil {
				def = cc
			} else {
				clauses = append(clauses, cc)
			}
		}
		var build func(i int, d int) (string, error)
		build = func(i int, d int) (string, error) {
			after := next
			if i == len(clauses) {
				if def == nil {
					return t.stmts(rest, e, brk, k, d)
				}
				return t.stmts(def.Body, e, next, next, d)
			}
			cc := clauses[i]
			var conds []string
			for _, cx := range cc.List {
				c, ty, err := t.expr(cx, e, tB)
				if err != nil {
					return "", err
				}
				if ty != tB {
					return "", t.errf(cx, "case expression of kind %v", ty)
				}
				conds = append(conds, c)
			}
			cond := strings.Join(conds, " || ")
			if len(conds) > 1 {
				cond = "(" + cond + ")"
			}
			th, err := t.stmts(cc.Body, e, after, after, d+1)
			if err != nil {
				return "", err
			}
			el, err := build(i+1, d+1)
			if err != nil {
				return "", err
			}
			return ind(d) + "if " + cond + " then (\n" + th + ind(d) + ") else (\n" + el + ind(d) + ")\n", nil
		}
		return build(0, d)
	case *ast.ForStmt:
		return t.forStmt(ts, rest, e, brk, k, d)
	}
	return "", t.errf(s, "statement %T is not understood", s)
}

// forStmt turns a loop into an auxiliary structurally recursive definition over a fuel argument.
// `for i := a; i < N; i++ { … }` with a literal bound gets the fuel N + 1 (enough for every start
// value 0 ≤ a); `for cond { … }` gets the target's fuel expression. The loop state is the tuple of
// the variables assigned in the loop; `break` leaves the loop with the current state.
func (t *ntr) forStmt(f *ast.ForStmt, rest []ast.Stmt, e nenv, brk, k nkont, d int) (string, error) {
	if f.Init != nil {
		return t.stmts(append([]ast.Stmt{f.Init, &ast.ForStmt{For: f.For, Cond: f.Cond, Post: f.Post, Body: f.Body}}, rest...), e, brk, k, d)
	}
	body := append([]ast.Stmt{}, f.Body.List...)
	if f.Post != nil {
		body = append(body, f.Post)
	}
	state := assigned(body)
	for _, v := range state {
		if ty, ok := e[v]; !ok || ty == tO {
			return "", t.errf(f, "loop variable %s is not defined before the loop", v)
		}
	}
	fuel := t.tgt.fuel
	if f.Post != nil && f.Cond != nil {
		if be, ok := f.Cond.(*ast.BinaryExpr); ok && be.Op == token.LSS {
			if lit, ok := intLit(be.Y); ok {
				fuel = "(" + lit + " + 1)"
			}
		}
	}
	if fuel == "" {
		return "", t.errf(f, "no fuel bound is known for this loop")
	}
	// free variables of the loop that are not state: passed as extra parameters
	free := []string{}
	seen := map[string]bool{}
	for _, v := range state {
		seen[v] = true
	}
	for _, bs := range append(body, &ast.ExprStmt{X: condOrTrue(f.Cond)}) {
		ast.Inspect(bs, func(n ast.Node) bool {
			if id, ok := n.(*ast.Ident); ok {
				if _, isVar := e[id.Name]; isVar && !seen[id.Name] {
					seen[id.Name] = true
					free = append(free, id.Name)
				}
			}
			return true
		})
	}
	sort.Strings(free)
	const name = "@LOOP@" // replaced below: identical loops (duplicated continuations) share one definition
	lty := func(ty nty) string { return ty.leanType() }
	var stTypes, stNames []string
	for _, v := range state {
		stTypes = append(stTypes, lty(e[v]))
		stNames = append(stNames, nIdent(v))
	}
	stTuple := tuple(stNames)
	exit := func(e2 nenv, d2 int) (string, error) { return ind(d2) + stTuple + "\n", nil }
	again := func(e2 nenv, d2 int) (string, error) {
		return ind(d2) + "(" + name + " fuel " + strings.Join(append(freeNames(free), stNames...), " ") + ")\n", nil
	}
	cond := "true"
	if f.Cond != nil {
		c, ty, err := t.expr(f.Cond, e, tB)
		if err != nil {
			return "", err
		}
		if ty != tB {
			return "", t.errf(f, "loop condition of kind %v", ty)
		}
		cond = c
	}
	bodyS, err := t.stmts(body, e, exit, again, 3)
	if err != nil {
		return "", err
	}
	var sig []string
	for _, v := range free {
		sig = append(sig, "("+nIdent(v)+" : "+lty(e[v])+")")
	}
	var b strings.Builder
	fmt.Fprintf(&b, "/-- a loop of `%s` (%s): state (%s) -/\n", t.tgt.fn, t.tgt.file, strings.Join(state, ", "))
	fmt.Fprintf(&b, "def %s (fuel : Nat)%s", name, strings.Join(append([]string{""}, sig...), " "))
	for i, v := range state {
		fmt.Fprintf(&b, " (%s : %s)", nIdent(v), stTypes[i])
	}
	fmt.Fprintf(&b, " : %s :=\n  match fuel with\n  | 0 => %s\n  | fuel + 1 =>\n    if %s then (\n%s    ) else %s\n\n", strings.Join(stTypes, " × "), stTuple, cond, bodyS, stTuple)
	real, seen2 := t.loops[b.String()]
	if !seen2 {
		t.nloops++
		real = fmt.Sprintf("%s_loop%d", t.tgt.lean, t.nloops)
		if t.loops == nil {
			t.loops = map[string]string{}
		}
		t.loops[b.String()] = real
		t.aux = append(t.aux, strings.ReplaceAll(b.String(), name, real))
	}
	// after the loop: unpack the state
	t.nst++
	out := fmt.Sprintf("%slet st_%d := %s %s %s;\n", ind(d), t.nst, real, fuel, strings.Join(append(freeNames(free), stNames...), " "))
	for i, v := range state {
		proj := fmt.Sprintf("st_%d", t.nst)
		if len(state) > 1 {
			// right-nested tuple projections
			for j := 0; j < i; j++ {
				proj += ".2"
			}
			if i < len(state)-1 {
				proj += ".1"
			}
		}
		out += fmt.Sprintf("%slet %s := %s;\n", ind(d), nIdent(v), proj)
	}
	r, err := t.stmts(rest, e, brk, k, d)
	if err != nil {
		return "", err
	}
	return out + r, nil
}

func condOrTrue(x ast.Expr) ast.Expr {
	if x == nil {
		return &ast.Ident{Name: "true"}
	}
	return x
}

func freeNames(free []string) []string {
	out := make([]string, len(free))
	for i, v := range free {
		out[i] = nIdent(v)
	}
	return out
}

// ---------------------------------------------------------------------------------------------

func findFunc(file *ast.File, name string) *ast.FuncDecl {
	for _, d := range file.Decls {
		fd, ok := d.(*ast.FuncDecl)
		if !ok || fd.Body == nil {
			continue
		}
		n := fd.Name.Name
		if fd.Recv != nil && len(fd.Recv.List) == 1 {
			n = strings.TrimPrefix(selName(fd.Recv.List[0].Type), "*") + "." + n
		}
		if n == name {
			return fd
		}
	}
	return nil
}

// fixnumCase finds, in the statement list, the first type switch with a `case slip.Fixnum:` clause
// and returns the clause body and the statements that follow the switch in the same block.
func fixnumCase(list []ast.Stmt) (body []ast.Stmt, after []ast.Stmt, bound string, ok bool) {
	body, after, _, bound, ok = fixnumCasePrefix(list)
	return
}

func fixnumCasePrefix(list []ast.Stmt) (body []ast.Stmt, after []ast.Stmt, before []ast.Stmt, bound string, ok bool) {
	for i, s := range list {
		if ls, isL := s.(*ast.LabeledStmt); isL {
			s = ls.Stmt
		}
		sw, isSw := s.(*ast.TypeSwitchStmt)
		if !isSw {
			continue
		}
		for _, c := range sw.Body.List {
			cc := c.(*ast.CaseClause)
			if len(cc.List) == 1 && selName(cc.List[0]) == "slip.Fixnum" {
				if as, isAs := sw.Assign.(*ast.AssignStmt); isAs && len(as.Lhs) == 1 {
					bound = selName(as.Lhs[0])
				}
				return cc.Body, list[i+1:], list[:i], bound, true
			}
		}
	}
	return nil, nil, nil, "", false
}

// fixfixBody finds `if x, ok := A.(slip.Fixnum); ok { if y, ok2 := B.(slip.Fixnum); ok2 { BODY } }`.
func fixfixBody(list []ast.Stmt) (body []ast.Stmt, x, y string, ok bool) {
	isFixIf := func(s ast.Stmt) (*ast.IfStmt, string) {
		is, ok := s.(*ast.IfStmt)
		if !ok || is.Init == nil {
			return nil, ""
		}
		as, ok := is.Init.(*ast.AssignStmt)
		if !ok || len(as.Lhs) != 2 || len(as.Rhs) != 1 {
			return nil, ""
		}
		ta, ok := as.Rhs[0].(*ast.TypeAssertExpr)
		if !ok || selName(ta.Type) != "slip.Fixnum" || selName(is.Cond) != selName(as.Lhs[1]) {
			return nil, ""
		}
		return is, selName(as.Lhs[0])
	}
	for _, s := range list {
		if outer, xn := isFixIf(s); outer != nil && len(outer.Body.List) == 1 {
			if inner, yn := isFixIf(outer.Body.List[0]); inner != nil {
				return inner.Body.List, xn, yn, true
			}
		}
	}
	return nil, "", "", false
}

// checkPrefix makes sure that nothing in front of the translated code can produce a result of its
// own: the statements before a type switch / before the dispatch may declare, assign, check the
// argument count and raise conditions, but a `return` (a fast path the translation would not see),
// a `goto` or a nested switch is an error. allowed lists statements that are translated separately.
func (t *ntr) checkPrefix(list []ast.Stmt, allowed map[ast.Stmt]bool) error {
	for _, s := range list {
		if allowed[s] {
			continue
		}
		var bad ast.Node
		ast.Inspect(s, func(n ast.Node) bool {
			switch tn := n.(type) {
			case *ast.ReturnStmt:
				bad = tn
			case *ast.BranchStmt:
				if tn.Tok == token.GOTO {
					bad = tn
				}
			case *ast.SwitchStmt, *ast.TypeSwitchStmt, *ast.FuncLit:
				bad = tn
			}
			return bad == nil
		})
		if bad != nil {
			return t.errf(bad, "a statement before the translated code of %s can return a result of its own (a new fast path?); it is not understood", t.tgt.fn)
		}
	}
	return nil
}

func isRealAssert(s ast.Stmt) bool {
	as, ok := s.(*ast.AssignStmt)
	if !ok || len(as.Rhs) != 1 {
		return false
	}
	ta, ok := as.Rhs[0].(*ast.TypeAssertExpr)
	return ok && selName(ta.Type) == "slip.Real"
}

func (tg *ntarget) translate(repo string, known map[string]*ntarget) (string, error) {
	fset := token.NewFileSet()
	file, err := parser.ParseFile(fset, filepath.Join(repo, tg.file), nil, 0)
	if err != nil {
		return "", err
	}
	fd := findFunc(file, tg.fn)
	if fd == nil {
		return "", fmt.Errorf("%s: function %s not found", tg.file, tg.fn)
	}
	t := &ntr{fset: fset, tgt: tg, known: known}
	if fd.Type.Results != nil {
		for _, r := range fd.Type.Results.List {
			for _, n := range r.Names {
				t.named = append(t.named, nparam{goName: n.Name, lean: nIdent(n.Name), ty: tg.ret})
			}
		}
	}
	e := nenv{}
	for _, p := range tg.params {
		e[p.goName] = p.ty
	}
	for _, o := range tg.oracles {
		for _, p := range o {
			e[p.lean] = p.ty
		}
	}
	var body, after []ast.Stmt
	switch tg.locate {
	case "func":
		body = fd.Body.List
		// every parameter of the function must be a declared parameter of the target
		n := 0
		for _, f := range fd.Type.Params.List {
			n += len(f.Names)
		}
		if n != len(tg.params) {
			return "", fmt.Errorf("%s: %s has %d parameters, the target expects %d", tg.file, tg.fn, n, len(tg.params))
		}
	case "case":
		var bound string
		var ok bool
		var before []ast.Stmt
		body, after, before, bound, ok = fixnumCasePrefix(fd.Body.List)
		if !ok {
			return "", fmt.Errorf("%s: %s has no type switch with a `case slip.Fixnum:` clause", tg.file, tg.fn)
		}
		if err := t.checkPrefix(before, nil); err != nil {
			return "", err
		}
		if bound != "" && bound != tg.params[0].goName {
			return "", fmt.Errorf("%s: the type switch of %s binds %s, the target expects %s", tg.file, tg.fn, bound, tg.params[0].goName)
		}
	case "fixfix":
		var x, y string
		var ok bool
		body, x, y, ok = fixfixBody(fd.Body.List)
		if !ok && tg.fall != "" {
			// no fast path: two fixnums take the general route
			var b strings.Builder
			fmt.Fprintf(&b, "/-- %s — `%s` in %s has no such fast path (the general route is taken) -/\n", tg.doc, tg.fn, tg.file)
			fmt.Fprintf(&b, "def %s (%s : Int) (%s : Int) : %s :=\n  %s\n", tg.lean, tg.params[0].lean, tg.params[1].lean, tg.retLean, tg.fall)
			return b.String(), nil
		}
		if !ok || x != tg.params[0].goName || y != tg.params[1].goName {
			return "", fmt.Errorf("%s: %s has no fixnum × fixnum fast path over (%s, %s)", tg.file, tg.fn, tg.params[0].goName, tg.params[1].goName)
		}
	case "normcell":
		// NormalizeNumber: the clause of the outer type switch (on v0) for the first parameter's Go
		// type, the statements in front of its inner type switch (on v1), and the inner clause for
		// the second parameter's Go type
		// the outer switch is the first type switch on the FIRST parameter. A type switch on the
		// second parameter in front of it (a pre-normalisation such as `case Octet: v1 = Fixnum(t1)`)
		// is accepted when none of its clauses concerns the second type of this cell and it has no
		// default clause: then it does not touch the operands of the cell.
		var outer *ast.TypeSwitchStmt
		subject := func(sw *ast.TypeSwitchStmt) string {
			var e ast.Expr
			switch a := sw.Assign.(type) {
			case *ast.AssignStmt:
				if len(a.Rhs) == 1 {
					e = a.Rhs[0]
				}
			case *ast.ExprStmt:
				e = a.X
			}
			if ta, ok := e.(*ast.TypeAssertExpr); ok {
				if id, ok := ta.X.(*ast.Ident); ok {
					return id.Name
				}
			}
			return ""
		}
		p0, p1 := "", ""
		if fd.Type.Params != nil {
			var names []string
			for _, f := range fd.Type.Params.List {
				for _, n := range f.Names {
					names = append(names, n.Name)
				}
			}
			if len(names) >= 2 {
				p0, p1 = names[0], names[1]
			}
		}
		var preErr error
		ast.Inspect(fd.Body, func(n ast.Node) bool {
			if sw, ok := n.(*ast.TypeSwitchStmt); ok && outer == nil {
				switch subject(sw) {
				case p0:
					outer = sw
				case p1:
					for _, c := range sw.Body.List {
						cc := c.(*ast.CaseClause)
						if cc.List == nil {
							preErr = fmt.Errorf("%s: the type switch on %s in front of the dispatch of NormalizeNumber has a default clause: not understood", tg.file, p1)
						}
						for _, e := range cc.List {
							if selName(e) == tg.goTypes[1] {
								preErr = fmt.Errorf("%s: the type switch on %s in front of the dispatch of NormalizeNumber rewrites a %s: not understood", tg.file, p1, tg.goTypes[1])
							}
						}
					}
					return false
				default:
					outer = sw
				}
			}
			return outer == nil
		})
		if preErr != nil {
			return "", preErr
		}
		clause := func(sw *ast.TypeSwitchStmt, ty string) []ast.Stmt {
			if sw == nil {
				return nil
			}
			for _, c := range sw.Body.List {
				cc := c.(*ast.CaseClause)
				if len(cc.List) == 1 && selName(cc.List[0]) == ty {
					return cc.Body
				}
			}
			return nil
		}
		ob := clause(outer, tg.goTypes[0])
		for i, st := range ob {
			if inner, ok := st.(*ast.TypeSwitchStmt); ok {
				ib := clause(inner, tg.goTypes[1])
				if ib == nil {
					break
				}
				if err := t.checkPrefix(ob[:i], nil); err != nil {
					return "", err
				}
				body = append(append([]ast.Stmt{}, ob[:i]...), ib...)
				if len(ob[i+1:]) != 0 {
					return "", fmt.Errorf("%s: statements after the inner type switch of NormalizeNumber are not understood", tg.file)
				}
				break
			}
		}
		if body == nil {
			return "", fmt.Errorf("%s: NormalizeNumber has no cell (%s, %s)", tg.file, tg.goTypes[0], tg.goTypes[1])
		}
	case "rangebody":
		// the body of the first `for … := range …` loop of the function
		for _, st := range fd.Body.List {
			if rs, ok := st.(*ast.RangeStmt); ok {
				body = rs.Body.List
				break
			}
		}
		if body == nil {
			return "", fmt.Errorf("%s: %s has no range loop", tg.file, tg.fn)
		}
	case "realreal":
		// the body of `if _, ok := x.(slip.Real); ok { if _, ok = y.(slip.Real); ok { BODY } }`
		for _, st := range fd.Body.List {
			if o, ok := st.(*ast.IfStmt); ok && len(o.Body.List) == 1 {
				if in, ok2 := o.Body.List[0].(*ast.IfStmt); ok2 && isRealAssert(o.Init) && isRealAssert(in.Init) {
					body = in.Body.List
				}
			}
		}
		if body == nil {
			return "", fmt.Errorf("%s: %s has no real × real branch", tg.file, tg.fn)
		}
	default:
		if callee, ok := strings.CutPrefix(tg.locate, "from:"); ok {
			// the statements from the first `… := callee(…)` up to and including the next switch
			start := -1
			for i, st := range fd.Body.List {
				if as, isAs := st.(*ast.AssignStmt); isAs && len(as.Rhs) == 1 && start < 0 {
					if c, isCall := as.Rhs[0].(*ast.CallExpr); isCall && selName(c.Fun) == callee {
						start = i
					}
				}
				if _, isSw := st.(*ast.SwitchStmt); isSw && start >= 0 {
					body = fd.Body.List[start : i+1]
					allowed := map[ast.Stmt]bool{}
					for _, ps := range fd.Body.List[:start] {
						if _, _, _, isFast := fixfixBody([]ast.Stmt{ps}); isFast {
							allowed[ps] = true // the fixnum × fixnum fast path: translated as compareFix
						}
					}
					if err := t.checkPrefix(fd.Body.List[:start], allowed); err != nil {
						return "", err
					}
					break
				}
			}
			if body == nil {
				return "", fmt.Errorf("%s: %s has no `… := %s(…)` followed by a switch", tg.file, tg.fn, callee)
			}
			break
		}
		return "", fmt.Errorf("unknown locate %q", tg.locate)
	}
	var pre string
	for _, p := range tg.pre {
		w := strings.SplitN(p, ":", 3)
		ty := map[string]nty{"I": tI, "U": tU, "B": tB, "Z": tZ, "R": tR, "O": tO, "Q": tQ}[w[1]]
		e[w[0]] = ty
		if ty != tO {
			pre += "  let " + nIdent(w[0]) + " := " + w[2] + ";\n"
		}
	}
	end := func(e2 nenv, d2 int) (string, error) {
		fall := func(e3 nenv, d3 int) (string, error) {
			if tg.fall != "" {
				return ind(d3) + tg.fall + "\n", nil
			}
			s, err := t.outsExpr(e3, fd)
			return ind(d3) + s + "\n", err
		}
		if len(after) > 0 {
			return t.stmts(after, e2, nil, fall, d2)
		}
		return fall(e2, d2)
	}
	out, err := t.stmts(body, e, end, end, 1)
	if err != nil {
		return "", err
	}
	var b strings.Builder
	for _, a := range t.aux {
		b.WriteString(a)
	}
	fmt.Fprintf(&b, "/-- %s — translated from `%s` in %s -/\n", tg.doc, tg.fn, tg.file)
	fmt.Fprintf(&b, "def %s", tg.lean)
	if tg.fuel == "fuel" {
		b.WriteString(" (fuel : Nat)")
	}
	for _, p := range tg.params {
		fmt.Fprintf(&b, " (%s : %s)", nIdent(p.lean), p.ty.leanType())
	}
	fmt.Fprintf(&b, " : %s :=\n%s%s\n", tg.retLean, pre, out)
	return b.String(), nil
}

func qp(names ...string) []nparam {
	var out []nparam
	for _, n := range names {
		out = append(out, nparam{goName: n, lean: n, ty: tQ})
	}
	return out
}

func ip(names ...string) []nparam {
	var out []nparam
	for _, n := range names {
		out = append(out, nparam{goName: n, lean: n, ty: tI})
	}
	return out
}

// numTargets lists the code that is translated, in dependency order.
func numTargets() []*ntarget {
	qr := []nparam{{"q", "q", tI}, {"r", "r", tI}}
	res := []nparam{{"result", "result", tR}}
	return []*ntarget{
		{lean: "addFixnums", file: "pkg/cl/number.go", fn: "addFixnums", locate: "func", params: ip("x", "y"), ret: tR, retLean: "Rep",
			doc: "sum of two fixnums: a fixnum, or a bignum when the int64 addition overflowed"},
		{lean: "subFixnums", file: "pkg/cl/number.go", fn: "subFixnums", locate: "func", params: ip("x", "y"), ret: tR, retLean: "Rep",
			doc: "difference of two fixnums"},
		{lean: "mulFixnums", file: "pkg/cl/number.go", fn: "mulFixnums", locate: "func", params: ip("x", "y"), ret: tR, retLean: "Rep",
			doc: "product of two fixnums"},
		{lean: "negFixnum", file: "pkg/cl/number.go", fn: "negFixnum", locate: "func", params: ip("x"), ret: tR, retLean: "Rep",
			doc: "negation of a fixnum"},
		{lean: "compareFix", file: "pkg/cl/number.go", fn: "compareReals", locate: "fixfix", params: ip("fx", "fy"), ret: tI, retLean: "Int",
			fall: "(cmpRat (fx : Rat) (fy : Rat))",
			doc: "fixnum × fixnum fast path of compareReals (-1, 0, 1)"},
		{lean: "floorFix", file: "pkg/cl/floor.go", fn: "floor", locate: "case", params: ip("tn", "div"), pre: []string{"q:O:", "r:O:"}, outs: qr, ret: tI, retLean: "Int × Int",
			doc: "fixnum branch of floor: quotient and remainder"},
		{lean: "ceilingFix", file: "pkg/cl/ceiling.go", fn: "ceiling", locate: "case", params: ip("tn", "div"), pre: []string{"q:O:", "r:O:"}, outs: qr, ret: tI, retLean: "Int × Int",
			doc: "fixnum branch of ceiling"},
		{lean: "truncateFix", file: "pkg/cl/truncate.go", fn: "truncate", locate: "case", params: ip("tn", "div"), pre: []string{"q:O:", "r:O:"}, outs: qr, ret: tI, retLean: "Int × Int",
			doc: "fixnum branch of truncate"},
		{lean: "roundFix", file: "pkg/cl/round.go", fn: "round", locate: "case", params: ip("tn", "div"), pre: []string{"q:O:", "r:O:"}, outs: qr, ret: tI, retLean: "Int × Int",
			doc: "fixnum branch of round"},
		{lean: "gcdFix", file: "pkg/cl/gcd.go", fn: "gcd", locate: "func", params: ip("x", "y"), ret: tI, retLean: "Int", fuel: "fuel",
			doc: "Euclid's loop of gcd on two fixnums (fuel: any number above the second operand)"},
		{lean: "absFix", file: "pkg/cl/abs.go", fn: "Abs.Call", locate: "case", params: ip("ta"), pre: []string{"result:R:(Rep.fix ta)"}, outs: res, ret: tR, retLean: "Rep",
			doc: "fixnum branch of abs"},
		{lean: "ashFix", file: "pkg/cl/ash.go", fn: "Ash.Call", locate: "case", params: ip("ti", "sh"), pre: []string{"result:O:"}, outs: res, ret: tR, retLean: "Rep",
			doc: "fixnum branch of ash (ti = the integer, sh = the shift count as a Go int)"},
		{lean: "oneplusFix", file: "pkg/cl/oneplus.go", fn: "Oneplus.Call", locate: "case", params: ip("ta"), pre: []string{"result:O:"}, outs: res, ret: tR, retLean: "Rep",
			doc: "fixnum branch of 1+"},
		{lean: "oneminusFix", file: "pkg/cl/oneminus.go", fn: "Oneminus.Call", locate: "case", params: ip("ta"), pre: []string{"result:O:"}, outs: res, ret: tR, retLean: "Rep",
			doc: "fixnum branch of 1-"},
		{lean: "isqrtFix", file: "pkg/cl/isqrt.go", fn: "Isqrt.Call", locate: "case", params: ip("ta"), pre: []string{"result:O:"}, outs: res, ret: tR, retLean: "Option Rep",
			panics: "none", some: true, doc: "fixnum branch of isqrt (none: a condition is raised)"},
		{lean: "lognotFix", file: "pkg/cl/lognot.go", fn: "lognot", locate: "case", params: ip("ta"), pre: []string{"result:O:"}, outs: res, ret: tR, retLean: "Rep",
			doc: "fixnum branch of lognot"},
		{lean: "integerLengthFix", file: "pkg/cl/integer-length.go", fn: "IntegerLength.Call", locate: "case", params: ip("ta"), pre: []string{"result:O:"}, outs: res, ret: tR, retLean: "Rep",
			doc: "fixnum branch of integer-length"},
		{lean: "logbitpFix", file: "pkg/cl/logbitp.go", fn: "Logbitp.Call", locate: "case", params: ip("ti", "index"), ret: tB, retLean: "Bool",
			doc: "fixnum branch of logbitp (index = the non-negative bit index)"},
		{lean: "zeropFix", file: "pkg/cl/zerop.go", fn: "Zerop.Call", locate: "case", params: ip("ta"), ret: tB, retLean: "Bool", doc: "fixnum branch of zerop"},
		{lean: "pluspFix", file: "pkg/cl/plusp.go", fn: "Plusp.Call", locate: "case", params: ip("ta"), ret: tB, retLean: "Bool", doc: "fixnum branch of plusp"},
		{lean: "minuspFix", file: "pkg/cl/minusp.go", fn: "Minusp.Call", locate: "case", params: ip("ta"), ret: tB, retLean: "Bool", doc: "fixnum branch of minusp"},
		{lean: "evenpFix", file: "pkg/cl/evenp.go", fn: "Evenp.Call", locate: "case", params: ip("ta"), ret: tB, retLean: "Bool", doc: "fixnum branch of evenp"},
		{lean: "oddpFix", file: "pkg/cl/oddp.go", fn: "Oddp.Call", locate: "case", params: ip("ta"), ret: tB, retLean: "Bool", doc: "fixnum branch of oddp"},
		{lean: "compareDispatch", file: "pkg/cl/number.go", fn: "compareReals", locate: "from:rationalValue",
			params: []nparam{{"vx", "vx", tQ}, {"vy", "vy", tQ}, {"xrat", "xrat", tB}, {"yrat", "yrat", tB}, {"xfin", "xfin", tB}, {"yfin", "yfin", tB}},
			oracles: map[string][]nparam{
				"rationalValue(x)": {{"", "vx", tQ}, {"", "xrat", tB}}, "rationalValue(y)": {{"", "vy", tQ}, {"", "yrat", tB}},
				"finiteFloatValue(x)": {{"", "vx", tQ}, {"", "xfin", tB}}, "finiteFloatValue(y)": {{"", "vy", tQ}, {"", "yfin", tB}}},
			ret: tI, retLean: "Option Int", some: true, fall: "none",
			doc: "dispatch of compareReals after the fixnum fast path: vx, vy = exact values of x and y; xrat/yrat = the operand is an integer or a ratio; xfin/yfin = it is a finite float; none = left to the float × float comparison"},
		{lean: "ltBody", file: "pkg/cl/lt.go", fn: "Lt.Call", locate: "rangebody", params: qp("target", "arg"), outs: qp("target"), ret: tQ, retLean: "Option Rat", some: true, nilLean: "none",
			doc: "loop body of <: none = the chain fails, some t = go on with t as the value to compare the next argument with"},
		{lean: "lteBody", file: "pkg/cl/lte.go", fn: "Lte.Call", locate: "rangebody", params: qp("target", "arg"), outs: qp("target"), ret: tQ, retLean: "Option Rat", some: true, nilLean: "none", doc: "loop body of <="},
		{lean: "gtBody", file: "pkg/cl/gt.go", fn: "Gt.Call", locate: "rangebody", params: qp("target", "arg"), outs: qp("target"), ret: tQ, retLean: "Option Rat", some: true, nilLean: "none", doc: "loop body of >"},
		{lean: "gteBody", file: "pkg/cl/gte.go", fn: "Gte.Call", locate: "rangebody", params: qp("target", "arg"), outs: qp("target"), ret: tQ, retLean: "Option Rat", some: true, nilLean: "none", doc: "loop body of >="},
		{lean: "sameReal", file: "pkg/cl/same.go", fn: "same", locate: "realreal", params: qp("x", "y"), ret: tQ, retLean: "Option Rat", some: true, nilLean: "none",
			doc: "same(x, y) on two reals: none = different, some y = equal (the value the next argument of = is compared with)"},
		{lean: "maxBody", file: "pkg/cl/max.go", fn: "Max.Call", locate: "rangebody", params: qp("max", "arg"), outs: qp("max"), ret: tQ, retLean: "Rat", doc: "loop body of max: the new maximum"},
		{lean: "minBody", file: "pkg/cl/min.go", fn: "Min.Call", locate: "rangebody", params: qp("min", "arg"), outs: qp("min"), ret: tQ, retLean: "Rat", doc: "loop body of min: the new minimum"},

		// NormalizeNumber (normalizenumber.go) on the exact types: one definition per (type of v0, type of v1)
		{lean: "normFixFix", file: "normalizenumber.go", fn: "NormalizeNumber", locate: "normcell", goTypes: []string{"Fixnum", "Fixnum"},
			params: []nparam{{"t0", "t0", tI}, {"t1", "t1", tI}}, pre: []string{"v1:I:t1", "n0:O:", "n1:O:"}, outs: []nparam{{"n0", "n0", tR}, {"n1", "n1", tR}},
			ret: tR, retLean: "Option (Rep × Rep)", some: true, opaque: "none",
			doc: "NormalizeNumber on (Fixnum, Fixnum): the two operands in their common representation; none = they leave the exact types (long-floats)"},
		{lean: "normFixBig", file: "normalizenumber.go", fn: "NormalizeNumber", locate: "normcell", goTypes: []string{"Fixnum", "*Bignum"},
			params: []nparam{{"t0", "t0", tI}, {"t1", "t1", tZ}}, pre: []string{"v1:Z:t1", "n0:O:", "n1:O:"}, outs: []nparam{{"n0", "n0", tR}, {"n1", "n1", tR}},
			ret: tR, retLean: "Option (Rep × Rep)", some: true, opaque: "none",
			doc: "NormalizeNumber on (Fixnum, *Bignum): the two operands in their common representation; none = they leave the exact types (long-floats)"},
		{lean: "normFixRat", file: "normalizenumber.go", fn: "NormalizeNumber", locate: "normcell", goTypes: []string{"Fixnum", "*Ratio"},
			params: []nparam{{"t0", "t0", tI}, {"t1", "t1", tQ}}, pre: []string{"v1:Q:t1", "n0:O:", "n1:O:"}, outs: []nparam{{"n0", "n0", tR}, {"n1", "n1", tR}},
			ret: tR, retLean: "Option (Rep × Rep)", some: true, opaque: "none",
			doc: "NormalizeNumber on (Fixnum, *Ratio): the two operands in their common representation; none = they leave the exact types (long-floats)"},
		{lean: "normBigFix", file: "normalizenumber.go", fn: "NormalizeNumber", locate: "normcell", goTypes: []string{"*Bignum", "Fixnum"},
			params: []nparam{{"t0", "t0", tZ}, {"t1", "t1", tI}}, pre: []string{"v1:I:t1", "n0:O:", "n1:O:"}, outs: []nparam{{"n0", "n0", tR}, {"n1", "n1", tR}},
			ret: tR, retLean: "Option (Rep × Rep)", some: true, opaque: "none",
			doc: "NormalizeNumber on (*Bignum, Fixnum): the two operands in their common representation; none = they leave the exact types (long-floats)"},
		{lean: "normBigBig", file: "normalizenumber.go", fn: "NormalizeNumber", locate: "normcell", goTypes: []string{"*Bignum", "*Bignum"},
			params: []nparam{{"t0", "t0", tZ}, {"t1", "t1", tZ}}, pre: []string{"v1:Z:t1", "n0:O:", "n1:O:"}, outs: []nparam{{"n0", "n0", tR}, {"n1", "n1", tR}},
			ret: tR, retLean: "Option (Rep × Rep)", some: true, opaque: "none",
			doc: "NormalizeNumber on (*Bignum, *Bignum): the two operands in their common representation; none = they leave the exact types (long-floats)"},
		{lean: "normBigRat", file: "normalizenumber.go", fn: "NormalizeNumber", locate: "normcell", goTypes: []string{"*Bignum", "*Ratio"},
			params: []nparam{{"t0", "t0", tZ}, {"t1", "t1", tQ}}, pre: []string{"v1:Q:t1", "n0:O:", "n1:O:"}, outs: []nparam{{"n0", "n0", tR}, {"n1", "n1", tR}},
			ret: tR, retLean: "Option (Rep × Rep)", some: true, opaque: "none",
			doc: "NormalizeNumber on (*Bignum, *Ratio): the two operands in their common representation; none = they leave the exact types (long-floats)"},
		{lean: "normRatFix", file: "normalizenumber.go", fn: "NormalizeNumber", locate: "normcell", goTypes: []string{"*Ratio", "Fixnum"},
			params: []nparam{{"t0", "t0", tQ}, {"t1", "t1", tI}}, pre: []string{"v1:I:t1", "n0:O:", "n1:O:"}, outs: []nparam{{"n0", "n0", tR}, {"n1", "n1", tR}},
			ret: tR, retLean: "Option (Rep × Rep)", some: true, opaque: "none",
			doc: "NormalizeNumber on (*Ratio, Fixnum): the two operands in their common representation; none = they leave the exact types (long-floats)"},
		{lean: "normRatBig", file: "normalizenumber.go", fn: "NormalizeNumber", locate: "normcell", goTypes: []string{"*Ratio", "*Bignum"},
			params: []nparam{{"t0", "t0", tQ}, {"t1", "t1", tZ}}, pre: []string{"v1:Z:t1", "n0:O:", "n1:O:"}, outs: []nparam{{"n0", "n0", tR}, {"n1", "n1", tR}},
			ret: tR, retLean: "Option (Rep × Rep)", some: true, opaque: "none",
			doc: "NormalizeNumber on (*Ratio, *Bignum): the two operands in their common representation; none = they leave the exact types (long-floats)"},
		{lean: "normRatRat", file: "normalizenumber.go", fn: "NormalizeNumber", locate: "normcell", goTypes: []string{"*Ratio", "*Ratio"},
			params: []nparam{{"t0", "t0", tQ}, {"t1", "t1", tQ}}, pre: []string{"v1:Q:t1", "n0:O:", "n1:O:"}, outs: []nparam{{"n0", "n0", tR}, {"n1", "n1", tR}},
			ret: tR, retLean: "Option (Rep × Rep)", some: true, opaque: "none",
			doc: "NormalizeNumber on (*Ratio, *Ratio): the two operands in their common representation; none = they leave the exact types (long-floats)"},
		{lean: "signumFix", file: "pkg/cl/signum.go", fn: "Signum.Call", locate: "case", params: ip("ta"), pre: []string{"sig:I:0"}, ret: tI, retLean: "Int", doc: "fixnum branch of signum"},
	}
}

func init() {
	generators["NumImpl"] = func(repo string) (string, error) {
		var b strings.Builder
		b.WriteString("/- GENERATED by /verif/extract (numimpl.go) from pkg/cl/*.go — do not edit.\n")
		b.WriteString("   Go's int64 code of the fixnum branches, translated statement by statement; every int64\n")
		b.WriteString("   operation is the wrapping primitive of SlipVerif.Num.Impl. -/\n")
		b.WriteString("import SlipVerif.Model.Num\n")
		b.WriteString("set_option linter.unusedVariables false\n")
		b.WriteString("namespace SlipVerif.Gen.NumImpl\nopen SlipVerif.Num SlipVerif.Num.Impl\n\n")
		// compareReals(x, y) on exact values is the sign of x - y (Model/Num.lean `cmpRat`); that it is, for
		// rational and finite float operands, is obligation gen_compareDispatch_spec over its translated dispatch
		known := map[string]*ntarget{"compareReals": {lean: "cmpRat", params: qp("x", "y"), ret: tI}}
		var names []string
		for _, tg := range numTargets() {
			src, err := tg.translate(repo, known)
			if err != nil {
				return "", err
			}
			b.WriteString(src)
			b.WriteString("\n")
			if tg.locate == "func" {
				known[tg.fn] = tg
			}
			names = append(names, tg.lean)
		}
		fmt.Fprintf(&b, "/-- the translated definitions -/\ndef translated : List String := [%s]\n\n", quoteAll(names))
		b.WriteString("end SlipVerif.Gen.NumImpl\n")
		return b.String(), nil
	}
}
