package main

// C04 — Gen/LambdaCall.lean: what lambda.go, argcounterror.go and funcdoc.go say *now* about how a
// call binds its arguments, in the vocabulary of lean/SlipVerif/Model/LambdaCode.lean:
//
//   * the lambda-list marker constants (funcdoc.go) and the mode constants (lambda.go);
//   * TRANSLATIONS of the pure helper functions `(*Lambda).requiredCount`, `(*Lambda).isKeyParam`
//     (a range loop over lam.Doc.Args with local state, if/switch/break/return) and of the
//     condition of `CheckArgCount` / `CheckSendArgCount` into Lean definitions;
//   * the structure of `(*Lambda).Call`: the guards (too few / loop exit / too many / rest bound),
//     the two passes as tables  mode × marker → action  (one row per `case` arm, the arm's
//     statements classified), the facts of the &rest and &key loops, the &aux evaluation rule;
//   * the element grammar of `DefLambda` and the message prefixes of the argument count conditions.
//
// Model/LambdaImpl.lean executes these definitions (`ll impl` of the driver) and
// Theorems/C04Impl.lean proves that this machine refines the language-rule model `bind`.
// go/ast only, no type checking. A construct the translator does not know is an error (the check
// then reports the tie as broken and searches a failing input on the reference copy).

import (
	"fmt"
	"go/ast"
	"go/parser"
	"go/printer"
	"go/token"
	"path/filepath"
	"regexp"
	"sort"
	"strconv"
	"strings"
)

func init() { generators["LambdaCall"] = genLambdaCall }

type lcCtx struct {
	fset   *token.FileSet
	strs   map[string]string // string constants of package slip that are used (Amp…)
	ints   map[string]int    // integer constants of lambda.go (reqMode…)
	rename map[string]string // identifier → canonical name (argument vector, index, doc arg)
}

func (c *lcCtx) text(n ast.Node) string {
	var b strings.Builder
	_ = printer.Fprint(&b, c.fset, n)
	s := b.String()
	for from, to := range c.rename {
		if from != to {
			s = regexp.MustCompile(`\b`+regexp.QuoteMeta(from)+`\b`).ReplaceAllString(s, to)
		}
	}
	return s
}

func lcErr(c *lcCtx, n ast.Node, format string, a ...any) error {
	pos := c.fset.Position(n.Pos())
	return fmt.Errorf("%s:%d: %s", filepath.Base(pos.Filename), pos.Line, fmt.Sprintf(format, a...))
}

// ---------------------------------------------------------------------------------------------
// the translator for pure functions

type lcTr struct {
	c    *lcCtx
	vars map[string]string // Go identifier → Lean term
	text map[string]string // printed Go expression → Lean term (e.g. "len(args)" → "n")
	res  string            // named result (bare `return`)
}

func (t *lcTr) expr(e ast.Expr) (string, error) {
	if v, ok := t.text[t.c.text(e)]; ok {
		return v, nil
	}
	switch x := e.(type) {
	case *ast.ParenExpr:
		s, err := t.expr(x.X)
		return "(" + s + ")", err
	case *ast.BasicLit:
		switch x.Kind {
		case token.INT:
			return x.Value, nil
		case token.CHAR:
			r, _, _, err := strconv.UnquoteChar(x.Value[1:len(x.Value)-1], '\'')
			if err != nil || r > 126 || r < 32 || r == '\'' || r == '\\' {
				return "", lcErr(t.c, e, "character literal %s", x.Value)
			}
			return "'" + string(r) + "'", nil
		case token.STRING:
			s, err := strconv.Unquote(x.Value)
			if err != nil {
				return "", err
			}
			return leanStr(s), nil
		}
	case *ast.Ident:
		switch x.Name {
		case "true", "false":
			return x.Name, nil
		}
		if v, ok := t.vars[x.Name]; ok {
			return v, nil
		}
		if v, ok := t.c.strs[x.Name]; ok {
			return leanStr(v), nil
		}
		if v, ok := t.c.ints[x.Name]; ok {
			return strconv.Itoa(v), nil
		}
	case *ast.SelectorExpr:
		if id, ok := x.X.(*ast.Ident); ok {
			if v, ok := t.vars[id.Name]; ok && x.Sel.Name == "Name" {
				return v + ".name", nil
			}
		}
	case *ast.UnaryExpr:
		if x.Op == token.NOT {
			s, err := t.expr(x.X)
			return "(!" + s + ")", err
		}
	case *ast.IndexExpr:
		s, err := t.expr(x.X)
		if err != nil {
			return "", err
		}
		i, err := t.expr(x.Index)
		return "(byteAt " + s + " " + i + ")", err
	case *ast.CallExpr:
		fn := t.c.text(x.Fun)
		var args []string
		for _, a := range x.Args {
			s, err := t.expr(a)
			if err != nil {
				return "", err
			}
			args = append(args, s)
		}
		switch {
		case fn == "len" && len(args) == 1:
			return args[0] + ".length", nil
		case fn == "strings.EqualFold" && len(args) == 2:
			return "(eqFold " + args[0] + " " + args[1] + ")", nil
		case fn == "strings.ToLower" && len(args) == 1:
			return "(lowerS " + args[0] + ")", nil
		case (fn == "string" || fn == "Symbol") && len(args) == 1:
			return args[0], nil
		}
	case *ast.BinaryExpr:
		a, err := t.expr(x.X)
		if err != nil {
			return "", err
		}
		b, err := t.expr(x.Y)
		if err != nil {
			return "", err
		}
		switch x.Op {
		case token.LAND:
			return "(" + a + " && " + b + ")", nil
		case token.LOR:
			return "(" + a + " || " + b + ")", nil
		case token.LSS:
			return "decide (" + a + " < " + b + ")", nil
		case token.LEQ:
			return "decide (" + a + " ≤ " + b + ")", nil
		case token.GTR:
			return "decide (" + a + " > " + b + ")", nil
		case token.GEQ:
			return "decide (" + a + " ≥ " + b + ")", nil
		case token.EQL:
			return "(" + a + " == " + b + ")", nil
		case token.NEQ:
			return "(" + a + " != " + b + ")", nil
		case token.ADD:
			return "(" + a + " + " + b + ")", nil
		case token.SUB:
			return "(" + a + " - " + b + ")", nil
		}
	}
	return "", lcErr(t.c, e, "expression outside the translated subset: %s", t.c.text(e))
}

type lcKont struct {
	fall func() (string, error) // falling off the end of the statement list
	brk  func() (string, error) // unlabelled break
	cont func() (string, error) // continue
}

func lcIndent(s, ind string) string {
	lines := strings.Split(s, "\n")
	for i := range lines {
		lines[i] = ind + lines[i]
	}
	return strings.Join(lines, "\n")
}

func (t *lcTr) stmts(list []ast.Stmt, k lcKont) (string, error) {
	if len(list) == 0 {
		return k.fall()
	}
	s, rest := list[0], list[1:]
	restK := func() (string, error) { return t.stmts(rest, k) }
	switch x := s.(type) {
	case *ast.AssignStmt:
		if len(x.Lhs) == 1 && len(x.Rhs) == 1 && (x.Tok == token.ASSIGN || x.Tok == token.DEFINE) {
			if id, ok := x.Lhs[0].(*ast.Ident); ok {
				rhs, err := t.expr(x.Rhs[0])
				if err != nil {
					return "", err
				}
				if x.Tok == token.DEFINE {
					t.vars[id.Name] = id.Name
				} else if _, ok := t.vars[id.Name]; !ok {
					return "", lcErr(t.c, s, "assignment to %s", id.Name)
				}
				r, err := restK()
				return "let " + id.Name + " := " + rhs + "\n" + r, err
			}
		}
	case *ast.IncDecStmt:
		if id, ok := x.X.(*ast.Ident); ok && x.Tok == token.INC {
			if _, ok := t.vars[id.Name]; ok {
				r, err := restK()
				return "let " + id.Name + " := " + id.Name + " + 1\n" + r, err
			}
		}
	case *ast.IfStmt:
		if x.Init != nil {
			break
		}
		c, err := t.expr(x.Cond)
		if err != nil {
			return "", err
		}
		inner := lcKont{fall: restK, brk: k.brk, cont: k.cont}
		th, err := t.stmts(x.Body.List, inner)
		if err != nil {
			return "", err
		}
		var el string
		switch e := x.Else.(type) {
		case nil:
			el, err = restK()
		case *ast.BlockStmt:
			el, err = t.stmts(e.List, inner)
		case *ast.IfStmt:
			el, err = t.stmts([]ast.Stmt{e}, inner)
		}
		if err != nil {
			return "", err
		}
		return "if " + c + " then\n" + lcIndent(th, "  ") + "\nelse\n" + lcIndent(el, "  "), nil
	case *ast.SwitchStmt:
		if x.Init != nil {
			break
		}
		tag := ""
		if x.Tag != nil {
			var err error
			if tag, err = t.expr(x.Tag); err != nil {
				return "", err
			}
		}
		inner := lcKont{fall: restK, brk: restK, cont: k.cont}
		var conds, bodies []string
		dflt := ""
		hasDflt := false
		for _, cs := range x.Body.List {
			cc := cs.(*ast.CaseClause)
			body, err := t.stmts(cc.Body, inner)
			if err != nil {
				return "", err
			}
			if cc.List == nil {
				dflt, hasDflt = body, true
				continue
			}
			var alts []string
			for _, ce := range cc.List {
				v, err := t.expr(ce)
				if err != nil {
					return "", err
				}
				if tag != "" {
					v = "(" + tag + " == " + v + ")"
				}
				alts = append(alts, v)
			}
			conds = append(conds, strings.Join(alts, " || "))
			bodies = append(bodies, body)
		}
		if !hasDflt {
			var err error
			if dflt, err = restK(); err != nil {
				return "", err
			}
		}
		out := dflt
		for i := len(conds) - 1; i >= 0; i-- {
			out = "if " + conds[i] + " then\n" + lcIndent(bodies[i], "  ") + "\nelse\n" + lcIndent(out, "  ")
		}
		return out, nil
	case *ast.BranchStmt:
		if x.Label == nil && x.Tok == token.BREAK && k.brk != nil {
			return k.brk()
		}
		if x.Label == nil && x.Tok == token.CONTINUE && k.cont != nil {
			return k.cont()
		}
	case *ast.ReturnStmt:
		if len(x.Results) == 1 {
			return t.expr(x.Results[0])
		}
		if len(x.Results) == 0 && t.res != "" {
			return t.res, nil
		}
	}
	return "", lcErr(t.c, s, "statement outside the translated subset: %s", strings.SplitN(t.c.text(s), "\n", 2)[0])
}

func lcLeanType(e ast.Expr) (string, bool) {
	if id, ok := e.(*ast.Ident); ok {
		switch id.Name {
		case "int":
			return "Nat", true
		case "bool":
			return "Bool", true
		case "string":
			return "String", true
		}
	}
	return "", false
}

// translate `func (lam *Lambda) name(params) (result)`: optional `x := literal` statements, one
// `for _, ad := range lam.Doc.Args {…}`, then the statements after the loop.
func lcTranslateFunc(c *lcCtx, fd *ast.FuncDecl) (string, error) {
	name := fd.Name.Name
	t := &lcTr{c: c, vars: map[string]string{}, text: map[string]string{}}
	type tv struct{ name, typ, init string }
	var params, state []tv
	if fd.Type.Params != nil {
		for _, f := range fd.Type.Params.List {
			typ, ok := lcLeanType(f.Type)
			if !ok {
				return "", lcErr(c, f, "parameter type of %s", name)
			}
			for _, n := range f.Names {
				params = append(params, tv{n.Name, typ, ""})
				t.vars[n.Name] = n.Name
			}
		}
	}
	if fd.Type.Results == nil || len(fd.Type.Results.List) != 1 {
		return "", lcErr(c, fd, "%s: one result expected", name)
	}
	rf := fd.Type.Results.List[0]
	rtyp, ok := lcLeanType(rf.Type)
	if !ok {
		return "", lcErr(c, rf, "result type of %s", name)
	}
	if len(rf.Names) == 1 {
		t.res = rf.Names[0].Name
		zero := map[string]string{"Nat": "0", "Bool": "false", "String": `""`}[rtyp]
		state = append(state, tv{t.res, rtyp, zero})
		t.vars[t.res] = t.res
	}
	var loop *ast.RangeStmt
	var after []ast.Stmt
	for i, s := range fd.Body.List {
		if rs, ok := s.(*ast.RangeStmt); ok {
			loop, after = rs, fd.Body.List[i+1:]
			break
		}
		as, ok := s.(*ast.AssignStmt)
		if !ok || as.Tok != token.DEFINE || len(as.Lhs) != 1 || len(as.Rhs) != 1 {
			return "", lcErr(c, s, "%s: only `x := literal` may precede the loop", name)
		}
		id := as.Lhs[0].(*ast.Ident)
		init, err := t.expr(as.Rhs[0])
		if err != nil {
			return "", err
		}
		typ := "Nat"
		if init == "true" || init == "false" {
			typ = "Bool"
		}
		state = append(state, tv{id.Name, typ, init})
		t.vars[id.Name] = id.Name
	}
	if loop == nil {
		return "", lcErr(c, fd, "%s: no range loop", name)
	}
	if c.text(loop.X) != "lam.Doc.Args" || loop.Value == nil {
		return "", lcErr(c, loop, "%s: the loop must range over lam.Doc.Args", name)
	}
	if k, ok := loop.Key.(*ast.Ident); !ok || k.Name != "_" {
		return "", lcErr(c, loop, "%s: the loop index is used", name)
	}
	ad := loop.Value.(*ast.Ident).Name
	t.vars[ad] = ad
	var pnames, snames []string
	for _, p := range params {
		pnames = append(pnames, p.name)
	}
	for _, s := range state {
		snames = append(snames, s.name)
	}
	join := func(head string, xs []string) string {
		if len(xs) == 0 {
			return head
		}
		return head + " " + strings.Join(xs, " ")
	}
	loopName := name + "_loop"
	afterK := func() (string, error) {
		return t.stmts(after, lcKont{fall: func() (string, error) {
			if t.res == "" {
				return "", lcErr(c, fd, "%s: the function can end without a return", name)
			}
			return t.res, nil
		}})
	}
	loopCall := func() (string, error) {
		return join(join(loopName, pnames)+" rest__", snames), nil
	}
	body, err := t.stmts(loop.Body.List, lcKont{fall: loopCall, brk: afterK, cont: loopCall})
	if err != nil {
		return "", err
	}
	afterTxt, err := afterK()
	if err != nil {
		return "", err
	}
	var b strings.Builder
	fmt.Fprintf(&b, "def %s", loopName)
	for _, p := range params {
		fmt.Fprintf(&b, " (%s : %s)", p.name, p.typ)
	}
	b.WriteString(" : List DocArg")
	for _, s := range state {
		b.WriteString(" → " + s.typ)
	}
	b.WriteString(" → " + rtyp + "\n")
	pat := func(head string) string {
		if len(snames) == 0 {
			return head
		}
		return head + ", " + strings.Join(snames, ", ")
	}
	b.WriteString("  | " + pat("[]") + " =>\n" + lcIndent(afterTxt, "    ") + "\n")
	b.WriteString("  | " + pat(ad+" :: rest__") + " =>\n" + lcIndent(body, "    ") + "\n\n")
	fmt.Fprintf(&b, "def %s (args : List DocArg)", name)
	for _, p := range params {
		fmt.Fprintf(&b, " (%s : %s)", p.name, p.typ)
	}
	b.WriteString(" : " + rtyp + " :=\n")
	for _, s := range state {
		fmt.Fprintf(&b, "  let %s : %s := %s\n", s.name, s.typ, s.init)
	}
	b.WriteString("  " + join(join(loopName, pnames)+" args", snames) + "\n")
	return b.String(), nil
}

// ---------------------------------------------------------------------------------------------
// guards and the structure of Lambda.Call

var lcOps = map[token.Token]string{token.LSS: "lt", token.LEQ: "le", token.GTR: "gt", token.GEQ: "ge", token.EQL: "eq", token.NEQ: "ne"}
var lcFlip = map[string]string{"lt": "gt", "le": "ge", "gt": "lt", "ge": "le", "eq": "eq", "ne": "ne"}

// a comparison normalised so that the `len(…)` operand (or, without one, the non-literal) is on the left
func lcGuard(c *lcCtx, e ast.Expr) (string, error) {
	for {
		p, ok := e.(*ast.ParenExpr)
		if !ok {
			break
		}
		e = p.X
	}
	be, ok := e.(*ast.BinaryExpr)
	if !ok || lcOps[be.Op] == "" {
		return "", lcErr(c, e, "comparison expected: %s", c.text(e))
	}
	l, r, op := c.text(be.X), c.text(be.Y), lcOps[be.Op]
	rank := func(s string) int {
		switch {
		case strings.HasPrefix(s, "len("):
			return 0
		case regexp.MustCompile(`^-?[0-9]+$`).MatchString(s):
			return 2
		}
		return 1
	}
	if rank(r) < rank(l) {
		l, r, op = r, l, lcFlip[op]
	}
	return fmt.Sprintf("⟨%s, .%s, %s⟩", leanStr(l), op, leanStr(r)), nil
}

type lcRow struct {
	mode    int
	markers []string
	act     string
}

func (r lcRow) lean() string {
	return fmt.Sprintf("⟨%d, %s, %s⟩", r.mode, leanStrList(r.markers), r.act)
}

// the first string literal among the arguments of a call (a format string)
func lcFormat(call *ast.CallExpr) string {
	for _, a := range call.Args {
		if bl, ok := a.(*ast.BasicLit); ok && bl.Kind == token.STRING {
			s, _ := strconv.Unquote(bl.Value)
			return s
		}
	}
	return ""
}

func lcPrefix(format string) string {
	w := strings.Fields(format)
	if len(w) > 3 {
		w = w[:3]
	}
	return strings.Join(w, " ")
}

// every call in n whose function text is one of names
func lcCalls(c *lcCtx, n ast.Node, names ...string) []*ast.CallExpr {
	var out []*ast.CallExpr
	ast.Inspect(n, func(m ast.Node) bool {
		if call, ok := m.(*ast.CallExpr); ok {
			fn := c.text(call.Fun)
			for _, nm := range names {
				if fn == nm {
					out = append(out, call)
				}
			}
		}
		return true
	})
	return out
}

type lcCall struct {
	c         *lcCtx
	rangeLbl  string // label of the first range loop
	args, ai  string
	ad        string
	facts     []string // extra `def`s
	foldAll   bool
	foldModes []string
}

// classify the statements of one arm
func (lc *lcCall) act(stmts []ast.Stmt) (string, error) {
	c := lc.c
	if len(stmts) == 0 {
		return ".skip", nil
	}
	first := stmts[0]
	txt := make([]string, len(stmts))
	for i, s := range stmts {
		txt[i] = c.text(s)
	}
	switch {
	case len(stmts) == 1:
		if as, ok := first.(*ast.AssignStmt); ok && as.Tok == token.ASSIGN && len(as.Lhs) == 1 && c.text(as.Lhs[0]) == "mode" {
			if id, ok := as.Rhs[0].(*ast.Ident); ok {
				if v, ok := c.ints[id.Name]; ok {
					return fmt.Sprintf(".setMode %d", v), nil
				}
			}
		}
		if br, ok := first.(*ast.BranchStmt); ok && br.Tok == token.BREAK && br.Label != nil && br.Label.Name == lc.rangeLbl {
			return ".stop", nil
		}
		if ifs, ok := first.(*ast.IfStmt); ok && ifs.Init == nil && ifs.Else == nil && len(ifs.Body.List) == 1 {
			if c.text(ifs.Cond) == "!boundHere(ss, ad.Name)" {
				b := c.text(ifs.Body.List[0])
				if b == "ss.Let(Symbol(ad.Name), ad.Default)" || b == "ss.Let(asym, ad.Default)" {
					return ".bindDefault", nil
				}
			}
		}
	case len(stmts) == 2:
		if txt[0] == "ss.Let(Symbol(ad.Name), args[ai])" && txt[1] == "ai++" {
			return ".bindArg", nil
		}
	}
	return "", lcErr(c, first, "arm of the mode machine not understood: %s", strings.Join(txt, "; "))
}

// rows of one `case <mode>:` clause of `switch mode`
func (lc *lcCall) rows(mode int, pass int, body []ast.Stmt) ([]lcRow, error) {
	c := lc.c
	var rows []lcRow
	// `asym := Symbol(ad.Name)` in front of an if chain
	if len(body) == 2 {
		if as, ok := body[0].(*ast.AssignStmt); ok && c.text(as) == "asym := Symbol(ad.Name)" {
			body = body[1:]
		}
	}
	if len(body) >= 1 {
		switch x := body[0].(type) {
		case *ast.SwitchStmt:
			if len(body) != 1 || x.Init != nil || x.Tag == nil {
				break
			}
			tag := c.text(x.Tag)
			switch tag {
			case "strings.ToLower(ad.Name)":
				lc.foldModes = append(lc.foldModes, fmt.Sprintf("(%d, %d, true)", pass, mode))
			case "ad.Name":
				lc.foldModes = append(lc.foldModes, fmt.Sprintf("(%d, %d, false)", pass, mode))
			default:
				return nil, lcErr(c, x, "switch over %s", tag)
			}
			for _, cs := range x.Body.List {
				cc := cs.(*ast.CaseClause)
				var markers []string
				for _, e := range cc.List {
					id, ok := e.(*ast.Ident)
					if !ok || c.strs[id.Name] == "" {
						return nil, lcErr(c, e, "case label %s is not a marker constant", c.text(e))
					}
					markers = append(markers, c.strs[id.Name])
				}
				act, err := lc.act(cc.Body)
				if err != nil {
					return nil, err
				}
				rows = append(rows, lcRow{mode, markers, act})
			}
			return rows, nil
		case *ast.IfStmt:
			// `if AmpAux == asym { … } else if … { … }`: an exact comparison with one marker, then the default arm
			if len(body) != 1 || x.Init != nil {
				break
			}
			cond := c.text(x.Cond)
			var marker string
			folds := false
			for name, v := range c.strs {
				if cond == name+" == asym" || cond == "asym == "+name || cond == "ad.Name == "+name || cond == name+" == ad.Name" {
					marker = v
				}
				// the case-insensitive forms of the same comparison
				if cond == "strings.EqualFold(ad.Name, "+name+")" || cond == "strings.EqualFold("+name+", ad.Name)" ||
					cond == "strings.ToLower(ad.Name) == "+name || cond == name+" == strings.ToLower(ad.Name)" {
					marker, folds = v, true
				}
			}
			if marker == "" {
				break
			}
			lc.foldModes = append(lc.foldModes, fmt.Sprintf("(%d, %d, %v)", pass, mode, folds))
			act, err := lc.act(x.Body.List)
			if err != nil {
				return nil, err
			}
			rows = append(rows, lcRow{mode, []string{marker}, act})
			var rest []ast.Stmt
			switch e := x.Else.(type) {
			case nil:
			case *ast.BlockStmt:
				rest = e.List
			case *ast.IfStmt:
				rest = []ast.Stmt{e}
			}
			act, err = lc.act(rest)
			if err != nil {
				return nil, err
			}
			rows = append(rows, lcRow{mode, nil, act})
			return rows, nil
		case *ast.ForStmt:
			if len(body) != 1 || x.Init != nil || x.Post != nil || x.Cond == nil {
				break
			}
			act, err := lc.loop(x)
			if err != nil {
				return nil, err
			}
			return []lcRow{{mode, nil, act}}, nil
		case *ast.AssignStmt:
			// &aux: val := ad.Default; if list, ok := val.(List); ok && 1 < len(list) { … val = ss.Eval(…) }; ss.Let(Symbol(ad.Name), val)
			if len(body) == 3 && c.text(x) == "val := ad.Default" && c.text(body[2]) == "ss.Let(Symbol(ad.Name), val)" {
				ifs, ok := body[1].(*ast.IfStmt)
				if !ok || ifs.Init == nil || c.text(ifs.Init) != "list, ok := val.(List)" || ifs.Else != nil {
					break
				}
				be, ok := ifs.Cond.(*ast.BinaryExpr)
				if !ok || be.Op != token.LAND || c.text(be.X) != "ok" {
					break
				}
				g, err := lcGuard(c, be.Y)
				if err != nil {
					return nil, err
				}
				evals := false
				for _, s := range ifs.Body.List {
					if as, ok := s.(*ast.AssignStmt); ok && c.text(as.Lhs[0]) == "val" && len(lcCalls(c, as, "ss.Eval")) == 1 && len(lcCalls(c, as, "ListToFunc")) == 1 {
						evals = true
					}
				}
				if !evals {
					break
				}
				lc.facts = append(lc.facts, "/-- `&aux`: a list initial form is evaluated in the new scope when this holds -/\ndef auxEvalGuard : Guard := "+g)
				return []lcRow{{mode, nil, ".bindAux"}}, nil
			}
		}
	}
	var txt []string
	for _, s := range body {
		txt = append(txt, strings.SplitN(c.text(s), "\n", 2)[0])
	}
	return nil, lcErr(c, body[0], "case of the mode machine not understood: %s", strings.Join(txt, "; "))
}

var lcKwTest = regexp.MustCompile(`^ok && 0 < len\(sym\) && sym\[0\] == '(.)'$`)

// the facts of a `for ai < len(args) { … }` loop inside an arm
func (lc *lcCall) loop(f *ast.ForStmt) (string, error) {
	c := lc.c
	cond, err := lcGuard(c, f.Cond)
	if err != nil {
		return "", err
	}
	body := f.Body.List
	if len(body) < 3 || c.text(body[0]) != "a := args[ai]" {
		return "", lcErr(c, f, "loop body does not start with a := args[ai]")
	}
	// the keyword test
	var kwIf *ast.IfStmt
	kwAt := -1
	for i, s := range body {
		if ifs, ok := s.(*ast.IfStmt); ok && ifs.Init != nil && c.text(ifs.Init) == "sym, ok := a.(Symbol)" {
			kwIf, kwAt = ifs, i
			break
		}
	}
	if kwIf == nil || kwIf.Else != nil {
		return "", lcErr(c, f, "no keyword test in the loop")
	}
	m := lcKwTest.FindStringSubmatch(c.text(kwIf.Cond))
	if m == nil {
		return "", lcErr(c, kwIf, "keyword test not understood: %s", c.text(kwIf.Cond))
	}
	kwChar := m[1]
	isRest := false
	for _, s := range body {
		if c.text(s) == "rest = append(rest, a)" {
			isRest = true
		}
	}
	if isRest {
		// a := args[ai]; if keyword { if lam.isKeyParam(string(sym[1:])) { mode = keyMode; break Mode } }; ai++; restSym…; rest = append(rest, a)
		stop, next := false, 0
		if len(kwIf.Body.List) == 1 {
			if in, ok := kwIf.Body.List[0].(*ast.IfStmt); ok && in.Init == nil && in.Else == nil &&
				c.text(in.Cond) == "lam.isKeyParam(string(sym[1:]))" && len(in.Body.List) == 2 {
				if as, ok := in.Body.List[0].(*ast.AssignStmt); ok && c.text(as.Lhs[0]) == "mode" {
					if id, ok := as.Rhs[0].(*ast.Ident); ok {
						if v, ok := c.ints[id.Name]; ok {
							if br, ok := in.Body.List[1].(*ast.BranchStmt); ok && br.Tok == token.BREAK && br.Label != nil && br.Label.Name != lc.rangeLbl {
								stop, next = true, v
							}
						}
					}
				}
			}
		}
		if !stop && len(kwIf.Body.List) != 0 {
			return "", lcErr(c, kwIf, "keyword arm of the &rest loop not understood")
		}
		adv, app, sym := false, false, false
		for _, s := range body[kwAt+1:] {
			switch t := c.text(s); {
			case t == "ai++":
				adv = true
			case t == "rest = append(rest, a)":
				app = true
			case strings.HasPrefix(t, "if len(restSym) == 0 {") && strings.Contains(t, "restSym = Symbol(ad.Name)"):
				sym = true
			default:
				return "", lcErr(c, s, "statement of the &rest loop not understood: %s", strings.SplitN(t, "\n", 2)[0])
			}
		}
		if kwAt != 1 || !sym {
			return "", lcErr(c, f, "shape of the &rest loop changed")
		}
		lc.facts = append(lc.facts, fmt.Sprintf("def restLoop : RestFacts :=\n  { cond := %s, kwChar := '%s', stopOnKnownKey := %v, nextMode := %d, advances := %v, appends := %v }",
			cond, kwChar, stop, next, adv, app))
		return ".restLoop", nil
	}
	// a := args[ai]; ai++; if keyword { sym = sym[1:]; if len(args) <= ai { panic }; if isKeyParam && !boundHere { ss.Let(sym, args[ai]) }; ai++; continue }; TypePanic(…)
	if kwAt != 2 || c.text(body[1]) != "ai++" || len(body) != 4 {
		return "", lcErr(c, f, "shape of the &key loop changed")
	}
	raises := len(lcCalls(c, body[3], "TypePanic")) == 1
	kb := kwIf.Body.List
	if len(kb) != 5 || c.text(kb[0]) != "sym = sym[1:]" || c.text(kb[3]) != "ai++" || c.text(kb[4]) != "continue" {
		return "", lcErr(c, kwIf, "keyword arm of the &key loop not understood")
	}
	mv, ok := kb[1].(*ast.IfStmt)
	if !ok || mv.Init != nil || mv.Else != nil || len(mv.Body.List) != 1 || !strings.HasPrefix(c.text(mv.Body.List[0]), "panic(") {
		return "", lcErr(c, kb[1], "missing value test not understood")
	}
	missing, err := lcGuard(c, mv.Cond)
	if err != nil {
		return "", err
	}
	bind, ok := kb[2].(*ast.IfStmt)
	if !ok || bind.Init != nil || bind.Else != nil || len(bind.Body.List) != 1 || c.text(bind.Body.List[0]) != "ss.Let(sym, args[ai])" {
		// an unguarded binding
		if c.text(kb[2]) != "ss.Let(sym, args[ai])" {
			return "", lcErr(c, kb[2], "binding of the &key loop not understood")
		}
		bind = nil
	}
	known, first := false, false
	if bind != nil {
		for _, conj := range strings.Split(c.text(bind.Cond), " && ") {
			switch conj {
			case "lam.isKeyParam(string(sym))":
				known = true
			case "!boundHere(ss, string(sym))":
				first = true
			default:
				return "", lcErr(c, bind, "guard of the &key binding not understood: %s", conj)
			}
		}
	}
	lc.facts = append(lc.facts, fmt.Sprintf("def keyLoop : KeyFacts :=\n  { cond := %s, kwChar := '%s', missingValue := %s, knownOnly := %v, firstWins := %v, nonKeywordRaises := %v }",
		cond, kwChar, missing, known, first, raises))
	return ".keyLoop", nil
}

func genLambdaCall(repo string) (string, error) {
	c := &lcCtx{fset: token.NewFileSet(), strs: map[string]string{}, ints: map[string]int{}, rename: map[string]string{}}
	parse := func(name string) (*ast.File, error) {
		return parser.ParseFile(c.fset, filepath.Join(repo, name), nil, 0)
	}
	lam, err := parse("lambda.go")
	if err != nil {
		return "", err
	}
	fdoc, err := parse("funcdoc.go")
	if err != nil {
		return "", err
	}
	acc, err := parse("argcounterror.go")
	if err != nil {
		return "", err
	}
	// constants: Amp… strings (funcdoc.go), mode integers (lambda.go; explicit values or iota)
	for _, f := range []*ast.File{fdoc, lam} {
		for _, d := range f.Decls {
			gd, ok := d.(*ast.GenDecl)
			if !ok || gd.Tok != token.CONST {
				continue
			}
			for i, sp := range gd.Specs {
				vs := sp.(*ast.ValueSpec)
				for j, n := range vs.Names {
					if j < len(vs.Values) {
						if bl, ok := vs.Values[j].(*ast.BasicLit); ok {
							switch bl.Kind {
							case token.STRING:
								if s, err := strconv.Unquote(bl.Value); err == nil && strings.HasPrefix(n.Name, "Amp") {
									c.strs[n.Name] = s
								}
							case token.INT:
								if v, err := strconv.Atoi(bl.Value); err == nil {
									c.ints[n.Name] = v
								}
							}
						} else if id, ok := vs.Values[j].(*ast.Ident); ok && id.Name == "iota" {
							c.ints[n.Name] = i
						}
					} else if len(vs.Values) == 0 && strings.HasSuffix(n.Name, "Mode") {
						c.ints[n.Name] = i // continuation of an iota block
					}
				}
			}
		}
	}
	for _, want := range []string{"AmpOptional", "AmpRest", "AmpBody", "AmpKey", "AmpAux", "AmpAllowOtherKeys"} {
		if _, ok := c.strs[want]; !ok {
			return "", fmt.Errorf("funcdoc.go: constant %s not found", want)
		}
	}
	for _, want := range []string{"reqMode", "optMode", "restMode", "keyMode", "auxMode"} {
		if _, ok := c.ints[want]; !ok {
			return "", fmt.Errorf("lambda.go: constant %s not found", want)
		}
	}
	funcs := map[string]*ast.FuncDecl{}
	for _, f := range []*ast.File{lam, acc} {
		for _, d := range f.Decls {
			if fd, ok := d.(*ast.FuncDecl); ok && fd.Body != nil {
				funcs[fd.Name.Name] = fd
			}
		}
	}
	for _, want := range []string{"Call", "requiredCount", "isKeyParam", "boundHere", "DefLambda", "CheckArgCount", "CheckSendArgCount", "minMaxPanic"} {
		if funcs[want] == nil {
			return "", fmt.Errorf("function %s not found", want)
		}
	}

	var b strings.Builder
	b.WriteString("import SlipVerif.Model.LambdaCode\n")
	b.WriteString("/- GENERATED by /verif/extract (lambdacall.go) from lambda.go, argcounterror.go and funcdoc.go — do not edit. -/\n")
	b.WriteString("set_option linter.unusedVariables false\nnamespace SlipVerif.Gen.LambdaCall\nopen SlipVerif.Lambda SlipVerif.LambdaCode\n\n")

	b.WriteString("/-! ### constants -/\n")
	for _, n := range []string{"AmpOptional", "AmpRest", "AmpBody", "AmpKey", "AmpAux", "AmpAllowOtherKeys"} {
		fmt.Fprintf(&b, "def %s : String := %s\n", "a"+n[1:], leanStr(c.strs[n]))
	}
	for _, n := range []string{"reqMode", "optMode", "restMode", "keyMode", "auxMode"} {
		fmt.Fprintf(&b, "def %s : Nat := %d\n", n, c.ints[n])
	}

	b.WriteString("\n/-! ### translated helper functions -/\n")
	for _, n := range []string{"requiredCount", "isKeyParam"} {
		src, err := lcTranslateFunc(c, funcs[n])
		if err != nil {
			return "", err
		}
		b.WriteString("/-- translation of `(*Lambda)." + n + "` -/\n" + src + "\n")
	}
	// boundHere: `_, has = s.Vars[strings.ToLower(name)]` — presence in the scope's own map
	{
		fd := funcs["boundHere"]
		presence := false
		if len(fd.Body.List) == 2 {
			if as, ok := fd.Body.List[0].(*ast.AssignStmt); ok && len(as.Lhs) == 2 && c.text(as.Lhs[0]) == "_" {
				if ix, ok := as.Rhs[0].(*ast.IndexExpr); ok && c.text(ix.X) == "s.Vars" {
					presence = true
				}
			}
		}
		fmt.Fprintf(&b, "/-- `boundHere` tests the presence of the name in the map of the scope itself (not the value, not the parents) -/\ndef boundHereIsPresence : Bool := %v\n\n", presence)
	}
	// CheckArgCount / CheckSendArgCount: the condition of the first `if`
	for _, n := range []string{"CheckArgCount", "CheckSendArgCount"} {
		fd := funcs[n]
		ifs, ok := fd.Body.List[0].(*ast.IfStmt)
		if !ok || ifs.Init != nil {
			return "", lcErr(c, fd, "%s does not start with its range test", n)
		}
		t := &lcTr{c: c, vars: map[string]string{"mn": "mn", "mx": "mx"}, text: map[string]string{"len(args)": "n"}}
		e, err := t.expr(ifs.Cond)
		if err != nil {
			return "", err
		}
		if len(lcCalls(c, ifs.Body, "minMaxPanic")) != 1 {
			return "", lcErr(c, ifs, "%s: the range test does not end in minMaxPanic", n)
		}
		fmt.Fprintf(&b, "/-- translation of the range test of `%s` (n = len(args)): true = the call is rejected -/\ndef %sFails (n mn mx : Int) : Bool :=\n  %s\n\n", n, strings.ToLower(n[:1])+n[1:], e)
	}

	// message prefixes of the argument count conditions
	{
		prefixes := map[string]bool{}
		for _, fn := range []string{"minMaxPanic"} {
			for _, call := range lcCalls(c, funcs[fn], "ErrorPanic", "ErrorNew") {
				prefixes[lcPrefix(lcFormat(call))] = true
			}
		}
		var ps []string
		for p := range prefixes {
			ps = append(ps, p)
		}
		sort.Strings(ps)
		fmt.Fprintf(&b, "/-- first three words of every message minMaxPanic can raise -/\ndef countMessagePrefixes : List String := %s\n\n", leanStrList(ps))
	}

	// ---- Lambda.Call
	call := funcs["Call"]
	if call.Type.Params == nil || len(call.Type.Params.List) < 2 || len(call.Type.Params.List[1].Names) != 1 {
		return "", lcErr(c, call, "Call: parameters")
	}
	lc := &lcCall{c: c}
	c.rename[call.Type.Params.List[1].Names[0].Name] = "args"
	b.WriteString("/-! ### Lambda.Call -/\n")
	var ranges []*ast.RangeStmt
	var rangeAt []int
	for i, s := range call.Body.List {
		st := s
		if ls, ok := st.(*ast.LabeledStmt); ok {
			st = ls.Stmt
			if _, ok := st.(*ast.RangeStmt); ok && len(ranges) == 0 {
				lc.rangeLbl = ls.Label.Name
			}
		}
		if rs, ok := st.(*ast.RangeStmt); ok {
			if c.text(rs.X) != "lam.Doc.Args" || rs.Value == nil {
				return "", lcErr(c, rs, "Call: a loop that does not range over lam.Doc.Args")
			}
			ranges = append(ranges, rs)
			rangeAt = append(rangeAt, i)
		}
	}
	if len(ranges) != 2 {
		return "", lcErr(c, call, "Call: %d range loops over lam.Doc.Args (two passes expected)", len(ranges))
	}
	c.rename[ranges[0].Value.(*ast.Ident).Name] = "ad"
	// pass 1 starts with `if len(args) <= ai { break }`
	p1 := ranges[0].Body.List
	if len(p1) != 2 {
		return "", lcErr(c, ranges[0], "pass 1: exit test and one switch expected")
	}
	exit, ok := p1[0].(*ast.IfStmt)
	if !ok || exit.Init != nil || exit.Else != nil || len(exit.Body.List) != 1 || c.text(exit.Body.List[0]) != "break" {
		return "", lcErr(c, p1[0], "pass 1: exit test not understood")
	}
	if be, ok := exit.Cond.(*ast.BinaryExpr); ok {
		for _, side := range []ast.Expr{be.X, be.Y} {
			if id, ok := side.(*ast.Ident); ok {
				c.rename[id.Name] = "ai"
			}
		}
	}
	exitG, err := lcGuard(c, exit.Cond)
	if err != nil {
		return "", err
	}
	// statements before pass 1: the too-few test, start values
	startMode, startAi := -1, -1
	tooFew, tooFewPrefix, tooFewVia := "", "", ""
	for _, s := range call.Body.List[:rangeAt[0]] {
		switch x := s.(type) {
		case *ast.IfStmt:
			if x.Init != nil && len(lcCalls(c, x.Body, "ErrorPanic")) == 1 && tooFew == "" {
				init, ok := x.Init.(*ast.AssignStmt)
				if !ok || len(init.Lhs) != 1 || len(init.Rhs) != 1 {
					return "", lcErr(c, x, "too-few test: init")
				}
				tooFewVia = c.text(init.Rhs[0])
				c.rename[c.text(init.Lhs[0])] = "req"
				if tooFew, err = lcGuard(c, x.Cond); err != nil {
					return "", err
				}
				tooFewPrefix = lcPrefix(lcFormat(lcCalls(c, x.Body, "ErrorPanic")[0]))
			}
		case *ast.AssignStmt:
			if x.Tok == token.DEFINE && len(x.Lhs) == 1 && len(x.Rhs) == 1 {
				switch c.text(x.Lhs[0]) {
				case "mode":
					if id, ok := x.Rhs[0].(*ast.Ident); ok {
						if v, ok := c.ints[id.Name]; ok {
							startMode = v
						}
					}
				case "ai":
					if v, ok := biInt(x.Rhs[0]); ok {
						startAi = v
					}
				}
			}
		}
	}
	if tooFew == "" || startMode < 0 || startAi < 0 {
		return "", lcErr(c, call, "Call: too-few test or start values of mode/ai not found")
	}
	// statements between the passes: too-many test, rest binding, mode reset
	tooMany, tooManyPrefix, restLet, mode2 := "", "", "", -1
	for _, s := range call.Body.List[rangeAt[0]+1 : rangeAt[1]] {
		switch x := s.(type) {
		case *ast.IfStmt:
			if x.Init != nil || x.Else != nil {
				return "", lcErr(c, x, "between the passes: statement not understood")
			}
			switch {
			case len(lcCalls(c, x.Body, "ErrorPanic")) == 1 && tooMany == "":
				if tooMany, err = lcGuard(c, x.Cond); err != nil {
					return "", err
				}
				tooManyPrefix = lcPrefix(lcFormat(lcCalls(c, x.Body, "ErrorPanic")[0]))
			case len(x.Body.List) == 1 && c.text(x.Body.List[0]) == "ss.Let(restSym, rest)":
				if restLet, err = lcGuard(c, x.Cond); err != nil {
					return "", err
				}
			default:
				return "", lcErr(c, x, "between the passes: test not understood: %s", c.text(x.Cond))
			}
		case *ast.AssignStmt:
			if x.Tok == token.ASSIGN && c.text(x.Lhs[0]) == "mode" {
				if id, ok := x.Rhs[0].(*ast.Ident); ok {
					if v, ok := c.ints[id.Name]; ok {
						mode2 = v
					}
				}
			}
		default:
			return "", lcErr(c, s, "between the passes: statement not understood")
		}
	}
	if tooMany == "" || restLet == "" || mode2 < 0 {
		return "", lcErr(c, call, "Call: too-many test, rest binding or mode reset not found between the passes")
	}
	// after pass 2: return lam.BoundCall(ss, depth)
	tail := call.Body.List[rangeAt[1]+1:]
	if len(tail) != 1 || c.text(tail[0]) != "return lam.BoundCall(ss, depth)" {
		return "", lcErr(c, call, "Call: statements after the second pass")
	}

	passRows := func(pass int, sw ast.Stmt) ([]lcRow, error) {
		if ls, ok := sw.(*ast.LabeledStmt); ok {
			sw = ls.Stmt
		}
		ss, ok := sw.(*ast.SwitchStmt)
		if !ok || ss.Init != nil || ss.Tag == nil || c.text(ss.Tag) != "mode" {
			return nil, lcErr(c, sw, "pass %d: switch mode expected", pass)
		}
		var rows []lcRow
		seen := map[int]bool{}
		for _, cs := range ss.Body.List {
			cc := cs.(*ast.CaseClause)
			if len(cc.List) != 1 {
				return nil, lcErr(c, cc, "pass %d: one mode per case expected", pass)
			}
			id, ok := cc.List[0].(*ast.Ident)
			if !ok {
				return nil, lcErr(c, cc, "pass %d: case label", pass)
			}
			mode, ok := c.ints[id.Name]
			if !ok || seen[mode] {
				return nil, lcErr(c, cc, "pass %d: case label %s", pass, id.Name)
			}
			seen[mode] = true
			rs, err := lc.rows(mode, pass, cc.Body)
			if err != nil {
				return nil, err
			}
			rows = append(rows, rs...)
		}
		return rows, nil
	}
	rows1, err := passRows(1, p1[1])
	if err != nil {
		return "", err
	}
	if len(ranges[1].Body.List) != 1 {
		return "", lcErr(c, ranges[1], "pass 2: one switch expected")
	}
	if v := ranges[1].Value.(*ast.Ident).Name; v != "ad" && c.rename[v] != "ad" {
		c.rename[v] = "ad"
	}
	rows2, err := passRows(2, ranges[1].Body.List[0])
	if err != nil {
		return "", err
	}
	fmt.Fprintf(&b, "/-- `if req := %s; … { ErrorPanic(…) }` -/\ndef tooFew : Guard := %s\ndef tooFewVia : String := %s\ndef tooFewPrefix : String := %s\n",
		tooFewVia, tooFew, leanStr(tooFewVia), leanStr(tooFewPrefix))
	fmt.Fprintf(&b, "def startMode : Nat := %d\ndef startAi : Nat := %d\n", startMode, startAi)
	fmt.Fprintf(&b, "/-- first statement of pass 1: leave the loop -/\ndef loopExit : Guard := %s\n", exitG)
	fmt.Fprintf(&b, "/-- after pass 1 -/\ndef tooMany : Guard := %s\ndef tooManyPrefix : String := %s\n", tooMany, leanStr(tooManyPrefix))
	fmt.Fprintf(&b, "/-- the &rest variable is bound after pass 1 when this holds (else pass 2 gives it its default) -/\ndef restLet : Guard := %s\n", restLet)
	fmt.Fprintf(&b, "def pass2StartMode : Nat := %d\n\n", mode2)
	writeRows := func(name string, rows []lcRow) {
		fmt.Fprintf(&b, "def %s : List Row := [\n", name)
		for i, r := range rows {
			sep := ","
			if i == len(rows)-1 {
				sep = ""
			}
			b.WriteString("  " + r.lean() + sep + "\n")
		}
		b.WriteString("]\n\n")
	}
	writeRows("pass1", rows1)
	writeRows("pass2", rows2)
	fmt.Fprintf(&b, "/-- (pass, mode, the marker comparison folds case) -/\ndef markerFold : List (Nat × Nat × Bool) := [%s]\n\n", strings.Join(lc.foldModes, ", "))
	for _, f := range lc.facts {
		b.WriteString(f + "\n\n")
	}

	// ---- DefLambda: the element grammar
	{
		fd := funcs["DefLambda"]
		var loop *ast.RangeStmt
		for _, s := range fd.Body.List {
			if rs, ok := s.(*ast.RangeStmt); ok && c.text(rs.X) == "ll" {
				loop = rs
			}
		}
		if loop == nil || len(loop.Body.List) != 1 {
			return "", lcErr(c, fd, "DefLambda: loop over the lambda list not found")
		}
		ts, ok := loop.Body.List[0].(*ast.TypeSwitchStmt)
		if !ok {
			return "", lcErr(c, loop, "DefLambda: type switch over the elements expected")
		}
		var kinds []string
		listLen, nilDropped := "", false
		for _, cs := range ts.Body.List {
			cc := cs.(*ast.CaseClause)
			label := "default"
			if cc.List != nil {
				label = c.text(cc.List[0])
			}
			what := "other"
			switch {
			case len(lcCalls(c, cc, "TypePanic")) == 1 && len(cc.Body) == 1:
				what = "type-error"
			case label == "Symbol" && len(cc.Body) == 1 && strings.Contains(c.text(cc.Body[0]), "&DocArg{Name: string(ta)"):
				what = "name"
			case label == "List":
				what = "name-default"
				for _, s := range cc.Body {
					ifs, ok := s.(*ast.IfStmt)
					if !ok {
						continue
					}
					if ifs.Init == nil && strings.HasPrefix(c.text(ifs.Cond), "len(ta)") {
						if listLen, err = lcGuard(c, ifs.Cond); err != nil {
							return "", err
						}
					}
					if ifs.Init == nil && c.text(ifs.Cond) == "ta[1] == nil" && ifs.Else != nil &&
						!strings.Contains(c.text(ifs.Body), "Default") && strings.Contains(c.text(ifs.Else), "Default: ta[1]") {
						nilDropped = true
					}
				}
			}
			kinds = append(kinds, fmt.Sprintf("(%s, %s)", leanStr(label), leanStr(what)))
		}
		fmt.Fprintf(&b, "/-! ### DefLambda -/\n/-- (element type, what DefLambda makes of it) -/\ndef defLambdaElems : List (String × String) := [%s]\n", strings.Join(kinds, ", "))
		if listLen == "" {
			return "", lcErr(c, ts, "DefLambda: length test of a (name default) element not found")
		}
		fmt.Fprintf(&b, "/-- a list element is rejected when this holds -/\ndef defLambdaListLen : Guard := %s\n", listLen)
		fmt.Fprintf(&b, "/-- `(name nil)` is stored like `name`; any other default is stored unevaluated in DocArg.Default -/\ndef defLambdaDefaultStored : Bool := %v\n\n", nilDropped)
	}
	b.WriteString("end SlipVerif.Gen.LambdaCall\n")
	return b.String(), nil
}
