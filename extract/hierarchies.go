package main

// Gen/Hierarchies.lean (C16): the slice literal returned by each Hierarchy() method of the root
// package (package slip) and the built-in class table of pkg/clos/built-in.go (name, direct
// superclass) in registration order.

import (
	"fmt"
	"go/ast"
	"go/parser"
	"go/token"
	"os"
	"path/filepath"
	"sort"
	"strconv"
	"strings"
)

func init() { generators["Hierarchies"] = genHierarchies }

func leanStr(s string) string { return strconv.Quote(s) }

func leanStrList(xs []string) string {
	q := make([]string, len(xs))
	for i, x := range xs {
		q[i] = leanStr(x)
	}
	return "[" + strings.Join(q, ", ") + "]"
}

// symbolCall recognises Symbol("lit").
func symbolCall(e ast.Expr) (string, bool) {
	call, ok := e.(*ast.CallExpr)
	if !ok || len(call.Args) != 1 {
		return "", false
	}
	if id, ok := call.Fun.(*ast.Ident); !ok || id.Name != "Symbol" {
		return "", false
	}
	lit, ok := call.Args[0].(*ast.BasicLit)
	if !ok || lit.Kind != token.STRING {
		return "", false
	}
	s, err := strconv.Unquote(lit.Value)
	return s, err == nil
}

func recvName(fd *ast.FuncDecl) string {
	if fd.Recv == nil || len(fd.Recv.List) != 1 {
		return ""
	}
	t := fd.Recv.List[0].Type
	if st, ok := t.(*ast.StarExpr); ok {
		t = st.X
	}
	if id, ok := t.(*ast.Ident); ok {
		return id.Name
	}
	return ""
}

func genHierarchies(repo string) (string, error) {
	fset := token.NewFileSet()
	files, _ := filepath.Glob(filepath.Join(repo, "*.go"))
	sort.Strings(files)
	var parsed []*ast.File
	consts := map[string]string{} // XSymbol -> "x"
	for _, path := range files {
		if strings.HasSuffix(path, "_test.go") {
			continue
		}
		f, err := parser.ParseFile(fset, path, nil, 0)
		if err != nil {
			return "", err
		}
		if f.Name.Name != "slip" {
			continue
		}
		parsed = append(parsed, f)
		for _, d := range f.Decls {
			gd, ok := d.(*ast.GenDecl)
			if !ok || gd.Tok != token.CONST {
				continue
			}
			for _, sp := range gd.Specs {
				vs := sp.(*ast.ValueSpec)
				for i, n := range vs.Names {
					if i < len(vs.Values) {
						if s, ok := symbolCall(vs.Values[i]); ok {
							consts[n.Name] = s
						}
					}
				}
			}
		}
	}
	type entry struct {
		name string
		syms []string
	}
	var entries []entry
	var dynamic []string
	for _, f := range parsed {
		for _, d := range f.Decls {
			fd, ok := d.(*ast.FuncDecl)
			if !ok || fd.Name.Name != "Hierarchy" || fd.Body == nil {
				continue
			}
			recv := recvName(fd)
			if recv == "" {
				continue
			}
			n := 0
			dyn := false
			ast.Inspect(fd.Body, func(node ast.Node) bool {
				rs, ok := node.(*ast.ReturnStmt)
				if !ok {
					return true
				}
				if len(rs.Results) != 1 {
					dyn = true
					return true
				}
				cl, ok := rs.Results[0].(*ast.CompositeLit)
				if !ok {
					dyn = true
					return true
				}
				var syms []string
				for _, el := range cl.Elts {
					switch te := el.(type) {
					case *ast.Ident:
						if s, has := consts[te.Name]; has {
							syms = append(syms, s)
						} else {
							dyn = true
							return true
						}
					default:
						if s, ok := symbolCall(el); ok {
							syms = append(syms, s)
						} else {
							dyn = true
							return true
						}
					}
				}
				name := recv
				if n > 0 {
					name = fmt.Sprintf("%s#%d", recv, n+1)
				}
				n++
				entries = append(entries, entry{name, syms})
				return true
			})
			if dyn {
				dynamic = append(dynamic, recv)
			}
		}
	}
	sort.Slice(entries, func(i, j int) bool { return entries[i].name < entries[j].name })
	sort.Strings(dynamic)
	if len(entries) < 10 {
		return "", fmt.Errorf("only %d Hierarchy() literals found in %s", len(entries), repo)
	}

	// built-in class table
	bpath := filepath.Join(repo, "pkg", "clos", "built-in.go")
	bf, err := parser.ParseFile(fset, bpath, nil, 0)
	if err != nil {
		return "", err
	}
	type class struct{ name, inherit string }
	vars := map[string]class{} // Go variable -> class
	var order []string         // Go variables in registration order
	for _, d := range bf.Decls {
		switch td := d.(type) {
		case *ast.GenDecl:
			if td.Tok != token.VAR {
				continue
			}
			for _, sp := range td.Specs {
				vs := sp.(*ast.ValueSpec)
				for i, n := range vs.Names {
					if i >= len(vs.Values) {
						continue
					}
					cl, ok := vs.Values[i].(*ast.CompositeLit)
					if !ok {
						continue
					}
					if id, ok := cl.Type.(*ast.Ident); !ok || id.Name != "BuiltInClass" {
						continue
					}
					var c class
					for _, el := range cl.Elts {
						kv, ok := el.(*ast.KeyValueExpr)
						if !ok {
							continue
						}
						k, _ := kv.Key.(*ast.Ident)
						if k == nil {
							continue
						}
						switch k.Name {
						case "name":
							if lit, ok := kv.Value.(*ast.BasicLit); ok {
								c.name, _ = strconv.Unquote(lit.Value)
							}
						case "inherit":
							if ue, ok := kv.Value.(*ast.UnaryExpr); ok {
								if id, ok := ue.X.(*ast.Ident); ok {
									c.inherit = id.Name
								}
							}
						}
					}
					vars[n.Name] = c
				}
			}
		case *ast.FuncDecl:
			if td.Name.Name != "defBuiltIns" || td.Body == nil {
				continue
			}
			ast.Inspect(td.Body, func(node ast.Node) bool {
				cl, ok := node.(*ast.CompositeLit)
				if !ok {
					return true
				}
				for _, el := range cl.Elts {
					if ue, ok := el.(*ast.UnaryExpr); ok {
						if id, ok := ue.X.(*ast.Ident); ok {
							order = append(order, id.Name)
						}
					}
				}
				return false
			})
		}
	}
	if len(order) < 10 {
		return "", fmt.Errorf("built-in class registration list not found in %s", bpath)
	}
	var b strings.Builder
	b.WriteString("/- GENERATED by extract/hierarchies.go from the Hierarchy() methods of package slip and\n   pkg/clos/built-in.go — do not edit. -/\nnamespace SlipVerif.Gen.Hierarchies\n\n")
	b.WriteString("/-- (Go receiver type [#n for a further return], the literal its Hierarchy() returns) -/\ndef hierarchies : List (String × List String) := [\n")
	for i, e := range entries {
		sep := ","
		if i == len(entries)-1 {
			sep = ""
		}
		fmt.Fprintf(&b, "  (%s, %s)%s\n", leanStr(e.name), leanStrList(e.syms), sep)
	}
	b.WriteString("]\n\n/-- receiver types with a Hierarchy() result that is not a literal of constants -/\n")
	fmt.Fprintf(&b, "def dynamic : List String := %s\n\n", leanStrList(dynamic))
	b.WriteString("/-- built-in classes in registration order: (name, direct superclass or \"\") -/\ndef classes : List (String × String) := [\n")
	for i, v := range order {
		c, ok := vars[v]
		if !ok {
			return "", fmt.Errorf("class variable %s registered but not declared", v)
		}
		sup := ""
		if c.inherit != "" {
			sc, ok := vars[c.inherit]
			if !ok {
				return "", fmt.Errorf("class %s inherits undeclared %s", c.name, c.inherit)
			}
			sup = sc.name
		}
		sep := ","
		if i == len(order)-1 {
			sep = ""
		}
		fmt.Fprintf(&b, "  (%s, %s)%s\n", leanStr(c.name), leanStr(sup), sep)
	}
	b.WriteString("]\n\nend SlipVerif.Gen.Hierarchies\n")
	_ = os.Stderr
	return b.String(), nil
}
