package main

// PkgCode: facts about the package-table code of slip (package.go, function.go FindFunc, scope.go
// Scope.get / Scope.Set), regenerated on every run for C13 (Theorems/GenC13.lean).
//
// For every function the generator collects a set of "atoms" — which collections a loop ranges
// over, which flags and owners a condition consults, which tables are written or deleted from,
// how Uses / Users are updated, which inherit helper is called — from the function's own body and,
// one call level deep, from the bodies of the functions of the same files it calls (so that the
// extraction of a helper, a renamed local or reordered statements change nothing). The atoms are
// sets: order and multiplicity do not matter.
//
//	guard:Export guard:PkgEq guard:Locked guard:CurrentPackage guard:private guard:nil guard:Imports
//	    — an if / case condition reads x.Export, compares x.Pkg (or x.Pkg()) with something,
//	      reads x.Locked, mentions CurrentPackage, mentions the identifier private, compares with
//	      nil (or tests the ok of a comma-ok map lookup), indexes x.Imports
//	range:Uses range:Users range:vars range:funcs
//	first:Uses …           — the body of that range loop contains a break or a return
//	write:vars write:funcs — x.vars[k] = …        delete:vars delete:funcs — delete(x.vars, k)
//	reset:vars reset:funcs — x.vars = … (the whole table is replaced)
//	set:Export=true set:Export=false
//	append:Uses append:Users — x.Uses = append(x.Uses, …)
//	remove:Uses remove:Users — x.Uses = append(x.Uses[:i], x.Uses[i+1:]...)
//	call:<name>            — a call of a function / method of the same files; call:Set/3 = with 3 arguments

import (
	"fmt"
	"go/ast"
	"go/parser"
	"go/token"
	"path/filepath"
	"sort"
	"strconv"
	"strings"
)

var pkgCodeFiles = []string{"package.go", "function.go", "scope.go"}

// the functions the obligations talk about: display name -> (file, receiver type or "", name)
var pkgCodeWanted = [][4]string{
	{"Package.Use", "package.go", "Package", "Use"},
	{"Package.Unuse", "package.go", "Package", "Unuse"},
	{"Package.Import", "package.go", "Package", "Import"},
	{"Package.Set", "package.go", "Package", "Set"},
	{"Package.SetIfHas", "package.go", "Package", "SetIfHas"},
	{"Package.Get", "package.go", "Package", "Get"},
	{"Package.Remove", "package.go", "Package", "Remove"},
	{"Package.Define", "package.go", "Package", "Define"},
	{"Package.Export", "package.go", "Package", "Export"},
	{"Package.Unexport", "package.go", "Package", "Unexport"},
	{"Package.Undefine", "package.go", "Package", "Undefine"},
	{"Package.DefLambda", "package.go", "Package", "DefLambda"},
	{"Package.inheritVar", "package.go", "Package", "inheritVar"},
	{"Package.inheritFunc", "package.go", "Package", "inheritFunc"},
	{"FindFunc", "function.go", "", "FindFunc"},
	{"Scope.get", "scope.go", "Scope", "get"},
	{"Scope.Set", "scope.go", "Scope", "Set"},
}

func pkgCodeRecv(fd *ast.FuncDecl) string {
	if fd.Recv == nil || len(fd.Recv.List) == 0 {
		return ""
	}
	t := fd.Recv.List[0].Type
	if st, ok := t.(*ast.StarExpr); ok {
		t = st.X
	}
	if id, ok := t.(*ast.Ident); ok {
		return id.Name
	}
	return "?"
}

func pkgCodeSel(e ast.Expr) string {
	if se, ok := e.(*ast.SelectorExpr); ok {
		return se.Sel.Name
	}
	return ""
}

// pkgCodeCond collects the guard atoms of one condition expression.
func pkgCodeCond(e ast.Expr, add func(string)) {
	ast.Inspect(e, func(n ast.Node) bool {
		switch tn := n.(type) {
		case *ast.SelectorExpr:
			switch tn.Sel.Name {
			case "Export":
				add("guard:Export")
			case "Locked":
				add("guard:Locked")
			case "CurrentPackage":
				add("guard:CurrentPackage")
			}
		case *ast.Ident:
			switch tn.Name {
			case "private":
				add("guard:private")
			case "CurrentPackage":
				add("guard:CurrentPackage")
			}
		case *ast.IndexExpr:
			if pkgCodeSel(tn.X) == "Imports" {
				add("guard:Imports")
			}
		case *ast.BinaryExpr:
			if tn.Op == token.EQL || tn.Op == token.NEQ {
				for _, side := range []ast.Expr{tn.X, tn.Y} {
					if pkgCodeSel(side) == "Pkg" {
						add("guard:PkgEq")
					}
					if ce, ok := side.(*ast.CallExpr); ok && pkgCodeSel(ce.Fun) == "Pkg" {
						add("guard:PkgEq")
					}
					if id, ok := side.(*ast.Ident); ok && id.Name == "nil" {
						add("guard:nil")
					}
				}
			}
		}
		return true
	})
}

// pkgCodeExits: first:<name> when the loop body contains a break or a return
func pkgCodeExits(body *ast.BlockStmt, name string, add func(string)) {
	ast.Inspect(body, func(m ast.Node) bool {
		switch tm := m.(type) {
		case *ast.BranchStmt:
			if tm.Tok == token.BREAK {
				add("first:" + name)
			}
		case *ast.ReturnStmt:
			add("first:" + name)
		case *ast.FuncLit:
			return false
		}
		return true
	})
}

// pkgCodeDirect: the atoms of one function body (no call following) and the names it calls.
func pkgCodeDirect(body *ast.BlockStmt) (atoms map[string]bool, calls map[string]bool) {
	atoms, calls = map[string]bool{}, map[string]bool{}
	add := func(a string) { atoms[a] = true }
	tables := map[string]bool{"vars": true, "funcs": true}
	links := map[string]bool{"Uses": true, "Users": true}
	ast.Inspect(body, func(n ast.Node) bool {
		switch tn := n.(type) {
		case *ast.IfStmt:
			pkgCodeCond(tn.Cond, add)
			if as, ok := tn.Init.(*ast.AssignStmt); ok {
				// if vv := x.vars[k]; vv != nil …   /   if _, has := x.vars[k]; !has …
				for _, r := range as.Rhs {
					pkgCodeCond(r, add)
				}
				if len(as.Lhs) == 2 && len(as.Rhs) == 1 {
					if _, ok := as.Rhs[0].(*ast.IndexExpr); ok {
						add("guard:nil")
					}
				}
			}
		case *ast.CaseClause:
			for _, e := range tn.List {
				pkgCodeCond(e, add)
			}
		case *ast.ForStmt:
			// for i := 0; i < len(x.Uses); i++ { … } counts as a loop over x.Uses
			if tn.Cond != nil {
				ast.Inspect(tn.Cond, func(m ast.Node) bool {
					if ce, ok := m.(*ast.CallExpr); ok {
						if id, ok := ce.Fun.(*ast.Ident); ok && id.Name == "len" && len(ce.Args) == 1 {
							if name := pkgCodeSel(ce.Args[0]); name != "" {
								add("range:" + name)
								pkgCodeExits(tn.Body, name, add)
							}
						}
					}
					return true
				})
			}
		case *ast.RangeStmt:
			if name := pkgCodeSel(tn.X); name != "" {
				add("range:" + name)
				pkgCodeExits(tn.Body, name, add)
			}
		case *ast.AssignStmt:
			for i, l := range tn.Lhs {
				var r ast.Expr
				if i < len(tn.Rhs) {
					r = tn.Rhs[i]
				}
				switch tl := l.(type) {
				case *ast.IndexExpr:
					if name := pkgCodeSel(tl.X); tables[name] {
						add("write:" + name)
					}
				case *ast.SelectorExpr:
					name := tl.Sel.Name
					switch {
					case name == "Export":
						if id, ok := r.(*ast.Ident); ok && (id.Name == "true" || id.Name == "false") {
							add("set:Export=" + id.Name)
						} else {
							add("set:Export=expr")
						}
					case tables[name]:
						add("reset:" + name)
					case links[name]:
						kind := "assign:"
						if ce, ok := r.(*ast.CallExpr); ok {
							if id, ok := ce.Fun.(*ast.Ident); ok && id.Name == "append" && len(ce.Args) >= 2 {
								if _, ok := ce.Args[0].(*ast.SliceExpr); ok {
									kind = "remove:"
								} else if pkgCodeSel(ce.Args[0]) == name {
									kind = "append:"
								}
							}
						}
						add(kind + name)
					}
				}
			}
		case *ast.CompositeLit:
			// FuncInfo{… Export: !doc.NoExport …}
			for _, el := range tn.Elts {
				if kv, ok := el.(*ast.KeyValueExpr); ok {
					if id, ok := kv.Key.(*ast.Ident); ok && id.Name == "Export" {
						add("set:Export=expr")
					}
				}
			}
		case *ast.CallExpr:
			switch fn := tn.Fun.(type) {
			case *ast.Ident:
				if fn.Name == "delete" && len(tn.Args) == 2 {
					if name := pkgCodeSel(tn.Args[0]); tables[name] {
						add("delete:" + name)
					}
				} else {
					calls[fn.Name] = true
				}
			case *ast.SelectorExpr:
				calls[fn.Sel.Name] = true
				if fn.Sel.Name == "Set" {
					add("call:Set/" + strconv.Itoa(len(tn.Args)))
				}
			}
		}
		return true
	})
	return
}

func init() {
	generators["PkgCode"] = func(repo string) (string, error) {
		type fn struct {
			atoms, calls map[string]bool
		}
		decls := map[string]*fn{} // "Recv.Name" or "Name"
		byName := map[string][]string{}
		pkgFileOf := map[string]bool{} // declared in package.go
		for _, rel := range pkgCodeFiles {
			fset := token.NewFileSet()
			file, err := parser.ParseFile(fset, filepath.Join(repo, rel), nil, 0)
			if err != nil {
				return "", err
			}
			for _, d := range file.Decls {
				fd, ok := d.(*ast.FuncDecl)
				if !ok || fd.Body == nil {
					continue
				}
				key := fd.Name.Name
				if r := pkgCodeRecv(fd); r != "" {
					key = r + "." + key
				}
				a, c := pkgCodeDirect(fd.Body)
				decls[key] = &fn{a, c}
				if rel == "package.go" {
					pkgFileOf[key] = true
				}
				byName[fd.Name.Name] = append(byName[fd.Name.Name], key)
			}
		}
		var b strings.Builder
		b.WriteString("/- GENERATED by /verif/extract (pkgcode.go) from package.go, function.go, scope.go — do not edit -/\n")
		b.WriteString("namespace SlipVerif.Gen.PkgCode\n\n")
		b.WriteString("/-- (function, sorted atoms of its body and, one call level deep, of the same-file functions it calls) -/\n")
		b.WriteString("def facts : List (String × List String) := [\n")
		for i, w := range pkgCodeWanted {
			key := w[3]
			if w[2] != "" {
				key = w[2] + "." + w[3]
			}
			f := decls[key]
			if f == nil {
				return "", fmt.Errorf("%s: function %s not found", w[1], key)
			}
			set := map[string]bool{}
			for a := range f.atoms {
				set[a] = true
			}
			for c := range f.calls {
				// methods of Package (and plain functions) of the same files, one level deep; a method
				// name that exists for several receivers is followed for Package only
				var callee *fn
				for _, k := range byName[c] {
					if k == "Package."+c || k == c {
						callee = decls[k]
					}
				}
				if callee == nil || c == w[3] {
					continue
				}
				set["call:"+c] = true
				for a := range callee.atoms {
					set[a] = true
				}
			}
			var as []string
			for a := range set {
				as = append(as, strconv.Quote(a))
			}
			sort.Strings(as)
			sep := ","
			if i == len(pkgCodeWanted)-1 {
				sep = ""
			}
			fmt.Fprintf(&b, "  (%q, [%s])%s\n", w[0], strings.Join(as, ", "), sep)
		}
		b.WriteString("]\n\n")
		// every exported function / method of package.go that (itself or through a same-file function
		// it calls) writes to, deletes from or replaces a vars / funcs table
		var writers []string
		for key, f := range decls {
			if !pkgFileOf[key] {
				continue
			}
			name := key[strings.LastIndex(key, ".")+1:]
			if !ast.IsExported(name) {
				continue
			}
			set := map[string]bool{}
			for a := range f.atoms {
				set[a] = true
			}
			for c := range f.calls {
				for _, k := range byName[c] {
					if (k == "Package."+c || k == c) && c != name {
						for a := range decls[k].atoms {
							set[a] = true
						}
					}
				}
			}
			for _, t := range []string{"vars", "funcs"} {
				if set["write:"+t] || set["delete:"+t] || set["reset:"+t] {
					writers = append(writers, strconv.Quote(key))
					break
				}
			}
		}
		sort.Strings(writers)
		b.WriteString("/-- the exported functions of package.go that (one call level deep) write to, delete from or replace a table -/\n")
		fmt.Fprintf(&b, "def exportedTableWriters : List String := [%s]\n\n", strings.Join(writers, ", "))
		b.WriteString("end SlipVerif.Gen.PkgCode\n")
		return b.String(), nil
	}
}
