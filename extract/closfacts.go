package main

// ClosFacts (C12): small structural facts about the parts of pkg/clos that the hand model mirrors but
// extract/closcode.go does not translate — the initialisation protocol around shared-initialize and
// the slot access paths. Regenerated from the current source on every run; the obligations over them
// are in lean/SlipVerif/Theorems/GenC12.lean.
//
//   makeInstanceCalls   the method / function names called by (*MakeInstance).Call, in source order
//                       (the instance is allocated by MakeInstance, then Init receives the initargs)
//   allocGuard          (*StandardClass).MakeInstance refuses a class whose precedence list is empty
//                       before it touches the slots (condition `len(<recv>.precedence) == 0` whose
//                       body panics, ahead of the call of initObjSlots)
//   initGuards          conditions other than "the function was found" under which
//                       (*StandardObject).Init applies initialize-instance (must be none: every
//                       make-instance goes through the generic function, so that user methods run)
//   initPassesArgs      … and it passes the whole initarg list on
//   sharedGuards / sharedPassesArgs   the same for the default initialize-instance method applying
//                       shared-initialize
//   readerSlot / writerSlot / accessorSlots   which slot the generated :reader / :writer / :accessor
//                       methods are bound to ("own" = the name field of the slot definition they are
//                       generated for)
//   readCall / writeCall   what readSlot.Call / writeSlot.Call do with the instance: the method called
//                       and whether the slot named is the caller's own
//   setCreates          HasSlots.SetSlotValue stores into the slot map only under the "slot is
//                       present" test (a writer never creates a slot)
//
// The facts are written so that renaming a local, a receiver or reordering unrelated statements does
// not change them.

import (
	"fmt"
	"go/ast"
	"go/parser"
	"go/token"
	"go/types"
	"path/filepath"
	"strings"
)

func init() {
	generators["ClosFacts"] = closFacts
}

type closFuncs map[string]*ast.FuncDecl // "Recv.Name" or "Name"

func closParse(repo string, rels ...string) (closFuncs, error) {
	out := closFuncs{}
	for _, rel := range rels {
		fset := token.NewFileSet()
		file, err := parser.ParseFile(fset, filepath.Join(repo, rel), nil, 0)
		if err != nil {
			return nil, err
		}
		for _, d := range file.Decls {
			fd, ok := d.(*ast.FuncDecl)
			if !ok || fd.Body == nil {
				continue
			}
			name := fd.Name.Name
			if fd.Recv != nil && len(fd.Recv.List) == 1 {
				t := fd.Recv.List[0].Type
				if st, ok := t.(*ast.StarExpr); ok {
					t = st.X
				}
				if id, ok := t.(*ast.Ident); ok {
					name = id.Name + "." + name
				}
			}
			out[name] = fd
		}
	}
	return out, nil
}

func closRecv(fd *ast.FuncDecl) string {
	if fd.Recv != nil && len(fd.Recv.List) == 1 && len(fd.Recv.List[0].Names) == 1 {
		return fd.Recv.List[0].Names[0].Name
	}
	return ""
}

func closCallName(c *ast.CallExpr) string {
	switch f := c.Fun.(type) {
	case *ast.Ident:
		return f.Name
	case *ast.SelectorExpr:
		return f.Sel.Name
	}
	return ""
}

// closCallsInOrder: names of the calls in the body, in source order
func closCallsInOrder(fd *ast.FuncDecl) []string {
	var out []string
	ast.Inspect(fd.Body, func(n ast.Node) bool {
		if c, ok := n.(*ast.CallExpr); ok {
			if nm := closCallName(c); nm != "" {
				out = append(out, nm)
			}
		}
		return true
	})
	return out
}

// closApplyOf finds, in fd, the call `<v>.Apply(...)` where v was bound by `v := …FindFunc("<fname>")`
// and returns (found, the conditions enclosing it other than `v != nil`, whether some argument of
// the call mentions `args`: the initarg list is passed on).
func closApplyOf(fd *ast.FuncDecl, fname string) (bool, []string, bool) {
	// the variable
	v := ""
	ast.Inspect(fd.Body, func(n ast.Node) bool {
		as, ok := n.(*ast.AssignStmt)
		if !ok || len(as.Lhs) != 1 || len(as.Rhs) != 1 {
			return true
		}
		c, ok := as.Rhs[0].(*ast.CallExpr)
		if !ok || closCallName(c) != "FindFunc" || len(c.Args) == 0 {
			return true
		}
		if lit, ok := c.Args[0].(*ast.BasicLit); ok && lit.Value == `"`+fname+`"` {
			if id, ok := as.Lhs[0].(*ast.Ident); ok {
				v = id.Name
			}
		}
		return true
	})
	if v == "" {
		return false, nil, false
	}
	found := false
	var guards []string
	passes := false
	// variables assembled from the initarg list (all := append(slip.List{obj}, args); args = append(…, args[1:]...))
	fromArgs := map[string]bool{"args": true}
	ast.Inspect(fd.Body, func(n ast.Node) bool {
		if as, ok := n.(*ast.AssignStmt); ok && len(as.Lhs) == 1 && len(as.Rhs) == 1 {
			if id, ok := as.Lhs[0].(*ast.Ident); ok && strings.Contains(types.ExprString(as.Rhs[0]), "args") {
				fromArgs[id.Name] = true
			}
		}
		return true
	})
	var walk func(n ast.Node, conds []string)
	walkStmts := func(list []ast.Stmt, conds []string) {
		for _, st := range list {
			walk(st, conds)
		}
	}
	walk = func(n ast.Node, conds []string) {
		switch t := n.(type) {
		case nil:
			return
		case *ast.BlockStmt:
			walkStmts(t.List, conds)
		case *ast.IfStmt:
			cond := types.ExprString(t.Cond)
			inner := conds
			if cond != v+" != nil" {
				inner = append(append([]string{}, conds...), cond)
			}
			walk(t.Body, inner)
			if t.Else != nil {
				// the else branch runs under the negated condition
				walk(t.Else, append(append([]string{}, conds...), "!("+cond+")"))
			}
		case *ast.ForStmt:
			walk(t.Body, append(append([]string{}, conds...), "for"))
		case *ast.RangeStmt:
			walk(t.Body, append(append([]string{}, conds...), "range"))
		case *ast.SwitchStmt:
			walk(t.Body, append(append([]string{}, conds...), "switch"))
		case *ast.TypeSwitchStmt:
			walk(t.Body, append(append([]string{}, conds...), "switch"))
		case *ast.CaseClause:
			walkStmts(t.Body, conds)
		default:
			ast.Inspect(n, func(m ast.Node) bool {
				c, ok := m.(*ast.CallExpr)
				if !ok {
					return true
				}
				se, ok := c.Fun.(*ast.SelectorExpr)
				if !ok || se.Sel.Name != "Apply" {
					return true
				}
				if id, ok := se.X.(*ast.Ident); ok && id.Name == v && !found {
					found = true
					guards = conds
					for _, a := range c.Args {
						txt := types.ExprString(a)
						if strings.Contains(txt, "args") || fromArgs[txt] {
							passes = true
						}
					}
				}
				return true
			})
		}
	}
	walk(fd.Body, nil)
	return found, guards, passes
}

// closSlotBinding: the argument texts of the conversions readSlot(x) / writeSlot(x) in fd, with the
// receiver's name field normalised to "own"
func closSlotBinding(fd *ast.FuncDecl) []string {
	recv := closRecv(fd)
	var out []string
	ast.Inspect(fd.Body, func(n ast.Node) bool {
		c, ok := n.(*ast.CallExpr)
		if !ok || len(c.Args) != 1 {
			return true
		}
		id, ok := c.Fun.(*ast.Ident)
		if !ok || (id.Name != "readSlot" && id.Name != "writeSlot") {
			return true
		}
		arg := types.ExprString(c.Args[0])
		if arg == recv+".name" {
			arg = "own"
		}
		out = append(out, id.Name+":"+arg)
		return true
	})
	return out
}

// closAccessCall: in readSlot.Call / writeSlot.Call: "<Method>:<own|other>" for every SlotValue /
// SetSlotValue call (own = the slot named is slip.Symbol(<receiver>))
func closAccessCall(fd *ast.FuncDecl) []string {
	recv := closRecv(fd)
	var out []string
	ast.Inspect(fd.Body, func(n ast.Node) bool {
		c, ok := n.(*ast.CallExpr)
		if !ok {
			return true
		}
		nm := closCallName(c)
		if nm != "SlotValue" && nm != "SetSlotValue" || len(c.Args) == 0 {
			return true
		}
		arg := types.ExprString(c.Args[0])
		which := "other"
		if arg == "slip.Symbol("+recv+")" {
			which = "own"
		}
		out = append(out, nm+":"+which)
		return true
	})
	return out
}

// closSetCreates: true when some assignment to <recv>.vars[…] in fd is NOT inside an if whose
// condition is the presence flag of a lookup in the same map
func closSetCreates(fd *ast.FuncDecl) (stores int, unguarded int) {
	recv := closRecv(fd)
	isVars := func(e ast.Expr) bool {
		ix, ok := e.(*ast.IndexExpr)
		return ok && types.ExprString(ix.X) == recv+".vars"
	}
	var walk func(n ast.Node, guarded bool)
	walk = func(n ast.Node, guarded bool) {
		switch t := n.(type) {
		case nil:
		case *ast.BlockStmt:
			for _, st := range t.List {
				walk(st, guarded)
			}
		case *ast.IfStmt:
			g := guarded
			if as, ok := t.Init.(*ast.AssignStmt); ok && len(as.Lhs) == 2 && len(as.Rhs) == 1 && isVars(as.Rhs[0]) {
				if types.ExprString(t.Cond) == types.ExprString(as.Lhs[1]) {
					g = true
				}
			}
			walk(t.Body, g)
			if t.Else != nil {
				walk(t.Else, guarded)
			}
		case *ast.AssignStmt:
			for _, l := range t.Lhs {
				if isVars(l) {
					stores++
					if !guarded {
						unguarded++
					}
				}
			}
		case *ast.ForStmt:
			walk(t.Body, guarded)
		case *ast.RangeStmt:
			walk(t.Body, guarded)
		}
	}
	walk(fd.Body, false)
	return
}

func closLeanStrings(xs []string) string {
	q := make([]string, len(xs))
	for i, x := range xs {
		q[i] = fmt.Sprintf("%q", x)
	}
	return "[" + strings.Join(q, ", ") + "]"
}

func closFacts(repo string) (string, error) {
	fns, err := closParse(repo, "pkg/clos/make-instance.go", "pkg/clos/standard-class.go", "pkg/clos/standard-object.go",
		"pkg/clos/initialize-instance.go", "pkg/clos/slotdef.go", "pkg/clos/hasslots.go")
	if err != nil {
		return "", err
	}
	need := func(name string) (*ast.FuncDecl, error) {
		fd := fns[name]
		if fd == nil {
			return nil, fmt.Errorf("function %s not found", name)
		}
		return fd, nil
	}
	var b strings.Builder
	b.WriteString("-- GENERATED by extract/closfacts.go from pkg/clos — do not edit\nnamespace SlipVerif.Gen.ClosFacts\n\n")

	mi, err := need("MakeInstance.Call")
	if err != nil {
		return "", err
	}
	var calls []string
	for _, c := range closCallsInOrder(mi) {
		if c == "MakeInstance" || c == "Init" {
			calls = append(calls, c)
		}
	}
	fmt.Fprintf(&b, "def makeInstanceCalls : List String := %s\n", closLeanStrings(calls))

	// allocation guard
	al, err := need("StandardClass.MakeInstance")
	if err != nil {
		return "", err
	}
	recv := closRecv(al)
	guard := false
	seenInit := false
	for _, st := range al.Body.List {
		if ifs, ok := st.(*ast.IfStmt); ok && !seenInit {
			cond := strings.ReplaceAll(types.ExprString(ifs.Cond), " ", "")
			if cond == "len("+recv+".precedence)==0" || cond == "0==len("+recv+".precedence)" || cond == "!"+recv+".Ready()" {
				panics := false
				ast.Inspect(ifs.Body, func(n ast.Node) bool {
					if c, ok := n.(*ast.CallExpr); ok && strings.Contains(closCallName(c), "Panic") {
						panics = true
					}
					if c, ok := n.(*ast.CallExpr); ok && closCallName(c) == "panic" {
						panics = true
					}
					return true
				})
				guard = guard || panics
			}
		}
		ast.Inspect(st, func(n ast.Node) bool {
			if c, ok := n.(*ast.CallExpr); ok && closCallName(c) == "initObjSlots" {
				seenInit = true
			}
			return true
		})
	}
	fmt.Fprintf(&b, "def allocGuard : Bool := %v\n", guard && seenInit)

	in, err := need("StandardObject.Init")
	if err != nil {
		return "", err
	}
	found, guards, passes := closApplyOf(in, "initialize-instance")
	fmt.Fprintf(&b, "def initApplies : Bool := %v\ndef initGuards : List String := %s\ndef initPassesArgs : Bool := %v\n",
		found, closLeanStrings(guards), passes)

	di, err := need("defaultInitializeInstanceCaller.Call")
	if err != nil {
		return "", err
	}
	found, guards, passes = closApplyOf(di, "shared-initialize")
	fmt.Fprintf(&b, "def sharedApplies : Bool := %v\ndef sharedGuards : List String := %s\ndef sharedPassesArgs : Bool := %v\n",
		found, closLeanStrings(guards), passes)

	for _, p := range [][2]string{{"SlotDef.defReaderMethods", "readerSlot"}, {"SlotDef.defWriterMethods", "writerSlot"}, {"SlotDef.defAccessorMethods", "accessorSlots"}} {
		fd, err := need(p[0])
		if err != nil {
			return "", err
		}
		fmt.Fprintf(&b, "def %s : List String := %s\n", p[1], closLeanStrings(closSlotBinding(fd)))
	}
	for _, p := range [][2]string{{"readSlot.Call", "readCall"}, {"writeSlot.Call", "writeCall"}} {
		fd, err := need(p[0])
		if err != nil {
			return "", err
		}
		fmt.Fprintf(&b, "def %s : List String := %s\n", p[1], closLeanStrings(closAccessCall(fd)))
	}
	ss, err := need("HasSlots.SetSlotValue")
	if err != nil {
		return "", err
	}
	stores, unguarded := closSetCreates(ss)
	fmt.Fprintf(&b, "def setStores : Nat := %d\ndef setUnguardedStores : Nat := %d\n", stores, unguarded)
	b.WriteString("\nend SlipVerif.Gen.ClosFacts\n")
	return b.String(), nil
}
