package main

// C04 — Gen/Builtins.lean: for every `slip.Define(creator, &slip.FuncDoc{Name:…, Args: []*slip.DocArg{…}} …)`
// in the repository root and pkg/**, the documented lambda list (argument names including the
// &optional/&rest/&key/&body/&aux/&allow-other-keys markers) paired with the literal
// `CheckArgCount(s, depth, f, args, min, max)` bounds found in the Call method of the type the
// creator instantiates. go/ast only.

import (
	"encoding/json"
	"fmt"
	"go/ast"
	"go/parser"
	"go/token"
	"os"
	"path/filepath"
	"sort"
	"strconv"
	"strings"
)

func init() { generators["Builtins"] = genBuiltins }

type biEntry struct {
	Pkg    string // go package directory relative to the repository ("." for the root)
	Name   string // documented function name
	Type   string // struct type instantiated by the creator
	Doc    []string
	Min    int
	Max    int
	Checks int // number of literal CheckArgCount calls in Call
	File   string
	Line   int
}

var ampConsts = map[string]string{
	"AmpBody": "&body", "AmpKey": "&key", "AmpOptional": "&optional", "AmpRest": "&rest",
	"AmpAux": "&aux", "AmpAllowOtherKeys": "&allow-other-keys",
}

func biStr(e ast.Expr, consts map[string]string) (string, bool) {
	switch t := e.(type) {
	case *ast.BasicLit:
		if t.Kind == token.STRING {
			s, err := strconv.Unquote(t.Value)
			return s, err == nil
		}
	case *ast.SelectorExpr:
		if v, ok := ampConsts[t.Sel.Name]; ok {
			return v, true
		}
	case *ast.Ident:
		if v, ok := ampConsts[t.Name]; ok {
			return v, true
		}
		if v, ok := consts[t.Name]; ok {
			return v, true
		}
	case *ast.ParenExpr:
		return biStr(t.X, consts)
	}
	return "", false
}

func biInt(e ast.Expr) (int, bool) {
	switch t := e.(type) {
	case *ast.BasicLit:
		if t.Kind == token.INT {
			n, err := strconv.Atoi(t.Value)
			return n, err == nil
		}
	case *ast.UnaryExpr:
		if t.Op == token.SUB {
			n, ok := biInt(t.X)
			return -n, ok
		}
	case *ast.ParenExpr:
		return biInt(t.X)
	}
	return 0, false
}

func biIsSel(e ast.Expr, name string) bool {
	switch t := e.(type) {
	case *ast.SelectorExpr:
		return t.Sel.Name == name
	case *ast.Ident:
		return t.Name == name
	}
	return false
}

// the FuncDoc composite literal (possibly behind &)
func biFuncDoc(e ast.Expr) *ast.CompositeLit {
	if u, ok := e.(*ast.UnaryExpr); ok && u.Op == token.AND {
		e = u.X
	}
	cl, ok := e.(*ast.CompositeLit)
	if !ok || !biIsSel(cl.Type, "FuncDoc") {
		return nil
	}
	return cl
}

// the struct type instantiated in a creator func literal: the first composite literal whose
// type is a plain identifier and that has a `Function:` field.
func biCreatorType(fn ast.Expr) string {
	fl, ok := fn.(*ast.FuncLit)
	if !ok {
		return ""
	}
	name := ""
	ast.Inspect(fl.Body, func(n ast.Node) bool {
		if name != "" {
			return false
		}
		if cl, ok := n.(*ast.CompositeLit); ok {
			if id, ok := cl.Type.(*ast.Ident); ok {
				for _, el := range cl.Elts {
					if kv, ok := el.(*ast.KeyValueExpr); ok {
						if k, ok := kv.Key.(*ast.Ident); ok && k.Name == "Function" {
							name = id.Name
							return false
						}
					}
				}
			}
		}
		return true
	})
	return name
}

type biCheck struct {
	min, max int
	n        int // literal CheckArgCount calls
	nonlit   int // CheckArgCount calls whose bounds are not literals
}

func genBuiltins(repo string) (string, error) {
	var dirs []string
	dirs = append(dirs, repo)
	err := filepath.Walk(filepath.Join(repo, "pkg"), func(p string, info os.FileInfo, err error) error {
		if err != nil {
			return err
		}
		if info.IsDir() {
			dirs = append(dirs, p)
		}
		return nil
	})
	if err != nil {
		return "", err
	}
	sort.Strings(dirs)
	var entries []biEntry
	var unpaired []string
	ndefine := 0
	for _, dir := range dirs {
		fset := token.NewFileSet()
		files, _ := filepath.Glob(filepath.Join(dir, "*.go"))
		sort.Strings(files)
		var parsed []*ast.File
		for _, f := range files {
			if strings.HasSuffix(f, "_test.go") {
				continue
			}
			af, err := parser.ParseFile(fset, f, nil, 0)
			if err != nil {
				return "", fmt.Errorf("%s: %v", f, err)
			}
			parsed = append(parsed, af)
		}
		rel, _ := filepath.Rel(repo, dir)
		// string constants of the package (used for argument names now and then)
		consts := map[string]string{}
		for _, af := range parsed {
			for _, d := range af.Decls {
				gd, ok := d.(*ast.GenDecl)
				if !ok || gd.Tok != token.CONST {
					continue
				}
				for _, sp := range gd.Specs {
					vs := sp.(*ast.ValueSpec)
					for i, n := range vs.Names {
						if i < len(vs.Values) {
							if s, ok := biStr(vs.Values[i], nil); ok {
								consts[n.Name] = s
							}
						}
					}
				}
			}
		}
		// package-level functions with a single literal CheckArgCount on one of their parameters:
		// name -> (index of that parameter, check)
		type helperCheck struct {
			param int
			ck    *biCheck
		}
		helpers := map[string]helperCheck{}
		for _, af := range parsed {
			for _, d := range af.Decls {
				fd, ok := d.(*ast.FuncDecl)
				if !ok || fd.Recv != nil || fd.Body == nil || fd.Type.Params == nil {
					continue
				}
				var pnames []string
				for _, f := range fd.Type.Params.List {
					for _, n := range f.Names {
						pnames = append(pnames, n.Name)
					}
				}
				ck := &biCheck{}
				param := -1
				ast.Inspect(fd.Body, func(n ast.Node) bool {
					if _, ok := n.(*ast.FuncLit); ok {
						return false
					}
					ce, ok := n.(*ast.CallExpr)
					if !ok || !biIsSel(ce.Fun, "CheckArgCount") || len(ce.Args) != 6 {
						return true
					}
					id, ok := ce.Args[3].(*ast.Ident)
					if !ok {
						ck.nonlit++
						return true
					}
					at := -1
					for i, pn := range pnames {
						if pn == id.Name {
							at = i
						}
					}
					mn, ok1 := biInt(ce.Args[4])
					mx, ok2 := biInt(ce.Args[5])
					if at < 0 || !ok1 || !ok2 {
						ck.nonlit++
						return true
					}
					if ck.n == 0 {
						ck.min, ck.max, param = mn, mx, at
					}
					ck.n++
					return true
				})
				if ck.n == 1 && ck.nonlit == 0 {
					helpers[fd.Name.Name] = helperCheck{param, ck}
				}
			}
		}
		// Call methods: receiver type -> checks
		checks := map[string]*biCheck{}
		via := map[string]string{} // receiver type -> helper whose check counts for the Call
		for _, af := range parsed {
			for _, d := range af.Decls {
				fd, ok := d.(*ast.FuncDecl)
				if !ok || fd.Recv == nil || fd.Name.Name != "Call" || fd.Body == nil || len(fd.Recv.List) != 1 {
					continue
				}
				rt := fd.Recv.List[0].Type
				if st, ok := rt.(*ast.StarExpr); ok {
					rt = st.X
				}
				id, ok := rt.(*ast.Ident)
				if !ok {
					continue
				}
				ck := &biCheck{}
				ast.Inspect(fd.Body, func(n ast.Node) bool {
					if _, ok := n.(*ast.FuncLit); ok {
						return false // nested closures are not the entry check
					}
					ce, ok := n.(*ast.CallExpr)
					if !ok || !biIsSel(ce.Fun, "CheckArgCount") || len(ce.Args) != 6 {
						return true
					}
					mn, ok1 := biInt(ce.Args[4])
					mx, ok2 := biInt(ce.Args[5])
					if ok1 && ok2 {
						if ck.n == 0 {
							ck.min, ck.max = mn, mx
						}
						ck.n++
					} else {
						ck.nonlit++
					}
					return true
				})
				if ck.n == 0 && ck.nonlit == 0 && fd.Type.Params != nil && len(fd.Type.Params.List) >= 2 && len(fd.Type.Params.List[1].Names) == 1 {
					// no check of its own: follow the package functions the Call hands its argument
					// vector to, one level deep
					argsName := fd.Type.Params.List[1].Names[0].Name
					var found []string
					ast.Inspect(fd.Body, func(n ast.Node) bool {
						if _, ok := n.(*ast.FuncLit); ok {
							return false
						}
						ce, ok := n.(*ast.CallExpr)
						if !ok {
							return true
						}
						fn, ok := ce.Fun.(*ast.Ident)
						if !ok {
							return true
						}
						h, ok := helpers[fn.Name]
						if !ok || h.param >= len(ce.Args) {
							return true
						}
						if a, ok := ce.Args[h.param].(*ast.Ident); ok && a.Name == argsName {
							found = append(found, fn.Name)
						}
						return true
					})
					if len(found) == 1 {
						h := helpers[found[0]]
						ck = &biCheck{min: h.ck.min, max: h.ck.max, n: 1}
						via[id.Name] = found[0]
					}
				}
				checks[id.Name] = ck
			}
		}
		// Define calls
		for _, af := range parsed {
			ast.Inspect(af, func(n ast.Node) bool {
				ce, ok := n.(*ast.CallExpr)
				if !ok || !biIsSel(ce.Fun, "Define") || len(ce.Args) < 2 {
					return true
				}
				doc := biFuncDoc(ce.Args[1])
				if doc == nil {
					return true
				}
				ndefine++
				var name string
				var args []string
				argsOk := true
				for _, el := range doc.Elts {
					kv, ok := el.(*ast.KeyValueExpr)
					if !ok {
						continue
					}
					k, _ := kv.Key.(*ast.Ident)
					if k == nil {
						continue
					}
					switch k.Name {
					case "Name":
						name, _ = biStr(kv.Value, consts)
					case "Args":
						al, ok := kv.Value.(*ast.CompositeLit)
						if !ok {
							argsOk = false
							break
						}
						for _, ae := range al.Elts {
							if u, ok := ae.(*ast.UnaryExpr); ok && u.Op == token.AND {
								ae = u.X
							}
							acl, ok := ae.(*ast.CompositeLit)
							if !ok {
								argsOk = false
								continue
							}
							an, found := "", false
							for _, fe := range acl.Elts {
								if fkv, ok := fe.(*ast.KeyValueExpr); ok {
									if fk, ok := fkv.Key.(*ast.Ident); ok && fk.Name == "Name" {
										an, found = biStr(fkv.Value, consts)
									}
								}
							}
							if !found {
								argsOk = false
							}
							args = append(args, an)
						}
					}
				}
				pos := fset.Position(ce.Pos())
				relf, _ := filepath.Rel(repo, pos.Filename)
				where := fmt.Sprintf("%s:%d", relf, pos.Line)
				if name == "" || !argsOk {
					unpaired = append(unpaired, fmt.Sprintf("%s %s: doc not literal", name, where))
					return true
				}
				tn := biCreatorType(ce.Args[0])
				ck := checks[tn]
				switch {
				case tn == "":
					unpaired = append(unpaired, fmt.Sprintf("%s %s: creator type not found", name, where))
				case ck == nil:
					unpaired = append(unpaired, fmt.Sprintf("%s %s: no Call method for %s in the package", name, where, tn))
				case ck.n == 0 && ck.nonlit == 0 && len(args) == 2 && (args[0] == "&rest" || args[0] == "&body"):
					// no argument count check anywhere in Call and a documented list that is one &rest
					// parameter: every count is accepted, which is what the documentation says
					entries = append(entries, biEntry{Pkg: rel, Name: name, Type: tn, Doc: args, Min: 0, Max: -1,
						Checks: 0, File: relf, Line: pos.Line})
				case ck.n == 0 && ck.nonlit == 0:
					unpaired = append(unpaired, fmt.Sprintf("%s %s: no CheckArgCount in %s.Call", name, where, tn))
				case ck.n == 0:
					unpaired = append(unpaired, fmt.Sprintf("%s %s: CheckArgCount bounds in %s.Call are not literals", name, where, tn))
				case ck.n > 1 || ck.nonlit > 0:
					unpaired = append(unpaired, fmt.Sprintf("%s %s: %d CheckArgCount calls in %s.Call", name, where, ck.n+ck.nonlit, tn))
				default:
					t := tn
					if h := via[tn]; h != "" {
						t = tn + " via " + h
					}
					entries = append(entries, biEntry{Pkg: rel, Name: name, Type: t, Doc: args, Min: ck.min, Max: ck.max,
						Checks: ck.n, File: relf, Line: pos.Line})
				}
				return true
			})
		}
	}
	sort.Slice(entries, func(i, j int) bool {
		if entries[i].Pkg != entries[j].Pkg {
			return entries[i].Pkg < entries[j].Pkg
		}
		if entries[i].Name != entries[j].Name {
			return entries[i].Name < entries[j].Name
		}
		return entries[i].File < entries[j].File
	})
	sort.Strings(unpaired)

	// exception list: built-ins named in findings/C04.json (signature "builtin=<pkg>:<name> …")
	exc := map[string]bool{}
	if b, err := os.ReadFile(filepath.Join("..", "findings", "C04.json")); err == nil {
		var f struct {
			Findings []struct {
				Signature string `json:"signature"`
			} `json:"findings"`
		}
		if err := json.Unmarshal(b, &f); err != nil {
			return "", fmt.Errorf("findings/C04.json: %v", err)
		}
		for _, fd := range f.Findings {
			if strings.HasPrefix(fd.Signature, "builtin=") {
				w := strings.Fields(fd.Signature)[0]
				exc[strings.TrimPrefix(w, "builtin=")] = true
			}
		}
	}
	var excs []string
	for k := range exc {
		excs = append(excs, k)
	}
	sort.Strings(excs)

	var sb strings.Builder
	sb.WriteString("/- GENERATED by /verif/extract (builtins.go) from the repository sources — do not edit.\n")
	sb.WriteString("   One entry per slip.Define whose FuncDoc literal could be paired with exactly one literal\n")
	sb.WriteString("   CheckArgCount(min,max) in the Call method of the type its creator instantiates. -/\n")
	sb.WriteString("namespace SlipVerif.Gen.Builtins\n\n")
	sb.WriteString("structure Entry where\n  name : String\n  doc : List String\n  min : Nat\n  max : Option Nat\n\n")
	fmt.Fprintf(&sb, "def defineCount : Nat := %d\n\n", ndefine)
	sb.WriteString("def entries : List Entry := [\n")
	for i, e := range entries {
		var ds []string
		for _, d := range e.Doc {
			ds = append(ds, strconv.Quote(d))
		}
		mx := "none"
		if e.Max >= 0 {
			mx = fmt.Sprintf("some %d", e.Max)
		}
		mn := e.Min
		if mn < 0 {
			mn = 0
		}
		sep := ","
		if i == len(entries)-1 {
			sep = ""
		}
		fmt.Fprintf(&sb, "  ⟨%s, [%s], %d, %s⟩%s  -- %s:%d %s\n", strconv.Quote(biKey(e)), strings.Join(ds, ", "), mn, mx, sep, e.File, e.Line, e.Type)
	}
	sb.WriteString("]\n\n")
	sb.WriteString("/-- built-ins named by a known finding (findings/C04.json): excused from the static obligation -/\n")
	sb.WriteString("def exceptions : List String := [")
	for i, k := range excs {
		if i > 0 {
			sb.WriteString(", ")
		}
		sb.WriteString(strconv.Quote(k))
	}
	sb.WriteString("]\n\n")
	sb.WriteString("/- Define calls not paired statically (covered by the dynamic sweep only):\n")
	for _, u := range unpaired {
		sb.WriteString("   " + strings.ReplaceAll(u, "-/", "- /") + "\n")
	}
	sb.WriteString("-/\n")
	fmt.Fprintf(&sb, "def unpairedCount : Nat := %d\n\n", len(unpaired))
	sb.WriteString("end SlipVerif.Gen.Builtins\n")
	return sb.String(), nil
}

// biKey is the name used in signatures and in the exception list: <package dir base>:<name>.
func biKey(e biEntry) string {
	p := filepath.Base(e.Pkg)
	if e.Pkg == "." {
		p = "slip"
	}
	return p + ":" + strings.ToLower(e.Name)
}
