package main

// Gen/PrinterCode.lean (property C03): a translation of the printer's straight-line code into Lean
// definitions. Every function the model of C03 transcribes by hand — the `Readably` methods of
// Fixnum, *Bignum, *Ratio, Symbol, String, Character, `appendBarred`, `Character.Append`, the
// `nil` / `List` / `*Array` / `*Vector` / `Tail` cases of `Printer.Append`, `caseName` — is walked
// statement by statement (go/ast) and emitted as a function from the values its branches test
// (p.Radix, p.Base, p.Array, the byte, the rank …) to the list of pieces it appends.
// `Theorems/GenC03.lean` proves, for all inputs, that interpreting the translated pieces gives the
// text of the hand-written model (`printInt`, `printRatio`, `barEsc`, `printChr`, `printStr`,
// `needsBar`, `printVec`, `printArr` …), so the refinement is re-checked against what the code says
// now on every run. Also emitted: the number regexes of the reader, the order of the cases of
// `resolveToken`, the float exponent markers on both sides, the default printer settings.
//
// The translator understands a small vocabulary (append of literals, strconv.AppendInt,
// (*big.Int).Append, if / switch / for-range-with-early-return, goto Top); anything else is an
// error (EXTRACT-FAILED → the tie is reported broken), never a guess.

import (
	"bytes"
	"fmt"
	"go/ast"
	"go/parser"
	"go/printer"
	"go/token"
	"path/filepath"
	"regexp"
	"sort"
	"strconv"
	"strings"
)

func init() { generators["PrinterCode"] = genPrinterCode }

// pcCtx is the vocabulary of one translated function.
type pcCtx struct {
	fn    string            // for messages
	conds map[string]string // Go condition expression -> Lean proposition
	tags  map[string]string // Go switch tag expression -> Lean variable
	ints  map[string]string // Go integer expression (bases) -> Lean term
	quant map[string]string // Go expression of a quantity whose digits are appended -> Q constructor
	byteV string            // name of the byte / rune variable in comparisons ("c", "obj"), "" if none
	skip  map[string]bool   // statements (as text) that are bookkeeping only
	rets  map[string]string // `return <expr>` -> pieces
	stmts map[string]string // whole statements (as text) -> pieces
	elems map[string]string // single arguments of append(b, x, y) -> piece
	wrap  string            // format of the whole term (an early return handled by the caller)
}

// exprStr: the source text of an expression as gofmt prints it, on one line.
func exprStr(e ast.Node) string {
	if e == nil {
		return ""
	}
	return strings.Join(strings.Fields(nodeText(e)), " ")
}

func (c *pcCtx) errf(format string, a ...any) error {
	return fmt.Errorf("%s: "+format, append([]any{c.fn}, a...)...)
}

func leanCodes(s string) string {
	vals := make([]int, 0, len(s))
	for i := 0; i < len(s); i++ {
		vals = append(vals, int(s[i]))
	}
	return leanNatList(vals)
}

// pcIntLit evaluates an integer or character literal.
func pcIntLit(e ast.Expr) (int, bool) {
	switch te := e.(type) {
	case *ast.BasicLit:
		switch te.Kind {
		case token.INT:
			n, err := strconv.ParseInt(te.Value, 0, 64)
			return int(n), err == nil
		case token.CHAR:
			s, err := strconv.Unquote(te.Value)
			if err != nil || len([]rune(s)) != 1 {
				return 0, false
			}
			return int([]rune(s)[0]), true
		}
	case *ast.ParenExpr:
		return pcIntLit(te.X)
	case *ast.UnaryExpr:
		if te.Op == token.SUB {
			n, ok := pcIntLit(te.X)
			return -n, ok
		}
	}
	return 0, false
}

// cond translates a Go condition into a decidable Lean proposition.
func (c *pcCtx) cond(e ast.Expr) (string, error) {
	if s, ok := c.conds[exprStr(e)]; ok {
		return s, nil
	}
	switch te := e.(type) {
	case *ast.ParenExpr:
		s, err := c.cond(te.X)
		return "(" + s + ")", err
	case *ast.UnaryExpr:
		if te.Op == token.NOT {
			s, err := c.cond(te.X)
			return "¬ (" + s + ")", err
		}
	case *ast.BinaryExpr:
		switch te.Op {
		case token.LAND, token.LOR:
			l, err := c.cond(te.X)
			if err != nil {
				return "", err
			}
			r, err := c.cond(te.Y)
			if err != nil {
				return "", err
			}
			op := " ∧ "
			if te.Op == token.LOR {
				op = " ∨ "
			}
			return "(" + l + op + r + ")", nil
		case token.EQL, token.NEQ, token.LSS, token.LEQ, token.GTR, token.GEQ:
			l, err := c.num(te.X)
			if err != nil {
				return "", err
			}
			r, err := c.num(te.Y)
			if err != nil {
				return "", err
			}
			op := map[token.Token]string{token.EQL: "=", token.NEQ: "≠", token.LSS: "<", token.LEQ: "≤", token.GTR: ">", token.GEQ: "≥"}[te.Op]
			return l + " " + op + " " + r, nil
		}
	}
	return "", c.errf("condition not understood: %s", exprStr(e))
}

// num translates an integer-valued operand of a comparison.
func (c *pcCtx) num(e ast.Expr) (string, error) {
	if n, ok := pcIntLit(e); ok && n >= 0 {
		return strconv.Itoa(n), nil
	}
	s := exprStr(e)
	if v, ok := c.ints[s]; ok {
		return v, nil
	}
	if v, ok := c.tags[s]; ok {
		return v, nil
	}
	if c.byteV != "" && s == c.byteV {
		return "c", nil
	}
	return "", c.errf("operand not understood: %s", s)
}

// appendCall recognises `append(b, …)` and returns its pieces.
func (c *pcCtx) appendCall(call *ast.CallExpr) (string, bool, error) {
	if id, ok := call.Fun.(*ast.Ident); !ok || id.Name != "append" || len(call.Args) < 2 || exprStr(call.Args[0]) != "b" {
		return "", false, nil
	}
	if call.Ellipsis.IsValid() {
		if len(call.Args) != 2 {
			return "", true, c.errf("append with ellipsis and %d arguments", len(call.Args))
		}
		a := call.Args[1]
		if s, err := stringConst(a); err == nil {
			return "[.lit " + leanCodes(s) + "]", true, nil
		}
		if p, ok := c.elems[exprStr(a)+"..."]; ok {
			return "[" + p + "]", true, nil
		}
		return "", true, c.errf("appended slice not understood: %s", exprStr(a))
	}
	var pieces []string
	var lit []int
	flush := func() {
		if len(lit) > 0 {
			pieces = append(pieces, ".lit "+leanNatList(lit))
			lit = nil
		}
	}
	for _, a := range call.Args[1:] {
		if n, ok := pcIntLit(a); ok && n >= 0 && n < 256 {
			lit = append(lit, n)
			continue
		}
		flush()
		s := exprStr(a)
		if c.byteV != "" && s == c.byteV {
			pieces = append(pieces, ".byte")
			continue
		}
		if p, ok := c.elems[s]; ok {
			pieces = append(pieces, p)
			continue
		}
		return "", true, c.errf("appended element not understood: %s", s)
	}
	flush()
	return "[" + strings.Join(pieces, ", ") + "]", true, nil
}

// value translates the right-hand side of `b = <expr>` / the operand of `return <expr>`.
func (c *pcCtx) value(e ast.Expr) (string, error) {
	s := exprStr(e)
	if p, ok := c.rets[s]; ok {
		return p, nil
	}
	call, ok := e.(*ast.CallExpr)
	if !ok {
		return "", c.errf("value not understood: %s", s)
	}
	if p, isAppend, err := c.appendCall(call); isAppend {
		return p, err
	}
	fun := exprStr(call.Fun)
	switch {
	case fun == "strconv.AppendInt" && len(call.Args) == 3 && exprStr(call.Args[0]) == "b":
		q, ok := c.quant[exprStr(call.Args[1])]
		if !ok {
			return "", c.errf("strconv.AppendInt of %s", exprStr(call.Args[1]))
		}
		base, err := c.num(call.Args[2])
		if err != nil {
			return "", err
		}
		return fmt.Sprintf("[.dig .%s %s]", q, base), nil
	case strings.HasSuffix(fun, ".Append") && len(call.Args) == 2 && exprStr(call.Args[0]) == "b":
		q, ok := c.quant[strings.TrimSuffix(fun, ".Append")]
		if !ok {
			return "", c.errf("Append of %s", fun)
		}
		base, err := c.num(call.Args[1])
		if err != nil {
			return "", err
		}
		return fmt.Sprintf("[.dig .%s %s]", q, base), nil
	}
	return "", c.errf("call not understood: %s", s)
}

func endsInJump(list []ast.Stmt) bool {
	if len(list) == 0 {
		return false
	}
	switch s := list[len(list)-1].(type) {
	case *ast.ReturnStmt:
		return true
	case *ast.BranchStmt:
		return s.Tok == token.GOTO
	}
	return false
}

// block translates a statement list followed by the continuation `rest` (already translated; ""
// when the list is the tail of the function). The result is a Lean term of type `List P`.
func (c *pcCtx) block(list []ast.Stmt, rest string) (string, error) {
	if len(list) == 0 {
		if rest == "" {
			return "[]", nil
		}
		return rest, nil
	}
	join := func(a, b string) string {
		if b == "" || b == "[]" {
			return a
		}
		if a == "[]" {
			return b
		}
		return a + " ++ " + b
	}
	st := list[0]
	text := strings.Join(strings.Fields(nodeText(st)), " ")
	if c.skip[text] {
		return c.block(list[1:], rest)
	}
	if p, ok := c.stmts[text]; ok {
		tail, err := c.block(list[1:], rest)
		return join(p, tail), err
	}
	switch s := st.(type) {
	case *ast.AssignStmt:
		if len(s.Lhs) == 1 && len(s.Rhs) == 1 && exprStr(s.Lhs[0]) == "b" && s.Tok == token.ASSIGN {
			p, err := c.value(s.Rhs[0])
			if err != nil {
				return "", err
			}
			tail, err := c.block(list[1:], rest)
			return join(p, tail), err
		}
	case *ast.ReturnStmt:
		if len(s.Results) == 1 {
			if exprStr(s.Results[0]) == "b" {
				return "[]", nil
			}
			return c.value(s.Results[0])
		}
	case *ast.BranchStmt:
		if s.Tok == token.GOTO {
			return "[.again]", nil
		}
	case *ast.IfStmt:
		if s.Init != nil {
			return "", c.errf("if with an initialiser: %s", text)
		}
		cd, err := c.cond(s.Cond)
		if err != nil {
			return "", err
		}
		var els []ast.Stmt
		switch e := s.Else.(type) {
		case nil:
		case *ast.BlockStmt:
			els = e.List
		case *ast.IfStmt:
			els = []ast.Stmt{e}
		default:
			return "", c.errf("else not understood")
		}
		tail, err := c.block(list[1:], rest)
		if err != nil {
			return "", err
		}
		if hasJump(s.Body.List) || hasJump(els) {
			// a branch may leave the function: the continuation goes into both branches (a return
			// or goto drops it)
			th, err := c.block(s.Body.List, tail)
			if err != nil {
				return "", err
			}
			el, err := c.block(els, tail)
			if err != nil {
				return "", err
			}
			return fmt.Sprintf("(if %s then %s else %s)", cd, th, el), nil
		}
		th, err := c.block(s.Body.List, "")
		if err != nil {
			return "", err
		}
		el, err := c.block(els, "")
		if err != nil {
			return "", err
		}
		return join(fmt.Sprintf("(if %s then %s else %s)", cd, th, el), tail), nil
	case *ast.SwitchStmt:
		if s.Init != nil {
			return "", c.errf("switch with an initialiser")
		}
		tag := ""
		if s.Tag != nil {
			t, ok := c.tags[exprStr(s.Tag)]
			if !ok {
				return "", c.errf("switch tag not understood: %s", exprStr(s.Tag))
			}
			tag = t
		}
		tail, err := c.block(list[1:], rest)
		if err != nil {
			return "", err
		}
		inner := ""
		for _, cl := range s.Body.List {
			if hasJump(cl.(*ast.CaseClause).Body) {
				inner = tail
			}
		}
		def := inner
		if def == "" {
			def = "[]"
		}
		type arm struct{ cond, body string }
		var arms []arm
		for _, cl := range s.Body.List {
			cc := cl.(*ast.CaseClause)
			for _, st := range cc.Body {
				if bs, ok := st.(*ast.BranchStmt); ok && bs.Tok == token.FALLTHROUGH {
					return "", c.errf("fallthrough")
				}
			}
			body, err := c.block(cc.Body, inner)
			if err != nil {
				return "", err
			}
			if cc.List == nil {
				def = body
				continue
			}
			cd, err := c.caseCond(tag, cc.List)
			if err != nil {
				return "", err
			}
			arms = append(arms, arm{cd, body})
		}
		out := def
		for i := len(arms) - 1; i >= 0; i-- {
			out = fmt.Sprintf("(if %s then %s else %s)", arms[i].cond, arms[i].body, out)
		}
		if inner == "" {
			return join(out, tail), nil
		}
		return out, nil
	case *ast.RangeStmt:
		// for i, c := range <bytes> { if COND { return R } }  =  "some byte satisfies COND"
		if len(s.Body.List) == 1 {
			if is, ok := s.Body.List[0].(*ast.IfStmt); ok && is.Else == nil && is.Init == nil && endsInJump(is.Body.List) {
				k, v := exprStr(s.Key), exprStr(s.Value)
				if _, ok := c.elems["range "+exprStr(s.X)]; ok && k == "i" {
					old := c.byteV
					c.byteV = v
					cd, err := c.cond(is.Cond)
					c.byteV = old
					if err != nil {
						return "", err
					}
					th, err := c.block(is.Body.List, "")
					if err != nil {
						return "", err
					}
					tail, err := c.block(list[1:], rest)
					if err != nil {
						return "", err
					}
					return fmt.Sprintf("(if anyIdx (fun i c => decide (%s)) bytes 0 = true then %s else %s)", cd, th, tail), nil
				}
			}
		}
	}
	return "", c.errf("statement not understood: %s", text)
}

func (c *pcCtx) caseCond(tag string, list []ast.Expr) (string, error) {
	var alts []string
	for _, e := range list {
		if tag == "" {
			cd, err := c.cond(e)
			if err != nil {
				return "", err
			}
			alts = append(alts, cd)
			continue
		}
		n, ok := pcIntLit(e)
		if !ok || n < 0 {
			return "", c.errf("case value not understood: %s", exprStr(e))
		}
		alts = append(alts, fmt.Sprintf("%s = %d", tag, n))
	}
	if len(alts) == 1 {
		return alts[0], nil
	}
	return "(" + strings.Join(alts, " ∨ ") + ")", nil
}

var pcFset *token.FileSet

// nodeText prints a node without comments (the files are parsed without them).
func nodeText(n ast.Node) string {
	var buf bytes.Buffer
	_ = printer.Fprint(&buf, pcFset, n)
	return buf.String()
}

func hasJump(list []ast.Stmt) bool {
	found := false
	for _, s := range list {
		ast.Inspect(s, func(n ast.Node) bool {
			switch t := n.(type) {
			case *ast.ReturnStmt:
				found = true
			case *ast.BranchStmt:
				if t.Tok == token.GOTO {
					found = true
				}
			}
			return !found
		})
	}
	return found
}

// pcFindFunc returns the declaration of a function, or of the method of a receiver type.
func pcFindFunc(f *ast.File, recv, name string) *ast.FuncDecl {
	for _, d := range f.Decls {
		fd, ok := d.(*ast.FuncDecl)
		if !ok || fd.Name.Name != name {
			continue
		}
		if recv == "" && fd.Recv == nil {
			return fd
		}
		if recv != "" && fd.Recv != nil && len(fd.Recv.List) == 1 && exprStr(fd.Recv.List[0].Type) == recv {
			return fd
		}
	}
	return nil
}

const pcPreamble = `/- GENERATED by extract/printercode.go from printer.go, fixnum.go, bignum.go, ratio.go, symbol.go,
   string.go, character.go, code.go, singlefloat.go, doublefloat.go, longfloat.go of the repository —
   do not edit. The printer's straight-line code translated statement by statement: every function
   maps the values its branches test to the list of pieces it appends. -/
namespace SlipVerif.Gen.PrinterCode

/-- a quantity whose digits are appended: the integer itself, p.Base, numerator, denominator,
    len(to.dims), the length / first dimension -/
inductive Q where
  | obj | pbase | num | den | rank | len
deriving DecidableEq, Repr

/-- one appended piece -/
inductive P where
  | lit (codes : List Nat)       -- append(b, "…"...) / append(b, 'x', 'y')
  | dig (q : Q) (base : Nat)     -- strconv.AppendInt(b, q, base) / (*big.Int)(q).Append(b, base)
  | bignumOfNum                  -- (*Bignum)((*big.Rat)(obj).Num()).Readably(b, p)
  | cased (codes : List Nat)     -- p.caseName("…")
  | byte                         -- the byte at hand
  | hexHi | hexLo                -- hexChars[c>>4], hexChars[c&0x0f]
  | rune                         -- utf8.EncodeRune of the character
  | special                      -- specialCharacters[rune(obj)]
  | selfAppend                   -- obj.Append(b)
  | json                         -- ojg.AppendJSONString(b, string(obj), false)
  | raw                          -- append(b, obj...)
  | barredName                   -- appendBarred(b, p.caseName(string(obj)))
  | bareName                     -- append(b, p.caseName(string(obj))...)
  | again                        -- obj = …; goto Top
  | joinDims (sep : List Nat)    -- every dimension through p.Append(b, Fixnum(d), 0), separated
  | joinElems (sep ellipsis : List Nat) -- every element through p.Append, separated (… past *print-length*)
  | tree                         -- p.appendTree(b, p.createTree(to, 0), 0, 0)
deriving DecidableEq, Repr

/-- "for i, c := range bytes { if cond i c { return … } }" -/
def anyIdx (p : Nat → Nat → Bool) : List Nat → Nat → Bool
  | [], _ => false
  | c :: cs, i => p i c || anyIdx p cs (i + 1)

`

func genPrinterCode(repo string) (string, error) {
	pcFset = token.NewFileSet()
	files := map[string]*ast.File{}
	parse := func(name string) (*ast.File, error) {
		if f, ok := files[name]; ok {
			return f, nil
		}
		f, err := parser.ParseFile(pcFset, filepath.Join(repo, name), nil, 0)
		if err == nil {
			files[name] = f
		}
		return f, err
	}
	var b strings.Builder
	b.WriteString(pcPreamble)

	emit := func(file, recv, name, leanName, params, doc string, ctx *pcCtx, body func(fd *ast.FuncDecl) ([]ast.Stmt, error)) error {
		f, err := parse(file)
		if err != nil {
			return err
		}
		fd := pcFindFunc(f, recv, name)
		if fd == nil || fd.Body == nil {
			return fmt.Errorf("%s: func %s %s not found", file, recv, name)
		}
		ctx.fn = file + ": " + strings.TrimSpace(recv+" "+name)
		stmts := fd.Body.List
		if body != nil {
			if stmts, err = body(fd); err != nil {
				return fmt.Errorf("%s: %v", ctx.fn, err)
			}
		}
		term, err := ctx.block(stmts, "")
		if err != nil {
			return err
		}
		if ctx.wrap != "" {
			term = fmt.Sprintf(ctx.wrap, term)
		}
		fmt.Fprintf(&b, "/-- %s: %s -/\ndef %s %s : List P :=\n  %s\n\n", file, doc, leanName, params, term)
		return nil
	}

	// ---- numbers -------------------------------------------------------------------------
	numCtx := func() *pcCtx {
		return &pcCtx{
			conds: map[string]string{"p.Radix": "radix = true", "(*big.Rat)(obj).IsInt()": "isInt = true"},
			tags:  map[string]string{"p.Base": "base"},
			ints:  map[string]string{"int(p.Base)": "base"},
			quant: map[string]string{"int64(obj)": "obj", "int64(p.Base)": "pbase", "(*big.Int)(obj)": "obj",
				"(*big.Rat)(obj).Num()": "num", "(*big.Rat)(obj).Denom()": "den"},
			rets: map[string]string{"(*Bignum)((*big.Rat)(obj).Num()).Readably(b, p)": "[.bignumOfNum]"},
		}
	}
	if err := emit("fixnum.go", "Fixnum", "Readably", "fixnumReadably", "(radix : Bool) (base : Nat)", "`func (obj Fixnum) Readably`", numCtx(), nil); err != nil {
		return "", err
	}
	if err := emit("bignum.go", "*Bignum", "Readably", "bignumReadably", "(radix : Bool) (base : Nat)", "`func (obj *Bignum) Readably`", numCtx(), nil); err != nil {
		return "", err
	}
	if err := emit("ratio.go", "*Ratio", "Readably", "ratioReadably", "(isInt radix : Bool) (base : Nat)", "`func (obj *Ratio) Readably`", numCtx(), nil); err != nil {
		return "", err
	}

	// ---- symbols -------------------------------------------------------------------------
	symCtx := &pcCtx{
		conds: map[string]string{
			"len(obj) == 0":                           "bytes = []",
			"needPipeMap[c] == 'x'":                   "pipeAt c = 120",
			"numberToken(string(obj), 10)":            "num 10 = true",
			"numberToken(string(obj), int(p.Base))":   "num base = true",
			"p.Base != 10":                            "base ≠ 10",
		},
		ints:  map[string]string{"i": "i"},
		elems: map[string]string{"range []byte(obj)": "", "p.caseName(string(obj))...": ".bareName"},
		rets:  map[string]string{"appendBarred(b, p.caseName(string(obj)))": "[.barredName]"},
	}
	if err := emit("symbol.go", "Symbol", "Readably", "symbolReadably", "(pipeAt : Nat → Nat) (num : Nat → Bool) (base : Nat) (bytes : List Nat)",
		"`func (obj Symbol) Readably`; `pipeAt` = needPipeMap, `num b` = numberToken(name, b), `bytes` = []byte(obj)", symCtx, nil); err != nil {
		return "", err
	}
	// appendBarred: '|', per byte the switch, '|'
	barCtx := &pcCtx{byteV: "c", elems: map[string]string{"hexChars[c>>4]": ".hexHi", "hexChars[c&0x0f]": ".hexLo"}}
	var barOpen, barClose string
	if err := emit("symbol.go", "", "appendBarred", "barredByte", "(c : Nat)", "`appendBarred`: what is written for one byte of the name", barCtx,
		func(fd *ast.FuncDecl) ([]ast.Stmt, error) {
			l := fd.Body.List
			if len(l) != 3 {
				return nil, fmt.Errorf("expected three statements (open, loop, close)")
			}
			as, ok := l[0].(*ast.AssignStmt)
			if !ok || len(as.Rhs) != 1 {
				return nil, fmt.Errorf("opening bar not found")
			}
			p, err := barCtx.value(as.Rhs[0])
			if err != nil {
				return nil, err
			}
			barOpen = p
			rs, ok := l[2].(*ast.ReturnStmt)
			if !ok || len(rs.Results) != 1 {
				return nil, fmt.Errorf("closing bar not found")
			}
			if barClose, err = barCtx.value(rs.Results[0]); err != nil {
				return nil, err
			}
			loop, ok := l[1].(*ast.RangeStmt)
			if !ok || exprStr(loop.Value) != "c" || exprStr(loop.X) != "[]byte(name)" {
				return nil, fmt.Errorf("loop over the bytes of the name not found")
			}
			return loop.Body.List, nil
		}); err != nil {
		return "", err
	}
	fmt.Fprintf(&b, "/-- symbol.go `appendBarred`: what is written before and after the name -/\ndef barredOpen : List P := %s\ndef barredClose : List P := %s\n\n", barOpen, barClose)

	// ---- strings -------------------------------------------------------------------------
	strCtx := &pcCtx{
		conds: map[string]string{"p.Readably": "readably = true"},
		rets:  map[string]string{"ojg.AppendJSONString(b, string(obj), false)": "[.json]"},
		elems: map[string]string{"obj...": ".raw"},
	}
	if err := emit("string.go", "String", "Readably", "stringReadably", "(readably : Bool)", "`func (obj String) Readably`", strCtx, nil); err != nil {
		return "", err
	}

	// ---- characters ----------------------------------------------------------------------
	chrCtx := &pcCtx{
		byteV: "obj",
		conds: map[string]string{"p.Escape": "escape = true"},
		elems: map[string]string{"hexChars[obj>>4]": ".hexHi", "hexChars[obj&0x000f]": ".hexLo", "hexChars[obj&0x0f]": ".hexLo",
			"encoded[:n]...": ".rune", "string([]rune{rune(obj)})...": ".rune"},
		skip:  map[string]bool{"encoded := make([]byte, 4)": true, "n := utf8.EncodeRune(encoded, rune(obj))": true},
		rets:  map[string]string{"obj.Append(b)": "[.selfAppend]"},
	}
	// the special-character lookup is an early return: translate the rest under "not special"
	if err := emit("character.go", "Character", "Append", "characterAppend", "(special : Bool) (c : Nat)",
		"`func (obj Character) Append`; `special` = the character has an entry in specialCharacters", chrCtx,
		func(fd *ast.FuncDecl) ([]ast.Stmt, error) {
			l := fd.Body.List
			if len(l) == 0 {
				return nil, fmt.Errorf("empty body")
			}
			text := strings.Join(strings.Fields(nodeText(l[0])), " ")
			if text != "if s := specialCharacters[rune(obj)]; 0 < len(s) { return append(b, s...) }" {
				return nil, fmt.Errorf("special-character lookup not found: %s", text)
			}
			chrCtx.wrap = "if special = true then [.special] else %s"
			return l[1:], nil
		}); err != nil {
		return "", err
	}
	chrCtx.wrap = ""
	if err := emit("character.go", "Character", "Readably", "characterReadably", "(escape : Bool)", "`func (obj Character) Readably`", chrCtx, nil); err != nil {
		return "", err
	}

	// ---- Printer.Append: the cases of the type switch the model covers ---------------------------
	prGo, err := parse("printer.go")
	if err != nil {
		return "", err
	}
	app := pcFindFunc(prGo, "*Printer", "Append")
	if app == nil {
		return "", fmt.Errorf("printer.go: func (p *Printer) Append not found")
	}
	var ts *ast.TypeSwitchStmt
	ast.Inspect(app.Body, func(n ast.Node) bool {
		if t, ok := n.(*ast.TypeSwitchStmt); ok && ts == nil {
			ts = t
		}
		return ts == nil
	})
	if ts == nil {
		return "", fmt.Errorf("printer.go: Printer.Append has no type switch")
	}
	clause := map[string]*ast.CaseClause{}
	var order []string
	for _, cl := range ts.Body.List {
		cc := cl.(*ast.CaseClause)
		name := "default"
		if cc.List != nil {
			var ns []string
			for _, e := range cc.List {
				ns = append(ns, exprStr(e))
			}
			name = strings.Join(ns, ",")
		}
		clause[name] = cc
		order = append(order, name)
	}
	appCtx := func() *pcCtx {
		return &pcCtx{
			conds: map[string]string{"p.Array": "array = true", "p.Pretty": "pretty = true", "len(to) == 0": "empty = true",
				"int(p.Level) <= level": "levelHit = true", "0 < to.Length()": "nonEmpty = true"},
			tags:  map[string]string{"len(to.dims)": "rank"},
			quant: map[string]string{"int64(len(to.dims))": "rank"},
			skip:  map[string]bool{"obj = to.AsList()": true, "obj = to.Value": true, "l2 := level + 1": true},
			rets: map[string]string{"p.appendTree(b, p.createTree(to, 0), 0, 0)": "[.tree]",
				"p.Append(b, Fixnum(to.dims[0]), 0)": "[.dig .len 0]", "p.Append(b, Fixnum(len(to)), 0)": "[.dig .len 0]",
				"to.Readably(b, p)": "[.selfAppend]"},
			elems: map[string]string{"p.caseName(\"nil\")...": ".cased " + leanCodes("nil")},
			stmts: map[string]string{
				"for i, d := range to.dims { if 0 < i { b = append(b, ' ') } b = p.Append(b, Fixnum(d), 0) }":                                                                  "[.joinDims [32]]",
				"for i, element := range to { if 0 < i { b = append(b, ' ') } if int(p.Length) <= i { b = append(b, \"...\"...) break } b = p.Append(b, element, l2) }": "[.joinElems [32] [46, 46, 46]]",
			},
		}
	}
	emitCase := func(goCase, leanName, params, doc string) error {
		cc := clause[goCase]
		if cc == nil {
			return fmt.Errorf("printer.go: Printer.Append has no case %s", goCase)
		}
		ctx := appCtx()
		ctx.fn = "printer.go: Printer.Append case " + goCase
		term, err := ctx.block(cc.Body, "")
		if err != nil {
			return err
		}
		fmt.Fprintf(&b, "/-- printer.go `Printer.Append`, %s -/\ndef %s %s : List P :=\n  %s\n\n", doc, leanName, params, term)
		return nil
	}
	if err := emitCase("nil", "appendNil", "", "`case nil`"); err != nil {
		return "", err
	}
	if err := emitCase("List", "appendList", "(empty levelHit pretty : Bool)", "`case List`"); err != nil {
		return "", err
	}
	if err := emitCase("*Array", "appendArray", "(array : Bool) (rank : Nat)", "`case *Array`"); err != nil {
		return "", err
	}
	if err := emitCase("*Vector", "appendVector", "(array nonEmpty : Bool)", "`case *Vector`"); err != nil {
		return "", err
	}
	if err := emitCase("Tail", "appendTail", "", "`case Tail`"); err != nil {
		return "", err
	}
	if err := emitCase("Readble", "appendReadble", "", "`case Readble`: the per-type `Readably` method"); err != nil {
		// b = to.Readably(b, p)
		return "", err
	}
	// the order of the cases (a type switch takes the first case that matches)
	fmt.Fprintf(&b, "/-- printer.go `Printer.Append`: position of each case of the type switch (first match wins) -/\ndef appendCaseOrder : List (List Nat) :=\n  [")
	for i, n := range order {
		if i > 0 {
			b.WriteString(",\n   ")
		}
		b.WriteString(leanCodes(n))
	}
	b.WriteString("]\n\n")

	// ---- caseName -----------------------------------------------------------------------------
	cn := pcFindFunc(prGo, "*Printer", "caseName")
	if cn == nil {
		return "", fmt.Errorf("printer.go: caseName not found")
	}
	caseOps, err := pcCaseName(cn)
	if err != nil {
		return "", err
	}
	b.WriteString(caseOps)

	// ---- default printer settings ----------------------------------------------------------------
	defs, err := pcPrinterDefaults(prGo)
	if err != nil {
		return "", err
	}
	b.WriteString(defs)

	// ---- reader: number regexes, order of resolveToken, float cases ---------------------------------
	codeGo, err := parse("code.go")
	if err != nil {
		return "", err
	}
	rx, err := pcRegexes(codeGo)
	if err != nil {
		return "", err
	}
	b.WriteString(rx)
	symGo, _ := parse("symbol.go")
	nt, err := pcNumberToken(symGo)
	if err != nil {
		return "", err
	}
	b.WriteString(nt)
	rt, err := pcResolveToken(codeGo)
	if err != nil {
		return "", err
	}
	b.WriteString(rt)
	for _, ff := range []struct{ file, recv, lean string }{{"singlefloat.go", "SingleFloat", "singleFloatPrint"}, {"doublefloat.go", "DoubleFloat", "doubleFloatPrint"}} {
		f, err := parse(ff.file)
		if err != nil {
			return "", err
		}
		s, err := pcFloatReadably(f, ff.file, ff.recv, ff.lean)
		if err != nil {
			return "", err
		}
		b.WriteString(s)
	}
	lf, err := parse("longfloat.go")
	if err != nil {
		return "", err
	}
	ls, err := pcLongReadably(lf)
	if err != nil {
		return "", err
	}
	b.WriteString(ls)
	chGo, _ := parse("character.go")
	hc := findValue(chGo, "hexChars")
	if hc == nil {
		return "", fmt.Errorf("character.go: hexChars not found")
	}
	hs, err := stringConst(hc)
	if err != nil {
		return "", fmt.Errorf("character.go: hexChars: %v", err)
	}
	fmt.Fprintf(&b, "/-- character.go `hexChars` -/\ndef hexChars : List Nat := %s\n\n", leanCodes(hs))
	b.WriteString("end SlipVerif.Gen.PrinterCode\n")
	return b.String(), nil
}

// pcCaseName: `switch p.Case { case upcaseKey: name = strings.ToUpper(name) … }` as a list of
// (key, operations); operations: 1 = strings.ToUpper, 2 = strings.ToLower, 3 = upper-case the first rune.
func pcCaseName(fd *ast.FuncDecl) (string, error) {
	var sw *ast.SwitchStmt
	for _, st := range fd.Body.List {
		if s, ok := st.(*ast.SwitchStmt); ok {
			sw = s
		}
	}
	if sw == nil || exprStr(sw.Tag) != "p.Case" {
		return "", fmt.Errorf("printer.go: caseName: switch p.Case not found")
	}
	keyCode := map[string]int{"downcaseKey": 0, "upcaseKey": 1, "capitalizeKey": 2}
	type row struct {
		key int
		ops []int
	}
	var rows []row
	for _, cl := range sw.Body.List {
		cc := cl.(*ast.CaseClause)
		if len(cc.List) != 1 {
			return "", fmt.Errorf("printer.go: caseName: case with %d values", len(cc.List))
		}
		k, ok := keyCode[exprStr(cc.List[0])]
		if !ok {
			return "", fmt.Errorf("printer.go: caseName: unknown key %s", exprStr(cc.List[0]))
		}
		var ops []int
		text := ""
		for _, st := range cc.Body {
			text += strings.Join(strings.Fields(nodeText(st)), " ") + "; "
		}
		rest := text
		for rest != "" {
			switch {
			case strings.HasPrefix(rest, "name = strings.ToUpper(name); "):
				ops = append(ops, 1)
				rest = strings.TrimPrefix(rest, "name = strings.ToUpper(name); ")
			case strings.HasPrefix(rest, "name = strings.ToLower(name); "):
				ops = append(ops, 2)
				rest = strings.TrimPrefix(rest, "name = strings.ToLower(name); ")
			case strings.HasPrefix(rest, "rn := []rune(name); rn[0] = unicode.ToUpper(rn[0]); name = string(rn); "):
				ops = append(ops, 3)
				rest = strings.TrimPrefix(rest, "rn := []rune(name); rn[0] = unicode.ToUpper(rn[0]); name = string(rn); ")
			default:
				return "", fmt.Errorf("printer.go: caseName: statements not understood: %s", rest)
			}
		}
		rows = append(rows, row{k, ops})
	}
	sort.Slice(rows, func(i, j int) bool { return rows[i].key < rows[j].key })
	var b strings.Builder
	b.WriteString("/-- printer.go `caseName`: (key, operations) with key 0 = :downcase, 1 = :upcase, 2 = :capitalize and\n    operation 1 = strings.ToUpper, 2 = strings.ToLower, 3 = upper-case the first rune; any other value of\n    p.Case leaves the name as it is -/\ndef caseNameOps : List (Nat × List Nat) :=\n  [")
	for i, r := range rows {
		if i > 0 {
			b.WriteString(", ")
		}
		fmt.Fprintf(&b, "(%d, %s)", r.key, leanNatList(r.ops))
	}
	b.WriteString("]\n\n")
	return b.String(), nil
}

// pcPrinterDefaults: the literal `printer = Printer{…}`.
func pcPrinterDefaults(f *ast.File) (string, error) {
	lit, _ := findValue(f, "printer").(*ast.CompositeLit)
	if lit == nil {
		return "", fmt.Errorf("printer.go: var printer = Printer{…} not found")
	}
	vals := map[string]string{}
	for _, el := range lit.Elts {
		kv, ok := el.(*ast.KeyValueExpr)
		if !ok {
			return "", fmt.Errorf("printer.go: printer literal: positional element")
		}
		vals[exprStr(kv.Key)] = exprStr(kv.Value)
	}
	need := func(k string) (string, error) {
		v, ok := vals[k]
		if !ok {
			return "", fmt.Errorf("printer.go: printer literal has no field %s", k)
		}
		return v, nil
	}
	var b strings.Builder
	b.WriteString("/-- printer.go `printer = Printer{…}`: the defaults the harness' configurations start from -/\n")
	base, err := need("Base")
	if err != nil {
		return "", err
	}
	if _, err := strconv.Atoi(base); err != nil {
		return "", fmt.Errorf("printer.go: default Base %s", base)
	}
	fmt.Fprintf(&b, "def defaultBase : Nat := %s\n", base)
	prec, err := need("Prec")
	if err != nil {
		return "", err
	}
	pi, err := strconv.Atoi(prec)
	if err != nil {
		return "", fmt.Errorf("printer.go: default Prec %s", prec)
	}
	fmt.Fprintf(&b, "def defaultPrec : Int := %d\n", pi)
	for _, k := range []string{"Escape", "Radix", "Readably", "Array", "Pretty", "ReadablyError"} {
		v, err := need(k)
		if err != nil {
			return "", err
		}
		if v != "true" && v != "false" {
			return "", fmt.Errorf("printer.go: default %s = %s", k, v)
		}
		fmt.Fprintf(&b, "def default%s : Bool := %s\n", k, v)
	}
	cs, err := need("Case")
	if err != nil {
		return "", err
	}
	code, ok := map[string]int{"downcaseKey": 0, "upcaseKey": 1, "capitalizeKey": 2, "nil": 3}[cs]
	if !ok {
		return "", fmt.Errorf("printer.go: default Case %s", cs)
	}
	fmt.Fprintf(&b, "def defaultCase : Nat := %d\n", code)
	for _, k := range []string{"Length", "Level", "Lines"} {
		v, err := need(k)
		if err != nil {
			return "", err
		}
		fmt.Fprintf(&b, "def default%sUnlimited : Bool := %v\n", k, v == "math.MaxInt")
	}
	b.WriteString("\n")
	return b.String(), nil
}

func rxSource(e ast.Expr) (string, error) {
	call, ok := e.(*ast.CallExpr)
	if !ok || exprStr(call.Fun) != "regexp.MustCompile" || len(call.Args) != 1 {
		return "", fmt.Errorf("not a regexp.MustCompile call: %s", exprStr(e))
	}
	return stringConst(call.Args[0])
}

// pcRegexes: the number regexes of the reader as their source text.
func pcRegexes(f *ast.File) (string, error) {
	var b strings.Builder
	for _, name := range []string{"decimalRegex", "eFloatRegex", "shortFloatRegex", "singleFloatRegex", "doubleFloatRegex", "longFloatRegex"} {
		e := findValue(f, name)
		if e == nil {
			return "", fmt.Errorf("code.go: %s not found", name)
		}
		s, err := rxSource(e)
		if err != nil {
			return "", fmt.Errorf("code.go: %s: %v", name, err)
		}
		fmt.Fprintf(&b, "/-- code.go `%s` = `%s` -/\ndef %s : List Nat := %s\n\n", name, s, name, leanCodes(s))
	}
	for _, name := range []string{"intRxs", "ratioRxs"} {
		lit, _ := findValue(f, name).(*ast.CompositeLit)
		if lit == nil {
			return "", fmt.Errorf("code.go: %s not found", name)
		}
		fmt.Fprintf(&b, "/-- code.go `%s`: source text per base (index = base; the two `nil` entries are empty) -/\ndef %s : List (List Nat) :=\n  [", name, name)
		for i, el := range lit.Elts {
			if i > 0 {
				b.WriteString(",\n   ")
			}
			if exprStr(el) == "nil" {
				b.WriteString("[]")
				continue
			}
			s, err := rxSource(el)
			if err != nil {
				return "", fmt.Errorf("code.go: %s[%d]: %v", name, i, err)
			}
			b.WriteString(leanCodes(s))
		}
		b.WriteString("]\n\n")
	}
	return b.String(), nil
}

// names of the regexes as small codes
var rxCode = map[string]int{"time": 0, "intRx": 1, "decimalRegex": 2, "eFloatRegex": 3, "doubleFloatRegex": 4, "shortFloatRegex": 5,
	"singleFloatRegex": 6, "longFloatRegex": 7, "ratioRx": 8}

const rxCodeDoc = "0 = time (`@…`), 1 = intRx, 2 = decimalRegex, 3 = eFloatRegex, 4 = doubleFloatRegex, 5 = shortFloatRegex, 6 = singleFloatRegex, 7 = longFloatRegex, 8 = ratioRx"

// pcNumberToken: the regexes symbol.go `numberToken` tries.
func pcNumberToken(f *ast.File) (string, error) {
	fd := pcFindFunc(f, "", "numberToken")
	if fd == nil {
		return "", fmt.Errorf("symbol.go: numberToken not found")
	}
	var lit *ast.CompositeLit
	ast.Inspect(fd.Body, func(n ast.Node) bool {
		if rs, ok := n.(*ast.RangeStmt); ok && lit == nil {
			lit, _ = rs.X.(*ast.CompositeLit)
		}
		return true
	})
	if lit == nil {
		return "", fmt.Errorf("symbol.go: numberToken: regex list not found")
	}
	var codes []int
	for _, el := range lit.Elts {
		s := exprStr(el)
		switch s {
		case "intRxs[base]":
			codes = append(codes, rxCode["intRx"])
		case "ratioRxs[base]":
			codes = append(codes, rxCode["ratioRx"])
		default:
			c, ok := rxCode[s]
			if !ok {
				return "", fmt.Errorf("symbol.go: numberToken: unknown regex %s", s)
			}
			codes = append(codes, c)
		}
	}
	sort.Ints(codes)
	// the guard `if base < 2 || 36 < base { return false }`
	guard := ""
	if len(fd.Body.List) > 0 {
		if is, ok := fd.Body.List[0].(*ast.IfStmt); ok {
			guard = exprStr(is.Cond)
		}
	}
	lo, hi := 0, 0
	if m := regexp.MustCompile(`^base < (\d+) \|\| (\d+) < base$`).FindStringSubmatch(guard); m != nil {
		lo, _ = strconv.Atoi(m[1])
		hi, _ = strconv.Atoi(m[2])
	} else {
		return "", fmt.Errorf("symbol.go: numberToken: base guard not found (%s)", guard)
	}
	lower := strings.Contains(nodeText(fd.Body), "bytes.ToLower([]byte(token))")
	return fmt.Sprintf("/-- symbol.go `numberToken`: the regexes it tries, sorted (%s) -/\ndef numberTokenRegexes : List Nat := %s\n/-- … the bases it answers for, and whether it lower-cases the token first -/\ndef numberTokenBaseLo : Nat := %d\ndef numberTokenBaseHi : Nat := %d\ndef numberTokenLowers : Bool := %v\n\n",
		rxCodeDoc, leanNatList(codes), lo, hi, lower), nil
}

// pcResolveToken: the order of the cases of code.go `resolveToken` and what each float case builds.
func pcResolveToken(f *ast.File) (string, error) {
	fd := pcFindFunc(f, "*reader", "resolveToken")
	if fd == nil {
		return "", fmt.Errorf("code.go: resolveToken not found")
	}
	var sw *ast.SwitchStmt
	for _, st := range fd.Body.List {
		if s, ok := st.(*ast.SwitchStmt); ok && s.Tag == nil {
			sw = s
		}
	}
	if sw == nil {
		return "", fmt.Errorf("code.go: resolveToken: switch not found")
	}
	atom := map[string]string{"buf[0] == '@'": "time", "r.intRx.Match(buf)": "intRx", "r.ratioRx.Match(buf)": "ratioRx"}
	for n := range rxCode {
		if strings.HasSuffix(n, "Regex") {
			atom[n+".Match(buf)"] = n
		}
	}
	var order [][]int
	type fcase struct{ rx, marker, bits, typ int }
	var fcases []fcase
	for _, cl := range sw.Body.List {
		cc := cl.(*ast.CaseClause)
		if len(cc.List) != 1 {
			return "", fmt.Errorf("code.go: resolveToken: case with %d conditions", len(cc.List))
		}
		var codes []int
		for _, part := range strings.Split(exprStr(cc.List[0]), " || ") {
			a, ok := atom[part]
			if !ok {
				return "", fmt.Errorf("code.go: resolveToken: condition not understood: %s", part)
			}
			codes = append(codes, rxCode[a])
		}
		order = append(order, codes)
		// explicit-marker float cases: buf[bytes.IndexByte(buf, 'd')] = 'e' … ParseFloat(string(buf), 64) … DoubleFloat(f)
		text := strings.Join(strings.Fields(nodeTextList(cc.Body)), " ")
		if len(codes) == 1 && codes[0] >= rxCode["doubleFloatRegex"] && codes[0] <= rxCode["singleFloatRegex"] {
			m := regexp.MustCompile(`^buf\[bytes\.IndexByte\(buf, '(.)'\)\] = 'e' if f, err := strconv\.ParseFloat\(string\(buf\), (\d+)\); err == nil \{ return (\w+)\(f\) \}$`).FindStringSubmatch(text)
			if m == nil {
				return "", fmt.Errorf("code.go: resolveToken: float case not understood: %s", text)
			}
			bits, _ := strconv.Atoi(m[2])
			typ, ok := map[string]int{"SingleFloat": 0, "DoubleFloat": 1}[m[3]]
			if !ok {
				return "", fmt.Errorf("code.go: resolveToken: float type %s", m[3])
			}
			fcases = append(fcases, fcase{codes[0], int(m[1][0]), bits, typ})
		}
		if len(codes) == 1 && codes[0] == rxCode["longFloatRegex"] {
			m := regexp.MustCompile(`^cnt := bytes\.IndexByte\(buf, '(.)'\) buf\[cnt\] = 'e' if buf\[0\] == '-' \|\| buf\[0\] == '\+' \{ cnt-- \} if f, _, err := big\.ParseFloat\(string\(buf\), 10, uint\(prec10t2\*float64\(cnt\)\), big\.ToNearestAway\); err == nil \{ return \(\*LongFloat\)\(f\) \}$`).FindStringSubmatch(text)
			if m == nil {
				return "", fmt.Errorf("code.go: resolveToken: long float case not understood: %s", text)
			}
			fcases = append(fcases, fcase{codes[0], int(m[1][0]), 0, 2})
		}
	}
	var b strings.Builder
	fmt.Fprintf(&b, "/-- code.go `resolveToken`: the cases in the order they are tried (%s) -/\ndef resolveOrder : List (List Nat) :=\n  [", rxCodeDoc)
	for i, c := range order {
		if i > 0 {
			b.WriteString(", ")
		}
		b.WriteString(leanNatList(c))
	}
	b.WriteString("]\n\n/-- code.go `resolveToken`: (regex, exponent marker replaced by `e`, ParseFloat bit size (0 = big.ParseFloat), type: 0 single 1 double 2 long) -/\ndef readFloatCases : List (Nat × Nat × Nat × Nat) :=\n  [")
	for i, c := range fcases {
		if i > 0 {
			b.WriteString(", ")
		}
		fmt.Fprintf(&b, "(%d, %d, %d, %d)", c.rx, c.marker, c.bits, c.typ)
	}
	b.WriteString("]\n\n")
	if !strings.Contains(nodeText(fd.Body), "buf := bytes.ToLower(token)") {
		return "", fmt.Errorf("code.go: resolveToken no longer lower-cases the token")
	}
	return b.String(), nil
}

func nodeTextList(l []ast.Stmt) string {
	var parts []string
	for _, s := range l {
		parts = append(parts, nodeText(s))
	}
	return strings.Join(parts, " ")
}

// pcFloatReadably: SingleFloat / DoubleFloat `Readably`, the readable branch:
// (format verb, bit size, precision threshold, exponent marker, lower-cased first).
func pcFloatReadably(f *ast.File, file, recv, lean string) (string, error) {
	fd := pcFindFunc(f, recv, "Readably")
	if fd == nil {
		return "", fmt.Errorf("%s: Readably not found", file)
	}
	var sw *ast.SwitchStmt
	for _, st := range fd.Body.List {
		if s, ok := st.(*ast.SwitchStmt); ok && s.Tag == nil {
			sw = s
		}
	}
	if sw == nil || len(sw.Body.List) == 0 {
		return "", fmt.Errorf("%s: Readably: switch not found", file)
	}
	first := sw.Body.List[0].(*ast.CaseClause)
	if len(first.List) != 1 || exprStr(first.List[0]) != "p.Readably" {
		return "", fmt.Errorf("%s: Readably: the first case is not p.Readably", file)
	}
	text := strings.Join(strings.Fields(nodeTextList(first.Body)), " ")
	m := regexp.MustCompile(`^if p\.Prec < (\d+) \{ tmp = strconv\.AppendFloat\(\[\]byte\{\}, float64\(obj\), '(.)', p\.Prec, (\d+)\) \} else \{ tmp = strconv\.AppendFloat\(\[\]byte\{\}, float64\(obj\), '(.)', -1, (\d+)\) \} b = append\(b, bytes\.ReplaceAll\(bytes\.ToLower\(tmp\), \[\]byte\{'(.)'\}, \[\]byte\{'(.)'\}\)\.\.\.\)$`).FindStringSubmatch(text)
	if m == nil {
		return "", fmt.Errorf("%s: Readably: readable branch not understood: %s", file, text)
	}
	if m[2] != m[4] || m[3] != m[5] {
		return "", fmt.Errorf("%s: Readably: the two AppendFloat calls differ in verb or bit size", file)
	}
	return fmt.Sprintf("/-- %s `Readably` with *print-readably*: (strconv.AppendFloat verb, bit size, precision threshold under which p.Prec is used, replaced byte, exponent marker) -/\ndef %s : Nat × Nat × Nat × Nat × Nat := (%d, %s, %s, %d, %d)\n\n",
		file, lean, int(m[2][0]), m[3], m[1], int(m[6][0]), int(m[7][0])), nil
}

func pcLongReadably(f *ast.File) (string, error) {
	fd := pcFindFunc(f, "*LongFloat", "Readably")
	if fd == nil {
		return "", fmt.Errorf("longfloat.go: Readably not found")
	}
	text := strings.Join(strings.Fields(nodeText(fd.Body)), " ")
	m := regexp.MustCompile(`if p\.Readably \{ tmp := \(\*big\.Float\)\(obj\)\.Append\(\[\]byte\{\}, '(.)', prec\) b = append\(b, bytes\.ReplaceAll\(tmp, \[\]byte\{'(.)'\}, \[\]byte\{'(.)'\}\)\.\.\.\) \}`).FindStringSubmatch(text)
	if m == nil {
		return "", fmt.Errorf("longfloat.go: Readably: readable branch not understood: %s", text)
	}
	if !strings.Contains(text, "prec := -1 if 0 < p.Prec {") {
		return "", fmt.Errorf("longfloat.go: Readably: precision default not understood")
	}
	return fmt.Sprintf("/-- longfloat.go `Readably` with *print-readably*: (big.Float.Append verb, replaced byte, exponent marker); the precision is -1 (shortest) unless 0 < p.Prec -/\ndef longFloatPrint : Nat × Nat × Nat := (%d, %d, %d)\n\n",
		int(m[1][0]), int(m[2][0]), int(m[3][0])), nil
}
