package main

// BagBridge (C18): the two data bridges as the source states them now.
//
//   * slip.SimpleObject (object.go): every case of its type switch, translated: integer cases become
//     Lean code over the value (`Fixnum(tv)` is a conversion to int64 and wraps, `Octet(tv)` keeps a
//     byte, helper functions such as uintObject are translated statement by statement), the other
//     scalar cases are recorded as the Lisp type constructor applied, the container cases as the
//     element expression of their loop.
//   * the Simplify methods of the Lisp types a bag / SimpleObject can produce (fixnum.go, octet.go,
//     bignum.go, singlefloat.go, doublefloat.go, string.go, symbol.go, time.go, true.go, list.go,
//     tail.go): the returned expression, integers again as code.
//   * bag.ObjectToBag (pkg/bag/set.go): the cases of its type switch, the `:false` literal and how it
//     is compared, the empty-list rule, the assoc-list test (which element, which length, which
//     type), the key types of an assoc pair, the bignum branch as code.
//
// lean/SlipVerif/Theorems/GenC18.lean proves that these regenerated definitions compute what the
// hand model (Model/JsonLisp.lean) computes, for all values.

import (
	"bytes"
	"fmt"
	"go/ast"
	"go/parser"
	"go/printer"
	"go/token"
	"path/filepath"
	"regexp"
	"sort"
	"strconv"
	"strings"
)

func init() { generators["BagBridge"] = genBagBridge }

// ---- shared helpers of the C18 generators -------------------------------------------------------

type c18File struct {
	fset *token.FileSet
	f    *ast.File
}

func c18Parse(repo string, rel ...string) (*c18File, error) {
	fset := token.NewFileSet()
	f, err := parser.ParseFile(fset, filepath.Join(append([]string{repo}, rel...)...), nil, 0)
	if err != nil {
		return nil, err
	}
	return &c18File{fset, f}, nil
}

// fn finds a function (recv == "") or a method by the name of its receiver type.
func (s *c18File) fn(recv, name string) *ast.FuncDecl {
	for _, d := range s.f.Decls {
		fd, ok := d.(*ast.FuncDecl)
		if !ok || fd.Name.Name != name || fd.Body == nil {
			continue
		}
		if recv == "" && fd.Recv == nil {
			return fd
		}
		if recv != "" && fd.Recv != nil && len(fd.Recv.List) == 1 {
			t := fd.Recv.List[0].Type
			if st, ok := t.(*ast.StarExpr); ok {
				t = st.X
			}
			if id, ok := t.(*ast.Ident); ok && id.Name == recv {
				return fd
			}
		}
	}
	return nil
}

func (s *c18File) recvVar(fd *ast.FuncDecl) string {
	if fd.Recv != nil && len(fd.Recv.List) == 1 && len(fd.Recv.List[0].Names) == 1 {
		return fd.Recv.List[0].Names[0].Name
	}
	return ""
}

var c18WsRe = regexp.MustCompile(`\s+`)

// show prints a node on one line.
func (s *c18File) show(n ast.Node) string {
	var b bytes.Buffer
	_ = printer.Fprint(&b, s.fset, n)
	return strings.TrimSpace(c18WsRe.ReplaceAllString(b.String(), " "))
}

// showAs prints a node with identifiers renamed (in the syntax tree: string literals and field
// selectors are left alone).
func (s *c18File) showAs(n ast.Node, ren map[string]string) string {
	type saved struct {
		id   *ast.Ident
		name string
	}
	var undo []saved
	var visit func(n ast.Node) bool
	visit = func(n ast.Node) bool {
		switch x := n.(type) {
		case *ast.SelectorExpr:
			ast.Inspect(x.X, visit)
			return false
		case *ast.KeyValueExpr:
			if _, isId := x.Key.(*ast.Ident); !isId {
				ast.Inspect(x.Key, visit)
			}
			ast.Inspect(x.Value, visit)
			return false
		case *ast.Ident:
			if to, ok := ren[x.Name]; ok && to != "" && to != x.Name {
				undo = append(undo, saved{x, x.Name})
				x.Name = to
			}
		}
		return true
	}
	ast.Inspect(n, visit)
	out := s.show(n)
	for _, u := range undo {
		u.id.Name = u.name
	}
	return out
}

func c18LeanStr(s string) string {
	var b strings.Builder
	b.WriteByte('"')
	for _, r := range s {
		switch {
		case r == '"':
			b.WriteString(`\"`)
		case r == '\\':
			b.WriteString(`\\`)
		case r == '\n':
			b.WriteString(`\n`)
		case r == '\t':
			b.WriteString(`\t`)
		case r < 32 || r == 127:
			fmt.Fprintf(&b, `\x%02x`, r)
		default:
			b.WriteRune(r)
		}
	}
	b.WriteByte('"')
	return b.String()
}

func c18LeanStrs(xs []string) string {
	q := make([]string, len(xs))
	for i, x := range xs {
		q[i] = c18LeanStr(x)
	}
	return "[" + strings.Join(q, ", ") + "]"
}

func c18LeanPairs(xs [][2]string) string {
	q := make([]string, len(xs))
	for i, x := range xs {
		q[i] = "(" + c18LeanStr(x[0]) + ", " + c18LeanStr(x[1]) + ")"
	}
	return "[\n  " + strings.Join(q, ",\n  ") + "]"
}

// c18Consts: named constants the translated expressions may mention.
var c18Consts = map[string]string{
	"math.MaxInt64":    "9223372036854775807",
	"math.MinInt64":    "(-9223372036854775808)",
	"math.MaxInt32":    "2147483647",
	"math.MinInt32":    "(-2147483648)",
	"math.MaxUint32":   "4294967295",
	"math.MaxInt16":    "32767",
	"math.MaxUint16":   "65535",
	"math.MaxInt8":     "127",
	"math.MaxUint8":    "255",
	"time.RFC3339Nano": `"2006-01-02T15:04:05.999999999Z07:00"`,
	"time.RFC3339":     `"2006-01-02T15:04:05Z07:00"`,
	"time.DateOnly":    `"2006-01-02"`,
}

// c18Tr translates Go expressions over integers / booleans / strings to Lean terms. env maps Go
// identifiers and selector texts (e.g. "options.TimeFormat") to Lean terms; an identifier that
// stands for a big.Int or an integer is an `Int` on the Lean side.
type c18Tr struct {
	src *c18File
	env map[string]string
	// strs: Lean terms known to be strings (len = utf8ByteSize)
	strs map[string]bool
}

func (t *c18Tr) clone() *c18Tr {
	n := &c18Tr{src: t.src, env: map[string]string{}, strs: map[string]bool{}}
	for k, v := range t.env {
		n.env[k] = v
	}
	for k, v := range t.strs {
		n.strs[k] = v
	}
	return n
}

func c18IntLit(s string) (string, bool) {
	s = strings.ReplaceAll(s, "_", "")
	if v, err := strconv.ParseUint(s, 0, 64); err == nil {
		return strconv.FormatUint(v, 10), true
	}
	return "", false
}

// c18FloatLit: a float literal with an integral value becomes that natural number.
func c18FloatLit(s string) (string, bool) {
	s = strings.ReplaceAll(s, "_", "")
	if i := strings.IndexByte(s, '.'); i >= 0 {
		frac := strings.TrimRight(s[i+1:], "0")
		if frac == "" && !strings.ContainsAny(s, "eE") {
			return c18IntLit(s[:i])
		}
	}
	return "", false
}

// stripConv removes conversions that do not change an integer's value on the Lean side.
func (t *c18Tr) unwrapBig(e ast.Expr) ast.Expr {
	for {
		switch x := e.(type) {
		case *ast.ParenExpr:
			e = x.X
			continue
		case *ast.CallExpr:
			// (*big.Int)(obj)
			if p, ok := x.Fun.(*ast.ParenExpr); ok && len(x.Args) == 1 {
				if st, ok := p.X.(*ast.StarExpr); ok && t.src.show(st.X) == "big.Int" {
					e = x.Args[0]
					continue
				}
			}
		}
		return e
	}
}

func (t *c18Tr) expr(e ast.Expr) (string, error) {
	e = t.unwrapBig(e)
	if v, ok := t.env[t.src.show(e)]; ok {
		return v, nil
	}
	switch x := e.(type) {
	case *ast.BasicLit:
		switch x.Kind {
		case token.INT:
			if v, ok := c18IntLit(x.Value); ok {
				return v, nil
			}
		case token.FLOAT:
			if v, ok := c18FloatLit(x.Value); ok {
				return v, nil
			}
		case token.STRING:
			if s, err := strconv.Unquote(x.Value); err == nil {
				return c18LeanStr(s), nil
			}
		}
	case *ast.Ident:
		if v, ok := t.env[x.Name]; ok {
			return v, nil
		}
		if x.Name == "true" || x.Name == "false" {
			return x.Name, nil
		}
	case *ast.SelectorExpr:
		key := t.src.show(x)
		if v, ok := t.env[key]; ok {
			return v, nil
		}
		if v, ok := c18Consts[key]; ok {
			return v, nil
		}
	case *ast.UnaryExpr:
		if x.Op == token.NOT {
			a, err := t.expr(x.X)
			if err != nil {
				return "", err
			}
			return "(!" + a + ")", nil
		}
		if x.Op == token.SUB {
			a, err := t.expr(x.X)
			if err != nil {
				return "", err
			}
			return "(-" + a + ")", nil
		}
	case *ast.BinaryExpr:
		a, err := t.expr(x.X)
		if err != nil {
			return "", err
		}
		b, err := t.expr(x.Y)
		if err != nil {
			return "", err
		}
		if r, ok := t.lenZero(x); ok {
			return r, nil
		}
		switch x.Op {
		case token.LAND:
			return "(" + a + " && " + b + ")", nil
		case token.LOR:
			return "(" + a + " || " + b + ")", nil
		case token.LEQ:
			return "decide (" + a + " ≤ " + b + ")", nil
		case token.LSS:
			return "decide (" + a + " < " + b + ")", nil
		case token.GEQ:
			return "decide (" + b + " ≤ " + a + ")", nil
		case token.GTR:
			return "decide (" + b + " < " + a + ")", nil
		case token.EQL:
			return "decide (" + a + " = " + b + ")", nil
		case token.NEQ:
			return "decide (" + a + " ≠ " + b + ")", nil
		case token.ADD:
			return "(" + a + " + " + b + ")", nil
		case token.SUB:
			return "(" + a + " - " + b + ")", nil
		case token.MUL:
			return "(" + a + " * " + b + ")", nil
		case token.SHL:
			return "(" + a + " * 2 ^ (" + b + " : Int).toNat)", nil
		}
	case *ast.CallExpr:
		if id, ok := x.Fun.(*ast.Ident); ok && len(x.Args) == 1 {
			a, err := t.expr(x.Args[0])
			if err != nil {
				return "", err
			}
			switch id.Name {
			case "len":
				if t.strs[a] {
					return "(" + a + ".utf8ByteSize : Int)", nil
				}
			case "int64", "int":
				return "(wrap64 " + a + ")", nil
			case "uint64", "uint":
				return "(wrapU64 " + a + ")", nil
			case "int32":
				return "(wrapS 32 " + a + ")", nil
			case "int16":
				return "(wrapS 16 " + a + ")", nil
			case "int8":
				return "(wrapS 8 " + a + ")", nil
			case "uint32":
				return "(wrapU 32 " + a + ")", nil
			case "uint16":
				return "(wrapU 16 " + a + ")", nil
			case "uint8", "byte":
				return "(wrapU 8 " + a + ")", nil
			case "Fixnum":
				return "(wrap64 " + a + ")", nil
			}
		}
		if sel, ok := x.Fun.(*ast.SelectorExpr); ok && len(x.Args) == 0 {
			a, err := t.expr(sel.X)
			if err != nil {
				return "", err
			}
			switch sel.Sel.Name {
			case "IsInt64":
				return "(isInt64 " + a + ")", nil
			case "IsUint64":
				return "(isUint64 " + a + ")", nil
			case "BitLen":
				return "(bitLen " + a + ")", nil
			case "Sign":
				return "(sign " + a + ")", nil
			case "Int64":
				return "(wrap64 " + a + ")", nil
			case "Uint64":
				return "(wrapU64 " + a + ")", nil
			}
		}
	}
	return "", fmt.Errorf("cannot translate expression %s", t.src.show(e))
}

// lenZero: `len(s) == 0`, `0 < len(s)`, `len(s) > 0`, `len(s) != 0`, `0 == len(s)` for a string s are
// translated as (in)equality with the empty string.
func (t *c18Tr) lenZero(x *ast.BinaryExpr) (string, bool) {
	isZero := func(e ast.Expr) bool {
		b, ok := e.(*ast.BasicLit)
		return ok && b.Kind == token.INT && b.Value == "0"
	}
	lenOf := func(e ast.Expr) (string, bool) {
		c, ok := e.(*ast.CallExpr)
		if !ok || len(c.Args) != 1 {
			return "", false
		}
		if id, ok := c.Fun.(*ast.Ident); !ok || id.Name != "len" {
			return "", false
		}
		a, err := t.expr(c.Args[0])
		if err != nil || !t.strs[a] {
			return "", false
		}
		return a, true
	}
	var s string
	var ok bool
	op := x.Op
	if s, ok = lenOf(x.X); ok && isZero(x.Y) {
		// len(s) op 0
	} else if s, ok = lenOf(x.Y); ok && isZero(x.X) {
		// 0 op len(s): mirror
		switch op {
		case token.LSS:
			op = token.GTR
		case token.GTR:
			op = token.LSS
		case token.LEQ:
			op = token.GEQ
		case token.GEQ:
			op = token.LEQ
		}
	} else {
		return "", false
	}
	switch op {
	case token.EQL, token.LEQ:
		return "decide (" + s + " = \"\")", true
	case token.NEQ, token.GTR:
		return "decide (" + s + " ≠ \"\")", true
	}
	return "", false
}

// c18Ctors: Lisp integer constructors whose conversion can change the value; every other
// `Ctor(x)` is recorded by name.
//
// obj translates an expression that yields a Lisp object (result of SimpleObject and helpers).
func (t *c18Tr) obj(e ast.Expr) string {
	for {
		p, ok := e.(*ast.ParenExpr)
		if !ok {
			break
		}
		e = p.X
	}
	if c, ok := e.(*ast.CallExpr); ok && len(c.Args) == 1 {
		// (*Bignum)(new(big.Int).SetUint64(u)) / SetInt64
		if p, ok := c.Fun.(*ast.ParenExpr); ok {
			if st, ok := p.X.(*ast.StarExpr); ok && t.src.show(st.X) == "Bignum" {
				arg := c.Args[0]
				if ic, ok := arg.(*ast.CallExpr); ok && len(ic.Args) == 1 {
					if sel, ok := ic.Fun.(*ast.SelectorExpr); ok && t.src.show(sel.X) == "new(big.Int)" {
						if a, err := t.expr(ic.Args[0]); err == nil {
							switch sel.Sel.Name {
							case "SetUint64":
								return "(.bignum (wrapU64 " + a + "))"
							case "SetInt64":
								return "(.bignum (wrap64 " + a + "))"
							}
						}
					}
				}
				if a, err := t.expr(arg); err == nil {
					return "(.bignum " + a + ")"
				}
			}
		}
		if id, ok := c.Fun.(*ast.Ident); ok {
			if a, err := t.expr(c.Args[0]); err == nil {
				switch id.Name {
				case "Fixnum":
					return "(.fixnum (wrap64 " + a + "))"
				case "Octet":
					return "(.octet (wrapU 8 " + a + "))"
				}
				if fn, ok := t.env["func:"+id.Name]; ok {
					return "(" + fn + " " + a + ")"
				}
			}
			// a constructor applied to the switch variable itself: recorded by name
			if av, ok := c.Args[0].(*ast.Ident); ok && t.env[av.Name] != "" {
				return "(.conv " + c18LeanStr(id.Name) + ")"
			}
		}
	}
	return "(.other " + c18LeanStr(t.src.show(e)) + ")"
}

// val translates an expression that yields a plain Go value (result of Simplify / ObjectToBag).
func (t *c18Tr) val(e ast.Expr) string {
	for {
		p, ok := e.(*ast.ParenExpr)
		if !ok {
			break
		}
		e = p.X
	}
	if id, ok := e.(*ast.Ident); ok && (id.Name == "true" || id.Name == "false" || id.Name == "nil") {
		return "(.lit " + c18LeanStr(id.Name) + ")"
	}
	if c, ok := e.(*ast.CallExpr); ok {
		// x.Int64()
		if sel, ok := c.Fun.(*ast.SelectorExpr); ok && len(c.Args) == 0 {
			if a, err := t.expr(sel.X); err == nil {
				switch sel.Sel.Name {
				case "Int64":
					return "(.int64 (wrap64 " + a + "))"
				case "String":
					return "(.text " + a + ")"
				}
			}
		}
		if len(c.Args) == 1 {
			fun := t.src.show(c.Fun)
			switch fun {
			case "int64":
				if a, err := t.expr(c.Args[0]); err == nil {
					return "(.int64 (wrap64 " + a + "))"
				}
			case "json.Number":
				// json.Number(bi.String())
				if ic, ok := c.Args[0].(*ast.CallExpr); ok && len(ic.Args) == 0 {
					if sel, ok := ic.Fun.(*ast.SelectorExpr); ok && sel.Sel.Name == "String" {
						if a, err := t.expr(sel.X); err == nil {
							return "(.number " + a + ")"
						}
					}
				}
			case "string":
				// string(printer.Append([]byte{}, obj, 0)): the printed (decimal) form of the receiver
				if ic, ok := c.Args[0].(*ast.CallExpr); ok && t.src.show(ic.Fun) == "printer.Append" && len(ic.Args) == 3 {
					if a, err := t.expr(ic.Args[1]); err == nil {
						return "(.text " + a + ")"
					}
				}
			}
			// a conversion of the receiver / switch variable itself: recorded by name
			if av, ok := c.Args[0].(*ast.Ident); ok && t.env[av.Name] != "" {
				return "(.conv " + c18LeanStr(fun) + ")"
			}
		}
	}
	return "(.other " + c18LeanStr(t.src.show(e)) + ")"
}

// body translates a statement list of the shape  { if c { return a } … return b }  (also if/else,
// an if with an init assignment, and assignments to a result variable instead of returns) into a
// nested Lean if-then-else; leaf translates the returned / assigned expression.
func (t *c18Tr) body(stmts []ast.Stmt, result string, leaf func(*c18Tr, ast.Expr) string) (string, error) {
	if len(stmts) == 0 {
		return "", fmt.Errorf("no value on a path")
	}
	switch s := stmts[0].(type) {
	case *ast.ReturnStmt:
		if len(s.Results) == 1 {
			return leaf(t, s.Results[0]), nil
		}
		if len(s.Results) == 0 && result != "" {
			// a bare return: the result variable keeps what it held
			return leaf(t, ast.NewIdent(result)), nil
		}
	case *ast.AssignStmt:
		if len(s.Lhs) == 1 && len(s.Rhs) == 1 && s.Tok == token.ASSIGN && t.src.show(s.Lhs[0]) == result {
			return leaf(t, s.Rhs[0]), nil
		}
		if len(s.Lhs) == 1 && len(s.Rhs) == 1 && s.Tok == token.DEFINE {
			if id, ok := s.Lhs[0].(*ast.Ident); ok {
				if a, err := t.expr(s.Rhs[0]); err == nil {
					n := t.clone()
					n.env[id.Name] = a
					return n.body(stmts[1:], result, leaf)
				}
			}
		}
	case *ast.IfStmt:
		n := t
		if s.Init != nil {
			as, ok := s.Init.(*ast.AssignStmt)
			if !ok || len(as.Lhs) != 1 || len(as.Rhs) != 1 {
				return "", fmt.Errorf("cannot translate %s", t.src.show(s.Init))
			}
			id, ok := as.Lhs[0].(*ast.Ident)
			if !ok {
				return "", fmt.Errorf("cannot translate %s", t.src.show(s.Init))
			}
			a, err := t.expr(as.Rhs[0])
			if err != nil {
				return "", err
			}
			n = t.clone()
			n.env[id.Name] = a
		}
		c, err := n.expr(s.Cond)
		if err != nil {
			return "", err
		}
		th, err := n.body(append(append([]ast.Stmt{}, s.Body.List...), stmts[1:]...), result, leaf)
		if err != nil {
			return "", err
		}
		var el string
		switch e := s.Else.(type) {
		case nil:
			el, err = t.body(stmts[1:], result, leaf)
		case *ast.BlockStmt:
			el, err = n.body(append(append([]ast.Stmt{}, e.List...), stmts[1:]...), result, leaf)
		case *ast.IfStmt:
			el, err = n.body(append([]ast.Stmt{e}, stmts[1:]...), result, leaf)
		}
		if err != nil {
			return "", err
		}
		return "(if " + c + " then " + th + " else " + el + ")", nil
	case *ast.SwitchStmt:
		if s.Init == nil && s.Tag != nil {
			tag, err := t.expr(s.Tag)
			if err != nil {
				return "", err
			}
			var conds, vals []string
			def := ""
			for _, c := range s.Body.List {
				cc := c.(*ast.CaseClause)
				val, err := t.body(append(append([]ast.Stmt{}, cc.Body...), stmts[1:]...), result, leaf)
				if err != nil {
					return "", err
				}
				if cc.List == nil {
					def = val
					continue
				}
				var alts []string
				for _, e := range cc.List {
					a, err := t.expr(e)
					if err != nil {
						return "", err
					}
					alts = append(alts, "decide ("+tag+" = "+a+")")
				}
				conds = append(conds, "("+strings.Join(alts, " || ")+")")
				vals = append(vals, val)
			}
			if def == "" {
				def, err = t.body(stmts[1:], result, leaf)
				if err != nil {
					return "", err
				}
			}
			out := def
			for i := len(conds) - 1; i >= 0; i-- {
				out = "(if " + conds[i] + " then " + vals[i] + " else " + out + ")"
			}
			return out, nil
		}
		if s.Init == nil && s.Tag == nil {
			// switch { case c1: … default: … }
			var conds, vals []string
			def := ""
			for _, c := range s.Body.List {
				cc := c.(*ast.CaseClause)
				val, err := t.body(append(append([]ast.Stmt{}, cc.Body...), stmts[1:]...), result, leaf)
				if err != nil {
					return "", err
				}
				if cc.List == nil {
					def = val
					continue
				}
				var alts []string
				for _, e := range cc.List {
					a, err := t.expr(e)
					if err != nil {
						return "", err
					}
					alts = append(alts, a)
				}
				conds = append(conds, "("+strings.Join(alts, " || ")+")")
				vals = append(vals, val)
			}
			if def == "" {
				var err error
				def, err = t.body(stmts[1:], result, leaf)
				if err != nil {
					return "", err
				}
			}
			out := def
			for i := len(conds) - 1; i >= 0; i-- {
				out = "(if " + conds[i] + " then " + vals[i] + " else " + out + ")"
			}
			return out, nil
		}
	}
	return "", fmt.Errorf("cannot translate statement %s", t.src.show(stmts[0]))
}

// c18Prelude: the arithmetic the translated code refers to.
const c18Prelude = `/-- a Go conversion to a signed integer type of `+"`bits`"+` bits (two's complement) -/
def wrapS (bits : Nat) (i : Int) : Int := (i + 2 ^ (bits - 1)) % 2 ^ bits - 2 ^ (bits - 1)
/-- a Go conversion to an unsigned integer type of `+"`bits`"+` bits -/
def wrapU (bits : Nat) (i : Int) : Int := i % 2 ^ bits
def wrap64 (i : Int) : Int := (i + 9223372036854775808) % 18446744073709551616 - 9223372036854775808
def wrapU64 (i : Int) : Int := i % 18446744073709551616
/-- big.Int.IsInt64 -/
def isInt64 (i : Int) : Bool := decide (-9223372036854775808 ≤ i) && decide (i ≤ 9223372036854775807)
/-- big.Int.IsUint64 -/
def isUint64 (i : Int) : Bool := decide (0 ≤ i) && decide (i ≤ 18446744073709551615)
/-- big.Int.BitLen: the length of the absolute value in bits -/
def bitLen (i : Int) : Int := if i = 0 then 0 else ((Nat.log2 i.natAbs + 1 : Nat) : Int)
/-- big.Int.Sign -/
def sign (i : Int) : Int := if i < 0 then -1 else if i = 0 then 0 else 1

/-- a Lisp object as SimpleObject builds it from a scalar: integer constructors carry the value
    after the Go conversion, the other constructors are recorded by name -/
inductive Obj where
  | fixnum (i : Int)
  | bignum (i : Int)
  | octet (i : Int)
  | conv (ctor : String)
  | other (goExpr : String)
  deriving DecidableEq, Repr

/-- a plain Go value as Simplify / ObjectToBag build it from a Lisp scalar -/
inductive Val where
  | int64 (i : Int)
  | text (i : Int)          -- the decimal text of the integer, as a Go string
  | number (i : Int)        -- json.Number of the decimal text
  | lit (goLit : String)    -- true / false / nil
  | conv (goType : String)  -- a value-preserving conversion of the receiver, by target type
  | other (goExpr : String)
  deriving DecidableEq, Repr
`

// typeSwitch returns the type switch of a function body whose tag expression is `tag.(type)`, with
// the name bound by it ("" when none).
func c18TypeSwitch(src *c18File, fd *ast.FuncDecl, tag string) (*ast.TypeSwitchStmt, string) {
	var found *ast.TypeSwitchStmt
	var bound string
	ast.Inspect(fd.Body, func(n ast.Node) bool {
		ts, ok := n.(*ast.TypeSwitchStmt)
		if !ok || found != nil {
			return found == nil
		}
		var ta *ast.TypeAssertExpr
		name := ""
		switch a := ts.Assign.(type) {
		case *ast.AssignStmt:
			if len(a.Lhs) == 1 && len(a.Rhs) == 1 {
				ta, _ = a.Rhs[0].(*ast.TypeAssertExpr)
				name = src.show(a.Lhs[0])
			}
		case *ast.ExprStmt:
			ta, _ = a.X.(*ast.TypeAssertExpr)
		}
		if ta != nil && ta.Type == nil && src.show(ta.X) == tag {
			found, bound = ts, name
			return false
		}
		return true
	})
	return found, bound
}

func genBagBridge(repo string) (string, error) {
	var b strings.Builder
	b.WriteString("/- GENERATED by /verif/extract (c18_bridge.go) from object.go, the Simplify methods and pkg/bag/set.go — do not edit. -/\n")
	b.WriteString("namespace SlipVerif.Gen.BagBridge\n\n")
	b.WriteString(c18Prelude)
	b.WriteString("\n")

	// ---- object.go: helper functions and SimpleObject ------------------------------------------
	obj, err := c18Parse(repo, "object.go")
	if err != nil {
		return "", err
	}
	so := obj.fn("", "SimpleObject")
	if so == nil || len(so.Type.Params.List) != 1 || len(so.Type.Params.List[0].Names) != 1 {
		return "", fmt.Errorf("object.go: SimpleObject(val any) not found")
	}
	param := so.Type.Params.List[0].Names[0].Name
	result := "obj"
	if so.Type.Results != nil && len(so.Type.Results.List) == 1 && len(so.Type.Results.List[0].Names) == 1 {
		result = so.Type.Results.List[0].Names[0].Name
	}
	ts, tv := c18TypeSwitch(obj, so, param)
	if ts == nil || tv == "" {
		return "", fmt.Errorf("object.go: SimpleObject has no `switch tv := %s.(type)`", param)
	}
	// helper functions called with one integer argument from an integer case: translated first
	helpers := map[string]string{}
	var helperDefs []string
	tr := &c18Tr{src: obj, env: map[string]string{tv: "x"}, strs: map[string]bool{}}
	for _, st := range ts.Body.List {
		cc := st.(*ast.CaseClause)
		ast.Inspect(cc, func(n ast.Node) bool {
			c, ok := n.(*ast.CallExpr)
			if !ok || len(c.Args) != 1 {
				return true
			}
			id, ok := c.Fun.(*ast.Ident)
			if !ok || id.Name == "SimpleObject" || helpers[id.Name] != "" {
				return true
			}
			h := obj.fn("", id.Name)
			if h == nil || len(h.Type.Params.List) != 1 || len(h.Type.Params.List[0].Names) != 1 {
				return true
			}
			pt := obj.show(h.Type.Params.List[0].Type)
			if !strings.HasPrefix(pt, "int") && !strings.HasPrefix(pt, "uint") {
				return true
			}
			ht := &c18Tr{src: obj, env: map[string]string{h.Type.Params.List[0].Names[0].Name: "u"}, strs: map[string]bool{}}
			code, err := ht.body(h.Body.List, "", func(t *c18Tr, e ast.Expr) string { return t.obj(e) })
			if err != nil {
				code = "(.other " + c18LeanStr(err.Error()) + ")"
			}
			helpers[id.Name] = id.Name
			helperDefs = append(helperDefs, fmt.Sprintf("/-- %s (object.go), parameter type %s -/\ndef %s (u : Int) : Obj := %s\n", id.Name, pt, id.Name, code))
			return true
		})
	}
	sort.Strings(helperDefs)
	for _, d := range helperDefs {
		b.WriteString(d + "\n")
	}
	for h := range helpers {
		tr.env["func:"+h] = h
	}
	type soCase struct{ ty, code, text string }
	var ints []soCase   // integer cases as code
	var others [][2]string // every other case: (type, what is assigned)
	hasDefault := false
	for _, st := range ts.Body.List {
		cc := st.(*ast.CaseClause)
		if cc.List == nil {
			hasDefault = true
			continue
		}
		for _, te := range cc.List {
			ty := obj.show(te)
			isInt := regexp.MustCompile(`^u?int(8|16|32|64)?$`).MatchString(ty)
			switch {
			case isInt && len(cc.Body) == 1:
				code, err := tr.body(cc.Body, result, func(t *c18Tr, e ast.Expr) string { return t.obj(e) })
				if err != nil {
					code = "(.other " + c18LeanStr(err.Error()) + ")"
				}
				ints = append(ints, soCase{ty: ty, code: code})
			default:
				others = append(others, [2]string{ty, c18CaseText(obj, cc, tv, result)})
			}
		}
	}
	sort.Slice(ints, func(i, j int) bool { return ints[i].ty < ints[j].ty })
	sort.Slice(others, func(i, j int) bool { return others[i][0] < others[j][0] })
	b.WriteString("/-- SimpleObject (object.go), the integer cases of its type switch: Go type ↦ the object built\n    from the value `x` -/\n")
	b.WriteString("def simpleObjectInt (goType : String) (x : Int) : Option Obj :=\n")
	for _, c := range ints {
		fmt.Fprintf(&b, "  if goType = %s then some %s else\n", c18LeanStr(c.ty), c.code)
	}
	b.WriteString("  none\n\n")
	b.WriteString("/-- SimpleObject, every other case: Go type ↦ what is assigned (switch variable written `tv`; a\n    loop is written `range tv; …; end` with key `rk` and value `rv`, locals `l1`, `l2`, …) -/\n")
	b.WriteString("def simpleObjectOther : List (String × String) := " + c18LeanPairs(others) + "\n\n")
	fmt.Fprintf(&b, "/-- SimpleObject has no default clause: an unlisted Go type gives the zero Object (nil) -/\ndef simpleObjectHasDefault : Bool := %v\n\n", hasDefault)

	// ---- Simplify methods ----------------------------------------------------------------------
	type simp struct{ file, recv string }
	simps := []simp{
		{"fixnum.go", "Fixnum"}, {"octet.go", "Octet"}, {"bignum.go", "Bignum"}, {"singlefloat.go", "SingleFloat"},
		{"doublefloat.go", "DoubleFloat"}, {"string.go", "String"}, {"symbol.go", "Symbol"}, {"time.go", "Time"},
		{"true.go", "boolean"},
	}
	b.WriteString("/-- the Simplify method of a Lisp scalar type, as code over the integer value `i` of the receiver\n    (for the non-integer types the conversion is recorded by name) -/\n")
	b.WriteString("def simplifyScalar (lispType : String) (i : Int) : Option Val :=\n")
	for _, sm := range simps {
		f, err := c18Parse(repo, sm.file)
		if err != nil {
			return "", err
		}
		fd := f.fn(sm.recv, "Simplify")
		if fd == nil {
			return "", fmt.Errorf("%s: method %s.Simplify not found", sm.file, sm.recv)
		}
		st := &c18Tr{src: f, env: map[string]string{}, strs: map[string]bool{}}
		if rv := f.recvVar(fd); rv != "" {
			st.env[rv] = "i"
		}
		code, err := st.body(fd.Body.List, "", func(t *c18Tr, e ast.Expr) string { return t.val(e) })
		if err != nil {
			code = "(.other " + c18LeanStr(err.Error()) + ")"
		}
		fmt.Fprintf(&b, "  if lispType = %s then some %s else\n", c18LeanStr(sm.recv), code)
	}
	b.WriteString("  none\n\n")
	// List.Simplify and Tail.Simplify: loop shapes as text
	lf, err := c18Parse(repo, "list.go")
	if err != nil {
		return "", err
	}
	lfd := lf.fn("List", "Simplify")
	if lfd == nil {
		return "", fmt.Errorf("list.go: List.Simplify not found")
	}
	b.WriteString("/-- List.Simplify (list.go): the statements of its body -/\n")
	b.WriteString("def listSimplify : List String := " + c18LeanStrs(c18Stmts(lf, lfd.Body.List, map[string]string{lf.recvVar(lfd): "obj"})) + "\n\n")
	tf, err := c18Parse(repo, "tail.go")
	if err != nil {
		return "", err
	}
	tfd := tf.fn("Tail", "Simplify")
	if tfd == nil {
		return "", fmt.Errorf("tail.go: Tail.Simplify not found")
	}
	b.WriteString("/-- Tail.Simplify (tail.go): the statements of its body -/\n")
	b.WriteString("def tailSimplify : List String := " + c18LeanStrs(c18Stmts(tf, tfd.Body.List, map[string]string{tf.recvVar(tfd): "t"})) + "\n\n")

	// ---- bag.ObjectToBag -----------------------------------------------------------------------
	sf, err := c18Parse(repo, "pkg", "bag", "set.go")
	if err != nil {
		return "", err
	}
	o2b := sf.fn("", "ObjectToBag")
	if o2b == nil {
		return "", fmt.Errorf("pkg/bag/set.go: ObjectToBag not found")
	}
	var objParam string
	for _, p := range o2b.Type.Params.List {
		if sf.show(p.Type) == "slip.Object" && len(p.Names) == 1 {
			objParam = p.Names[0].Name
		}
	}
	res := "v"
	if o2b.Type.Results != nil && len(o2b.Type.Results.List) == 1 && len(o2b.Type.Results.List[0].Names) == 1 {
		res = o2b.Type.Results.List[0].Names[0].Name
	}
	ots, ov := c18TypeSwitch(sf, o2b, objParam)
	if ots == nil {
		return "", fmt.Errorf("pkg/bag/set.go: ObjectToBag has no type switch over its object")
	}
	var caseTypes []string
	defaultText := ""
	bigCode := "(.other \"no *slip.Bignum case\")"
	var symbolFacts, listFacts []string
	for _, st := range ots.Body.List {
		cc := st.(*ast.CaseClause)
		if cc.List == nil {
			defaultText = strings.Join(c18Stmts(sf, cc.Body, map[string]string{ov: "val", res: "v"}), "; ")
			continue
		}
		for _, te := range cc.List {
			ty := sf.show(te)
			caseTypes = append(caseTypes, ty)
			switch ty {
			case "*slip.Bignum":
				bt := &c18Tr{src: sf, env: map[string]string{ov: "i"}, strs: map[string]bool{}}
				code, err := bt.body(cc.Body, res, func(t *c18Tr, e ast.Expr) string { return t.val(e) })
				if err != nil {
					code = "(.other " + c18LeanStr(err.Error()) + ")"
				}
				bigCode = code
			case "slip.Symbol":
				symbolFacts = c18Stmts(sf, cc.Body, map[string]string{ov: "val", res: "v"})
			case "slip.List":
				listFacts = c18Stmts(sf, cc.Body, map[string]string{ov: "val", res: "v"})
			}
		}
	}
	sort.Strings(caseTypes)
	b.WriteString("/-- ObjectToBag (pkg/bag/set.go): the types its type switch names (sorted) -/\n")
	b.WriteString("def objectToBagCases : List String := " + c18LeanStrs(caseTypes) + "\n\n")
	b.WriteString("/-- … and what its default clause does -/\n")
	b.WriteString("def objectToBagDefault : String := " + c18LeanStr(defaultText) + "\n\n")
	b.WriteString("/-- the *slip.Bignum case as code over the integer `i` -/\n")
	b.WriteString("def objectToBagBignum (i : Int) : Val := " + bigCode + "\n\n")
	b.WriteString("/-- the slip.Symbol case: its statements (`val` the symbol, `v` the result) -/\n")
	b.WriteString("def objectToBagSymbol : List String := " + c18LeanStrs(symbolFacts) + "\n\n")
	b.WriteString("/-- the slip.List case: its statements, nested blocks flattened in source order -/\n")
	b.WriteString("def objectToBagList : List String := " + c18LeanStrs(listFacts) + "\n\n")
	b.WriteString("end SlipVerif.Gen.BagBridge\n")
	return b.String(), nil
}

// c18CaseText describes the body of a non-integer case of SimpleObject.
func c18CaseText(src *c18File, cc *ast.CaseClause, tv, result string) string {
	ren := map[string]string{tv: "tv", result: "obj"}
	return strings.Join(c18Stmts(src, cc.Body, ren), "; ")
}

// c18Stmts flattens a statement list into one line per simple statement; compound statements
// contribute a header line (`if <cond>`, `else`, `range <x>`, `switch <tag>`, `case <types>`) followed
// by their bodies and `end`. Loop variables are renamed rk / rv, declared locals l1, l2, …. Comments never appear (go/ast without comments).
func c18Stmts(src *c18File, stmts []ast.Stmt, ren0 map[string]string) []string {
	var out []string
	// α-normalisation: every name declared inside the statements (:=, var, type-switch binding) is
	// written l1, l2, … in order of declaration, so renaming a local variable changes nothing
	ren := map[string]string{}
	for k, v := range ren0 {
		ren[k] = v
	}
	nloc := 0
	declare := func(e ast.Expr) {
		if id, ok := e.(*ast.Ident); ok && id.Name != "_" && ren[id.Name] == "" {
			nloc++
			ren[id.Name] = fmt.Sprintf("l%d", nloc)
		}
	}
	for _, st := range stmts {
		ast.Inspect(st, func(n ast.Node) bool {
			switch d := n.(type) {
			case *ast.AssignStmt:
				if d.Tok == token.DEFINE {
					for _, l := range d.Lhs {
						declare(l)
					}
				}
			case *ast.ValueSpec:
				for _, nm := range d.Names {
					declare(nm)
				}
			}
			return true
		})
	}
	var walk func(st ast.Stmt, ren map[string]string)
	block := func(list []ast.Stmt, ren map[string]string) {
		for _, s := range list {
			walk(s, ren)
		}
	}
	walk = func(st ast.Stmt, ren map[string]string) {
		switch s := st.(type) {
		case *ast.IfStmt:
			h := "if "
			if s.Init != nil {
				h += src.showAs(s.Init, ren) + "; "
			}
			out = append(out, h+src.showAs(s.Cond, ren))
			block(s.Body.List, ren)
			switch e := s.Else.(type) {
			case *ast.BlockStmt:
				out = append(out, "else")
				block(e.List, ren)
			case *ast.IfStmt:
				out = append(out, "else")
				walk(e, ren)
			}
			out = append(out, "end")
		case *ast.RangeStmt:
			r2 := map[string]string{}
			for k, v := range ren {
				r2[k] = v
			}
			if id, ok := s.Key.(*ast.Ident); ok && id.Name != "_" {
				r2[id.Name] = "rk"
			}
			if id, ok := s.Value.(*ast.Ident); ok && id.Name != "_" {
				r2[id.Name] = "rv"
			}
			out = append(out, "range "+src.showAs(s.X, ren))
			block(s.Body.List, r2)
			out = append(out, "end")
		case *ast.TypeSwitchStmt:
			out = append(out, "switch "+src.showAs(s.Assign, ren))
			for _, c := range s.Body.List {
				cc := c.(*ast.CaseClause)
				if cc.List == nil {
					out = append(out, "default")
				} else {
					var ts []string
					for _, e := range cc.List {
						ts = append(ts, src.showAs(e, ren))
					}
					out = append(out, "case "+strings.Join(ts, ", "))
				}
				block(cc.Body, ren)
			}
			out = append(out, "end")
		case *ast.SwitchStmt:
			h := "switch"
			if s.Tag != nil {
				h += " " + src.showAs(s.Tag, ren)
			}
			out = append(out, h)
			for _, c := range s.Body.List {
				cc := c.(*ast.CaseClause)
				if cc.List == nil {
					out = append(out, "default")
				} else {
					var ts []string
					for _, e := range cc.List {
						ts = append(ts, src.showAs(e, ren))
					}
					out = append(out, "case "+strings.Join(ts, ", "))
				}
				block(cc.Body, ren)
			}
			out = append(out, "end")
		case *ast.BlockStmt:
			block(s.List, ren)
		case *ast.DeclStmt:
			// a bare declaration carries no behaviour
		case *ast.ExprStmt:
			// raising a condition: the message texts are not behaviour the property constrains
			if c, ok := s.X.(*ast.CallExpr); ok {
				fn := src.show(c.Fun)
				if fn == "panic" || strings.HasSuffix(fn, "Panic") {
					out = append(out, "raise")
					return
				}
			}
			out = append(out, src.showAs(st, ren))
		default:
			out = append(out, src.showAs(st, ren))
		}
	}
	block(stmts, ren)
	return out
}
