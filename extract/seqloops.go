package main

// SeqLoops (C14): a small translator of the integer control skeleton of the sequence functions'
// scan loops in pkg/cl/*.go into Lean definitions.
//
// For every function of the table `slSites` the generator walks the body and translates
//   * every index loop  `for i := INIT; COND; i++ / i--`  and  `for i, x := range seq`
//     into an `IdxLoop` value: first index, continuation test, step, and the guard of a leading
//     `if GUARD { …; continue }` statement (elements kept without being tested), all as Lean terms
//     over Int (`<`, `<=`, `==`, `&&`, `||`, `!`, `+`, `-` of the Go source are translated
//     operator by operator), together with the branch the loop stands in (`if sfv.fromEnd` / else)
//     and whether a reversal loop follows it in the same block;
//   * the statement that defaults and clamps the end index
//     (`if sfv.end < 0 || len(seq) < sfv.end { sfv.end = len(seq) }`) into `normEnd`;
//   * the re-slicing of position/find (`len(seq) <= start` → nil, `seq[start:end]` / `seq[start:]`)
//     into a `Window` value, and the index expression handed back on a match (`sfv.start + i`);
//   * the argument order of every call of the :test function / predicate
//     (`sfv.test.Call(s, slip.List{sfv.item, key}, d2)`), the `sort.` function called by
//     sort / stable-sort, which run `merge` takes from when the predicate holds, the defaults the
//     shared keyword parser assigns (`sfv.end = -1`, `sfv.count = math.MaxInt`) and the acceptance
//     test of a :start/:end value (`0 <= num`).
//
// Variables: n = number of elements (`len(seq)` of a list, `len(ra)`, `len(ba)`), nb = byte length
// of a Go string (`len(seq)` where seq is a slip.String — differs from n for non-ASCII text),
// s = start, e = end, lim = the :count limit, cnt = matches so far, i = the loop index.
// The obligations over these definitions are in lean/SlipVerif/Theorems/GenC14.lean.

import (
	"bytes"
	"fmt"
	"go/ast"
	"go/parser"
	"go/printer"
	"go/token"
	"path/filepath"
	"sort"
	"strconv"
	"strings"
)

type slSite struct {
	file  string
	recv  string // receiver type name ("" = plain function)
	fn    string
	class string // loop class the obligations are stated for
	kind  string // list | string | octets | any: decides what len(seq) means
}

var slSites = []slSite{
	{"delete.go", "Delete", "inList", "delete", "list"}, {"delete.go", "Delete", "inString", "delete", "string"}, {"delete.go", "Delete", "inOctets", "delete", "octets"},
	{"delete-if.go", "DeleteIf", "inList", "delete", "list"}, {"delete-if.go", "DeleteIf", "inString", "delete", "string"}, {"delete-if.go", "DeleteIf", "inOctets", "delete", "octets"},
	{"delete-duplicates.go", "dupInfo", "inList", "dups", "list"}, {"delete-duplicates.go", "dupInfo", "inString", "dups", "string"}, {"delete-duplicates.go", "dupInfo", "inOctets", "dups", "octets"},
	{"count.go", "Count", "inList", "count", "list"}, {"count.go", "Count", "inString", "count", "string"},
	{"count-if.go", "CountIf", "inList", "count", "list"}, {"count-if.go", "CountIf", "inString", "count", "string"},
	{"substitute.go", "subRep", "replace", "subst", "list"}, {"substitute.go", "subRep", "replaceBytes", "subst", "octets"},
	{"substitute-if.go", "subIfRep", "replace", "subst", "list"}, {"substitute-if.go", "subIfRep", "replaceBytes", "subst", "octets"},
	{"position.go", "Position", "inList", "window", "list"}, {"position.go", "Position", "inString", "window", "string"}, {"position.go", "Position", "inOctets", "window", "octets"},
	{"position-if.go", "PositionIf", "inList", "window", "list"}, {"position-if.go", "PositionIf", "inString", "window", "string"}, {"position-if.go", "PositionIf", "inOctets", "window", "octets"},
	{"find.go", "Find", "inList", "window", "list"}, {"find.go", "Find", "inString", "window", "string"}, {"find.go", "Find", "inOctets", "window", "octets"},
	{"find-if.go", "FindIf", "inList", "window", "list"}, {"find-if.go", "FindIf", "inString", "window", "string"}, {"find-if.go", "FindIf", "inOctets", "window", "octets"},
}

// files whose :test / predicate calls are listed with their argument order
var slCallFiles = []string{
	"delete.go", "delete-if.go", "count.go", "count-if.go", "find.go", "find-if.go", "position.go", "position-if.go",
	"substitute.go", "substitute-if.go", "delete-duplicates.go", "member.go", "member-if.go", "assoc.go", "assoc-if.go",
	"rassoc.go", "rassoc-if.go", "search.go", "mismatch.go", "set-difference.go", "subsetp.go", "intersection.go", "union.go",
	"merge.go", "sort.go", "stable-sort.go",
}

func slText(fset *token.FileSet, n ast.Node) string {
	var b bytes.Buffer
	_ = printer.Fprint(&b, fset, n)
	return strings.Join(strings.Fields(b.String()), " ")
}

type slTr struct {
	fset *token.FileSet
	env  map[string]string
}

// intExpr translates a Go integer expression into a Lean Int term
func (t *slTr) intExpr(e ast.Expr) (string, error) {
	if v, ok := t.env[slText(t.fset, e)]; ok {
		return v, nil
	}
	switch te := e.(type) {
	case *ast.ParenExpr:
		return t.intExpr(te.X)
	case *ast.BasicLit:
		if te.Kind == token.INT {
			return te.Value, nil
		}
	case *ast.UnaryExpr:
		if te.Op == token.SUB {
			x, err := t.intExpr(te.X)
			if err != nil {
				return "", err
			}
			return "(-" + x + ")", nil
		}
	case *ast.BinaryExpr:
		var op string
		switch te.Op {
		case token.ADD:
			op = "+"
		case token.SUB:
			op = "-"
		case token.MUL:
			op = "*"
		default:
			return "", fmt.Errorf("integer operator %s not translated: %s", te.Op, slText(t.fset, e))
		}
		x, err := t.intExpr(te.X)
		if err != nil {
			return "", err
		}
		y, err := t.intExpr(te.Y)
		if err != nil {
			return "", err
		}
		return "(" + x + " " + op + " " + y + ")", nil
	}
	return "", fmt.Errorf("not an integer expression over the known variables: %s", slText(t.fset, e))
}

// boolExpr translates a Go condition over integers into a Lean Prop
func (t *slTr) boolExpr(e ast.Expr) (string, error) {
	switch te := e.(type) {
	case *ast.ParenExpr:
		return t.boolExpr(te.X)
	case *ast.UnaryExpr:
		if te.Op == token.NOT {
			x, err := t.boolExpr(te.X)
			if err != nil {
				return "", err
			}
			return "(¬ " + x + ")", nil
		}
	case *ast.BinaryExpr:
		switch te.Op {
		case token.LAND, token.LOR:
			x, err := t.boolExpr(te.X)
			if err != nil {
				return "", err
			}
			y, err := t.boolExpr(te.Y)
			if err != nil {
				return "", err
			}
			op := "∧"
			if te.Op == token.LOR {
				op = "∨"
			}
			return "(" + x + " " + op + " " + y + ")", nil
		case token.LSS, token.LEQ, token.GTR, token.GEQ, token.EQL, token.NEQ:
			x, err := t.intExpr(te.X)
			if err != nil {
				return "", err
			}
			y, err := t.intExpr(te.Y)
			if err != nil {
				return "", err
			}
			op := map[token.Token]string{token.LSS: "<", token.LEQ: "≤", token.GTR: ">", token.GEQ: "≥", token.EQL: "=", token.NEQ: "≠"}[te.Op]
			return "(" + x + " " + op + " " + y + ")", nil
		}
	}
	return "", fmt.Errorf("not a condition over integers: %s", slText(t.fset, e))
}

type slLoop struct {
	name, file, fn, class, kind, branch string
	init, cond, skip                      string
	step                                  int
	reversedAfter                         bool
}

// slBoolName: the boolean a branch tests, without its receiver (`sfv.fromEnd` → fromEnd, `sr.rev` → fromEnd)
func slBoolName(txt string) string {
	if i := strings.LastIndex(txt, "."); i >= 0 {
		txt = txt[i+1:]
	}
	if txt == "rev" {
		return "fromEnd"
	}
	return txt
}

func slFindFunc(f *ast.File, recv, name string) *ast.FuncDecl {
	for _, d := range f.Decls {
		fd, ok := d.(*ast.FuncDecl)
		if !ok || fd.Name.Name != name || fd.Body == nil {
			continue
		}
		if recv == "" {
			if fd.Recv == nil {
				return fd
			}
			continue
		}
		if fd.Recv == nil || len(fd.Recv.List) != 1 {
			continue
		}
		rt := fd.Recv.List[0].Type
		if st, ok := rt.(*ast.StarExpr); ok {
			rt = st.X
		}
		if id, ok := rt.(*ast.Ident); ok && id.Name == recv {
			return fd
		}
	}
	return nil
}

// isSwapLoop: the in-place reversal `for i := len(x)/2 - 1; 0 <= i; i-- { x[i], x[j] = x[j], x[i] }`
func slIsSwapLoop(fs *ast.ForStmt) bool {
	if len(fs.Body.List) != 1 {
		return false
	}
	as, ok := fs.Body.List[0].(*ast.AssignStmt)
	return ok && len(as.Lhs) == 2 && len(as.Rhs) == 2
}

func slEnv(kind string) map[string]string {
	env := map[string]string{
		"i": "i", "count": "cnt",
		"sfv.start": "s", "sfv.end": "e", "sfv.count": "lim",
		"di.start": "s", "di.end": "e",
		"sr.start": "s", "sr.end": "e",
		"len(ra)": "n", "len(ba)": "n", "len(seq)": "n",
		"math.MaxInt": "MaxInt",
	}
	if kind == "string" {
		env["len(seq)"] = "nb"
	}
	return env
}

func init() {
	generators["SeqLoops"] = func(repo string) (string, error) {
		files := map[string]*ast.File{}
		fset := token.NewFileSet()
		load := func(name string) (*ast.File, error) {
			if f, ok := files[name]; ok {
				return f, nil
			}
			f, err := parser.ParseFile(fset, filepath.Join(repo, "pkg", "cl", name), nil, 0)
			if err != nil {
				return nil, err
			}
			files[name] = f
			return f, nil
		}
		var loops []slLoop
		var b strings.Builder
		b.WriteString("/- GENERATED by /verif/extract (seqloops.go) from pkg/cl/*.go — do not edit.\n")
		b.WriteString("   n = number of elements, nb = byte length of a Go string, s = start, e = end, lim = :count limit,\n")
		b.WriteString("   cnt = matches so far, i = loop index. -/\n")
		b.WriteString("set_option linter.unusedVariables false\nnamespace SlipVerif.Gen.SeqLoops\n\n")
		b.WriteString("def MaxInt : Int := 9223372036854775807\n\n")
		b.WriteString("/-- `for i := init; cond; i += step { if skip { keep; continue } … }` -/\n")
		b.WriteString("structure IdxLoop where\n  file : String\n  func : String\n  kind : String\n  branch : String\n")
		b.WriteString("  init : (n s e : Int) → Int\n  cond : (i n s e : Int) → Bool\n  step : Int\n")
		b.WriteString("  skip : (i n s e lim cnt : Int) → Bool\n  reversedAfter : Bool\n\n")
		b.WriteString("/-- position / find: `if early { return nil }; if cut { seq = seq[lo1:hi1] } else { seq = seq[lo2:] }`,\n    a match at window index i answers `ret` -/\n")
		b.WriteString("structure Window where\n  file : String\n  func : String\n  kind : String\n")
		b.WriteString("  early : (n nb s e : Int) → Bool\n  cut : (n nb s e : Int) → Bool\n")
		b.WriteString("  lo1 : (n s e : Int) → Int\n  hi1 : (n s e : Int) → Int\n  lo2 : (n s e : Int) → Int\n  rets : List ((i s : Int) → Int)\n\n")
		b.WriteString("/-- `if C { x.end = V }`: the defaulting / clamping of the end index -/\n")
		b.WriteString("structure NormEnd where\n  file : String\n  func : String\n  kind : String\n  norm : (n nb e : Int) → Int\n\n")

		var windows, norms []string
		normsByClass := map[string][]string{}
		for _, site := range slSites {
			f, err := load(site.file)
			if err != nil {
				return "", err
			}
			fd := slFindFunc(f, site.recv, site.fn)
			if fd == nil {
				return "", fmt.Errorf("%s: function %s.%s not found", site.file, site.recv, site.fn)
			}
			tr := &slTr{fset: fset, env: slEnv(site.kind)}
			base := strings.NewReplacer("-", "_", ".go", "").Replace(site.file) + "_" + site.fn
			nLoop := 0
			var werr error
			// the window of position / find (statements at the top level of the function)
			if site.class == "window" {
				early, cut, lo1, hi1, lo2 := "", "", "", "", ""
				var rets []string
				for _, st := range fd.Body.List {
					is, ok := st.(*ast.IfStmt)
					if !ok || is.Init != nil {
						continue
					}
					c, err := tr.boolExpr(is.Cond)
					if err != nil {
						continue
					}
					if len(is.Body.List) == 1 {
						if rs, ok := is.Body.List[0].(*ast.ReturnStmt); ok && len(rs.Results) == 1 && slText(fset, rs.Results[0]) == "nil" && early == "" {
							early = c
							continue
						}
						if as, ok := is.Body.List[0].(*ast.AssignStmt); ok && len(as.Rhs) == 1 && is.Else != nil {
							se, ok1 := as.Rhs[0].(*ast.SliceExpr)
							eb, ok2 := is.Else.(*ast.BlockStmt)
							if ok1 && ok2 && len(eb.List) == 1 && se.Low != nil && se.High != nil {
								if as2, ok := eb.List[0].(*ast.AssignStmt); ok && len(as2.Rhs) == 1 {
									if se2, ok := as2.Rhs[0].(*ast.SliceExpr); ok && se2.Low != nil && se2.High == nil {
										cut = c
										if lo1, err = tr.intExpr(se.Low); err != nil {
											return "", fmt.Errorf("%s %s: %v", site.file, site.fn, err)
										}
										if hi1, err = tr.intExpr(se.High); err != nil {
											return "", fmt.Errorf("%s %s: %v", site.file, site.fn, err)
										}
										if lo2, err = tr.intExpr(se2.Low); err != nil {
											return "", fmt.Errorf("%s %s: %v", site.file, site.fn, err)
										}
									}
								}
							}
						}
					}
				}
				if early == "" || cut == "" {
					return "", fmt.Errorf("%s %s: the re-slicing of the sequence was not recognised", site.file, site.fn)
				}
				// index answers: return slip.Fixnum(EXPR)
				ast.Inspect(fd.Body, func(n ast.Node) bool {
					rs, ok := n.(*ast.ReturnStmt)
					if !ok || len(rs.Results) != 1 {
						return true
					}
					ce, ok := rs.Results[0].(*ast.CallExpr)
					if !ok || len(ce.Args) != 1 || slText(fset, ce.Fun) != "slip.Fixnum" {
						return true
					}
					x, err := tr.intExpr(ce.Args[0])
					if err != nil {
						werr = fmt.Errorf("%s %s: %v", site.file, site.fn, err)
						return true
					}
					rets = append(rets, "fun i s => "+x)
					return true
				})
				if werr != nil {
					return "", werr
				}
				fmt.Fprintf(&b, "def %s_window : Window := {\n  file := %q, func := %q, kind := %q,\n  early := fun n nb s e => decide %s,\n  cut := fun n nb s e => decide %s,\n  lo1 := fun n s e => %s,\n  hi1 := fun n s e => %s,\n  lo2 := fun n s e => %s,\n  rets := [%s] }\n\n",
					base, site.file, site.fn, site.kind, early, cut, lo1, hi1, lo2, strings.Join(rets, ", "))
				windows = append(windows, base+"_window")
			}
			// walk the statements, tracking the branch
			var walk func(list []ast.Stmt, branch string)
			walk = func(list []ast.Stmt, branch string) {
				for idx, st := range list {
					switch ts := st.(type) {
					case *ast.IfStmt:
						ctxt := slText(fset, ts.Cond)
						// end defaulting: if C { x.end = V }
						if ts.Else == nil && ts.Init == nil && len(ts.Body.List) == 1 {
							if as, ok := ts.Body.List[0].(*ast.AssignStmt); ok && len(as.Lhs) == 1 && len(as.Rhs) == 1 && tr.env[slText(fset, as.Lhs[0])] == "e" {
								c, err1 := tr.boolExpr(ts.Cond)
								v, err2 := tr.intExpr(as.Rhs[0])
								if err1 != nil || err2 != nil {
									werr = fmt.Errorf("%s %s: end defaulting not translated: %v %v", site.file, site.fn, err1, err2)
									return
								}
								fmt.Fprintf(&b, "def %s_normEnd : NormEnd := {\n  file := %q, func := %q, kind := %q,\n  norm := fun n nb e => if %s then %s else e }\n\n", base, site.file, site.fn, site.kind, c, v)
								norms = append(norms, base+"_normEnd")
								normsByClass[site.class] = append(normsByClass[site.class], base+"_normEnd")
								continue
							}
						}
						neg := false
						cond := ts.Cond
						if ue, ok := cond.(*ast.UnaryExpr); ok && ue.Op == token.NOT {
							neg = true
							cond = ue.X
						}
						isFlag := false
						switch cond.(type) {
						case *ast.SelectorExpr, *ast.Ident:
							isFlag = true
						}
						if isFlag {
							nm := slBoolName(slText(fset, cond))
							pos, negn := nm, "!"+nm
							if neg {
								pos, negn = negn, pos
							}
							join := func(a, c string) string {
								if a == "" {
									return c
								}
								return a + " " + c
							}
							walk(ts.Body.List, join(branch, pos))
							if eb, ok := ts.Else.(*ast.BlockStmt); ok {
								walk(eb.List, join(branch, negn))
							}
						} else {
							_ = ctxt
							walk(ts.Body.List, branch)
							if eb, ok := ts.Else.(*ast.BlockStmt); ok {
								walk(eb.List, branch)
							}
						}
					case *ast.ForStmt:
						if slIsSwapLoop(ts) {
							continue
						}
						as, ok := ts.Init.(*ast.AssignStmt)
						if !ok || len(as.Lhs) != 1 || slText(fset, as.Lhs[0]) != "i" {
							continue // not an index loop (keyword parsing …)
						}
						lp := slLoop{file: site.file, fn: site.fn, class: site.class, kind: site.kind, branch: branch}
						var err error
						if lp.init, err = tr.intExpr(as.Rhs[0]); err != nil {
							werr = fmt.Errorf("%s %s: %v", site.file, site.fn, err)
							return
						}
						if lp.cond, err = tr.boolExpr(ts.Cond); err != nil {
							werr = fmt.Errorf("%s %s: %v", site.file, site.fn, err)
							return
						}
						inc, ok := ts.Post.(*ast.IncDecStmt)
						if !ok || slText(fset, inc.X) != "i" {
							werr = fmt.Errorf("%s %s: loop step not i++ / i--", site.file, site.fn)
							return
						}
						lp.step = 1
						if inc.Tok == token.DEC {
							lp.step = -1
						}
						lp.skip = "False"
						if len(ts.Body.List) > 0 {
							if is, ok := ts.Body.List[0].(*ast.IfStmt); ok && len(is.Body.List) > 0 {
								if br, ok := is.Body.List[len(is.Body.List)-1].(*ast.BranchStmt); ok && br.Tok == token.CONTINUE {
									if g, err := tr.boolExpr(is.Cond); err == nil {
										lp.skip = g
									}
								}
							}
						}
						for _, later := range list[idx+1:] {
							if fs, ok := later.(*ast.ForStmt); ok && slIsSwapLoop(fs) {
								lp.reversedAfter = true
							}
						}
						nLoop++
						lp.name = fmt.Sprintf("%s_loop%d", base, nLoop)
						loops = append(loops, lp)
					case *ast.RangeStmt:
						// for i, x := range seq  /  for _, x := range seq : every index of the window, ascending
						xt := slText(fset, ts.X)
						if xt != "seq" && xt != "ra" && xt != "ba" {
							continue
						}
						lp := slLoop{file: site.file, fn: site.fn, class: site.class, kind: site.kind, branch: branch,
							init: "0", cond: "(i < n)", step: 1, skip: "False"}
						nLoop++
						lp.name = fmt.Sprintf("%s_loop%d", base, nLoop)
						loops = append(loops, lp)
					case *ast.BlockStmt:
						walk(ts.List, branch)
					}
				}
			}
			walk(fd.Body.List, "")
			if werr != nil {
				return "", werr
			}
			if nLoop == 0 {
				return "", fmt.Errorf("%s %s: no index loop found", site.file, site.fn)
			}
		}
		for _, lp := range loops {
			fmt.Fprintf(&b, "def %s : IdxLoop := {\n  file := %q, func := %q, kind := %q, branch := %q,\n  init := fun n s e => %s,\n  cond := fun i n s e => decide %s,\n  step := %d,\n  skip := fun i n s e lim cnt => decide %s,\n  reversedAfter := %v }\n\n",
				lp.name, lp.file, lp.fn, lp.kind, lp.branch, lp.init, lp.cond, lp.step, lp.skip, lp.reversedAfter)
		}
		// class lists: class × direction
		groups := map[string][]string{}
		for _, lp := range loops {
			dir := "Fwd"
			if lp.step < 0 {
				dir = "Bwd"
			}
			groups[lp.class+dir] = append(groups[lp.class+dir], lp.name)
		}
		var gnames []string
		for g := range groups {
			gnames = append(gnames, g)
		}
		sort.Strings(gnames)
		for _, g := range gnames {
			fmt.Fprintf(&b, "def %s : List IdxLoop := [%s]\n\n", g, strings.Join(groups[g], ", "))
		}
		fmt.Fprintf(&b, "def windows : List Window := [%s]\n\n", strings.Join(windows, ", "))
		fmt.Fprintf(&b, "def normEnds : List NormEnd := [%s]\n\n", strings.Join(norms, ", "))
		var nclasses []string
		for c := range normsByClass {
			nclasses = append(nclasses, c)
		}
		sort.Strings(nclasses)
		for _, c := range nclasses {
			fmt.Fprintf(&b, "def %sNormEnds : List NormEnd := [%s]\n\n", c, strings.Join(normsByClass[c], ", "))
		}

		// --- argument order of the :test / predicate calls, sort functions, merge
		b.WriteString("/-- file ↦ the argument lists of every call of the :test function / predicate, in source order, de-duplicated -/\n")
		b.WriteString("def testCallArgs : List (String × List (List String)) := [\n")
		var sortCalls []string
		mergeLess, mergeThen, mergeElse := "", "", ""
		for k, name := range slCallFiles {
			f, err := load(name)
			if err != nil {
				return "", err
			}
			var lists []string
			seen := map[string]bool{}
			ast.Inspect(f, func(n ast.Node) bool {
				ce, ok := n.(*ast.CallExpr)
				if !ok {
					return true
				}
				sel, ok := ce.Fun.(*ast.SelectorExpr)
				if !ok {
					return true
				}
				if id, ok := sel.X.(*ast.Ident); ok && id.Name == "sort" && (name == "sort.go" || name == "stable-sort.go") {
					sortCalls = append(sortCalls, fmt.Sprintf("(%q, %q)", name, sel.Sel.Name))
					return true
				}
				if sel.Sel.Name != "Call" || len(ce.Args) != 3 {
					return true
				}
				who := strings.ToLower(slText(fset, sel.X))
				// every caller but the :key function (sfv.key, sr.kc, keyFunc, kc) is the test / predicate
				if strings.HasSuffix(who, "key") || strings.HasSuffix(who, "kc") || strings.HasSuffix(who, "keyfunc") {
					return true
				}
				cl, ok := ce.Args[1].(*ast.CompositeLit)
				if !ok {
					return true
				}
				var as []string
				for _, el := range cl.Elts {
					as = append(as, strconv.Quote(slText(fset, el)))
				}
				l := "[" + strings.Join(as, ", ") + "]"
				if !seen[l] {
					seen[l] = true
					lists = append(lists, l)
				}
				return true
			})
			if len(lists) == 0 && name != "sort.go" && name != "stable-sort.go" {
				return "", fmt.Errorf("%s: no call of a test function / predicate found", name)
			}
			sep := ","
			if k == len(slCallFiles)-1 {
				sep = ""
			}
			fmt.Fprintf(&b, "  (%q, [%s])%s\n", name, strings.Join(lists, ", "), sep)
			if name == "merge.go" {
				// if less { rlist = append(rlist, seqX[0]) … } else { … seqY[0] … }
				ast.Inspect(f, func(n ast.Node) bool {
					is, ok := n.(*ast.IfStmt)
					if !ok || slText(fset, is.Cond) != "less" || is.Else == nil {
						return true
					}
					take := func(bl *ast.BlockStmt) string {
						out := ""
						ast.Inspect(bl, func(m ast.Node) bool {
							if ce, ok := m.(*ast.CallExpr); ok && slText(fset, ce.Fun) == "append" && len(ce.Args) == 2 {
								if ix, ok := ce.Args[1].(*ast.IndexExpr); ok {
									out = slText(fset, ix.X)
								}
							}
							return true
						})
						return out
					}
					mergeThen = take(is.Body)
					if eb, ok := is.Else.(*ast.BlockStmt); ok {
						mergeElse = take(eb)
					}
					return true
				})
				// less = predicate.Call(s, slip.List{a, b}, d2) != nil
				ast.Inspect(f, func(n ast.Node) bool {
					as, ok := n.(*ast.AssignStmt)
					if !ok || len(as.Lhs) != 1 || slText(fset, as.Lhs[0]) != "less" {
						return true
					}
					ast.Inspect(as.Rhs[0], func(m ast.Node) bool {
						if ce, ok := m.(*ast.CallExpr); ok {
							if sel, ok := ce.Fun.(*ast.SelectorExpr); ok && sel.Sel.Name == "Call" && len(ce.Args) == 3 {
								if cl, ok := ce.Args[1].(*ast.CompositeLit); ok && len(cl.Elts) == 2 {
									mergeLess = slText(fset, cl.Elts[0]) + " " + slText(fset, cl.Elts[1])
								}
							}
						}
						return true
					})
					return true
				})
			}
		}
		b.WriteString("]\n\n")
		fmt.Fprintf(&b, "/-- the `sort.` functions called by sort.go / stable-sort.go -/\ndef sortCalls : List (String × String) := [%s]\n\n", strings.Join(sortCalls, ", "))
		if mergeLess == "" || mergeThen == "" || mergeElse == "" {
			return "", fmt.Errorf("merge.go: the merge step (less := predicate(a, b); if less { take … } else { take … }) was not recognised")
		}
		fmt.Fprintf(&b, "/-- merge: `less = predicate(<mergeLessArgs>)`; the run the next element is taken from when less / otherwise -/\ndef mergeLessArgs : String := %q\ndef mergeTakesWhenLess : String := %q\ndef mergeTakesOtherwise : String := %q\n\n", mergeLess, mergeThen, mergeElse)

		// --- the shared keyword parser: defaults and the acceptance test of :start / :end values
		f, err := load("seqfunvars.go")
		if err != nil {
			return "", err
		}
		b.WriteString("/-- seqfunvars.go: (parser, field, default) assigned before the keywords are read -/\ndef parserDefaults : List (String × String × Int) := [")
		var defs []string
		type acc struct{ fn, kw, cond string }
		var accs []acc
		for _, fn := range []string{"setKeysItem", "setKeysIf"} {
			fd := slFindFunc(f, "seqFunVars", fn)
			if fd == nil {
				return "", fmt.Errorf("seqfunvars.go: %s not found", fn)
			}
			tr := &slTr{fset: fset, env: map[string]string{"math.MaxInt": "MaxInt", "num": "num"}}
			for _, st := range fd.Body.List {
				as, ok := st.(*ast.AssignStmt)
				if !ok || len(as.Lhs) != 1 || len(as.Rhs) != 1 {
					continue
				}
				l := slText(fset, as.Lhs[0])
				if !strings.HasPrefix(l, "sfv.") || l == "sfv.item" || l == "sfv.test" {
					continue
				}
				v, err := tr.intExpr(as.Rhs[0])
				if err != nil {
					continue
				}
				defs = append(defs, fmt.Sprintf("(%q, %q, %s)", fn, strings.TrimPrefix(l, "sfv."), v))
			}
			// case ":start": if num, ok := args[pos+1].(slip.Fixnum); ok && COND { sfv.start = int(num) }
			ast.Inspect(fd.Body, func(n ast.Node) bool {
				cc, ok := n.(*ast.CaseClause)
				if !ok || len(cc.List) != 1 || len(cc.Body) == 0 {
					return true
				}
				bl, ok := cc.List[0].(*ast.BasicLit)
				if !ok {
					return true
				}
				kw, _ := strconv.Unquote(bl.Value)
				if kw != ":start" && kw != ":end" {
					return true
				}
				is, ok := cc.Body[0].(*ast.IfStmt)
				if !ok {
					return true
				}
				cond := "True"
				if be, ok := is.Cond.(*ast.BinaryExpr); ok && be.Op == token.LAND && slText(fset, be.X) == "ok" {
					c, err := tr.boolExpr(be.Y)
					if err != nil {
						werrG(&cond, err)
					} else {
						cond = c
					}
				} else if slText(fset, is.Cond) != "ok" {
					cond = "False"
				}
				accs = append(accs, acc{fn, kw, cond})
				return true
			})
		}
		b.WriteString(strings.Join(defs, ", "))
		b.WriteString("]\n\n")
		b.WriteString("/-- seqfunvars.go: (parser, keyword) ↦ the test a fixnum value must pass to be accepted -/\n")
		var accNames []string
		for _, a := range accs {
			nm := fmt.Sprintf("accepts_%s_%s", a.fn, strings.TrimPrefix(a.kw, ":"))
			fmt.Fprintf(&b, "def %s (num : Int) : Prop := %s\n", nm, a.cond)
			accNames = append(accNames, nm)
		}
		fmt.Fprintf(&b, "\ndef boundAccepts : List (Int → Prop) := [%s]\n\n", strings.Join(accNames, ", "))
		b.WriteString("end SlipVerif.Gen.SeqLoops\n")
		return b.String(), nil
	}
}

func werrG(dst *string, err error) { *dst = "False /- not translated: " + strings.ReplaceAll(err.Error(), "-/", "- /") + " -/" }
