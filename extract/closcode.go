package main

// Gen/ClosCode.lean (C12): a Go → Lean translation of the functions of pkg/clos that decide the
// class precedence list, readiness, redefinition and slot initialisation.  Every translated
// function becomes a Lean definition over the combinators of lean/SlipVerif/Model/ClosGo.lean
// (Ctl / forRange / forEver), statement by statement; Theorems/GenC12.lean proves that the
// translated definitions compute what the hand model (Model/Clos.lean) says, so that the proofs
// are re-checked against the code as it is now on every run.
//
// What the translator does (and what is therefore trusted, see notes/C12.md):
//   * statements: assignment, `:=`, `var`, if/else (with init), for-range over slices and maps,
//     the reverse index loop `for i := len(x) - 1; 0 <= i; i--` (and the forward one), `for { }`
//     (fuel), continue, break, return, calls of other translated functions;
//   * slicing: a statement that (deeply) assigns no tracked field / state variable, contains no
//     return and no branch leaving it, and calls nothing that writes a tracked field is dropped
//     (a `-- [sliced]` comment is left); a relevant statement must translate completely, otherwise
//     the generator fails (EXTRACT-FAILED → the obligation is reported broken);
//   * data: class pointers are class names, nil = no class of that name in the heap, maps are
//     association lists, type assertions to isStandardClass / *StandardClass succeed.

import (
	"bytes"
	"fmt"
	"go/ast"
	"go/parser"
	"go/printer"
	"go/token"
	"path/filepath"
	"sort"
	"strings"
)

func init() { generators["ClosCode"] = genClosCode }

type ccKind string

const (
	kClass    ccKind = "class"    // slip.Class / *StandardClass / isStandardClass  → Name
	kNames    ccKind = "names"    // []slip.Symbol of class names, []slip.Class      → List Name
	kSyms     ccKind = "syms"     // []slip.Symbol on a precedence list              → List Sym
	kSym      ccKind = "sym"      // slip.Symbol on a precedence list                → Sym
	kOptSym   ccKind = "optsym"   // a symbol that may be empty                      → Option Sym
	kBool     ccKind = "bool"     //                                                 → Bool
	kNat      ccKind = "nat"      //                                                 → Nat
	kStr      ccKind = "str"      // a class / slot / initarg name                   → Name
	kSlot     ccKind = "slot"     // *SlotDef                                        → GSlot
	kSlots    ccKind = "slots"    // []*SlotDef                                      → List GSlot
	kSlotMap  ccKind = "slotmap"  // map[string]*SlotDef                             → AList GSlot
	kSlotsMap ccKind = "slotsmap" // map[string][]*SlotDef                           → AList (List GSlot)
	kOptVal   ccKind = "optval"   // slip.Object that may be slip.Unbound            → Option Val
	kValMap   ccKind = "valmap"   // map[string]slip.Object                          → AList (Option Val)
	kArgMap   ccKind = "argmap"   // supplied initargs                               → AList Val
	kStrMap   ccKind = "strmap"   // map[string]string                               → AList Name
	kVal      ccKind = "val"      // an evaluated slip.Object                        → Val
	kHeap     ccKind = "heap"
	kUnit     ccKind = "unit"
	kVars     ccKind = "vars"    // map[string]slip.Object of an instance (Unbound = none) → AList (Option Val)
	kTypeObj  ccKind = "typeobj" // obj.Type: the class object of an instance (context parameter T)
	kInst     ccKind = "instance" // *StandardObject held in the state (GObj)
	kStatus   ccKind = "status"   // how a function ended: 0 returned its object, 1 returned nil, 2 signalled an error
)

func (k ccKind) lean() string {
	switch k {
	case kClass, kStr:
		return "Name"
	case kNames:
		return "List Name"
	case kSyms:
		return "List Sym"
	case kSym:
		return "Sym"
	case kOptSym:
		return "Option Sym"
	case kBool:
		return "Bool"
	case kNat:
		return "Nat"
	case kSlot:
		return "GSlot"
	case kSlots:
		return "List GSlot"
	case kSlotMap:
		return "AList GSlot"
	case kSlotsMap:
		return "AList (List GSlot)"
	case kOptVal:
		return "Option Val"
	case kValMap:
		return "AList (Option Val)"
	case kArgMap:
		return "AList Val"
	case kStrMap:
		return "AList Name"
	case kVal:
		return "Val"
	case kHeap:
		return "Heap"
	case kUnit:
		return "Unit"
	case kVars:
		return "AList (Option Val)"
	case kInst:
		return "GObj"
	case kStatus:
		return "Nat"
	}
	return "?"
}

func (k ccKind) zero() string {
	switch k {
	case kBool:
		return "false"
	case kNat:
		return "0"
	case kOptSym, kOptVal:
		return "none"
	case kUnit:
		return "()"
	case kVal:
		return "nilVal"
	case kStatus:
		return "1"
	case kInst:
		return "{}"
	}
	return "[]"
}

// fields of *StandardClass the translation knows (Lean: GClass)
var ccClassFields = map[string]ccKind{
	"name": kStr, "supers": kNames, "inherit": kNames, "precedence": kSyms, "baseClass": kOptSym,
	"slotDefs": kSlotMap, "initArgs": kSlotsMap, "initForms": kSlotMap, "defaultInitArgs": kArgMap,
}

// fields of *SlotDef (Lean: GSlot)
var ccSlotFields = map[string]ccKind{
	"name": kStr, "initargs": kNames, "initform": kOptVal, "classStore": kBool,
}

type ccParam struct {
	goName string
	kind   ccKind
}

// ccFn describes one function to translate.
type ccFn struct {
	goName  string   // "StandardClass.mergeSupers" or "makeClassesReady"
	lean    string   // name of the generated definition (…​.body)
	recv    string   // "class": σ = GClass (receiver fields are the state); "": σ = generated structure
	heapCtx bool     // takes the heap as a read-only context parameter `H`
	heapSt  bool     // the heap is part of the state (`s.heap`)
	tracked []string // receiver fields whose assignments are translated
	params  []ccParam
	ret     ccKind
	fuel    bool   // contains `for { }` or calls a function that does
	startAt string // translate only from the first top-level statement that calls this function
	startAtRange string // … or from the first top-level `for … range <ident>`
	panics  bool   // slip.ErrorPanic / TypePanic end the function with status 2 (otherwise such calls are not modelled)
	ctxRecv string // the receiver is read-only context: its fields are read from this Lean parameter (a GClass)
	typeCtx bool   // takes the class object of the instance(s) as context parameter `T`
	doc     string
}

type ccVar struct {
	lean  string
	kind  ccKind
	state bool // lives in the state structure (mutable local)
}

type ccCtx struct {
	fset   *token.FileSet
	funcs  map[string]*ast.FuncDecl
	fns    map[string]*ccFn // by Go name
	fn     *ccFn
	recv   string // receiver identifier
	vars   map[string]ccVar
	writes map[string]map[string]bool // method name → receiver fields it (transitively) assigns
	b      strings.Builder
	poison map[string]string
	stVars []ccVar // state structure members, in order of discovery
	idx    map[string][2]string // reverse/forward index loop variable → (slice Go text, element lean var)
}

func (c *ccCtx) src(n ast.Node) string {
	var buf bytes.Buffer
	_ = printer.Fprint(&buf, c.fset, n)
	return strings.Join(strings.Fields(buf.String()), " ")
}

func (c *ccCtx) errf(n ast.Node, format string, a ...any) error {
	return fmt.Errorf("%s: %s: %s", c.fn.goName, fmt.Sprintf(format, a...), c.src(n))
}

var ccLeanKeywords = map[string]bool{"at": true, "from": true, "then": true, "end": true, "have": true, "show": true,
	"fun": true, "let": true, "in": true, "do": true, "by": true, "if": true, "else": true, "match": true, "with": true,
	"def": true, "theorem": true, "instance": true, "class": true, "structure": true, "open": true, "s": true, "H": true,
	"fuel": true, "T": true, "not": true, "default": true, "deriving": true, "where": true, "for": true, "return": true}

func ccIdent(n string) string {
	if ccLeanKeywords[n] {
		return n + "_"
	}
	return n
}

func (c *ccCtx) heap() string {
	if c.fn.heapSt {
		return "s.heap"
	}
	return "H"
}

// isRecvField: e is `recv.F`
func (c *ccCtx) isRecvField(e ast.Expr) (string, bool) {
	sel, ok := e.(*ast.SelectorExpr)
	if !ok || c.recv == "" {
		return "", false
	}
	id, ok := sel.X.(*ast.Ident)
	if !ok || id.Name != c.recv {
		return "", false
	}
	return sel.Sel.Name, true
}

func (c *ccCtx) isTracked(f string) bool {
	for _, t := range c.fn.tracked {
		if t == f {
			return true
		}
	}
	return false
}

func isIdent(e ast.Expr, name string) bool {
	id, ok := e.(*ast.Ident)
	return ok && id.Name == name
}

func isSel(e ast.Expr, x, sel string) bool {
	s, ok := e.(*ast.SelectorExpr)
	return ok && s.Sel.Name == sel && isIdent(s.X, x)
}

func isIntLit(e ast.Expr, v string) bool {
	l, ok := e.(*ast.BasicLit)
	return ok && l.Kind == token.INT && l.Value == v
}

// ---------------------------------------------------------------- expressions

func (c *ccCtx) expr(e ast.Expr) (string, ccKind, error) {
	switch t := e.(type) {
	case *ast.ParenExpr:
		return c.expr(t.X)
	case *ast.Ident:
		switch t.Name {
		case "true", "false":
			return t.Name, kBool, nil
		}
		if why, bad := c.poison[t.Name]; bad {
			return "", "", c.errf(e, "uses %s whose definition could not be translated (%s)", t.Name, why)
		}
		if v, ok := c.vars[t.Name]; ok {
			if v.state && v.kind == "object" { // a class object held by value: as a pointer it is its name
				return "s." + v.lean + ".name", kClass, nil
			}
			if v.state {
				return "s." + v.lean, v.kind, nil
			}
			return v.lean, v.kind, nil
		}
		return "", "", c.errf(e, "unknown identifier")
	case *ast.BasicLit:
		if t.Kind == token.INT {
			return t.Value, kNat, nil
		}
	case *ast.UnaryExpr:
		if t.Op == token.NOT {
			x, k, err := c.expr(t.X)
			if err != nil {
				return "", "", err
			}
			if k != kBool {
				return "", "", c.errf(e, "! of a %s", k)
			}
			return "(!" + x + ")", kBool, nil
		}
		if t.Op == token.AND { // &sc: a pointer to a class is the class
			return c.expr(t.X)
		}
	case *ast.BinaryExpr:
		return c.binary(t)
	case *ast.SelectorExpr:
		return c.selector(t)
	case *ast.SliceExpr:
		// x[:0] → empty
		if t.Low == nil && t.High != nil && isIntLit(t.High, "0") && !t.Slice3 {
			_, k, err := c.expr(t.X)
			if err != nil {
				return "", "", err
			}
			return "[]", k, nil
		}
	case *ast.IndexExpr:
		return c.index(t)
	case *ast.CompositeLit:
		if len(t.Elts) == 0 {
			if k, ok := c.typeKind(t.Type); ok {
				return "[]", k, nil
			}
		}
	case *ast.TypeAssertExpr:
		// x.(isStandardClass) / x.(*StandardClass): every class of the table is a standard class
		if k, ok := c.typeKind(t.Type); ok && k == kClass {
			x, xk, err := c.expr(t.X)
			if err != nil {
				return "", "", err
			}
			if xk != kClass {
				return "", "", c.errf(e, "type assertion on a %s", xk)
			}
			return x, kClass, nil
		}
	case *ast.CallExpr:
		return c.call(t)
	}
	return "", "", c.errf(e, "unsupported expression")
}

func (c *ccCtx) typeKind(t ast.Expr) (ccKind, bool) {
	s := c.src(t)
	switch s {
	case "isStandardClass", "*StandardClass", "slip.Class":
		return kClass, true
	case "[]isStandardClass", "[]slip.Class", "[]*StandardClass":
		return kNames, true
	case "[]slip.Symbol":
		return kSyms, true
	case "bool":
		return kBool, true
	case "map[string]*SlotDef":
		return kSlotMap, true
	case "map[string][]*SlotDef":
		return kSlotsMap, true
	case "map[string]string":
		return kStrMap, true
	case "map[string]slip.Object":
		return kArgMap, true
	case "slip.Object":
		return kOptVal, true
	case "[]*SlotDef":
		return kSlots, true
	}
	return "", false
}

func (c *ccCtx) binary(t *ast.BinaryExpr) (string, ccKind, error) {
	// x == nil / x != nil for a class pointer
	if (t.Op == token.EQL || t.Op == token.NEQ) && (isIdent(t.Y, "nil") || isIdent(t.X, "nil")) {
		other := t.X
		if isIdent(t.X, "nil") {
			other = t.Y
		}
		x, k, err := c.expr(other)
		if err != nil {
			return "", "", err
		}
		switch k {
		case kClass:
			r := "(" + c.heap() + ".isNil " + x + ")"
			if t.Op == token.NEQ {
				r = "(!" + r + ")"
			}
			return r, kBool, nil
		case kOptVal, kVal: // a nil slip.Object is the Lisp value nil (not the unbound marker)
			r := "(" + x + " == some nilVal)"
			if k == kVal {
				r = "(" + x + " == nilVal)"
			}
			if t.Op == token.NEQ {
				r = "(!" + r + ")"
			}
			return r, kBool, nil
		}
		return "", "", c.errf(t, "nil test of a %s", k)
	}
	x, kx, err := c.expr(t.X)
	if err != nil {
		return "", "", err
	}
	y, ky, err := c.expr(t.Y)
	if err != nil {
		return "", "", err
	}
	switch t.Op {
	case token.LOR, token.LAND:
		if kx != kBool || ky != kBool {
			return "", "", c.errf(t, "boolean operator on %s, %s", kx, ky)
		}
		op := " || "
		if t.Op == token.LAND {
			op = " && "
		}
		return "(" + x + op + y + ")", kBool, nil
	case token.EQL, token.NEQ:
		if kx == kStr && ky == kClass || kx == kClass && ky == kStr {
			ky = kx
		}
		if kx != ky {
			return "", "", c.errf(t, "comparison of %s with %s", kx, ky)
		}
		op := " == "
		if t.Op == token.NEQ {
			op = " != "
		}
		return "(" + x + op + y + ")", kBool, nil
	case token.LSS, token.LEQ, token.GTR, token.GEQ:
		if kx != kNat || ky != kNat {
			return "", "", c.errf(t, "order comparison on %s, %s", kx, ky)
		}
		op := map[token.Token]string{token.LSS: " < ", token.LEQ: " ≤ ", token.GTR: " > ", token.GEQ: " ≥ "}[t.Op]
		return "(decide (" + x + op + y + "))", kBool, nil
	case token.SUB, token.ADD:
		if kx != kNat || ky != kNat {
			return "", "", c.errf(t, "arithmetic on %s, %s", kx, ky)
		}
		op := " - "
		if t.Op == token.ADD {
			op = " + "
		}
		return "(" + x + op + y + ")", kNat, nil
	}
	return "", "", c.errf(t, "unsupported operator")
}

func (c *ccCtx) selector(t *ast.SelectorExpr) (string, ccKind, error) {
	// package level names
	if id, ok := t.X.(*ast.Ident); ok && id.Name == "slip" {
		switch t.Sel.Name {
		case "TrueSymbol":
			return "Sym.t", kSym, nil
		case "Unbound":
			return "none", kOptVal, nil
		case "CurrentPackage":
			return c.heap(), kHeap, nil
		}
	}
	if f, ok := c.isRecvField(t); ok && c.fn.ctxRecv != "" {
		if k, ok := ccClassFields[f]; ok {
			return c.fn.ctxRecv + "." + f, k, nil
		}
		return "", "", c.errf(t, "unknown receiver field")
	}
	if f, ok := c.isRecvField(t); ok && c.fn.recv == "object" {
		switch f {
		case "vars":
			return "s.vars", kVars, nil
		case "Type":
			return "T", kTypeObj, nil
		}
		return "", "", c.errf(t, "unknown receiver field")
	}
	if f, ok := c.isRecvField(t); ok && c.fn.recv == "class" {
		if k, ok := ccClassFields[f]; ok {
			return "s." + f, k, nil
		}
		if f == "pkg" {
			return c.heap(), kHeap, nil
		}
		return "", "", c.errf(t, "unknown receiver field")
	}
	x, k, err := c.expr(t.X)
	if err != nil {
		return "", "", err
	}
	switch k {
	case kClass: // a field read through a pointer to another class object
		switch t.Sel.Name {
		case "inherit":
			return "(" + c.heap() + ".inheritOf " + x + ")", kNames, nil
		case "precedence":
			return "(" + c.heap() + ".precOf " + x + ")", kSyms, nil
		case "slotDefs":
			return "(" + c.heap() + ".slotDefsOf " + x + ")", kSlotMap, nil
		case "name":
			return x, kStr, nil
		}
	case kSlot:
		if fk, ok := ccSlotFields[t.Sel.Name]; ok {
			return x + "." + t.Sel.Name, fk, nil
		}
	case kInst:
		switch t.Sel.Name {
		case "Type":
			return "T", kTypeObj, nil
		case "vars":
			return x + ".vars", kVars, nil
		}
	}
	return "", "", c.errf(t, "unsupported selector on a %s", k)
}

func (c *ccCtx) index(t *ast.IndexExpr) (string, ccKind, error) {
	// x[i] inside `for i := len(x) - 1; 0 <= i; i--` / `for i := 0; i < len(x); i++`
	if id, ok := t.Index.(*ast.Ident); ok {
		if ix, ok := c.idx[id.Name]; ok {
			if c.src(t.X) != ix[0] {
				return "", "", c.errf(t, "index variable of %s used on another slice", ix[0])
			}
			_, k, err := c.expr(t.X)
			if err != nil {
				return "", "", err
			}
			return ix[1], elemKind(k), nil
		}
	}
	// x[len(x)-1] → last element
	if be, ok := t.Index.(*ast.BinaryExpr); ok && be.Op == token.SUB && isIntLit(be.Y, "1") {
		if call, ok := be.X.(*ast.CallExpr); ok && isIdent(call.Fun, "len") && len(call.Args) == 1 && c.src(call.Args[0]) == c.src(t.X) {
			x, k, err := c.expr(t.X)
			if err != nil {
				return "", "", err
			}
			if k == kSyms {
				return x + ".getLast?", kOptSym, nil
			}
		}
	}
	// m[k] for a map: lookup
	x, k, err := c.expr(t.X)
	if err != nil {
		return "", "", err
	}
	key, kk, err := c.expr(t.Index)
	if err != nil {
		return "", "", err
	}
	if kk != kStr {
		return "", "", c.errf(t, "map key of kind %s", kk)
	}
	switch k {
	case kSlotsMap: // a missing key gives the nil slice
		return "((" + x + ".get? " + key + ").getD [])", kSlots, nil
	}
	return "", "", c.errf(t, "unsupported index expression on a %s", k)
}

func elemKind(k ccKind) ccKind {
	switch k {
	case kNames:
		return kClass
	case kSyms:
		return kSym
	case kSlots:
		return kSlot
	}
	return "?"
}

func (c *ccCtx) call(t *ast.CallExpr) (string, ccKind, error) {
	args := func() ([]string, []ccKind, error) {
		var xs []string
		var ks []ccKind
		for _, a := range t.Args {
			x, k, err := c.expr(a)
			if err != nil {
				return nil, nil, err
			}
			xs = append(xs, x)
			ks = append(ks, k)
		}
		return xs, ks, nil
	}
	switch f := t.Fun.(type) {
	case *ast.Ident:
		switch f.Name {
		case "len":
			if len(t.Args) == 1 {
				x, k, err := c.expr(t.Args[0])
				if err != nil {
					return "", "", err
				}
				switch k {
				case kOptSym:
					return x + ".toList.length", kNat, nil
				case kNames, kSyms, kSlots, kSlotMap, kSlotsMap, kValMap, kArgMap, kStrMap:
					return x + ".length", kNat, nil
				}
				return "", "", c.errf(t, "len of a %s", k)
			}
		case "string":
			if len(t.Args) == 1 {
				x, k, err := c.expr(t.Args[0])
				if err != nil {
					return "", "", err
				}
				if k == kClass || k == kStr {
					return x, kStr, nil
				}
				if k == kSym { // the name of a symbol, compared with a class name given as a symbol
					return x, kSym, nil
				}
			}
		case "append":
			if len(t.Args) >= 2 {
				xs, ks, err := args()
				if err != nil {
					return "", "", err
				}
				r := xs[0]
				for i := 1; i < len(xs); i++ {
					spread := t.Ellipsis.IsValid() && i == len(xs)-1
					switch {
					case spread && ks[i] == ks[0]:
						r = "(" + r + " ++ " + xs[i] + ")"
					case !spread && ks[0] == kSyms && ks[i] == kOptSym:
						r = "(" + r + " ++ " + xs[i] + ".toList)"
					case !spread && (elemKind(ks[0]) == ks[i] || ks[0] == kNames && ks[i] == kStr):
						r = "(" + r + " ++ [" + xs[i] + "])"
					default:
						return "", "", c.errf(t, "append of a %s to a %s", ks[i], ks[0])
					}
				}
				return r, ks[0], nil
			}
		case "make":
			// make([]T, 0, n) → empty
			if len(t.Args) >= 2 && isIntLit(t.Args[1], "0") {
				if k, ok := c.typeKind(t.Args[0]); ok {
					return "[]", k, nil
				}
			}
		}
		// a translated package level function returning a value is not needed so far
	case *ast.SelectorExpr:
		name := f.Sel.Name
		// slip.Symbol(x): a symbol of a class name
		if isIdent(f.X, "slip") && name == "Symbol" && len(t.Args) == 1 {
			x, k, err := c.expr(t.Args[0])
			if err != nil {
				return "", "", err
			}
			if k == kStr || k == kClass {
				return "(Sym.cls " + x + ")", kSym, nil
			}
			return "", "", c.errf(t, "slip.Symbol of a %s", k)
		}
		// slip.FindClass(name) / <pkg>.FindClass(name): the class registered under the name (or nil)
		if name == "FindClass" && len(t.Args) == 1 {
			x, k, err := c.expr(t.Args[0])
			if err != nil {
				return "", "", err
			}
			if k == kStr || k == kClass {
				return x, kClass, nil
			}
		}
		if name == "AllClasses" && len(t.Args) == 0 {
			return "(" + c.heap() + ".allClasses)", kNames, nil
		}
		// receiver.inheritCheck(x): a checked cast to *StandardClass
		if _, ok := c.isRecvField(t.Fun); ok && name == "inheritCheck" && len(t.Args) == 1 {
			x, k, err := c.expr(t.Args[0])
			if err != nil {
				return "", "", err
			}
			if k == kClass {
				return x, kClass, nil
			}
		}
		// x.Eval(s, depth): the forms the harness uses are written as the values they evaluate to
		if name == "Eval" {
			x, k, err := c.expr(f.X)
			if err != nil {
				return "", "", err
			}
			switch k {
			case kVal:
				return x, kVal, nil
			case kOptVal:
				return "(" + x + ".getD nilVal)", kVal, nil
			}
			return "", "", c.errf(t, "Eval of a %s", k)
		}
		if c.fn.ctxRecv != "" && c.recv != "" && isIdent(f.X, c.recv) {
			return "", "", c.errf(t, "method call on the read-only receiver")
		}
		// methods
		xs, _, err := args()
		if err != nil {
			return "", "", err
		}
		onRecv := c.recv != "" && isIdent(f.X, c.recv) && c.fn.recv == "class"
		var target string // Lean expression of the receiver object of the call
		if onRecv {
			target = "s"
		} else {
			x, k, err := c.expr(f.X)
			if err != nil {
				return "", "", err
			}
			if k == kTypeObj { // the getters of isStandardClass on the instance's class object
				switch {
				case name == "precedenceList" && len(xs) == 0:
					return x + ".precedence", kSyms, nil
				case name == "initFormMap" && len(xs) == 0:
					return x + ".initForms", kSlotMap, nil
				case name == "defaultsMap" && len(xs) == 0:
					return x + ".defaultInitArgs", kArgMap, nil
				case name == "initArgDefs" && len(xs) == 1:
					return "((" + x + ".initArgs.get? " + xs[0] + ").getD [])", kSlots, nil
				}
				return "", "", c.errf(t, "unsupported method of the class object of an instance")
			}
			if k != kClass {
				return "", "", c.errf(t, "method call on a %s", k)
			}
			switch name { // interface getters of isStandardClass / slip.Class
			case "Name":
				return x, kStr, nil
			case "slotDefMap":
				return "(" + c.heap() + ".slotDefsOf " + x + ")", kSlotMap, nil
			case "precedenceList":
				return "(" + c.heap() + ".precOf " + x + ")", kSyms, nil
			case "InheritsList":
				return "(" + c.heap() + ".inheritOf " + x + ")", kNames, nil
			}
			target = "(" + c.heap() + ".getD " + x + ")"
		}
		if onRecv {
			switch name {
			case "Name":
				return "s.name", kStr, nil
			case "slotDefMap":
				return "s.slotDefs", kSlotMap, nil
			}
		}
		if callee, ok := c.fns["StandardClass."+name]; ok && callee.ret != kUnit && callee.pure() {
			a := ""
			if callee.heapCtx {
				a = " " + c.heap()
			}
			return "(" + callee.lean + a + " " + target + strings.Join(append([]string{""}, xs...), " ") + ")", callee.ret, nil
		}
	}
	return "", "", c.errf(t, "unsupported call")
}

func (f *ccFn) pure() bool { return len(f.tracked) == 0 && !f.heapSt }

// ---------------------------------------------------------------- relevance (slicing)

// rootField: the receiver field an assignment target is rooted at (c.F, c.F[i], c.F.x …)
func (c *ccCtx) rootField(e ast.Expr) (string, bool) {
	for {
		switch t := e.(type) {
		case *ast.IndexExpr:
			e = t.X
			continue
		case *ast.ParenExpr:
			e = t.X
			continue
		case *ast.StarExpr:
			e = t.X
			continue
		case *ast.SliceExpr:
			e = t.X
			continue
		case *ast.SelectorExpr:
			if f, ok := c.isRecvField(t); ok {
				return f, true
			}
			e = t.X
			continue
		}
		return "", false
	}
}

func (c *ccCtx) rootIdent(e ast.Expr) (string, bool) {
	for {
		switch t := e.(type) {
		case *ast.IndexExpr:
			e = t.X
			continue
		case *ast.ParenExpr:
			e = t.X
			continue
		case *ast.Ident:
			return t.Name, true
		}
		return "", false
	}
}

func (c *ccCtx) assignsTarget(lhs ast.Expr) bool {
	if f, ok := c.rootField(lhs); ok && c.isTracked(f) {
		return true
	}
	// inst.vars[...] for an instance held in the state
	e := lhs
	if ix, ok := e.(*ast.IndexExpr); ok {
		e = ix.X
	}
	if sel, ok := e.(*ast.SelectorExpr); ok && sel.Sel.Name == "vars" {
		if id, ok := sel.X.(*ast.Ident); ok {
			if v, ok := c.vars[id.Name]; ok && v.state && v.kind == kInst {
				return true
			}
		}
	}
	if id, ok := c.rootIdent(lhs); ok {
		if v, ok := c.vars[id]; ok && v.state {
			return true
		}
	}
	return false
}

// relevant: must this statement be translated?
func (c *ccCtx) relevant(st ast.Stmt) bool {
	rel := false
	var walk func(n ast.Node, inLoop bool)
	walk = func(n ast.Node, inLoop bool) {
		if n == nil || rel {
			return
		}
		switch t := n.(type) {
		case *ast.ReturnStmt:
			rel = true
		case *ast.BranchStmt:
			if !inLoop || t.Label != nil || t.Tok == token.GOTO {
				rel = true
			}
		case *ast.LabeledStmt:
			rel = true
		case *ast.AssignStmt:
			for _, l := range t.Lhs {
				if c.assignsTarget(l) {
					rel = true
				}
			}
			for _, r := range t.Rhs {
				walk(r, inLoop)
			}
		case *ast.IncDecStmt:
			if c.assignsTarget(t.X) {
				rel = true
			}
		case *ast.DeclStmt:
			if gd, ok := t.Decl.(*ast.GenDecl); ok {
				for _, sp := range gd.Specs {
					if vs, ok := sp.(*ast.ValueSpec); ok {
						for _, n := range vs.Names {
							if v, ok := c.vars[n.Name]; ok && v.state {
								rel = true
							}
						}
						for _, v := range vs.Values {
							walk(v, inLoop)
						}
					}
				}
			}
		case *ast.CallExpr:
			if c.callWrites(t) || (c.fn.panics && ccIsPanic(t)) {
				rel = true
			}
			for _, a := range t.Args {
				walk(a, inLoop)
			}
			walk(t.Fun, inLoop)
		case *ast.ForStmt:
			walk(t.Init, inLoop)
			walk(t.Cond, inLoop)
			walk(t.Post, inLoop)
			walk(t.Body, true)
		case *ast.RangeStmt:
			walk(t.X, inLoop)
			walk(t.Body, true)
		case *ast.FuncLit:
			// a closure is not followed
		default:
			ast.Inspect(n, func(m ast.Node) bool {
				if m == nil || m == n {
					return true
				}
				switch m.(type) {
				case ast.Stmt, *ast.CallExpr, *ast.FuncLit:
					walk(m, inLoop)
					return false
				}
				return true
			})
		}
	}
	walk(st, false)
	return rel
}

func ccIsPanic(t *ast.CallExpr) bool {
	if sel, ok := t.Fun.(*ast.SelectorExpr); ok && isIdent(sel.X, "slip") && strings.HasSuffix(sel.Sel.Name, "Panic") {
		return true
	}
	return isIdent(t.Fun, "panic")
}

// callWrites: does this call write tracked state? (a translated function with state, a method of
// the receiver whose transitive write set meets the tracked fields, or any call that is handed the
// receiver or a tracked field other than len/append/cap)
func (c *ccCtx) callWrites(t *ast.CallExpr) bool {
	name := ""
	switch f := t.Fun.(type) {
	case *ast.Ident:
		name = f.Name
		if name == "len" || name == "cap" || name == "append" || name == "string" {
			return false
		}
		if callee, ok := c.fns[name]; ok && callee.heapSt {
			return true
		}
	case *ast.SelectorExpr:
		name = f.Sel.Name
		if isIdent(f.X, "slip") && name == "RegisterClass" {
			return c.fn.heapSt
		}
		if callee, ok := c.fns["StandardClass."+name]; ok && !callee.pure() {
			// a state changing method of a class: relevant when the class is the receiver or lives in the heap state
			return true
		}
		if callee, ok := c.fns["StandardObject."+name]; ok && !callee.pure() {
			return true
		}
		if c.recv != "" && isIdent(f.X, c.recv) {
			for w := range c.writes[name] {
				if c.isTracked(w) {
					return true
				}
			}
		}
	}
	for _, a := range t.Args {
		if f, ok := c.rootField(a); ok && c.isTracked(f) {
			return true
		}
		if c.recv != "" && (isIdent(a, c.recv)) {
			return true
		}
		if u, ok := a.(*ast.UnaryExpr); ok && u.Op == token.AND {
			if f, ok := c.rootField(u.X); ok && c.isTracked(f) {
				return true
			}
		}
	}
	return false
}

// ---------------------------------------------------------------- statements

func (c *ccCtx) line(ind int, format string, a ...any) {
	c.b.WriteString(strings.Repeat("  ", ind))
	fmt.Fprintf(&c.b, format, a...)
	c.b.WriteString("\n")
}

// setField: Lean text of the state with field f replaced
func (c *ccCtx) setState(f, v string) string { return "{ s with " + f + " := " + v + " }" }

// block emits the statements as one Lean expression of type Ctl; it always ends the expression.
func (c *ccCtx) block(stmts []ast.Stmt, ind int) error {
	for i, st := range stmts {
		if !c.relevant(st) {
			// definitions are kept when they translate (later statements may use them)
			if as, ok := st.(*ast.AssignStmt); ok && as.Tok == token.DEFINE {
				if err := c.define(as, ind, true); err != nil {
					return err
				}
				continue
			}
			c.line(ind, "-- [sliced] %s", ccShort(c.src(st)))
			continue
		}
		last := i == len(stmts)-1
		switch t := st.(type) {
		case *ast.ReturnStmt:
			switch {
			case c.fn.ret == kUnit: // (a result of a function translated for its effect is not modelled)
				c.line(ind, "Ctl.ret s ()")
			case c.fn.ret == kStatus && len(t.Results) == 1:
				if isIdent(t.Results[0], "nil") {
					c.line(ind, "Ctl.ret s 1")
				} else {
					c.line(ind, "Ctl.ret s 0")
				}
			case len(t.Results) == 1:
				x, k, err := c.expr(t.Results[0])
				if err != nil {
					return err
				}
				if k != c.fn.ret {
					return c.errf(st, "returns a %s, expected %s", k, c.fn.ret)
				}
				c.line(ind, "Ctl.ret s %s", x)
			default:
				return c.errf(st, "unsupported return")
			}
			return nil
		case *ast.BranchStmt:
			if t.Label != nil {
				return c.errf(st, "labelled branch")
			}
			switch t.Tok {
			case token.CONTINUE:
				c.line(ind, "Ctl.cont s")
			case token.BREAK:
				c.line(ind, "Ctl.brk s")
			default:
				return c.errf(st, "unsupported branch")
			}
			return nil
		case *ast.AssignStmt:
			if t.Tok == token.DEFINE {
				if err := c.define(t, ind, false); err != nil {
					return err
				}
				continue
			}
			if err := c.assign(t, ind); err != nil {
				return err
			}
		case *ast.DeclStmt:
			if err := c.decl(t, ind); err != nil {
				return err
			}
		case *ast.ExprStmt:
			call, ok := t.X.(*ast.CallExpr)
			if !ok {
				return c.errf(st, "unsupported expression statement")
			}
			if c.fn.panics && ccIsPanic(call) {
				if c.fn.ret != kStatus {
					return c.errf(st, "panic in a function without status")
				}
				c.line(ind, "Ctl.ret s 2")
				return nil
			}
			if err := c.effectCall(call, ind, ""); err != nil {
				return err
			}
		case *ast.IfStmt:
			if err := c.ifStmt(t, ind, last); err != nil {
				return err
			}
			if last {
				return nil
			}
		case *ast.RangeStmt:
			if err := c.rangeStmt(t, ind, last); err != nil {
				return err
			}
			if last {
				return nil
			}
		case *ast.ForStmt:
			if err := c.forStmt(t, ind, last); err != nil {
				return err
			}
			if last {
				return nil
			}
		case *ast.BlockStmt:
			return c.errf(st, "nested block")
		default:
			return c.errf(st, "unsupported statement")
		}
	}
	c.line(ind, "Ctl.next s")
	return nil
}

func ccShort(s string) string {
	if len(s) > 90 {
		return s[:87] + "..."
	}
	return s
}

// define: `x := e`, `x, ok := e.(T)`; with soft=true a failure poisons the variables instead
func (c *ccCtx) define(t *ast.AssignStmt, ind int, soft bool) error {
	fail := func(err error) error {
		if !soft {
			return err
		}
		for _, l := range t.Lhs {
			if id, ok := l.(*ast.Ident); ok && id.Name != "_" {
				c.poison[id.Name] = "sliced"
				delete(c.vars, id.Name)
			}
		}
		c.line(ind, "-- [sliced] %s", ccShort(c.src(t)))
		return nil
	}
	// a call with an effect on the state whose result is kept: `ok := sc.mergeSupers()`
	if len(t.Lhs) == 1 && len(t.Rhs) == 1 {
		if call, ok := t.Rhs[0].(*ast.CallExpr); ok && c.callWrites(call) {
			id, ok := t.Lhs[0].(*ast.Ident)
			if !ok {
				return fail(c.errf(t, "unsupported definition"))
			}
			return c.effectCall(call, ind, id.Name)
		}
	}
	if len(t.Lhs) == 2 && len(t.Rhs) == 1 {
		if ix, ok := t.Rhs[0].(*ast.IndexExpr); ok {
			// v, has := m[key]
			m, mk, err := c.expr(ix.X)
			if err != nil {
				return fail(err)
			}
			key, kk, err := c.expr(ix.Index)
			if err != nil {
				return fail(err)
			}
			vk, zero := ccKind(""), ""
			switch mk {
			case kStrMap:
				vk, zero = kStr, "0"
			case kVars:
				vk, zero = kOptVal, "none"
			case kSlotMap:
				vk, zero = kSlot, "default"
			}
			a, aok := t.Lhs[0].(*ast.Ident)
			b, bok := t.Lhs[1].(*ast.Ident)
			if vk == "" || kk != kStr || !aok || !bok {
				return fail(c.errf(t, "unsupported map lookup"))
			}
			if a.Name != "_" && vk != kSlot {
				c.bind(a.Name, vk, ind, "(("+m+".get? "+key+").getD "+zero+")")
			}
			c.bind(b.Name, kBool, ind, "("+m+".has "+key+")")
			return nil
		}
		if ta, ok := t.Rhs[0].(*ast.TypeAssertExpr); ok {
			x, k, err := c.expr(ta)
			if err != nil {
				return fail(err)
			}
			a, aok := t.Lhs[0].(*ast.Ident)
			b, bok := t.Lhs[1].(*ast.Ident)
			if !aok || !bok {
				return fail(c.errf(t, "unsupported definition"))
			}
			c.bind(a.Name, k, ind, x)
			c.bind(b.Name, kBool, ind, "true")
			return nil
		}
		return fail(c.errf(t, "unsupported two-valued definition"))
	}
	if len(t.Lhs) != len(t.Rhs) {
		return fail(c.errf(t, "unsupported definition"))
	}
	for i := range t.Lhs {
		id, ok := t.Lhs[i].(*ast.Ident)
		if !ok {
			return fail(c.errf(t, "unsupported definition"))
		}
		x, k, err := c.expr(t.Rhs[i])
		if err != nil {
			return fail(err)
		}
		c.bind(id.Name, k, ind, x)
	}
	return nil
}

func (c *ccCtx) bind(goName string, k ccKind, ind int, val string) {
	if goName == "_" {
		return
	}
	delete(c.poison, goName)
	if v, ok := c.vars[goName]; ok && v.state {
		c.line(ind, "let s := %s", c.setState(v.lean, val))
		return
	}
	ln := ccIdent(goName)
	c.vars[goName] = ccVar{lean: ln, kind: k}
	c.line(ind, "let %s := %s", ln, val)
}

func (c *ccCtx) decl(t *ast.DeclStmt, ind int) error {
	gd, ok := t.Decl.(*ast.GenDecl)
	if !ok || gd.Tok != token.VAR {
		return c.errf(t, "unsupported declaration")
	}
	for _, sp := range gd.Specs {
		vs := sp.(*ast.ValueSpec)
		if len(vs.Values) != 0 || vs.Type == nil {
			return c.errf(t, "unsupported var declaration")
		}
		k, ok := c.typeKind(vs.Type)
		if !ok {
			return c.errf(t, "unsupported type")
		}
		for _, n := range vs.Names {
			v, ok := c.vars[n.Name]
			if !ok || !v.state {
				// an untracked local that is only declared (its uses were sliced away)
				c.poison[n.Name] = "declared local that is not a state variable"
				continue
			}
			if v.kind != k && !(k == kOptVal && v.kind == kVal) {
				return c.errf(t, "var %s declared as %s, expected %s", n.Name, k, v.kind)
			}
			k = v.kind
			c.line(ind, "let s := %s", c.setState(v.lean, k.zero()))
		}
	}
	return nil
}

func (c *ccCtx) assign(t *ast.AssignStmt, ind int) error {
	if t.Tok != token.ASSIGN || len(t.Lhs) != len(t.Rhs) {
		return c.errf(t, "unsupported assignment")
	}
	for i, l := range t.Lhs {
		if isIdent(l, "_") {
			if call, ok := t.Rhs[i].(*ast.CallExpr); ok && c.callWrites(call) {
				if err := c.effectCall(call, ind, ""); err != nil {
					return err
				}
				continue
			}
			continue
		}
		// receiver field
		if f, ok := c.isRecvField(l); ok {
			if !c.isTracked(f) {
				continue
			}
			var x string
			var k ccKind
			var err error
			if isIdent(t.Rhs[i], "nil") {
				x, k = ccClassFields[f].zero(), ccClassFields[f]
			} else if x, k, err = c.expr(t.Rhs[i]); err != nil {
				return err
			}
			if k != ccClassFields[f] {
				return c.errf(t, "assigns a %s to %s", k, f)
			}
			c.line(ind, "let s := %s", c.setState(f, x))
			continue
		}
		// receiver map field: c.initForms[k] = v
		if ix, ok := l.(*ast.IndexExpr); ok && c.fn.recv == "class" {
			if f, ok := c.isRecvField(ix.X); ok {
				if !c.isTracked(f) {
					continue
				}
				key, kk, err := c.expr(ix.Index)
				if err != nil {
					return err
				}
				v, vk, err := c.expr(t.Rhs[i])
				if err != nil {
					return err
				}
				fk := ccClassFields[f]
				if kk != kStr || !(fk == kSlotMap && vk == kSlot || fk == kSlotsMap && vk == kSlots) {
					return c.errf(t, "map assignment %s[%s] = %s", fk, kk, vk)
				}
				c.line(ind, "let s := %s", c.setState(f, "s."+f+".set "+key+" "+v))
				continue
			}
		}
		if ix, ok := l.(*ast.IndexExpr); ok {
			// m[k] = v for a map held in the state, obj.vars[k] = v for the receiver / an instance of the state
			var target, cur string
			var mk ccKind
			switch x := ix.X.(type) {
			case *ast.Ident:
				if v, ok := c.vars[x.Name]; ok && v.state {
					target, cur, mk = v.lean, "s."+v.lean, v.kind
				}
			case *ast.SelectorExpr:
				if f, ok := c.isRecvField(x); ok && c.fn.recv == "object" && f == "vars" {
					target, cur, mk = "vars", "s.vars", kVars
				} else if id, ok := x.X.(*ast.Ident); ok && x.Sel.Name == "vars" {
					if v, ok := c.vars[id.Name]; ok && v.state && v.kind == kInst {
						target, cur, mk = v.lean+".vars", "s."+v.lean+".vars", kVars
					}
				}
			}
			if target != "" {
				key, kk, err := c.expr(ix.Index)
				if err != nil {
					return err
				}
				v, vk, err := c.expr(t.Rhs[i])
				if err != nil {
					return err
				}
				if mk == kVars && vk == kVal {
					v, vk = "(some "+v+")", kOptVal
				}
				if kk != kStr || !(mk == kStrMap && vk == kStr || mk == kVars && vk == kOptVal) {
					return c.errf(t, "map assignment %s[%s] = %s", mk, kk, vk)
				}
				upd := cur + ".set " + key + " " + v
				if strings.HasSuffix(target, ".vars") {
					inst := strings.TrimSuffix(target, ".vars")
					c.line(ind, "let s := %s", c.setState(inst, "{ s."+inst+" with vars := "+upd+" }"))
				} else {
					c.line(ind, "let s := %s", c.setState(target, upd))
				}
				continue
			}
		}
		// state variable
		if id, ok := l.(*ast.Ident); ok {
			if v, ok := c.vars[id.Name]; ok && v.state {
				var x string
				var k ccKind
				var err error
				if isIdent(t.Rhs[i], "nil") {
					x, k = v.kind.zero(), v.kind
				} else if x, k, err = c.expr(t.Rhs[i]); err != nil {
					return err
				}
				if k != v.kind {
					return c.errf(t, "assigns a %s to %s", k, id.Name)
				}
				c.line(ind, "let s := %s", c.setState(v.lean, x))
				continue
			}
			if _, ok := c.vars[id.Name]; ok {
				return c.errf(t, "assignment to the immutable local %s (declare it as a state variable)", id.Name)
			}
			continue // an untracked local
		}
		if c.assignsTarget(l) {
			return c.errf(t, "unsupported assignment target")
		}
	}
	return nil
}

// effectCall: a call that changes the state; result (if any) bound to `res`
func (c *ccCtx) effectCall(t *ast.CallExpr, ind int, res string) error {
	bindRes := func(callee *ccFn, val string) {
		if res != "" && res != "_" {
			c.bind(res, callee.ret, ind, val)
		}
	}
	switch f := t.Fun.(type) {
	case *ast.Ident:
		if callee, ok := c.fns[f.Name]; ok && callee.heapSt && c.fn.heapSt {
			// a package level function over the class table: f(…, pkg)
			var xs []string
			for _, a := range t.Args {
				x, k, err := c.expr(a)
				if err != nil {
					return err
				}
				if k == kHeap {
					continue
				}
				xs = append(xs, x)
			}
			fuel := ""
			if callee.fuel {
				fuel = " fuel"
			}
			c.line(ind, "let s := %s", c.setState("heap", "("+callee.lean+fuel+strings.Join(append([]string{""}, xs...), " ")+" s.heap)"))
			return nil
		}
	case *ast.SelectorExpr:
		name := f.Sel.Name
		if isIdent(f.X, "slip") && name == "RegisterClass" && len(t.Args) == 2 && c.fn.heapSt {
			x, k, err := c.objExpr(t.Args[1])
			if err != nil {
				return err
			}
			if k != kClass {
				return c.errf(t, "registers a %s", k)
			}
			c.line(ind, "let s := %s", c.setState("heap", "s.heap.register "+x))
			return nil
		}
		if callee, ok := c.fns["StandardObject."+name]; ok && !callee.pure() {
			// a method of an instance held in the state: arguments are matched to the declared parameters by name
			id, ok := f.X.(*ast.Ident)
			if !ok {
				return c.errf(t, "method call on an instance that is not a variable")
			}
			v, ok := c.vars[id.Name]
			if !ok || !v.state || v.kind != kInst {
				return c.errf(t, "method call on %s which is not an instance of the state", id.Name)
			}
			fd := c.funcs["StandardObject."+name]
			var names []string
			for _, fl := range fd.Type.Params.List {
				for _, n := range fl.Names {
					names = append(names, n.Name)
				}
			}
			if len(names) != len(t.Args) {
				return c.errf(t, "argument count")
			}
			as := ""
			for _, p := range callee.params {
				found := false
				for i, n := range names {
					if n != p.goName {
						continue
					}
					x, k, err := c.expr(t.Args[i])
					if err != nil {
						return err
					}
					if p.kind == kOptVal && k == kVal {
						x, k = "(some "+x+")", kOptVal
					}
					if k != p.kind {
						return c.errf(t, "argument %s is a %s, expected %s", n, k, p.kind)
					}
					as += " " + x
					found = true
				}
				if !found {
					return c.errf(t, "parameter %s of %s not found", p.goName, name)
				}
			}
			c.line(ind, "let r_ := %s.body T%s s.%s", callee.lean, as, v.lean)
			c.line(ind, "let s := %s", c.setState(v.lean, "r_.state"))
			bindRes(callee, "r_.value "+callee.ret.zero())
			return nil
		}
		callee, ok := c.fns["StandardClass."+name]
		if !ok {
			return c.errf(t, "call of an untranslated function with an effect on tracked state")
		}
		var xs []string
		for _, a := range t.Args {
			x, _, err := c.expr(a)
			if err != nil {
				return err
			}
			xs = append(xs, x)
		}
		as := strings.Join(append([]string{""}, xs...), " ")
		hp := ""
		if callee.heapCtx {
			hp = " " + c.heap()
		}
		switch {
		case c.fn.recv == "class" && isIdent(f.X, c.recv):
			// a method of the receiver: the state is the receiver
			c.line(ind, "let r_ := %s.body%s%s s", callee.lean, hp, as)
			c.line(ind, "let s := r_.state")
			bindRes(callee, "r_.value "+callee.ret.zero())
			return nil
		case c.fn.heapSt:
			// a method of a class object: one held by value in the state (a fresh object), or one of the table
			if id, ok := f.X.(*ast.Ident); ok {
				if v, ok := c.vars[id.Name]; ok && v.state && v.kind == "object" {
					c.line(ind, "let r_ := %s.body%s%s s.%s", callee.lean, hp, as, v.lean)
					c.line(ind, "let s := %s", c.setState(v.lean, "r_.state"))
					bindRes(callee, "r_.value "+callee.ret.zero())
					return nil
				}
			}
			x, k, err := c.expr(f.X)
			if err != nil {
				return err
			}
			if k != kClass {
				return c.errf(t, "method call on a %s", k)
			}
			c.line(ind, "let r_ := %s.body%s%s (s.heap.getD %s)", callee.lean, hp, as, x)
			c.line(ind, "let s := %s", c.setState("heap", "s.heap.put r_.state"))
			bindRes(callee, "r_.value "+callee.ret.zero())
			return nil
		}
	}
	return c.errf(t, "unsupported call with an effect on tracked state")
}

// objExpr: an expression denoting a class object held by value in the state (`&sc`)
func (c *ccCtx) objExpr(e ast.Expr) (string, ccKind, error) {
	if u, ok := e.(*ast.UnaryExpr); ok && u.Op == token.AND {
		e = u.X
	}
	if id, ok := e.(*ast.Ident); ok {
		if v, ok := c.vars[id.Name]; ok && v.state && v.kind == "object" {
			return "s." + v.lean, kClass, nil
		}
	}
	return "", "", c.errf(e, "not a class object of the state")
}

func (c *ccCtx) cond(e ast.Expr, ind int) (string, error) {
	// a condition that is a call with an effect: evaluate first
	if call, ok := e.(*ast.CallExpr); ok && c.callWrites(call) {
		if err := c.effectCall(call, ind, "cond_"); err != nil {
			return "", err
		}
		return "cond_", nil
	}
	x, k, err := c.expr(e)
	if err != nil {
		return "", err
	}
	if k != kBool {
		return "", c.errf(e, "condition of kind %s", k)
	}
	return x, nil
}

func (c *ccCtx) ifStmt(t *ast.IfStmt, ind int, last bool) error {
	if t.Init != nil {
		as, ok := t.Init.(*ast.AssignStmt)
		if !ok || as.Tok != token.DEFINE {
			return c.errf(t, "unsupported if-init")
		}
		if err := c.define(as, ind, false); err != nil {
			return err
		}
	}
	cnd, err := c.cond(t.Cond, ind)
	if err != nil {
		return err
	}
	c.line(ind, "(if %s then", cnd)
	if err := c.block(t.Body.List, ind+1); err != nil {
		return err
	}
	c.line(ind, "else")
	switch e := t.Else.(type) {
	case nil:
		c.line(ind+1, "Ctl.next s")
	case *ast.BlockStmt:
		if err := c.block(e.List, ind+1); err != nil {
			return err
		}
	case *ast.IfStmt:
		if err := c.block([]ast.Stmt{e}, ind+1); err != nil {
			return err
		}
	default:
		return c.errf(t, "unsupported else")
	}
	c.close(ind, last)
	return nil
}

func (c *ccCtx) close(ind int, last bool) {
	// replace the trailing newline of the construct by its closing parenthesis
	s := strings.TrimRight(c.b.String(), "\n")
	c.b.Reset()
	c.b.WriteString(s)
	if last {
		c.b.WriteString(")\n")
	} else {
		c.b.WriteString(").seq fun s =>\n")
	}
}

func (c *ccCtx) rangeStmt(t *ast.RangeStmt, ind int, last bool) error {
	if t.Tok != token.DEFINE && !(t.Key == nil && t.Value == nil) {
		return c.errf(t, "range without :=")
	}
	xs, k, err := c.expr(t.X)
	if err != nil {
		return err
	}
	name := func(e ast.Expr) string {
		if e == nil {
			return "_"
		}
		if id, ok := e.(*ast.Ident); ok {
			return id.Name
		}
		return "?"
	}
	kn, vn := name(t.Key), name(t.Value)
	saved := c.saveVars()
	switch k {
	case kNames, kSyms, kSlots:
		if kn != "_" {
			return c.errf(t, "index variable in a range over a slice")
		}
		lv := "x_"
		if vn != "_" {
			lv = ccIdent(vn)
			c.vars[vn] = ccVar{lean: lv, kind: elemKind(k)}
			delete(c.poison, vn)
		}
		c.line(ind, "(forRange %s (fun %s s =>", xs, lv)
	case kSlotMap, kSlotsMap, kValMap, kArgMap, kStrMap:
		c.line(ind, "(forRange %s (fun kv_ s =>", xs)
		if kn != "_" {
			c.vars[kn] = ccVar{lean: ccIdent(kn), kind: kStr}
			delete(c.poison, kn)
			c.line(ind+1, "let %s := kv_.1", ccIdent(kn))
		}
		if vn != "_" {
			vk := map[ccKind]ccKind{kSlotMap: kSlot, kSlotsMap: kSlots, kValMap: kOptVal, kArgMap: kVal, kStrMap: kStr}[k]
			c.vars[vn] = ccVar{lean: ccIdent(vn), kind: vk}
			delete(c.poison, vn)
			c.line(ind+1, "let %s := kv_.2", ccIdent(vn))
		}
	default:
		return c.errf(t, "range over a %s", k)
	}
	if err := c.block(t.Body.List, ind+1); err != nil {
		return err
	}
	c.restoreVars(saved)
	s := strings.TrimRight(c.b.String(), "\n")
	c.b.Reset()
	c.b.WriteString(s)
	if last {
		c.b.WriteString(") s)\n")
	} else {
		c.b.WriteString(") s).seq fun s =>\n")
	}
	return nil
}

func (c *ccCtx) saveVars() map[string]ccVar {
	m := map[string]ccVar{}
	for k, v := range c.vars {
		m[k] = v
	}
	return m
}

func (c *ccCtx) restoreVars(m map[string]ccVar) {
	// locals defined inside a block go out of scope (state variables are never removed)
	for k, v := range c.vars {
		if _, ok := m[k]; !ok && !v.state {
			delete(c.vars, k)
		}
	}
	for k, v := range m {
		c.vars[k] = v
	}
}

func (c *ccCtx) forStmt(t *ast.ForStmt, ind int, last bool) error {
	saved := c.saveVars()
	switch {
	case t.Init == nil && t.Cond == nil && t.Post == nil:
		if !c.fn.fuel {
			return c.errf(t, "unbounded loop in a function without fuel")
		}
		c.line(ind, "(forEver fuel (fun s =>")
	default:
		// for i := len(x) - 1; 0 <= i; i--   |   for i := 0; i < len(x); i++
		iv, slice, reverse, ok := c.indexLoop(t)
		if !ok {
			return c.errf(t, "unsupported for loop")
		}
		xs, k, err := c.expr(slice)
		if err != nil {
			return err
		}
		if elemKind(k) == "?" {
			return c.errf(t, "index loop over a %s", k)
		}
		elem := "x" + iv + "_"
		c.idx[iv] = [2]string{c.src(slice), elem}
		defer delete(c.idx, iv)
		if reverse {
			xs += ".reverse"
		}
		c.line(ind, "(forRange %s (fun %s s =>", xs, elem)
	}
	if err := c.block(t.Body.List, ind+1); err != nil {
		return err
	}
	c.restoreVars(saved)
	s := strings.TrimRight(c.b.String(), "\n")
	c.b.Reset()
	c.b.WriteString(s)
	if last {
		c.b.WriteString(") s)\n")
	} else {
		c.b.WriteString(") s).seq fun s =>\n")
	}
	return nil
}

// indexLoop recognises the two index loops over a whole slice whose body uses the index only to
// read the element.
func (c *ccCtx) indexLoop(t *ast.ForStmt) (iv string, slice ast.Expr, reverse, ok bool) {
	init, ok1 := t.Init.(*ast.AssignStmt)
	cond, ok2 := t.Cond.(*ast.BinaryExpr)
	post, ok3 := t.Post.(*ast.IncDecStmt)
	if !ok1 || !ok2 || !ok3 || init.Tok != token.DEFINE || len(init.Lhs) != 1 || len(init.Rhs) != 1 {
		return
	}
	id, okid := init.Lhs[0].(*ast.Ident)
	if !okid || !isIdent(post.X, id.Name) {
		return
	}
	lenOf := func(e ast.Expr) ast.Expr {
		if call, ok := e.(*ast.CallExpr); ok && isIdent(call.Fun, "len") && len(call.Args) == 1 {
			return call.Args[0]
		}
		return nil
	}
	// the index must be used only as x[i] (checked by index()) and never assigned
	uses := 0
	ast.Inspect(t.Body, func(n ast.Node) bool {
		if ix, ok := n.(*ast.IndexExpr); ok && isIdent(ix.Index, id.Name) {
			uses--
		}
		if i, ok := n.(*ast.Ident); ok && i.Name == id.Name {
			uses++
		}
		return true
	})
	if uses != 0 {
		return
	}
	// reverse: i := len(x) - 1; 0 <= i (or i >= 0); i--
	if be, okb := init.Rhs[0].(*ast.BinaryExpr); okb && be.Op == token.SUB && isIntLit(be.Y, "1") && lenOf(be.X) != nil && post.Tok == token.DEC {
		geq := cond.Op == token.LEQ && isIntLit(cond.X, "0") && isIdent(cond.Y, id.Name) ||
			cond.Op == token.GEQ && isIdent(cond.X, id.Name) && isIntLit(cond.Y, "0")
		if geq {
			return id.Name, lenOf(be.X), true, true
		}
		return
	}
	// forward: i := 0; i < len(x); i++
	if isIntLit(init.Rhs[0], "0") && post.Tok == token.INC && cond.Op == token.LSS && isIdent(cond.X, id.Name) && lenOf(cond.Y) != nil {
		return id.Name, lenOf(cond.Y), false, true
	}
	return
}

// ---------------------------------------------------------------- driver

func ccLoad(repo string) (*token.FileSet, map[string]*ast.FuncDecl, error) {
	dir := filepath.Join(repo, "pkg", "clos")
	fset := token.NewFileSet()
	files, _ := filepath.Glob(filepath.Join(dir, "*.go"))
	sort.Strings(files)
	funcs := map[string]*ast.FuncDecl{}
	for _, f := range files {
		if strings.HasSuffix(f, "_test.go") {
			continue
		}
		af, err := parser.ParseFile(fset, f, nil, 0)
		if err != nil {
			return nil, nil, err
		}
		for _, d := range af.Decls {
			fd, ok := d.(*ast.FuncDecl)
			if !ok || fd.Body == nil {
				continue
			}
			name := fd.Name.Name
			if r := recvName(fd); r != "" {
				name = r + "." + name
			}
			funcs[name] = fd
		}
	}
	return fset, funcs, nil
}

// ccWriteSets: for every method of StandardClass the receiver fields it assigns, transitively
// through calls of other methods on the receiver.
func ccWriteSets(funcs map[string]*ast.FuncDecl) map[string]map[string]bool {
	direct := map[string]map[string]bool{}
	calls := map[string]map[string]bool{}
	for name, fd := range funcs {
		if !strings.HasPrefix(name, "StandardClass.") || fd.Recv == nil || len(fd.Recv.List[0].Names) == 0 {
			continue
		}
		m := strings.TrimPrefix(name, "StandardClass.")
		recv := fd.Recv.List[0].Names[0].Name
		direct[m] = map[string]bool{}
		calls[m] = map[string]bool{}
		root := func(e ast.Expr) (string, bool) {
			for {
				switch t := e.(type) {
				case *ast.IndexExpr:
					e = t.X
				case *ast.ParenExpr:
					e = t.X
				case *ast.SliceExpr:
					e = t.X
				case *ast.SelectorExpr:
					if isIdent(t.X, recv) {
						return t.Sel.Name, true
					}
					e = t.X
				default:
					return "", false
				}
			}
		}
		ast.Inspect(fd.Body, func(n ast.Node) bool {
			switch t := n.(type) {
			case *ast.AssignStmt:
				for _, l := range t.Lhs {
					if f, ok := root(l); ok {
						direct[m][f] = true
					}
				}
			case *ast.IncDecStmt:
				if f, ok := root(t.X); ok {
					direct[m][f] = true
				}
			case *ast.CallExpr:
				if sel, ok := t.Fun.(*ast.SelectorExpr); ok && isIdent(sel.X, recv) {
					calls[m][sel.Sel.Name] = true
				}
			}
			return true
		})
	}
	for changed := true; changed; {
		changed = false
		for m, cs := range calls {
			for callee := range cs {
				for f := range direct[callee] {
					if !direct[m][f] {
						direct[m][f] = true
						changed = true
					}
				}
			}
		}
	}
	return direct
}

type ccStateVar struct {
	goName string
	kind   ccKind
}

type ccSpec struct {
	fn    ccFn
	state []ccStateVar // mutable locals (and the heap / class objects) of a function whose σ is a generated structure
}

func ccSpecs() []ccSpec {
	return []ccSpec{
		{fn: ccFn{goName: "StandardClass.Inherits", lean: "Inherits", recv: "class", ret: kBool,
			params: []ccParam{{"sc", kClass}},
			doc:    "(c *StandardClass) Inherits(sc slip.Class) bool"}},
		{fn: ccFn{goName: "StandardClass.Ready", lean: "Ready", recv: "class", ret: kBool,
			doc: "(c *StandardClass) Ready() bool"}},
		{fn: ccFn{goName: "StandardClass.unready", lean: "unready", recv: "class", ret: kUnit,
			tracked: []string{"inherit", "precedence", "initForms"},
			doc:     "(c *StandardClass) unready()"}},
		{fn: ccFn{goName: "StandardClass.mergeSupers", lean: "mergeSupers", recv: "class", ret: kBool, heapCtx: true,
			tracked: []string{"inherit", "precedence", "initForms"},
			doc:     "(c *StandardClass) mergeSupers() bool — the statements that assign inherit, precedence, initForms"}},
		{fn: ccFn{goName: "StandardObject.IsA", lean: "IsA", recv: "object", ret: kBool,
			params: []ccParam{{"class", kSym}},
			doc:    "(obj *StandardObject) IsA(class string) bool"}},
		{fn: ccFn{goName: "StandardObject.Hierarchy", lean: "Hierarchy", recv: "object", ret: kSyms,
			doc: "(obj *StandardObject) Hierarchy() []slip.Symbol"}},
		{fn: ccFn{goName: "StandardObject.setSlot", lean: "setSlot", recv: "object", ret: kUnit, typeCtx: false,
			tracked: []string{"vars"},
			params:  []ccParam{{"sd", kSlot}, {"value", kOptVal}},
			doc:     "(obj *StandardObject) setSlot(s, sd, value, depth) — the :type check (a panic) is not modelled, a :allocation :class slot is not an instance slot"}},
		{fn: ccFn{goName: "StandardClass.initObjSlots", lean: "initObjSlots", ret: kUnit, heapCtx: true, ctxRecv: "C",
			doc: "(c *StandardClass) initObjSlots(obj *StandardObject)"},
			state: []ccStateVar{{"obj", kInst}}},
		{fn: ccFn{goName: "defaultSharedInitializeCaller.Call", lean: "sharedInitialize", ret: kStatus, typeCtx: true, panics: true,
			startAtRange: "argMap",
			params:       []ccParam{{"argMap", kArgMap}},
			doc:          "defaultSharedInitializeCaller.Call from `for k, v := range argMap` on (obj = args[0], argMap = the supplied initargs)"},
			state: []ccStateVar{{"obj", kInst}, {"nameMap", kStrMap}, {"value", kVal}, {"evaluated", kBool}}},
		{fn: ccFn{goName: "makeClassesReady", lean: "makeClassesReady", ret: kUnit, heapSt: true, fuel: true,
			params: []ccParam{{"p", kHeap}},
			doc:    "makeClassesReady(p *slip.Package)"},
			state: []ccStateVar{{"not", kNames}, {"changed", kBool}}},
		{fn: ccFn{goName: "classChanged", lean: "classChanged", ret: kUnit, heapSt: true, fuel: true,
			params: []ccParam{{"cc", kClass}, {"p", kHeap}},
			doc:    "classChanged(cc slip.Class, p *slip.Package)"},
			state: []ccStateVar{{"changed", kBool}}},
		{fn: ccFn{goName: "DefStandardClass", lean: "DefStandardClass", ret: kUnit, heapSt: true, fuel: true,
			startAt: "mergeSupers",
			doc:     "DefStandardClass(…) from `_ = sc.mergeSupers()` on (the class object `sc` has been filled from the form)"},
			state: []ccStateVar{{"sc", "object"}}},
	}
}

func notTranslated(out *strings.Builder, sp *ccSpec, err error) {
	msg := strings.ReplaceAll(err.Error(), "-/", "- /")
	fmt.Fprintf(out, "/-- NOT TRANSLATED — %s -/\ndef %s.untranslated : Unit := ()\n\n", msg, sp.fn.lean)
}

func genClosCode(repo string) (string, error) {
	fset, funcs, err := ccLoad(repo)
	if err != nil {
		return "", err
	}
	writes := ccWriteSets(funcs)
	specs := ccSpecs()
	fns := map[string]*ccFn{}
	for i := range specs {
		fns[specs[i].fn.goName] = &specs[i].fn
	}
	var out strings.Builder
	out.WriteString("import SlipVerif.Model.ClosGo\n")
	out.WriteString("/- GENERATED by /verif/extract (closcode.go) from pkg/clos/*.go — do not edit.\n")
	out.WriteString("   A statement by statement translation of the Go functions named in the comments into the\n")
	out.WriteString("   combinators of SlipVerif.Model.ClosGo; `-- [sliced]` marks statements that touch no tracked state. -/\n")
	out.WriteString("namespace SlipVerif.Gen.ClosCode\nopen SlipVerif.Clos SlipVerif.ClosGo\n\n")
	for i := range specs {
		sp := &specs[i]
		fd := funcs[sp.fn.goName]
		if fd == nil {
			notTranslated(&out, sp, fmt.Errorf("function %s not found in pkg/clos", sp.fn.goName))
			continue
		}
		c := &ccCtx{fset: fset, funcs: funcs, fns: fns, fn: &sp.fn, vars: map[string]ccVar{}, writes: writes,
			poison: map[string]string{}, idx: map[string][2]string{}}
		if fd.Recv != nil && len(fd.Recv.List[0].Names) == 1 {
			c.recv = fd.Recv.List[0].Names[0].Name
		}
		// parameters
		sig := ""
		if sp.fn.fuel {
			sig += " (fuel : Nat)"
		}
		if sp.fn.heapCtx {
			sig += " (H : Heap)"
		}
		if sp.fn.typeCtx {
			sig += " (T : GClass)"
		}
		if sp.fn.ctxRecv != "" {
			sig += " (" + sp.fn.ctxRecv + " : GClass)"
		}
		call := ""
		gi := 0
		for _, fl := range fd.Type.Params.List {
			for _, n := range fl.Names {
				var pk ccKind
				found := false
				for _, p := range sp.fn.params {
					if p.goName == n.Name {
						pk, found = p.kind, true
					}
				}
				gi++
				if !found {
					// a parameter the translation does not model (scope, depth …): any use is an error
					c.poison[n.Name] = "parameter that is not modelled"
					continue
				}
				if pk == kHeap {
					c.vars[n.Name] = ccVar{lean: "s.heap", kind: kHeap}
					continue
				}
				ln := ccIdent(n.Name)
				c.vars[n.Name] = ccVar{lean: ln, kind: pk}
				sig += fmt.Sprintf(" (%s : %s)", ln, pk.lean())
				call += " " + ln
			}
		}
		var sigErr error
		for _, p := range sp.fn.params {
			if _, ok := c.vars[p.goName]; !ok && sp.fn.startAtRange == "" && sp.fn.startAt == "" {
				sigErr = fmt.Errorf("%s: parameter %s not found (signature changed)", sp.fn.goName, p.goName)
			}
		}
		if sigErr != nil {
			notTranslated(&out, sp, sigErr)
			continue
		}
		sigma := "GClass"
		if sp.fn.recv == "object" {
			sigma = "GObj"
			sig = " (T : GClass)" + sig
		}
		if sp.fn.recv == "" {
			sigma = sp.fn.lean + ".St"
			fmt.Fprintf(&out, "structure %s where\n", sigma)
			if sp.fn.heapSt {
				out.WriteString("  heap : Heap\n")
			}
			for _, sv := range sp.state {
				ln := ccIdent(sv.goName)
				if sv.kind == "object" {
					fmt.Fprintf(&out, "  %s : GClass\n", ln)
				} else if sv.kind == kInst {
					fmt.Fprintf(&out, "  %s : GObj\n", ln)
				} else {
					fmt.Fprintf(&out, "  %s : %s := %s\n", ln, sv.kind.lean(), sv.kind.zero())
				}
				c.vars[sv.goName] = ccVar{lean: ln, kind: sv.kind, state: true}
				delete(c.poison, sv.goName)
			}
			out.WriteString("\n")
		}
		stmts := fd.Body.List
		if sp.fn.startAt != "" {
			k := -1
			for i, st := range stmts {
				hit := false
				ast.Inspect(st, func(n ast.Node) bool {
					if ce, ok := n.(*ast.CallExpr); ok {
						if sel, ok := ce.Fun.(*ast.SelectorExpr); ok && sel.Sel.Name == sp.fn.startAt {
							hit = true
						}
					}
					return true
				})
				if hit {
					k = i
					break
				}
			}
			if k < 0 {
				notTranslated(&out, sp, fmt.Errorf("%s: no statement calls %s", sp.fn.goName, sp.fn.startAt))
				continue
			}
			stmts = stmts[k:]
		}
		if sp.fn.startAtRange != "" {
			k := -1
			for i, st := range stmts {
				if rs, ok := st.(*ast.RangeStmt); ok && isIdent(rs.X, sp.fn.startAtRange) {
					k = i
					break
				}
			}
			if k < 0 {
				notTranslated(&out, sp, fmt.Errorf("%s: no `for … range %s`", sp.fn.goName, sp.fn.startAtRange))
				continue
			}
			stmts = stmts[k:]
		}
		// parameters of a function translated from a later statement on are declared in the spec only
		for _, p := range sp.fn.params {
			if _, ok := c.vars[p.goName]; !ok && (sp.fn.startAtRange != "" || sp.fn.startAt != "") {
				ln := ccIdent(p.goName)
				c.vars[p.goName] = ccVar{lean: ln, kind: p.kind}
				sig += fmt.Sprintf(" (%s : %s)", ln, p.kind.lean())
			}
		}
		if err := c.block(stmts, 1); err != nil {
			// the function no longer has a shape the translator understands: leave a marker instead of
			// its definition — Theorems/GenC12.lean (and every translated function that calls it) then
			// fails to build, which tools/check.py reports as a broken proof obligation (K-gen); the
			// model driver does not depend on this module, so the harness still searches a failing input
			notTranslated(&out, sp, err)
			continue
		}
		fmt.Fprintf(&out, "/-- %s -/\n", sp.fn.doc)
		fmt.Fprintf(&out, "def %s.body%s (s : %s) : Ctl %s (%s) :=\n", sp.fn.lean, sig, sigma, sigma, sp.fn.ret.lean())
		out.WriteString(c.b.String())
		out.WriteString("\n")
		// wrappers
		switch {
		case sp.fn.recv == "object" && sp.fn.pure():
			fmt.Fprintf(&out, "def %s (T : GClass) (s : GObj)%s : %s := (%s.body T%s s).value %s\n\n", sp.fn.lean, strings.TrimPrefix(sig, " (T : GClass)"), sp.fn.ret.lean(), sp.fn.lean, call, sp.fn.ret.zero())
		case sp.fn.recv == "class" && sp.fn.pure():
			hp := ""
			if sp.fn.heapCtx {
				hp = " H"
			}
			hsig := ""
			if sp.fn.heapCtx {
				hsig = " (H : Heap)"
			}
			psig := strings.TrimPrefix(sig, " (H : Heap)")
			fmt.Fprintf(&out, "def %s%s (s : GClass)%s : %s := (%s.body%s%s s).value %s\n\n", sp.fn.lean, hsig, psig, sp.fn.ret.lean(), sp.fn.lean, hp, call, sp.fn.ret.zero())
		case sp.fn.heapSt && sp.fn.startAt == "":
			fmt.Fprintf(&out, "def %s%s (heap : Heap) : Heap := (%s.body%s%s { heap := heap }).state.heap\n\n", sp.fn.lean, sig, sp.fn.lean,
				map[bool]string{true: " fuel", false: ""}[sp.fn.fuel], call)
		}
	}
	out.WriteString("end SlipVerif.Gen.ClosCode\n")
	return out.String(), nil
}
