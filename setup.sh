#!/bin/sh
# Build the framework from files on disk only (offline): regenerate Gen/*.lean, build the Lean
# model, driver and every theorem module, build the harness.
set -e
here=$(cd "$(dirname "$0")" && pwd)
cd "$here"
export GOFLAGS=-mod=mod GOPROXY=off
unset GOSUMDB
[ "$GOTOOLCHAIN" = local ] && unset GOTOOLCHAIN
mkdir -p .work evidence replay
(cd extract && go run . -repo "${VERIF_REPO:-/repo}" -out "$here/lean/SlipVerif/Gen")
python3 tools/gen_main.py "$here/lean"
mods=$(python3 - <<'PY'
import glob, json
ms = []
for p in sorted(glob.glob('props/C*.json')):
    c = json.load(open(p))
    ms += c.get('theorem_modules', [])
print(' '.join(dict.fromkeys(ms)))
PY
)
gens=$(python3 - <<'PY'
import glob, json
ms = []
for p in sorted(glob.glob('props/C*.json')):
    c = json.load(open(p))
    ms += c.get('gen_modules', [])
print(' '.join(dict.fromkeys(ms)))
PY
)
(cd lean && lake build slipmodel $mods)
# generated obligations are facts about the repository as it is now: a failure here is a verdict of
# ./check (K-gen broken), not a setup failure
for g in $gens; do
  (cd lean && lake build $g) || echo "setup: generated obligation $g does not build on this tree (./check will report it)"
done
echo "setup ok"
