import SlipVerif.Model.Printer
/- C03 helper lemmas: string / |symbol| escaping and un-escaping (core only) -/
namespace SlipVerif.Printer

theorem scalarOf_toNat (c : Char) : scalarOf c.toNat = c := by
  unfold scalarOf
  have hv : c.toNat.isValidChar := c.valid
  simp only [hv, dite_true]
  rfl

/-- `\u00XX` written by the printers reads back as the code XX (all codes below 128) -/
theorem hexNum_hex2_fin : ∀ n : Fin 128, hexNum ('0' :: '0' :: hex2 n.val) 0 = some n.val := by decide

theorem hexNum_hex2 (n : Nat) (h : n < 128) : hexNum ('0' :: '0' :: hex2 n) 0 = some n :=
  hexNum_hex2_fin ⟨n, h⟩

theorem hex2_length (n : Nat) : ∃ a b, hex2 n = [a, b] := ⟨_, _, rfl⟩

theorem readEscape_u00 (n : Nat) (h : n < 128) (tail : List Char) :
    readEscape ('u' :: '0' :: '0' :: hex2 n ++ tail) = .ok (scalarOf n, tail) := by
  obtain ⟨a, b, hab⟩ := hex2_length n
  have := hexNum_hex2 n h
  rw [hab] at this ⊢
  simp [readEscape, this]


theorem hexNum_2028 : hexNum ['2', '0', '2', '8'] 0 = some 0x2028 := by decide
theorem hexNum_2029 : hexNum ['2', '0', '2', '9'] 0 = some 0x2029 := by decide
theorem hexNum_fffd : hexNum ['f', 'f', 'f', 'd'] 0 = some 0xFFFD := by decide
theorem scalarOf_2028 : scalarOf 0x2028 = Char.ofNat 0x2028 := by decide
theorem scalarOf_2029 : scalarOf 0x2029 = Char.ofNat 0x2029 := by decide
theorem scalarOf_fffd : scalarOf 0xFFFD = Char.ofNat 0xFFFD := by decide

theorem char_of_toNat (c : Char) (n : Nat) (h : c.toNat = n) : c = Char.ofNat n := by
  rw [← h, Char.ofNat_toNat]

/-- one character of a readably printed string is read back in one step -/
theorem readDelimited_strEsc (c : Char) (tail : List Char) (fuel : Nat) (acc : List Char) :
    readDelimited '"' (fuel + 1) (strEsc c ++ tail) acc = readDelimited '"' fuel tail (c :: acc) := by
  unfold strEsc
  simp only
  split
  · rename_i h; subst h; simp [readDelimited, readEscape]
  split
  · rename_i h; subst h; simp [readDelimited, readEscape]
  split
  · rename_i h; rw [char_of_toNat c 8 h]; simp [readDelimited, readEscape]
  split
  · rename_i h; rw [char_of_toNat c 9 h]; simp [readDelimited, readEscape]
  split
  · rename_i h; rw [char_of_toNat c 10 h]; simp [readDelimited, readEscape]
  split
  · rename_i h; rw [char_of_toNat c 12 h]; simp [readDelimited, readEscape]
  split
  · rename_i h; rw [char_of_toNat c 13 h]; simp [readDelimited, readEscape]
  split
  · rename_i h
    have hlt : c.toNat < 128 := by omega
    have he := readEscape_u00 c.toNat hlt tail
    simp only [List.cons_append] at he ⊢
    simp [readDelimited, he, scalarOf_toNat]
  split
  · rename_i h; rw [char_of_toNat c 0x2028 h]; simp [readDelimited, readEscape, hexNum_2028, scalarOf_2028]
  split
  · rename_i h; rw [char_of_toNat c 0x2029 h]; simp [readDelimited, readEscape, hexNum_2029, scalarOf_2029]
  split
  · rename_i h; rw [char_of_toNat c 0xFFFD h]; simp [readDelimited, readEscape, hexNum_fffd, scalarOf_fffd]
  · rename_i h1 h2 h3 h4 h5 h6 h7 h8 h9 h10 h11
    have hraw : rawOk c = true := by
      unfold rawOk
      simp
      omega
    simp [readDelimited, h1, h2, hraw]


/-- string escape / unescape round trip: the escaped text of any string, followed by the closing
    quote, reads back as that string and leaves the rest -/
theorem readDelimited_str (s : List Char) : ∀ (rest : List Char) (fuel : Nat) (acc : List Char),
    s.length < fuel →
    readDelimited '"' fuel (s.flatMap strEsc ++ '"' :: rest) acc = .ok (acc.reverse ++ s, rest) := by
  induction s with
  | nil =>
    intro rest fuel acc h
    cases fuel with
    | zero => simp at h
    | succ f => simp [readDelimited]
  | cons c cs ih =>
    intro rest fuel acc h
    cases fuel with
    | zero => simp at h
    | succ f =>
      simp only [List.flatMap_cons, List.append_assoc]
      rw [readDelimited_strEsc, ih rest f (c :: acc) (by simpa using h)]
      simp

/-- one character between bars is read back in one step -/
theorem readDelimited_barEsc (c : Char) (tail : List Char) (fuel : Nat) (acc : List Char) :
    readDelimited '|' (fuel + 1) (barEsc c ++ tail) acc = readDelimited '|' fuel tail (c :: acc) := by
  unfold barEsc
  split
  · rename_i h
    rcases h with h | h
    · subst h; simp [readDelimited, readEscape]
    · subst h; simp [readDelimited, readEscape]
  split
  · rename_i h1 h
    have hlt : c.toNat < 128 := by omega
    have he := readEscape_u00 c.toNat hlt tail
    simp only [List.cons_append] at he ⊢
    simp [readDelimited, he, scalarOf_toNat]
  · rename_i h1 h2
    have h1' : c ≠ '|' ∧ c ≠ '\\' := by
      constructor <;> intro h <;> apply h1 <;> simp [h]
    have hraw : rawOk c = true := by
      unfold rawOk
      simp
      omega
    simp [readDelimited, h1'.1, h1'.2, hraw]

/-- |symbol| escape / unescape round trip -/
theorem readDelimited_bar (s : List Char) : ∀ (rest : List Char) (fuel : Nat) (acc : List Char),
    s.length < fuel →
    readDelimited '|' fuel (s.flatMap barEsc ++ '|' :: rest) acc = .ok (acc.reverse ++ s, rest) := by
  induction s with
  | nil =>
    intro rest fuel acc h
    cases fuel with
    | zero => simp at h
    | succ f => simp [readDelimited]
  | cons c cs ih =>
    intro rest fuel acc h
    cases fuel with
    | zero => simp at h
    | succ f =>
      simp only [List.flatMap_cons, List.append_assoc]
      rw [readDelimited_barEsc, ih rest f (c :: acc) (by simpa using h)]
      simp

/-- escaping never shortens: the reader's fuel (text length + 1) is enough -/
theorem strEsc_length (c : Char) : 1 ≤ (strEsc c).length := by
  unfold strEsc
  simp only
  repeat (first | split | simp [hex2])

theorem barEsc_length (c : Char) : 1 ≤ (barEsc c).length := by
  unfold barEsc
  repeat (first | split | simp [hex2])

theorem flatMap_length_ge {f : Char → List Char} (hf : ∀ c, 1 ≤ (f c).length) (s : List Char) :
    s.length ≤ (s.flatMap f).length := by
  induction s with
  | nil => simp
  | cons c cs ih =>
    simp only [List.flatMap_cons, List.length_cons, List.length_append]
    have := hf c
    omega

end SlipVerif.Printer
