import SlipVerif.Lemmas.LoadForm
/-
  C19 — helper lemmas for instances (slot states) and flavors (effective defaults, load form
  variables, reloading a world). Property theorems: Theorems/C19.lean.
-/
namespace SlipVerif.LoadForm
open Obj

/-! ### association lists -/

theorem lookupS_append {α : Type} (k : String) (a b : List (String × α)) :
    lookupS k (a ++ b) = match lookupS k a with | some x => some x | none => lookupS k b := by
  induction a with
  | nil => simp [lookupS]
  | cons h t ih =>
    obtain ⟨k', x⟩ := h
    by_cases e : k' = k
    · simp [lookupS, e]
    · simp [lookupS, e, ih]

theorem lookupS_none_of_not_mem {α : Type} (k : String) (l : List (String × α))
    (h : k ∉ l.map Prod.fst) : lookupS k l = none := by
  induction l with
  | nil => simp [lookupS]
  | cons hd t ih =>
    obtain ⟨k', x⟩ := hd
    have h1 : k' ≠ k := by intro e; apply h; simp [e]
    have h2 : k ∉ t.map Prod.fst := by intro e; apply h; simp [e]
    simp [lookupS, h1, ih h2]

theorem lookupS_of_mem {α : Type} (k : String) (x : α) (l : List (String × α))
    (hn : (l.map Prod.fst).Nodup) (h : (k, x) ∈ l) : lookupS k l = some x := by
  induction l with
  | nil => simp at h
  | cons hd t ih =>
    obtain ⟨k', x'⟩ := hd
    simp only [List.map_cons, List.nodup_cons] at hn
    rcases List.mem_cons.mp h with e | e
    · injection e with e1 e2
      simp [lookupS, e1, e2]
    · have : k' ≠ k := by
        intro e'; apply hn.1; rw [e']; exact List.mem_map.mpr ⟨(k, x), e, rfl⟩
      simp [lookupS, this, ih hn.2 e]

theorem lookupS_map {α β : Type} (f : α → β) (k : String) (l : List (String × α)) :
    lookupS k (l.map fun (s, x) => (s, f x)) = (lookupS k l).map f := by
  induction l with
  | nil => simp [lookupS]
  | cons hd t ih =>
    obtain ⟨k', x⟩ := hd
    by_cases e : k' = k <;> simp [lookupS, e, ih]

/-! ### instances -/

def slotWf : Slot → Bool
  | .bound v => wf v
  | .unbound => true

theorem rebuildSlot_slotOpFor (init st : Slot) (h : slotWf st = true) :
    rebuildSlot init (slotOpFor (some init) st) = .ok st := by
  cases st with
  | unbound => cases init <;> simp [slotOpFor, rebuildSlot]
  | bound v =>
    simp only [slotWf] at h
    simp [slotOpFor, rebuildSlot, roundtrip_obj v h, Except.map]

theorem opOf_instanceLoadOps (fresh slots : List (String × Slot)) (hn : (slots.map Prod.fst).Nodup)
    (s : String) (st : Slot) (h : (s, st) ∈ slots) :
    opOf (instanceLoadOps fresh slots) s = slotOpFor (lookupS s fresh) st := by
  unfold opOf instanceLoadOps
  have h2 : lookupS s (slots.map fun (x : String × Slot) => (x.1, slotOpFor (lookupS x.1 fresh) x.2)) =
      some (slotOpFor (lookupS s fresh) st) := by
    induction slots with
    | nil => simp at h
    | cons hd tl ih =>
      obtain ⟨k, x⟩ := hd
      simp only [List.map_cons, List.nodup_cons] at hn
      rcases List.mem_cons.mp h with e | e
      · injection e with e1 e2
        simp [lookupS, e1, e2]
      · have hk : k ≠ s := by
          intro e'; apply hn.1; rw [e']; exact List.mem_map.mpr ⟨(s, st), e, rfl⟩
        simp [lookupS, hk, ih hn.2 e]
  rw [h2]

theorem rebuild_sub (allFresh slots : List (String × Slot)) (hn : (slots.map Prod.fst).Nodup)
    (hfn : (allFresh.map Prod.fst).Nodup) (hw : ∀ x ∈ slots, slotWf x.2 = true) :
    ∀ (sub fresh : List (String × Slot)), fresh.map Prod.fst = sub.map Prod.fst →
      (∀ x ∈ sub, x ∈ slots) → (∀ x ∈ fresh, x ∈ allFresh) →
      (fresh.mapM fun (x : String × Slot) =>
        (rebuildSlot x.2 (opOf (instanceLoadOps allFresh slots) x.1)).map fun st => (x.1, st)) = .ok sub
  | [], [], _, _, _ => by simp [pure, Except.pure]
  | [], _ :: _, h, _, _ => by simp at h
  | _ :: _, [], h, _, _ => by simp at h
  | (s, st) :: sub, (s', init) :: fresh, h, hm, hf => by
    simp only [List.map_cons, List.cons.injEq] at h
    have hs : s' = s := h.1
    subst hs
    have hmem : (s', st) ∈ slots := hm _ (by simp)
    have hfm : (s', init) ∈ allFresh := hf _ (by simp)
    have hl : opOf (instanceLoadOps allFresh slots) s' = slotOpFor (some init) st := by
      rw [opOf_instanceLoadOps allFresh slots hn s' st hmem, lookupS_of_mem s' init allFresh hfn hfm]
    have ih := rebuild_sub allFresh slots hn hfn hw sub fresh h.2
      (fun x hx => hm x (List.mem_cons_of_mem _ hx)) (fun x hx => hf x (List.mem_cons_of_mem _ hx))
    simp only [List.mapM_cons, hl, rebuildSlot_slotOpFor init st (hw _ hmem), Except.map, bind, Except.bind, pure, Except.pure] at ih ⊢
    rw [ih]

/-! ### flavors: effective defaults -/

theorem lookupS_mergeMissing (v : String) : ∀ (more acc : List (String × Obj)),
    lookupS v (mergeMissing acc more) =
      match lookupS v acc with | some d => some d | none => lookupS v more
  | [], acc => by cases h : lookupS v acc <;> simp [mergeMissing, lookupS, h]
  | (v', d) :: rest, acc => by
    unfold mergeMissing
    cases h' : lookupS v' acc with
    | some x =>
      simp only []
      rw [lookupS_mergeMissing v rest acc]
      cases h : lookupS v acc with
      | some y => simp
      | none =>
        have : v' ≠ v := by intro e; rw [e] at h'; rw [h] at h'; cases h'
        simp [lookupS, this]
    | none =>
      simp only []
      rw [lookupS_mergeMissing v rest (acc ++ [(v', d)]), lookupS_append]
      cases h : lookupS v acc with
      | some y => simp
      | none =>
        by_cases e : v' = v
        · simp [lookupS, e]
        · simp [lookupS, e]

theorem effective_cons (w : List Flav) (own : List (String × Obj)) (n : String) (rest : List String) :
    effective w own (n :: rest) = effective w (mergeMissing own (flavDefaults w n)) rest := by
  simp [effective]

/-- the effective default of a variable: the own declaration, else what inheritance gives -/
theorem lookupS_effective (w : List Flav) (v : String) : ∀ (inh : List String) (own : List (String × Obj)),
    lookupS v (effective w own inh) =
      match lookupS v own with | some d => some d | none => inheritedDefault w inh v
  | [], own => by cases h : lookupS v own <;> simp [effective, inheritedDefault, h]
  | n :: rest, own => by
    rw [effective_cons, lookupS_effective w v rest, lookupS_mergeMissing]
    cases h : lookupS v own with
    | some d => simp
    | none =>
      cases h2 : lookupS v (flavDefaults w n) with
      | some d => simp [inheritedDefault, h2]
      | none => simp [inheritedDefault, h2]

theorem lookupS_filter (p : String × Obj → Bool) (v : String) : ∀ (l : List (String × Obj)),
    (l.map Prod.fst).Nodup →
    lookupS v (l.filter p) = (lookupS v l).bind fun d => if p (v, d) then some d else none
  | [], _ => by simp [lookupS]
  | (k, x) :: tl, hn => by
    simp only [List.map_cons, List.nodup_cons] at hn
    by_cases e : k = v
    · subst e
      have hnone : lookupS k tl = none := lookupS_none_of_not_mem k tl hn.1
      by_cases hp : p (k, x) = true
      · simp [List.filter, hp, lookupS]
      · have hp' : p (k, x) = false := by simpa using hp
        simp only [List.filter, hp', lookupS, if_true, Option.bind]
        rw [lookupS_filter p k tl hn.2, hnone]
        simp
    · by_cases hp : p (k, x) = true
      · simp [List.filter, hp, lookupS, e, lookupS_filter p v tl hn.2]
      · have hp' : p (k, x) = false := by simpa using hp
        simp [List.filter, hp', lookupS, e, lookupS_filter p v tl hn.2]

/-- the defaults of a flavor are complete: a variable that the flavor does not have is not
    inherited either -/
def Complete (w : List Flav) (f : Flav) : Prop :=
  ∀ v, lookupS v f.defaults = none → inheritedDefault w f.inherits v = none

theorem rebuild_same_defaults (w : List Flav) (f : Flav) (hn : (f.defaults.map Prod.fst).Nodup)
    (hc : Complete w f) (v : String) :
    lookupS v (effective w (flavorLoadVars w f) f.inherits) = lookupS v f.defaults := by
  rw [lookupS_effective]
  unfold flavorLoadVars
  rw [lookupS_filter _ v f.defaults hn]
  cases h : lookupS v f.defaults with
  | none => simp [hc v h]
  | some d =>
    by_cases hp : inheritedDefault w f.inherits v = some d
    · simp [hp]
    · simp [hp]

theorem lookupS_some_of_mem_keys {α : Type} (k : String) : ∀ (l : List (String × α)),
    k ∈ l.map Prod.fst → ∃ y, lookupS k l = some y
  | [], h => by simp at h
  | (k', x') :: tl, h => by
    by_cases e : k' = k
    · exact ⟨x', by simp [lookupS, e]⟩
    · have : k ∈ tl.map Prod.fst := by
        simp only [List.map_cons, List.mem_cons] at h
        rcases h with h | h
        · exact absurd h.symm e
        · exact h
      obtain ⟨y, hy⟩ := lookupS_some_of_mem_keys k tl this
      exact ⟨y, by simp [lookupS, e, hy]⟩

theorem nodup_mergeMissing : ∀ (more acc : List (String × Obj)), (acc.map Prod.fst).Nodup →
    ((mergeMissing acc more).map Prod.fst).Nodup
  | [], acc, h => by simpa [mergeMissing] using h
  | (v, d) :: rest, acc, h => by
    unfold mergeMissing
    cases h' : lookupS v acc with
    | some x => exact nodup_mergeMissing rest acc h
    | none =>
      apply nodup_mergeMissing rest
      rw [List.map_append, List.nodup_append]
      refine ⟨h, by simp, ?_⟩
      intro a ha b hb
      simp at hb
      subst hb
      intro e
      subst e
      obtain ⟨y, hy⟩ := lookupS_some_of_mem_keys a acc ha
      rw [hy] at h'
      cases h'

theorem nodup_effective (w : List Flav) : ∀ (inh : List String) (own : List (String × Obj)),
    (own.map Prod.fst).Nodup → ((effective w own inh).map Prod.fst).Nodup
  | [], own, h => by simpa [effective] using h
  | n :: rest, own, h => by
    rw [effective_cons]
    exact nodup_effective w rest _ (nodup_mergeMissing _ own h)

theorem complete_defFlavor (w : List Flav) (name : String) (own : List (String × Obj)) (direct : List String) :
    Complete w (defFlavor w name own direct) := by
  intro v h
  simp only [defFlavor] at h ⊢
  rw [lookupS_effective] at h
  cases h2 : lookupS v own with
  | some d => simp [h2] at h
  | none => simpa [h2] using h


/-! ### reloading a whole world of flavors -/

/-- two worlds agree: same flavor names in the same order, the same default for every variable of
    every flavor -/
def Agree (o w : List Flav) : Prop :=
  w.map (·.name) = o.map (·.name) ∧ ∀ n v, lookupS v (flavDefaults w n) = lookupS v (flavDefaults o n)

/-- a world in definition order: fresh names, inherited flavors defined before, no duplicate
    variables, defaults complete with respect to the flavors defined before -/
def WorldOk : List Flav → List Flav → Prop
  | _, [] => True
  | pre, f :: rest =>
    f.name ∉ pre.map (·.name) ∧ (f.defaults.map Prod.fst).Nodup ∧ Complete pre f ∧ WorldOk (pre ++ [f]) rest

theorem findFlav_none_iff (w : List Flav) (n : String) : findFlav w n = none ↔ n ∉ w.map (·.name) := by
  unfold findFlav
  rw [List.find?_eq_none]
  constructor
  · intro h hm
    obtain ⟨f, hf, hn⟩ := List.mem_map.mp hm
    exact h f hf (by simp [hn])
  · intro h f hf hp
    apply h
    exact List.mem_map.mpr ⟨f, hf, by simpa using hp⟩

theorem flavDefaults_append (l : List Flav) (x : Flav) (n : String) :
    flavDefaults (l ++ [x]) n =
      if n ∈ l.map (·.name) then flavDefaults l n else if x.name = n then x.defaults else [] := by
  unfold flavDefaults findFlav
  rw [List.find?_append]
  by_cases hm : n ∈ l.map (·.name)
  · simp only [hm, if_true]
    have : findFlav l n ≠ none := by rw [Ne, findFlav_none_iff]; exact fun h => h hm
    unfold findFlav at this
    cases h : List.find? (fun x => x.name == n) l with
    | none => exact absurd h this
    | some f => simp
  · simp only [hm, if_false]
    have : findFlav l n = none := (findFlav_none_iff l n).mpr hm
    unfold findFlav at this
    rw [this]
    by_cases e : x.name = n <;> simp [e]

theorem inheritedDefault_agree (o w : List Flav) (h : Agree o w) (v : String) :
    ∀ inh : List String, inheritedDefault w inh v = inheritedDefault o inh v
  | [] => by simp [inheritedDefault]
  | n :: rest => by
    simp only [inheritedDefault, h.2 n v, inheritedDefault_agree o w h v rest]

theorem reload_agree : ∀ (rest o w : List Flav), Agree o w → WorldOk o rest →
    Agree (o ++ rest) (reloadFlavors flavorLoadVars o w rest)
  | [], o, w, ha, _ => by simpa [reloadFlavors] using ha
  | f :: rest, o, w, ha, hw => by
    obtain ⟨hfresh, hnd, hc, hrest⟩ := hw
    have hnew : ∀ v, lookupS v (effective w (flavorLoadVars o f) f.inherits) = lookupS v f.defaults := by
      intro v
      rw [lookupS_effective, inheritedDefault_agree o w ha v, ← lookupS_effective]
      exact rebuild_same_defaults o f hnd hc v
    have hstep : Agree (o ++ [f])
        (w ++ [{ name := f.name, inherits := f.inherits, defaults := effective w (flavorLoadVars o f) f.inherits }]) := by
      refine ⟨by simp [ha.1], ?_⟩
      intro n v
      rw [flavDefaults_append, flavDefaults_append, ha.1]
      by_cases hm : n ∈ o.map (·.name)
      · simp only [hm, if_true]; exact ha.2 n v
      · simp only [hm, if_false]
        by_cases e : f.name = n
        · simp only [e, if_true]; exact hnew v
        · simp [e]
    have := reload_agree rest (o ++ [f]) _ hstep hrest
    simpa [reloadFlavors, List.append_assoc] using this


/-! ### worlds built by a session of defflavor forms -/

/-- a session: fresh flavor names, no variable declared twice in one defflavor -/
def SessionOk : List (String × List (String × Obj) × List String) → List String → Prop
  | [], _ => True
  | (n, own, _) :: rest, seen => n ∉ seen ∧ (own.map Prod.fst).Nodup ∧ SessionOk rest (seen ++ [n])

def newFlavs : List (String × List (String × Obj) × List String) → List Flav → List Flav
  | [], _ => []
  | (n, own, direct) :: rest, w => defFlavor w n own direct :: newFlavs rest (w ++ [defFlavor w n own direct])

theorem defFlavors_eq : ∀ (defs : List (String × List (String × Obj) × List String)) (w : List Flav),
    defFlavors defs w = w ++ newFlavs defs w
  | [], w => by simp [defFlavors, newFlavs]
  | (n, own, direct) :: rest, w => by
    simp [defFlavors, newFlavs, defFlavors_eq rest, List.append_assoc]

theorem worldOk_newFlavs : ∀ (defs : List (String × List (String × Obj) × List String)) (w : List Flav),
    SessionOk defs (w.map (·.name)) → WorldOk w (newFlavs defs w)
  | [], _, _ => by simp [newFlavs, WorldOk]
  | (n, own, direct) :: rest, w, h => by
    obtain ⟨hf, hn, hr⟩ := h
    refine ⟨by simpa [defFlavor] using hf, ?_, complete_defFlavor w n own direct, ?_⟩
    · simpa [defFlavor] using nodup_effective w _ own hn
    · apply worldOk_newFlavs rest
      simpa [defFlavor, List.map_append] using hr

end SlipVerif.LoadForm
