import SlipVerif.Model.Clos
/-
  Helper lemmas for C12 (Theorems/C12.lean). Core Lean only is enough here.
-/
namespace SlipVerif.Clos

/-! ## dedup -/

theorem mem_dedup {x : Name} : ∀ {l : List Name}, x ∈ dedup l ↔ x ∈ l
  | [] => by simp [dedup]
  | y :: ys => by
    have ih := @mem_dedup x ys
    by_cases h : x = y
    · subst h; simp [dedup]
    · simp [dedup, List.mem_filter, ih, h]

theorem dedup_nodup : ∀ (l : List Name), (dedup l).Nodup
  | [] => by simp [dedup]
  | y :: ys => by
    have ih := dedup_nodup ys
    simp only [dedup, List.nodup_cons, List.mem_filter]
    refine ⟨by simp, ?_⟩
    exact List.Nodup.sublist List.filter_sublist ih

/-! ## collect -/

theorem collect_mono {f g : Name → Option (List Name)} :
    ∀ {xs : List Name} {r : List Name}, (∀ x ∈ xs, ∀ l, f x = some l → g x = some l) →
      collect f xs = some r → collect g xs = some r
  | [], r, _, h => by simpa [collect] using h
  | x :: xs, r, hfg, h => by
    simp only [collect] at h ⊢
    cases hx : f x with
    | none => simp [hx] at h
    | some l =>
      cases hr : collect f xs with
      | none => simp [hx, hr] at h
      | some r' =>
        simp only [hx, hr] at h
        have h1 := hfg x (by simp) l hx
        have h2 := collect_mono (fun y hy => hfg y (by simp [hy])) hr
        simp [h1, h2]; simpa using h

/-- every element of the collected list comes from the list of one of the `xs` -/
theorem mem_collect {f : Name → Option (List Name)} {k : Name} :
    ∀ {xs : List Name} {r : List Name}, collect f xs = some r →
      (k ∈ r ↔ ∃ x ∈ xs, ∃ l, f x = some l ∧ k ∈ l)
  | [], r, h => by
    simp [collect] at h; subst h; simp
  | x :: xs, r, h => by
    simp only [collect] at h
    cases hx : f x with
    | none => simp [hx] at h
    | some l =>
      cases hr : collect f xs with
      | none => simp [hx, hr] at h
      | some r' =>
        simp only [hx, hr, Option.some.injEq] at h
        subst h
        have ih := @mem_collect f k xs r' hr
        simp only [List.mem_append, ih, List.mem_cons, exists_eq_or_imp, hx, Option.some.injEq,
          exists_eq_left']

/-- `collect` succeeds exactly when every element has a list -/
theorem collect_elim {f : Name → Option (List Name)} :
    ∀ {xs : List Name} {r : List Name}, collect f xs = some r → ∀ x ∈ xs, ∃ l, f x = some l
  | [], _, _, x, hx => by simp at hx
  | y :: ys, r, h, x, hx => by
    simp only [collect] at h
    cases hy : f y with
    | none => simp [hy] at h
    | some l =>
      cases hr : collect f ys with
      | none => simp [hy, hr] at h
      | some r' =>
        rcases List.mem_cons.1 hx with rfl | hx'
        · exact ⟨l, hy⟩
        · exact collect_elim hr x hx'

theorem collect_of_all {f : Name → Option (List Name)} :
    ∀ {xs : List Name}, (∀ x ∈ xs, ∃ l, f x = some l) → ∃ r, collect f xs = some r
  | [], _ => ⟨[], rfl⟩
  | y :: ys, h => by
    obtain ⟨l, hl⟩ := h y (by simp)
    obtain ⟨r, hr⟩ := collect_of_all (xs := ys) (fun x hx => h x (by simp [hx]))
    exact ⟨l ++ r, by simp [collect, hl, hr]⟩

/-! ## the specification `spec` -/

theorem mergeWith_mono {f g : Name → Option (List Name)} {d : ClassDef} {l : List Name}
    (hfg : ∀ x ∈ d.supers, ∀ l, f x = some l → g x = some l) (h : mergeWith f d = some l) :
    mergeWith g d = some l := by
  unfold mergeWith at h ⊢
  cases hc : collect f d.supers with
  | none => simp [hc] at h
  | some r =>
    rw [collect_mono hfg hc]
    simpa [hc] using h

theorem spec_succ {D : Name → Option ClassDef} : ∀ {n : Nat} {c : Name} {l : List Name},
    spec D n c = some l → spec D (n + 1) c = some l
  | 0, _, _, h => by simp [spec] at h
  | n + 1, c, l, h => by
    rw [spec] at h ⊢
    cases hd : D c with
    | none => simp [hd] at h
    | some d =>
      simp only [hd] at h ⊢
      exact mergeWith_mono (fun x _ l hl => spec_succ hl) h

theorem spec_mono {D : Name → Option ClassDef} {n m : Nat} {c : Name} {l : List Name}
    (hnm : n ≤ m) (h : spec D n c = some l) : spec D m c = some l := by
  induction hnm with
  | refl => exact h
  | step _ ih => exact spec_succ ih

/-- the fuel never changes the answer, only whether there is one -/
theorem spec_det {D : Name → Option ClassDef} {n m : Nat} {c : Name} {l l' : List Name}
    (h : spec D n c = some l) (h' : spec D m c = some l') : l = l' := by
  have h1 := spec_mono (Nat.le_max_left n m) h
  have h2 := spec_mono (Nat.le_max_right n m) h'
  rw [h1] at h2
  exact Option.some.inj h2

/-- lists available at some fuel for every element are available at one common fuel -/
theorem collect_spec_of_all {D : Name → Option ClassDef} {f : Name → Option (List Name)} :
    ∀ {xs : List Name} {r : List Name}, (∀ x l, f x = some l → ∃ n, spec D n x = some l) →
      collect f xs = some r → ∃ n, collect (spec D n) xs = some r
  | [], r, _, h => ⟨0, by simpa [collect] using h⟩
  | x :: xs, r, hf, h => by
    simp only [collect] at h
    cases hx : f x with
    | none => simp [hx] at h
    | some l =>
      cases hr : collect f xs with
      | none => simp [hx, hr] at h
      | some r' =>
        simp only [hx, hr, Option.some.injEq] at h
        obtain ⟨n1, h1⟩ := hf x l hx
        obtain ⟨n2, h2⟩ := collect_spec_of_all hf hr
        refine ⟨max n1 n2, ?_⟩
        have e1 := spec_mono (Nat.le_max_left n1 n2) h1
        have e2 : collect (spec D (max n1 n2)) xs = some r' :=
          collect_mono (fun y _ l hl => spec_mono (Nat.le_max_right n1 n2) hl) h2
        simp [collect, e1, e2, h]

/-! ## lookup in the state -/

theorem find_name : ∀ {s : State} {c : Name} {e : Entry}, find s c = some e → e.name = c
  | [], _, _, h => by simp [find] at h
  | e0 :: s, c, e, h => by
    simp only [find] at h
    by_cases h0 : e0.name = c
    · simp [h0] at h; subst h; exact h0
    · simp [h0] at h; exact find_name h

theorem find_mem : ∀ {s : State} {c : Name} {e : Entry}, find s c = some e → e ∈ s
  | [], _, _, h => by simp [find] at h
  | e0 :: s, c, e, h => by
    simp only [find] at h
    by_cases h0 : e0.name = c
    · simp [h0] at h; subst h; simp
    · simp [h0] at h; exact List.mem_cons_of_mem _ (find_mem h)

theorem find_mem_names {s : State} {c : Name} {e : Entry} (h : find s c = some e) : c ∈ names s := by
  have := find_mem h
  have hn := find_name h
  unfold names
  exact List.mem_map.2 ⟨e, this, hn⟩

theorem find_setInh (v : Option (List Name)) (c : Name) : ∀ (s : State) (k : Name),
    find (setInh s c v) k =
      (find s k).map (fun e => if e.name = c then { e with inh := v } else e)
  | [], k => by simp [setInh, find]
  | e0 :: s, k => by
    have ih := find_setInh v c s k
    show find ((if e0.name = c then { e0 with inh := v } else e0) :: setInh s c v) k = _
    have hname : (if e0.name = c then { e0 with inh := v } else e0).name = e0.name := by
      by_cases h0 : e0.name = c <;> simp [h0]
    simp only [find, hname]
    by_cases hk : e0.name = k
    · simp [hk]
    · simp [hk, ih]

theorem defOf_setInh (s : State) (c : Name) (v : Option (List Name)) (k : Name) :
    defOf (setInh s c v) k = defOf s k := by
  unfold defOf
  rw [find_setInh]
  cases find s k with
  | none => rfl
  | some e => by_cases h : e.name = c <;> simp [h]

theorem inhOf_setInh_ne (s : State) {c k : Name} (v : Option (List Name)) (h : k ≠ c) :
    inhOf (setInh s c v) k = inhOf s k := by
  unfold inhOf
  rw [find_setInh]
  cases hf : find s k with
  | none => rfl
  | some e =>
    have := find_name hf
    have hne : e.name ≠ c := by rw [this]; exact h
    simp [hne]

theorem inhOf_setInh_self (s : State) {c : Name} {e : Entry} (v : Option (List Name))
    (h : find s c = some e) : inhOf (setInh s c v) c = v := by
  unfold inhOf
  rw [find_setInh, h]
  simp [find_name h]

theorem names_setInh (s : State) (c : Name) (v : Option (List Name)) :
    names (setInh s c v) = names s := by
  unfold names setInh
  rw [List.map_map]
  apply List.map_congr_left
  intro e _
  by_cases h : e.name = c <;> simp [h]

/-! ## soundness: a ready class carries the specified list -/

/-- every ready class of the state carries the list the specification assigns to it -/
def Sound (s : State) : Prop :=
  ∀ c l, inhOf s c = some l → ∃ n, spec (defOf s) n c = some l

theorem defOf_of_find {s : State} {c : Name} {e : Entry} (h : find s c = some e) :
    defOf s c = some e.defn := by simp [defOf, h]

theorem merge_sound {s : State} (hs : Sound s) {c : Name} {d : ClassDef} {l : List Name}
    (hd : defOf s c = some d) (hm : mergeSupers s d = some l) :
    ∃ n, spec (defOf s) n c = some l := by
  unfold mergeSupers mergeWith at hm
  cases hc : collect (inhOf s) d.supers with
  | none => simp [hc] at hm
  | some r =>
    simp only [hc, Option.map_some, Option.some.injEq] at hm
    obtain ⟨n, hn⟩ := collect_spec_of_all (D := defOf s) (fun x l hx => hs x l hx) hc
    refine ⟨n + 1, ?_⟩
    simp [spec, hd, mergeWith, hn, hm]

/-- the two possible outcomes of one merge attempt -/
theorem tryReady_cases (s : State) (c : Name) :
    tryReady s c = s ∨
    ∃ e l, find s c = some e ∧ e.inh = none ∧ mergeSupers s e.defn = some l ∧
      tryReady s c = setInh s c (some l) := by
  unfold tryReady
  cases hf : find s c with
  | none => simp
  | some e =>
    cases hi : e.inh with
    | some _ => simp [hi]
    | none =>
      cases hm : mergeSupers s e.defn with
      | none => simp [hi, hm]
      | some l => exact Or.inr ⟨e, l, rfl, hi, hm, by simp [hi, hm]⟩

theorem defOf_tryReady (s : State) (c k : Name) : defOf (tryReady s c) k = defOf s k := by
  rcases tryReady_cases s c with h | ⟨e, l, _, _, _, h⟩
  · rw [h]
  · rw [h, defOf_setInh]

theorem names_tryReady (s : State) (c : Name) : names (tryReady s c) = names s := by
  rcases tryReady_cases s c with h | ⟨e, l, _, _, _, h⟩
  · rw [h]
  · rw [h, names_setInh]

theorem sound_congr {s s' : State} (hd : ∀ k, defOf s' k = defOf s k) (hs : Sound s)
    (h : ∀ c l, inhOf s' c = some l → inhOf s c = some l ∨ ∃ n, spec (defOf s) n c = some l) :
    Sound s' := by
  intro c l hc
  have e : defOf s' = defOf s := funext hd
  rw [e]
  rcases h c l hc with h1 | h1
  · exact hs c l h1
  · exact h1

theorem tryReady_sound {s : State} (hs : Sound s) (c : Name) : Sound (tryReady s c) := by
  rcases tryReady_cases s c with h | ⟨e, l, hf, _, hm, h⟩
  · rw [h]; exact hs
  · rw [h]
    refine sound_congr (defOf_setInh s c _) hs ?_
    intro k lk hk
    by_cases hkc : k = c
    · subst hkc
      rw [inhOf_setInh_self s _ hf] at hk
      injection hk with hk; subst hk
      exact Or.inr (merge_sound hs (defOf_of_find hf) hm)
    · rw [inhOf_setInh_ne s _ hkc] at hk
      exact Or.inl hk

theorem foldl_tryReady_sound : ∀ (cs : List Name) {s : State}, Sound s → Sound (cs.foldl tryReady s)
  | [], _, hs => hs
  | c :: cs, _, hs => foldl_tryReady_sound cs (tryReady_sound hs c)

theorem foldl_tryReady_defOf : ∀ (cs : List Name) (s : State) (k : Name),
    defOf (cs.foldl tryReady s) k = defOf s k
  | [], _, _ => rfl
  | c :: cs, s, k => by
    simp only [List.foldl_cons]
    rw [foldl_tryReady_defOf cs, defOf_tryReady]

theorem foldl_tryReady_names : ∀ (cs : List Name) (s : State),
    names (cs.foldl tryReady s) = names s
  | [], _ => rfl
  | c :: cs, s => by
    simp only [List.foldl_cons]
    rw [foldl_tryReady_names cs, names_tryReady]

theorem pass_sound {s : State} (hs : Sound s) : Sound (pass s) := foldl_tryReady_sound _ hs
theorem defOf_pass (s : State) (k : Name) : defOf (pass s) k = defOf s k := foldl_tryReady_defOf _ s k
theorem names_pass (s : State) : names (pass s) = names s := foldl_tryReady_names _ s

theorem loop_sound : ∀ (n : Nat) {s : State}, Sound s → Sound (loop n s)
  | 0, _, hs => hs
  | n + 1, _, hs => loop_sound n (pass_sound hs)

theorem defOf_loop : ∀ (n : Nat) (s : State) (k : Name), defOf (loop n s) k = defOf s k
  | 0, _, _ => rfl
  | n + 1, s, k => by
    simp only [loop]
    rw [defOf_loop n, defOf_pass]

/-! ## invalidate and upsert -/

theorem find_invalidate (c : Name) : ∀ (s : State) (k : Name),
    find (invalidate s c) k =
      (find s k).map (fun e => match e.inh with
        | some l => if c ∈ l then { e with inh := none } else e
        | none => e)
  | [], k => by simp [invalidate, find]
  | e0 :: s, k => by
    have ih := find_invalidate c s k
    show find ((match e0.inh with
        | some l => if c ∈ l then { e0 with inh := none } else e0
        | none => e0) :: invalidate s c) k = _
    have hname : (match e0.inh with
        | some l => if c ∈ l then { e0 with inh := none } else e0
        | none => e0).name = e0.name := by
      cases h : e0.inh with
      | none => rfl
      | some l => by_cases hc : c ∈ l <;> simp [hc]
    simp only [find, hname]
    by_cases hk : e0.name = k
    · simp [hk]
    · simp [hk, ih]

theorem defOf_invalidate (s : State) (c k : Name) : defOf (invalidate s c) k = defOf s k := by
  unfold defOf
  rw [find_invalidate]
  cases find s k with
  | none => rfl
  | some e =>
    cases h : e.inh with
    | none => simp [h]
    | some l => by_cases hc : c ∈ l <;> simp [h, hc]

theorem inhOf_invalidate {s : State} {c k : Name} {l : List Name} :
    inhOf (invalidate s c) k = some l ↔ inhOf s k = some l ∧ c ∉ l := by
  unfold inhOf
  rw [find_invalidate]
  cases find s k with
  | none => simp
  | some e =>
    cases h : e.inh with
    | none => simp [h]
    | some l' =>
      by_cases hc : c ∈ l'
      · simp only [Option.map_some, h, hc, if_true, Option.bind_some]
        constructor
        · intro h0; cases h0
        · rintro ⟨h1, h2⟩; injection h1 with h1; subst h1; exact absurd hc h2
      · simp only [Option.map_some, h, hc, if_false, Option.bind_some]
        constructor
        · intro h1; injection h1 with h1; subst h1; exact ⟨rfl, hc⟩
        · rintro ⟨h1, _⟩; exact h1

theorem find_upsert (c : Name) (d : ClassDef) : ∀ (s : State) (k : Name),
    find (upsert s c d) k =
      if k = c then some { name := c, defn := d, inh := none } else find s k
  | [], k => by
    by_cases hk : k = c
    · subst hk; simp [upsert, find]
    · have : ¬ c = k := fun h => hk h.symm
      simp [upsert, find, hk, this]
  | e0 :: s, k => by
    have ih := find_upsert c d s k
    by_cases h0 : e0.name = c
    · by_cases hk : k = c
      · subst hk; simp [upsert, find, h0]
      · have : ¬ c = k := fun h => hk h.symm
        have h0k : ¬ e0.name = k := by rw [h0]; exact this
        simp [upsert, find, h0, hk, this]
    · by_cases hk : k = c
      · subst hk; simp [upsert, find, h0, ih]
      · by_cases h0k : e0.name = k
        · simp [upsert, find, hk, h0k]
        · simp [upsert, find, h0, hk, h0k, ih]

theorem defOf_upsert (s : State) (c : Name) (d : ClassDef) :
    defOf (upsert s c d) = update (defOf s) c d := by
  funext k
  unfold defOf update
  rw [find_upsert]
  by_cases hk : k = c <;> simp [hk]

theorem inhOf_upsert {s : State} {c k : Name} {d : ClassDef} {l : List Name} :
    inhOf (upsert s c d) k = some l ↔ k ≠ c ∧ inhOf s k = some l := by
  unfold inhOf
  rw [find_upsert]
  by_cases hk : k = c <;> simp [hk]

/-- a list that does not mention `c` is not affected by a new definition of `c` -/
theorem spec_update {D : Name → Option ClassDef} {c : Name} {d : ClassDef} :
    ∀ {n : Nat} {k : Name} {l : List Name}, spec D n k = some l → c ∉ l → k ≠ c →
      spec (update D c d) n k = some l
  | 0, _, _, h, _, _ => by simp [spec] at h
  | n + 1, k, l, h, hcl, hkc => by
    rw [spec] at h ⊢
    have hu : update D c d k = D k := by simp [update, hkc]
    rw [hu]
    cases hd : D k with
    | none => simp [hd] at h
    | some dk =>
      simp only [hd] at h ⊢
      unfold mergeWith at h
      cases hcol : collect (spec D n) dk.supers with
      | none => simp [hcol] at h
      | some r =>
        simp only [hcol, Option.map_some, Option.some.injEq] at h
        subst h
        have hc1 : c ∉ dk.supers := fun hm => hcl (mem_dedup.2 (List.mem_append_left _ hm))
        have hc2 : c ∉ r := fun hm => hcl (mem_dedup.2 (List.mem_append_right _ hm))
        refine mergeWith_mono (f := spec D n) ?_ (by simp [mergeWith, hcol])
        intro x hx lx hlx
        have hxc : x ≠ c := fun e => hc1 (e ▸ hx)
        have hsub : c ∉ lx := fun hm =>
          hc2 ((mem_collect hcol).2 ⟨x, hx, lx, hlx, hm⟩)
        exact spec_update hlx hsub hxc

theorem upsert_invalidate_sound {s : State} (hs : Sound s) (c : Name) (d : ClassDef) :
    Sound (upsert (invalidate s c) c d) := by
  intro k l hk
  rw [defOf_upsert]
  obtain ⟨hkc, hk⟩ := inhOf_upsert.1 hk
  obtain ⟨hk, hcl⟩ := inhOf_invalidate.1 hk
  obtain ⟨n, hn⟩ := hs k l hk
  have e : defOf (invalidate s c) = defOf s := funext (defOf_invalidate s c)
  rw [e]
  exact ⟨n, spec_update hn hcl hkc⟩

theorem defclass_sound {s : State} (hs : Sound s) (c : Name) (d : ClassDef) :
    Sound (defclass s c d) := by
  unfold defclass
  exact loop_sound _ (upsert_invalidate_sound hs c d)

theorem defOf_defclass (s : State) (c : Name) (d : ClassDef) :
    defOf (defclass s c d) = update (defOf s) c d := by
  funext k
  unfold defclass
  simp only []
  rw [defOf_loop, defOf_upsert]
  have e : defOf (invalidate s c) = defOf s := funext (defOf_invalidate s c)
  rw [e]

/-! ## the readiness loop reaches a fixed point within `length` rounds -/

/-- number of classes that are not ready -/
def nr (s : State) : Nat := s.countP (fun e => e.inh.isNone)

theorem nr_le_length (s : State) : nr s ≤ s.length := List.countP_le_length

theorem nr_cons_none {e : Entry} (t : State) (h : e.inh = none) : nr (e :: t) = nr t + 1 := by
  simp [nr, h]

theorem nr_cons_some {e : Entry} {l : List Name} (t : State) (h : e.inh = some l) :
    nr (e :: t) = nr t := by
  simp [nr, h]

theorem setInh_cons (e0 : Entry) (s : State) (c : Name) (v : Option (List Name)) :
    setInh (e0 :: s) c v = (if e0.name = c then { e0 with inh := v } else e0) :: setInh s c v := rfl

theorem nr_setInh_le (c : Name) (l : List Name) : ∀ (s : State), nr (setInh s c (some l)) ≤ nr s
  | [] => by simp [setInh, nr]
  | e0 :: s => by
    have ih := nr_setInh_le c l s
    rw [setInh_cons]
    by_cases h0 : e0.name = c
    · rw [if_pos h0, nr_cons_some (l := l) _ rfl]
      cases hi : e0.inh with
      | none => rw [nr_cons_none _ hi]; omega
      | some l' => rw [nr_cons_some _ hi]; exact ih
    · rw [if_neg h0]
      cases hi : e0.inh with
      | none => rw [nr_cons_none _ hi, nr_cons_none _ hi]; omega
      | some l' => rw [nr_cons_some _ hi, nr_cons_some _ hi]; exact ih

theorem nr_setInh_lt (c : Name) (l : List Name) : ∀ {s : State} {e : Entry},
    find s c = some e → e.inh = none → nr (setInh s c (some l)) < nr s
  | [], _, h, _ => by simp [find] at h
  | e0 :: s, e, h, hi => by
    have hle := nr_setInh_le c l s
    simp only [find] at h
    rw [setInh_cons]
    by_cases h0 : e0.name = c
    · simp only [h0, if_true] at h
      injection h with h; subst h
      rw [if_pos h0, nr_cons_some (l := l) _ rfl, nr_cons_none _ hi]
      omega
    · simp only [h0, if_false] at h
      have ih := nr_setInh_lt c l h hi
      rw [if_neg h0]
      cases hi0 : e0.inh with
      | none => rw [nr_cons_none _ hi0, nr_cons_none _ hi0]; omega
      | some l' => rw [nr_cons_some _ hi0, nr_cons_some _ hi0]; exact ih

theorem tryReady_eq_or_lt (s : State) (c : Name) : tryReady s c = s ∨ nr (tryReady s c) < nr s := by
  rcases tryReady_cases s c with h | ⟨e, l, hf, hi, _, h⟩
  · exact Or.inl h
  · rw [h]; exact Or.inr (nr_setInh_lt c l hf hi)

theorem nr_tryReady_le (s : State) (c : Name) : nr (tryReady s c) ≤ nr s := by
  rcases tryReady_eq_or_lt s c with h | h
  · rw [h]; exact Nat.le_refl _
  · exact Nat.le_of_lt h

theorem nr_foldl_le : ∀ (cs : List Name) (s : State), nr (cs.foldl tryReady s) ≤ nr s
  | [], _ => Nat.le_refl _
  | c :: cs, s => Nat.le_trans (nr_foldl_le cs (tryReady s c)) (nr_tryReady_le s c)

theorem foldl_eq_or_lt : ∀ (cs : List Name) (s : State),
    cs.foldl tryReady s = s ∨ nr (cs.foldl tryReady s) < nr s
  | [], _ => Or.inl rfl
  | c :: cs, s => by
    simp only [List.foldl_cons]
    rcases tryReady_eq_or_lt s c with h | h
    · rw [h]; exact foldl_eq_or_lt cs s
    · exact Or.inr (Nat.lt_of_le_of_lt (nr_foldl_le cs _) h)

/-- a round that changes nothing changed nothing at any step -/
theorem foldl_fixed : ∀ (cs : List Name) (s : State), cs.foldl tryReady s = s →
    ∀ c ∈ cs, tryReady s c = s
  | [], _, _, c, hc => by simp at hc
  | c0 :: cs, s, h, c, hc => by
    simp only [List.foldl_cons] at h
    have h0 : tryReady s c0 = s := by
      rcases tryReady_eq_or_lt s c0 with h1 | h1
      · exact h1
      · have := nr_foldl_le cs (tryReady s c0)
        rw [h] at this
        omega
    rw [h0] at h
    rcases List.mem_cons.1 hc with rfl | hc'
    · exact h0
    · exact foldl_fixed cs s h c hc'

/-- fixed point of the loop: no class that is not ready could be merged -/
def Fix (s : State) : Prop :=
  ∀ c e, find s c = some e → e.inh = none → mergeSupers s e.defn = none

theorem fix_of_pass_eq {s : State} (h : pass s = s) : Fix s := by
  intro c e hf hi
  have hc : c ∈ names s := find_mem_names hf
  have ht := foldl_fixed (names s) s h c hc
  cases hm : mergeSupers s e.defn with
  | none => rfl
  | some l =>
    exfalso
    have : tryReady s c = setInh s c (some l) := by
      unfold tryReady; simp [hf, hi, hm]
    have hlt := nr_setInh_lt c l hf hi
    rw [← this, ht] at hlt
    omega

theorem loop_of_pass_eq {s : State} (h : pass s = s) : ∀ n, loop n s = s
  | 0 => rfl
  | n + 1 => by simp only [loop]; rw [h]; exact loop_of_pass_eq h n

theorem nr_pos_of_mem {s : State} {e : Entry} (he : e ∈ s) (hi : e.inh = none) : 0 < nr s := by
  unfold nr
  exact List.countP_pos_iff.2 ⟨e, he, by simp [hi]⟩

theorem loop_fix : ∀ (n : Nat) (s : State), nr s ≤ n → Fix (loop n s)
  | 0, s, h => by
    show Fix s
    intro c e hf hi
    have := nr_pos_of_mem (find_mem hf) hi
    omega
  | n + 1, s, h => by
    simp only [loop]
    rcases foldl_eq_or_lt (names s) s with h1 | h1
    · have hp : pass s = s := h1
      rw [hp, loop_of_pass_eq hp]
      exact fix_of_pass_eq hp
    · have hp : nr (pass s) < nr s := h1
      exact loop_fix n (pass s) (by omega)

theorem defclass_fix (s : State) (c : Name) (d : ClassDef) : Fix (defclass s c d) := by
  unfold defclass
  exact loop_fix _ _ (nr_le_length _)

/-- at a fixed point every class the specification can resolve is ready -/
theorem fix_complete {s : State} (hs : Sound s) (hf : Fix s) :
    ∀ (n : Nat) (c : Name) (l : List Name), spec (defOf s) n c = some l → inhOf s c = some l
  | 0, _, _, h => by simp [spec] at h
  | n + 1, c, l, h => by
    rw [spec] at h
    cases hd : defOf s c with
    | none => simp [hd] at h
    | some d =>
      simp only [hd] at h
      unfold defOf at hd
      cases hfe : find s c with
      | none => simp [hfe] at hd
      | some e =>
        simp only [hfe, Option.map_some, Option.some.injEq] at hd
        have hm : mergeSupers s e.defn = some l := by
          rw [hd]
          exact mergeWith_mono (fun x _ lx hlx => fix_complete hs hf n x lx hlx) h
        cases hi : e.inh with
        | none =>
          have := hf c e hfe hi
          rw [this] at hm; cases hm
        | some l' =>
          have hc : inhOf s c = some l' := by simp [inhOf, hfe, hi]
          obtain ⟨m, hm'⟩ := hs c l' hc
          have hsp : spec (defOf s) (n + 1) c = some l := by
            rw [spec]; simp only [defOf, hfe, Option.map_some, hd]; exact h
          rw [hc, spec_det hm' hsp]

/-! ## histories -/

def stepDef (s : State) (p : Name × ClassDef) : State := defclass s p.1 p.2

theorem run_eq (h : List (Name × ClassDef)) : run h = h.foldl stepDef [] := rfl

theorem foldl_stepDef_defOf : ∀ (h : List (Name × ClassDef)) (s : State),
    defOf (h.foldl stepDef s) = h.foldl (fun D p => update D p.1 p.2) (defOf s)
  | [], _ => rfl
  | p :: h, s => by
    simp only [List.foldl_cons]
    rw [foldl_stepDef_defOf h, stepDef, defOf_defclass]

theorem defOf_run (h : List (Name × ClassDef)) : defOf (run h) = lastDef h := by
  rw [run_eq, foldl_stepDef_defOf]
  rfl

theorem foldl_stepDef_sound : ∀ (h : List (Name × ClassDef)) {s : State}, Sound s →
    Sound (h.foldl stepDef s)
  | [], _, hs => hs
  | p :: h, _, hs => foldl_stepDef_sound h (defclass_sound hs p.1 p.2)

theorem foldl_stepDef_fix : ∀ (h : List (Name × ClassDef)) {s : State}, Fix s →
    Fix (h.foldl stepDef s)
  | [], _, hs => hs
  | p :: h, s, _ => foldl_stepDef_fix h (defclass_fix s p.1 p.2)

theorem sound_nil : Sound [] := by
  intro c l h; simp [inhOf, find] at h

theorem fix_nil : Fix [] := by
  intro c e h; simp [find] at h

theorem run_sound (h : List (Name × ClassDef)) : Sound (run h) :=
  foldl_stepDef_sound h sound_nil

theorem run_fix (h : List (Name × ClassDef)) : Fix (run h) :=
  foldl_stepDef_fix h fix_nil

theorem lastDef_append (h : List (Name × ClassDef)) (c : Name) (d : ClassDef) :
    lastDef (h ++ [(c, d)]) = update (lastDef h) c d := by
  unfold lastDef
  rw [List.foldl_append]
  rfl

/-- with one form per name, the definition in force is the form of that name -/
theorem lastDef_of_nodup : ∀ (h : List (Name × ClassDef)) (D : Name → Option ClassDef) (c : Name),
    (h.map Prod.fst).Nodup →
    h.foldl (fun D p => update D p.1 p.2) D c =
      match h.find? (fun p => p.1 = c) with
      | some p => some p.2
      | none => D c
  | [], _, _, _ => rfl
  | p :: h, D, c, hn => by
    simp only [List.map_cons, List.nodup_cons] at hn
    simp only [List.foldl_cons]
    rw [lastDef_of_nodup h _ c hn.2]
    by_cases hp : p.1 = c
    · have hnone : h.find? (fun q => decide (q.1 = c)) = none := by
        apply List.find?_eq_none.2
        intro q hq hqc
        simp only [decide_eq_true_eq] at hqc
        apply hn.1
        rw [hp, ← hqc]
        exact List.mem_map.2 ⟨q, hq, rfl⟩
      simp [hnone, hp, update]
    · have hpc : ¬ c = p.1 := fun e => hp e.symm
      simp only [List.find?_cons, hp, decide_false]
      cases h.find? (fun q => decide (q.1 = c)) with
      | some q => rfl
      | none => simp [update, hpc]

theorem find?_key_of_nodup : ∀ (h : List (Name × ClassDef)) (c : Name) (q : Name × ClassDef),
    (h.map Prod.fst).Nodup → (h.find? (fun p => p.1 = c) = some q ↔ q ∈ h ∧ q.1 = c)
  | [], _, _, _ => by simp
  | p :: h, c, q, hn => by
    simp only [List.map_cons, List.nodup_cons] at hn
    have ih := find?_key_of_nodup h c q hn.2
    by_cases hp : p.1 = c
    · simp only [List.find?_cons, hp, decide_true, Option.some.injEq, List.mem_cons]
      constructor
      · intro e; subst e; exact ⟨Or.inl rfl, hp⟩
      · rintro ⟨hq | hq, hqc⟩
        · exact hq.symm
        · exfalso; apply hn.1; rw [hp, ← hqc]; exact List.mem_map.2 ⟨q, hq, rfl⟩
    · simp only [List.find?_cons, hp, decide_false, List.mem_cons]
      rw [ih]
      constructor
      · rintro ⟨h1, h2⟩; exact ⟨Or.inr h1, h2⟩
      · rintro ⟨h1 | h1, h2⟩
        · subst h1; exact absurd h2 hp
        · exact ⟨h1, h2⟩

theorem lastDef_perm {h1 h2 : List (Name × ClassDef)} (hp : h1.Perm h2)
    (hn : (h1.map Prod.fst).Nodup) : lastDef h1 = lastDef h2 := by
  have hn2 : (h2.map Prod.fst).Nodup := (hp.map Prod.fst).nodup_iff.1 hn
  funext c
  unfold lastDef
  rw [lastDef_of_nodup h1 _ c hn, lastDef_of_nodup h2 _ c hn2]
  have key : ∀ q, h1.find? (fun p => p.1 = c) = some q ↔ h2.find? (fun p => p.1 = c) = some q := by
    intro q
    rw [find?_key_of_nodup h1 c q hn, find?_key_of_nodup h2 c q hn2, hp.mem_iff]
  cases e1 : h1.find? (fun p => p.1 = c) with
  | some q => rw [(key q).1 e1]
  | none =>
    cases e2 : h2.find? (fun p => p.1 = c) with
    | none => rfl
    | some q => rw [(key q).2 e2] at e1; cases e1

/-! ## grounded classes and reachability -/

/-- `c` is defined and so are, recursively, all its superclasses (no cycle below `c`) -/
inductive Grounded (D : Name → Option ClassDef) : Name → Prop
  | mk (c : Name) (d : ClassDef) : D c = some d → (∀ x, x ∈ d.supers → Grounded D x) → Grounded D c

/-- `k` is `c` or a direct or indirect superclass of `c` -/
inductive Reach (D : Name → Option ClassDef) : Name → Name → Prop
  | refl (c : Name) : Reach D c c
  | step {c x k : Name} {d : ClassDef} : D c = some d → x ∈ d.supers → Reach D x k → Reach D c k

theorem collect_spec_common {D : Name → Option ClassDef} :
    ∀ {xs : List Name}, (∀ x ∈ xs, ∃ n l, spec D n x = some l) →
      ∃ n r, collect (spec D n) xs = some r
  | [], _ => ⟨0, [], rfl⟩
  | x :: xs, h => by
    obtain ⟨n1, l, h1⟩ := h x (by simp)
    obtain ⟨n2, r, h2⟩ := collect_spec_common (xs := xs) (fun y hy => h y (by simp [hy]))
    refine ⟨max n1 n2, l ++ r, ?_⟩
    have e1 := spec_mono (Nat.le_max_left n1 n2) h1
    have e2 : collect (spec D (max n1 n2)) xs = some r :=
      collect_mono (fun y _ l hl => spec_mono (Nat.le_max_right n1 n2) hl) h2
    simp [collect, e1, e2]

theorem spec_of_grounded {D : Name → Option ClassDef} {c : Name} (h : Grounded D c) :
    ∃ n l, spec D n c = some l := by
  induction h with
  | mk c d hd _ ih =>
    obtain ⟨n, r, hr⟩ := collect_spec_common (D := D) (xs := d.supers) ih
    exact ⟨n + 1, dedup (d.supers ++ r), by simp [spec, hd, mergeWith, hr]⟩

theorem grounded_of_spec {D : Name → Option ClassDef} : ∀ {n : Nat} {c : Name} {l : List Name},
    spec D n c = some l → Grounded D c
  | 0, _, _, h => by simp [spec] at h
  | n + 1, c, l, h => by
    rw [spec] at h
    cases hd : D c with
    | none => simp [hd] at h
    | some d =>
      simp only [hd, mergeWith] at h
      cases hc : collect (spec D n) d.supers with
      | none => simp [hc] at h
      | some r =>
        refine Grounded.mk c d hd ?_
        intro x hx
        obtain ⟨lx, hlx⟩ := collect_elim hc x hx
        exact grounded_of_spec hlx

theorem reach_of_mem_spec {D : Name → Option ClassDef} {k : Name} :
    ∀ {n : Nat} {c : Name} {l : List Name}, spec D n c = some l → k ∈ c :: l → Reach D c k
  | 0, _, _, h, _ => by simp [spec] at h
  | n + 1, c, l, h, hk => by
    rw [spec] at h
    cases hd : D c with
    | none => simp [hd] at h
    | some d =>
      simp only [hd, mergeWith] at h
      cases hc : collect (spec D n) d.supers with
      | none => simp [hc] at h
      | some r =>
        simp only [hc, Option.map_some, Option.some.injEq] at h
        subst h
        rcases List.mem_cons.1 hk with rfl | hk
        · exact Reach.refl _
        · rcases List.mem_append.1 (mem_dedup.1 hk) with hk | hk
          · exact Reach.step hd hk (Reach.refl _)
          · obtain ⟨x, hx, lx, hlx, hkx⟩ := (mem_collect hc).1 hk
            exact Reach.step hd hx (reach_of_mem_spec hlx (List.mem_cons_of_mem _ hkx))

theorem mem_spec_of_reach {D : Name → Option ClassDef} {c k : Name} (hr : Reach D c k) :
    ∀ {n : Nat} {l : List Name}, spec D n c = some l → k ∈ c :: l := by
  induction hr with
  | refl c => intro n l _; exact List.mem_cons_self
  | @step c x k d hd hx _ ih =>
    intro n l h
    cases n with
    | zero => simp [spec] at h
    | succ n =>
      rw [spec] at h
      simp only [hd, mergeWith] at h
      cases hc : collect (spec D n) d.supers with
      | none => simp [hc] at h
      | some r =>
        simp only [hc, Option.map_some, Option.some.injEq] at h
        subst h
        obtain ⟨lx, hlx⟩ := collect_elim hc x hx
        apply List.mem_cons_of_mem
        apply mem_dedup.2
        rcases List.mem_cons.1 (ih hlx) with rfl | hk
        · exact List.mem_append_left _ hx
        · exact List.mem_append_right _ ((mem_collect hc).2 ⟨x, hx, lx, hlx, hk⟩)

theorem isA_iff_mem {k : Name} : ∀ {p : List Name}, isA p k = true ↔ k ∈ p
  | [] => by simp [isA]
  | x :: xs => by
    have ih := @isA_iff_mem k xs
    by_cases h : x = k
    · simp [isA, h]
    · have : ¬ k = x := fun e => h e.symm
      simp [isA, h, ih, this]

/-! ## instance initialisation -/

/-- the declarative rule: the leftmost supplied pair whose initarg the slot declares (in any class
    of the precedence list), else the most specific initform, else unbound -/
def valueSpec (sds : List SlotDef) (args : List (Name × Val)) (x : Name) : Option Val :=
  match args.find? (fun a => (initargsFor sds x).contains a.1) with
  | some a => some a.2
  | none => initformFor sds x

theorem applyArgs_map (sds : List SlotDef) : ∀ (args : List (Name × Val)) (cells : List Cell),
    applyArgs sds args cells =
      cells.map (fun c => args.foldl (fun c a => stepCell sds a.1 a.2 c) c)
  | [], cells => by simp [applyArgs]
  | a :: args, cells => by
    have ih := applyArgs_map sds args (cells.map (stepCell sds a.1 a.2))
    unfold applyArgs at ih ⊢
    simp only [List.foldl_cons]
    rw [ih, List.map_map]
    rfl

theorem foldl_stepCell_set (sds : List SlotDef) (x : Name) (w : Option Val) :
    ∀ (args : List (Name × Val)),
      args.foldl (fun c a => stepCell sds a.1 a.2 c) { name := x, val := w, set := true } =
        { name := x, val := w, set := true }
  | [] => rfl
  | a :: args => by
    simp only [List.foldl_cons]
    have : stepCell sds a.1 a.2 { name := x, val := w, set := true } =
        { name := x, val := w, set := true } := by simp [stepCell]
    rw [this]
    exact foldl_stepCell_set sds x w args

theorem foldl_stepCell_blank (sds : List SlotDef) (x : Name) :
    ∀ (args : List (Name × Val)),
      args.foldl (fun c a => stepCell sds a.1 a.2 c) { name := x, val := none, set := false } =
        match args.find? (fun a => (initargsFor sds x).contains a.1) with
        | some a => { name := x, val := some a.2, set := true }
        | none => { name := x, val := none, set := false }
  | [] => rfl
  | a :: args => by
    simp only [List.foldl_cons, List.find?_cons]
    by_cases h : a.1 ∈ initargsFor sds x
    · have : stepCell sds a.1 a.2 { name := x, val := none, set := false } =
          { name := x, val := some a.2, set := true } := by simp [stepCell, h]
      rw [this, foldl_stepCell_set]
      simp [h]
    · have : stepCell sds a.1 a.2 { name := x, val := none, set := false } =
          { name := x, val := none, set := false } := by simp [stepCell, h]
      rw [this, foldl_stepCell_blank sds x args]
      simp [h]

theorem formCell_spec (sds : List SlotDef) (args : List (Name × Val)) (x : Name) :
    formCell sds (args.foldl (fun c a => stepCell sds a.1 a.2 c) { name := x, val := none, set := false }) =
      (x, valueSpec sds args x) := by
  rw [foldl_stepCell_blank]
  unfold valueSpec
  cases args.find? (fun a => (initargsFor sds x).contains a.1) with
  | some a => simp [formCell]
  | none =>
    cases h : initformFor sds x with
    | some v => simp [formCell, h]
    | none => simp [formCell, h]

theorem getSlot_map_self (f : Name → Option Val) : ∀ (xs : List Name) (x : Name),
    getSlot (xs.map (fun y => (y, f y))) x = if x ∈ xs then some (f x) else none
  | [], x => by simp [getSlot]
  | y :: ys, x => by
    have ih := getSlot_map_self f ys x
    by_cases h : y = x
    · subst h; simp [getSlot]
    · have : ¬ x = y := fun e => h e.symm
      simp [getSlot, h, ih, this]

theorem getSlot_writeSlot_ne {x y : Name} (v : Val) (h : y ≠ x) : ∀ (i : Inst),
    getSlot (writeSlot i x v) y = getSlot i y
  | [] => rfl
  | (z, w) :: r => by
    have ih := getSlot_writeSlot_ne v h r
    have hxy : ¬ x = y := fun e => h e.symm
    by_cases hz : z = x
    · simp [writeSlot, getSlot, hz, ih, hxy]
    · by_cases hy : z = y
      · subst hy; simp [writeSlot, getSlot, h]
      · simp [writeSlot, getSlot, hz, hy, ih]

theorem getSlot_writeSlot_self (x : Name) (v : Val) : ∀ (i : Inst),
    getSlot (writeSlot i x v) x = (getSlot i x).map (fun _ => some v)
  | [] => rfl
  | (z, w) :: r => by
    have ih := getSlot_writeSlot_self x v r
    by_cases hz : z = x
    · simp [writeSlot, getSlot, hz]
    · simp [writeSlot, getSlot, hz, ih]

theorem writeSlot_keys (x : Name) (v : Val) : ∀ (i : Inst),
    (writeSlot i x v).map Prod.fst = i.map Prod.fst
  | [] => rfl
  | (z, w) :: r => by
    have ih := writeSlot_keys x v r
    by_cases hz : z = x <;> simp [writeSlot, hz, ih]

theorem getSlot_unbindSlot_ne {x y : Name} (h : y ≠ x) : ∀ (i : Inst),
    getSlot (unbindSlot i x) y = getSlot i y
  | [] => rfl
  | (z, w) :: r => by
    have ih := getSlot_unbindSlot_ne h r
    have hxy : ¬ x = y := fun e => h e.symm
    by_cases hz : z = x
    · simp [unbindSlot, getSlot, hz, ih, hxy]
    · by_cases hy : z = y
      · subst hy; simp [unbindSlot, getSlot, h]
      · simp [unbindSlot, getSlot, hz, hy, ih]

theorem slotDefsOf_congr {s1 s2 : State} (h : ∀ k, defOf s1 k = defOf s2 k) :
    ∀ (p : List Name), slotDefsOf s1 p = slotDefsOf s2 p
  | [] => rfl
  | k :: ks => by simp [slotDefsOf, h k, slotDefsOf_congr h ks]

theorem mem_slotDefsOf {s : State} {sd : SlotDef} {a : Name} {d : ClassDef}
    (hd : defOf s a = some d) (hsd : sd ∈ d.slots) :
    ∀ {p : List Name}, a ∈ p → sd ∈ slotDefsOf s p
  | [], h => by simp at h
  | k :: ks, h => by
    simp only [slotDefsOf, List.mem_append]
    rcases List.mem_cons.1 h with rfl | h
    · left; simp [hd, hsd]
    · right; exact mem_slotDefsOf hd hsd h

/-! ## `dedup` is slip's loop "append unless already on the list" -/

/-- the loop of mergeSupers: walk the candidates, append those not yet inherited -/
def appendNew (acc : List Name) (l : List Name) : List Name :=
  l.foldl (fun acc x => if x ∈ acc then acc else acc ++ [x]) acc

theorem dedup_filter (p : Name → Bool) : ∀ (l : List Name), dedup (l.filter p) = (dedup l).filter p
  | [] => rfl
  | x :: xs => by
    have ih := dedup_filter p xs
    by_cases hx : p x = true
    · simp only [List.filter_cons, hx, if_true, dedup, ih]
      congr 1
      rw [List.filter_filter, List.filter_filter]
      apply List.filter_congr
      intro y _
      exact Bool.and_comm _ _
    · have hx' : p x = false := by simpa using hx
      simp only [List.filter_cons, hx', Bool.false_eq_true, if_false, dedup]
      rw [ih, List.filter_filter]
      apply List.filter_congr
      intro y _
      by_cases hyx : y = x
      · subst hyx; simp [hx']
      · simp [hyx]

theorem appendNew_eq : ∀ (l acc : List Name),
    appendNew acc l = acc ++ dedup (l.filter (fun y => !(acc.contains y)))
  | [], acc => by simp [appendNew, dedup]
  | x :: xs, acc => by
    unfold appendNew
    simp only [List.foldl_cons]
    by_cases hx : x ∈ acc
    · have := appendNew_eq xs acc
      unfold appendNew at this
      simp [hx, this]
    · have := appendNew_eq xs (acc ++ [x])
      unfold appendNew at this
      simp only [hx, if_false, this]
      have hc : (acc.contains x) = false := by simpa using hx
      simp only [List.filter_cons, hc, Bool.not_false, if_true, dedup, List.append_assoc,
        List.singleton_append]
      congr 2
      rw [← dedup_filter]
      congr 1
      rw [List.filter_filter]
      apply List.filter_congr
      intro y _
      by_cases hy : y = x
      · subst hy; simp
      · simp [hy]

/-- the recursive `dedup` of the model is the accumulating loop of the code started empty -/
theorem dedup_eq_appendNew (l : List Name) : dedup l = appendNew [] l := by
  rw [appendNew_eq]
  have : l.filter (fun y => !(([] : List Name).contains y)) = l := List.filter_eq_self.2 (by simp)
  rw [this]; simp

/-! ## the order of the supplied initargs does not matter unless two of them reach one slot -/

theorem find?_unique {α : Type} (p : α → Bool) : ∀ (l : List α) (a : α),
    (∀ x ∈ l, ∀ y ∈ l, p x = true → p y = true → x = y) →
    (l.find? p = some a ↔ a ∈ l ∧ p a = true)
  | [], a, _ => by simp
  | z :: zs, a, hu => by
    have ih := find?_unique p zs a (fun x hx y hy => hu x (List.mem_cons_of_mem _ hx) y (List.mem_cons_of_mem _ hy))
    by_cases hz : p z = true
    · simp only [List.find?_cons, hz, Option.some.injEq, List.mem_cons]
      constructor
      · intro e; subst e; exact ⟨Or.inl rfl, hz⟩
      · rintro ⟨ha | ha, hpa⟩
        · exact ha.symm
        · exact hu z (by simp) a (List.mem_cons_of_mem _ ha) hz hpa
    · have hz' : p z = false := by simpa using hz
      simp only [List.find?_cons, hz', List.mem_cons]
      rw [ih]
      constructor
      · rintro ⟨h1, h2⟩; exact ⟨Or.inr h1, h2⟩
      · rintro ⟨h1 | h1, h2⟩
        · subst h1; rw [hz'] at h2; cases h2
        · exact ⟨h1, h2⟩

/-- `args` reach slot `x` through at most one supplied pair -/
def Unambiguous (sds : List SlotDef) (args : List (Name × Val)) (x : Name) : Prop :=
  ∀ a ∈ args, ∀ b ∈ args, a.1 ∈ initargsFor sds x → b.1 ∈ initargsFor sds x → a = b

theorem valueSpec_perm {sds : List SlotDef} {args1 args2 : List (Name × Val)} {x : Name}
    (hp : args1.Perm args2) (hu : Unambiguous sds args1 x) :
    valueSpec sds args1 x = valueSpec sds args2 x := by
  have hu1 : ∀ a ∈ args1, ∀ b ∈ args1,
      (initargsFor sds x).contains a.1 = true → (initargsFor sds x).contains b.1 = true → a = b := by
    intro a ha b hb h1 h2
    exact hu a ha b hb (by simpa using h1) (by simpa using h2)
  have hu2 : ∀ a ∈ args2, ∀ b ∈ args2,
      (initargsFor sds x).contains a.1 = true → (initargsFor sds x).contains b.1 = true → a = b := by
    intro a ha b hb h1 h2
    exact hu1 a (hp.mem_iff.2 ha) b (hp.mem_iff.2 hb) h1 h2
  have key : ∀ a, args1.find? (fun a => (initargsFor sds x).contains a.1) = some a ↔
      args2.find? (fun a => (initargsFor sds x).contains a.1) = some a := by
    intro a
    rw [find?_unique _ args1 a hu1, find?_unique _ args2 a hu2, hp.mem_iff]
  unfold valueSpec
  cases e1 : args1.find? (fun a => (initargsFor sds x).contains a.1) with
  | some a => rw [(key a).1 e1]
  | none =>
    cases e2 : args2.find? (fun a => (initargsFor sds x).contains a.1) with
    | none => rfl
    | some a => rw [(key a).2 e2] at e1; cases e1

/-! ## class objects, existing instances -/

def stepW (w : World) (p : Name × ClassDef) : World := defclassW w p.1 p.2

theorem runW_eq (h : List (Name × ClassDef)) : runW h = h.foldl stepW World.empty := rfl

theorem foldl_stepW_st : ∀ (h : List (Name × ClassDef)) (w : World),
    (h.foldl stepW w).st = h.foldl stepDef w.st
  | [], _ => rfl
  | p :: h, w => by
    simp only [List.foldl_cons]
    rw [foldl_stepW_st h]
    rfl

/-- every superseded class object has a generation below the current one of its name -/
def DeadOK (w : World) : Prop := ∀ d ∈ w.dead, d.gen < w.gens d.name

theorem deadOK_empty : DeadOK World.empty := by
  intro d hd; simp [World.empty] at hd

theorem gens_mono (w : World) (c : Name) (d : ClassDef) (k : Name) :
    w.gens k ≤ (defclassW w c d).gens k := by
  simp only [defclassW]
  by_cases h : k = c
  · subst h; simp
  · simp [h]

theorem deadOK_step {w : World} (hw : DeadOK w) (c : Name) (d : ClassDef) :
    DeadOK (defclassW w c d) := by
  intro x hx
  have hmono := gens_mono w c d x.name
  have hold : ∀ y ∈ w.dead, y.gen < (defclassW w c d).gens y.name :=
    fun y hy => Nat.lt_of_lt_of_le (hw y hy) (gens_mono w c d y.name)
  simp only [defclassW] at hx
  cases hf : find w.st c with
  | none =>
    simp only [hf] at hx
    exact hold x hx
  | some e =>
    simp only [hf, List.mem_cons] at hx
    rcases hx with rfl | hx
    · simp [defclassW]
    · exact hold x hx

theorem deadInh_cons_ne (d : Dead) (ds : List Dead) (c : Name) (g : Nat)
    (h : ¬ (d.name = c ∧ d.gen = g)) : deadInh (d :: ds) c g = deadInh ds c g := by
  simp [deadInh, h]

/-- one more form never changes what a superseded class object says -/
theorem objInh_step_of_old {w : World} {o : Obj} (ho : o.gen < w.gens o.cls) (c : Name)
    (d : ClassDef) : objInh (defclassW w c d) o = objInh w o := by
  have hlt : o.gen < (defclassW w c d).gens o.cls := Nat.lt_of_lt_of_le ho (gens_mono w c d o.cls)
  have hne' : o.gen ≠ (defclassW w c d).gens o.cls := Nat.ne_of_lt hlt
  have hne : o.gen ≠ w.gens o.cls := Nat.ne_of_lt ho
  unfold objInh
  rw [if_neg hne', if_neg hne]
  have hdead : deadInh (defclassW w c d).dead o.cls o.gen = deadInh w.dead o.cls o.gen := by
    simp only [defclassW]
    cases hf : find w.st c with
    | none => rfl
    | some e =>
      simp only []
      apply deadInh_cons_ne
      rintro ⟨h1, h2⟩
      simp only at h1 h2
      rw [← h1] at ho
      omega
  rw [hdead]

theorem foldl_objInh_of_old : ∀ (h : List (Name × ClassDef)) {w : World} {o : Obj},
    o.gen < w.gens o.cls → objInh (h.foldl stepW w) o = objInh w o
  | [], _, _, _ => rfl
  | p :: h, w, o, ho => by
    simp only [List.foldl_cons]
    have hlt : o.gen < (stepW w p).gens o.cls :=
      Nat.lt_of_lt_of_le ho (gens_mono w p.1 p.2 o.cls)
    rw [foldl_objInh_of_old h hlt]
    exact objInh_step_of_old ho p.1 p.2

/-- at the moment a class is redefined, an instance of the class object being replaced keeps the
    list that object had -/
theorem objInh_at_supersession {w : World} {o : Obj} (ho : o.gen = w.gens o.cls)
    (hf : (find w.st o.cls).isSome) (d : ClassDef) :
    objInh (defclassW w o.cls d) o = objInh w o := by
  have hne' : o.gen ≠ (defclassW w o.cls d).gens o.cls := by
    simp [defclassW, ho]
  unfold objInh
  rw [if_neg hne', if_pos ho]
  cases hfe : find w.st o.cls with
  | none => simp [hfe] at hf
  | some e =>
    simp [defclassW, hfe, deadInh, ho, inhOf]

/-! ## which initforms are evaluated (extension round 4) -/

theorem initformFor_append (x : Name) : ∀ (a b : List SlotDef),
    initformFor (a ++ b) x =
      match initformFor a x with
      | some v => some v
      | none => initformFor b x
  | [], b => by simp [initformFor]
  | sd :: a, b => by
    have ih := initformFor_append x a b
    by_cases h : sd.name = x
    · cases hf : sd.initform with
      | some v => simp [initformFor, h, hf]
      | none => simp [initformFor, h, hf, ih]
    · simp [initformFor, h, ih]

theorem slotDefsOf_cons (s : State) (k : Name) (ks : List Name) :
    slotDefsOf s (k :: ks) = ownSlots s k ++ slotDefsOf s ks := rfl

theorem initformFor_owner (s : State) (x : Name) : ∀ (p : List Name),
    initformFor (slotDefsOf s p) x =
      match formOwner s p x with
      | some k => initformFor (ownSlots s k) x
      | none => none
  | [] => by simp [slotDefsOf, formOwner, initformFor]
  | k :: ks => by
    have ih := initformFor_owner s x ks
    rw [slotDefsOf_cons, initformFor_append]
    cases h : initformFor (ownSlots s k) x with
    | some v => simp [formOwner, h]
    | none => simp [formOwner, h, ih]

theorem formOwner_some (s : State) (x : Name) : ∀ (p : List Name) (k : Name),
    formOwner s p x = some k →
    ∃ pre post, p = pre ++ k :: post ∧ (∀ k' ∈ pre, initformFor (ownSlots s k') x = none) ∧
      (initformFor (ownSlots s k) x).isSome = true
  | [], k, h => by simp [formOwner] at h
  | j :: ks, k, h => by
    unfold formOwner at h
    by_cases hj : (initformFor (ownSlots s j) x).isSome = true
    · rw [if_pos hj] at h
      cases h
      exact ⟨[], ks, rfl, by simp, hj⟩
    · rw [if_neg hj] at h
      obtain ⟨pre, post, hp, hpre, hk⟩ := formOwner_some s x ks k h
      refine ⟨j :: pre, post, by simp [hp], ?_, hk⟩
      intro k' hk'
      cases List.mem_cons.1 hk' with
      | inl e =>
        subst e
        cases hv : initformFor (ownSlots s k') x with
        | none => rfl
        | some v => simp [hv] at hj
      | inr e => exact hpre k' e

theorem formOwner_none (s : State) (x : Name) : ∀ (p : List Name),
    formOwner s p x = none ↔ ∀ k ∈ p, initformFor (ownSlots s k) x = none
  | [] => by simp [formOwner]
  | j :: ks => by
    have ih := formOwner_none s x ks
    cases hv : initformFor (ownSlots s j) x with
    | none => simp [formOwner, hv, ih]
    | some v => simp [formOwner, hv]

theorem ownSlots_congr {s1 s2 : State} (h : ∀ k, defOf s1 k = defOf s2 k) (k : Name) :
    ownSlots s1 k = ownSlots s2 k := by simp [ownSlots, h k]

theorem formOwner_congr {s1 s2 : State} (h : ∀ k, defOf s1 k = defOf s2 k) (x : Name) :
    ∀ (p : List Name), formOwner s1 p x = formOwner s2 p x
  | [] => rfl
  | k :: ks => by simp [formOwner, ownSlots_congr h k, formOwner_congr h x ks]

theorem filterMap_congr' {α β : Type} {f g : α → Option β} : ∀ {l : List α},
    (∀ x ∈ l, f x = g x) → l.filterMap f = l.filterMap g
  | [], _ => rfl
  | x :: xs, h => by
    have ih := filterMap_congr' (l := xs) (fun y hy => h y (List.mem_cons_of_mem _ hy))
    simp [List.filterMap_cons, h x (List.mem_cons_self), ih]

/-- the evaluated forms, slot by slot -/
theorem evaluated_eq (sds : List SlotDef) (args : List (Name × Val)) :
    evaluated sds args = (slotNames sds).filterMap (fun x =>
      match args.find? (fun a => (initargsFor sds x).contains a.1) with
      | some _ => none
      | none => (initformFor sds x).map (fun v => (x, v))) := by
  unfold evaluated blank
  rw [applyArgs_map, List.map_map, List.filterMap_map]
  apply filterMap_congr'
  intro x _
  simp only [Function.comp]
  rw [foldl_stepCell_blank]
  cases args.find? (fun a => (initargsFor sds x).contains a.1) with
  | some a => simp [evalCell]
  | none => simp [evalCell]

theorem filterMap_fst_sublist {β : Type} (f : Name → Option (Name × β))
    (hf : ∀ x y, f x = some y → y.1 = x) : ∀ (l : List Name),
    ((l.filterMap f).map Prod.fst).Sublist l
  | [] => by simp
  | x :: xs => by
    have ih := filterMap_fst_sublist f hf xs
    cases h : f x with
    | none => simpa [List.filterMap_cons, h] using ih.cons x
    | some y =>
      have : y.1 = x := hf x y h
      simp only [List.filterMap_cons, h, List.map_cons, this]
      exact ih.cons₂ x

/-! ## histories with redefinitions: only the order of the forms of ONE class matters -/

theorem foldl_update_congr (c : Name) : ∀ (l : List (Name × ClassDef)) (D1 D2 : Name → Option ClassDef),
    D1 c = D2 c →
    (l.foldl (fun D p => update D p.1 p.2) D1) c = (l.foldl (fun D p => update D p.1 p.2) D2) c
  | [], _, _, h => h
  | p :: l, D1, D2, h => by
    simp only [List.foldl_cons]
    apply foldl_update_congr c l
    by_cases hc : c = p.1
    · simp [update, hc]
    · simp [update, hc, h]

theorem foldl_update_filter (c : Name) : ∀ (l : List (Name × ClassDef)) (D : Name → Option ClassDef),
    (l.foldl (fun D p => update D p.1 p.2) D) c =
      ((l.filter (fun p => p.1 = c)).foldl (fun D p => update D p.1 p.2) D) c
  | [], _ => rfl
  | p :: l, D => by
    by_cases hc : p.1 = c
    · simp only [List.foldl_cons, List.filter_cons, hc, decide_true, if_true]
      exact foldl_update_filter c l _
    · simp only [List.foldl_cons, List.filter_cons, hc, decide_false]
      rw [foldl_update_filter c l]
      apply foldl_update_congr
      have : ¬ c = p.1 := fun e => hc e.symm
      simp [update, this]

/-- the definitions in force depend, for every class, only on the sequence of that class's own forms -/
theorem lastDef_eq_of_filter (h1 h2 : List (Name × ClassDef))
    (hf : ∀ c, h1.filter (fun p => p.1 = c) = h2.filter (fun p => p.1 = c)) :
    lastDef h1 = lastDef h2 := by
  funext c
  unfold lastDef
  rw [foldl_update_filter c h1, foldl_update_filter c h2, hf c]

end SlipVerif.Clos
