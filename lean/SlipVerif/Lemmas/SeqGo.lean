import SlipVerif.Model.SeqGo
import SlipVerif.Lemmas.Seq
/-
  Helper lemmas for the Go-loop theorems of Theorems/C14.lean: the index loops of Model/SeqGo.lean
  (explicit index, fetch `xs[i]?`, fuel) against the structurally recursive transcriptions of
  Model/Seq.lean (`deleteFwdLoop`, `deleteBwdLoop`, `countLoop`, `positionFwdLoop`, `positionBwdLoop`).
-/
namespace SlipVerif.Seq
variable {α : Type}

theorem goIndex_natCast (xs : List α) (i : Nat) : goIndex xs (i : Int) = xs[i]? := by
  unfold goIndex
  have : ¬ ((i : Int) < 0) := by omega
  simp [this]

theorem drop_eq_cons_of_getElem? (xs : List α) (i : Nat) (x : α) (h : xs[i]? = some x) :
    xs.drop i = x :: xs.drop (i + 1) := by
  have hi : i < xs.length := by
    rcases Nat.lt_or_ge i xs.length with h' | h'
    · exact h'
    · rw [List.getElem?_eq_none h'] at h; cases h
  rw [List.getElem?_eq_getElem hi] at h
  cases h
  exact List.drop_eq_getElem_cons hi

theorem take_succ_reverse (xs : List α) (j : Nat) (x : α) (h : xs[j]? = some x) :
    (xs.take (j + 1)).reverse = x :: (xs.take j).reverse := by
  rw [List.take_succ, h]
  simp

theorem goDeleteBody_at (L : GoLoop) (p : α → Bool) (xs : List α) (n s e lim : Int) (i : Nat) (x : α)
    (st : Int × List α) (h : xs[i]? = some x) :
    goDeleteBody L p xs n s e lim (i : Int) st =
      if L.skip i n s e lim st.1 then some (st.1, st.2 ++ [x])
      else if p x then some (st.1 + 1, st.2) else some (st.1, st.2 ++ [x]) := by
  simp [goDeleteBody, goIndex_natCast, h]

theorem goCountBody_at (p : α → Bool) (xs : List α) (i : Nat) (x : α) (cnt : Nat) (h : xs[i]? = some x) :
    goCountBody p xs (i : Int) cnt = some (if p x then cnt + 1 else cnt) := by
  simp [goCountBody, goIndex_natCast, h]

theorem goPositionBody_at (p : α → Bool) (w : List α) (ret : Int → Int → Int) (s : Int) (i : Nat) (x : α)
    (h : w[i]? = some x) :
    goPositionBody p w ret s (i : Int) = some (if p x then some (ret i s) else none) := by
  simp [goPositionBody, goIndex_natCast, h]

/-- the end index only occurs in the guard `e ≤ i` with `i < n`: any `e` at or above `n` is as good as `n` -/
theorem deleteFwdLoop_end_ge (p : α → Bool) (s e e' lim i c : Nat) (l : List α)
    (h : i + l.length ≤ e) (h' : i + l.length ≤ e') :
    deleteFwdLoop p s e lim i c l = deleteFwdLoop p s e' lim i c l := by
  induction l generalizing i c with
  | nil => rfl
  | cons a l ih =>
    simp only [List.length_cons] at h h'
    unfold deleteFwdLoop
    have hc : (i < s ∨ e ≤ i ∨ lim ≤ c) ↔ (i < s ∨ e' ≤ i ∨ lim ≤ c) := by omega
    simp only [hc]
    rw [ih (i + 1) c (by omega) (by omega), ih (i + 1) (c + 1) (by omega) (by omega)]

theorem deleteBwdLoop_end_ge (p : α → Bool) (s e e' lim c : Nat) (l : List α)
    (h : l.length ≤ e) (h' : l.length ≤ e') :
    deleteBwdLoop p s e lim c l = deleteBwdLoop p s e' lim c l := by
  induction l generalizing c with
  | nil => rfl
  | cons a l ih =>
    simp only [List.length_cons] at h h'
    unfold deleteBwdLoop
    have hc : (l.length < s ∨ e ≤ l.length ∨ lim ≤ c) ↔ (l.length < s ∨ e' ≤ l.length ∨ lim ≤ c) := by omega
    simp only [hc]
    rw [ih c (by omega) (by omega), ih (c + 1) (by omega) (by omega)]

/-- forward loop of delete.go with an explicit index = the transcription over the remaining list -/
theorem goFor_delete_fwd (L : GoLoop) (hL : L.IsDeleteFwd) (p : α → Bool) (xs : List α) (s : Nat) (e lim : Int)
    (he : 0 ≤ e) :
    ∀ (k fuel i cnt : Nat) (acc : List α), i + k = xs.length → k < fuel →
      (goFor L xs.length s e (goDeleteBody L p xs xs.length s e lim) fuel i ((cnt : Int), acc)).map (fun st => st.2)
        = some (acc ++ deleteFwdLoop p s e.toNat lim.toNat i cnt (xs.drop i)) := by
  intro k
  induction k with
  | zero =>
    intro fuel i cnt acc hik hf
    obtain ⟨f, rfl⟩ : ∃ f, fuel = f + 1 := ⟨fuel - 1, by omega⟩
    have hi : i = xs.length := by omega
    subst hi
    unfold goFor
    rw [hL.cond]
    simp [deleteFwdLoop]
  | succ k ih =>
    intro fuel i cnt acc hik hf
    obtain ⟨f, rfl⟩ : ∃ f, fuel = f + 1 := ⟨fuel - 1, by omega⟩
    have hi : i < xs.length := by omega
    have hx : xs[i]? = some xs[i] := List.getElem?_eq_getElem hi
    unfold goFor
    rw [hL.cond, hL.step]
    have hlt : ((i : Int) < (xs.length : Int)) := by omega
    simp only [hlt, decide_true, if_true]
    rw [goDeleteBody_at L p xs _ _ _ _ i _ _ hx, hL.skip]
    rw [drop_eq_cons_of_getElem? xs i _ hx]
    unfold deleteFwdLoop
    have hg : ((i : Int) < (s : Int) ∨ e ≤ (i : Int) ∨ lim ≤ (cnt : Int)) ↔ (i < s ∨ e.toNat ≤ i ∨ lim.toNat ≤ cnt) := by
      omega
    by_cases hguard : (i < s ∨ e.toNat ≤ i ∨ lim.toNat ≤ cnt)
    · have hg' := hg.mpr hguard
      simp only [hg', decide_true, if_true, hguard]
      have := ih f (i + 1) cnt (acc ++ [xs[i]]) (by omega) (by omega)
      simp only [Int.natCast_add, Int.natCast_one] at this ⊢
      rw [this]
      simp
    · have hg' : ¬ ((i : Int) < (s : Int) ∨ e ≤ (i : Int) ∨ lim ≤ (cnt : Int)) := fun h => hguard (hg.mp h)
      simp only [hg', decide_false, hguard, if_false, Bool.false_eq_true]
      by_cases hp : p xs[i] = true
      · simp only [hp, if_true]
        have := ih f (i + 1) (cnt + 1) acc (by omega) (by omega)
        simp only [Int.natCast_add, Int.natCast_one] at this ⊢
        rw [this]
      · have hp' : p xs[i] = false := by simpa using hp
        simp only [hp', Bool.false_eq_true, if_false]
        have := ih f (i + 1) cnt (acc ++ [xs[i]]) (by omega) (by omega)
        simp only [Int.natCast_add, Int.natCast_one] at this ⊢
        rw [this]
        simp

/-- backward loop of delete.go (index `j - 1` down to 0) = the transcription over the reversed prefix -/
theorem goFor_delete_bwd (L : GoLoop) (hL : L.IsDeleteBwd) (p : α → Bool) (xs : List α) (s : Nat) (e lim : Int)
    (he : 0 ≤ e) :
    ∀ (j fuel cnt : Nat) (acc : List α), j ≤ xs.length → j < fuel →
      (goFor L xs.length s e (goDeleteBody L p xs xs.length s e lim) fuel ((j : Int) - 1) ((cnt : Int), acc)).map
          (fun st => st.2)
        = some (acc ++ deleteBwdLoop p s e.toNat lim.toNat cnt (xs.take j).reverse) := by
  intro j
  induction j with
  | zero =>
    intro fuel cnt acc _ hf
    obtain ⟨f, rfl⟩ : ∃ f, fuel = f + 1 := ⟨fuel - 1, by omega⟩
    unfold goFor
    rw [hL.cond]
    simp [deleteBwdLoop]
  | succ j ih =>
    intro fuel cnt acc hj hf
    obtain ⟨f, rfl⟩ : ∃ f, fuel = f + 1 := ⟨fuel - 1, by omega⟩
    have hi : j < xs.length := by omega
    have hx : xs[j]? = some xs[j] := List.getElem?_eq_getElem hi
    unfold goFor
    rw [hL.cond, hL.step]
    have hidx : ((j + 1 : Nat) : Int) - 1 = (j : Int) := by omega
    rw [hidx]
    have hge : (0 : Int) ≤ (j : Int) := by omega
    simp only [hge, decide_true, if_true]
    rw [goDeleteBody_at L p xs _ _ _ _ j _ _ hx, hL.skip, take_succ_reverse xs j _ hx]
    unfold deleteBwdLoop
    have hlen : (xs.take j).reverse.length = j := by simp; omega
    simp only [hlen]
    have hnext : (j : Int) + -1 = (j : Int) - 1 := by omega
    rw [hnext]
    have hg : ((j : Int) < (s : Int) ∨ e ≤ (j : Int) ∨ lim ≤ (cnt : Int)) ↔ (j < s ∨ e.toNat ≤ j ∨ lim.toNat ≤ cnt) := by
      omega
    by_cases hguard : (j < s ∨ e.toNat ≤ j ∨ lim.toNat ≤ cnt)
    · have hg' := hg.mpr hguard
      simp only [hg', decide_true, if_true, hguard]
      rw [ih f cnt (acc ++ [xs[j]]) (by omega) (by omega)]
      simp
    · have hg' : ¬ ((j : Int) < (s : Int) ∨ e ≤ (j : Int) ∨ lim ≤ (cnt : Int)) := fun h => hguard (hg.mp h)
      simp only [hg', decide_false, hguard, if_false, Bool.false_eq_true]
      by_cases hp : p xs[j] = true
      · simp only [hp, if_true]
        have := ih f (cnt + 1) acc (by omega) (by omega)
        simp only [Int.natCast_add, Int.natCast_one] at this ⊢
        rw [this]
      · have hp' : p xs[j] = false := by simpa using hp
        simp only [hp', Bool.false_eq_true, if_false]
        rw [ih f cnt (acc ++ [xs[j]]) (by omega) (by omega)]
        simp

/-- the two loops of delete.go with an explicit limit = the Spec with that limit -/
theorem deleteLoops_eq (p : α → Bool) (s e lim : Nat) (fromEnd : Bool) (xs : List α) (hse : s ≤ e) (he : e ≤ xs.length) :
    (if fromEnd then (deleteBwdLoop p s e lim 0 xs.reverse).reverse else deleteFwdLoop p s e lim 0 0 xs)
      = onRange s e (fun m => directed fromEnd (dropFirstN p lim) m) xs := by
  unfold onRange directed
  cases fromEnd
  · simp only [Bool.false_eq_true, if_false]
    rw [deleteFwdLoop_eq p s e _ xs hse]
  · simp only [if_true]
    rw [deleteBwdLoop_eq_fwd p s e _ xs.length 0 0 xs.reverse (by simp) he hse,
      deleteFwdLoop_eq p _ _ _ _ (by omega), mid_reverse s e xs hse he]
    simp only [List.reverse_append, List.append_assoc]
    rw [List.drop_reverse, List.take_reverse, List.reverse_reverse, List.reverse_reverse,
      show xs.length - (xs.length - s) = s by omega, show xs.length - (xs.length - e) = e by omega]

/-- a limit at or above the length of the scanned part is no limit -/
theorem dropFirstN_ge (p : α → Bool) (n m : Nat) (l : List α) (hn : l.length ≤ n) (hm : l.length ≤ m) :
    dropFirstN p n l = dropFirstN p m l := by
  rw [dropFirstN_of_length_le p n l hn, dropFirstN_of_length_le p m l hm]

/-- count.go forward: `for i := start; i < end; i++` -/
theorem goFor_count_fwd (L : GoLoop) (hL : L.IsRangeFwd) (p : α → Bool) (xs : List α) (n : Int) (s e : Nat)
    (he : e ≤ xs.length) :
    ∀ (k fuel i cnt : Nat), i + k = e → k < fuel →
      goFor L n s e (goCountBody p xs) fuel i cnt = some (countLoop p cnt ((xs.drop i).take k)) := by
  intro k
  induction k with
  | zero =>
    intro fuel i cnt hik hf
    obtain ⟨f, rfl⟩ : ∃ f, fuel = f + 1 := ⟨fuel - 1, by omega⟩
    unfold goFor
    rw [hL.cond]
    have : ¬ ((i : Int) < (e : Int)) := by omega
    simp [this, countLoop]
  | succ k ih =>
    intro fuel i cnt hik hf
    obtain ⟨f, rfl⟩ : ∃ f, fuel = f + 1 := ⟨fuel - 1, by omega⟩
    have hi : i < xs.length := by omega
    have hx : xs[i]? = some xs[i] := List.getElem?_eq_getElem hi
    unfold goFor
    rw [hL.cond, hL.step]
    have hlt : ((i : Int) < (e : Int)) := by omega
    simp only [hlt, decide_true, if_true]
    rw [goCountBody_at p xs i _ _ hx, drop_eq_cons_of_getElem? xs i _ hx, List.take_succ_cons]
    unfold countLoop
    have := ih f (i + 1) (if p xs[i] = true then cnt + 1 else cnt) (by omega) (by omega)
    simp only [Int.natCast_add, Int.natCast_one] at this ⊢
    rw [this]

/-- count.go backward: `for i := end - 1; start <= i; i--` counts the same elements -/
theorem goFor_count_bwd (L : GoLoop) (hL : L.IsRangeBwd) (p : α → Bool) (xs : List α) (n : Int) (s e : Nat)
    (he : e ≤ xs.length) :
    ∀ (k fuel cnt : Nat), s + k ≤ e → k < fuel →
      goFor L n s e (goCountBody p xs) fuel ((s + k : Nat) - 1 : Int) cnt
        = some (cnt + ((xs.drop s).take k).countP p) := by
  intro k
  induction k with
  | zero =>
    intro fuel cnt _ hf
    obtain ⟨f, rfl⟩ : ∃ f, fuel = f + 1 := ⟨fuel - 1, by omega⟩
    unfold goFor
    rw [hL.cond]
    have : ¬ ((s : Int) ≤ ((s + 0 : Nat) : Int) - 1) := by omega
    rw [decide_eq_false this]
    simp
  | succ k ih =>
    intro fuel cnt hk hf
    obtain ⟨f, rfl⟩ : ∃ f, fuel = f + 1 := ⟨fuel - 1, by omega⟩
    have hi : s + k < xs.length := by omega
    have hx : xs[s + k]? = some xs[s + k] := List.getElem?_eq_getElem hi
    unfold goFor
    rw [hL.cond, hL.step]
    have hidx : ((s + (k + 1) : Nat) : Int) - 1 = ((s + k : Nat) : Int) := by omega
    rw [hidx]
    have hge : (s : Int) ≤ ((s + k : Nat) : Int) := by omega
    simp only [hge, decide_true, if_true]
    rw [goCountBody_at p xs (s + k) _ _ hx]
    have hnext : ((s + k : Nat) : Int) + -1 = ((s + k : Nat) : Int) - 1 := by omega
    simp only [hnext]
    rw [ih f _ (by omega) (by omega)]
    have hsplit : (xs.drop s).take (k + 1) = (xs.drop s).take k ++ [xs[s + k]] := by
      rw [List.take_succ]
      have : (xs.drop s)[k]? = some xs[s + k] := by
        rw [List.getElem?_drop]; exact hx
      rw [this]; rfl
    rw [hsplit, List.countP_append]
    by_cases hp : p xs[s + k] = true
    · simp [hp]; omega
    · have hp' : p xs[s + k] = false := by simpa using hp
      simp [hp']

/-- position.go forward over the window: the first matching index -/
theorem goForFind_position_fwd (L : GoLoop) (hL : L.IsAllFwd) (p : α → Bool) (w : List α) (ret : Int → Int → Int)
    (s e : Int) :
    ∀ (k fuel i : Nat), i + k = w.length → k < fuel →
      goForFind L w.length s e (goPositionBody p w ret s) fuel i
        = some ((idxFirst p (w.drop i)).map (fun r => ret ((r + i : Nat) : Int) s)) := by
  intro k
  induction k with
  | zero =>
    intro fuel i hik hf
    obtain ⟨f, rfl⟩ : ∃ f, fuel = f + 1 := ⟨fuel - 1, by omega⟩
    have hi : i = w.length := by omega
    subst hi
    unfold goForFind
    rw [hL.cond]
    simp [idxFirst]
  | succ k ih =>
    intro fuel i hik hf
    obtain ⟨f, rfl⟩ : ∃ f, fuel = f + 1 := ⟨fuel - 1, by omega⟩
    have hi : i < w.length := by omega
    have hx : w[i]? = some w[i] := List.getElem?_eq_getElem hi
    unfold goForFind
    rw [hL.cond, hL.step]
    have hlt : ((i : Int) < (w.length : Int)) := by omega
    simp only [hlt, decide_true, if_true]
    rw [goPositionBody_at p w ret s i _ hx]
    rw [drop_eq_cons_of_getElem? w i _ hx]
    unfold idxFirst
    by_cases hp : p w[i] = true
    · simp [hp]
    · have hp' : p w[i] = false := by simpa using hp
      simp only [hp', Bool.false_eq_true, if_false]
      have := ih f (i + 1) (by omega) (by omega)
      simp only [Int.natCast_add, Int.natCast_one] at this ⊢
      rw [this]
      simp only [Option.map_map]
      congr 1
      apply congrArg (fun g => Option.map g (idxFirst p (List.drop (i + 1) w)))
      funext r
      simp only [Function.comp]
      congr 1
      omega

/-- position.go backward over the window (index `j - 1` down to 0): the last matching index below `j` -/
theorem goForFind_position_bwd (L : GoLoop) (hL : L.IsAllBwd) (p : α → Bool) (w : List α) (ret : Int → Int → Int)
    (s e : Int) :
    ∀ (j fuel : Nat), j ≤ w.length → j < fuel →
      goForFind L w.length s e (goPositionBody p w ret s) fuel ((j : Int) - 1)
        = some ((idxLast p (w.take j)).map (fun r : Nat => ret (r : Int) s)) := by
  intro j
  induction j with
  | zero =>
    intro fuel _ hf
    obtain ⟨f, rfl⟩ : ∃ f, fuel = f + 1 := ⟨fuel - 1, by omega⟩
    unfold goForFind
    rw [hL.cond]
    simp [idxLast]
  | succ j ih =>
    intro fuel hj hf
    obtain ⟨f, rfl⟩ : ∃ f, fuel = f + 1 := ⟨fuel - 1, by omega⟩
    have hi : j < w.length := by omega
    have hx : w[j]? = some w[j] := List.getElem?_eq_getElem hi
    unfold goForFind
    rw [hL.cond, hL.step]
    have hidx : ((j + 1 : Nat) : Int) - 1 = (j : Int) := by omega
    rw [hidx]
    have hge : (0 : Int) ≤ (j : Int) := by omega
    simp only [hge, decide_true, if_true]
    rw [goPositionBody_at p w ret s j _ hx]
    have htake : w.take (j + 1) = w.take j ++ [w[j]] := by rw [List.take_succ, hx]; rfl
    rw [htake, idxLast_append_singleton]
    have hlen : (w.take j).length = j := by simp; omega
    by_cases hp : p w[j] = true
    · simp [hp, hlen]
    · have hp' : p w[j] = false := by simpa using hp
      simp only [hp', Bool.false_eq_true, if_false]
      have hnext : (j : Int) + -1 = (j : Int) - 1 := by omega
      rw [hnext, ih f (by omega) (by omega)]

end SlipVerif.Seq
