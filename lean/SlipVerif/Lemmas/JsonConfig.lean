import SlipVerif.Model.JsonConfig
/-
  Helper lemmas for Theorems/C18: the stored converter is a function of the two variables.
-/
namespace SlipVerif.Json
open J

theorem updateConverter_vars (c : Cfg) : (updateConverter c).format = c.format ∧ (updateConverter c).wrap = c.wrap := by
  unfold updateConverter
  repeat' split
  all_goals exact ⟨rfl, rfl⟩

theorem updateConverter_conv (c : Cfg) : (updateConverter c).conv = derive c.format c.wrap := by
  unfold updateConverter derive
  repeat' split
  all_goals first | rfl | contradiction

/-- the invariant every setting establishes -/
def Cfg.Coherent (c : Cfg) : Prop := c.conv = derive c.format c.wrap

theorem applyOp_coherent (c : Cfg) (op : CfgOp) : (applyOp c op).Coherent := by
  cases op with
  | format v =>
    simp only [applyOp, setFormat, Cfg.Coherent]
    rw [updateConverter_conv, (updateConverter_vars _).1, (updateConverter_vars _).2]
  | wrap v =>
    simp only [applyOp, setWrap, Cfg.Coherent]
    rw [updateConverter_conv, (updateConverter_vars _).1, (updateConverter_vars _).2]

theorem runHistory_coherent (ops : List CfgOp) (c : Cfg) (h : c.Coherent) : (runHistory ops c).Coherent := by
  induction ops generalizing c with
  | nil => exact h
  | cons op rest ih =>
    simp only [runHistory, List.foldl_cons]
    exact ih _ (applyOp_coherent c op)

mutual
theorem convertDoc_off : (j : J) → convertDoc .off j = j
  | .null | .bool _ | .int _ | .flo _ | .str _ | .time _ => by simp [convertDoc]
  | .arr xs => by simp [convertDoc, convertL_off xs]
  | .obj kvs => by simp [convertDoc, convertM_off kvs]
theorem convertL_off : (xs : List J) → convertL .off xs = xs
  | [] => by simp [convertL]
  | x :: xs => by simp [convertL, convertDoc_off x, convertL_off xs]
theorem convertM_off : (kvs : Members) → convertM .off kvs = kvs
  | [] => by simp [convertM]
  | (k, v) :: kvs => by simp [convertM, convertDoc_off v, convertM_off kvs]
end

end SlipVerif.Json
