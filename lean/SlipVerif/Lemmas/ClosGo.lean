import SlipVerif.Model.ClosGo
import SlipVerif.Lemmas.Clos
/-
  C12 — facts about the control combinators and the data representation of Model/ClosGo.lean that
  do not depend on the generated code (Gen/ClosCode.lean).  Core Lean only.
-/
namespace SlipVerif.ClosGo
open SlipVerif.Clos

/-! ## loops -/

@[simp] theorem forRange_nil {α σ ρ : Type} (body : α → σ → Ctl σ ρ) (s : σ) :
    forRange [] body s = Ctl.next s := rfl

theorem forRange_cons {α σ ρ : Type} (x : α) (xs : List α) (body : α → σ → Ctl σ ρ) (s : σ) :
    forRange (x :: xs) body s =
      match body x s with
      | .next s' => forRange xs body s'
      | .cont s' => forRange xs body s'
      | .brk s' => Ctl.next s'
      | .ret s' r => Ctl.ret s' r := rfl

/-- a loop whose body always falls through or continues is a fold -/
theorem forRange_fold {α σ ρ : Type} (f : σ → α → σ) (body : α → σ → Ctl σ ρ)
    (hb : ∀ x s, body x s = Ctl.next (f s x) ∨ body x s = Ctl.cont (f s x)) :
    ∀ (xs : List α) (s : σ), forRange xs body s = Ctl.next (xs.foldl f s) := by
  intro xs
  induction xs with
  | nil => intro s; rfl
  | cons x xs ih =>
    intro s
    rw [forRange_cons]
    rcases hb x s with h | h <;> simp [h, ih]

/-- a loop that returns `r` in state `g s` at the first element satisfying `bad` and otherwise
    folds `f`, when `g` does not see what `f` changes -/
theorem forRange_guard {α σ ρ : Type} (bad : α → Bool) (f : σ → α → σ) (g : σ → σ) (r : ρ)
    (body : α → σ → Ctl σ ρ)
    (hbad : ∀ x s, bad x = true → body x s = Ctl.ret (g s) r)
    (hok : ∀ x s, bad x = false → body x s = Ctl.next (f s x) ∨ body x s = Ctl.cont (f s x))
    (hg : ∀ s x, g (f s x) = g s) :
    ∀ (xs : List α) (s : σ), forRange xs body s =
      if xs.all (fun x => !bad x) then Ctl.next (xs.foldl f s) else Ctl.ret (g s) r := by
  intro xs
  induction xs with
  | nil => intro s; rfl
  | cons x xs ih =>
    intro s
    rw [forRange_cons]
    by_cases hx : bad x = true
    · simp [hbad x s hx, hx]
    · have hx' : bad x = false := by simpa using hx
      simp only [hx', List.all_cons, Bool.not_false, Bool.true_and, List.foldl_cons]
      rcases hok x s hx' with h | h <;> simp only [h] <;> rw [ih, hg]

/-- `for { s = f s; if stop s { break } }` as a function of the fuel -/
def iterUntil {σ : Type} (f : σ → σ) (stop : σ → Bool) : Nat → σ → σ
  | 0, s => s
  | n + 1, s => if stop (f s) then f s else iterUntil f stop n (f s)

theorem forEver_eq {σ ρ : Type} (body : σ → Ctl σ ρ) (f : σ → σ) (stop : σ → Bool)
    (hb : ∀ s, body s = if stop (f s) then Ctl.brk (f s) else Ctl.next (f s)) :
    ∀ (fuel : Nat) (s : σ), forEver fuel body s = Ctl.next (iterUntil f stop fuel s)
  | 0, _ => rfl
  | n + 1, s => by
    unfold forEver iterUntil
    rw [hb]
    cases hst : stop (f s) with
    | true => simp
    | false => simp [forEver_eq body f stop hb n (f s)]

/-- with a measure that decreases on every round that does not stop, the loop ends by `break`
    within the fuel; `I` is an invariant, `R` a transitive relation between the state before and
    after a round -/
theorem iterUntil_spec {σ : Type} (f : σ → σ) (stop : σ → Bool) (m : σ → Nat)
    (I : σ → Prop) (R : σ → σ → Prop)
    (hI : ∀ s, I s → I (f s) ∧ R s (f s))
    (hR : ∀ a b c, R a b → R b c → R a c)
    (hm : ∀ s, I s → stop (f s) = false → m (f s) < m s) :
    ∀ (fuel : Nat) (s : σ), I s → m s < fuel →
      ∃ s0, I s0 ∧ (s0 = s ∨ R s s0) ∧ stop (f s0) = true ∧ iterUntil f stop fuel s = f s0 := by
  intro fuel
  induction fuel with
  | zero => intro s _ h; omega
  | succ n ih =>
    intro s hs hlt
    unfold iterUntil
    cases hst : stop (f s) with
    | true => exact ⟨s, hs, Or.inl rfl, hst, by simp⟩
    | false =>
      simp only [Bool.false_eq_true, if_false]
      have hlt' := hm s hs hst
      obtain ⟨s0, h0, hr, hstop, he⟩ := ih (f s) (hI s hs).1 (by omega)
      refine ⟨s0, h0, Or.inr ?_, hstop, he⟩
      rcases hr with e | e
      · rw [e]; exact (hI s hs).2
      · exact hR _ _ _ (hI s hs).2 e

/-! ## association lists -/

theorem AList.get?_set_self {β : Type} (x : Name) (v : β) : ∀ (m : AList β), (m.set x v).get? x = some v
  | [] => by simp [AList.set, AList.get?]
  | (k, w) :: r => by
    by_cases h : k = x
    · simp [AList.set, AList.get?, h]
    · simp [AList.set, AList.get?, h, AList.get?_set_self x v r]

theorem AList.get?_set_ne {β : Type} {x y : Name} (v : β) (h : y ≠ x) :
    ∀ (m : AList β), (m.set x v).get? y = m.get? y
  | [] => by
    have : ¬ x = y := fun e => h e.symm
    simp [AList.set, AList.get?, this]
  | (k, w) :: r => by
    by_cases hk : k = x
    · subst hk
      have : ¬ k = y := fun e => h e.symm
      simp [AList.set, AList.get?, this]
    · by_cases hy : k = y
      · subst hy
        simp [AList.set, AList.get?, h]
      · simp [AList.set, AList.get?, hk, hy, AList.get?_set_ne v h r]

/-! ## the heap -/

theorem Heap.get?_name : ∀ {h : Heap} {c : Name} {g : GClass}, h.get? c = some g → g.name = c
  | [], _, _, hf => by simp [Heap.get?] at hf
  | g0 :: h, c, g, hf => by
    by_cases hn : g0.name = c
    · simp [Heap.get?, hn] at hf; subst hf; exact hn
    · simp [Heap.get?, hn] at hf; exact Heap.get?_name hf

theorem Heap.get?_mem : ∀ {h : Heap} {c : Name} {g : GClass}, h.get? c = some g → g ∈ h
  | [], _, _, hf => by simp [Heap.get?] at hf
  | g0 :: h, c, g, hf => by
    by_cases hn : g0.name = c
    · simp [Heap.get?, hn] at hf; subst hf; simp
    · simp [Heap.get?, hn] at hf; exact List.mem_cons_of_mem _ (Heap.get?_mem hf)

/-! ## what mergeSupers computes (specification functions used by Theorems/GenC12.lean) -/

/-- the class named `x` is registered and merged (`ssc != nil && len(ssc.precedence) != 0`) -/
def readyIn (H : Heap) (x : Name) : Bool := !(H.isNil x || (H.precOf x).length == 0)

/-- the inheritance list: direct superclasses in the order written followed by theirs, first
    occurrence kept -/
def mergedInherit (H : Heap) (supers : List Name) : List Name :=
  dedup (supers ++ supers.flatMap H.inheritOf)

/-- one slot definition offered to the initform table: a definition with an initform replaces what
    is there -/
def setIF (m : AList GSlot) (sd : GSlot) : AList GSlot :=
  if sd.initform != none then m.set sd.name sd else m

/-- the initform table: inherited classes from the least specific to the most specific, then the
    class's own slots; later entries replace earlier ones -/
def initFormsOf (H : Heap) (own : AList GSlot) (inh : List Name) : AList GSlot :=
  own.foldl (fun m kv => setIF m kv.2)
    (inh.reverse.foldl (fun m k => (H.slotDefsOf k).foldl (fun m kv => setIF m kv.2) m) [])

/-- the precedence list: the class, its inheritance list, the base class unless it is already last, t -/
def precedenceOf (g : GClass) (inh : List Name) : List Sym :=
  let p := [Sym.cls g.name] ++ inh.map Sym.cls
  (if decide (0 < g.baseClass.toList.length) && (p.getLast? != g.baseClass) then p ++ g.baseClass.toList else p)
    ++ [Sym.t]

/-- the class object after a successful merge -/
def mergedClass (H : Heap) (g : GClass) : GClass :=
  { g with
    inherit := mergedInherit H g.supers,
    initForms := initFormsOf H g.slotDefs (mergedInherit H g.supers),
    precedence := precedenceOf g (mergedInherit H g.supers) }

/-- the class object after a failed merge -/
def failedClass (g : GClass) : GClass := { g with inherit := [] }

theorem precedenceOf_standard (g : GClass) (inh : List Name) (hb : g.baseClass = some Sym.standardObject) :
    precedenceOf g inh = Sym.cls g.name :: inh.map Sym.cls ++ [Sym.standardObject, Sym.t] := by
  unfold precedenceOf
  have hl : (Sym.cls g.name :: inh.map Sym.cls).getLast? ≠ some Sym.standardObject := by
    intro h
    have hm := List.mem_of_getLast? h
    simp at hm
  simp [hb, hl]

theorem precedenceOf_ne_nil (g : GClass) (inh : List Name) : precedenceOf g inh ≠ [] := by
  unfold precedenceOf
  simp

/-- appending the new elements of `l`, as a state fold -/
theorem foldl_appendNew (g : GClass) : ∀ (xs : List Name) (s : GClass),
    xs.foldl (fun s x => if x ∈ s.inherit then s else { s with inherit := s.inherit ++ [x] }) s
      = { s with inherit := appendNew s.inherit xs }
  | [], s => by simp [appendNew]
  | x :: xs, s => by
    simp only [List.foldl_cons]
    rw [foldl_appendNew g xs]
    by_cases h : x ∈ s.inherit <;> simp [appendNew, h]

theorem appendNew_append (acc a b : List Name) : appendNew acc (a ++ b) = appendNew (appendNew acc a) b := by
  simp [appendNew, List.foldl_append]

/-- elements already on the accumulator are skipped -/
theorem appendNew_filter (acc l : List Name) :
    appendNew acc (l.filter (fun y => !(acc.contains y))) = appendNew acc l := by
  rw [appendNew_eq, appendNew_eq, List.filter_filter]
  simp

theorem mem_appendNew {acc l : List Name} {x : Name} : x ∈ appendNew acc l ↔ x ∈ acc ∨ x ∈ l := by
  rw [appendNew_eq]
  simp only [List.mem_append, mem_dedup, List.mem_filter]
  constructor
  · rintro (h | ⟨h, _⟩)
    · exact Or.inl h
    · exact Or.inr h
  · rintro (h | h)
    · exact Or.inl h
    · by_cases ha : x ∈ acc
      · exact Or.inl ha
      · exact Or.inr ⟨h, by simpa using ha⟩

/-- two candidate lists with the same elements not yet on the accumulator, in the same order of
    first occurrence, give the same result: here, dropping a block of elements that are all on the
    accumulator already -/
theorem appendNew_skip (acc u v w : List Name) (hv : ∀ x ∈ v, x ∈ acc) :
    appendNew acc (u ++ v ++ w) = appendNew acc (u ++ w) := by
  rw [List.append_assoc, appendNew_append, appendNew_append, appendNew_append]
  congr 1
  have hsub : ∀ x ∈ v, x ∈ appendNew acc u := fun x hx => mem_appendNew.2 (Or.inl (hv x hx))
  generalize appendNew acc u = a at hsub
  clear hv
  induction v generalizing a with
  | nil => simp [appendNew]
  | cons x xs ih =>
    have hx : x ∈ a := hsub x (by simp)
    simp only [appendNew, List.foldl_cons, hx, if_true]
    exact ih a (fun y hy => hsub y (by simp [hy]))

/-- the expansion loop of mergeSupers walks the lists of the *deduplicated* direct superclasses;
    that is the same as walking the lists of all of them -/
theorem appendNew_flatMap_dedup (f : Name → List Name) : ∀ (l acc : List Name),
    appendNew acc ((dedup l).flatMap f) = appendNew acc (l.flatMap f)
  | [], acc => by simp [dedup]
  | x :: xs, acc => by
    simp only [dedup, List.flatMap_cons]
    rw [appendNew_append, appendNew_append]
    -- after the block of x every element of f x is on the accumulator
    have hfx : ∀ y ∈ f x, y ∈ appendNew acc (f x) := fun y hy => mem_appendNew.2 (Or.inr hy)
    generalize appendNew acc (f x) = a at hfx
    -- removing the later copies of x from the (deduplicated) rest removes only blocks f x
    have hdrop : ∀ (l : List Name), appendNew a ((l.filter (fun y => y ≠ x)).flatMap f) = appendNew a (l.flatMap f) := by
      intro l
      induction l generalizing a with
      | nil => simp
      | cons z zs ih =>
        by_cases hz : z = x
        · subst hz
          simp only [ne_eq, not_true_eq_false, decide_false, List.filter_cons, Bool.false_eq_true,
            if_false, List.flatMap_cons]
          have := appendNew_skip a [] (f z) (zs.flatMap f) hfx
          simp only [List.nil_append] at this
          rw [this]
          exact ih a hfx
        · simp only [ne_eq, hz, not_false_eq_true, decide_true, List.filter_cons, if_true,
            List.flatMap_cons]
          rw [appendNew_append, appendNew_append]
          exact ih _ (fun y hy => mem_appendNew.2 (Or.inl (hfx y hy)))
    rw [hdrop (dedup xs)]
    exact appendNew_flatMap_dedup f xs a

theorem mergedInherit_eq (H : Heap) (supers : List Name) :
    appendNew (appendNew [] supers) ((appendNew [] supers).flatMap H.inheritOf) = mergedInherit H supers := by
  unfold mergedInherit
  rw [dedup_eq_appendNew (supers ++ _), appendNew_append, ← dedup_eq_appendNew supers]
  exact appendNew_flatMap_dedup H.inheritOf supers (dedup supers)

/-! ## abstraction: the heap of class objects as a state of the hand model -/

def absSlot (sd : GSlot) : SlotDef := { name := sd.name, initargs := sd.initargs, initform := sd.initform }

def absDef (g : GClass) : ClassDef := { supers := g.supers, slots := g.slotDefs.map (fun kv => absSlot kv.2) }

/-- a class object is ready when its precedence list has been filled; then `inherit` is its list -/
def absInh (g : GClass) : Option (List Name) := if g.precedence = [] then none else some g.inherit

def absEntry (g : GClass) : Entry := { name := g.name, defn := absDef g, inh := absInh g }

def abs (h : Heap) : State := h.map absEntry

theorem find_abs : ∀ (h : Heap) (c : Name), find (abs h) c = (h.get? c).map absEntry
  | [], _ => rfl
  | g :: h, c => by
    by_cases hn : g.name = c
    · simp [abs, find, Heap.get?, absEntry, hn]
    · have := find_abs h c
      simp only [abs] at this
      simp [abs, find, Heap.get?, absEntry, hn, this]

theorem defOf_abs (h : Heap) (c : Name) : defOf (abs h) c = (h.get? c).map absDef := by
  unfold defOf
  rw [find_abs]
  cases h.get? c <;> simp [absEntry]

theorem names_abs (h : Heap) : names (abs h) = h.allClasses := by
  simp [names, abs, Heap.allClasses, absEntry]

theorem readyIn_iff (h : Heap) (c : Name) :
    readyIn h c = true ↔ ∃ g, h.get? c = some g ∧ g.precedence ≠ [] := by
  unfold readyIn Heap.isNil Heap.precOf
  cases hg : h.get? c with
  | none => simp
  | some g => cases hp : g.precedence <;> simp [hp]

theorem inhOf_abs (h : Heap) (c : Name) :
    inhOf (abs h) c = if readyIn h c then some (h.inheritOf c) else none := by
  unfold inhOf
  rw [find_abs]
  unfold readyIn Heap.isNil Heap.precOf Heap.inheritOf
  cases hg : h.get? c with
  | none => simp
  | some g => cases hp : g.precedence <;> simp [absEntry, absInh, hp]

theorem collect_abs (h : Heap) : ∀ (xs : List Name),
    collect (inhOf (abs h)) xs = if xs.all (readyIn h) then some (xs.flatMap h.inheritOf) else none
  | [] => by simp [collect]
  | x :: xs => by
    simp only [collect, inhOf_abs, collect_abs h xs, List.all_cons, List.flatMap_cons]
    by_cases hx : readyIn h x = true
    · by_cases hr : xs.all (readyIn h) = true <;> simp [hx, hr]
    · simp [hx]

/-- the model's merge attempt on the abstracted heap is the specification of the translated one -/
theorem mergeSupers_abs (h : Heap) (g : GClass) :
    Clos.mergeSupers (abs h) (absDef g) =
      if g.supers.all (readyIn h) then some (mergedInherit h g.supers) else none := by
  unfold Clos.mergeSupers mergeWith
  rw [collect_abs]
  by_cases hr : g.supers.all (readyIn h) = true <;> simp [hr, absDef, mergedInherit]

/-- class names are unique in the table -/
def NodupNames (h : Heap) : Prop := h.allClasses.Nodup

theorem allClasses_put (g' : GClass) : ∀ (h : Heap), (h.put g').allClasses = h.allClasses
  | [] => rfl
  | g :: h => by
    by_cases hn : g.name = g'.name
    · simp [Heap.put, Heap.allClasses, hn]
    · have := allClasses_put g' h
      simp only [Heap.allClasses] at this
      simp [Heap.put, Heap.allClasses, hn, this]

theorem mem_allClasses_of_get? {h : Heap} {c : Name} {g : GClass} (hg : h.get? c = some g) :
    c ∈ h.allClasses := by
  have := Heap.get?_mem hg
  have hn := Heap.get?_name hg
  simp only [Heap.allClasses, List.mem_map]
  exact ⟨g, this, hn⟩

theorem get?_of_mem_allClasses : ∀ {h : Heap} {c : Name}, c ∈ h.allClasses → ∃ g, h.get? c = some g
  | [], _, hc => by simp [Heap.allClasses] at hc
  | g0 :: h, c, hc => by
    by_cases hn : g0.name = c
    · exact ⟨g0, by simp [Heap.get?, hn]⟩
    · have : c ∈ Heap.allClasses h := by
        simp only [Heap.allClasses, List.map_cons, List.mem_cons] at hc
        rcases hc with e | e
        · exact absurd e.symm hn
        · exact e
      obtain ⟨g, hg⟩ := get?_of_mem_allClasses this
      exact ⟨g, by simp [Heap.get?, hn, hg]⟩

/-- with unique names, replacing the object of a name is a map over the table -/
theorem put_eq_map : ∀ {h : Heap} {c : Name} (g' : GClass), NodupNames h → g'.name = c →
    Heap.put h g' = h.map (fun x => if x.name = c then g' else x)
  | [], _, _, _, _ => rfl
  | g0 :: h, c, g', hn, hname => by
    have hnd : g0.name ∉ Heap.allClasses h ∧ NodupNames h := by
      simpa [NodupNames, Heap.allClasses] using hn
    by_cases h0 : g0.name = c
    · have hrest : h.map (fun x => if x.name = c then g' else x) = h := by
        conv => rhs; rw [← List.map_id h]
        apply List.map_congr_left
        intro x hx
        have : x.name ≠ c := by
          intro e
          apply hnd.1
          simp only [Heap.allClasses, List.mem_map]
          exact ⟨x, hx, by rw [e, h0]⟩
        simp [this]
      simp [Heap.put, hname, h0, hrest]
    · have h0' : ¬ g0.name = g'.name := by rw [hname]; exact h0
      simp [Heap.put, h0', h0, put_eq_map g' hnd.2 hname]

theorem getD_of_mem : ∀ {h : Heap} {g : GClass}, NodupNames h → g ∈ h → Heap.getD h g.name = g
  | [], _, _, hg => by simp at hg
  | g0 :: h, g, hn, hg => by
    have hnd : g0.name ∉ Heap.allClasses h ∧ NodupNames h := by
      simpa [NodupNames, Heap.allClasses] using hn
    rcases List.mem_cons.1 hg with e | e
    · subst e; simp [Heap.getD, Heap.get?]
    · have hne : ¬ g0.name = g.name := by
        intro e'
        apply hnd.1
        simp only [Heap.allClasses, List.mem_map]
        exact ⟨g, e, e'.symm⟩
      have ih := getD_of_mem hnd.2 e
      unfold Heap.getD at ih ⊢
      simp only [Heap.get?, hne, if_false]
      exact ih

theorem get?_map_of_ne {f : GClass → GClass} (hf : ∀ g, (f g).name = g.name) {x : Name} :
    ∀ (h : Heap) (c : Name), c ≠ x →
      Heap.get? (h.map (fun g => if g.name = x then f g else g)) c = Heap.get? h c
  | [], _, _ => rfl
  | g :: h, c, hc => by
    have ih := get?_map_of_ne hf h c hc
    by_cases hx : g.name = x
    · have h1 : ¬ (f g).name = c := by rw [hf, hx]; exact fun e => hc e.symm
      have h2 : ¬ g.name = c := by rw [hx]; exact fun e => hc e.symm
      rw [List.map_cons, if_pos hx, Heap.get?, if_neg h1, Heap.get?, if_neg h2]
      exact ih
    · by_cases hg : g.name = c
      · rw [List.map_cons, if_neg hx, Heap.get?, if_pos hg, Heap.get?, if_pos hg]
      · rw [List.map_cons, if_neg hx, Heap.get?, if_neg hg, Heap.get?, if_neg hg]
        exact ih

/-- a class object mutated in place (same name, same definition): at the level of the hand model
    only its inheritance list changes -/
theorem abs_put : ∀ {h : Heap} {g g' : GClass}, NodupNames h → h.get? g.name = some g →
    g'.name = g.name → absDef g' = absDef g → abs (h.put g') = setInh (abs h) g.name (absInh g')
  | [], _, _, _, hg, _, _ => by simp [Heap.get?] at hg
  | g0 :: h, g, g', hn, hg, hname, hdef => by
    have hnd : g0.name ∉ Heap.allClasses h ∧ NodupNames h := by
      simpa [NodupNames, Heap.allClasses] using hn
    by_cases h0 : g0.name = g.name
    · have e : g0 = g := by simpa [Heap.get?, h0] using hg
      subst e
      have hrest : ∀ e ∈ abs h, e.name ≠ g0.name := by
        intro e he hen
        apply hnd.1
        simp only [abs, List.mem_map] at he
        obtain ⟨x, hx, rfl⟩ := he
        simp only [Heap.allClasses, List.mem_map]
        exact ⟨x, hx, hen⟩
      have hmap : (abs h).map (fun e => if e.name = g0.name then { e with inh := absInh g' } else e) = abs h := by
        conv => rhs; rw [← List.map_id (abs h)]
        apply List.map_congr_left
        intro e he
        simp [hrest e he]
      simp only [Heap.put, hname, if_true, abs, List.map_cons, setInh]
      simp only [abs] at hmap
      rw [hmap]
      simp [absEntry, hname, hdef]
    · have hg' : Heap.get? h g.name = some g := by simpa [Heap.get?, h0] using hg
      have ih := abs_put hnd.2 hg' hname hdef
      have h0' : ¬ g0.name = g'.name := by rw [hname]; exact h0
      simp only [Heap.put, h0', if_false, abs, List.map_cons, setInh]
      simp only [abs, setInh] at ih
      rw [ih]
      simp [absEntry, h0]

/-- replacing a class object by one with the same abstraction changes nothing for the hand model -/
theorem abs_put_same : ∀ {h : Heap} {g g' : GClass}, Heap.get? h g.name = some g →
    g'.name = g.name → absEntry g' = absEntry g → abs (Heap.put h g') = abs h
  | [], _, _, hg, _, _ => by simp [Heap.get?] at hg
  | g0 :: h, g, g', hg, hname, he => by
    by_cases h0 : g0.name = g.name
    · have e : g0 = g := by simpa [Heap.get?, h0] using hg
      subst e
      simp [Heap.put, hname, abs, he]
    · have hg' : Heap.get? h g.name = some g := by simpa [Heap.get?, h0] using hg
      have ih := abs_put_same hg' hname he
      have h0' : ¬ g0.name = g'.name := by rw [hname]; exact h0
      simp only [abs] at ih
      simp [Heap.put, h0', abs, ih]

theorem getD_of_get? {h : Heap} {c : Name} {g : GClass} (hg : h.get? c = some g) : h.getD c = g := by
  simp [Heap.getD, hg]

theorem get?_put_of_ne (g' : GClass) {c : Name} (hc : c ≠ g'.name) : ∀ (h : Heap),
    Heap.get? (Heap.put h g') c = Heap.get? h c
  | [] => rfl
  | g :: h => by
    by_cases hn : g.name = g'.name
    · have : ¬ g'.name = c := fun e => hc e.symm
      have hgc : ¬ g.name = c := by rw [hn]; exact this
      simp [Heap.put, hn, Heap.get?, this, hgc]
    · by_cases hgc : g.name = c
      · subst hgc
        simp [Heap.put, hn, Heap.get?]
      · simp [Heap.put, hn, Heap.get?, hgc, get?_put_of_ne g' hc h]

/-- a class that is ready stays ready with its list through merge attempts -/
theorem inhOf_tryReady_of_some {s : State} {c : Name} {l : List Name} (k : Name)
    (h : inhOf s c = some l) : inhOf (tryReady s k) c = some l := by
  rcases tryReady_cases s k with e | ⟨e, l', hf, hi, _, e'⟩
  · rw [e]; exact h
  · rw [e']
    by_cases hck : c = k
    · subst hck
      simp [inhOf, hf, hi] at h
    · rw [inhOf_setInh_ne s _ hck]; exact h

theorem inhOf_foldl_tryReady_of_some : ∀ (cs : List Name) {s : State} {c : Name} {l : List Name},
    inhOf s c = some l → inhOf (cs.foldl tryReady s) c = some l
  | [], _, _, _, h => h
  | k :: cs, _, _, _, h => inhOf_foldl_tryReady_of_some cs (inhOf_tryReady_of_some k h)

/-- a merge attempt that changes nothing, of a class that is not ready, is a failed merge -/
theorem merge_none_of_tryReady_eq {s : State} {c : Name} {e : Entry} (hf : find s c = some e)
    (hi : e.inh = none) (h : tryReady s c = s) : Clos.mergeSupers s e.defn = none := by
  cases hm : Clos.mergeSupers s e.defn with
  | none => rfl
  | some l =>
    exfalso
    have : tryReady s c = setInh s c (some l) := by
      unfold tryReady; simp [hf, hi, hm]
    have hlt := nr_setInh_lt c l hf hi
    rw [← this, h] at hlt
    omega

/-! ## the initform table holds the most specific initform of every slot -/

/-- a slot map as Go has it: keyed by the slot's own name, one entry per name -/
def SlotMapWF (m : AList GSlot) : Prop := (∀ kv ∈ m, kv.1 = kv.2.name) ∧ (m.map (·.1)).Nodup

/-- the slot definitions of a class object as the hand model lists them -/
def absSlots (m : AList GSlot) : List SlotDef := m.map (fun kv => absSlot kv.2)

theorem initformFor_append (a b : List SlotDef) (x : Name) :
    initformFor (a ++ b) x = match initformFor a x with
      | some v => some v
      | none => initformFor b x := by
  induction a with
  | nil => rfl
  | cons sd a ih =>
    simp only [List.cons_append, initformFor]
    by_cases h : sd.name = x
    · cases hf : sd.initform <;> simp [h, hf, ih]
    · simp [h, ih]

theorem initformFor_absSlots_none {m : AList GSlot} {x : Name} (hk : ∀ kv ∈ m, kv.1 = kv.2.name)
    (hx : x ∉ m.map (·.1)) : initformFor (absSlots m) x = none := by
  induction m with
  | nil => rfl
  | cons kv m ih =>
    have h1 : kv.2.name ≠ x := by
      intro e
      apply hx
      simp [← e, ← hk kv (by simp)]
    simp only [absSlots, List.map_cons, initformFor, absSlot, h1, if_false]
    exact ih (fun kv' h => hk kv' (by simp [h])) (fun h => hx (by simp [List.mem_map] at h ⊢; exact Or.inr h))

/-- one class's slot definitions offered to the table -/
theorem foldl_setIF_get? : ∀ (l : AList GSlot), SlotMapWF l → ∀ (m : AList GSlot) (x : Name),
    ((l.foldl (fun m kv => setIF m kv.2) m).get? x).bind (·.initform) =
      match initformFor (absSlots l) x with
      | some v => some v
      | none => (m.get? x).bind (·.initform)
  | [], _, m, x => rfl
  | kv :: l, hwf, m, x => by
    have hk : kv.1 = kv.2.name := hwf.1 kv (by simp)
    have hnd : kv.1 ∉ l.map (·.1) ∧ (l.map (·.1)).Nodup := by simpa using hwf.2
    have hwf' : SlotMapWF l := ⟨fun kv' h => hwf.1 kv' (by simp [h]), hnd.2⟩
    simp only [List.foldl_cons]
    rw [foldl_setIF_get? l hwf' (setIF m kv.2) x]
    have hs : initformFor (absSlots (kv :: l)) x =
        if kv.2.name = x then (match kv.2.initform with
          | some v => some v
          | none => initformFor (absSlots l) x) else initformFor (absSlots l) x := rfl
    rw [hs]
    by_cases hx : kv.2.name = x
    · have hnone : initformFor (absSlots l) x = none :=
        initformFor_absSlots_none hwf'.1 (by rw [← hx, ← hk]; exact hnd.1)
      rw [if_pos hx, hnone]
      cases hf : kv.2.initform with
      | none => simp [setIF, hf]
      | some v => simp [setIF, hf, hx, AList.get?_set_self]
    · rw [if_neg hx]
      have hne : x ≠ kv.2.name := fun e => hx e.symm
      have : (setIF m kv.2).get? x = m.get? x := by
        unfold setIF
        by_cases hf : (kv.2.initform != none) = true
        · rw [if_pos hf, AList.get?_set_ne _ hne]
        · rw [if_neg hf]
      rw [this]

/-- the inherited classes, least specific first, then (see `initFormsOf`) the own slots: the table
    ends up with the most specific initform of every slot — what the hand model's `initformFor`
    finds by walking the slot definitions in precedence order -/
theorem initFormsOf_get? (H : Heap) (own : AList GSlot) (inh : List Name) (hown : SlotMapWF own)
    (hinh : ∀ k ∈ inh, SlotMapWF (H.slotDefsOf k)) (x : Name) :
    ((initFormsOf H own inh).get? x).bind (·.initform) =
      initformFor (absSlots own ++ inh.flatMap (fun k => absSlots (H.slotDefsOf k))) x := by
  unfold initFormsOf
  rw [foldl_setIF_get? own hown, initformFor_append]
  have hrest : ∀ (ks : List Name), (∀ k ∈ ks, SlotMapWF (H.slotDefsOf k)) → ∀ (m : AList GSlot),
      ((ks.reverse.foldl (fun m k => (H.slotDefsOf k).foldl (fun m kv => setIF m kv.2) m) m).get? x).bind (·.initform) =
        match initformFor (ks.flatMap (fun k => absSlots (H.slotDefsOf k))) x with
        | some v => some v
        | none => (m.get? x).bind (·.initform) := by
    intro ks
    induction ks with
    | nil => intro _ m; rfl
    | cons k ks ih =>
      intro hw m
      simp only [List.reverse_cons, List.foldl_append, List.foldl_cons, List.foldl_nil, List.flatMap_cons]
      rw [foldl_setIF_get? _ (hw k (by simp)), initformFor_append, ih (fun k' h => hw k' (by simp [h]))]
      cases initformFor (absSlots (H.slotDefsOf k)) x <;> rfl
  rw [hrest inh hinh []]
  cases initformFor (absSlots own) x with
  | some v => rfl
  | none =>
    cases initformFor (inh.flatMap (fun k => absSlots (H.slotDefsOf k))) x <;> rfl

/-! ## shared-initialize in normal form -/

/-- the instance's slots and shared-initialize's `nameMap` (slot name ↦ the initarg that filled it) -/
abbrev SI := AList (Option Val) × AList Name

/-- `obj.setSlot(sd, v)` on the instance's own slots -/
def setSlotF (sd : GSlot) (v : Option Val) (vars : AList (Option Val)) : AList (Option Val) :=
  if sd.classStore then vars else vars.set sd.name v

/-- one slot definition offered the value of initarg `k` -/
def offer1 (k : Name) (v : Val) (st : SI) (sd : GSlot) : SI :=
  if st.2.has sd.name then st else (setSlotF sd (some v) st.1, st.2.set sd.name k)

/-- pass 2 for one default initarg: every slot that declares it and has not been filled -/
def offer (sds : List GSlot) (k : Name) (v : Val) (st : SI) : SI := sds.foldl (offer1 k v) st

/-- pass 1 for one supplied initarg: every slot that declares it; `none` = an error is signalled
    (no slot declares it, or a slot it reaches has been filled already) -/
def offerStrict (k : Name) (v : Val) : List GSlot → SI → Option SI
  | [], st => some st
  | sd :: sds, st =>
    if st.2.has sd.name then none
    else offerStrict k v sds (setSlotF sd (some v) st.1, st.2.set sd.name k)

def passArgs (T : GClass) : List (Name × Val) → SI → Option SI
  | [], st => some st
  | (k, v) :: r, st =>
    if ((T.initArgs.get? k).getD []).length == 0 then none
    else match offerStrict k v ((T.initArgs.get? k).getD []) st with
      | none => none
      | some st' => passArgs T r st'

def passDefaults (T : GClass) (st : SI) : SI :=
  T.defaultInitArgs.foldl (fun st kv => offer ((T.initArgs.get? kv.1).getD []) kv.1 kv.2 st) st

/-- pass 3: the initform table for the slots no initarg filled -/
def passForms (T : GClass) (st : SI) : SI :=
  T.initForms.foldl (fun st kv =>
    if st.2.has kv.1 then st else (setSlotF kv.2 (some (kv.2.initform.getD nilVal)) st.1, st.2)) st

theorem AList.has_set {β : Type} (m : AList β) (x y : Name) (v : β) :
    (m.set x v).has y = (decide (y = x) || m.has y) := by
  unfold AList.has
  by_cases h : y = x
  · subst h; simp [AList.get?_set_self]
  · simp [AList.get?_set_ne v h, h]

theorem setSlotF_get?_ne {sd : GSlot} {x : Name} (v : Option Val) (vars : AList (Option Val))
    (h : x ≠ sd.name) : (setSlotF sd v vars).get? x = vars.get? x := by
  unfold setSlotF
  by_cases hc : sd.classStore = true
  · simp [hc]
  · simp [hc, AList.get?_set_ne v h]

/-- a slot that has been filled (it is in `nameMap`) is not touched by a later offer, and stays
    filled: a supplied initarg beats a default initarg -/
theorem offer_keeps_filled (k : Name) (v : Val) (x : Name) : ∀ (sds : List GSlot) (st : SI),
    st.2.has x = true →
    (offer sds k v st).1.get? x = st.1.get? x ∧ (offer sds k v st).2.has x = true
  | [], _, h => ⟨rfl, h⟩
  | sd :: sds, st, h => by
    unfold offer
    simp only [List.foldl_cons]
    have ih := offer_keeps_filled k v x sds (offer1 k v st sd)
    unfold offer at ih
    by_cases hh : st.2.has sd.name = true
    · have e : offer1 k v st sd = st := by simp [offer1, hh]
      rw [e] at ih ⊢
      exact ih h
    · have hne : x ≠ sd.name := by
        intro e; rw [e] at h; exact hh h
      have e1 : (offer1 k v st sd).1.get? x = st.1.get? x := by
        simp only [offer1, hh, Bool.false_eq_true, if_false]
        exact setSlotF_get?_ne _ _ hne
      have e2 : (offer1 k v st sd).2.has x = true := by
        simp only [offer1, hh, Bool.false_eq_true, if_false, AList.has_set, h, Bool.or_true]
      obtain ⟨i1, i2⟩ := ih e2
      exact ⟨by rw [i1, e1], i2⟩

theorem passDefaults_keeps_filled (T : GClass) (x : Name) (st : SI) (h : st.2.has x = true) :
    (passDefaults T st).1.get? x = st.1.get? x ∧ (passDefaults T st).2.has x = true := by
  unfold passDefaults
  generalize T.defaultInitArgs = dl
  induction dl generalizing st with
  | nil => exact ⟨rfl, h⟩
  | cons kv dl ih =>
    simp only [List.foldl_cons]
    obtain ⟨o1, o2⟩ := offer_keeps_filled kv.1 kv.2 x ((T.initArgs.get? kv.1).getD []) st h
    obtain ⟨i1, i2⟩ := ih _ o2
    exact ⟨by rw [i1, o1], i2⟩

/-- … and the initform pass does not touch a slot an initarg (supplied or default) has filled:
    an initarg beats an initform (initform table keyed by the slot's own name) -/
theorem passForms_keeps_filled (T : GClass) (hk : ∀ kv ∈ T.initForms, kv.1 = kv.2.name) (x : Name) (st : SI)
    (h : st.2.has x = true) : (passForms T st).1.get? x = st.1.get? x := by
  unfold passForms
  generalize hl : T.initForms = l at hk
  clear hl
  induction l generalizing st with
  | nil => rfl
  | cons kv l ih =>
    simp only [List.foldl_cons]
    have hk' : ∀ kv' ∈ l, kv'.1 = kv'.2.name := fun kv' hm => hk kv' (by simp [hm])
    by_cases hh : st.2.has kv.1 = true
    · simp only [hh, if_true]
      exact ih st h hk'
    · simp only [hh, Bool.false_eq_true, if_false]
      have hne : x ≠ kv.2.name := by
        intro e
        rw [← hk kv (by simp)] at e
        rw [e] at h; exact hh h
      have := ih (setSlotF kv.2 (some (kv.2.initform.getD nilVal)) st.1, st.2) h hk'
      rw [this]
      exact setSlotF_get?_ne _ _ hne

/-- a slot no initarg filled gets the value of its entry in the initform table -/
theorem passForms_fills (T : GClass) (hk : ∀ kv ∈ T.initForms, kv.1 = kv.2.name)
    (hnd : (T.initForms.map (·.1)).Nodup) (hcs : ∀ kv ∈ T.initForms, kv.2.classStore = false)
    (x : Name) (sd : GSlot) (st : SI) (hx : (x, sd) ∈ T.initForms) (h : st.2.has x = false) :
    (passForms T st).1.get? x = some (some (sd.initform.getD nilVal)) := by
  unfold passForms
  generalize hl : T.initForms = l at hk hnd hcs hx
  clear hl
  induction l generalizing st with
  | nil => simp at hx
  | cons kv l ih =>
    simp only [List.foldl_cons]
    have hk' : ∀ kv' ∈ l, kv'.1 = kv'.2.name := fun kv' hm => hk kv' (by simp [hm])
    have hnd' : kv.1 ∉ l.map (·.1) ∧ (l.map (·.1)).Nodup := by simpa using hnd
    have hcs' : ∀ kv' ∈ l, kv'.2.classStore = false := fun kv' hm => hcs kv' (by simp [hm])
    rcases List.mem_cons.1 hx with e | e
    · -- this entry: filled now, and the later entries have other keys
      subst e
      simp only [h, Bool.false_eq_true, if_false]
      have hname : x = sd.name := hk (x, sd) (by simp)
      have hset : (setSlotF sd (some (sd.initform.getD nilVal)) st.1).get? x = some (some (sd.initform.getD nilVal)) := by
        unfold setSlotF
        rw [hcs (x, sd) (by simp)]
        simp only [Bool.false_eq_true, if_false]
        rw [hname]; exact AList.get?_set_self _ _ _
      -- the rest of the fold does not touch x
      have hrest : ∀ (l' : AList GSlot) (st' : SI), (∀ kv' ∈ l', kv'.1 = kv'.2.name) → x ∉ l'.map (·.1) →
          (l'.foldl (fun st kv => if st.2.has kv.1 then st else
            (setSlotF kv.2 (some (kv.2.initform.getD nilVal)) st.1, st.2)) st').1.get? x = st'.1.get? x := by
        intro l'
        induction l' with
        | nil => intro _ _ _; rfl
        | cons kv' l' ih' =>
          intro st' hk'' hx'
          simp only [List.foldl_cons]
          have hx'' : x ≠ kv'.1 ∧ x ∉ l'.map (·.1) := by simpa using hx'
          rw [ih' _ (fun a hm => hk'' a (by simp [hm])) hx''.2]
          by_cases hh : st'.2.has kv'.1 = true
          · simp [hh]
          · simp only [hh, Bool.false_eq_true, if_false]
            exact setSlotF_get?_ne _ _ (by rw [← hk'' kv' (by simp)]; exact hx''.1)
      rw [hrest l _ hk' hnd'.1, hset]
    · have hxk : x ≠ kv.1 := by
        intro e'
        apply hnd'.1
        rw [← e']
        simp only [List.mem_map]
        exact ⟨(x, sd), e, rfl⟩
      by_cases hh : st.2.has kv.1 = true
      · simp only [hh, if_true]
        exact ih st h hk' hnd'.2 hcs' e
      · simp only [hh, Bool.false_eq_true, if_false]
        exact ih _ h hk' hnd'.2 hcs' e

/-- a loop that may end the function: `none` from the step function = return `r` in state `g s` -/
theorem forRange_option {α σ ρ : Type} (step : σ → α → Option σ) (r : ρ) (body : α → σ → Ctl σ ρ)
    (hb : ∀ x s, body x s = match step s x with
      | some s' => Ctl.next s'
      | none => Ctl.ret s r) :
    ∀ (xs : List α) (s : σ), (∃ s', forRange xs body s = Ctl.next s' ∧ xs.foldlM step s = some s') ∨
      ((∃ s', forRange xs body s = Ctl.ret s' r) ∧ xs.foldlM step s = none) := by
  intro xs
  induction xs with
  | nil => intro s; exact Or.inl ⟨s, rfl, rfl⟩
  | cons x xs ih =>
    intro s
    rw [forRange_cons, hb]
    cases hs : step s x with
    | none => exact Or.inr ⟨⟨s, rfl⟩, by simp [List.foldlM, hs]⟩
    | some s' =>
      simp only [List.foldlM, hs]
      rcases ih s' with ⟨s'', h1, h2⟩ | ⟨⟨s'', h1⟩, h2⟩
      · exact Or.inl ⟨s'', h1, by simpa using h2⟩
      · exact Or.inr ⟨⟨s'', h1⟩, by simpa using h2⟩

/-! ## the order of operations of DefStandardClass, at the level of the hand model

  slip: merge the new class object against the table as it is, register it, run the readiness
  loop, *then* mark the classes that inherit from it (by name) as not ready and run the loop again.
  The hand model (`defclass`) invalidates first.  Both end in the state determined by the new class
  graph; in between, the lists of the classes that have the redefined class `a` on them are stale,
  which is what `SoundEx a` allows. -/

/-- every ready class whose list does not mention `a` carries the specified list -/
def SoundEx (a : Name) (s : State) : Prop :=
  ∀ c l, inhOf s c = some l → a ∉ l → ∃ n, spec (defOf s) n c = some l

theorem sound_soundEx {a : Name} {s : State} (hs : Sound s) : SoundEx a s := fun c l h _ => hs c l h

theorem merge_soundEx {a : Name} {s : State} (hs : SoundEx a s) {c : Name} {d : ClassDef} {l : List Name}
    (hd : defOf s c = some d) (hm : Clos.mergeSupers s d = some l) (ha : a ∉ l) :
    ∃ n, spec (defOf s) n c = some l := by
  unfold Clos.mergeSupers mergeWith at hm
  cases hc : collect (inhOf s) d.supers with
  | none => simp [hc] at hm
  | some r =>
    simp only [hc, Option.map_some, Option.some.injEq] at hm
    have hc' : collect (fun x => if x ∈ d.supers then inhOf s x else none) d.supers = some r :=
      collect_mono (fun x hx lx hlx => by simp [hx, hlx]) hc
    obtain ⟨n, hn⟩ := collect_spec_of_all (D := defOf s) (f := fun x => if x ∈ d.supers then inhOf s x else none)
      (by
        intro x lx hx
        by_cases hxs : x ∈ d.supers
        · simp only [hxs, if_true] at hx
          refine hs x lx hx ?_
          intro hal
          apply ha
          rw [← hm]
          exact mem_dedup.2 (List.mem_append_right _ ((mem_collect hc).2 ⟨x, hxs, lx, hx, hal⟩))
        · simp [hxs] at hx) hc'
    refine ⟨n + 1, ?_⟩
    simp [spec, hd, mergeWith, hn, hm]

theorem tryReady_soundEx {a : Name} {s : State} (hs : SoundEx a s) (c : Name) : SoundEx a (tryReady s c) := by
  rcases tryReady_cases s c with h | ⟨e, l, hf, _, hm, h⟩
  · rw [h]; exact hs
  · rw [h]
    have e1 : defOf (setInh s c (some l)) = defOf s := funext (defOf_setInh s c _)
    intro k lk hk hak
    rw [e1]
    by_cases hkc : k = c
    · subst hkc
      rw [inhOf_setInh_self s _ hf] at hk
      injection hk with hk; subst hk
      exact merge_soundEx hs (defOf_of_find hf) hm hak
    · rw [inhOf_setInh_ne s _ hkc] at hk
      exact hs k lk hk hak

theorem foldl_tryReady_soundEx {a : Name} : ∀ (cs : List Name) {s : State}, SoundEx a s →
    SoundEx a (cs.foldl tryReady s)
  | [], _, hs => hs
  | c :: cs, _, hs => foldl_tryReady_soundEx cs (tryReady_soundEx hs c)

/-- `slip.RegisterClass`: replace the entry of that name or add one -/
def regE : State → Entry → State
  | [], e' => [e']
  | e :: s, e' => if e.name = e'.name then e' :: s else e :: regE s e'

theorem find_regE (e' : Entry) : ∀ (s : State) (k : Name),
    find (regE s e') k = if k = e'.name then some e' else find s k
  | [], k => by
    by_cases hk : k = e'.name
    · simp [regE, find, hk]
    · have : ¬ e'.name = k := fun e => hk e.symm
      simp [regE, find, hk, this]
  | e :: s, k => by
    by_cases he : e.name = e'.name
    · by_cases hk : k = e'.name
      · simp [regE, find, he, hk]
      · have h1 : ¬ e'.name = k := fun x => hk x.symm
        simp [regE, find, he, hk, h1]
    · by_cases hek : e.name = k
      · have hk : ¬ k = e'.name := by rw [← hek]; exact he
        simp [regE, find, he, hek, hk]
      · simp [regE, find, he, hek, find_regE e' s k]

theorem defOf_regE (s : State) (e' : Entry) : defOf (regE s e') = update (defOf s) e'.name e'.defn := by
  funext k
  unfold defOf update
  rw [find_regE]
  by_cases hk : k = e'.name <;> simp [hk]

theorem abs_register (g' : GClass) : ∀ (h : Heap), abs (Heap.register h g') = regE (abs h) (absEntry g')
  | [] => rfl
  | g :: h => by
    by_cases hn : g.name = g'.name
    · simp [Heap.register, abs, regE, absEntry, hn]
    · have := abs_register g' h
      simp only [abs] at this
      simp [Heap.register, abs, regE, absEntry, hn, this]

theorem allClasses_register (g' : GClass) : ∀ (h : Heap),
    (Heap.register h g').allClasses = if g'.name ∈ h.allClasses then h.allClasses else h.allClasses ++ [g'.name]
  | [] => by simp [Heap.register, Heap.allClasses]
  | g :: h => by
    by_cases hn : g.name = g'.name
    · simp [Heap.register, Heap.allClasses, hn]
    · have ih := allClasses_register g' h
      have hn' : ¬ g'.name = g.name := fun e => hn e.symm
      simp only [Heap.allClasses] at ih
      simp only [Heap.register, hn, if_false, Heap.allClasses, List.map_cons, ih, List.mem_cons, hn', false_or]
      by_cases hm : g'.name ∈ List.map (fun x => x.name) h <;> simp [hm]

theorem nodup_register {h : Heap} (hn : NodupNames h) (g' : GClass) : NodupNames (Heap.register h g') := by
  unfold NodupNames at hn ⊢
  rw [allClasses_register]
  by_cases hm : g'.name ∈ h.allClasses
  · simp [hm, hn]
  · simp only [hm, if_false]
    exact List.nodup_append.2 ⟨hn, by simp, by
      intro x hx y hy
      simp only [List.mem_singleton] at hy
      subst hy
      intro e; exact hm (e ▸ hx)⟩

theorem length_register_le (g' : GClass) : ∀ (h : Heap), (Heap.register h g').length ≤ h.length + 1
  | [] => by simp [Heap.register]
  | g :: h => by
    by_cases hn : g.name = g'.name
    · simp [Heap.register, hn]
    · have := length_register_le g' h
      simp only [Heap.register, hn, if_false, List.length_cons]
      omega

/-- the new class object, merged against the old table and then registered: sound except for the
    classes that have it on their (now stale) lists -/
theorem regE_soundEx {s : State} (hs : Sound s) (a : Name) (d : ClassDef) :
    SoundEx a (regE s { name := a, defn := d, inh := Clos.mergeSupers s d }) := by
  intro c l hc hal
  rw [defOf_regE]
  simp only []
  unfold inhOf at hc
  rw [find_regE] at hc
  by_cases hca : c = a
  · subst hca
    simp only [if_true, Option.bind_some] at hc
    -- the lists of the direct superclasses do not mention the class either
    unfold Clos.mergeSupers mergeWith at hc
    cases hcol : collect (inhOf s) d.supers with
    | none => simp [hcol] at hc
    | some r =>
      simp only [hcol, Option.map_some, Option.some.injEq] at hc
      have hcol' : collect (fun x => if x ∈ d.supers then inhOf s x else none) d.supers = some r :=
        collect_mono (fun x hx lx hlx => by simp [hx, hlx]) hcol
      obtain ⟨n, hn⟩ := collect_spec_of_all (D := update (defOf s) c d)
        (f := fun x => if x ∈ d.supers then inhOf s x else none)
        (by
          intro x lx hx
          by_cases hxs : x ∈ d.supers
          · simp only [hxs, if_true] at hx
            obtain ⟨n, hn⟩ := hs x lx hx
            have hxl : x ∈ l := by rw [← hc]; exact mem_dedup.2 (List.mem_append_left _ hxs)
            have hxc : x ≠ c := fun e => hal (e ▸ hxl)
            have hcl : c ∉ lx := by
              intro hm
              apply hal
              rw [← hc]
              exact mem_dedup.2 (List.mem_append_right _ ((mem_collect hcol).2 ⟨x, hxs, lx, hx, hm⟩))
            exact ⟨n, spec_update hn hcl hxc⟩
          · simp [hxs] at hx) hcol'
      refine ⟨n + 1, ?_⟩
      simp [spec, update, mergeWith, hn, hc]
  · simp only [hca, if_false] at hc
    obtain ⟨n, hn⟩ := hs c l hc
    exact ⟨n, spec_update hn hal hca⟩

/-- the classes that have `c` on their list, other than `c` itself, become not ready -/
def invalidateEx (s : State) (c : Name) : State :=
  s.map (fun e =>
    match e.inh with
    | some l => if e.name ≠ c ∧ c ∈ l then { e with inh := none } else e
    | none => e)

theorem find_invalidateEx (c : Name) : ∀ (s : State) (k : Name),
    find (invalidateEx s c) k = (find s k).map (fun e =>
      match e.inh with
      | some l => if e.name ≠ c ∧ c ∈ l then { e with inh := none } else e
      | none => e)
  | [], _ => rfl
  | e :: s, k => by
    have ih := find_invalidateEx c s k
    simp only [invalidateEx] at ih
    have hname : (match e.inh with
      | some l => if e.name ≠ c ∧ c ∈ l then { e with inh := none } else e
      | none => e).name = e.name := by
      cases e.inh with
      | none => rfl
      | some l => by_cases h : e.name ≠ c ∧ c ∈ l <;> simp [h]
    simp only [invalidateEx, List.map_cons, find, hname]
    by_cases hk : e.name = k
    · simp [hk]
    · simp [hk, ih]

theorem defOf_invalidateEx (s : State) (c k : Name) : defOf (invalidateEx s c) k = defOf s k := by
  unfold defOf
  rw [find_invalidateEx]
  cases find s k with
  | none => rfl
  | some e =>
    cases hi : e.inh with
    | none => simp [hi]
    | some l => by_cases h : e.name ≠ c ∧ c ∈ l <;> simp [hi, h]

theorem inhOf_invalidateEx {s : State} {c k : Name} {l : List Name} :
    inhOf (invalidateEx s c) k = some l ↔ inhOf s k = some l ∧ (k = c ∨ c ∉ l) := by
  unfold inhOf
  rw [find_invalidateEx]
  cases hf : find s k with
  | none => simp
  | some e =>
    have hn : e.name = k := find_name hf
    cases hi : e.inh with
    | none => simp [hi]
    | some l' =>
      by_cases h : e.name ≠ c ∧ c ∈ l'
      · have hif : (if e.name ≠ c ∧ c ∈ l' then ({ e with inh := none } : Entry) else e) = { e with inh := none } := if_pos h
        simp only [Option.map_some, hi, hif, Option.bind_some]
        constructor
        · intro x; cases x
        · rintro ⟨e1, e2⟩
          injection e1 with e1; subst e1
          rcases e2 with e2 | e2
          · exact absurd (hn.trans e2) h.1
          · exact absurd h.2 e2
      · have hif : (if e.name ≠ c ∧ c ∈ l' then ({ e with inh := none } : Entry) else e) = e := if_neg h
        simp only [Option.map_some, hi, hif, Option.bind_some, Option.some.injEq]
        constructor
        · intro e1; subst e1
          refine ⟨rfl, ?_⟩
          by_cases hkc : k = c
          · exact Or.inl hkc
          · right; intro hm; exact h ⟨by rw [hn]; exact hkc, hm⟩
        · rintro ⟨e1, _⟩; exact e1

/-- after the dependants of `a` are marked, everything that is still ready is sound — provided the
    class did not end up on its own list (a cyclic definition) -/
theorem invalidateEx_sound {a : Name} {s : State} (hs : SoundEx a s)
    (hself : ∀ l, inhOf s a = some l → a ∉ l) : Sound (invalidateEx s a) := by
  intro c l hc
  have e : defOf (invalidateEx s a) = defOf s := funext (defOf_invalidateEx s a)
  rw [e]
  obtain ⟨h1, h2⟩ := inhOf_invalidateEx.1 hc
  rcases h2 with h2 | h2
  · subst h2; exact hs c l h1 (hself l h1)
  · exact hs c l h1 h2

/-- a sound fixed point is determined by its definitions -/
theorem inhOf_eq_of_sound_fix {s1 s2 : State} (hd : defOf s1 = defOf s2)
    (h1 : Sound s1) (f1 : Fix s1) (h2 : Sound s2) (f2 : Fix s2) (c : Name) : inhOf s1 c = inhOf s2 c := by
  apply Option.ext
  intro l
  constructor
  · intro h
    obtain ⟨n, hn⟩ := h1 c l h
    rw [hd] at hn
    exact fix_complete h2 f2 n c l hn
  · intro h
    obtain ⟨n, hn⟩ := h2 c l h
    rw [← hd] at hn
    exact fix_complete h1 f1 n c l hn

/-! ## a new definition that is not cyclic does not put the class on its own list -/

/-- reachability in the class graph `D'` extended with the edges the class `a` had in the old graph `D`
    (while the dependants of a redefined class are stale their lists still follow the old edges) -/
inductive ReachU (D D' : Name → Option ClassDef) (a : Name) : Name → Name → Prop
  | refl (c : Name) : ReachU D D' a c c
  | step {c x k : Name} {d : ClassDef} : D' c = some d → x ∈ d.supers → ReachU D D' a x k → ReachU D D' a c k
  | old {x k : Name} {d : ClassDef} : D a = some d → x ∈ d.supers → ReachU D D' a x k → ReachU D D' a a k

/-- a path that ends in `a` can be cut at its first visit of `a`: it uses no edge out of `a` -/
theorem reach_of_reachU {D D' : Name → Option ClassDef} {a x k : Name} (h : ReachU D D' a x k) (hk : k = a) :
    Reach D' x a := by
  induction h with
  | refl c => subst hk; exact Reach.refl _
  | step hd hx _ ih => exact Reach.step hd hx (ih hk)
  | old _ _ _ _ => exact Reach.refl _

theorem reachU_of_reach {D : Name → Option ClassDef} {a : Name} {d' : ClassDef} {c k : Name}
    (h : Reach D c k) : ReachU D (update D a d') a c k := by
  induction h with
  | refl c => exact ReachU.refl _
  | @step c x k d hd hx _ ih =>
    by_cases hca : c = a
    · subst hca; exact ReachU.old hd hx ih
    · exact ReachU.step (by simp [update, hca, hd]) hx ih

/-- every element of a ready class's list is reachable from the class, and every element of the
    list of `a` is reachable from one of its *new* direct superclasses -/
def MemReach (D D' : Name → Option ClassDef) (a : Name) (d' : ClassDef) (s : State) : Prop :=
  (∀ c l, inhOf s c = some l → ∀ k ∈ l, ReachU D D' a c k) ∧
  (∀ l, inhOf s a = some l → ∀ k ∈ l, ∃ x ∈ d'.supers, ReachU D D' a x k)

/-- the elements of a merged list, from the lists it was merged from -/
theorem mem_merge {s : State} {d : ClassDef} {l : List Name} (hm : Clos.mergeSupers s d = some l) {k : Name}
    (hk : k ∈ l) : k ∈ d.supers ∨ ∃ x ∈ d.supers, ∃ lx, inhOf s x = some lx ∧ k ∈ lx := by
  unfold Clos.mergeSupers mergeWith at hm
  cases hc : collect (inhOf s) d.supers with
  | none => simp [hc] at hm
  | some r =>
    simp only [hc, Option.map_some, Option.some.injEq] at hm
    subst hm
    rcases List.mem_append.1 (mem_dedup.1 hk) with h | h
    · exact Or.inl h
    · exact Or.inr ((mem_collect hc).1 h)

theorem memReach_tryReady {D D' : Name → Option ClassDef} {a : Name} {d' : ClassDef} {s : State}
    (hD : defOf s = D') (ha : D' a = some d') (hs : MemReach D D' a d' s) (c : Name) :
    MemReach D D' a d' (tryReady s c) := by
  rcases tryReady_cases s c with h | ⟨e, l, hf, _, hm, h⟩
  · rw [h]; exact hs
  · rw [h]
    have hdc : D' c = some e.defn := by rw [← hD]; exact defOf_of_find hf
    have hmem : ∀ k ∈ l, (∃ x ∈ e.defn.supers, ReachU D D' a x k) := by
      intro k hk
      rcases mem_merge hm hk with h1 | ⟨x, hx, lx, hlx, hkx⟩
      · exact ⟨k, h1, ReachU.refl _⟩
      · exact ⟨x, hx, hs.1 x lx hlx k hkx⟩
    constructor
    · intro c' l' hc' k hk
      by_cases hcc : c' = c
      · subst hcc
        rw [inhOf_setInh_self s _ hf] at hc'
        injection hc' with hc'; subst hc'
        obtain ⟨x, hx, hr⟩ := hmem k hk
        exact ReachU.step hdc hx hr
      · rw [inhOf_setInh_ne s _ hcc] at hc'
        exact hs.1 c' l' hc' k hk
    · intro l' hl' k hk
      by_cases hac : a = c
      · subst hac
        rw [inhOf_setInh_self s _ hf] at hl'
        injection hl' with hl'; subst hl'
        have : e.defn = d' := by rw [ha] at hdc; exact (Option.some.inj hdc).symm
        rw [← this]
        exact hmem k hk
      · rw [inhOf_setInh_ne s _ hac] at hl'
        exact hs.2 l' hl' k hk

theorem memReach_foldl {D D' : Name → Option ClassDef} {a : Name} {d' : ClassDef}
    (ha : D' a = some d') : ∀ (cs : List Name) {s : State}, defOf s = D' → MemReach D D' a d' s →
    MemReach D D' a d' (cs.foldl tryReady s)
  | [], _, _, hs => hs
  | c :: cs, s, hD, hs => by
    simp only [List.foldl_cons]
    exact memReach_foldl ha cs (by rw [← hD]; exact funext (defOf_tryReady s c)) (memReach_tryReady hD ha hs c)

/-- the new class object merged against the old (sound) table and registered -/
theorem memReach_regE {s : State} (hs : Sound s) (a : Name) (d' : ClassDef) :
    MemReach (defOf s) (update (defOf s) a d') a d'
      (regE s { name := a, defn := d', inh := Clos.mergeSupers s d' }) := by
  have hold : ∀ c l, inhOf s c = some l → ∀ k ∈ l, ReachU (defOf s) (update (defOf s) a d') a c k := by
    intro c l hc k hk
    obtain ⟨n, hn⟩ := hs c l hc
    exact reachU_of_reach (reach_of_mem_spec hn (List.mem_cons_of_mem _ hk))
  have hnew : ∀ l, Clos.mergeSupers s d' = some l → ∀ k ∈ l,
      ∃ x ∈ d'.supers, ReachU (defOf s) (update (defOf s) a d') a x k := by
    intro l hm k hk
    rcases mem_merge hm hk with h1 | ⟨x, hx, lx, hlx, hkx⟩
    · exact ⟨k, h1, ReachU.refl _⟩
    · exact ⟨x, hx, hold x lx hlx k hkx⟩
  have hinh : ∀ c, inhOf (regE s { name := a, defn := d', inh := Clos.mergeSupers s d' }) c =
      if c = a then Clos.mergeSupers s d' else inhOf s c := by
    intro c
    unfold inhOf
    rw [find_regE]
    by_cases hca : c = a <;> simp [hca]
  constructor
  · intro c l hc k hk
    rw [hinh] at hc
    by_cases hca : c = a
    · subst hca
      simp only [if_true] at hc
      obtain ⟨x, hx, hr⟩ := hnew l hc k hk
      exact ReachU.step (by simp [update]) hx hr
    · simp only [hca, if_false] at hc
      exact hold c l hc k hk
  · intro l hl k hk
    rw [hinh] at hl
    simp only [if_true] at hl
    exact hnew l hl k hk

/-- a new definition whose direct superclasses do not reach the class in the new graph does not
    put the class on its own list -/
theorem not_self_of_acyclic {D D' : Name → Option ClassDef} {a : Name} {d' : ClassDef} {s : State}
    (hs : MemReach D D' a d' s) (hac : ∀ x ∈ d'.supers, ¬ Reach D' x a) :
    ∀ l, inhOf s a = some l → a ∉ l := by
  intro l hl hal
  obtain ⟨x, hx, hr⟩ := hs.2 l hl a hal
  exact hac x hx (reach_of_reachU hr rfl)

/-- the order of operations of DefStandardClass at the level of the hand model, from a sound state:
    the result is sound again and has the new definition in force — when the new definition is not
    cyclic (its direct superclasses do not reach the class in the new graph) -/
theorem goOrder_sound {s0 : State} (hs : Sound s0) (a : Name) (d : ClassDef) (cs cs' : List Name)
    (hac : ∀ x ∈ d.supers, ¬ Reach (update (defOf s0) a d) x a) :
    Sound (cs'.foldl tryReady (invalidateEx (cs.foldl tryReady
      (regE s0 { name := a, defn := d, inh := Clos.mergeSupers s0 d })) a)) ∧
    defOf (cs'.foldl tryReady (invalidateEx (cs.foldl tryReady
      (regE s0 { name := a, defn := d, inh := Clos.mergeSupers s0 d })) a)) = update (defOf s0) a d := by
  have hd1 : defOf (regE s0 { name := a, defn := d, inh := Clos.mergeSupers s0 d }) = update (defOf s0) a d :=
    defOf_regE s0 _
  have hd2 : defOf (cs.foldl tryReady (regE s0 { name := a, defn := d, inh := Clos.mergeSupers s0 d }))
      = update (defOf s0) a d := by
    rw [← hd1]; exact funext (foldl_tryReady_defOf cs _)
  have hsx : SoundEx a (cs.foldl tryReady (regE s0 { name := a, defn := d, inh := Clos.mergeSupers s0 d })) :=
    foldl_tryReady_soundEx cs (regE_soundEx hs a d)
  have hmr := memReach_foldl (D := defOf s0) (D' := update (defOf s0) a d) (a := a) (d' := d)
    (by simp [update]) cs hd1 (memReach_regE hs a d)
  have hself := not_self_of_acyclic hmr hac
  refine ⟨foldl_tryReady_sound cs' (invalidateEx_sound hsx hself), ?_⟩
  funext k
  rw [foldl_tryReady_defOf, defOf_invalidateEx, hd2]

end SlipVerif.ClosGo
