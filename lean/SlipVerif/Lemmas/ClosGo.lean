import SlipVerif.Model.ClosGo
import SlipVerif.Lemmas.Clos
/-
  C12 — facts about the control combinators and the data representation of Model/ClosGo.lean that
  do not depend on the generated code (Gen/ClosCode.lean).  Core Lean only.
-/
namespace SlipVerif.ClosGo
open SlipVerif.Clos

/-! ## loops -/

@[simp] theorem forRange_nil {α σ ρ : Type} (body : α → σ → Ctl σ ρ) (s : σ) :
    forRange [] body s = Ctl.next s := rfl

theorem forRange_cons {α σ ρ : Type} (x : α) (xs : List α) (body : α → σ → Ctl σ ρ) (s : σ) :
    forRange (x :: xs) body s =
      match body x s with
      | .next s' => forRange xs body s'
      | .cont s' => forRange xs body s'
      | .brk s' => Ctl.next s'
      | .ret s' r => Ctl.ret s' r := rfl

/-- a loop whose body always falls through or continues is a fold -/
theorem forRange_fold {α σ ρ : Type} (f : σ → α → σ) (body : α → σ → Ctl σ ρ)
    (hb : ∀ x s, body x s = Ctl.next (f s x) ∨ body x s = Ctl.cont (f s x)) :
    ∀ (xs : List α) (s : σ), forRange xs body s = Ctl.next (xs.foldl f s) := by
  intro xs
  induction xs with
  | nil => intro s; rfl
  | cons x xs ih =>
    intro s
    rw [forRange_cons]
    rcases hb x s with h | h <;> simp [h, ih]

/-- a loop that returns `r` in state `g s` at the first element satisfying `bad` and otherwise
    folds `f`, when `g` does not see what `f` changes -/
theorem forRange_guard {α σ ρ : Type} (bad : α → Bool) (f : σ → α → σ) (g : σ → σ) (r : ρ)
    (body : α → σ → Ctl σ ρ)
    (hbad : ∀ x s, bad x = true → body x s = Ctl.ret (g s) r)
    (hok : ∀ x s, bad x = false → body x s = Ctl.next (f s x) ∨ body x s = Ctl.cont (f s x))
    (hg : ∀ s x, g (f s x) = g s) :
    ∀ (xs : List α) (s : σ), forRange xs body s =
      if xs.all (fun x => !bad x) then Ctl.next (xs.foldl f s) else Ctl.ret (g s) r := by
  intro xs
  induction xs with
  | nil => intro s; rfl
  | cons x xs ih =>
    intro s
    rw [forRange_cons]
    by_cases hx : bad x = true
    · simp [hbad x s hx, hx]
    · have hx' : bad x = false := by simpa using hx
      simp only [hx', List.all_cons, Bool.not_false, Bool.true_and, List.foldl_cons]
      rcases hok x s hx' with h | h <;> simp only [h] <;> rw [ih, hg]

/-! ## association lists -/

theorem AList.get?_set_self {β : Type} (x : Name) (v : β) : ∀ (m : AList β), (m.set x v).get? x = some v
  | [] => by simp [AList.set, AList.get?]
  | (k, w) :: r => by
    by_cases h : k = x
    · simp [AList.set, AList.get?, h]
    · simp [AList.set, AList.get?, h, AList.get?_set_self x v r]

theorem AList.get?_set_ne {β : Type} {x y : Name} (v : β) (h : y ≠ x) :
    ∀ (m : AList β), (m.set x v).get? y = m.get? y
  | [] => by
    have : ¬ x = y := fun e => h e.symm
    simp [AList.set, AList.get?, this]
  | (k, w) :: r => by
    by_cases hk : k = x
    · subst hk
      have : ¬ k = y := fun e => h e.symm
      simp [AList.set, AList.get?, this]
    · by_cases hy : k = y
      · subst hy
        simp [AList.set, AList.get?, h]
      · simp [AList.set, AList.get?, hk, hy, AList.get?_set_ne v h r]

/-! ## the heap -/

theorem Heap.get?_name : ∀ {h : Heap} {c : Name} {g : GClass}, h.get? c = some g → g.name = c
  | [], _, _, hf => by simp [Heap.get?] at hf
  | g0 :: h, c, g, hf => by
    by_cases hn : g0.name = c
    · simp [Heap.get?, hn] at hf; subst hf; exact hn
    · simp [Heap.get?, hn] at hf; exact Heap.get?_name hf

theorem Heap.get?_mem : ∀ {h : Heap} {c : Name} {g : GClass}, h.get? c = some g → g ∈ h
  | [], _, _, hf => by simp [Heap.get?] at hf
  | g0 :: h, c, g, hf => by
    by_cases hn : g0.name = c
    · simp [Heap.get?, hn] at hf; subst hf; simp
    · simp [Heap.get?, hn] at hf; exact List.mem_cons_of_mem _ (Heap.get?_mem hf)

/-! ## what mergeSupers computes (specification functions used by Theorems/GenC12.lean) -/

/-- the class named `x` is registered and merged (`ssc != nil && len(ssc.precedence) != 0`) -/
def readyIn (H : Heap) (x : Name) : Bool := !(H.isNil x || (H.precOf x).length == 0)

/-- the inheritance list: direct superclasses in the order written followed by theirs, first
    occurrence kept -/
def mergedInherit (H : Heap) (supers : List Name) : List Name :=
  dedup (supers ++ supers.flatMap H.inheritOf)

/-- one slot definition offered to the initform table: a definition with an initform replaces what
    is there -/
def setIF (m : AList GSlot) (sd : GSlot) : AList GSlot :=
  if sd.initform != none then m.set sd.name sd else m

/-- the initform table: inherited classes from the least specific to the most specific, then the
    class's own slots; later entries replace earlier ones -/
def initFormsOf (H : Heap) (own : AList GSlot) (inh : List Name) : AList GSlot :=
  own.foldl (fun m kv => setIF m kv.2)
    (inh.reverse.foldl (fun m k => (H.slotDefsOf k).foldl (fun m kv => setIF m kv.2) m) [])

/-- the precedence list: the class, its inheritance list, the base class unless it is already last, t -/
def precedenceOf (g : GClass) (inh : List Name) : List Sym :=
  let p := [Sym.cls g.name] ++ inh.map Sym.cls
  (if decide (0 < g.baseClass.toList.length) && (p.getLast? != g.baseClass) then p ++ g.baseClass.toList else p)
    ++ [Sym.t]

theorem precedenceOf_standard (g : GClass) (inh : List Name) (hb : g.baseClass = some Sym.standardObject) :
    precedenceOf g inh = Sym.cls g.name :: inh.map Sym.cls ++ [Sym.standardObject, Sym.t] := by
  unfold precedenceOf
  have hl : (Sym.cls g.name :: inh.map Sym.cls).getLast? ≠ some Sym.standardObject := by
    intro h
    have hm := List.mem_of_getLast? h
    simp at hm
  simp [hb, hl]

theorem precedenceOf_ne_nil (g : GClass) (inh : List Name) : precedenceOf g inh ≠ [] := by
  unfold precedenceOf
  simp

/-- appending the new elements of `l`, as a state fold -/
theorem foldl_appendNew (g : GClass) : ∀ (xs : List Name) (s : GClass),
    xs.foldl (fun s x => if x ∈ s.inherit then s else { s with inherit := s.inherit ++ [x] }) s
      = { s with inherit := appendNew s.inherit xs }
  | [], s => by simp [appendNew]
  | x :: xs, s => by
    simp only [List.foldl_cons]
    rw [foldl_appendNew g xs]
    by_cases h : x ∈ s.inherit <;> simp [appendNew, h]

theorem appendNew_append (acc a b : List Name) : appendNew acc (a ++ b) = appendNew (appendNew acc a) b := by
  simp [appendNew, List.foldl_append]

/-- elements already on the accumulator are skipped -/
theorem appendNew_filter (acc l : List Name) :
    appendNew acc (l.filter (fun y => !(acc.contains y))) = appendNew acc l := by
  rw [appendNew_eq, appendNew_eq, List.filter_filter]
  simp

theorem mem_appendNew {acc l : List Name} {x : Name} : x ∈ appendNew acc l ↔ x ∈ acc ∨ x ∈ l := by
  rw [appendNew_eq]
  simp only [List.mem_append, mem_dedup, List.mem_filter]
  constructor
  · rintro (h | ⟨h, _⟩)
    · exact Or.inl h
    · exact Or.inr h
  · rintro (h | h)
    · exact Or.inl h
    · by_cases ha : x ∈ acc
      · exact Or.inl ha
      · exact Or.inr ⟨h, by simpa using ha⟩

/-- two candidate lists with the same elements not yet on the accumulator, in the same order of
    first occurrence, give the same result: here, dropping a block of elements that are all on the
    accumulator already -/
theorem appendNew_skip (acc u v w : List Name) (hv : ∀ x ∈ v, x ∈ acc) :
    appendNew acc (u ++ v ++ w) = appendNew acc (u ++ w) := by
  rw [List.append_assoc, appendNew_append, appendNew_append, appendNew_append]
  congr 1
  have hsub : ∀ x ∈ v, x ∈ appendNew acc u := fun x hx => mem_appendNew.2 (Or.inl (hv x hx))
  generalize appendNew acc u = a at hsub
  clear hv
  induction v generalizing a with
  | nil => simp [appendNew]
  | cons x xs ih =>
    have hx : x ∈ a := hsub x (by simp)
    simp only [appendNew, List.foldl_cons, hx, if_true]
    exact ih a (fun y hy => hsub y (by simp [hy]))

/-- the expansion loop of mergeSupers walks the lists of the *deduplicated* direct superclasses;
    that is the same as walking the lists of all of them -/
theorem appendNew_flatMap_dedup (f : Name → List Name) : ∀ (l acc : List Name),
    appendNew acc ((dedup l).flatMap f) = appendNew acc (l.flatMap f)
  | [], acc => by simp [dedup]
  | x :: xs, acc => by
    simp only [dedup, List.flatMap_cons]
    rw [appendNew_append, appendNew_append]
    -- after the block of x every element of f x is on the accumulator
    have hfx : ∀ y ∈ f x, y ∈ appendNew acc (f x) := fun y hy => mem_appendNew.2 (Or.inr hy)
    generalize appendNew acc (f x) = a at hfx
    -- removing the later copies of x from the (deduplicated) rest removes only blocks f x
    have hdrop : ∀ (l : List Name), appendNew a ((l.filter (fun y => y ≠ x)).flatMap f) = appendNew a (l.flatMap f) := by
      intro l
      induction l generalizing a with
      | nil => simp
      | cons z zs ih =>
        by_cases hz : z = x
        · subst hz
          simp only [ne_eq, not_true_eq_false, decide_false, List.filter_cons, Bool.false_eq_true,
            if_false, List.flatMap_cons]
          have := appendNew_skip a [] (f z) (zs.flatMap f) hfx
          simp only [List.nil_append] at this
          rw [this]
          exact ih a hfx
        · simp only [ne_eq, hz, not_false_eq_true, decide_true, List.filter_cons, if_true,
            List.flatMap_cons]
          rw [appendNew_append, appendNew_append]
          exact ih _ (fun y hy => mem_appendNew.2 (Or.inl (hfx y hy)))
    rw [hdrop (dedup xs)]
    exact appendNew_flatMap_dedup f xs a

theorem mergedInherit_eq (H : Heap) (supers : List Name) :
    appendNew (appendNew [] supers) ((appendNew [] supers).flatMap H.inheritOf) = mergedInherit H supers := by
  unfold mergedInherit
  rw [dedup_eq_appendNew (supers ++ _), appendNew_append, ← dedup_eq_appendNew supers]
  exact appendNew_flatMap_dedup H.inheritOf supers (dedup supers)

end SlipVerif.ClosGo
