import SlipVerif.Lemmas.LambdaImpl
/- C04 — the code-level machine on the documented list of a structured lambda list (`docOf ll`):
   closed forms of both passes. -/
namespace SlipVerif.Lemmas.LambdaImpl
open SlipVerif.Lambda SlipVerif.LambdaCode SlipVerif.LambdaImpl
open SlipVerif.Gen

/-! ### positional binding -/

theorem bindPos_rest (args : List Obj) (ps : List DocArg) (st : St) :
    (bindPos args ps st).rest = st.rest ∧ (bindPos args ps st).restSym = st.restSym := by
  induction ps generalizing st with
  | nil => exact ⟨rfl, rfl⟩
  | cons p ps ih =>
    simp only [bindPos]
    cases args[st.ai]? with
    | none => exact ⟨rfl, rfl⟩
    | some a => exact ih _

theorem bindPos_ai (args : List Obj) (ps : List DocArg) (st : St) (h : st.ai ≤ args.length) :
    (bindPos args ps st).ai = min (st.ai + ps.length) args.length := by
  induction ps generalizing st with
  | nil => simp [bindPos]; omega
  | cons p ps ih =>
    simp only [bindPos]
    by_cases hlt : st.ai < args.length
    · rw [List.getElem?_eq_getElem hlt]
      simp only
      rw [ih _ (by simp only; omega)]
      simp only [List.length_cons]; omega
    · rw [List.getElem?_eq_none (by omega)]
      simp only [List.length_cons]; omega

theorem bindPos_other (args : List Obj) (ps : List DocArg) (st : St) (x : String) (h : ∀ p ∈ ps, p.name ≠ x) :
    getVar (bindPos args ps st).vars x = getVar st.vars x := by
  induction ps generalizing st with
  | nil => rfl
  | cons p ps ih =>
    simp only [bindPos]
    cases args[st.ai]? with
    | none => rfl
    | some a =>
      simp only
      rw [ih _ (fun q hq => h q (by simp [hq]))]
      simp [h p (by simp)]

theorem bindPos_mem (args : List Obj) (ps : List DocArg) (st : St) (hnd : (ps.map (·.name)).Nodup)
    (i : Nat) (hi : i < ps.length) (hlt : st.ai + i < args.length) :
    getVar (bindPos args ps st).vars ps[i].name = some args[st.ai + i] := by
  induction ps generalizing st i with
  | nil => simp at hi
  | cons p ps ih =>
    simp only [List.map_cons, List.nodup_cons] at hnd
    have h0 : st.ai < args.length := by omega
    simp only [bindPos, List.getElem?_eq_getElem h0]
    cases i with
    | zero =>
      simp only [List.getElem_cons_zero, Nat.add_zero]
      rw [bindPos_other _ _ _ _ (fun q hq e => hnd.1 (List.mem_map.mpr ⟨q, hq, e⟩))]
      simp
    | succ i =>
      simp only [List.getElem_cons_succ]
      have := ih { st with vars := letVar st.vars p.name args[st.ai], ai := st.ai + 1 } hnd.2 i
        (by simpa using hi) (by simp only; omega)
      simp only at this
      rw [this]
      congr 1
      have : st.ai + 1 + i = st.ai + (i + 1) := by omega
      simp [this]

theorem bindPos_unbound (args : List Obj) (ps : List DocArg) (st : St) (hnd : (ps.map (·.name)).Nodup)
    (i : Nat) (hi : i < ps.length) (hge : args.length ≤ st.ai + i) :
    getVar (bindPos args ps st).vars ps[i].name = getVar st.vars ps[i].name := by
  induction ps generalizing st i with
  | nil => simp at hi
  | cons p ps ih =>
    simp only [List.map_cons, List.nodup_cons] at hnd
    simp only [bindPos]
    by_cases h0 : st.ai < args.length
    · rw [List.getElem?_eq_getElem h0]
      simp only
      cases i with
      | zero => omega
      | succ i =>
        have hi' : i < ps.length := by simpa using hi
        simp only [List.getElem_cons_succ]
        rw [ih _ hnd.2 i hi' (by simp only; omega)]
        have : p.name ≠ ps[i].name := fun e => hnd.1 (List.mem_map.mpr ⟨ps[i], List.getElem_mem _, e.symm⟩)
        simp [this]
    · rw [List.getElem?_eq_none (by omega)]

/-! ### the documented list of a lambda list -/

def dAux (ll : LL) : List DocArg := if ll.aux = [] then [] else mk "&aux" :: ll.aux.map pd
def dAok (ll : LL) : List DocArg := if ll.aok then [mk "&allow-other-keys"] else []
def dKey (ll : LL) : List DocArg :=
  (if ll.hasKey then mk "&key" :: (ll.keys.map pd ++ dAok ll) else []) ++ dAux ll
def dRest (ll : LL) : List DocArg :=
  (match ll.rest with | some r => [mk "&rest", mk r] | none => []) ++ dKey ll
def dOpt (ll : LL) : List DocArg := if ll.opt = [] then [] else mk "&optional" :: ll.opt.map pd
/-- `FuncDoc.Args` of a lambda list: what DefLambda stores for its written form -/
def docOf (ll : LL) : List DocArg := ll.req.map mk ++ (dOpt ll ++ dRest ll)

def restD (ll : LL) : List DocArg := match ll.rest with | some r => [mk r] | none => []
def keysD (ll : LL) : List DocArg := if ll.hasKey then ll.keys.map pd ++ dAok ll else []

def allNames (ll : LL) : List String :=
  ll.req ++ ll.opt.map (·.name) ++ (match ll.rest with | some r => [r] | none => []) ++ ll.keys.map (·.name)
    ++ ll.aux.map (·.name)

/-- the lambda lists the refinement theorems are about -/
structure Good (ll : LL) : Prop where
  req : ∀ n ∈ ll.req, Plain n
  opt : ∀ p ∈ ll.opt, Plain p.name
  rest : ∀ r, ll.rest = some r → Plain r
  keys : ∀ p ∈ ll.keys, Plain p.name
  aux : ∀ p ∈ ll.aux, Plain p.name
  nodup : (allNames ll).Nodup
  nokey : ll.hasKey = false → ll.keys = [] ∧ ll.aok = false
  keyNonEmpty : ll.hasKey = true → ll.keys ≠ [] ∨ ll.aok = true
  auxConst : ∀ p ∈ ll.aux, isForm p.default = false

theorem applyDefaults_append (a b : List DocArg) (vs : Vars) :
    applyDefaults (a ++ b) vs = applyDefaults b (applyDefaults a vs) := by
  induction a generalizing vs with
  | nil => rfl
  | cons p a ih => simp only [List.cons_append, applyDefaults, ih]

theorem plain_mk (ns : List String) (h : ∀ n ∈ ns, Plain n) : ∀ p ∈ ns.map mk, Plain p.name := by
  intro p hp
  obtain ⟨n, hn, rfl⟩ := List.mem_map.mp hp
  exact h n hn

theorem plain_pd (ps : List Param) (h : ∀ p ∈ ps, Plain p.name) : ∀ q ∈ ps.map pd, Plain q.name := by
  intro q hq
  obtain ⟨p, hp, rfl⟩ := List.mem_map.mp hq
  exact h p hp

/-! ### second pass on `docOf` -/

theorem pass2_dAux (ll : LL) (g : Good ll) (m : Nat) (hm : m = 0 ∨ m = 1 ∨ m = 2 ∨ m = 3) (vs : Vars) :
    pass2 (dAux ll) m vs = .ok (applyAux (ll.aux.map pd) vs) := by
  unfold dAux
  by_cases h : ll.aux = []
  · simp [h, pass2, applyAux]
  · simp only [h, if_false]
    rw [pass2_setMode "&aux" m 4 _ _ (la2_auxMarker m hm)]
    apply pass2_aux
    intro q hq
    obtain ⟨p, hp, rfl⟩ := List.mem_map.mp hq
    exact g.auxConst p hp

theorem pass2_dKey (ll : LL) (g : Good ll) (m : Nat) (hm : m = 0 ∨ m = 1 ∨ m = 2) (vs : Vars) :
    pass2 (dKey ll) m vs = .ok (applyAux (ll.aux.map pd) (applyDefaults (keysD ll) vs)) := by
  unfold dKey keysD
  cases hk : ll.hasKey with
  | false =>
    simp only [Bool.false_eq_true, if_false, List.nil_append, applyDefaults]
    exact pass2_dAux ll g m (by omega) vs
  | true =>
    simp only [if_true, List.cons_append, List.append_assoc]
    rw [pass2_setMode "&key" m 3 _ _ (la2_keyMarker m hm),
      pass2_defaults _ (plain_pd _ g.keys) _ 3 (by simp), applyDefaults_append]
    unfold dAok
    cases ha : ll.aok with
    | false =>
      simp only [Bool.false_eq_true, if_false, List.nil_append, applyDefaults]
      exact pass2_dAux ll g 3 (by simp) _
    | true =>
      simp only [if_true, List.cons_append, List.nil_append]
      rw [pass2_aok]
      exact pass2_dAux ll g 3 (by simp) _

theorem pass2_dRest (ll : LL) (g : Good ll) (m : Nat) (hm : m = 0 ∨ m = 1) (vs : Vars) :
    pass2 (dRest ll) m vs =
      .ok (applyAux (ll.aux.map pd) (applyDefaults (restD ll ++ keysD ll) vs)) := by
  unfold dRest restD
  cases hr : ll.rest with
  | none =>
    simp only [List.nil_append]
    exact pass2_dKey ll g m (by omega) vs
  | some r =>
    simp only [List.cons_append, List.nil_append]
    rw [pass2_setMode "&rest" m 2 _ _ (la2_restMarker m hm)]
    have := pass2_defaults [mk r] (by intro p hp; simp at hp; subst hp; exact g.rest r hr) (dKey ll) 2 (by simp) vs
    simp only [List.cons_append, List.nil_append] at this
    rw [this, pass2_dKey ll g 2 (by simp)]
    rfl

theorem pass2_docOf (ll : LL) (g : Good ll) (vs : Vars) :
    pass2 (docOf ll) 0 vs =
      .ok (applyAux (ll.aux.map pd) (applyDefaults (ll.opt.map pd ++ (restD ll ++ keysD ll)) vs)) := by
  unfold docOf
  rw [pass2_skipReq _ (plain_mk _ g.req)]
  unfold dOpt
  by_cases ho : ll.opt = []
  · simp only [ho, if_true, List.nil_append, List.map_nil]
    exact pass2_dRest ll g 0 (by simp) vs
  · simp only [ho, if_false, List.cons_append]
    rw [pass2_setMode "&optional" 0 1 _ _ la2_optional, pass2_defaults _ (plain_pd _ g.opt) _ 1 (by simp),
      pass2_dRest ll g 1 (by simp), applyDefaults_append, applyDefaults_append, applyDefaults_append]


/-! ### the translated helper functions on `docOf` -/

theorem marker_amp :
    (decide (0 < "&optional".length) && (byteAt "&optional" 0 == '&')) = true ∧
    (decide (0 < "&rest".length) && (byteAt "&rest" 0 == '&')) = true ∧
    (decide (0 < "&key".length) && (byteAt "&key" 0 == '&')) = true ∧
    (decide (0 < "&aux".length) && (byteAt "&aux" 0 == '&')) = true := by decide

theorem requiredCount_docOf (ll : LL) (g : Good ll) : LambdaCall.requiredCount (docOf ll) = ll.req.length := by
  unfold LambdaCall.requiredCount docOf
  rw [requiredCount_loop_plain _ (plain_mk _ g.req)]
  simp only [List.length_map, Nat.zero_add]
  unfold dOpt
  by_cases ho : ll.opt = []
  · simp only [ho, if_true, List.nil_append]
    unfold dRest
    cases hr : ll.rest with
    | some r => simp only [List.cons_append, LambdaCall.requiredCount_loop, mk, marker_amp.2.1, if_true]
    | none =>
      simp only [List.nil_append]
      unfold dKey
      cases hk : ll.hasKey with
      | true => simp only [if_true, List.cons_append, LambdaCall.requiredCount_loop, mk, marker_amp.2.2.1]
      | false =>
        simp only [Bool.false_eq_true, if_false, List.nil_append]
        unfold dAux
        by_cases ha : ll.aux = []
        · simp [ha, LambdaCall.requiredCount_loop]
        · simp only [ha, if_false, LambdaCall.requiredCount_loop, mk, marker_amp.2.2.2, if_true]
  · simp only [ho, if_false, List.cons_append, LambdaCall.requiredCount_loop, mk, marker_amp.1, if_true]

theorem marker_fold :
    (eqFold "&optional" "&key" = false ∧ eqFold "&optional" "&aux" = false) ∧
    (eqFold "&rest" "&key" = false ∧ eqFold "&rest" "&aux" = false) ∧
    (eqFold "&allow-other-keys" "&key" = false ∧ eqFold "&allow-other-keys" "&aux" = false) ∧
    eqFold "&key" "&key" = true ∧ eqFold "&aux" "&key" = false ∧ eqFold "&aux" "&aux" = true := by decide

/-- the part of `docOf` in front of the `&key` section -/
def preKey (ll : LL) : List DocArg :=
  ll.req.map mk ++ (dOpt ll ++ (match ll.rest with | some r => [mk "&rest", mk r] | none => []))

theorem docOf_split (ll : LL) : docOf ll = preKey ll ++ dKey ll := by
  unfold docOf preKey dRest
  simp [List.append_assoc]

theorem preKey_fold (ll : LL) (g : Good ll) :
    ∀ p ∈ preKey ll, eqFold p.name "&key" = false ∧ eqFold p.name "&aux" = false := by
  intro p hp
  unfold preKey dOpt at hp
  simp only [List.mem_append, List.mem_map] at hp
  rcases hp with ⟨n, hn, rfl⟩ | hp | hp
  · exact eqFold_plain_key n (g.req n hn)
  · by_cases ho : ll.opt = []
    · simp [ho] at hp
    · simp only [ho, if_false, List.mem_cons, List.mem_map] at hp
      rcases hp with rfl | ⟨q, hq, rfl⟩
      · exact marker_fold.1
      · exact eqFold_plain_key q.name (g.opt q hq)
  · cases hr : ll.rest with
    | none => simp [hr] at hp
    | some r =>
      simp only [hr, List.mem_cons, List.not_mem_nil, or_false] at hp
      rcases hp with rfl | rfl
      · exact marker_fold.2.1
      · exact eqFold_plain_key r (g.rest r hr)

theorem aux_fold (ll : LL) (g : Good ll) : ∀ p ∈ ll.aux.map pd, eqFold p.name "&key" = false := by
  intro p hp
  obtain ⟨q, hq, rfl⟩ := List.mem_map.mp hp
  exact (eqFold_plain_key q.name (g.aux q hq)).1

theorem isKeyParam_loop_dAux (ll : LL) (g : Good ll) (x : String) (b : Bool) :
    LambdaCall.isKeyParam_loop x (dAux ll) b = false := by
  unfold dAux
  by_cases ha : ll.aux = []
  · simp [ha, LambdaCall.isKeyParam_loop]
  · simp only [ha, if_false, LambdaCall.isKeyParam_loop, mk, marker_fold.2.2.2.2.1, marker_fold.2.2.2.2.2,
      Bool.false_eq_true, if_false, if_true]
    exact isKeyParam_loop_noKey x _ (aux_fold ll g)

/-- **isKeyParam on a documented list** — for a parameter-like name the translated `isKeyParam`
    says exactly `knownKey` of the structured lambda list -/
theorem isKeyParam_docOf (ll : LL) (g : Good ll) (x : String) (hx : Plain x) :
    LambdaCall.isKeyParam (docOf ll) x = knownKey ll x := by
  unfold LambdaCall.isKeyParam
  rw [docOf_split, isKeyParam_loop_skip x _ (preKey_fold ll g)]
  unfold dKey
  cases hk : ll.hasKey with
  | false =>
    simp only [Bool.false_eq_true, if_false, List.nil_append, isKeyParam_loop_dAux ll g]
    simp [knownKey, (g.nokey hk).1]
  | true =>
    simp only [if_true, List.cons_append, LambdaCall.isKeyParam_loop, mk, marker_fold.2.2.2.1, if_true]
    have hfold : ∀ p ∈ ll.keys.map pd ++ dAok ll, eqFold p.name "&key" = false ∧ eqFold p.name "&aux" = false := by
      intro p hp
      rcases List.mem_append.mp hp with hp | hp
      · obtain ⟨q, hq, rfl⟩ := List.mem_map.mp hp
        exact eqFold_plain_key q.name (g.keys q hq)
      · unfold dAok at hp
        cases ha : ll.aok <;> simp [ha] at hp
        subst hp
        exact marker_fold.2.2.1
    rw [isKeyParam_loop_inKeys x _ hfold, isKeyParam_loop_dAux ll g, Bool.or_false, List.any_append]
    have haok : (dAok ll).any (fun p => eqFold p.name x) = false := by
      unfold dAok
      cases ha : ll.aok
      · simp
      · simp only [if_true, List.any_cons, List.any_nil, Bool.or_false, mk]
        rw [eqFold_plain _ _ (by decide) hx.2]
        have := (plain_ne x hx).2.2.2.2.2
        simpa using fun e => this e.symm
    rw [haok, Bool.or_false]
    unfold knownKey
    have : ∀ ps : List Param, (∀ p ∈ ps, Plain p.name) →
        (ps.map pd).any (fun p => eqFold p.name x) = ps.any (fun p => decide (p.name = x)) := by
      intro ps h
      induction ps with
      | nil => rfl
      | cons p ps ih =>
        simp only [List.map_cons, List.any_cons, pd]
        rw [ih (fun q hq => h q (by simp [hq])), eqFold_plain _ _ (h p (by simp)).2 hx.2]
        by_cases e : p.name = x <;> simp [e]
    exact this ll.keys g.keys


/-! ### names are pairwise distinct -/

structure Distinct (ll : LL) : Prop where
  req : ll.req.Nodup
  opt : (ll.opt.map (·.name)).Nodup
  keys : (ll.keys.map (·.name)).Nodup
  aux : (ll.aux.map (·.name)).Nodup
  req_opt : ∀ a ∈ ll.req, ∀ p ∈ ll.opt, a ≠ p.name
  req_rest : ∀ a ∈ ll.req, ll.rest ≠ some a
  req_keys : ∀ a ∈ ll.req, ∀ p ∈ ll.keys, a ≠ p.name
  req_aux : ∀ a ∈ ll.req, ∀ p ∈ ll.aux, a ≠ p.name
  opt_rest : ∀ p ∈ ll.opt, ll.rest ≠ some p.name
  opt_keys : ∀ p ∈ ll.opt, ∀ q ∈ ll.keys, p.name ≠ q.name
  opt_aux : ∀ p ∈ ll.opt, ∀ q ∈ ll.aux, p.name ≠ q.name
  rest_keys : ∀ p ∈ ll.keys, ll.rest ≠ some p.name
  rest_aux : ∀ p ∈ ll.aux, ll.rest ≠ some p.name
  keys_aux : ∀ p ∈ ll.keys, ∀ q ∈ ll.aux, p.name ≠ q.name

theorem distinct_of_nodup (ll : LL) (h : (allNames ll).Nodup) : Distinct ll := by
  unfold allNames at h
  simp only [List.nodup_append, List.mem_append, List.mem_map] at h
  obtain ⟨⟨⟨⟨h1, h2, h12⟩, h3, h123⟩, h4, h1234⟩, h5, h12345⟩ := h
  constructor
  · exact h1
  · exact h2
  · exact h4
  · exact h5
  · intro a ha p hp; exact h12 a ha p.name ⟨p, hp, rfl⟩
  · intro a ha e; exact h123 a (Or.inl ha) a (by simp [e]) rfl
  · intro a ha p hp; exact h1234 a (Or.inl (Or.inl ha)) p.name ⟨p, hp, rfl⟩
  · intro a ha p hp; exact h12345 a (Or.inl (Or.inl (Or.inl ha))) p.name ⟨p, hp, rfl⟩
  · intro p hp e; exact h123 p.name (Or.inr ⟨p, hp, rfl⟩) p.name (by simp [e]) rfl
  · intro p hp q hq; exact h1234 p.name (Or.inl (Or.inr ⟨p, hp, rfl⟩)) q.name ⟨q, hq, rfl⟩
  · intro p hp q hq; exact h12345 p.name (Or.inl (Or.inl (Or.inr ⟨p, hp, rfl⟩))) q.name ⟨q, hq, rfl⟩
  · intro p hp e; exact h1234 p.name (Or.inr (by simp [e])) p.name ⟨p, hp, rfl⟩ rfl
  · intro p hp e; exact h12345 p.name (Or.inl (Or.inr (by simp [e]))) p.name ⟨p, hp, rfl⟩ rfl
  · intro p hp q hq; exact h12345 p.name (Or.inr ⟨p, hp, rfl⟩) q.name ⟨q, hq, rfl⟩

theorem map_name_pd (ps : List Param) : (ps.map pd).map (·.name) = ps.map (·.name) := by
  induction ps with
  | nil => rfl
  | cons p ps ih => simp [pd, ih]

theorem map_name_mk (ns : List String) : (ns.map mk).map (·.name) = ns := by
  induction ns with
  | nil => rfl
  | cons n ns ih => simp [mk, ih]

/-! ### looking a default up -/

theorem find_nodup (ps : List DocArg) (hnd : (ps.map (·.name)).Nodup) (p : DocArg) (hp : p ∈ ps) :
    ps.find? (fun ad => ad.name = p.name) = some p := by
  induction ps with
  | nil => cases hp
  | cons q ps ih =>
    simp only [List.map_cons, List.nodup_cons] at hnd
    rcases List.mem_cons.mp hp with rfl | hm
    · simp [List.find?]
    · have : q.name ≠ p.name := fun e => hnd.1 (List.mem_map.mpr ⟨p, hm, e.symm⟩)
      simp [List.find?, this, ih hnd.2 hm]

theorem find_skip (a b : List DocArg) (x : String) (h : ∀ q ∈ a, q.name ≠ x) :
    (a ++ b).find? (fun ad => ad.name = x) = b.find? (fun ad => ad.name = x) := by
  induction a with
  | nil => rfl
  | cons q a ih =>
    simp only [List.cons_append, List.find?, h q (by simp), decide_false]
    exact ih (fun r hr => h r (by simp [hr]))

theorem find_here (a b : List DocArg) (hnd : (a.map (·.name)).Nodup) (p : DocArg) (hp : p ∈ a) :
    (a ++ b).find? (fun ad => ad.name = p.name) = some p := by
  rw [List.find?_append, find_nodup a hnd p hp]; rfl

/-- the bindings when both passes are done, from the bindings `vs` of the first pass -/
def finalVars (ll : LL) (vs : Vars) : Vars :=
  applyAux (ll.aux.map pd) (applyDefaults (ll.opt.map pd ++ (restD ll ++ keysD ll)) vs)

theorem final_bound (ll : LL) (vs : Vars) (x : String) (a : Obj) (hx : ∀ p ∈ ll.aux, p.name ≠ x)
    (hv : getVar vs x = some a) : getVar (finalVars ll vs) x = some a := by
  unfold finalVars
  rw [getVar_applyAux_other _ _ _ (by intro q hq; obtain ⟨p, hp, rfl⟩ := List.mem_map.mp hq; exact hx p hp),
    getVar_applyDefaults, hv]

theorem final_default (ll : LL) (vs : Vars) (x : String) (ad : DocArg) (hx : ∀ p ∈ ll.aux, p.name ≠ x)
    (hv : getVar vs x = none)
    (hf : (ll.opt.map pd ++ (restD ll ++ keysD ll)).find? (fun q => q.name = x) = some ad) :
    getVar (finalVars ll vs) x = some ad.default := by
  unfold finalVars
  rw [getVar_applyAux_other _ _ _ (by intro q hq; obtain ⟨p, hp, rfl⟩ := List.mem_map.mp hq; exact hx p hp),
    getVar_applyDefaults, hv]
  simp [hf]

theorem final_aux (ll : LL) (d : Distinct ll) (vs : Vars) (p : Param) (hp : p ∈ ll.aux) :
    getVar (finalVars ll vs) p.name = some p.default := by
  unfold finalVars
  have := getVar_applyAux_mem (ll.aux.map pd) (applyDefaults (ll.opt.map pd ++ (restD ll ++ keysD ll)) vs)
    (by rw [map_name_pd]; exact d.aux) (pd p) (List.mem_map.mpr ⟨p, hp, rfl⟩)
  simpa [pd] using this

/-! ### the first pass on `docOf` -/

/-- the state after the positional parameters -/
def stP (ll : LL) (args : List Obj) : St :=
  bindPos args (ll.opt.map pd) (bindPos args (ll.req.map mk) {})

def modeAfterOpt (ll : LL) : Nat := if ll.opt = [] then 0 else 1

theorem modeAfterOpt_01 (ll : LL) : modeAfterOpt ll = 0 ∨ modeAfterOpt ll = 1 := by
  unfold modeAfterOpt; split <;> simp

theorem pass1_prefix (doc : List DocArg) (ll : LL) (g : Good ll) (args : List Obj) :
    pass1 doc args (docOf ll) 0 {} = pass1 doc args (dRest ll) (modeAfterOpt ll) (stP ll args) := by
  unfold docOf stP modeAfterOpt
  rw [pass1_pos doc args _ (plain_mk _ g.req) _ 0 (by simp)]
  unfold dOpt
  by_cases ho : ll.opt = []
  · simp [ho, bindPos]
  · simp only [ho, if_false, List.cons_append]
    rw [pass1_setMode doc args _ 0 1 "&optional" _ la1_optional, pass1_pos doc args _ (plain_pd _ g.opt) _ 1 (by simp)]

theorem stP_ai (ll : LL) (args : List Obj) : (stP ll args).ai = min ll.npos args.length := by
  unfold stP
  have h1 := bindPos_ai args (ll.req.map mk) {} (by simp)
  rw [bindPos_ai args _ _ (by rw [h1]; simp; omega), h1]
  simp [LL.npos]; omega

theorem stP_rest (ll : LL) (args : List Obj) : (stP ll args).rest = [] ∧ (stP ll args).restSym = "" := by
  unfold stP
  have h1 := bindPos_rest args (ll.req.map mk) {}
  have h2 := bindPos_rest args (ll.opt.map pd) (bindPos args (ll.req.map mk) {})
  exact ⟨h2.1.trans h1.1, h2.2.trans h1.2⟩

/-- a required parameter after the positional part -/
theorem stP_req (ll : LL) (d : Distinct ll) (args : List Obj) (i : Nat) (hi : i < ll.req.length)
    (hlt : i < args.length) : getVar (stP ll args).vars ll.req[i] = some args[i] := by
  unfold stP
  rw [bindPos_other _ _ _ _ (by
    intro q hq e
    obtain ⟨p, hp, rfl⟩ := List.mem_map.mp hq
    exact d.req_opt ll.req[i] (List.getElem_mem _) p hp e.symm)]
  have := bindPos_mem args (ll.req.map mk) {} (by rw [map_name_mk]; exact d.req) i
    (by simpa using hi) (by simpa using hlt)
  simpa [mk] using this

/-- an optional parameter that got an argument -/
theorem stP_opt (ll : LL) (d : Distinct ll) (args : List Obj) (hR : ll.req.length ≤ args.length) (j : Nat)
    (hj : j < ll.opt.length) (hlt : ll.req.length + j < args.length) :
    getVar (stP ll args).vars ll.opt[j].name = some args[ll.req.length + j] := by
  unfold stP
  have hai : (bindPos args (ll.req.map mk) {}).ai = ll.req.length := by
    rw [bindPos_ai args _ _ (by simp)]; simp; omega
  have := bindPos_mem args (ll.opt.map pd) (bindPos args (ll.req.map mk) {})
    (by rw [map_name_pd]; exact d.opt) j (by simpa using hj) (by rw [hai]; exact hlt)
  simp only [List.getElem_map, pd, hai] at this
  exact this

/-- an optional parameter that got no argument is unbound after the first pass -/
theorem stP_opt_unbound (ll : LL) (d : Distinct ll) (args : List Obj) (hR : ll.req.length ≤ args.length) (j : Nat)
    (hj : j < ll.opt.length) (hge : args.length ≤ ll.req.length + j) :
    getVar (stP ll args).vars ll.opt[j].name = none := by
  unfold stP
  have hai : (bindPos args (ll.req.map mk) {}).ai = ll.req.length := by
    rw [bindPos_ai args _ _ (by simp)]; simp; omega
  have := bindPos_unbound args (ll.opt.map pd) (bindPos args (ll.req.map mk) {})
    (by rw [map_name_pd]; exact d.opt) j (by simpa using hj) (by rw [hai]; exact hge)
  simp only [List.getElem_map, pd] at this
  rw [this, bindPos_other _ _ _ _ (by
    intro q hq e
    obtain ⟨n, hn, rfl⟩ := List.mem_map.mp hq
    exact d.req_opt n hn ll.opt[j] (List.getElem_mem _) e)]
  rfl

/-- a name that is no positional parameter is unbound after the positional part -/
theorem stP_other (ll : LL) (args : List Obj) (x : String) (h1 : ∀ a ∈ ll.req, a ≠ x) (h2 : ∀ p ∈ ll.opt, p.name ≠ x) :
    getVar (stP ll args).vars x = none := by
  unfold stP
  rw [bindPos_other _ _ _ _ (by intro q hq; obtain ⟨p, hp, rfl⟩ := List.mem_map.mp hq; exact h2 p hp),
    bindPos_other _ _ _ _ (by intro q hq; obtain ⟨n, hn, rfl⟩ := List.mem_map.mp hq; exact h1 n hn)]
  rfl

end SlipVerif.Lemmas.LambdaImpl
