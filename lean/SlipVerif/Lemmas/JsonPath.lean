import SlipVerif.Model.Json
/-
  Helper lemmas for Theorems/C18: association lists, index resolution, selection.
-/
namespace SlipVerif.Json
open J

/-! ### association lists -/

theorem lookup_upsert_same (k : String) (v : J) (m : Members) : lookup k (upsert k v m) = some v := by
  induction m with
  | nil => simp [upsert, lookup]
  | cons kv rest ih =>
    obtain ⟨k', v'⟩ := kv
    by_cases h : k' = k
    · simp [upsert, lookup, h]
    · simp [upsert, lookup, h, ih]

theorem lookup_upsert_other (k k' : String) (v : J) (m : Members) (h : k' ≠ k) :
    lookup k' (upsert k v m) = lookup k' m := by
  induction m with
  | nil => simp [upsert, lookup, Ne.symm h]
  | cons kv rest ih =>
    obtain ⟨k₀, v₀⟩ := kv
    by_cases h0 : k₀ = k
    · subst h0
      simp [upsert, lookup, Ne.symm h]
    · by_cases h1 : k₀ = k'
      · subst h1
        simp [upsert, lookup, h]
      · simp [upsert, lookup, h0, h1, ih]

theorem lookup_erase_same (k : String) (m : Members) : lookup k (erase k m) = none := by
  induction m with
  | nil => simp [erase, lookup]
  | cons kv rest ih =>
    obtain ⟨k', v'⟩ := kv
    by_cases h : k' = k
    · simp [erase, h, ih]
    · simp [erase, lookup, h, ih]

theorem lookup_erase_other (k k' : String) (m : Members) (h : k' ≠ k) :
    lookup k' (erase k m) = lookup k' m := by
  induction m with
  | nil => simp [erase, lookup]
  | cons kv rest ih =>
    obtain ⟨k₀, v₀⟩ := kv
    by_cases h0 : k₀ = k
    · subst h0
      simp [erase, lookup, Ne.symm h, ih]
    · by_cases h1 : k₀ = k'
      · subst h1
        simp [erase, lookup, h]
      · simp [erase, lookup, h0, h1, ih]

/-! ### indices -/

theorem resolve_lt {i : Int} {n m : Nat} (h : resolve i n = some m) : m < n := by
  unfold resolve at h
  split at h
  · split at h
    · simp at h; omega
    · simp at h
  · split at h
    · simp at h; omega
    · simp at h

/-! ### first match / any match over a flatMap -/

theorem findSome_eq_head_flatMap {α β : Type} (l : List α) (g : α → Option β) (f : α → List β)
    (h : ∀ x, g x = (f x).head?) : l.findSome? g = (l.flatMap f).head? := by
  induction l with
  | nil => simp
  | cons x xs ih =>
    simp only [List.findSome?_cons, List.flatMap_cons, List.head?_append, h x]
    cases hfx : (f x).head? with
    | none => simp [ih]
    | some y => simp

theorem any_eq_flatMap_ne_nil {α β : Type} (l : List α) (g : α → Bool) (f : α → List β)
    (h : ∀ x, g x = !(f x).isEmpty) : l.any g = !(l.flatMap f).isEmpty := by
  induction l with
  | nil => simp
  | cons x xs ih =>
    simp only [List.any_cons, List.flatMap_cons, h x, ih]
    cases f x <;> simp

end SlipVerif.Json

namespace SlipVerif.Json
open J

/-! ### descent -/

mutual
theorem foldDesc_eq {σ : Type} (g : σ → J → σ) : (j : J) → (s : σ) → foldDesc g s j = (descendants j).foldl g s
  | .arr xs, s => by simp [foldDesc, descendants, foldDescL_eq g xs]
  | .obj kvs, s => by simp [foldDesc, descendants, foldDescM_eq g kvs]
  | .null, s | .bool _, s | .int _, s | .flo _, s | .str _, s | .time _, s => by simp [foldDesc, descendants]
theorem foldDescL_eq {σ : Type} (g : σ → J → σ) : (xs : List J) → (s : σ) → foldDescL g s xs = (descL xs).foldl g s
  | [], s => by simp [foldDescL, descL]
  | x :: xs, s => by simp [foldDescL, descL, foldDesc_eq g x, foldDescL_eq g xs]
theorem foldDescM_eq {σ : Type} (g : σ → J → σ) : (kvs : Members) → (s : σ) → foldDescM g s kvs = (descM kvs).foldl g s
  | [], s => by simp [foldDescM, descM]
  | (_, v) :: kvs, s => by simp [foldDescM, descM, foldDesc_eq g v, foldDescM_eq g kvs]
end

end SlipVerif.Json

namespace SlipVerif.Json
open J

/-! ### definite paths (keys and indices only) -/

def Step.isDef : Step → Bool
  | .key _ => true
  | .idx _ => true
  | _ => false

/-- a definite path selects at most one node -/
def definite (p : Path) : Bool := p.all Step.isDef

theorem get_key_obj (k : String) (rest : Path) (kvs : Members) :
    get (.key k :: rest) (obj kvs) = (lookup k kvs).bind (get rest) := by
  simp only [get, stepAll]
  cases lookup k kvs <;> simp

theorem get_idx_arr (i : Int) (rest : Path) (xs : List J) :
    get (.idx i :: rest) (arr xs) = (resolve i xs.length).bind (fun n => xs[n]?.bind (get rest)) := by
  simp only [get, stepAll]
  cases resolve i xs.length with
  | none => simp
  | some n => cases hx : xs[n]? <;> simp [hx]

theorem get_key_not_obj (k : String) (rest : Path) (j : J) (h : ∀ kvs, j ≠ obj kvs) :
    get (.key k :: rest) j = none := by
  cases j <;> simp_all [get, stepAll]

theorem get_idx_not_arr (i : Int) (rest : Path) (j : J) (h : ∀ xs, j ≠ arr xs) :
    get (.idx i :: rest) j = none := by
  cases j <;> simp_all [get, stepAll]

end SlipVerif.Json

namespace SlipVerif.Json
open J

/-! ### set along a definite path -/

theorem setAt_get_same (v : J) (p : Path) : definite p = true → ∀ (j j' : J), setAt v false p j = .ok j' → get p j' = some v := by
  induction p with
  | nil => intro _ j j' h; simp [setAt] at h
  | cons s rest ih =>
    intro hd j j' h
    have hs : s.isDef = true := by simp [definite] at hd; exact hd.1
    have hrest : definite rest = true := by simp [definite] at hd ⊢; exact hd.2
    cases rest with
    | nil =>
      cases s with
      | key k =>
        cases j with
        | obj kvs =>
          simp [setAt, setLast] at h
          subst h
          rw [get_key_obj, lookup_upsert_same]
          simp [get]
        | _ => simp [setAt, setLast] at h
      | idx i =>
        cases j with
        | arr xs =>
          simp only [setAt, setLast] at h
          cases hr : resolve i xs.length with
          | none => simp [hr] at h
          | some n =>
            simp [hr] at h
            subst h
            have hn := resolve_lt hr
            rw [get_idx_arr]
            simp [hr, hn, get]
        | _ => simp [setAt, setLast] at h
      | wild => simp [Step.isDef] at hs
      | desc => simp [Step.isDef] at hs
    | cons next rest' =>
      have ih' := ih hrest
      cases s with
      | key k =>
        cases j with
        | obj kvs =>
          simp only [setAt] at h
          cases hl : lookup k kvs with
          | some c =>
            simp only [hl, follow] at h
            by_cases hc : c.isContainer = true
            · simp only [hc, if_true] at h
              cases hset : setAt v false (next :: rest') c with
              | error e => simp [hset, bind, Except.bind] at h
              | ok c' =>
                simp [hset, bind, Except.bind] at h
                subst h
                simp [get_key_obj, lookup_upsert_same, ih' c c' hset]
            · simp [hc, bind, Except.bind] at h
          | none =>
            simp only [hl] at h
            cases hm : mkFor next with
            | error e => simp [hm, bind, Except.bind] at h
            | ok c0 =>
              cases hset : setAt v false (next :: rest') c0 with
              | error e => simp [hm, hset, bind, Except.bind] at h
              | ok c' =>
                simp [hm, hset, bind, Except.bind] at h
                subst h
                simp [get_key_obj, lookup_upsert_same, ih' c0 c' hset]
        | _ => simp [setAt] at h
      | idx i =>
        cases j with
        | arr xs =>
          simp only [setAt] at h
          cases hr : resolve i xs.length with
          | none => simp [hr] at h
          | some n =>
            have hn := resolve_lt hr
            simp only [hr] at h
            cases hx : xs[n]? with
            | none => simp [hx] at h
            | some c =>
              simp only [hx, follow] at h
              by_cases hc : c.isContainer = true
              · simp only [hc, if_true] at h
                cases hset : setAt v false (next :: rest') c with
                | error e => simp [hset, bind, Except.bind] at h
                | ok c' =>
                  simp [hset, bind, Except.bind] at h
                  subst h
                  simp [get_idx_arr, hr, hn, ih' c c' hset]
              · simp [hc, bind, Except.bind] at h
        | _ => simp [setAt] at h
      | wild => simp [Step.isDef] at hs
      | desc => simp [Step.isDef] at hs

/-- two paths that part at a step where they cannot address the same child: different keys, or a
    key against an index (the common prefix is arbitrary) -/
inductive Apart : Path → Path → Prop
  | keys {k₁ k₂ : String} {p q : Path} : k₁ ≠ k₂ → Apart (.key k₁ :: p) (.key k₂ :: q)
  | keyIdx {k : String} {i : Int} {p q : Path} : Apart (.key k :: p) (.idx i :: q)
  | idxKey {i : Int} {k : String} {p q : Path} : Apart (.idx i :: p) (.key k :: q)
  | cons {s : Step} {p q : Path} : Apart p q → Apart (s :: p) (s :: q)

theorem Apart.ne_nil_left {p q : Path} (h : Apart p q) : p ≠ [] := by cases h <;> simp
theorem Apart.ne_nil_right {p q : Path} (h : Apart p q) : q ≠ [] := by cases h <;> simp

theorem get_cons_scalar (s : Step) (rest : Path) (j : J) (h : j.isContainer = false) : get (s :: rest) j = none := by
  cases j <;> cases s <;> simp_all [get, stepAll, children, isContainer]

/-- what a successful set through a key step looks like (no wildcard or descent before it) -/
theorem setAt_key_shape (v : J) (k : String) (rest : Path) (j j' : J)
    (h : setAt v false (.key k :: rest) j = .ok j') :
    ∃ kvs X, j = obj kvs ∧ j' = obj (upsert k X kvs) := by
  cases rest with
  | nil =>
    cases j with
    | obj kvs => simp [setAt, setLast] at h; exact ⟨kvs, v, rfl, h.symm⟩
    | _ => simp [setAt, setLast] at h
  | cons next rest' =>
    cases j with
    | obj kvs =>
      simp only [setAt] at h
      cases hl : lookup k kvs with
      | some c =>
        simp only [hl] at h
        cases hf : follow (setAt v false (next :: rest')) c with
        | error e => simp [hf, bind, Except.bind] at h
        | ok c' => simp [hf, bind, Except.bind] at h; exact ⟨kvs, c', rfl, h.symm⟩
      | none =>
        simp only [hl] at h
        cases hm : mkFor next with
        | error e => simp [hm, bind, Except.bind] at h
        | ok c0 =>
          cases hs : setAt v false (next :: rest') c0 with
          | error e => simp [hm, hs, bind, Except.bind] at h
          | ok c' => simp [hm, hs, bind, Except.bind] at h; exact ⟨kvs, c', rfl, h.symm⟩
    | _ => simp [setAt] at h

/-- what a successful set through an index step looks like -/
theorem setAt_idx_shape (v : J) (i : Int) (rest : Path) (j j' : J)
    (h : setAt v false (.idx i :: rest) j = .ok j') :
    ∃ xs n X, j = arr xs ∧ resolve i xs.length = some n ∧ j' = arr (xs.set n X) := by
  cases rest with
  | nil =>
    cases j with
    | arr xs =>
      simp only [setAt, setLast] at h
      cases hr : resolve i xs.length with
      | none => simp [hr] at h
      | some n => simp [hr] at h; exact ⟨xs, n, v, rfl, hr, h.symm⟩
    | _ => simp [setAt, setLast] at h
  | cons next rest' =>
    cases j with
    | arr xs =>
      simp only [setAt] at h
      cases hr : resolve i xs.length with
      | none => simp [hr] at h
      | some n =>
        simp only [hr] at h
        cases hx : xs[n]? with
        | none => simp [hx] at h
        | some c =>
          simp only [hx] at h
          cases hf : follow (setAt v false (next :: rest')) c with
          | error e => simp [hf, bind, Except.bind] at h
          | ok c' => simp [hf, bind, Except.bind] at h; exact ⟨xs, n, c', rfl, hr, h.symm⟩
    | _ => simp [setAt] at h

/-- the container `set` adds for a missing child holds nothing at a path that parts from the
    rest of the set path -/
theorem get_mkFor_apart {next : Step} {rest q : Path} {c0 : J}
    (hm : mkFor next = .ok c0) (ha : Apart (next :: rest) q) : get q c0 = none := by
  cases next with
  | key k =>
    simp [mkFor] at hm; subst hm
    cases ha with
    | keys hne => simp [get_key_obj, lookup]
    | keyIdx => exact get_idx_not_arr _ _ _ (by simp)
    | cons h => simp [get_key_obj, lookup]
  | idx n =>
    simp only [mkFor] at hm
    by_cases h0 : 0 ≤ n
    · simp [h0] at hm; subst hm
      cases ha with
      | idxKey => exact get_key_not_obj _ _ _ (by simp)
      | cons h =>
        rename_i q'
        rw [get_idx_arr]
        cases hr : resolve n (List.replicate (n.toNat + 1) null).length with
        | none => simp
        | some m =>
          have hm := resolve_lt hr
          simp only [List.length_replicate] at hm
          simp only [Option.bind]
          rw [List.getElem?_replicate]
          simp only [hm, if_true]
          obtain ⟨s, q'', rfl⟩ := List.exists_cons_of_ne_nil h.ne_nil_right
          exact get_cons_scalar _ _ _ rfl
    · simp [h0] at hm
  | wild => simp [mkFor] at hm
  | desc => simp [mkFor] at hm

/-- a set that continues below an existing member sets inside that member -/
theorem setAt_key_hit (v : J) (k : String) (rest : Path) (hne : rest ≠ []) (kvs : Members) (c j' : J)
    (hl : lookup k kvs = some c) (h : setAt v false (.key k :: rest) (obj kvs) = .ok j') :
    ∃ c', setAt v false rest c = .ok c' ∧ j' = obj (upsert k c' kvs) := by
  obtain ⟨next, rest', rfl⟩ := List.exists_cons_of_ne_nil hne
  simp only [setAt, hl, follow] at h
  by_cases hc : c.isContainer = true
  · simp only [hc, if_true] at h
    cases hset : setAt v false (next :: rest') c with
    | error e => simp [hset, bind, Except.bind] at h
    | ok c' => simp [hset, bind, Except.bind] at h; exact ⟨c', rfl, h.symm⟩
  · simp [hc, bind, Except.bind] at h

/-- a set that continues below an existing element sets inside that element -/
theorem setAt_idx_hit (v : J) (i : Int) (rest : Path) (hne : rest ≠ []) (xs : List J) (n : Nat) (c j' : J)
    (hr : resolve i xs.length = some n) (hx : xs[n]? = some c)
    (h : setAt v false (.idx i :: rest) (arr xs) = .ok j') :
    ∃ c', setAt v false rest c = .ok c' ∧ j' = arr (xs.set n c') := by
  obtain ⟨next, rest', rfl⟩ := List.exists_cons_of_ne_nil hne
  simp only [setAt, hr, hx, follow] at h
  by_cases hc : c.isContainer = true
  · simp only [hc, if_true] at h
    cases hset : setAt v false (next :: rest') c with
    | error e => simp [hset, bind, Except.bind] at h
    | ok c' => simp [hset, bind, Except.bind] at h; exact ⟨c', rfl, h.symm⟩
  · simp [hc, bind, Except.bind] at h

/-- frame for two different elements of an array that exists: a set below element `i` leaves
    everything below element `k` alone (negative indices are resolved against the array) -/
theorem setAt_get_apart_index (v : J) (pre : Path) : definite pre = true →
    ∀ (j j' : J) (xs : List J) (i k : Int) (p q : Path), get pre j = some (arr xs) →
      resolve i xs.length ≠ resolve k xs.length →
      setAt v false (pre ++ .idx i :: p) j = .ok j' →
      get (pre ++ .idx k :: q) j' = get (pre ++ .idx k :: q) j := by
  induction pre with
  | nil =>
    intro _ j j' xs i k p q hg hne h
    simp [get] at hg; subst hg
    simp only [List.nil_append] at h ⊢
    obtain ⟨xs', n, X, hxs, hr, rfl⟩ := setAt_idx_shape v i p _ j' h
    cases hxs
    rw [get_idx_arr, get_idx_arr, List.length_set]
    cases hk : resolve k xs.length with
    | none => simp
    | some m =>
      have hnm : n ≠ m := by
        intro e; subst e; exact hne (by rw [hr, hk])
      simp [List.getElem?_set_ne hnm]
  | cons s pre ih =>
    intro hd j j' xs i k p q hg hne h
    have hs : s.isDef = true := by simp [definite] at hd; exact hd.1
    have hrest : definite pre = true := by simp [definite] at hd ⊢; exact hd.2
    have hnn : pre ++ Step.idx i :: p ≠ [] := by simp
    simp only [List.cons_append] at h ⊢
    cases s with
    | key kk =>
      cases j with
      | obj kvs =>
        rw [get_key_obj] at hg
        cases hl : lookup kk kvs with
        | none => simp [hl] at hg
        | some c =>
          simp only [hl, Option.bind] at hg
          obtain ⟨c', hset, rfl⟩ := setAt_key_hit v kk _ hnn kvs c j' hl h
          rw [get_key_obj, get_key_obj, lookup_upsert_same, hl]
          exact ih hrest c c' xs i k p q hg hne hset
      | _ => simp [get_key_not_obj] at hg
    | idx ii =>
      cases j with
      | arr ys =>
        rw [get_idx_arr] at hg
        cases hr : resolve ii ys.length with
        | none => simp [hr] at hg
        | some n =>
          have hn := resolve_lt hr
          cases hx : ys[n]? with
          | none => simp [hr, hx] at hg
          | some c =>
            simp only [hr, hx, Option.bind] at hg
            obtain ⟨c', hset, rfl⟩ := setAt_idx_hit v ii _ hnn ys n c j' hr hx h
            rw [get_idx_arr, get_idx_arr, List.length_set, hr]
            simp only [Option.bind, hx, List.getElem?_set_self hn]
            exact ih hrest c c' xs i k p q hg hne hset
      | _ => simp [get_idx_not_arr] at hg
    | wild => simp [Step.isDef] at hs
    | desc => simp [Step.isDef] at hs

theorem setAt_get_apart (v : J) {p q : Path} (ha : Apart p q) : definite p = true →
    ∀ (j j' : J), setAt v false p j = .ok j' → get q j' = get q j := by
  induction ha with
  | @keys k₁ k₂ p q hne =>
    intro _ j j' h
    obtain ⟨kvs, X, rfl, rfl⟩ := setAt_key_shape v k₁ p j j' h
    rw [get_key_obj, get_key_obj, lookup_upsert_other _ _ _ _ (Ne.symm hne)]
  | @keyIdx k i p q =>
    intro _ j j' h
    obtain ⟨kvs, X, rfl, rfl⟩ := setAt_key_shape v k p j j' h
    rw [get_idx_not_arr _ _ _ (by simp), get_idx_not_arr _ _ _ (by simp)]
  | @idxKey i k p q =>
    intro _ j j' h
    obtain ⟨xs, n, X, rfl, _, rfl⟩ := setAt_idx_shape v i p j j' h
    rw [get_key_not_obj _ _ _ (by simp), get_key_not_obj _ _ _ (by simp)]
  | @cons s p q hpq ih =>
    intro hd j j' h
    have hs : s.isDef = true := by simp [definite] at hd; exact hd.1
    have hrest : definite p = true := by simp [definite] at hd ⊢; exact hd.2
    obtain ⟨next, rest', rfl⟩ := List.exists_cons_of_ne_nil hpq.ne_nil_left
    have ih' := ih hrest
    cases s with
    | key k =>
      cases j with
      | obj kvs =>
        simp only [setAt] at h
        cases hl : lookup k kvs with
        | some c =>
          simp only [hl, follow] at h
          by_cases hc : c.isContainer = true
          · simp only [hc, if_true] at h
            cases hset : setAt v false (next :: rest') c with
            | error e => simp [hset, bind, Except.bind] at h
            | ok c' =>
              simp [hset, bind, Except.bind] at h
              subst h
              simp [get_key_obj, lookup_upsert_same, hl, ih' c c' hset]
          · simp [hc, bind, Except.bind] at h
        | none =>
          simp only [hl] at h
          cases hm : mkFor next with
          | error e => simp [hm, bind, Except.bind] at h
          | ok c0 =>
            cases hset : setAt v false (next :: rest') c0 with
            | error e => simp [hm, hset, bind, Except.bind] at h
            | ok c' =>
              simp [hm, hset, bind, Except.bind] at h
              subst h
              simp [get_key_obj, lookup_upsert_same, hl, ih' c0 c' hset, get_mkFor_apart hm hpq]
      | _ => simp [setAt] at h
    | idx i =>
      cases j with
      | arr xs =>
        simp only [setAt] at h
        cases hr : resolve i xs.length with
        | none => simp [hr] at h
        | some n =>
          have hn := resolve_lt hr
          simp only [hr] at h
          cases hx : xs[n]? with
          | none => simp [hx] at h
          | some c =>
            simp only [hx, follow] at h
            by_cases hc : c.isContainer = true
            · simp only [hc, if_true] at h
              cases hset : setAt v false (next :: rest') c with
              | error e => simp [hset, bind, Except.bind] at h
              | ok c' =>
                simp [hset, bind, Except.bind] at h
                subst h
                have hxe : xs[n] = c := by
                  rw [List.getElem?_eq_getElem hn] at hx
                  exact Option.some.inj hx
                simp [get_idx_arr, hr, hn, hxe, ih' c c' hset]
            · simp [hc, bind, Except.bind] at h
      | _ => simp [setAt] at h
    | wild => simp [Step.isDef] at hs
    | desc => simp [Step.isDef] at hs


/-! ### remove -/

theorem splitLast_append_singleton (pre : Path) (s : Step) : splitLast (pre ++ [s]) = some (pre, s) := by
  induction pre with
  | nil => simp [splitLast]
  | cons a pre ih =>
    cases pre with
    | nil => simp [splitLast]
    | cons b pre' =>
      simp only [List.cons_append] at ih ⊢
      simp [splitLast, ih]

theorem getLast?_ne_desc_of_definite (pre : Path) (h : definite pre = true) : pre.getLast? ≠ some .desc := by
  intro hl
  have hm : Step.desc ∈ pre := List.mem_of_getLast? hl
  simp [definite] at h
  have := h _ hm
  simp [Step.isDef] at this

/-- `remove` of a definite path is `modifyAt` at everything but the last step -/
theorem remove_definite (pre : Path) (s : Step) (j : J) (hd : definite pre = true) (hs : s.isDef = true) :
    remove (pre ++ [s]) j = .ok (modifyAt (removeStep s) pre j) := by
  unfold remove
  rw [splitLast_append_singleton]
  have h1 : s ≠ .desc := by intro e; subst e; simp [Step.isDef] at hs
  simp [h1, getLast?_ne_desc_of_definite pre hd]

/-- along a definite path `modifyAt` changes the located node and nothing else -/
theorem get_modifyAt (f : J → J) (pre : Path) : definite pre = true → ∀ (q : Path) (j : J),
    get (pre ++ q) (modifyAt f pre j) = (get pre j).bind (fun c => get q (f c)) := by
  induction pre with
  | nil => intro _ q j; simp [modifyAt, get]
  | cons s pre ih =>
    intro hd q j
    have hs : s.isDef = true := by simp [definite] at hd; exact hd.1
    have hrest : definite pre = true := by simp [definite] at hd ⊢; exact hd.2
    simp only [List.cons_append]
    cases s with
    | key k =>
      cases j with
      | obj kvs =>
        simp only [modifyAt]
        cases hl : lookup k kvs with
        | none => simp [get_key_obj, hl]
        | some c => simp [get_key_obj, hl, lookup_upsert_same, ih hrest]
      | _ => simp [modifyAt, get_key_not_obj]
    | idx i =>
      cases j with
      | arr xs =>
        simp only [modifyAt]
        cases hr : resolve i xs.length with
        | none => simp [get_idx_arr, hr]
        | some n =>
          have hn := resolve_lt hr
          cases hx : xs[n]? with
          | none => simp [get_idx_arr, hr, hx]
          | some c => simp [get_idx_arr, hr, hx, hn, ih hrest]
      | _ => simp [modifyAt, get_idx_not_arr]
    | wild => simp [Step.isDef] at hs
    | desc => simp [Step.isDef] at hs

theorem get_key_removeStep (k : String) (c : J) : get [.key k] (removeStep (.key k) c) = none := by
  cases c with
  | obj kvs => simp [removeStep, get_key_obj, lookup_erase_same]
  | _ => simp [removeStep, get_key_not_obj]

theorem isObj_modifyAt_key (f : J → J) (k : String) (pre : Path) (j : J) :
    (∃ kvs, j = obj kvs ∧ ∃ kvs', modifyAt f (.key k :: pre) j = obj kvs' ∧ ∀ k', k' ≠ k → lookup k' kvs' = lookup k' kvs) ∨
    ((∀ kvs, j ≠ obj kvs) ∧ modifyAt f (.key k :: pre) j = j) := by
  cases j with
  | obj kvs =>
    left
    refine ⟨kvs, rfl, ?_⟩
    simp only [modifyAt]
    cases hl : lookup k kvs with
    | none => exact ⟨kvs, rfl, fun _ _ => rfl⟩
    | some c => exact ⟨_, rfl, fun k' h => lookup_upsert_other _ _ _ _ h⟩
  | _ => right; simp [modifyAt]

theorem modifyAt_removeStep_apart (last : Step) (pre : Path) : definite pre = true → last.isDef = true →
    ∀ (q : Path) (j : J), Apart (pre ++ [last]) q → get q (modifyAt (removeStep last) pre j) = get q j := by
  induction pre with
  | nil =>
    intro _ hl q j ha
    simp only [List.nil_append] at ha
    simp only [modifyAt]
    cases ha with
    | @keys k₁ k₂ p q' hne =>
      cases j with
      | obj kvs => simp [removeStep, get_key_obj, lookup_erase_other _ _ _ (Ne.symm hne)]
      | _ => simp [removeStep]
    | keyIdx =>
      cases j with
      | obj kvs => simp [removeStep, get_idx_not_arr]
      | _ => simp [removeStep]
    | idxKey =>
      cases j with
      | arr xs =>
        simp only [removeStep]
        cases resolve _ xs.length <;> simp [get_key_not_obj]
      | _ => simp [removeStep]
    | cons h => cases h
  | cons s pre ih =>
    intro hd hl q j ha
    have hs : s.isDef = true := by simp [definite] at hd; exact hd.1
    have hrest : definite pre = true := by simp [definite] at hd ⊢; exact hd.2
    simp only [List.cons_append] at ha
    cases ha with
    | @keys k₁ k₂ p q' hne =>
      rcases isObj_modifyAt_key (removeStep last) k₁ pre j with ⟨kvs, rfl, kvs', hm, hlk⟩ | ⟨_, hm⟩
      · rw [hm, get_key_obj, get_key_obj, hlk _ (Ne.symm hne)]
      · rw [hm]
    | @keyIdx k i p q' =>
      rcases isObj_modifyAt_key (removeStep last) k pre j with ⟨kvs, rfl, kvs', hm, hlk⟩ | ⟨_, hm⟩
      · rw [hm, get_idx_not_arr _ _ _ (by simp), get_idx_not_arr _ _ _ (by simp)]
      · rw [hm]
    | @idxKey i k p q' =>
      cases j with
      | arr xs =>
        simp only [modifyAt]
        cases resolve i xs.length with
        | none => rfl
        | some n =>
          cases hx : xs[n]? with
          | none => simp [hx]
          | some c => simp [hx, get_key_not_obj]
      | _ => simp [modifyAt]
    | @cons _ p q' h =>
      cases s with
      | key k =>
        cases j with
        | obj kvs =>
          simp only [modifyAt]
          cases hlk : lookup k kvs with
          | none => rfl
          | some c => simp [get_key_obj, lookup_upsert_same, hlk, ih hrest hl q' c h]
        | _ => simp [modifyAt]
      | idx i =>
        cases j with
        | arr xs =>
          simp only [modifyAt]
          cases hr : resolve i xs.length with
          | none => rfl
          | some n =>
            have hn := resolve_lt hr
            cases hx : xs[n]? with
            | none => simp [hx]
            | some c =>
              have hxe : xs[n] = c := by
                rw [List.getElem?_eq_getElem hn] at hx
                exact Option.some.inj hx
              simp [get_idx_arr, hr, hn, hxe, ih hrest hl q' c h]
        | _ => simp [modifyAt]
      | wild => simp [Step.isDef] at hs
      | desc => simp [Step.isDef] at hs


end SlipVerif.Json

namespace SlipVerif.Json
open J

/-! ### wildcards below a definite prefix -/



theorem getAll_key_obj (k : String) (rest : Path) (kvs : Members) :
    getAll (.key k :: rest) (obj kvs) = (lookup k kvs).toList.flatMap (getAll rest) := by
  simp [getAll, stepAll]

theorem getAll_key_not_obj (k : String) (rest : Path) (j : J) (h : ∀ kvs, j ≠ obj kvs) :
    getAll (.key k :: rest) j = [] := by
  cases j <;> simp_all [getAll, stepAll]

theorem getAll_idx_arr (i : Int) (rest : Path) (xs : List J) :
    getAll (.idx i :: rest) (arr xs) =
      ((resolve i xs.length).bind (fun n => xs[n]?)).toList.flatMap (getAll rest) := by
  simp only [getAll, stepAll]
  cases resolve i xs.length <;> simp

theorem getAll_idx_not_arr (i : Int) (rest : Path) (j : J) (h : ∀ xs, j ≠ arr xs) :
    getAll (.idx i :: rest) j = [] := by
  cases j <;> simp_all [getAll, stepAll]

/-- along a definite path `modifyAt` changes the located node and nothing else (every selection) -/
theorem getAll_modifyAt (f : J → J) (pre : Path) : definite pre = true → ∀ (q : Path) (j : J),
    getAll (pre ++ q) (modifyAt f pre j) = (get pre j).toList.flatMap (fun c => getAll q (f c)) := by
  induction pre with
  | nil => intro _ q j; simp [modifyAt, get]
  | cons s pre ih =>
    intro hd q j
    have hs : s.isDef = true := by simp [definite] at hd; exact hd.1
    have hrest : definite pre = true := by simp [definite] at hd ⊢; exact hd.2
    simp only [List.cons_append]
    cases s with
    | key k =>
      cases j with
      | obj kvs =>
        simp only [modifyAt]
        cases hl : lookup k kvs with
        | none => simp [getAll_key_obj, get_key_obj, hl]
        | some c => simp [getAll_key_obj, get_key_obj, hl, lookup_upsert_same, ih hrest]
      | _ => simp [modifyAt, getAll_key_not_obj, get_key_not_obj]
    | idx i =>
      cases j with
      | arr xs =>
        simp only [modifyAt]
        cases hr : resolve i xs.length with
        | none => simp [getAll_idx_arr, get_idx_arr, hr]
        | some n =>
          have hn := resolve_lt hr
          cases hx : xs[n]? with
          | none => simp [getAll_idx_arr, get_idx_arr, hr, hx]
          | some c => simp [getAll_idx_arr, get_idx_arr, hr, hx, hn, ih hrest]
      | _ => simp [modifyAt, getAll_idx_not_arr, get_idx_not_arr]
    | wild => simp [Step.isDef] at hs
    | desc => simp [Step.isDef] at hs

/-- `remove` with a definite path before the last step (the last step may be a wildcard) -/
theorem remove_definite_pre (pre : Path) (s : Step) (j : J) (hd : definite pre = true) (hs : s ≠ .desc) :
    remove (pre ++ [s]) j = .ok (modifyAt (removeStep s) pre j) := by
  unfold remove
  rw [splitLast_append_singleton]
  simp [hs, getLast?_ne_desc_of_definite pre hd]

theorem getAll_wild_removeStep (c : J) : getAll [.wild] (removeStep .wild c) = [] := by
  cases c <;> simp [removeStep, getAll, stepAll, children]



/-- what the last wildcard step of a set does to a node -/
def wildSet (v : J) : J → J
  | arr xs => arr (xs.map (fun _ => v))
  | obj kvs => obj (kvs.map (fun kv => (kv.1, v)))
  | j => j

theorem setLast_wild (v : J) (m : Bool) (j : J) : setLast v m .wild j = .ok (wildSet v j) := by
  cases j <;> simp [setLast, wildSet]

/-- a set whose path continues below a child that had to be added, and ends in a wildcard, fails:
    there is nothing under the new container the wildcard could name -/
theorem setAt_wild_created (v : J) (pre : Path) : definite pre = true →
    ∀ (s : Step) (c0 : J), mkFor s = .ok c0 →
      ∀ j', setAt v false (s :: (pre ++ [Step.wild])) c0 ≠ .ok j' := by
  induction pre with
  | nil =>
    intro _ s c0 hm j' h
    cases s with
    | key k =>
      simp [mkFor] at hm; subst hm
      simp [setAt, lookup, mkFor, bind, Except.bind] at h
    | idx n =>
      simp only [mkFor] at hm
      by_cases h0 : 0 ≤ n
      · simp [h0] at hm; subst hm
        simp only [List.nil_append, List.cons_append, setAt, List.length_replicate] at h
        cases hr : resolve n (n.toNat + 1) with
        | none => simp [hr] at h
        | some m =>
          have hlt := resolve_lt hr
          simp [hr, List.getElem?_replicate, hlt, follow, isContainer, bind, Except.bind] at h
      · simp [h0] at hm
    | wild => simp [mkFor] at hm
    | desc => simp [mkFor] at hm
  | cons t pre ih =>
    intro hd s c0 hm j' h
    have ht : t.isDef = true := by simp [definite] at hd; exact hd.1
    have hrest : definite pre = true := by simp [definite] at hd ⊢; exact hd.2
    cases s with
    | key k =>
      simp [mkFor] at hm; subst hm
      simp only [List.cons_append, setAt, lookup] at h
      cases hmt : mkFor t with
      | error e => simp [hmt, bind, Except.bind] at h
      | ok c1 =>
        cases hset : setAt v false (t :: (pre ++ [Step.wild])) c1 with
        | error e => simp [hmt, hset, bind, Except.bind] at h
        | ok c' => exact ih hrest t c1 hmt c' hset
    | idx n =>
      simp only [mkFor] at hm
      by_cases h0 : 0 ≤ n
      · simp [h0] at hm; subst hm
        simp only [List.cons_append, setAt, List.length_replicate] at h
        cases hr : resolve n (n.toNat + 1) with
        | none => simp [hr] at h
        | some m =>
          have hlt := resolve_lt hr
          simp [hr, List.getElem?_replicate, hlt, follow, isContainer, bind, Except.bind] at h
      · simp [h0] at hm
    | wild => simp [mkFor] at hm
    | desc => simp [mkFor] at hm

/-- a successful set along a definite path that ends in a wildcard: the path before the wildcard
    exists and the node there gets the value at every child -/
theorem setAt_wild_eq_modifyAt (v : J) (pre : Path) : definite pre = true →
    ∀ (j j' : J), setAt v false (pre ++ [Step.wild]) j = .ok j' →
      j' = modifyAt (wildSet v) pre j ∧ (get pre j).isSome = true := by
  induction pre with
  | nil =>
    intro _ j j' h
    simp only [List.nil_append, setAt, setLast_wild] at h
    cases h
    simp [modifyAt, get]
  | cons s pre ih =>
    intro hd j j' h
    have hs : s.isDef = true := by simp [definite] at hd; exact hd.1
    have hrest : definite pre = true := by simp [definite] at hd ⊢; exact hd.2
    have hnn : pre ++ [Step.wild] ≠ [] := by simp
    simp only [List.cons_append] at h
    cases s with
    | key k =>
      cases j with
      | obj kvs =>
        cases hl : lookup k kvs with
        | some c =>
          obtain ⟨c', hset, rfl⟩ := setAt_key_hit v k _ hnn kvs c j' hl h
          obtain ⟨rfl, hsome⟩ := ih hrest c c' hset
          simp [modifyAt, hl, get_key_obj, hsome]
        | none =>
          exfalso
          obtain ⟨next, rest', hnr⟩ := List.exists_cons_of_ne_nil hnn
          rw [hnr] at h
          simp only [setAt, hl] at h
          cases hm : mkFor next with
          | error e => simp [hm, bind, Except.bind] at h
          | ok c0 =>
            cases hset : setAt v false (next :: rest') c0 with
            | error e => simp [hm, hset, bind, Except.bind] at h
            | ok c' =>
              cases pre with
              | nil =>
                simp only [List.nil_append, List.cons.injEq] at hnr
                obtain ⟨rfl, _⟩ := hnr
                simp [mkFor] at hm
              | cons t pre' =>
                simp only [List.cons_append, List.cons.injEq] at hnr
                obtain ⟨rfl, rfl⟩ := hnr
                have hrest' : definite pre' = true := by simp [definite] at hrest ⊢; exact hrest.2
                exact setAt_wild_created v pre' hrest' _ c0 hm c' hset
      | _ =>
        obtain ⟨next, rest', hnr⟩ := List.exists_cons_of_ne_nil hnn
        rw [hnr] at h
        simp [setAt] at h
    | idx i =>
      cases j with
      | arr xs =>
        obtain ⟨next, rest', hnr⟩ := List.exists_cons_of_ne_nil hnn
        cases hr : resolve i xs.length with
        | none => rw [hnr] at h; simp [setAt, hr] at h
        | some n =>
          have hn := resolve_lt hr
          cases hx : xs[n]? with
          | none => rw [hnr] at h; simp [setAt, hr, hx] at h
          | some c =>
            obtain ⟨c', hset, rfl⟩ := setAt_idx_hit v i _ hnn xs n c j' hr hx h
            obtain ⟨rfl, hsome⟩ := ih hrest c c' hset
            simp [modifyAt, hr, hx, get_idx_arr, hsome]
      | _ =>
        obtain ⟨next, rest', hnr⟩ := List.exists_cons_of_ne_nil hnn
        rw [hnr] at h
        simp [setAt] at h
    | wild => simp [Step.isDef] at hs
    | desc => simp [Step.isDef] at hs


/-- selection through a definite prefix goes through the one node the prefix locates -/
theorem getAll_append_definite (pre : Path) : definite pre = true → ∀ (q : Path) (j : J),
    getAll (pre ++ q) j = (get pre j).toList.flatMap (getAll q) := by
  induction pre with
  | nil => intro _ q j; simp [get]
  | cons s pre ih =>
    intro hd q j
    have hs : s.isDef = true := by simp [definite] at hd; exact hd.1
    have hrest : definite pre = true := by simp [definite] at hd ⊢; exact hd.2
    simp only [List.cons_append]
    cases s with
    | key k =>
      cases j with
      | obj kvs =>
        cases hl : lookup k kvs with
        | none => simp [getAll_key_obj, get_key_obj, hl]
        | some c => simp [getAll_key_obj, get_key_obj, hl, ih hrest]
      | _ => simp [getAll_key_not_obj, get_key_not_obj]
    | idx i =>
      cases j with
      | arr xs =>
        cases hr : resolve i xs.length with
        | none => simp [getAll_idx_arr, get_idx_arr, hr]
        | some n =>
          cases hx : xs[n]? with
          | none => simp [getAll_idx_arr, get_idx_arr, hr, hx]
          | some c => simp [getAll_idx_arr, get_idx_arr, hr, hx, ih hrest]
      | _ => simp [getAll_idx_not_arr, get_idx_not_arr]
    | wild => simp [Step.isDef] at hs
    | desc => simp [Step.isDef] at hs

theorem getAll_wild (c : J) : getAll [.wild] c = children c := by
  simp [getAll, stepAll]

theorem children_wildSet (v c : J) :
    (∀ x ∈ children (wildSet v c), x = v) ∧ (children (wildSet v c)).length = (children c).length := by
  cases c with
  | obj kvs =>
    simp only [wildSet, children, List.map_map, List.length_map, List.mem_map, and_true]
    rintro x ⟨kv, _, rfl⟩; rfl
  | _ => simp [wildSet, children]


theorem set_eq_setAt_of_definite (v : J) (p : Path) (j : J) (hd : definite p = true) :
    set v p j = setAt v false p j := by
  unfold set
  simp [getLast?_ne_desc_of_definite p hd]

end SlipVerif.Json
