import SlipVerif.Model.ListHeap
/-
  Helper lemmas about SlipVerif.Model.ListHeap (chains, frames, allocation).  Core Lean only.
-/
namespace SlipVerif.ListHeap

/-! ### chains -/

theorem chain_nil (h : Heap) (n : Nat) : chain h n .nil = some [] := by
  cases n <;> rfl

theorem chain_cell_succ (h : Heap) (n a : Nat) :
    chain h (n + 1) (.cell a) = match h[a]? with
      | none => none
      | some c => (chain h n c.cdr).map (a :: ·) := rfl

/-- unfolding a successful chain at a cell -/
theorem chain_cell_some {h : Heap} {n a : Nat} {as : List Nat} (hc : chain h n (.cell a) = some as) :
    ∃ m c rest, n = m + 1 ∧ h[a]? = some c ∧ chain h m c.cdr = some rest ∧ as = a :: rest := by
  cases n with
  | zero => simp [chain] at hc
  | succ m =>
    rw [chain_cell_succ] at hc
    cases hg : h[a]? with
    | none => simp [hg] at hc
    | some c =>
      simp only [hg] at hc
      cases hr : chain h m c.cdr with
      | none => simp [hr] at hc
      | some rest =>
        simp [hr] at hc
        exact ⟨m, c, rest, rfl, rfl, hr, hc.symm⟩

/-- every address of a chain is a cell of the heap -/
theorem chain_lt {h : Heap} : ∀ {n : Nat} {r : Ref} {as : List Nat}, chain h n r = some as → ∀ a ∈ as, a < h.length := by
  intro n
  induction n with
  | zero =>
    intro r as hc a ha
    cases r with
    | nil => simp [chain] at hc; subst hc; simp at ha
    | cell b => simp [chain] at hc
  | succ m ih =>
    intro r as hc a ha
    cases r with
    | nil => simp [chain] at hc; subst hc; simp at ha
    | cell b =>
      obtain ⟨m', c, rest, hn, hg, hr, has⟩ := chain_cell_some hc
      have : m = m' := by omega
      subst this
      subst has
      rcases List.mem_cons.mp ha with h1 | h1
      · subst h1
        have := (List.getElem?_eq_some_iff.mp hg).1
        exact this
      · exact ih hr a h1

/-- a chain only depends on the cells it visits -/
theorem chain_congr {h h' : Heap} : ∀ {n : Nat} {r : Ref} {as : List Nat},
    chain h n r = some as → (∀ a ∈ as, h'[a]? = h[a]?) → chain h' n r = some as := by
  intro n
  induction n with
  | zero =>
    intro r as hc _
    cases r with
    | nil => simpa [chain] using hc
    | cell b => simp [chain] at hc
  | succ m ih =>
    intro r as hc hag
    cases r with
    | nil => simpa [chain] using hc
    | cell b =>
      obtain ⟨m', c, rest, hn, hg, hr, has⟩ := chain_cell_some hc
      have : m = m' := by omega
      subst this
      subst has
      rw [chain_cell_succ, hag b (by simp), hg]
      have := ih hr (fun a ha => hag a (by simp [ha]))
      simp [this]

theorem carsOf_congr {h h' : Heap} {as : List Nat} (hag : ∀ a ∈ as, h'[a]? = h[a]?) :
    carsOf h' as = carsOf h as := by
  unfold carsOf
  induction as with
  | nil => rfl
  | cons a as ih =>
    have h1 := hag a (by simp)
    have h2 := ih (fun b hb => hag b (by simp [hb]))
    simp only [List.filterMap_cons, h1, h2]

/-- more fuel never changes a chain -/
theorem chain_mono {h : Heap} : ∀ {n : Nat} {r : Ref} {as : List Nat} (k : Nat),
    chain h n r = some as → chain h (n + k) r = some as := by
  intro n
  induction n with
  | zero =>
    intro r as k hc
    cases r with
    | nil => rw [chain_nil]; simpa [chain] using hc
    | cell b => simp [chain] at hc
  | succ m ih =>
    intro r as k hc
    cases r with
    | nil => rw [chain_nil]; simpa [chain] using hc
    | cell b =>
      obtain ⟨m', c, rest, hn, hg, hr, has⟩ := chain_cell_some hc
      have : m = m' := by omega
      subst this
      subst has
      have e : m + 1 + k = (m + k) + 1 := by omega
      rw [e, chain_cell_succ, hg]
      simp [ih k hr]

theorem chain_mono_le {h : Heap} {n m : Nat} {r : Ref} {as : List Nat} (hle : n ≤ m)
    (hc : chain h n r = some as) : chain h m r = some as := by
  have := chain_mono (m - n) hc
  have e : n + (m - n) = m := by omega
  rwa [e] at this

/-- two successful traversals from the same reference agree, whatever their fuel -/
theorem chain_fuel_irrelevant {h : Heap} {n m : Nat} {r : Ref} {as bs : List Nat}
    (h1 : chain h n r = some as) (h2 : chain h m r = some bs) : as = bs := by
  have a := chain_mono m h1
  have b := chain_mono n h2
  have e : m + n = n + m := by omega
  rw [e] at b
  rw [a] at b
  exact Option.some.inj b

/-! ### heaps that only grow -/

theorem getElem?_append_old (h ext : Heap) {a : Nat} (ha : a < h.length) : (h ++ ext)[a]? = h[a]? :=
  List.getElem?_append_left ha

/-- appending cells changes no existing list: same cells, same contents -/
theorem frame_of_append {h : Heap} (ext : Heap) {n : Nat} {r : Ref} {as : List Nat}
    (hc : chain h n r = some as) :
    chain (h ++ ext) n r = some as ∧ carsOf (h ++ ext) as = carsOf h as := by
  have hl := chain_lt hc
  have hag : ∀ a ∈ as, (h ++ ext)[a]? = h[a]? := fun a ha => getElem?_append_old h ext (hl a ha)
  exact ⟨chain_congr hc hag, carsOf_congr hag⟩

/-! ### allocation -/

theorem allocList_cons (h : Heap) (v : Val) (vs : List Val) (tail : Ref) :
    allocList h (v :: vs) tail =
      ((allocList h vs tail).1 ++ [⟨v, (allocList h vs tail).2⟩], .cell (allocList h vs tail).1.length) := by
  simp [allocList]

theorem allocList_grows (h : Heap) (vs : List Val) (tail : Ref) : ∃ ext, (allocList h vs tail).1 = h ++ ext := by
  induction vs with
  | nil => exact ⟨[], by simp [allocList]⟩
  | cons v vs ih =>
    obtain ⟨ext, he⟩ := ih
    refine ⟨ext ++ [⟨v, (allocList h vs tail).2⟩], ?_⟩
    rw [allocList_cons]; simp [he]

/-- the list built by `allocList`: fresh cells holding `vs`, followed by the cells of `tail` -/
theorem allocList_spec {h : Heap} {n : Nat} {tail : Ref} {ts : List Nat} (ht : chain h n tail = some ts)
    (vs : List Val) :
    ∃ fresh, chain (allocList h vs tail).1 (n + vs.length) (allocList h vs tail).2 = some (fresh ++ ts)
      ∧ carsOf (allocList h vs tail).1 fresh = vs
      ∧ (∀ a ∈ fresh, h.length ≤ a) ∧ fresh.length = vs.length := by
  induction vs with
  | nil => exact ⟨[], by simpa [allocList] using ht, by simp [allocList, carsOf], by simp, rfl⟩
  | cons v vs ih =>
    obtain ⟨f1, hc1, hv1, hf1, hl1⟩ := ih
    obtain ⟨ext, he⟩ := allocList_grows h vs tail
    rw [allocList_cons]
    generalize hh1 : (allocList h vs tail).1 = h1 at *
    generalize hr1 : (allocList h vs tail).2 = r1 at *
    refine ⟨h1.length :: f1, ?_, ?_, ?_, ?_⟩
    · have e : n + (v :: vs).length = (n + vs.length) + 1 := by simp; omega
      rw [e, chain_cell_succ]
      have hg : (h1 ++ [({ car := v, cdr := r1 } : Cell)])[h1.length]? = some ⟨v, r1⟩ := by simp
      rw [hg]
      have := (frame_of_append [({ car := v, cdr := r1 } : Cell)] hc1).1
      simp [this]
    · have hlt := chain_lt hc1
      have hag : ∀ a ∈ f1, (h1 ++ [({ car := v, cdr := r1 } : Cell)])[a]? = h1[a]? :=
        fun a ha => getElem?_append_old h1 _ (hlt a (by simp [ha]))
      have hc := carsOf_congr hag
      unfold carsOf at hc hv1 ⊢
      simp [hc, hv1]
    · intro a ha
      rcases List.mem_cons.mp ha with h2 | h2
      · subst h2; rw [he]; simp
      · exact hf1 a h2
    · simp [hl1]

/-! ### writes -/

theorem setCar_length (h : Heap) (a : Nat) (v : Val) : (setCar h a v).length = h.length := by
  unfold setCar; split <;> simp

theorem setCdr_length (h : Heap) (a : Nat) (r : Ref) : (setCdr h a r).length = h.length := by
  unfold setCdr; split <;> simp

theorem setCar_ne (h : Heap) {a b : Nat} (v : Val) (hne : b ≠ a) : (setCar h a v)[b]? = h[b]? := by
  unfold setCar; split
  · rfl
  · exact List.getElem?_set_ne (Ne.symm hne)

theorem setCdr_ne (h : Heap) {a b : Nat} (r : Ref) (hne : b ≠ a) : (setCdr h a r)[b]? = h[b]? := by
  unfold setCdr; split
  · rfl
  · exact List.getElem?_set_ne (Ne.symm hne)

theorem setCar_eq {h : Heap} {a : Nat} {c : Cell} (v : Val) (hg : h[a]? = some c) :
    (setCar h a v)[a]? = some { c with car := v } := by
  unfold setCar; rw [hg]
  have := (List.getElem?_eq_some_iff.mp hg).1
  simp [this]

theorem setCdr_eq {h : Heap} {a : Nat} {c : Cell} (r : Ref) (hg : h[a]? = some c) :
    (setCdr h a r)[a]? = some { c with cdr := r } := by
  unfold setCdr; rw [hg]
  have := (List.getElem?_eq_some_iff.mp hg).1
  simp [this]

theorem writeCars_length (h : Heap) (as : List Nat) (vs : List Val) : (writeCars h as vs).length = h.length := by
  induction as generalizing h vs with
  | nil => simp [writeCars]
  | cons a as ih =>
    cases vs with
    | nil => simp [writeCars]
    | cons v vs => simp [writeCars, ih, setCar_length]

theorem writeCars_notin (h : Heap) (as : List Nat) (vs : List Val) {b : Nat} (hb : b ∉ as) :
    (writeCars h as vs)[b]? = h[b]? := by
  induction as generalizing h vs with
  | nil => simp [writeCars]
  | cons a as ih =>
    cases vs with
    | nil => simp [writeCars]
    | cons v vs =>
      simp only [writeCars]
      have h1 : b ≠ a := fun e => hb (by simp [e])
      have h2 : b ∉ as := fun e => hb (by simp [e])
      rw [ih _ _ h2, setCar_ne _ _ h1]

theorem linkCells_length (h : Heap) (ks : List Nat) : (linkCells h ks).length = h.length := by
  induction ks generalizing h with
  | nil => simp [linkCells]
  | cons a ks ih =>
    cases ks with
    | nil => simp [linkCells, setCdr_length]
    | cons b ks => simp only [linkCells]; rw [ih, setCdr_length]

theorem linkCells_notin (h : Heap) (ks : List Nat) {b : Nat} (hb : b ∉ ks) : (linkCells h ks)[b]? = h[b]? := by
  induction ks generalizing h with
  | nil => simp [linkCells]
  | cons a ks ih =>
    have h1 : b ≠ a := fun e => hb (by simp [e])
    have h2 : b ∉ ks := fun e => hb (by simp [e])
    cases ks with
    | nil => simp only [linkCells]; exact setCdr_ne _ _ h1
    | cons c ks => simp only [linkCells]; rw [ih _ h2, setCdr_ne _ _ h1]

theorem removeCells_grows (p : Pred) (h : Heap) (as : List Nat) : ∃ ext, (removeCells p h as).1 = h ++ ext := by
  induction as with
  | nil => exact ⟨[], by simp [removeCells]⟩
  | cons a as ih =>
    obtain ⟨ext, he⟩ := ih
    unfold removeCells
    split
    · exact ⟨[], by simp⟩
    · cases hg : h[a]? with
      | none => exact ⟨ext, by simp [he]⟩
      | some c =>
        by_cases hp : p.test c.car = true
        · exact ⟨ext, by simp [hp, he]⟩
        · exact ⟨ext ++ [⟨c.car, (removeCells p h as).2⟩], by simp [hp, he]⟩

/-! ### extensions -/

/-- `h'` differs from `h` on existing cells at most by replacing a `nil` cdr (and keeps every car) -/
def NilExt (h h' : Heap) : Prop :=
  ∀ (a : Nat) (c : Cell), h[a]? = some c → ∃ c' : Cell, h'[a]? = some c' ∧ c'.car = c.car ∧ (c'.cdr = c.cdr ∨ c.cdr = Ref.nil)

theorem nilExt_of_append (h ext : Heap) : NilExt h (h ++ ext) := by
  intro a c hg
  have ha := (List.getElem?_eq_some_iff.mp hg).1
  exact ⟨c, by rw [getElem?_append_old h ext ha, hg], rfl, Or.inl rfl⟩

/-- the last cell of a list has cdr nil -/
theorem chain_last_cdr_nil {h : Heap} : ∀ {n : Nat} {r : Ref} {as : List Nat} {l : Nat},
    chain h n r = some as → as.getLast? = some l → ∃ c, h[l]? = some c ∧ c.cdr = .nil := by
  intro n
  induction n with
  | zero =>
    intro r as l hc hl
    cases r with
    | nil => simp [chain] at hc; subst hc; simp at hl
    | cell b => simp [chain] at hc
  | succ m ih =>
    intro r as l hc hl
    cases r with
    | nil => simp [chain] at hc; subst hc; simp at hl
    | cell b =>
      obtain ⟨m', c, rest, hn, hg, hr, has⟩ := chain_cell_some hc
      have : m = m' := by omega
      subst this
      subst has
      cases rest with
      | nil =>
        simp at hl; subst hl
        refine ⟨c, hg, ?_⟩
        cases hcd : c.cdr with
        | nil => rfl
        | cell d =>
          rw [hcd] at hr
          obtain ⟨_, _, _, _, _, _, hcontra⟩ := chain_cell_some hr
          simp at hcontra
      | cons d rest' =>
        have hl' : (d :: rest').getLast? = some l := by
          simpa [List.getLast?_cons_cons] using hl
        exact ih hr hl'

/-- under a nil-extension every old list is a prefix of the new list at the same reference -/
theorem nilExt_prefix {h h' : Heap} (hne : NilExt h h') : ∀ {n m : Nat} {r : Ref} {as as' : List Nat},
    chain h n r = some as → chain h' m r = some as' → as <+: as' := by
  intro n
  induction n with
  | zero =>
    intro m r as as' hc _
    cases r with
    | nil => simp [chain] at hc; subst hc; exact List.nil_prefix
    | cell b => simp [chain] at hc
  | succ k ih =>
    intro m r as as' hc hc'
    cases r with
    | nil => simp [chain] at hc; subst hc; exact List.nil_prefix
    | cell b =>
      obtain ⟨k', c, rest, hn, hg, hr, has⟩ := chain_cell_some hc
      have : k = k' := by omega
      subst this
      subst has
      obtain ⟨m', c'', rest', hm, hg', hr', has'⟩ := chain_cell_some hc'
      subst has'
      obtain ⟨c', hg2, _, hcd⟩ := hne b c hg
      rw [hg2] at hg'
      have : c' = c'' := Option.some.inj hg'
      subst this
      rcases hcd with hsame | hnil
      · rw [hsame] at hr'
        have := ih hr hr'
        exact (List.cons_prefix_cons).mpr ⟨rfl, this⟩
      · rw [hnil] at hr
        rw [chain_nil] at hr
        have : rest = [] := (Option.some.inj hr).symm
        subst this
        exact (List.cons_prefix_cons).mpr ⟨rfl, List.nil_prefix⟩

theorem carsOf_of_same_cars {h h' : Heap} {as : List Nat}
    (hs : ∀ a ∈ as, (h'[a]?).map (·.car) = (h[a]?).map (·.car)) : carsOf h' as = carsOf h as := by
  unfold carsOf
  induction as with
  | nil => rfl
  | cons a as ih =>
    have h1 := hs a (by simp)
    have h2 := ih (fun b hb => hs b (by simp [hb]))
    simp only [List.filterMap_cons, h1, h2]

theorem nilExt_cars {h h' : Heap} (hne : NilExt h h') {n : Nat} {r : Ref} {as : List Nat}
    (hc : chain h n r = some as) : carsOf h' as = carsOf h as := by
  apply carsOf_of_same_cars
  intro a ha
  have hlt := chain_lt hc a ha
  obtain ⟨c, hg⟩ : ∃ c, h[a]? = some c := ⟨h[a], List.getElem?_eq_getElem hlt⟩
  obtain ⟨c', hg', hcar, _⟩ := hne a c hg
  simp [hg, hg', hcar]

theorem carsOf_prefix (h : Heap) {as as' : List Nat} (hp : as <+: as') : carsOf h as <+: carsOf h as' := by
  unfold carsOf
  exact hp.filterMap _

end SlipVerif.ListHeap
