import SlipVerif.Model.ListHeap
/-
  Helper lemmas about SlipVerif.Model.ListHeap (chains, frames, allocation).  Core Lean only.
-/
namespace SlipVerif.ListHeap

/-! ### chains -/

theorem chain_nil (h : Heap) (n : Nat) : chain h n .nil = some [] := by
  cases n <;> rfl

theorem chain_cell_succ (h : Heap) (n a : Nat) :
    chain h (n + 1) (.cell a) = match h[a]? with
      | none => none
      | some c => (chain h n c.cdr).map (a :: ·) := rfl

/-- unfolding a successful chain at a cell -/
theorem chain_cell_some {h : Heap} {n a : Nat} {as : List Nat} (hc : chain h n (.cell a) = some as) :
    ∃ m c rest, n = m + 1 ∧ h[a]? = some c ∧ chain h m c.cdr = some rest ∧ as = a :: rest := by
  cases n with
  | zero => simp [chain] at hc
  | succ m =>
    rw [chain_cell_succ] at hc
    cases hg : h[a]? with
    | none => simp [hg] at hc
    | some c =>
      simp only [hg] at hc
      cases hr : chain h m c.cdr with
      | none => simp [hr] at hc
      | some rest =>
        simp [hr] at hc
        exact ⟨m, c, rest, rfl, rfl, hr, hc.symm⟩

/-- every address of a chain is a cell of the heap -/
theorem chain_lt {h : Heap} : ∀ {n : Nat} {r : Ref} {as : List Nat}, chain h n r = some as → ∀ a ∈ as, a < h.length := by
  intro n
  induction n with
  | zero =>
    intro r as hc a ha
    cases r with
    | nil => simp [chain] at hc; subst hc; simp at ha
    | cell b => simp [chain] at hc
  | succ m ih =>
    intro r as hc a ha
    cases r with
    | nil => simp [chain] at hc; subst hc; simp at ha
    | cell b =>
      obtain ⟨m', c, rest, hn, hg, hr, has⟩ := chain_cell_some hc
      have : m = m' := by omega
      subst this
      subst has
      rcases List.mem_cons.mp ha with h1 | h1
      · subst h1
        have := (List.getElem?_eq_some_iff.mp hg).1
        exact this
      · exact ih hr a h1

/-- a chain only depends on the cells it visits -/
theorem chain_congr {h h' : Heap} : ∀ {n : Nat} {r : Ref} {as : List Nat},
    chain h n r = some as → (∀ a ∈ as, h'[a]? = h[a]?) → chain h' n r = some as := by
  intro n
  induction n with
  | zero =>
    intro r as hc _
    cases r with
    | nil => simpa [chain] using hc
    | cell b => simp [chain] at hc
  | succ m ih =>
    intro r as hc hag
    cases r with
    | nil => simpa [chain] using hc
    | cell b =>
      obtain ⟨m', c, rest, hn, hg, hr, has⟩ := chain_cell_some hc
      have : m = m' := by omega
      subst this
      subst has
      rw [chain_cell_succ, hag b (by simp), hg]
      have := ih hr (fun a ha => hag a (by simp [ha]))
      simp [this]

theorem carsOf_congr {h h' : Heap} {as : List Nat} (hag : ∀ a ∈ as, h'[a]? = h[a]?) :
    carsOf h' as = carsOf h as := by
  unfold carsOf
  induction as with
  | nil => rfl
  | cons a as ih =>
    have h1 := hag a (by simp)
    have h2 := ih (fun b hb => hag b (by simp [hb]))
    simp only [List.filterMap_cons, h1, h2]

/-- more fuel never changes a chain -/
theorem chain_mono {h : Heap} : ∀ {n : Nat} {r : Ref} {as : List Nat} (k : Nat),
    chain h n r = some as → chain h (n + k) r = some as := by
  intro n
  induction n with
  | zero =>
    intro r as k hc
    cases r with
    | nil => rw [chain_nil]; simpa [chain] using hc
    | cell b => simp [chain] at hc
  | succ m ih =>
    intro r as k hc
    cases r with
    | nil => rw [chain_nil]; simpa [chain] using hc
    | cell b =>
      obtain ⟨m', c, rest, hn, hg, hr, has⟩ := chain_cell_some hc
      have : m = m' := by omega
      subst this
      subst has
      have e : m + 1 + k = (m + k) + 1 := by omega
      rw [e, chain_cell_succ, hg]
      simp [ih k hr]

theorem chain_mono_le {h : Heap} {n m : Nat} {r : Ref} {as : List Nat} (hle : n ≤ m)
    (hc : chain h n r = some as) : chain h m r = some as := by
  have := chain_mono (m - n) hc
  have e : n + (m - n) = m := by omega
  rwa [e] at this

/-- two successful traversals from the same reference agree, whatever their fuel -/
theorem chain_fuel_irrelevant {h : Heap} {n m : Nat} {r : Ref} {as bs : List Nat}
    (h1 : chain h n r = some as) (h2 : chain h m r = some bs) : as = bs := by
  have a := chain_mono m h1
  have b := chain_mono n h2
  have e : m + n = n + m := by omega
  rw [e] at b
  rw [a] at b
  exact Option.some.inj b

/-! ### heaps that only grow -/

theorem getElem?_append_old (h ext : Heap) {a : Nat} (ha : a < h.length) : (h ++ ext)[a]? = h[a]? :=
  List.getElem?_append_left ha

/-- appending cells changes no existing list: same cells, same contents -/
theorem frame_of_append {h : Heap} (ext : Heap) {n : Nat} {r : Ref} {as : List Nat}
    (hc : chain h n r = some as) :
    chain (h ++ ext) n r = some as ∧ carsOf (h ++ ext) as = carsOf h as := by
  have hl := chain_lt hc
  have hag : ∀ a ∈ as, (h ++ ext)[a]? = h[a]? := fun a ha => getElem?_append_old h ext (hl a ha)
  exact ⟨chain_congr hc hag, carsOf_congr hag⟩

/-! ### allocation -/

theorem allocList_cons (h : Heap) (v : Val) (vs : List Val) (tail : Ref) :
    allocList h (v :: vs) tail =
      ((allocList h vs tail).1 ++ [⟨v, (allocList h vs tail).2⟩], .cell (allocList h vs tail).1.length) := by
  simp [allocList]

theorem allocList_grows (h : Heap) (vs : List Val) (tail : Ref) : ∃ ext, (allocList h vs tail).1 = h ++ ext := by
  induction vs with
  | nil => exact ⟨[], by simp [allocList]⟩
  | cons v vs ih =>
    obtain ⟨ext, he⟩ := ih
    refine ⟨ext ++ [⟨v, (allocList h vs tail).2⟩], ?_⟩
    rw [allocList_cons]; simp [he]

/-- the list built by `allocList`: fresh cells holding `vs`, followed by the cells of `tail` -/
theorem allocList_spec {h : Heap} {n : Nat} {tail : Ref} {ts : List Nat} (ht : chain h n tail = some ts)
    (vs : List Val) :
    ∃ fresh, chain (allocList h vs tail).1 (n + vs.length) (allocList h vs tail).2 = some (fresh ++ ts)
      ∧ carsOf (allocList h vs tail).1 fresh = vs
      ∧ (∀ a ∈ fresh, h.length ≤ a) ∧ fresh.length = vs.length := by
  induction vs with
  | nil => exact ⟨[], by simpa [allocList] using ht, by simp [allocList, carsOf], by simp, rfl⟩
  | cons v vs ih =>
    obtain ⟨f1, hc1, hv1, hf1, hl1⟩ := ih
    obtain ⟨ext, he⟩ := allocList_grows h vs tail
    rw [allocList_cons]
    generalize hh1 : (allocList h vs tail).1 = h1 at *
    generalize hr1 : (allocList h vs tail).2 = r1 at *
    refine ⟨h1.length :: f1, ?_, ?_, ?_, ?_⟩
    · have e : n + (v :: vs).length = (n + vs.length) + 1 := by simp; omega
      rw [e, chain_cell_succ]
      have hg : (h1 ++ [({ car := v, cdr := r1 } : Cell)])[h1.length]? = some ⟨v, r1⟩ := by simp
      rw [hg]
      have := (frame_of_append [({ car := v, cdr := r1 } : Cell)] hc1).1
      simp [this]
    · have hlt := chain_lt hc1
      have hag : ∀ a ∈ f1, (h1 ++ [({ car := v, cdr := r1 } : Cell)])[a]? = h1[a]? :=
        fun a ha => getElem?_append_old h1 _ (hlt a (by simp [ha]))
      have hc := carsOf_congr hag
      unfold carsOf at hc hv1 ⊢
      simp [hc, hv1]
    · intro a ha
      rcases List.mem_cons.mp ha with h2 | h2
      · subst h2; rw [he]; simp
      · exact hf1 a h2
    · simp [hl1]

/-! ### writes -/

theorem setCar_length (h : Heap) (a : Nat) (v : Val) : (setCar h a v).length = h.length := by
  unfold setCar; split <;> simp

theorem setCdr_length (h : Heap) (a : Nat) (r : Ref) : (setCdr h a r).length = h.length := by
  unfold setCdr; split <;> simp

theorem setCar_ne (h : Heap) {a b : Nat} (v : Val) (hne : b ≠ a) : (setCar h a v)[b]? = h[b]? := by
  unfold setCar; split
  · rfl
  · exact List.getElem?_set_ne (Ne.symm hne)

theorem setCdr_ne (h : Heap) {a b : Nat} (r : Ref) (hne : b ≠ a) : (setCdr h a r)[b]? = h[b]? := by
  unfold setCdr; split
  · rfl
  · exact List.getElem?_set_ne (Ne.symm hne)

theorem setCar_eq {h : Heap} {a : Nat} {c : Cell} (v : Val) (hg : h[a]? = some c) :
    (setCar h a v)[a]? = some { c with car := v } := by
  unfold setCar; rw [hg]
  have := (List.getElem?_eq_some_iff.mp hg).1
  simp [this]

theorem setCdr_eq {h : Heap} {a : Nat} {c : Cell} (r : Ref) (hg : h[a]? = some c) :
    (setCdr h a r)[a]? = some { c with cdr := r } := by
  unfold setCdr; rw [hg]
  have := (List.getElem?_eq_some_iff.mp hg).1
  simp [this]

theorem writeCars_length (h : Heap) (as : List Nat) (vs : List Val) : (writeCars h as vs).length = h.length := by
  induction as generalizing h vs with
  | nil => simp [writeCars]
  | cons a as ih =>
    cases vs with
    | nil => simp [writeCars]
    | cons v vs => simp [writeCars, ih, setCar_length]

theorem writeCars_notin (h : Heap) (as : List Nat) (vs : List Val) {b : Nat} (hb : b ∉ as) :
    (writeCars h as vs)[b]? = h[b]? := by
  induction as generalizing h vs with
  | nil => simp [writeCars]
  | cons a as ih =>
    cases vs with
    | nil => simp [writeCars]
    | cons v vs =>
      simp only [writeCars]
      have h1 : b ≠ a := fun e => hb (by simp [e])
      have h2 : b ∉ as := fun e => hb (by simp [e])
      rw [ih _ _ h2, setCar_ne _ _ h1]

theorem linkCells_length (h : Heap) (ks : List Nat) : (linkCells h ks).length = h.length := by
  induction ks generalizing h with
  | nil => simp [linkCells]
  | cons a ks ih =>
    cases ks with
    | nil => simp [linkCells, setCdr_length]
    | cons b ks => simp only [linkCells]; rw [ih, setCdr_length]

theorem linkCells_notin (h : Heap) (ks : List Nat) {b : Nat} (hb : b ∉ ks) : (linkCells h ks)[b]? = h[b]? := by
  induction ks generalizing h with
  | nil => simp [linkCells]
  | cons a ks ih =>
    have h1 : b ≠ a := fun e => hb (by simp [e])
    have h2 : b ∉ ks := fun e => hb (by simp [e])
    cases ks with
    | nil => simp only [linkCells]; exact setCdr_ne _ _ h1
    | cons c ks => simp only [linkCells]; rw [ih _ h2, setCdr_ne _ _ h1]

theorem removeCells_cons (h : Heap) (m : List Bool) (a : Nat) (as : List Nat) :
    removeCells h m (a :: as) =
      if m.any id then
        (if m.head? = some true then removeCells h m.tail as
         else match h[a]? with
          | some c => ((removeCells h m.tail as).1 ++ [⟨c.car, (removeCells h m.tail as).2⟩],
                        .cell (removeCells h m.tail as).1.length)
          | none => removeCells h m.tail as)
      else (h, .cell a) := by
  simp only [removeCells]
  split
  · split
    · rfl
    · cases h[a]? <;> rfl
  · rfl

theorem removeCells_grows (h : Heap) (m : List Bool) (as : List Nat) : ∃ ext, (removeCells h m as).1 = h ++ ext := by
  induction as generalizing m with
  | nil => exact ⟨[], by simp [removeCells]⟩
  | cons a as ih =>
    obtain ⟨ext, he⟩ := ih m.tail
    rw [removeCells_cons]
    by_cases hany : m.any id = true
    · simp only [hany, if_true]
      by_cases hhd : m.head? = some true
      · simp only [hhd, if_true]; exact ⟨ext, he⟩
      · simp only [hhd, if_false]
        cases hg : h[a]? with
        | none => exact ⟨ext, he⟩
        | some c => exact ⟨ext ++ [⟨c.car, (removeCells h m.tail as).2⟩], by simp [he]⟩
    · simp only [hany]; exact ⟨[], by simp⟩

/-! ### extensions -/

/-- `h'` differs from `h` on existing cells at most by replacing a `nil` cdr (and keeps every car) -/
def NilExt (h h' : Heap) : Prop :=
  ∀ (a : Nat) (c : Cell), h[a]? = some c → ∃ c' : Cell, h'[a]? = some c' ∧ c'.car = c.car ∧ (c'.cdr = c.cdr ∨ c.cdr = Ref.nil)

theorem nilExt_of_append (h ext : Heap) : NilExt h (h ++ ext) := by
  intro a c hg
  have ha := (List.getElem?_eq_some_iff.mp hg).1
  exact ⟨c, by rw [getElem?_append_old h ext ha, hg], rfl, Or.inl rfl⟩

/-- the last cell of a list has cdr nil -/
theorem chain_last_cdr_nil {h : Heap} : ∀ {n : Nat} {r : Ref} {as : List Nat} {l : Nat},
    chain h n r = some as → as.getLast? = some l → ∃ c, h[l]? = some c ∧ c.cdr = .nil := by
  intro n
  induction n with
  | zero =>
    intro r as l hc hl
    cases r with
    | nil => simp [chain] at hc; subst hc; simp at hl
    | cell b => simp [chain] at hc
  | succ m ih =>
    intro r as l hc hl
    cases r with
    | nil => simp [chain] at hc; subst hc; simp at hl
    | cell b =>
      obtain ⟨m', c, rest, hn, hg, hr, has⟩ := chain_cell_some hc
      have : m = m' := by omega
      subst this
      subst has
      cases rest with
      | nil =>
        simp at hl; subst hl
        refine ⟨c, hg, ?_⟩
        cases hcd : c.cdr with
        | nil => rfl
        | cell d =>
          rw [hcd] at hr
          obtain ⟨_, _, _, _, _, _, hcontra⟩ := chain_cell_some hr
          simp at hcontra
      | cons d rest' =>
        have hl' : (d :: rest').getLast? = some l := by
          simpa [List.getLast?_cons_cons] using hl
        exact ih hr hl'

/-- under a nil-extension every old list is a prefix of the new list at the same reference -/
theorem nilExt_prefix {h h' : Heap} (hne : NilExt h h') : ∀ {n m : Nat} {r : Ref} {as as' : List Nat},
    chain h n r = some as → chain h' m r = some as' → as <+: as' := by
  intro n
  induction n with
  | zero =>
    intro m r as as' hc _
    cases r with
    | nil => simp [chain] at hc; subst hc; exact List.nil_prefix
    | cell b => simp [chain] at hc
  | succ k ih =>
    intro m r as as' hc hc'
    cases r with
    | nil => simp [chain] at hc; subst hc; exact List.nil_prefix
    | cell b =>
      obtain ⟨k', c, rest, hn, hg, hr, has⟩ := chain_cell_some hc
      have : k = k' := by omega
      subst this
      subst has
      obtain ⟨m', c'', rest', hm, hg', hr', has'⟩ := chain_cell_some hc'
      subst has'
      obtain ⟨c', hg2, _, hcd⟩ := hne b c hg
      rw [hg2] at hg'
      have : c' = c'' := Option.some.inj hg'
      subst this
      rcases hcd with hsame | hnil
      · rw [hsame] at hr'
        have := ih hr hr'
        exact (List.cons_prefix_cons).mpr ⟨rfl, this⟩
      · rw [hnil] at hr
        rw [chain_nil] at hr
        have : rest = [] := (Option.some.inj hr).symm
        subst this
        exact (List.cons_prefix_cons).mpr ⟨rfl, List.nil_prefix⟩

theorem carsOf_of_same_cars {h h' : Heap} {as : List Nat}
    (hs : ∀ a ∈ as, (h'[a]?).map (·.car) = (h[a]?).map (·.car)) : carsOf h' as = carsOf h as := by
  unfold carsOf
  induction as with
  | nil => rfl
  | cons a as ih =>
    have h1 := hs a (by simp)
    have h2 := ih (fun b hb => hs b (by simp [hb]))
    simp only [List.filterMap_cons, h1, h2]

theorem nilExt_cars {h h' : Heap} (hne : NilExt h h') {n : Nat} {r : Ref} {as : List Nat}
    (hc : chain h n r = some as) : carsOf h' as = carsOf h as := by
  apply carsOf_of_same_cars
  intro a ha
  have hlt := chain_lt hc a ha
  obtain ⟨c, hg⟩ : ∃ c, h[a]? = some c := ⟨h[a], List.getElem?_eq_getElem hlt⟩
  obtain ⟨c', hg', hcar, _⟩ := hne a c hg
  simp [hg, hg', hcar]

theorem carsOf_prefix (h : Heap) {as as' : List Nat} (hp : as <+: as') : carsOf h as <+: carsOf h as' := by
  unfold carsOf
  exact hp.filterMap _

/-! ### values of chains -/

theorem chainOf_ok {h : Heap} {x : Ref} {as : List Nat} : chainOf h x = .ok as ↔ chain h (stdFuel h) x = some as := by
  unfold chainOf
  split
  · rename_i as' hh; simp [hh]
  · rename_i hh; simp [hh]

theorem carsOf_nil (h : Heap) : carsOf h [] = [] := rfl

theorem carsOf_append (h : Heap) (as bs : List Nat) : carsOf h (as ++ bs) = carsOf h as ++ carsOf h bs := by
  simp [carsOf, List.filterMap_append]

theorem carsOf_cons_some {h : Heap} {a : Nat} {c : Cell} (hg : h[a]? = some c) (as : List Nat) :
    carsOf h (a :: as) = c.car :: carsOf h as := by
  simp [carsOf, hg]

/-- when every address is a cell, `carsOf` is position-wise -/
theorem carsOf_drop {h : Heap} : ∀ {as : List Nat} (k : Nat), (∀ a ∈ as, a < h.length) →
    carsOf h (as.drop k) = (carsOf h as).drop k := by
  intro as
  induction as with
  | nil => intro k _; simp [carsOf]
  | cons a as ih =>
    intro k hlt
    cases k with
    | zero => simp
    | succ k =>
      have ha : a < h.length := hlt a (by simp)
      have hg : h[a]? = some h[a] := List.getElem?_eq_getElem ha
      rw [carsOf_cons_some hg]
      simp only [List.drop_succ_cons]
      exact ih k (fun b hb => hlt b (by simp [hb]))

theorem carsOf_length {h : Heap} : ∀ {as : List Nat}, (∀ a ∈ as, a < h.length) → (carsOf h as).length = as.length := by
  intro as
  induction as with
  | nil => intro _; rfl
  | cons a as ih =>
    intro hlt
    have ha : a < h.length := hlt a (by simp)
    have hg : h[a]? = some h[a] := List.getElem?_eq_getElem ha
    rw [carsOf_cons_some hg]
    simp [ih (fun b hb => hlt b (by simp [hb]))]

/-- the tail of a list is a list: dropping cells from a chain gives the chain of the reference there -/
theorem chain_drop {h : Heap} : ∀ {n : Nat} {r : Ref} {as : List Nat} (k : Nat),
    chain h n r = some as → chain h n (refOf (as.drop k)) = some (as.drop k) := by
  intro n
  induction n with
  | zero =>
    intro r as k hc
    cases r with
    | nil => simp [chain] at hc; subst hc; simp [refOf, chain]
    | cell b => simp [chain] at hc
  | succ m ih =>
    intro r as k hc
    cases r with
    | nil => simp [chain] at hc; subst hc; simp [refOf, chain]
    | cell b =>
      cases k with
      | zero =>
        obtain ⟨_, _, rest, _, _, _, has⟩ := chain_cell_some hc
        subst has
        simpa [refOf] using hc
      | succ k =>
        obtain ⟨m', c, rest, hn, hg, hr, has⟩ := chain_cell_some hc
        have : m = m' := by omega
        subst this
        subst has
        simp only [List.drop_succ_cons]
        have := ih k hr
        exact chain_mono 1 this

/-- contents of a freshly allocated list: the values, followed by the contents of the tail -/
theorem allocList_contents {h : Heap} {n : Nat} {tail : Ref} {tv : List Val}
    (ht : contents h n tail = some tv) (vs : List Val) :
    contents (allocList h vs tail).1 (n + vs.length) (allocList h vs tail).2 = some (vs ++ tv) := by
  unfold contents at ht
  cases hch : chain h n tail with
  | none => simp [hch] at ht
  | some ts =>
    simp [hch] at ht
    obtain ⟨fresh, hc, hv, _, _⟩ := allocList_spec hch vs
    obtain ⟨ext, he⟩ := allocList_grows h vs tail
    unfold contents
    rw [hc]
    simp only [Option.map_some, carsOf_append, hv]
    have := (frame_of_append ext hch).2
    rw [he] at *
    rw [this, ht]

theorem allocList_contents_nil (h : Heap) (vs : List Val) :
    contents (allocList h vs .nil).1 vs.length (allocList h vs .nil).2 = some vs := by
  have := allocList_contents (h := h) (n := 0) (tail := .nil) (tv := []) (by simp [contents, chain, carsOf]) vs
  simpa using this

theorem contents_of_chain {h : Heap} {n : Nat} {r : Ref} {as : List Nat} (hc : chain h n r = some as) :
    contents h n r = some (carsOf h as) := by simp [contents, hc]

theorem drop_length_takeWhile (p : Val → Bool) (l : List Val) : l.drop (l.takeWhile p).length = l.dropWhile p := by
  induction l with
  | nil => rfl
  | cons x xs ih =>
    by_cases hp : p x = true
    · simp [hp, ih]
    · simp [hp]

theorem contents_mono_le {h : Heap} {n m : Nat} {r : Ref} {vs : List Val} (hle : n ≤ m)
    (hc : contents h n r = some vs) : contents h m r = some vs := by
  unfold contents at hc ⊢
  cases hch : chain h n r with
  | none => simp [hch] at hc
  | some as =>
    simp [hch] at hc
    simp [chain_mono_le hle hch, hc]

theorem consCell_contents {h : Heap} {k : Nat} {r : Ref} {vs : List Val} (v : Val)
    (hc : contents h k r = some vs) :
    contents (h ++ [⟨v, r⟩]) (k + 1) (.cell h.length) = some (v :: vs) := by
  have := allocList_contents hc [v]
  simpa [allocList] using this

/-- the reference of the rest of a chain is the cdr of its first cell -/
theorem chain_cell_rest {h : Heap} {n a : Nat} {rest : List Nat} (hc : chain h n (.cell a) = some (a :: rest)) :
    ∃ m c, n = m + 1 ∧ h[a]? = some c ∧ c.cdr = refOf rest ∧ chain h m (refOf rest) = some rest := by
  obtain ⟨m, c, rest', hn, hg, hr, has⟩ := chain_cell_some hc
  have : rest' = rest := by simpa using has.symm
  subst this
  refine ⟨m, c, hn, hg, ?_, ?_⟩
  · cases hcd : c.cdr with
    | nil => rw [hcd, chain_nil] at hr; have : rest' = [] := (Option.some.inj hr).symm; subst this; rfl
    | cell d =>
      rw [hcd] at hr
      obtain ⟨_, _, _, _, _, _, e⟩ := chain_cell_some hr
      subst e; rfl
  · cases hcd : c.cdr with
    | nil => rw [hcd, chain_nil] at hr; have : rest' = [] := (Option.some.inj hr).symm; subst this; simp [refOf, chain_nil]
    | cell d =>
      rw [hcd] at hr
      obtain ⟨_, _, _, _, _, _, e⟩ := chain_cell_some hr
      subst e; simpa [refOf] using hr

theorem applyMask_none {α : Type} : ∀ (m : List Bool) (xs : List α), m.any id = false → applyMask m xs = xs := by
  intro m xs
  induction xs generalizing m with
  | nil => intro _; rfl
  | cons x xs ih =>
    intro hm
    cases m with
    | nil => simp [applyMask, ih [] (by simp)]
    | cons b bs =>
      cases b with
      | true => simp at hm
      | false =>
        have : bs.any id = false := by simpa using hm
        simp [applyMask, ih bs this]

theorem removeCells_contents {h : Heap} : ∀ {as : List Nat} (m : List Bool) {n : Nat},
    chain h n (refOf as) = some as →
    contents (removeCells h m as).1 (n + as.length) (removeCells h m as).2 = some (applyMask m (carsOf h as)) := by
  intro as
  induction as with
  | nil => intro m n _; simp [removeCells, contents, chain_nil, carsOf, applyMask]
  | cons a as ih =>
    intro m n hc
    simp only [refOf] at hc
    obtain ⟨k, c, hn, hg, hcd, hrest⟩ := chain_cell_rest hc
    subst hn
    rw [removeCells_cons]
    by_cases hany : m.any id = true
    · simp only [hany, if_true]
      have ih' := ih m.tail hrest
      rw [carsOf_cons_some hg]
      by_cases hhd : m.head? = some true
      · simp only [hhd, if_true, applyMask]
        exact contents_mono_le (by simp; omega) ih'
      · simp only [hhd, if_false, applyMask, hg]
        have := consCell_contents c.car ih'
        exact contents_mono_le (by simp; omega) this
    · simp only [hany]
      have hany' : m.any id = false := by simpa using hany
      rw [applyMask_none m _ hany']
      exact contents_mono_le (by omega) (contents_of_chain hc)

theorem refOf_chain {h : Heap} {n : Nat} {x : Ref} {as : List Nat} (hc : chain h n x = some as) : refOf as = x := by
  cases x with
  | nil => cases n <;> simp [chain] at hc <;> subst hc <;> rfl
  | cell a =>
    obtain ⟨_, _, _, _, _, _, e⟩ := chain_cell_some hc
    subst e; rfl

theorem args_val {h : Heap} {x : Ref} {as : List Nat} {xs : List Val} (hc : chainOf h x = .ok as)
    (hx : contents h (stdFuel h) x = some xs) : xs = carsOf h as := by
  have := chainOf_ok.mp hc
  simp [contents, this] at hx
  exact hx.symm

/-! ### distinct cells, in-place writes -/

theorem chain_suffix_cell {h : Heap} {n : Nat} {r : Ref} {pre post : List Nat} {b : Nat}
    (hc : chain h n r = some (pre ++ b :: post)) : chain h n (.cell b) = some (b :: post) := by
  have := chain_drop pre.length hc
  simpa [refOf] using this

/-- a list never visits a cell twice -/
theorem chain_nodup {h : Heap} : ∀ {n : Nat} {r : Ref} {as : List Nat}, chain h n r = some as → as.Nodup := by
  intro n
  induction n with
  | zero =>
    intro r as hc
    cases r with
    | nil => simp [chain] at hc; subst hc; simp
    | cell b => simp [chain] at hc
  | succ m ih =>
    intro r as hc
    cases r with
    | nil => simp [chain] at hc; subst hc; simp
    | cell a =>
      obtain ⟨m', c, rest, hn, hg, hr, has⟩ := chain_cell_some hc
      have : m = m' := by omega
      subst this
      subst has
      refine List.nodup_cons.mpr ⟨?_, ih hr⟩
      intro hmem
      obtain ⟨pre, post, hsplit⟩ := List.append_of_mem hmem
      rw [hsplit] at hr
      have h1 := chain_suffix_cell hr
      rw [← hsplit] at hr
      have h2 := chain_fuel_irrelevant h1 hc
      have : post = rest := by simpa using h2
      rw [hsplit] at this
      have hl := congrArg List.length this
      simp at hl
      omega

/-- a chain only depends on the cdr fields -/
theorem chain_congr_cdr {h h' : Heap} (hs : ∀ b : Nat, (h'[b]?).map Cell.cdr = (h[b]?).map Cell.cdr) :
    ∀ (n : Nat) (r : Ref), chain h' n r = chain h n r := by
  intro n
  induction n with
  | zero => intro r; cases r <;> rfl
  | succ m ih =>
    intro r
    cases r with
    | nil => rfl
    | cell a =>
      rw [chain_cell_succ, chain_cell_succ]
      have := hs a
      cases hg : h[a]? with
      | none =>
        rw [hg] at this
        cases hg' : h'[a]? with
        | none => rfl
        | some c' => rw [hg'] at this; simp at this
      | some c =>
        rw [hg] at this
        cases hg' : h'[a]? with
        | none => rw [hg'] at this; simp at this
        | some c' =>
          rw [hg'] at this
          simp at this
          simp only [this, ih]

theorem setCar_cdrs (h : Heap) (a : Nat) (v : Val) (b : Nat) :
    ((setCar h a v)[b]?).map Cell.cdr = (h[b]?).map Cell.cdr := by
  by_cases hb : b = a
  · subst hb
    cases hg : h[b]? with
    | none => unfold setCar; simp [hg]
    | some c => rw [setCar_eq v hg]; rfl
  · rw [setCar_ne _ _ hb]

theorem chain_setCar (h : Heap) (a : Nat) (v : Val) (n : Nat) (r : Ref) :
    chain (setCar h a v) n r = chain h n r := chain_congr_cdr (setCar_cdrs h a v) n r

theorem chain_writeCars (h : Heap) (as : List Nat) (vs : List Val) (n : Nat) (r : Ref) :
    chain (writeCars h as vs) n r = chain h n r := by
  induction as generalizing h vs with
  | nil => simp [writeCars]
  | cons a as ih =>
    cases vs with
    | nil => simp [writeCars]
    | cons v vs => simp only [writeCars]; rw [ih, chain_setCar]

/-- writing the cars of distinct cells position by position -/
theorem carsOf_writeCars {h : Heap} : ∀ {as : List Nat} {vs : List Val}, as.Nodup → (∀ a ∈ as, a < h.length) →
    vs.length = as.length → carsOf (writeCars h as vs) as = vs := by
  intro as
  induction as generalizing h with
  | nil => intro vs _ _ hl; simp at hl; subst hl; rfl
  | cons a as ih =>
    intro vs hnd hlt hl
    cases vs with
    | nil => simp at hl
    | cons v vs =>
      simp only [writeCars]
      have ha : a < h.length := hlt a (by simp)
      have hg : h[a]? = some h[a] := List.getElem?_eq_getElem ha
      have hnotin : a ∉ as := (List.nodup_cons.mp hnd).1
      have hga : (writeCars (setCar h a v) as vs)[a]? = some { h[a] with car := v } := by
        rw [writeCars_notin _ _ _ hnotin, setCar_eq v hg]
      rw [carsOf_cons_some hga]
      have := ih (h := setCar h a v) (vs := vs) (List.nodup_cons.mp hnd).2
        (fun b hb => by rw [setCar_length]; exact hlt b (by simp [hb])) (by simpa using hl)
      rw [this]

theorem carsOf_setCar_nth {h : Heap} : ∀ {as : List Nat} {k a : Nat} (v : Val), as.Nodup → (∀ b ∈ as, b < h.length) →
    as[k]? = some a → carsOf (setCar h a v) as = (carsOf h as).set k v := by
  intro as
  induction as with
  | nil => intro k a v _ _ hk; simp at hk
  | cons b as ih =>
    intro k a v hnd hlt hk
    have hb : b < h.length := hlt b (by simp)
    have hg : h[b]? = some h[b] := List.getElem?_eq_getElem hb
    have hnotin : b ∉ as := (List.nodup_cons.mp hnd).1
    cases k with
    | zero =>
      simp at hk; subst hk
      rw [carsOf_cons_some (setCar_eq v hg), carsOf_cons_some hg]
      have : carsOf (setCar h b v) as = carsOf h as :=
        carsOf_congr (fun x hx => setCar_ne _ _ (fun e => hnotin (e ▸ hx)))
      simp [this]
    | succ k =>
      simp at hk
      have hmem : a ∈ as := List.mem_of_getElem? hk
      have hne : b ≠ a := fun e => hnotin (e ▸ hmem)
      have hgb : (setCar h a v)[b]? = some h[b] := by rw [setCar_ne _ _ hne, hg]
      rw [carsOf_cons_some hgb, carsOf_cons_some hg]
      rw [ih v (List.nodup_cons.mp hnd).2 (fun x hx => hlt x (by simp [hx])) hk]
      simp

theorem setCdr_cars (h : Heap) (a : Nat) (r : Ref) (b : Nat) :
    ((setCdr h a r)[b]?).map Cell.car = (h[b]?).map Cell.car := by
  by_cases hb : b = a
  · subst hb
    cases hg : h[b]? with
    | none => unfold setCdr; simp [hg]
    | some c => rw [setCdr_eq r hg]; rfl
  · rw [setCdr_ne _ _ hb]

theorem carsOf_setCdr (h : Heap) (a : Nat) (r : Ref) (as : List Nat) :
    carsOf (setCdr h a r) as = carsOf h as :=
  carsOf_of_same_cars (fun b _ => by
    have := setCdr_cars h a r b
    simpa [Option.map] using this)

/-- (rplacd x y): the first cell of x now continues with the cells of y -/
theorem chain_setCdr_head {h : Heap} {m a : Nat} {c : Cell} {y : Ref} {bs : List Nat}
    (hg : h[a]? = some c) (hy : chain h m y = some bs) (hnot : a ∉ bs) :
    chain (setCdr h a y) (m + 1) (.cell a) = some (a :: bs) := by
  rw [chain_cell_succ, setCdr_eq y hg]
  have : chain (setCdr h a y) m y = some bs :=
    chain_congr hy (fun b hb => setCdr_ne _ _ (fun e => hnot (e ▸ hb)))
  simp [this]

/-- (nconc x y): after the last cell of x is linked to y, x denotes its old cells followed by y's -/
theorem chain_setCdr_last {h : Heap} {y : Ref} {bs : List Nat} {m : Nat} (hy : chain h m y = some bs) :
    ∀ {n : Nat} {x : Ref} {as : List Nat} {l : Nat}, chain h n x = some as → as.getLast? = some l →
      (∀ a ∈ as, a ∉ bs) → chain (setCdr h l y) (n + m) x = some (as ++ bs) := by
  intro n
  induction n with
  | zero =>
    intro x as l hc hl _
    cases x with
    | nil => simp [chain] at hc; subst hc; simp at hl
    | cell b => simp [chain] at hc
  | succ k ih =>
    intro x as l hc hl hdisj
    cases x with
    | nil => simp [chain] at hc; subst hc; simp at hl
    | cell a =>
      have hnd := chain_nodup hc
      obtain ⟨k', c, rest, hn, hg, hr, has⟩ := chain_cell_some hc
      have : k = k' := by omega
      subst this
      subst has
      have e : k + 1 + m = (k + m) + 1 := by omega
      rw [e, chain_cell_succ]
      cases rest with
      | nil =>
        simp at hl; subst hl
        rw [setCdr_eq y hg]
        have hnot : a ∉ bs := hdisj a (by simp)
        have : chain (setCdr h a y) m y = some bs :=
          chain_congr hy (fun b hb => setCdr_ne _ _ (fun e => hnot (e ▸ hb)))
        have := chain_mono_le (show m ≤ k + m by omega) this
        simp [this]
      | cons d rest' =>
        have hl' : (d :: rest').getLast? = some l := by simpa [List.getLast?_cons_cons] using hl
        have hmem : l ∈ d :: rest' := List.mem_of_getLast? hl'
        have hne : a ≠ l := fun e => (List.nodup_cons.mp hnd).1 (e ▸ hmem)
        rw [setCdr_ne _ _ hne, hg]
        have := ih hr hl' (fun b hb => hdisj b (by simp [hb]))
        simp [this]

theorem carsOf_linkCells (h : Heap) (ks as : List Nat) : carsOf (linkCells h ks) as = carsOf h as := by
  induction ks generalizing h with
  | nil => simp [linkCells]
  | cons a ks ih =>
    cases ks with
    | nil => simp only [linkCells]; exact carsOf_setCdr h a .nil as
    | cons b ks => simp only [linkCells]; rw [ih, carsOf_setCdr]

theorem chain_linkCells {h : Heap} : ∀ {ks : List Nat}, ks.Nodup → (∀ a ∈ ks, a < h.length) →
    chain (linkCells h ks) ks.length (refOf ks) = some ks := by
  intro ks
  induction ks generalizing h with
  | nil => intro _ _; simp [linkCells, refOf, chain]
  | cons a ks ih =>
    intro hnd hlt
    have ha : a < h.length := hlt a (by simp)
    have hg : h[a]? = some h[a] := List.getElem?_eq_getElem ha
    cases ks with
    | nil =>
      simp only [linkCells, refOf, List.length_singleton]
      rw [chain_cell_succ, setCdr_eq .nil hg]
      simp [chain]
    | cons b ks =>
      simp only [linkCells, refOf, List.length_cons]
      have hnotin : a ∉ b :: ks := (List.nodup_cons.mp hnd).1
      rw [chain_cell_succ, linkCells_notin _ _ hnotin, setCdr_eq (.cell b) hg]
      have := ih (h := setCdr h a (.cell b)) (List.nodup_cons.mp hnd).2
        (fun x hx => by rw [setCdr_length]; exact hlt x (by simp [hx]))
      simp only [refOf, List.length_cons] at this
      simp [this]

theorem applyMask_subset {α : Type} : ∀ {m : List Bool} {as : List α} {a : α}, a ∈ applyMask m as → a ∈ as := by
  intro m as
  induction as generalizing m with
  | nil => intro a ha; simp [applyMask] at ha
  | cons x xs ih =>
    intro a ha
    unfold applyMask at ha
    split at ha
    · exact List.mem_cons_of_mem _ (ih ha)
    · rcases List.mem_cons.mp ha with h1 | h1
      · simp [h1]
      · exact List.mem_cons_of_mem _ (ih h1)

theorem applyMask_nodup {α : Type} : ∀ {m : List Bool} {as : List α}, as.Nodup → (applyMask m as).Nodup := by
  intro m as
  induction as generalizing m with
  | nil => intro _; simp [applyMask]
  | cons x xs ih =>
    intro hnd
    have hx := List.nodup_cons.mp hnd
    unfold applyMask
    split
    · exact ih hx.2
    · exact List.nodup_cons.mpr ⟨fun hm => hx.1 (applyMask_subset hm), ih hx.2⟩

theorem applyMask_sublist {α : Type} : ∀ (m : List Bool) (xs : List α), (applyMask m xs).Sublist xs := by
  intro m xs
  induction xs generalizing m with
  | nil => simp [applyMask]
  | cons x xs ih =>
    unfold applyMask
    split
    · exact (ih m.tail).cons x
    · exact (ih m.tail).cons₂ x

/-- the cars of the kept cells are the kept cars -/
theorem carsOf_applyMask {h : Heap} : ∀ (m : List Bool) {as : List Nat}, (∀ a ∈ as, a < h.length) →
    carsOf h (applyMask m as) = applyMask m (carsOf h as) := by
  intro m as
  induction as generalizing m with
  | nil => intro _; rfl
  | cons a as ih =>
    intro hlt
    have ha : a < h.length := hlt a (by simp)
    have hg : h[a]? = some h[a] := List.getElem?_eq_getElem ha
    have ih' := ih m.tail (fun b hb => hlt b (by simp [hb]))
    rw [carsOf_cons_some hg]
    unfold applyMask
    split
    · exact ih'
    · rw [carsOf_cons_some hg, ih']

theorem insertSorted_length (rk : Val → Int) (v : Val) (xs : List Val) : (insertSorted rk v xs).length = xs.length + 1 := by
  induction xs with
  | nil => rfl
  | cons x xs ih =>
    unfold insertSorted
    split
    · simp
    · simp [ih]

theorem vSort_length (desc : Bool) (key : Option Fn) (xs : List Val) : (vSort desc key xs).length = xs.length := by
  induction xs with
  | nil => rfl
  | cons x xs ih => simp [vSort, List.foldr_cons, insertSorted_length] at ih ⊢; exact ih

/-- operations whose result must not share any cell with an existing list -/
def Op.freshResult : Op → Bool
  | .lit .. | .butlast .. | .subseq .. | .copyList .. | .reverse .. | .mapcar .. | .mapcar2 .. | .concat .. | .fresh1 .. | .fresh2 .. => true
  | _ => false

/-- operations whose result is a tail of (or is) their list argument -/
def Op.tailResult : Op → Bool
  | .alias .. | .nthcdr .. | .last .. | .member .. => true
  | _ => false

theorem allocList_nil_fresh (h : Heap) (vs : List Val) :
    ∃ as, chain (allocList h vs .nil).1 vs.length (allocList h vs .nil).2 = some as ∧ ∀ a ∈ as, h.length ≤ a := by
  obtain ⟨fresh, hc, _, hf, _⟩ := allocList_spec (h := h) (n := 0) (tail := .nil) (ts := []) (by simp [chain]) vs
  exact ⟨fresh, by simpa using hc, hf⟩

theorem insertSorted_perm (rk : Val → Int) (v : Val) (xs : List Val) : (insertSorted rk v xs).Perm (v :: xs) := by
  induction xs with
  | nil => exact List.Perm.refl _
  | cons x xs ih =>
    unfold insertSorted
    split
    · exact List.Perm.refl _
    · exact (List.Perm.cons x ih).trans (List.Perm.swap v x xs)

theorem insertSorted_sorted (rk : Val → Int) (v : Val) {xs : List Val} (hs : xs.Pairwise (fun a b => rk a ≤ rk b)) :
    (insertSorted rk v xs).Pairwise (fun a b => rk a ≤ rk b) := by
  induction xs with
  | nil => simp [insertSorted]
  | cons x xs ih =>
    unfold insertSorted
    have hx := List.pairwise_cons.mp hs
    split
    · rename_i hle
      refine List.pairwise_cons.mpr ⟨?_, hs⟩
      intro y hy
      rcases List.mem_cons.mp hy with h1 | h1
      · subst h1; exact hle
      · exact Int.le_trans hle (hx.1 y h1)
    · rename_i hnle
      refine List.pairwise_cons.mpr ⟨?_, ih hx.2⟩
      intro y hy
      have := (insertSorted_perm rk v xs).mem_iff.mp hy
      rcases List.mem_cons.mp this with h1 | h1
      · subst h1; exact Int.le_of_lt (Int.not_le.mp hnle)
      · exact hx.1 y h1

/-! ## element-overwriting functions and nbutlast (extension round 4) -/

theorem carsOf_take {h : Heap} : ∀ {as : List Nat} (k : Nat), (∀ a ∈ as, a < h.length) →
    carsOf h (as.take k) = (carsOf h as).take k := by
  intro as
  induction as with
  | nil => intro k _; simp [carsOf]
  | cons a as ih =>
    intro k hlt
    cases k with
    | zero => simp [carsOf]
    | succ k =>
      have ha : a < h.length := hlt a (by simp)
      have hg : h[a]? = some h[a] := List.getElem?_eq_getElem ha
      rw [List.take_succ_cons, carsOf_cons_some hg, carsOf_cons_some hg]
      simp only [List.take_succ_cons]
      rw [ih k (fun b hb => hlt b (by simp [hb]))]

theorem replaceFrom_length : ∀ (xs vs : List Val), (replaceFrom xs vs).length = xs.length := by
  intro xs
  induction xs with
  | nil => intro vs; simp [replaceFrom]
  | cons x xs ih =>
    intro vs
    cases vs with
    | nil => simp [replaceFrom]
    | cons v vs => simp [replaceFrom, ih vs]

/-- the element-overwriting functions keep the length of the list -/
theorem FnD.app_length {f : FnD} {xs vs : List Val} (hf : f.app xs = .ok vs) : vs.length = xs.length := by
  cases f with
  | fill v => simp [FnD.app] at hf; subst hf; simp
  | subst new old => simp [FnD.app] at hf; subst hf; simp
  | substIf new p => simp [FnD.app] at hf; subst hf; simp
  | mapInto g => simp [FnD.app] at hf; subst hf; simp
  | addNth n d =>
    simp only [FnD.app] at hf
    cases hg : xs[n]? with
    | none => simp [hg] at hf
    | some x => simp [hg] at hf; subst hf; simp
  | replaceAt s ws =>
    simp only [FnD.app] at hf
    by_cases hs : s ≤ xs.length
    · simp [hs] at hf; subst hf
      simp [replaceFrom_length]; omega
    · simp [hs] at hf

end SlipVerif.ListHeap
