import SlipVerif.Model.JsonAlias
import SlipVerif.Lemmas.JsonPath
/-
  Helper lemmas for the alias part of Theorems/C18: a write below a definite prefix is a write in
  the node the prefix locates.
-/
namespace SlipVerif.Json
open J

theorem definite_append (p q : Path) : definite (p ++ q) = (definite p && definite q) := by
  simp [definite, List.all_append]

theorem plainStep_isDef (s : Step) (h : plainStep s = true) : s.isDef = true := by
  cases s <;> simp_all [plainStep, Step.isDef]

theorem definite_of_plain (p : Path) (h : plain p = true) : definite p = true := by
  simp only [plain, definite, List.all_eq_true] at h ⊢
  intro s hs
  exact plainStep_isDef s (h s hs)

/-- a set whose path continues below the node a definite prefix locates is that same set inside the
    node, and the prefix locates the result afterwards -/
theorem setAt_through_prefix (x : J) (pre : Path) : definite pre = true → ∀ (q : Path) (j j' c : J),
    q ≠ [] → get pre j = some c → setAt x false (pre ++ q) j = .ok j' →
    ∃ c', setAt x false q c = .ok c' ∧ get pre j' = some c' := by
  induction pre with
  | nil =>
    intro _ q j j' c _ hg h
    simp [get] at hg
    subst hg
    exact ⟨j', h, by simp [get]⟩
  | cons s pre ih =>
    intro hd q j j' c hq hg h
    have hs : s.isDef = true := by simp [definite] at hd; exact hd.1
    have hrest : definite pre = true := by simp [definite] at hd ⊢; exact hd.2
    have hne : pre ++ q ≠ [] := by simp [hq]
    cases s with
    | key k =>
      cases j with
      | obj kvs =>
        rw [get_key_obj] at hg
        cases hl : lookup k kvs with
        | none => simp [hl] at hg
        | some c0 =>
          simp only [hl, Option.bind_some] at hg
          obtain ⟨c0', hset, rfl⟩ := setAt_key_hit x k (pre ++ q) hne kvs c0 j' hl h
          obtain ⟨c', hc', hg'⟩ := ih hrest q c0 c0' c hq hg hset
          refine ⟨c', hc', ?_⟩
          rw [get_key_obj, lookup_upsert_same]
          simpa using hg'
      | _ => simp [get_key_not_obj] at hg
    | idx i =>
      cases j with
      | arr xs =>
        rw [get_idx_arr] at hg
        cases hr : resolve i xs.length with
        | none => simp [hr] at hg
        | some n =>
          cases hx : xs[n]? with
          | none => simp [hr, hx] at hg
          | some c0 =>
            simp only [hr, hx, Option.bind_some] at hg
            obtain ⟨c0', hset, rfl⟩ := setAt_idx_hit x i (pre ++ q) hne xs n c0 j' hr hx h
            obtain ⟨c', hc', hg'⟩ := ih hrest q c0 c0' c hq hg hset
            refine ⟨c', hc', ?_⟩
            have hn : n < xs.length := resolve_lt hr
            rw [get_idx_arr]
            simp [List.length_set, hr, hn, hg']
      | _ => simp [get_idx_not_arr] at hg
    | wild => simp [Step.isDef] at hs
    | desc => simp [Step.isDef] at hs

/-- modification below a definite prefix is modification of the node the prefix locates -/
theorem modifyAt_append (f : J → J) (pre : Path) : definite pre = true → ∀ (q : Path) (j : J),
    modifyAt f (pre ++ q) j = modifyAt (modifyAt f q) pre j := by
  induction pre with
  | nil => intro _ q j; simp [modifyAt]
  | cons s pre ih =>
    intro hd q j
    have hs : s.isDef = true := by simp [definite] at hd; exact hd.1
    have hrest : definite pre = true := by simp [definite] at hd ⊢; exact hd.2
    cases s with
    | key k =>
      cases j with
      | obj kvs =>
        simp only [List.cons_append, modifyAt, ih hrest]
      | _ => simp [modifyAt]
    | idx i =>
      cases j with
      | arr xs =>
        simp only [List.cons_append, modifyAt, ih hrest]
      | _ => simp [modifyAt]
    | wild => simp [Step.isDef] at hs
    | desc => simp [Step.isDef] at hs

/-- a remove below the node a definite prefix locates is that remove inside the node -/
theorem remove_through_prefix (pre q' : Path) (s : Step) (j j' c : J) (hd : definite pre = true)
    (hq : definite q' = true) (hs : s.isDef = true) (hg : get pre j = some c)
    (h : remove (pre ++ (q' ++ [s])) j = .ok j') :
    ∃ c', remove (q' ++ [s]) c = .ok c' ∧ get pre j' = some c' := by
  have hdd : definite (pre ++ q') = true := by rw [definite_append, hd, hq]; rfl
  rw [← List.append_assoc, remove_definite (pre ++ q') s j hdd hs] at h
  cases h
  refine ⟨modifyAt (removeStep s) q' c, remove_definite q' s c hq hs, ?_⟩
  rw [modifyAt_append _ pre hd]
  have := get_modifyAt (modifyAt (removeStep s) q') pre hd [] j
  simpa [hg, get] using this

end SlipVerif.Json
