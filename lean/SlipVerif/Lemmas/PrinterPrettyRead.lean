import SlipVerif.Lemmas.PrinterMain
import SlipVerif.Lemmas.PrinterPretty
/- C03: reading the pretty text (character level): the reader skips the layout white space (core only) -/
namespace SlipVerif.Printer
open SlipVerif.Gen

def AllWs (w : List Char) : Prop := ∀ c ∈ w, isWs c = true

theorem skipWs_ws (w cs : List Char) (h : AllWs w) : skipWs (w ++ cs) = skipWs cs := by
  induction w with
  | nil => rfl
  | cons c r ih =>
    have hc : isWs c = true := h c (by simp)
    simp only [List.cons_append, skipWs, hc, if_true]
    exact ih (fun x hx => h x (by simp [hx]))

theorem read1_ws (rbase fuel : Nat) (w cs : List Char) (h : AllWs w) :
    read1 rbase fuel (w ++ cs) = read1 rbase fuel cs := by
  rw [← read1_skipWs rbase fuel (w ++ cs), ← read1_skipWs rbase fuel cs, skipWs_ws w cs h]

theorem readElems_ws (rbase fuel : Nat) (w cs : List Char) (acc : List Obj) (h : AllWs w) :
    readElems rbase fuel (w ++ cs) acc = readElems rbase fuel cs acc := by
  cases fuel with
  | zero => simp [readElems]
  | succ f => rw [readElems, readElems, skipWs_ws w cs h]

theorem termOrEnd_ws (w cs : List Char) (h : AllWs w) (hne : w ≠ []) : termOrEnd (w ++ cs) = true := by
  cases w with
  | nil => exact absurd rfl hne
  | cons c r =>
    have hc : isWs c = true := h c (by simp)
    simp [termOrEnd, isTerm, hc]

theorem chooseSep_allWs (margin off pos size t : Nat) :
    AllWs (chooseSep margin off pos size t).1 ∧ (chooseSep margin off pos size t).1 ≠ [] := by
  unfold chooseSep
  split
  · constructor
    · intro c hc; simp at hc; subst hc; decide
    · simp
  · constructor
    · intro c hc
      simp only [List.mem_cons, List.mem_replicate] at hc
      rcases hc with hc | ⟨_, hc⟩ <;> subst hc <;> decide
    · simp

theorem render_tok (t : List Char) : renderPieces [.tok t] = t := by simp [renderPieces, Piece.text]


theorem render_sep_cons (w : List Char) (ps : List Piece) (rest : List Char) :
    renderPieces (.sep w :: ps) ++ rest = w ++ (renderPieces ps ++ rest) := by
  simp [renderPieces, Piece.text]

theorem render_tok_cons (t : List Char) (ps : List Piece) (rest : List Char) :
    renderPieces (.tok t :: ps) ++ rest = t ++ (renderPieces ps ++ rest) := by
  simp [renderPieces, Piece.text]

theorem render_dottedTail (margin off pos closes size : Nat) (atom : List Piece) :
    ∃ w1 w2, AllWs w1 ∧ w1 ≠ [] ∧ AllWs w2 ∧ w2 ≠ [] ∧
      renderPieces (dottedTail margin off pos closes size atom) = w1 ++ ('.' :: (w2 ++ (renderPieces atom ++ [')']))) := by
  refine ⟨(chooseSep margin off pos 1 0).1, (chooseSep margin off (chooseSep margin off pos 1 0).2.2 size (closes + 1)).1,
    (chooseSep_allWs _ _ _ _ _).1, (chooseSep_allWs _ _ _ _ _).2, (chooseSep_allWs _ _ _ _ _).1, (chooseSep_allWs _ _ _ _ _).2, ?_⟩
  simp [dottedTail, renderPieces, Piece.text]

def PP (cfg : PCfg) (margin : Nat) (x : Obj) : Prop :=
  WF x → ∀ (offset closes : Nat) (rest : List Char) (fuel : Nat), termOrEnd rest = true → 3 * osize x + 4 ≤ fuel →
    read1 10 fuel (renderPieces (prettyPieces cfg margin offset closes x) ++ rest) = .ok (recase cfg.case x, rest)

def PQ (cfg : PCfg) (margin : Nat) (x : Obj) : Prop :=
  WF x → ∀ (off pos closes : Nat) (rest : List Char) (fuel : Nat) (acc : List Obj), 3 * osize x + 6 ≤ fuel →
    readElems 10 fuel (renderPieces (prettyTail cfg margin off pos closes x) ++ rest) acc =
      .ok (acc.reverse ++ tailElems (recase cfg.case x), rest)

/-- for a list: the elements after the opening parenthesis -/
def PR (cfg : PCfg) (margin : Nat) : Obj → Prop
  | .cons a d => WF (.cons a d) → ∀ (offset closes : Nat) (rest : List Char) (g : Nat),
      3 * osize a + 3 * osize d + 5 ≤ g →
      readElems 10 (g + 1) (renderPieces ((prettyPieces cfg margin offset closes (.cons a d)).tail) ++ rest) [] =
        .ok (recase cfg.case a :: tailElems (recase cfg.case d), rest)
  | _ => True

/-- the rest of a dotted list in the pretty text: blanks, the point, blanks, the atom, `)` -/
theorem pq_atom (hT : TablesOK) (cfg : PCfg) (margin : Nat) (t : Obj)
    (hpt : ∀ off pos closes, ∃ size, prettyTail cfg margin off pos closes t =
      dottedTail margin off pos closes size (prettyPieces cfg margin 0 0 t))
    (hte : tailElems (recase cfg.case t) = [dotSym, recase cfg.case t])
    (hP : PP cfg margin t) : PQ cfg margin t := by
  intro hwf off pos closes rest fuel acc hfuel
  obtain ⟨f, rfl⟩ : ∃ f, fuel = f + 1 := ⟨fuel - 1, by omega⟩
  obtain ⟨g, rfl⟩ : ∃ g, f = g + 1 := ⟨f - 1, by omega⟩
  obtain ⟨h, rfl⟩ : ∃ h, g = h + 1 := ⟨g - 1, by omega⟩
  obtain ⟨size, hsz⟩ := hpt off pos closes
  obtain ⟨w1, w2, hw1, hw1n, hw2, hw2n, hr⟩ := render_dottedTail margin off pos closes size (prettyPieces cfg margin 0 0 t)
  rw [hsz, hr, hte]
  simp only [List.append_assoc, List.cons_append, List.nil_append]
  rw [readElems_ws 10 _ w1 _ acc hw1]
  have h1 := read1_dot hT (w2 ++ (renderPieces (prettyPieces cfg margin 0 0 t) ++ ')' :: rest))
    (termOrEnd_ws w2 _ hw2 hw2n) (h + 1)
  rw [readElems_step 10 (h + 1 + 1) _ _ _ acc h1, readElems_ws 10 _ w2 _ _ hw2]
  have h2 := hP hwf 0 0 (')' :: rest) (h + 1) (by simp [termOrEnd, isTerm, isWs]) (by omega)
  rw [readElems_step 10 (h + 1) _ _ _ _ h2, readElems_close]
  simp

theorem prettyTail_term (cfg : PCfg) (margin off pos closes : Nat) (d : Obj) (rest : List Char) :
    termOrEnd (renderPieces (prettyTail cfg margin off pos closes d) ++ rest) = true := by
  have hdot : ∀ size atom, termOrEnd (renderPieces (dottedTail margin off pos closes size atom) ++ rest) = true := by
    intro size atom
    obtain ⟨w1, w2, hw1, hw1n, _, _, hr⟩ := render_dottedTail margin off pos closes size atom
    rw [hr, List.append_assoc]
    exact termOrEnd_ws w1 _ hw1 hw1n
  cases d with
  | nil => simp [prettyTail, renderPieces, Piece.text, termOrEnd, isTerm, isWs]
  | cons a d =>
    simp only [prettyTail, List.cons_append]
    rw [render_sep_cons]
    exact termOrEnd_ws _ _ (chooseSep_allWs _ _ _ _ _).1 (chooseSep_allWs _ _ _ _ _).2
  | _ => simp only [prettyTail]; exact hdot _ _

theorem prettyPieces_cons_nil (cfg : PCfg) (margin offset closes : Nat) (a : Obj) :
    prettyPieces cfg margin offset closes (.cons a .nil) =
      .tok ['('] :: (prettyPieces cfg margin (offset + 1) (closes + 1) a ++ [.tok [')']]) := by
  simp [prettyPieces]

theorem prettyPieces_cons_other (cfg : PCfg) (margin offset closes : Nat) (a d : Obj) (hd : d ≠ .nil) :
    ∃ off pos, prettyPieces cfg margin offset closes (.cons a d) =
      .tok ['('] :: (prettyPieces cfg margin off 0 a ++ prettyTail cfg margin off pos closes d) := by
  cases d with
  | nil => exact absurd rfl hd
  | _ => simp only [prettyPieces]; exact ⟨_, _, rfl⟩

theorem prettyPieces_cons_head (cfg : PCfg) (margin offset closes : Nat) (a d : Obj) :
    prettyPieces cfg margin offset closes (.cons a d) =
      .tok ['('] :: (prettyPieces cfg margin offset closes (.cons a d)).tail := by
  by_cases hd : d = .nil
  · subst hd; rw [prettyPieces_cons_nil]; rfl
  · obtain ⟨off, pos, h⟩ := prettyPieces_cons_other cfg margin offset closes a d hd
    rw [h]; rfl


theorem render_append_rest (a b : List Piece) (rest : List Char) :
    renderPieces (a ++ b) ++ rest = renderPieces a ++ (renderPieces b ++ rest) := by
  simp [renderPieces]

/-- the elements of a list in the pretty text, from the IH of the head and of the rest -/
theorem pr_cons (cfg : PCfg) (margin : Nat) (a d : Obj) (hPa : PP cfg margin a) (hQd : PQ cfg margin d) :
    PR cfg margin (.cons a d) := by
  intro hwf offset closes rest g hg
  have hsd : 1 ≤ osize d := by cases d <;> simp [osize] <;> omega
  have hsa : 1 ≤ osize a := by cases a <;> simp [osize] <;> omega
  by_cases hd : d = .nil
  · subst hd
    rw [prettyPieces_cons_nil]
    simp only [List.tail_cons, recase, tailElems]
    rw [render_append_rest, render_tok, List.singleton_append]
    have h1 := hPa hwf.1 (offset + 1) (closes + 1) (')' :: rest) g (by simp [termOrEnd, isTerm, isWs]) (by omega)
    obtain ⟨g', rfl⟩ : ∃ g', g = g' + 1 := ⟨g - 1, by omega⟩
    rw [readElems_step 10 (g' + 1) _ _ _ [] h1, readElems_close]
    simp
  · obtain ⟨off, pos, h⟩ := prettyPieces_cons_other cfg margin offset closes a d hd
    rw [h]
    simp only [List.tail_cons]
    rw [render_append_rest]
    have h1 := hPa hwf.1 off 0 (renderPieces (prettyTail cfg margin off pos closes d) ++ rest) g
      (prettyTail_term cfg margin off pos closes d rest) (by omega)
    rw [readElems_step 10 g _ _ _ [] h1, hQd hwf.2.2 off pos closes rest g _ (by omega)]
    simp

/-- the next element of a list in the pretty text: blanks, the element, the rest -/
theorem pq_cons (cfg : PCfg) (margin : Nat) (a d : Obj) (hPa : PP cfg margin a) (hQd : PQ cfg margin d)
    (hwf : WF (.cons a d)) (w : List Char) (hw : AllWs w) (o1 t1 off pos1 closes : Nat) (rest : List Char)
    (fuel : Nat) (acc : List Obj) (hfuel : 3 * osize (.cons a d) + 6 ≤ fuel) :
    readElems 10 fuel (renderPieces (.sep w :: (prettyPieces cfg margin o1 t1 a ++ prettyTail cfg margin off pos1 closes d)) ++ rest) acc =
      .ok (acc.reverse ++ recase cfg.case a :: tailElems (recase cfg.case d), rest) := by
  obtain ⟨f, rfl⟩ : ∃ f, fuel = f + 1 := ⟨fuel - 1, by omega⟩
  have hsd : 1 ≤ osize d := by cases d <;> simp [osize] <;> omega
  have hsa : 1 ≤ osize a := by cases a <;> simp [osize] <;> omega
  rw [render_sep_cons, readElems_ws 10 _ _ _ acc hw, render_append_rest]
  have h1 := hPa hwf.1 o1 t1 (renderPieces (prettyTail cfg margin off pos1 closes d) ++ rest) f
    (prettyTail_term cfg margin off pos1 closes d rest) (by simp [osize] at hfuel; omega)
  rw [readElems_step 10 f _ _ _ acc h1, hQd hwf.2.2 off pos1 closes rest f _ (by simp [osize] at hfuel; omega)]
  simp

theorem pretty_struct_roundtrip (hT : TablesOK) (cfg : PCfg) (hC : CfgOK cfg) (margin : Nat) :
    ∀ x : Obj, PP cfg margin x ∧ PQ cfg margin x ∧ PR cfg margin x := by
  intro x
  have leafQ : ∀ t : Obj, (∀ off pos closes, ∃ size, prettyTail cfg margin off pos closes t =
        dottedTail margin off pos closes size (prettyPieces cfg margin 0 0 t)) →
      tailElems (recase cfg.case t) = [dotSym, recase cfg.case t] → PP cfg margin t → PQ cfg margin t :=
    fun t h1 h2 h3 => pq_atom hT cfg margin t h1 h2 h3
  -- a leaf is one token piece with the flat text: the flat lemma applies
  have leafP : ∀ t : Obj, (∀ offset closes, prettyPieces cfg margin offset closes t = [.tok (printFlat cfg t)]) →
      PP cfg margin t := by
    intro t hp hwf offset closes rest fuel hrest hfuel
    rw [hp, render_tok]
    exact (struct_roundtrip hT cfg hC t).1 hwf rest fuel hrest hfuel
  induction x with
  | nil =>
    have hP := leafP .nil (by intro _ _; simp [prettyPieces, printFlat, nilText])
    refine ⟨hP, ?_, trivial⟩
    intro _ off pos closes rest fuel acc hfuel
    obtain ⟨f, rfl⟩ : ∃ f, fuel = f + 1 := ⟨fuel - 1, by simp [osize] at hfuel; omega⟩
    simp only [prettyTail, render_tok, recase, tailElems, List.cons_append, List.nil_append, List.append_nil]
    exact readElems_close 10 f rest acc
  | t =>
    have hP := leafP .t (by intro _ _; simp [prettyPieces, printFlat])
    exact ⟨hP, leafQ .t (by intro _ _ _; simp only [prettyTail, prettyPieces]; exact ⟨_, rfl⟩) (by simp [recase, tailElems]) hP, trivial⟩
  | int n =>
    have hP := leafP (.int n) (by intro _ _; simp [prettyPieces, printFlat])
    exact ⟨hP, leafQ (.int n) (by intro _ _ _; simp only [prettyTail, prettyPieces]; exact ⟨_, rfl⟩) (by simp [recase, tailElems]) hP, trivial⟩
  | ratio num den =>
    have hP := leafP (.ratio num den) (by intro _ _; simp [prettyPieces, printFlat])
    exact ⟨hP, leafQ (.ratio num den) (by intro _ _ _; simp only [prettyTail, prettyPieces]; exact ⟨_, rfl⟩) (by simp [recase, tailElems]) hP, trivial⟩
  | str s =>
    have hP := leafP (.str s) (by intro _ _; simp [prettyPieces, printFlat])
    exact ⟨hP, leafQ (.str s) (by intro _ _ _; simp only [prettyTail, prettyPieces]; exact ⟨_, rfl⟩) (by simp [recase, tailElems]) hP, trivial⟩
  | chr c =>
    have hP := leafP (.chr c) (by intro _ _; simp [prettyPieces, printFlat])
    exact ⟨hP, leafQ (.chr c) (by intro _ _ _; simp only [prettyTail, prettyPieces]; exact ⟨_, rfl⟩) (by simp [recase, tailElems]) hP, trivial⟩
  | sym name =>
    have hP := leafP (.sym name) (by intro _ _; simp [prettyPieces, printFlat])
    exact ⟨hP, leafQ (.sym name) (by intro _ _ _; simp only [prettyTail, prettyPieces]; exact ⟨_, rfl⟩) (by simp [recase, tailElems]) hP, trivial⟩
  | flt ff neg ds e =>
    have hP := leafP (.flt ff neg ds e) (by intro _ _; simp [prettyPieces, printFlat])
    exact ⟨hP, leafQ (.flt ff neg ds e) (by intro _ _ _; simp only [prettyTail, prettyPieces]; exact ⟨_, rfl⟩) (by simp [recase, tailElems]) hP, trivial⟩
  | cons a d iha ihd =>
    have hR := pr_cons cfg margin a d iha.1 ihd.2.1
    refine ⟨?_, ?_, hR⟩
    · intro hwf offset closes rest fuel hrest hfuel
      obtain ⟨f, rfl⟩ : ∃ f, fuel = f + 1 := ⟨fuel - 1, by omega⟩
      obtain ⟨g, rfl⟩ : ∃ g, f = g + 1 := ⟨f - 1, by simp [osize] at hfuel; omega⟩
      rw [prettyPieces_cons_head, render_tok_cons]
      simp only [List.cons_append, List.nil_append, recase]
      rw [read1_paren, hR hwf offset closes rest g (by simp [osize] at hfuel; omega)]
      simp only [mapOk]
      rw [closeList_tailElems _ _ (recase_ne_dot cfg.case a hwf.2.1) (WF_noDot cfg.case d hwf.2.2)]
    · intro hwf off pos closes rest fuel acc hfuel
      simp only [prettyTail, recase, tailElems, List.cons_append]
      exact pq_cons cfg margin a d iha.1 ihd.2.1 hwf _ (chooseSep_allWs _ _ _ _ _).1 _ _ off _ closes rest fuel acc hfuel
  | vec e ih =>
    have hP : PP cfg margin (.vec e) := by
      intro hwf offset closes rest fuel hrest hfuel
      obtain ⟨f, rfl⟩ : ∃ f, fuel = f + 1 := ⟨fuel - 1, by omega⟩
      obtain ⟨g, rfl⟩ : ∃ g, f = g + 1 := ⟨f - 1, by simp [osize] at hfuel; omega⟩
      simp only [prettyPieces, vecWrap, hC.array, if_true, recase]
      cases e with
      | cons a d =>
        simp only
        rw [render_tok_cons, prettyPieces_cons_head, render_tok_cons]
        simp only [List.cons_append, List.nil_append]
        rw [read1_sharp_paren]
        have hR := ih.2.2 hwf.2 0 0 rest g (by simp [osize] at hfuel ⊢; omega)
        rw [hR]
        simp only [mapOk]
        have : mkProper (recase cfg.case a :: tailElems (recase cfg.case d)) = recase cfg.case (.cons a d) := by
          have := mkProper_tailElems (recase cfg.case (.cons a d)) (by rw [isList_recase]; exact hwf.1)
          simpa [recase, tailElems] using this
        rw [this]
      | nil =>
        simp only [render_tok, List.cons_append, List.nil_append]
        rw [read1_sharp_paren, readElems_close]
        simp [mapOk, mkProper, recase]
      | _ => simp [WF, isList] at hwf
    refine ⟨hP, leafQ (.vec e) (by intro _ _ _; simp only [prettyTail, prettyPieces]; exact ⟨_, rfl⟩) (by simp [recase, tailElems]) hP, trivial⟩
  | arr r c ih =>
    have hP : PP cfg margin (.arr r c) := by
      intro hwf offset closes rest fuel hrest hfuel
      obtain ⟨f, rfl⟩ : ∃ f, fuel = f + 1 := ⟨fuel - 1, by omega⟩
      obtain ⟨g, rfl⟩ : ∃ g, f = g + 1 := ⟨f - 1, by simp [osize] at hfuel; omega⟩
      simp only [prettyPieces, arrWrap, hC.array, if_true, recase]
      cases c with
      | cons a d =>
        simp only
        rw [render_tok_cons, prettyPieces_cons_head, render_tok_cons]
        simp only [arrPrefix, List.cons_append, List.nil_append, List.append_assoc]
        rw [read1_sharp_A]
        have hR := ih.2.2 hwf.2.2.2 0 0 rest g (by simp [osize] at hfuel ⊢; omega)
        rw [hR]
        have hr1 : r ≠ 1 := by have := hwf.1; omega
        simp only [mapOk, hr1, if_false]
        have : mkProper (recase cfg.case a :: tailElems (recase cfg.case d)) = recase cfg.case (.cons a d) := by
          have := mkProper_tailElems (recase cfg.case (.cons a d)) (by rw [isList_recase]; exact hwf.2.1)
          simpa [recase, tailElems] using this
        rw [this]
      | nil => exact absurd rfl hwf.2.2.1
      | _ => simp [WF, isList] at hwf
    refine ⟨hP, leafQ (.arr r c) (by intro _ _ _; simp only [prettyTail, prettyPieces]; exact ⟨_, rfl⟩) (by simp [recase, tailElems]) hP, trivial⟩


/-! the pretty text is at least as long as the object is big -/

theorem render_len_cons (p : Piece) (ps : List Piece) :
    (renderPieces (p :: ps)).length = p.text.length + (renderPieces ps).length := by
  simp [renderPieces]

theorem render_len_append (a b : List Piece) :
    (renderPieces (a ++ b)).length = (renderPieces a).length + (renderPieces b).length := by
  simp [renderPieces]

theorem chooseSep_len (margin off pos size t : Nat) : 1 ≤ (chooseSep margin off pos size t).1.length := by
  have := (chooseSep_allWs margin off pos size t).2
  cases h : (chooseSep margin off pos size t).1 with
  | nil => exact absurd h this
  | cons _ _ => simp

theorem dottedTail_len (margin off pos closes size : Nat) (atom : List Piece) :
    (renderPieces atom).length + 1 ≤ (renderPieces (dottedTail margin off pos closes size atom)).length := by
  obtain ⟨w1, w2, _, _, _, _, hr⟩ := render_dottedTail margin off pos closes size atom
  rw [hr]; simp; omega

theorem tail_cons_len (cfg : PCfg) (margin : Nat) (a d : Obj) (w : List Char) (o1 t1 off pos1 closes : Nat)
    (hw : 1 ≤ w.length)
    (h1 : osize a ≤ (renderPieces (prettyPieces cfg margin o1 t1 a)).length)
    (h2 : osize d ≤ (renderPieces (prettyTail cfg margin off pos1 closes d)).length) :
    osize (.cons a d) ≤ (renderPieces (.sep w :: (prettyPieces cfg margin o1 t1 a ++ prettyTail cfg margin off pos1 closes d))).length := by
  rw [render_len_cons, render_len_append]
  simp only [osize, Piece.text]
  omega

theorem pretty_size_le_length (hT : TablesOK) (cfg : PCfg) (hC : CfgOK cfg) (margin : Nat) : ∀ x : Obj,
    (WF x → ∀ offset closes, osize x ≤ (renderPieces (prettyPieces cfg margin offset closes x)).length) ∧
    (WF x → ∀ off pos closes, osize x ≤ (renderPieces (prettyTail cfg margin off pos closes x)).length) := by
  intro x
  have leaf : ∀ t : Obj, osize t = 1 → (∀ offset closes, prettyPieces cfg margin offset closes t = [.tok (printFlat cfg t)]) →
      (∀ off pos closes, ∃ size atom, prettyTail cfg margin off pos closes t = dottedTail margin off pos closes size atom) →
      (WF t → ∀ offset closes, osize t ≤ (renderPieces (prettyPieces cfg margin offset closes t)).length) ∧
      (WF t → ∀ off pos closes, osize t ≤ (renderPieces (prettyTail cfg margin off pos closes t)).length) := by
    intro t hs hp hq
    constructor
    · intro hwf offset closes
      rw [hp, render_tok]
      exact (size_le_length hT cfg hC t).1 hwf
    · intro _ off pos closes
      obtain ⟨size, atom, h⟩ := hq off pos closes
      rw [h, hs]
      have := dottedTail_len margin off pos closes size atom
      omega
  induction x with
  | nil =>
    constructor
    · intro hwf offset closes
      simp only [prettyPieces, render_tok]
      exact (size_le_length hT cfg hC .nil).1 hwf
    · intro _ off pos closes
      simp [prettyTail, render_tok, osize]
  | t => exact leaf .t rfl (by intro _ _; simp [prettyPieces, printFlat]) (by intro _ _ _; simp only [prettyTail]; exact ⟨_, _, rfl⟩)
  | int n => exact leaf (.int n) rfl (by intro _ _; simp [prettyPieces, printFlat]) (by intro _ _ _; simp only [prettyTail]; exact ⟨_, _, rfl⟩)
  | ratio a b => exact leaf (.ratio a b) rfl (by intro _ _; simp [prettyPieces, printFlat]) (by intro _ _ _; simp only [prettyTail]; exact ⟨_, _, rfl⟩)
  | str s => exact leaf (.str s) rfl (by intro _ _; simp [prettyPieces, printFlat]) (by intro _ _ _; simp only [prettyTail]; exact ⟨_, _, rfl⟩)
  | chr c => exact leaf (.chr c) rfl (by intro _ _; simp [prettyPieces, printFlat]) (by intro _ _ _; simp only [prettyTail]; exact ⟨_, _, rfl⟩)
  | sym s => exact leaf (.sym s) rfl (by intro _ _; simp [prettyPieces, printFlat]) (by intro _ _ _; simp only [prettyTail]; exact ⟨_, _, rfl⟩)
  | flt ff neg ds e => exact leaf (.flt ff neg ds e) rfl (by intro _ _; simp [prettyPieces, printFlat]) (by intro _ _ _; simp only [prettyTail]; exact ⟨_, _, rfl⟩)
  | cons a d iha ihd =>
    constructor
    · intro hwf offset closes
      by_cases hd : d = .nil
      · subst hd
        rw [prettyPieces_cons_nil, render_len_cons, render_len_append, render_tok]
        have := iha.1 hwf.1 (offset + 1) (closes + 1)
        simp [osize, Piece.text] at this ⊢
        omega
      · obtain ⟨off, pos, h⟩ := prettyPieces_cons_other cfg margin offset closes a d hd
        rw [h, render_len_cons, render_len_append]
        have h1 := iha.1 hwf.1 off 0
        have h2 := ihd.2 hwf.2.2 off pos closes
        simp [osize, Piece.text] at h1 h2 ⊢
        omega
    · intro hwf off pos closes
      simp only [prettyTail, List.cons_append]
      exact tail_cons_len cfg margin a d _ _ _ off _ closes (chooseSep_len _ _ _ _ _) (iha.1 hwf.1 _ _) (ihd.2 hwf.2.2 _ _ _)
  | vec e ih =>
    have hP : WF (.vec e) → ∀ offset closes, osize (.vec e) ≤ (renderPieces (prettyPieces cfg margin offset closes (.vec e))).length := by
      intro hwf offset closes
      simp only [prettyPieces, vecWrap, hC.array, if_true]
      cases e with
      | cons a d =>
        simp only
        rw [render_len_cons]
        have := ih.1 hwf.2 0 0
        simp [osize, Piece.text] at this ⊢
        omega
      | nil => simp [osize, renderPieces, Piece.text]
      | _ => simp [WF, isList] at hwf
    refine ⟨hP, ?_⟩
    intro hwf off pos closes
    have h1 := hP hwf 0 0
    simp only [prettyPieces] at h1
    simp only [prettyTail]
    have := dottedTail_len margin off pos closes (byteLen (renderPieces (vecWrap cfg e (prettyPieces cfg margin 0 0 e))))
      (vecWrap cfg e (prettyPieces cfg margin 0 0 e))
    omega
  | arr r c ih =>
    have hP : WF (.arr r c) → ∀ offset closes, osize (.arr r c) ≤ (renderPieces (prettyPieces cfg margin offset closes (.arr r c))).length := by
      intro hwf offset closes
      simp only [prettyPieces, arrWrap, hC.array, if_true]
      cases c with
      | cons a d =>
        simp only
        rw [render_len_cons]
        have := ih.1 hwf.2.2.2 0 0
        simp [osize, Piece.text, arrPrefix] at this ⊢
        omega
      | nil => exact absurd rfl hwf.2.2.1
      | _ => simp [WF, isList] at hwf
    refine ⟨hP, ?_⟩
    intro hwf off pos closes
    have h1 := hP hwf 0 0
    simp only [prettyPieces] at h1
    simp only [prettyTail]
    have := dottedTail_len margin off pos closes (byteLen (renderPieces (arrWrap cfg r c (prettyPieces cfg margin 0 0 c))))
      (arrWrap cfg r c (prettyPieces cfg margin 0 0 c))
    omega

end SlipVerif.Printer
