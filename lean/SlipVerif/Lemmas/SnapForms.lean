import SlipVerif.Model.SnapForms
/-
  C19 — helper lemmas about the evaluation order of the top-level forms of a snapshot.
  Property theorems: Theorems/C19.lean.
-/
namespace SlipVerif.SnapForms

/-- no form is placed before a form that defines something it needs -/
def NoFwd (fs : List Form) : Prop := fs.Pairwise (fun a b => b.defines ∉ a.needs)

theorem Head.mem_all (h : Head) : h ∈ Head.all := by
  cases h <;> simp [Head.all]

theorem tablesOk_spec {order hs : List String} (ht : tablesOk order hs = true) (h k : Head)
    (hk : k ∈ h.kindNeeds) :
    secIdx order k ≤ secIdx order h ∧ (hoisted hs h = true → hoisted hs k = true) := by
  unfold tablesOk at ht
  rw [List.all_eq_true] at ht
  have h1 := ht h (Head.mem_all h)
  rw [Bool.and_eq_true, List.all_eq_true] at h1
  have h2 := h1.2 k hk
  rw [Bool.and_eq_true, decide_eq_true_eq] at h2
  refine ⟨h2.1, fun hh => ?_⟩
  have h3 := h2.2
  rw [hh] at h3
  simpa using h3

/-- forms evaluated in an order without forward needs all find their needs defined -/
theorem loadForms_ok_of_noFwd : ∀ (fs : List Form) (defd : List (Head × String)),
    NoFwd fs → (∀ f ∈ fs, f.defines ∉ f.needs) →
    (∀ f ∈ fs, ∀ n ∈ f.needs, n ∈ defd ∨ ∃ g ∈ fs, g.defines = n) →
    loadForms fs defd = .ok ()
  | [], _, _, _, _ => rfl
  | f :: rest, defd, hp, hself, hdef => by
    have hp' := List.pairwise_cons.mp hp
    have hall : (f.needs.all fun n => defd.contains n) = true := by
      rw [List.all_eq_true]
      intro n hn
      rcases hdef f List.mem_cons_self n hn with hd | ⟨g, hg, hgn⟩
      · simpa using hd
      · rcases List.mem_cons.mp hg with rfl | hgr
        · exact absurd (hgn ▸ hn) (hself g List.mem_cons_self)
        · exact absurd (hgn ▸ hn) (hp'.1 g hgr)
    unfold loadForms
    rw [if_pos hall]
    apply loadForms_ok_of_noFwd rest (f.defines :: defd) hp'.2
    · intro g hg
      exact hself g (List.mem_cons_of_mem _ hg)
    · intro g hg n hn
      rcases hdef g (List.mem_cons_of_mem _ hg) n hn with hd | ⟨g', hg', hgn⟩
      · exact Or.inl (List.mem_cons_of_mem _ hd)
      · rcases List.mem_cons.mp hg' with rfl | hgr
        · exact Or.inl (hgn ▸ List.mem_cons_self)
        · exact Or.inr ⟨g', hgr, hgn⟩

theorem mem_loadOrder (hs : List String) (fs : List Form) (f : Form) :
    f ∈ loadOrder hs fs ↔ f ∈ fs := by
  unfold loadOrder
  rw [List.mem_append, List.mem_filter, List.mem_filter]
  constructor
  · rintro (h | h) <;> exact h.1
  · intro h
    cases hh : hoisted hs f.head
    · exact Or.inr ⟨h, by simp⟩
    · exact Or.inl ⟨h, rfl⟩

/-- hoisting keeps a text free of forward needs when hoisted forms need hoisted kinds only -/
theorem noFwd_loadOrder (hs : List String) (fs : List Form) (h1 : NoFwd fs)
    (h2 : ∀ f ∈ fs, hoisted hs f.head = true → ∀ n ∈ f.needs, hoisted hs n.1 = true) :
    NoFwd (loadOrder hs fs) := by
  unfold NoFwd loadOrder
  rw [List.pairwise_append]
  refine ⟨h1.filter _, h1.filter _, ?_⟩
  intro a ha b hb hmem
  rw [List.mem_filter] at ha hb
  have := h2 a ha.1 ha.2 _ hmem
  have hb2 := hb.2
  simp only [Form.defines] at this
  rw [this] at hb2
  simp at hb2

/-- sections written in order, no forward need inside a section, needs of the kinds the table
    allows: the text has no forward need at all -/
theorem noFwd_of_sections (order hs : List String) (fs : List Form)
    (ht : tablesOk order hs = true)
    (hsec : fs.Pairwise (fun a b => secIdx order a.head ≤ secIdx order b.head))
    (hin : fs.Pairwise (fun a b => secIdx order a.head = secIdx order b.head → b.defines ∉ a.needs))
    (hk : ∀ f ∈ fs, ∀ n ∈ f.needs, n.1 ∈ f.head.kindNeeds) : NoFwd fs := by
  unfold NoFwd
  refine List.Pairwise.imp_of_mem ?_ (hsec.and hin)
  intro a b ha _ hab hmem
  have hle := (tablesOk_spec ht a.head b.head (hk a ha _ hmem)).1
  exact hab.2 (Nat.le_antisymm hab.1 hle) hmem

end SlipVerif.SnapForms
