import SlipVerif.Model.LoadForm
import Mathlib.Data.List.Perm.Subperm
import Mathlib.Data.String.Basic
/-
  C19 — helper lemmas about the snapshot order: worlds (reachability sets of a DAG) and the
  flattening `closeHistory` of a history of definitions. Property theorems: Theorems/C19.lean.
-/
namespace SlipVerif.LoadForm

/-- The definitions of a world: inheritance sets are duplicate free, transitively closed and
    irreflexive (i.e. they are the reachability sets of a DAG), names identify definitions. -/
structure World (ns : List Node) : Prop where
  nodup : ∀ a ∈ ns, a.inherits.Nodup
  closed : ∀ a ∈ ns, ∀ b ∈ ns, b.name ∈ a.inherits → b.inherits ⊆ a.inherits
  irrefl : ∀ a ∈ ns, a.name ∉ a.inherits
  names : ∀ a ∈ ns, ∀ b ∈ ns, a.name = b.name → a = b

/-! ### the sort by (number of inherited definitions, name) -/

/-- in a world, a definition inherits strictly more than each of its components -/
theorem World.inherits_lt {ns : List Node} (w : World ns) {a b : Node} (ha : a ∈ ns) (hb : b ∈ ns)
    (h : b.name ∈ a.inherits) : b.inherits.length < a.inherits.length := by
  have hsub : b.inherits ⊆ a.inherits.erase b.name := by
    intro x hx
    have hxa : x ∈ a.inherits := w.closed a ha b hb h hx
    have hne : x ≠ b.name := fun e => w.irrefl b hb (e ▸ hx)
    exact (List.mem_erase_of_ne hne).mpr hxa
  have hle := ((w.nodup b hb).subperm hsub).length_le
  rw [List.length_erase_of_mem h] at hle
  have hpos : 0 < a.inherits.length := List.length_pos_of_mem h
  omega

theorem keyLe_total (a b : Node) : keyLe a b = true ∨ keyLe b a = true := by
  unfold keyLe
  rcases Nat.lt_trichotomy a.inherits.length b.inherits.length with h | h | h
  · left; simp [h]
  · rcases le_total a.name b.name with h' | h'
    · left; simp [h, h']
    · right; simp [h, h']
  · right; simp [h]

theorem keyLe_trans (a b c : Node) (h1 : keyLe a b = true) (h2 : keyLe b c = true) :
    keyLe a c = true := by
  unfold keyLe at *
  simp only [Bool.or_eq_true, Bool.and_eq_true, decide_eq_true_eq, beq_iff_eq] at *
  rcases h1 with h1 | ⟨h1, h1'⟩ <;> rcases h2 with h2 | ⟨h2, h2'⟩
  · left; omega
  · left; omega
  · left; omega
  · right; exact ⟨by omega, le_trans h1' h2'⟩

theorem insertBy_perm (le : Node → Node → Bool) (x : Node) (l : List Node) :
    (insertBy le x l).Perm (x :: l) := by
  induction l with
  | nil => simp [insertBy]
  | cons y ys ih =>
    unfold insertBy
    split
    · exact List.Perm.refl _
    · exact ((List.Perm.cons y ih).trans (List.Perm.swap x y ys))

theorem sortBy_perm (le : Node → Node → Bool) (l : List Node) : (sortBy le l).Perm l := by
  induction l with
  | nil => simp [sortBy]
  | cons x xs ih => exact (insertBy_perm le x _).trans (List.Perm.cons x ih)

theorem insertBy_sorted (x : Node) (l : List Node) (h : l.Pairwise (fun a b => keyLe a b = true)) :
    (insertBy keyLe x l).Pairwise (fun a b => keyLe a b = true) := by
  induction l with
  | nil => simp [insertBy]
  | cons y ys ih =>
    have hy := List.pairwise_cons.mp h
    unfold insertBy
    split
    · rename_i hxy
      refine List.pairwise_cons.mpr ⟨?_, h⟩
      intro z hz
      rcases List.mem_cons.mp hz with rfl | hz
      · exact hxy
      · exact keyLe_trans _ _ _ hxy (hy.1 z hz)
    · rename_i hxy
      refine List.pairwise_cons.mpr ⟨?_, ih hy.2⟩
      intro z hz
      have hz' := (insertBy_perm keyLe x ys).subset hz
      rcases List.mem_cons.mp hz' with rfl | hz'
      · rcases keyLe_total z y with h' | h'
        · exact absurd h' hxy
        · exact h'
      · exact hy.1 z hz'

/-! ### flattening a history of definitions -/

theorem mem_addUnique (acc : List String) (x y : String) :
    y ∈ addUnique acc x ↔ y ∈ acc ∨ y = x := by
  by_cases h : x ∈ acc
  · simp only [addUnique, List.contains_iff_mem, h, if_true]
    constructor
    · exact Or.inl
    · rintro (h' | rfl)
      · exact h'
      · exact h
  · simp [addUnique, h]

theorem nodup_addUnique (acc : List String) (x : String) (h : acc.Nodup) : (addUnique acc x).Nodup := by
  by_cases hc : x ∈ acc
  · simp [addUnique, hc, h]
  · simp only [addUnique, List.contains_iff_mem, hc, if_false]
    rw [List.nodup_append]
    refine ⟨h, by simp, ?_⟩
    intro a ha b hb
    simp at hb
    subst hb
    intro e; subst e; exact hc ha

theorem mem_foldl_addUnique (l acc : List String) (y : String) :
    y ∈ l.foldl addUnique acc ↔ y ∈ acc ∨ y ∈ l := by
  induction l generalizing acc with
  | nil => simp
  | cons x xs ih =>
    simp only [List.foldl_cons, ih, mem_addUnique, List.mem_cons]
    constructor
    · rintro ((h | h) | h)
      · exact Or.inl h
      · exact Or.inr (Or.inl h)
      · exact Or.inr (Or.inr h)
    · rintro (h | h | h)
      · exact Or.inl (Or.inl h)
      · exact Or.inl (Or.inr h)
      · exact Or.inr h

theorem nodup_foldl_addUnique (l acc : List String) (h : acc.Nodup) : (l.foldl addUnique acc).Nodup := by
  induction l generalizing acc with
  | nil => simpa
  | cons x xs ih => exact ih _ (nodup_addUnique acc x h)

theorem nodup_inhStep (done : List Node) (acc : List String) (d : String) (h : acc.Nodup) :
    (inhStep done acc d).Nodup := by
  unfold inhStep
  split
  · exact nodup_foldl_addUnique _ _ (nodup_addUnique _ _ h)
  · exact h

theorem mem_inhStep (done : List Node) (acc : List String) (d y : String) :
    y ∈ inhStep done acc d ↔
      y ∈ acc ∨ ∃ n, done.find? (·.name == d) = some n ∧ (y = d ∨ y ∈ n.inherits) := by
  unfold inhStep
  split
  · rename_i n hn
    simp only [mem_foldl_addUnique, mem_addUnique]
    constructor
    · rintro ((h | h) | h)
      · exact Or.inl h
      · exact Or.inr ⟨n, hn, Or.inl h⟩
      · exact Or.inr ⟨n, hn, Or.inr h⟩
    · rintro (h | ⟨n', hn', h⟩)
      · exact Or.inl (Or.inl h)
      · have : n' = n := by rw [hn] at hn'; exact (Option.some.inj hn').symm
        subst this
        rcases h with h | h
        · exact Or.inl (Or.inr h)
        · exact Or.inr h
  · rename_i hn
    constructor
    · exact Or.inl
    · rintro (h | ⟨n, hn', _⟩)
      · exact h
      · simp [hn] at hn'

theorem nodup_foldl_inhStep (done : List Node) (l acc : List String) (h : acc.Nodup) :
    (l.foldl (inhStep done) acc).Nodup := by
  induction l generalizing acc with
  | nil => simpa
  | cons x xs ih => exact ih _ (nodup_inhStep done acc x h)

theorem mem_foldl_inhStep (done : List Node) (l acc : List String) (y : String) :
    y ∈ l.foldl (inhStep done) acc ↔
      y ∈ acc ∨ ∃ d ∈ l, ∃ n, done.find? (·.name == d) = some n ∧ (y = d ∨ y ∈ n.inherits) := by
  induction l generalizing acc with
  | nil => simp
  | cons x xs ih =>
    simp only [List.foldl_cons, ih, mem_inhStep, List.mem_cons]
    constructor
    · rintro ((h | ⟨n, hn, h⟩) | ⟨d, hd, n, hn, h⟩)
      · exact Or.inl h
      · exact Or.inr ⟨x, Or.inl rfl, n, hn, h⟩
      · exact Or.inr ⟨d, Or.inr hd, n, hn, h⟩
    · rintro (h | ⟨d, hd | hd, n, hn, h⟩)
      · exact Or.inl (Or.inl h)
      · subst hd; exact Or.inl (Or.inr ⟨n, hn, h⟩)
      · exact Or.inr ⟨d, hd, n, hn, h⟩


/-- every inherited name is the name of a definition of the list -/
def Grounded (ns : List Node) : Prop := ∀ a ∈ ns, ∀ x ∈ a.inherits, ∃ b ∈ ns, b.name = x

/-- a history of definitions as a session makes them: each definition has a fresh name and names
    only definitions made before it as its direct components -/
def HistoryOk : List (String × List String) → List String → Prop
  | [], _ => True
  | (n, ds) :: rest, seen => n ∉ seen ∧ (∀ d ∈ ds, d ∈ seen) ∧ HistoryOk rest (seen ++ [n])

theorem find_name (done : List Node) (d : String) (n : Node)
    (h : done.find? (·.name == d) = some n) : n ∈ done ∧ n.name = d := by
  refine ⟨List.mem_of_find?_eq_some h, ?_⟩
  have := List.find?_some h
  simpa using this

theorem step_world (done : List Node) (name : String) (direct : List String)
    (w : World done) (g : Grounded done) (fresh : ∀ b ∈ done, b.name ≠ name) :
    World (done ++ [{ name := name, inherits := direct.foldl (inhStep done) [] }]) ∧
    Grounded (done ++ [{ name := name, inherits := direct.foldl (inhStep done) [] }]) := by
  -- everything the new definition inherits is an earlier definition
  have F : ∀ y ∈ direct.foldl (inhStep done) [], ∃ b ∈ done, b.name = y := by
    intro y hy
    rcases (mem_foldl_inhStep done direct [] y).mp hy with h | ⟨d, _, n, hn, h⟩
    · simp at h
    · have ⟨hnd, hnn⟩ := find_name done d n hn
      rcases h with h | h
      · exact ⟨n, hnd, by rw [hnn, h]⟩
      · exact g n hnd y h
  have notin : name ∉ direct.foldl (inhStep done) [] := by
    intro h
    obtain ⟨b, hb, hbn⟩ := F name h
    exact fresh b hb hbn
  have memc : ∀ a, a ∈ done ++ [{ name := name, inherits := direct.foldl (inhStep done) [] : Node }] ↔
      a ∈ done ∨ a = { name := name, inherits := direct.foldl (inhStep done) [] } := by
    intro a; simp
  refine ⟨⟨?_, ?_, ?_, ?_⟩, ?_⟩
  · intro a ha
    rcases (memc a).mp ha with h | h
    · exact w.nodup a h
    · subst h; exact nodup_foldl_inhStep done direct [] (by simp)
  · intro a ha b hb hin
    rcases (memc a).mp ha with ha' | ha' <;> rcases (memc b).mp hb with hb' | hb'
    · exact w.closed a ha' b hb' hin
    · subst hb'
      obtain ⟨c, hc, hcn⟩ := g a ha' name hin
      exact absurd hcn (fresh c hc)
    · subst ha'
      simp only at hin ⊢
      intro x hx
      rcases (mem_foldl_inhStep done direct [] b.name).mp hin with h | ⟨d, hd, n, hn, h⟩
      · simp at h
      · have ⟨hnd, hnn⟩ := find_name done d n hn
        rcases h with h | h
        · have : n = b := w.names n hnd b hb' (by rw [hnn, h])
          subst this
          exact (mem_foldl_inhStep done direct [] x).mpr (Or.inr ⟨d, hd, n, hn, Or.inr hx⟩)
        · have hsub := w.closed n hnd b hb' h
          exact (mem_foldl_inhStep done direct [] x).mpr (Or.inr ⟨d, hd, n, hn, Or.inr (hsub hx)⟩)
    · subst ha'; subst hb'
      exact absurd hin notin
  · intro a ha
    rcases (memc a).mp ha with h | h
    · exact w.irrefl a h
    · subst h; exact notin
  · intro a ha b hb hab
    rcases (memc a).mp ha with ha' | ha' <;> rcases (memc b).mp hb with hb' | hb'
    · exact w.names a ha' b hb' hab
    · subst hb'; exact absurd hab (fresh a ha')
    · subst ha'; exact absurd hab.symm (fresh b hb')
    · subst ha'; subst hb'; rfl
  · intro a ha x hx
    rcases (memc a).mp ha with h | h
    · obtain ⟨b, hb, hbn⟩ := g a h x hx
      exact ⟨b, (memc b).mpr (Or.inl hb), hbn⟩
    · subst h
      obtain ⟨b, hb, hbn⟩ := F x hx
      exact ⟨b, (memc b).mpr (Or.inl hb), hbn⟩

theorem closeHistory_inv : ∀ (hist : List (String × List String)) (done : List Node),
    World done → Grounded done → HistoryOk hist (done.map (·.name)) →
    World (closeHistory hist done)
  | [], done, w, _, _ => by simpa [closeHistory] using w
  | (name, direct) :: rest, done, w, g, h => by
    obtain ⟨hfresh, _, hrest⟩ := h
    have fresh : ∀ b ∈ done, b.name ≠ name := by
      intro b hb e
      exact hfresh (List.mem_map.mpr ⟨b, hb, e⟩)
    obtain ⟨w', g'⟩ := step_world done name direct w g fresh
    simp only [closeHistory]
    refine closeHistory_inv rest _ w' g' ?_
    simpa [List.map_append] using hrest

/-! ### loading flavor definitions in a given order -/

theorem loadFlavors_ok : ∀ (l pre : List Node),
    (∀ a ∈ l, ∀ x ∈ a.inherits, ∃ b ∈ pre ++ l, b.name = x) →
    l.Pairwise (fun x y => y.name ∉ x.inherits) →
    (∀ a ∈ l, a.name ∉ a.inherits) →
    loadFlavors l (pre.map (·.name)) = .ok ((pre ++ l).map (·.name))
  | [], pre, _, _, _ => by simp [loadFlavors]
  | n :: rest, pre, hg, hp, hirr => by
    have hpc := List.pairwise_cons.mp hp
    have hall : n.inherits.all (fun i => (pre.map (·.name)).contains i) = true := by
      rw [List.all_eq_true]
      intro x hx
      obtain ⟨b, hb, hbn⟩ := hg n (by simp) x hx
      rcases List.mem_append.mp hb with hb | hb
      · simp only [List.contains_iff_mem]
        exact List.mem_map.mpr ⟨b, hb, hbn⟩
      · rcases List.mem_cons.mp hb with rfl | hb
        · exact absurd (hbn ▸ hx) (hirr b (by simp))
        · exact absurd (hbn ▸ hx) (hpc.1 b hb)
    simp only [loadFlavors, hall, if_true]
    have := loadFlavors_ok rest (pre ++ [n])
      (by
        intro a ha x hx
        obtain ⟨b, hb, hbn⟩ := hg a (List.mem_cons_of_mem _ ha) x hx
        exact ⟨b, by simpa [List.append_assoc] using hb, hbn⟩)
      hpc.2 (fun a ha => hirr a (List.mem_cons_of_mem _ ha))
    simpa [List.map_append, List.append_assoc] using this


end SlipVerif.LoadForm
