import SlipVerif.Model.Eval
/-! Lemmas about the reference evaluator: fuel monotonicity (the framework: `step` is monotone in
its `rec` argument for the order "is a timeout, or equal"). -/
namespace SlipVerif.Eval

/-- `r ⊑ r'`: `r` is a timeout, or the two results are equal -/
def Le (r r' : Res) : Prop := r.1 = .timeout ∨ r = r'

theorem Le.refl (r : Res) : Le r r := Or.inr rfl

theorem Le.timeout (σ : St) (r' : Res) : Le (.timeout, σ) r' := Or.inl rfl

theorem bindV_mono {r r' : Res} {k k' : List Obj → St → Res}
    (h : Le r r') (hk : ∀ vs σ, Le (k vs σ) (k' vs σ)) : Le (bindV r k) (bindV r' k') := by
  obtain ⟨o, σ⟩ := r
  rcases h with h | h
  · simp at h; subst h; exact Or.inl rfl
  · subst h
    cases o <;> simp [bindV, Le.refl] <;> exact hk _ _

theorem andThen_mono {r r' : Res} {k k' : Out → St → Res}
    (h : Le r r') (hk : ∀ o σ, Le (k o σ) (k' o σ)) : Le (andThen r k) (andThen r' k') := by
  obtain ⟨o, σ⟩ := r
  rcases h with h | h
  · simp at h; subst h; exact Or.inl rfl
  · subst h
    cases o <;> simp [andThen, Le.refl] <;> exact hk _ _

theorem catchRet_mono {r r' : Res} (id : Nat) (h : Le r r') : Le (catchRet id r) (catchRet id r') := by
  obtain ⟨o, σ⟩ := r
  rcases h with h | h
  · simp at h; subst h; exact Or.inl rfl
  · subst h; exact Le.refl _

/-- pointwise order on evaluators -/
def RecLe (f g : Task → St → Res) : Prop := ∀ t σ, Le (f t σ) (g t σ)

syntax "mono_tac " ident : tactic
macro_rules
  | `(tactic| mono_tac $h) => `(tactic| repeat (first
      | exact Le.refl _
      | exact $h _ _
      | apply bindV_mono
      | apply andThen_mono
      | apply catchRet_mono
      | intro _
      | split))

variable {f g : Task → St → Res}

theorem stepSeq_mono (h : RecLe f g) (ρ es σ) : Le (stepSeq f ρ es σ) (stepSeq g ρ es σ) := by
  unfold stepSeq
  mono_tac h

theorem stepArgs_mono (h : RecLe f g) (ρ es σ) : Le (stepArgs f ρ es σ) (stepArgs g ρ es σ) := by
  unfold stepArgs
  mono_tac h

theorem stepCond_mono (h : RecLe f g) (ρ cs σ) : Le (stepCond f ρ cs σ) (stepCond g ρ cs σ) := by
  unfold stepCond
  mono_tac h

theorem stepAnd_mono (h : RecLe f g) (ρ es σ) : Le (stepAnd f ρ es σ) (stepAnd g ρ es σ) := by
  unfold stepAnd
  mono_tac h

theorem stepOr_mono (h : RecLe f g) (ρ es σ) : Le (stepOr f ρ es σ) (stepOr g ρ es σ) := by
  unfold stepOr
  mono_tac h

theorem stepLetStar_mono (h : RecLe f g) (ρ bs body σ) :
    Le (stepLetStar f ρ bs body σ) (stepLetStar g ρ bs body σ) := by
  unfold stepLetStar
  mono_tac h

theorem stepSetq_mono (h : RecLe f g) (ρ ps last σ) : Le (stepSetq f ρ ps last σ) (stepSetq g ρ ps last σ) := by
  unfold stepSetq
  mono_tac h

theorem stepTagbody_mono (h : RecLe f g) (ρ id all rest σ) :
    Le (stepTagbody f ρ id all rest σ) (stepTagbody g ρ id all rest σ) := by
  unfold stepTagbody
  mono_tac h

theorem stepDolist_mono (h : RecLe f g) (ρ fid var items body tbid result σ) :
    Le (stepDolist f ρ fid var items body tbid result σ) (stepDolist g ρ fid var items body tbid result σ) := by
  unfold stepDolist
  mono_tac h

theorem stepDotimes_mono (h : RecLe f g) (ρ fid var i count body tbid result σ) :
    Le (stepDotimes f ρ fid var i count body tbid result σ) (stepDotimes g ρ fid var i count body tbid result σ) := by
  unfold stepDotimes
  mono_tac h

theorem stepDoStarInit_mono (h : RecLe f g) (ρ bs spec σ) :
    Le (stepDoStarInit f ρ bs spec σ) (stepDoStarInit g ρ bs spec σ) := by
  unfold stepDoStarInit
  mono_tac h

theorem stepDoLoop_mono (h : RecLe f g) (ρ spec σ) : Le (stepDoLoop f ρ spec σ) (stepDoLoop g ρ spec σ) := by
  unfold stepDoLoop
  mono_tac h

theorem stepDoSteps_mono (h : RecLe f g) (ρ vars σ) : Le (stepDoSteps f ρ vars σ) (stepDoSteps g ρ vars σ) := by
  unfold stepDoSteps
  mono_tac h

theorem stepMapcar_mono (h : RecLe f g) (fn l1 l2 acc σ) :
    Le (stepMapcar f fn l1 l2 acc σ) (stepMapcar g fn l1 l2 acc σ) := by
  unfold stepMapcar
  mono_tac h

theorem callClosure_mono (h : RecLe f g) (args cid σ) :
    Le (callClosure f args cid σ) (callClosure g args cid σ) := by
  unfold callClosure
  mono_tac h

theorem callNamed_mono (h : RecLe f g) (args name σ) :
    Le (callNamed f args name σ) (callNamed g args name σ) := by
  unfold callNamed
  split
  · exact callClosure_mono h _ _ _
  · exact Le.refl _

theorem stepApply_mono (h : RecLe f g) (fn args σ) : Le (stepApply f fn args σ) (stepApply g fn args σ) := by
  unfold stepApply
  split
  · exact callClosure_mono h _ _ _
  · exact callNamed_mono h _ _ _
  · exact callNamed_mono h _ _ _
  · exact Le.refl _

theorem stepForm_mono (h : RecLe f g) (ρ head a σ) : Le (stepForm f ρ head a σ) (stepForm g ρ head a σ) := by
  unfold stepForm
  mono_tac h

theorem stepEval_mono (h : RecLe f g) (ρ e σ) : Le (stepEval f ρ e σ) (stepEval g ρ e σ) := by
  unfold stepEval
  split
  · mono_tac h
  · split
    · exact stepForm_mono h _ _ _ _
    · exact Le.refl _
  · mono_tac h
  · exact Le.refl _
  · exact Le.refl _

theorem step_mono (h : RecLe f g) : RecLe (step f) (step g) := by
  intro t σ
  cases t <;> simp only [step]
  · exact stepEval_mono h _ _ _
  · exact stepSeq_mono h _ _ _
  · exact stepArgs_mono h _ _ _
  · exact stepApply_mono h _ _ _
  · exact stepCond_mono h _ _ _
  · exact stepAnd_mono h _ _ _
  · exact stepOr_mono h _ _ _
  · exact stepLetStar_mono h _ _ _ _
  · exact stepSetq_mono h _ _ _ _
  · exact stepTagbody_mono h _ _ _ _ _
  · exact stepDolist_mono h _ _ _ _ _ _ _ _
  · exact stepDotimes_mono h _ _ _ _ _ _ _ _ _
  · exact stepDoStarInit_mono h _ _ _ _
  · exact stepDoLoop_mono h _ _ _
  · exact stepDoSteps_mono h _ _ _
  · exact stepMapcar_mono h _ _ _ _ _

/-- more fuel never changes a result that is not a timeout -/
theorem evalN_le_succ (n : Nat) : RecLe (evalN n) (evalN (n + 1)) := by
  induction n with
  | zero => intro t σ; exact Le.timeout _ _
  | succ n ih => exact step_mono ih

theorem evalN_le_add (n k : Nat) : RecLe (evalN n) (evalN (n + k)) := by
  induction k with
  | zero => intro t σ; exact Le.refl _
  | succ k ih =>
    intro t σ
    rcases ih t σ with h | h
    · exact Or.inl h
    · rw [h]; exact evalN_le_succ (n + k) t σ

end SlipVerif.Eval
