import SlipVerif.Model.Dispatch
/-
  Helper lemmas for Theorems/C10.lean (association lists as maps, the abstraction of the method
  table, the nested walk as a filter over `keys`, running a combined method as the four ordered
  lists).
-/
namespace SlipVerif.Dispatch

/-! ## association lists -/

theorem lookup_erase {κ α : Type} [DecidableEq κ] (m : List (κ × α)) (k k' : κ) :
    lookup (erase m k) k' = if k' = k then none else lookup m k' := by
  induction m with
  | nil => simp [erase, lookup]
  | cons p rest ih =>
    obtain ⟨k0, v⟩ := p
    by_cases h0 : k0 = k
    · subst h0
      by_cases h1 : k' = k0
      · subst h1; simp [erase, ih]
      · have h2 : ¬ k0 = k' := fun h => h1 h.symm
        simp [erase, lookup, ih, h1, h2]
    · by_cases h1 : k0 = k'
      · subst h1
        simp [erase, lookup, h0]
      · simp [erase, lookup, h0, h1, ih]

theorem lookup_insert {κ α : Type} [DecidableEq κ] (m : List (κ × α)) (k k' : κ) (v : α) :
    lookup (insert m k v) k' = if k' = k then some v else lookup m k' := by
  by_cases h : k' = k
  · subst h; simp [insert, lookup]
  · have h2 : ¬ k = k' := fun e => h e.symm
    simp [insert, lookup, h, h2, lookup_erase]

/-! ## the abstract table of a concrete method table -/

/-- what the concrete table holds under a specializer tuple and qualifier -/
def absT (ms : Methods) : Table := fun k q => (lookup ms k).bind (fun c => c.get q)

/-- every stored combination holds at least one daemon (Go deletes the key otherwise) -/
def NoEmpty (ms : Methods) : Prop := ∀ k c, lookup ms k = some c → c.isEmpty = false

theorem Combo.get_set (c : Combo) (q q' : Qual) (b : Option Body) :
    (c.set q b).get q' = if q' = q then b else c.get q' := by
  cases q <;> cases q' <;> simp [Combo.set, Combo.get]

theorem Combo.empty_get (q : Qual) : Combo.empty.get q = none := by
  cases q <;> rfl

theorem Combo.isEmpty_iff (c : Combo) : c.isEmpty = true ↔ ∀ q, c.get q = none := by
  constructor
  · intro h q
    simp [Combo.isEmpty] at h
    obtain ⟨⟨⟨h1, h2⟩, h3⟩, h4⟩ := h
    cases q <;> simp [Combo.get, *]
  · intro h
    have h1 := h .primary; have h2 := h .before; have h3 := h .after; have h4 := h .around
    simp [Combo.get] at h1 h2 h3 h4
    simp [Combo.isEmpty, *]

theorem Combo.set_some_not_empty (c : Combo) (q : Qual) (b : Body) :
    (c.set q (some b)).isEmpty = false := by
  cases q <;> simp [Combo.set, Combo.isEmpty]

theorem absT_addMethod (ms : Methods) (q : Qual) (k : Key) (b : Body) :
    absT (addMethod ms q k b) = (absT ms).set k q (some b) := by
  funext k' q'
  unfold addMethod absT Table.set
  cases hl : lookup ms k with
  | none =>
    by_cases hk : k' = k
    · subst hk
      by_cases hq : q' = q <;> simp [lookup_insert, Combo.get_set, Combo.empty_get, hq, hl]
    · simp [lookup_insert, hk]
  | some c =>
    by_cases hk : k' = k
    · subst hk
      by_cases hq : q' = q <;> simp [lookup_insert, Combo.get_set, hq, hl]
    · simp [lookup_insert, hk]

theorem absT_removeMethod (ms : Methods) (q : Qual) (k : Key) :
    absT (removeMethod ms q k) = (absT ms).set k q none := by
  funext k' q'
  unfold removeMethod absT Table.set
  cases hl : lookup ms k with
  | none =>
    by_cases hk : k' = k
    · subst hk
      by_cases hq : q' = q <;> simp [hq, hl]
    · simp [hk]
  | some c =>
    by_cases he : (c.set q none).isEmpty = true
    · simp only [he, if_true]
      by_cases hk : k' = k
      · subst hk
        have := (Combo.isEmpty_iff _).1 he q'
        rw [Combo.get_set] at this
        by_cases hq : q' = q
        · simp [lookup_erase, hq]
        · simp [hq] at this
          simp [lookup_erase, hq, hl, this]
      · simp [lookup_erase, hk]
    · simp only [if_neg he]
      by_cases hk : k' = k
      · subst hk
        by_cases hq : q' = q <;> simp [lookup_insert, Combo.get_set, hq, hl]
      · simp [lookup_insert, hk]

theorem noEmpty_nil : NoEmpty [] := by
  intro k c h; simp [lookup] at h

theorem noEmpty_addMethod (ms : Methods) (q : Qual) (k : Key) (b : Body) (h : NoEmpty ms) :
    NoEmpty (addMethod ms q k b) := by
  intro k' c' hc
  unfold addMethod at hc
  cases hl : lookup ms k with
  | none =>
    simp only [hl, lookup_insert] at hc
    by_cases hk : k' = k
    · simp [hk] at hc; subst hc; exact Combo.set_some_not_empty _ _ _
    · simp [hk] at hc; exact h _ _ hc
  | some c =>
    simp only [hl, lookup_insert] at hc
    by_cases hk : k' = k
    · simp [hk] at hc; subst hc; exact Combo.set_some_not_empty _ _ _
    · simp [hk] at hc; exact h _ _ hc

theorem noEmpty_removeMethod (ms : Methods) (q : Qual) (k : Key) (h : NoEmpty ms) :
    NoEmpty (removeMethod ms q k) := by
  intro k' c' hc
  unfold removeMethod at hc
  cases hl : lookup ms k with
  | none => simp only [hl] at hc; exact h _ _ hc
  | some c =>
    simp only [hl] at hc
    by_cases he : (c.set q none).isEmpty = true
    · simp only [he, if_true, lookup_erase] at hc
      by_cases hk : k' = k
      · simp [hk] at hc
      · simp [hk] at hc; exact h _ _ hc
    · rw [if_neg he, lookup_insert] at hc
      by_cases hk : k' = k
      · simp [hk] at hc; subst hc; simpa using he
      · simp [hk] at hc; exact h _ _ hc

/-! ## the nested walk is a filter over the lexicographic enumeration -/

theorem collect_eq (ms : Methods) (hs : List (List Cls)) (pre : Key) :
    collect ms hs pre = (keys hs).filterMap (fun k => lookup ms (pre ++ k)) := by
  induction hs generalizing pre with
  | nil =>
    simp only [collect, keys, List.filterMap_cons, List.filterMap_nil, List.append_nil]
    cases lookup ms pre <;> rfl
  | cons h hs ih =>
    simp only [collect, keys, ih]
    induction h with
    | nil => simp
    | cons c cs ihc =>
      simp only [List.flatMap_cons, List.filterMap_append, ihc]
      congr 1
      rw [List.filterMap_map]
      congr 1
      funext k
      simp [Function.comp]

theorem collect_nil_pre (ms : Methods) (hs : List (List Cls)) :
    collect ms hs [] = (keys hs).filterMap (lookup ms) := by
  rw [collect_eq]; simp

/-- the daemons of one qualifier in a collected method are the applicable methods of the table -/
theorem collected_get (ms : Methods) (precs : List (List Cls)) (q : Qual) :
    ((keys precs).filterMap (lookup ms)).filterMap (fun c => c.get q) = applicable (absT ms) precs q := by
  unfold applicable absT
  rw [List.filterMap_filterMap]

/-! ## running a combined method -/

theorem runBefores_eq (all : List Combo) :
    runBefores all = (all.filterMap (fun c => c.before)).map (fun b => Ev.run b.id) := by
  induction all with
  | nil => rfl
  | cons c cs ih =>
    cases hb : c.before <;> simp [runBefores, hb, ih]

theorem firstPrimary_eq (all : List Combo) :
    firstPrimary all = (all.filterMap (fun c => c.primary)).head? := by
  induction all with
  | nil => rfl
  | cons c cs ih =>
    cases hb : c.primary <;> simp [firstPrimary, hb, ih]

theorem runAfters_eq (all : List Combo) :
    runAfters all = ((all.filterMap (fun c => c.after)).reverse).map (fun b => Ev.run b.id) := by
  induction all with
  | nil => rfl
  | cons c cs ih =>
    cases hb : c.after <;> simp [runAfters, hb, ih]

theorem hasWrap_eq (rest : List Combo) :
    hasWrap rest = !(rest.filterMap (fun c => c.wrap)).isEmpty := by
  induction rest with
  | nil => rfl
  | cons c cs ih =>
    unfold hasWrap at *
    cases hb : c.wrap <;> simp [hb, ih]

theorem hasInner_eq (all : List Combo) :
    hasInner all = (!(all.filterMap (fun c => c.before)).isEmpty
      || (all.filterMap (fun c => c.primary)).head?.isSome
      || !(all.filterMap (fun c => c.after)).isEmpty) := by
  induction all with
  | nil => rfl
  | cons c cs ih =>
    unfold hasInner at *
    rw [List.any_cons, ih]
    cases hb : c.before <;> cases hp : c.primary <;> cases ha : c.after <;>
      simp [hb, hp, ha] <;>
      cases (List.filterMap (fun c => c.before) cs).isEmpty <;>
      cases (List.filterMap (fun c => c.after) cs).isEmpty <;> simp

theorem innerCall_eq (all : List Combo) :
    innerCall all = specInner (all.filterMap (fun c => c.before))
      (all.filterMap (fun c => c.primary)).head? (all.filterMap (fun c => c.after)) := by
  simp [innerCall, specInner, runBefores_eq, firstPrimary_eq, runAfters_eq]

theorem continueFrom_eq (all rest : List Combo) :
    continueFrom all rest
      = specArounds (innerCall all) (hasInner all) (rest.filterMap (fun c => c.wrap)) := by
  induction rest with
  | nil => rfl
  | cons c cs ih =>
    cases hw : c.wrap with
    | none => simp [continueFrom, hw, ih]
    | some b =>
      simp only [continueFrom, hw, ih, List.filterMap_cons, specArounds, hasWrap_eq]

/-! ## membership in the enumeration of specializer tuples -/

/-- a specializer tuple is applicable to arguments with precedence lists `precs` when it has one
    class per argument and each class is in the corresponding precedence list -/
def Applicable : Key → List (List Cls) → Prop
  | [], [] => True
  | c :: k, p :: ps => c ∈ p ∧ Applicable k ps
  | _, _ => False

theorem mem_keys (precs : List (List Cls)) (k : Key) : k ∈ keys precs ↔ Applicable k precs := by
  induction precs generalizing k with
  | nil => cases k <;> simp [keys, Applicable]
  | cons p ps ih =>
    cases k with
    | nil => simp [keys, Applicable]
    | cons c k =>
      simp only [keys, List.mem_flatMap, List.mem_map, Applicable]
      constructor
      · rintro ⟨c', hc', k', hk', e⟩
        injection e with e1 e2
        subst e1; subst e2
        exact ⟨hc', (ih _).1 hk'⟩
      · rintro ⟨hc, hk⟩
        exact ⟨c, hc, k, (ih _).2 hk, rfl⟩

theorem applicable_replicate (precs : Precs) (tC : Cls)
    (hT : ∀ p ∈ precs, tC ∈ p) : Applicable (List.replicate precs.length tC) precs := by
  induction precs with
  | nil => simp [Applicable]
  | cons p ps ih =>
    simp only [List.length_cons, List.replicate, Applicable]
    exact ⟨hT p (by simp), ih (fun q hq => hT q (by simp [hq]))⟩

/-! ## vocabulary of the property statements and small facts about it -/

/-- `a` comes before `b` in the class precedence list `p` -/
def Precedes (p : List Cls) (a b : Cls) : Prop := List.Sublist [a, b] p

/-- `k1` is more specific than `k2` for arguments with precedence lists `precs`: at the first
    argument (left to right) where they differ, the class of `k1` comes first in that argument's
    precedence list -/
def MoreSpecific : List (List Cls) → Key → Key → Prop
  | p :: ps, a :: k1, b :: k2 => Precedes p a b ∨ (a = b ∧ MoreSpecific ps k1 k2)
  | _, _, _ => False

theorem moreSpecific_irrefl (precs : List (List Cls)) (hnd : ∀ p ∈ precs, p.Nodup) (k : Key) :
    ¬ MoreSpecific precs k k := by
  induction precs generalizing k with
  | nil => cases k <;> simp [MoreSpecific]
  | cons p ps ih =>
    cases k with
    | nil => simp [MoreSpecific]
    | cons a k =>
      simp only [MoreSpecific, true_and]
      rintro (h | h)
      · have h2 : [a, a].Nodup := List.Nodup.sublist h (hnd p (by simp))
        simp at h2
      · exact ih (fun q hq => hnd q (by simp [hq])) k h

/-- the ids of the bodies that were started, in order -/
def entered : List Ev → List Nat
  | [] => []
  | .run i :: r => i :: entered r
  | .enter i _ :: r => i :: entered r
  | .leave _ :: r => entered r

theorem entered_append (a b : List Ev) : entered (a ++ b) = entered a ++ entered b := by
  induction a with
  | nil => rfl
  | cons e r ih => cases e <;> simp [entered, ih]

theorem entered_runs (bs : List Body) : entered (bs.map (fun b => Ev.run b.id)) = bs.map (·.id) := by
  induction bs with
  | nil => rfl
  | cons b r ih => simp [entered, ih]

theorem entered_runs_rev (bs : List Body) :
    entered (bs.map (fun b => Ev.run b.id)).reverse = (bs.map (·.id)).reverse := by
  rw [← List.map_reverse, entered_runs, List.map_reverse]

theorem eff_empty_iff (eff : List Combo) (h : ∀ c ∈ eff, c.isEmpty = false) :
    eff.isEmpty = ((eff.filterMap (fun c => c.wrap)).isEmpty && (eff.filterMap (fun c => c.before)).isEmpty
      && (eff.filterMap (fun c => c.primary)).isEmpty && (eff.filterMap (fun c => c.after)).isEmpty) := by
  cases eff with
  | nil => rfl
  | cons c rest =>
    have hc := h c (by simp)
    cases hw : c.wrap <;> cases hb : c.before <;> cases hp : c.primary <;> cases ha : c.after <;>
      simp_all [Combo.isEmpty]

theorem filterMap_head_of_const {α β : Type} (f : α → Option β) (b : β) (l : List α)
    (hall : ∀ x ∈ l, f x = some b ∨ f x = none) (hex : ∃ x ∈ l, f x = some b) :
    (l.filterMap f).head? = some b := by
  induction l with
  | nil => simp at hex
  | cons x r ih =>
    rcases hall x (by simp) with hx | hx
    · simp [hx]
    · simp only [List.filterMap_cons, hx]
      apply ih (fun y hy => hall y (by simp [hy]))
      obtain ⟨y, hy, hfy⟩ := hex
      simp at hy
      rcases hy with rfl | hy
      · rw [hx] at hfy; cases hfy
      · exact ⟨y, hy, hfy⟩

theorem run_cons (E : Env) (a : Aux) (op : Op) (ops : List Op) :
    run E a (op :: ops) = run E (step E a op).1 ops := by
  simp [run, runOps]

theorem tableOf_cons (op : Op) (ops : List Op) (t : Table) :
    tableOf (op :: ops) t = tableOf ops (tableOf [op] t) := by
  cases op <;> rfl

theorem tableOf_append (ops1 ops2 : List Op) (t : Table) :
    tableOf (ops1 ++ ops2) t = tableOf ops2 (tableOf ops1 t) := by
  induction ops1 generalizing t with
  | nil => rfl
  | cons op ops ih => rw [List.cons_append, tableOf_cons, ih, ← tableOf_cons]

theorem absT_init : absT Aux.init.methods = Table.empty := by
  funext k q; rfl

/-! ## compute-applicable-methods: the accumulating walk is a fold over the collected list -/

theorem compMeths_eq (ms : Methods) (hs : List (List Cls)) (pre : Key) (mc : MethComp) :
    compMeths ms hs pre mc = (collect ms hs pre).foldl compStep mc := by
  induction hs generalizing pre mc with
  | nil =>
    simp only [compMeths, collect]
    cases lookup ms pre <;> rfl
  | cons h hs ih =>
    simp only [compMeths, collect, ih]
    induction h generalizing mc with
    | nil => rfl
    | cons c cs ihc => simp only [List.foldl_cons, List.flatMap_cons, List.foldl_append, ihc]

theorem foldl_compStep (eff : List Combo) (mc : MethComp) :
    eff.foldl compStep mc =
      { primary := match mc.primary with | some b => some b | none => (eff.filterMap (fun c => c.primary)).head?
        around := mc.around ++ eff.filterMap (fun c => c.wrap)
        before := mc.before ++ eff.filterMap (fun c => c.before)
        after := mc.after ++ eff.filterMap (fun c => c.after) } := by
  induction eff generalizing mc with
  | nil => cases mc with | mk p a b f => cases p <;> simp
  | cons c cs ih =>
    rw [List.foldl_cons, ih]
    cases mc with
    | mk p a b f =>
      cases p <;> cases hp : c.primary <;> cases hw : c.wrap <;> cases hb : c.before <;> cases ha : c.after <;>
        simp [compStep, hp, hw, hb, ha]

end SlipVerif.Dispatch
