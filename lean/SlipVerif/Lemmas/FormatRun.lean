import SlipVerif.Model.Format
/-! Helper lemmas for C15: case conversion on bytes, one-step unfolding of the iteration loop. -/
namespace SlipVerif.Format

theorem toLower_toLower (c : Nat) : toLower (toLower c) = toLower c := by
  unfold toLower isUpper
  by_cases h1 : 65 ≤ c <;> by_cases h2 : c ≤ 90 <;> simp [h1, h2] <;> (try intros) <;> omega

theorem toUpper_toUpper (c : Nat) : toUpper (toUpper c) = toUpper c := by
  unfold toUpper isLower
  by_cases h1 : 97 ≤ c <;> by_cases h2 : c ≤ 122 <;> simp [h1, h2] <;> (try intros) <;> omega

theorem isAlnum_toLower (c : Nat) : isAlnum (toLower c) = isAlnum c := by
  unfold toLower isAlnum isUpper isLower
  split <;> rw [Bool.eq_iff_iff] <;> simp at * <;> omega

theorem isAlnum_toUpper (c : Nat) : isAlnum (toUpper c) = isAlnum c := by
  unfold toUpper isAlnum isUpper isLower
  split <;> rw [Bool.eq_iff_iff] <;> simp at * <;> omega

theorem capWords_idem (s : Txt) (inWord : Bool) : capWords inWord (capWords inWord s) = capWords inWord s := by
  induction s generalizing inWord with
  | nil => simp [capWords]
  | cons c cs ih =>
    by_cases h : isAlnum c = true
    · cases inWord
      · simp [capWords, h, isAlnum_toUpper, toUpper_toUpper, ih]
      · simp [capWords, h, isAlnum_toLower, toLower_toLower, ih]
    · simp [capWords, h, ih]

theorem capFirst_idem (s : Txt) (seen done : Bool) :
    capFirst seen done (capFirst seen done s) = capFirst seen done s := by
  induction s generalizing seen done with
  | nil => simp [capFirst]
  | cons c cs ih =>
    cases done
    · by_cases h : isAlnum c = true
      · cases seen
        · simp [capFirst, h, isAlnum_toUpper, toUpper_toUpper, ih]
        · simp [capFirst, h, isAlnum_toLower, toLower_toLower, ih]
      · simp [capFirst, h, ih]
    · simp [capFirst, toLower_toLower, ih]

/-- the body `~a` -/
def bodyA : List Item := [.simple .a [] false false]

theorem run_bodyA (T : EnglishTables) (f : Nat) (st : St) (x : Int) (h : st.args[st.pos]? = some (.int x)) :
    runItems T (f + 2) bodyA st = .ok ({ st with pos := st.pos + 1, out := st.out ++ printInt T x }, .cont) := by
  have hnext : st.next = .ok (.int x, { st with pos := st.pos + 1 }) := by simp [St.next, h]
  simp [bodyA, runItems, runItem, resolveParams, runSimple, natParam, chrParam, hnext, princ, printArg, printAtom,
    padAS, St.emit, bind, Except.bind, pure, Except.pure]

theorem iterLoop_succ (T : EnglishTables) (f : Nat) (body : List Item) (hasMax : Bool) (max : Nat) (once : Bool) (st : St) :
    iterLoop T (f + 1) body hasMax max once st =
      if hasMax ∧ max = 0 then .ok st
      else if st.remaining = 0 ∧ ¬ once then .ok st
      else (runItems T f body st).bind (fun r =>
        match r.2 with
        | .stop => .ok r.1
        | .cont => iterLoop T f body hasMax (max - 1) false r.1) := by
  rw [iterLoop]
  split
  · rfl
  · split
    · rfl
    · simp only [bind, Except.bind]
      cases runItems T f body st with
      | error e => rfl
      | ok r => obtain ⟨s1, fl⟩ := r; cases fl <;> rfl

theorem takeWhile_append_all {α : Type} (p : α → Bool) (xs ys : List α) :
    (xs ++ ys).takeWhile p = if xs.all p then xs ++ ys.takeWhile p else xs.takeWhile p := by
  induction xs with
  | nil => simp
  | cons x xs ih =>
    by_cases hx : p x = true
    · simp only [List.cons_append, List.takeWhile_cons, hx, if_true, List.all_cons, Bool.true_and, ih]
      split <;> rfl
    · simp [List.takeWhile_cons, hx]

end SlipVerif.Format
