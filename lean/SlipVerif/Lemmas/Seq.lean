import SlipVerif.Model.Seq
/-
  Helper lemmas for Theorems/C14.lean (core Lean only): index search, the n-first-matches
  recursions, the transcribed Go loops, duplicate removal, pattern matching for search/mismatch,
  merge facts. The property statements themselves are in SlipVerif/Theorems/C14.lean.
-/
namespace SlipVerif.Seq
variable {α β : Type}

theorem mid_length (s e : Nat) (xs : List α) (h : e ≤ xs.length) : (mid s e xs).length = e - s := by
  simp [mid]; omega

/-- a sequence is its prefix, its bounded part and its suffix -/
theorem take_mid_drop (s e : Nat) (xs : List α) (hse : s ≤ e) :
    xs.take s ++ mid s e xs ++ xs.drop e = xs := by
  unfold mid
  have : xs.drop e = (xs.drop s).drop (e - s) := by
    rw [List.drop_drop]; congr 1; omega
  rw [this, List.append_assoc, List.take_append_drop, List.take_append_drop]

theorem mid_getElem? (s e : Nat) (xs : List α) (i : Nat) :
    (mid s e xs)[i]? = if i < e - s then xs[s + i]? else none := by
  unfold mid
  rw [List.getElem?_take]
  split <;> simp [List.getElem?_drop]

theorem idxFirst_eq_some_iff (p : α → Bool) (l : List α) (i : Nat) :
    idxFirst p l = some i ↔
      (∃ x, l[i]? = some x ∧ p x = true) ∧ ∀ j, j < i → ∀ y, l[j]? = some y → p y = false := by
  induction l generalizing i with
  | nil => simp [idxFirst]
  | cons a l ih =>
    unfold idxFirst
    by_cases hp : p a = true
    · simp only [hp, if_true]
      constructor
      · intro h
        have : i = 0 := by simpa using h.symm
        subst this
        exact ⟨⟨a, by simp, hp⟩, by intro j hj; omega⟩
      · rintro ⟨_, hall⟩
        cases i with
        | zero => rfl
        | succ i =>
          have := hall 0 (by omega) a (by simp)
          simp [hp] at this
    · have hp' : p a = false := by simpa using hp
      simp only [hp', Bool.false_eq_true, if_false]
      cases i with
      | zero =>
        simp [hp']
      | succ i =>
        simp only [Option.map_eq_some_iff, Nat.add_right_cancel_iff, exists_eq_right, ih i,
          List.getElem?_cons_succ]
        constructor
        · rintro ⟨hx, hall⟩
          refine ⟨hx, ?_⟩
          intro j hj y hy
          cases j with
          | zero => simp at hy; subst hy; exact hp'
          | succ j => exact hall j (by omega) y (by simpa using hy)
        · rintro ⟨hx, hall⟩
          refine ⟨hx, ?_⟩
          intro j hj y hy
          exact hall (j + 1) (by omega) y (by simpa using hy)

theorem idxFirst_eq_none_iff (p : α → Bool) (l : List α) :
    idxFirst p l = none ↔ ∀ x ∈ l, p x = false := by
  induction l with
  | nil => simp [idxFirst]
  | cons a l ih =>
    unfold idxFirst
    by_cases hp : p a = true
    · simp [hp]
    · have hp' : p a = false := by simpa using hp
      simp [hp', ih]

theorem idxLast_eq_none_iff (p : α → Bool) (l : List α) :
    idxLast p l = none ↔ ∀ x ∈ l, p x = false := by
  induction l with
  | nil => simp [idxLast]
  | cons a l ih =>
    unfold idxLast
    cases h : idxLast p l with
    | some i =>
      simp only [reduceCtorEq, false_iff]
      intro hall
      have : idxLast p l = none := ih.mpr (fun x hx => hall x (List.mem_cons_of_mem _ hx))
      simp [h] at this
    | none =>
      have hl := ih.mp h
      by_cases hp : p a = true
      · simp [hp]
      · have hp' : p a = false := by simpa using hp
        simp only [hp', Bool.false_eq_true, if_false, List.mem_cons, forall_eq_or_imp, true_and, true_iff]
        exact hl

theorem idxLast_eq_some_iff (p : α → Bool) (l : List α) (i : Nat) :
    idxLast p l = some i ↔
      (∃ x, l[i]? = some x ∧ p x = true) ∧ ∀ j, i < j → ∀ y, l[j]? = some y → p y = false := by
  induction l generalizing i with
  | nil => simp [idxLast]
  | cons a l ih =>
    unfold idxLast
    cases h : idxLast p l with
    | some k =>
      have hk := (ih k).mp h
      simp only [Option.some.injEq]
      constructor
      · intro hi
        subst hi
        refine ⟨by simpa using hk.1, ?_⟩
        intro j hj y hy
        cases j with
        | zero => omega
        | succ j => exact hk.2 j (by omega) y (by simpa using hy)
      · rintro ⟨⟨x, hx, hpx⟩, hall⟩
        -- i must be k+1: both are "last match" positions
        obtain ⟨⟨z, hz, hpz⟩, hkall⟩ := hk
        cases i with
        | zero =>
          have := hall (k + 1) (by omega) z (by simpa using hz)
          simp [hpz] at this
        | succ i =>
          have hx' : l[i]? = some x := by simpa using hx
          rcases Nat.lt_trichotomy i k with hlt | heq | hgt
          · have := hall (k + 1) (by omega) z (by simpa using hz)
            simp [hpz] at this
          · rw [heq]
          · have := hkall i hgt x hx'
            simp [hpx] at this
    | none =>
      have hl := (idxLast_eq_none_iff p l).mp h
      by_cases hp : p a = true
      · simp only [hp, if_true, Option.some.injEq]
        constructor
        · intro hi
          subst hi
          refine ⟨⟨a, by simp, hp⟩, ?_⟩
          intro j hj y hy
          cases j with
          | zero => omega
          | succ j =>
            have : y ∈ l := List.mem_of_getElem? (by simpa using hy)
            exact hl y this
        · rintro ⟨⟨x, hx, hpx⟩, _⟩
          cases i with
          | zero => rfl
          | succ i =>
            have : x ∈ l := List.mem_of_getElem? (by simpa using hx)
            have := hl x this
            simp [hpx] at this
      · have hp' : p a = false := by simpa using hp
        simp only [hp', Bool.false_eq_true, if_false, reduceCtorEq, false_iff]
        rintro ⟨⟨x, hx, hpx⟩, _⟩
        cases i with
        | zero => simp at hx; subst hx; simp [hp'] at hpx
        | succ i =>
          have : x ∈ l := List.mem_of_getElem? (by simpa using hx)
          have := hl x this
          simp [hpx] at this

theorem find?_eq_getElem?_idxFirst (p : α → Bool) (l : List α) :
    l.find? p = (idxFirst p l).bind (fun i => l[i]?) := by
  induction l with
  | nil => simp [idxFirst]
  | cons a l ih =>
    unfold idxFirst
    by_cases hp : p a = true
    · simp [hp]
    · have hp' : p a = false := by simpa using hp
      simp only [List.find?, hp', ih, Bool.false_eq_true, if_false]
      cases idxFirst p l <;> simp

theorem find?_reverse_eq_getElem?_idxLast (p : α → Bool) (l : List α) :
    l.reverse.find? p = (idxLast p l).bind (fun i => l[i]?) := by
  induction l with
  | nil => simp [idxLast]
  | cons a l ih =>
    unfold idxLast
    rw [List.reverse_cons, List.find?_append, ih]
    cases h : idxLast p l with
    | some i =>
      have := (idxLast_eq_some_iff p l i).mp h
      obtain ⟨⟨x, hx, _⟩, _⟩ := this
      simp [hx]
    | none =>
      by_cases hp : p a = true
      · simp [hp]
      · have hp' : p a = false := by simpa using hp
        simp [hp']

/-- `dropFirstN` scans a prefix of length `k`, drops its matches, and keeps the rest whole; the
    prefix holds exactly `min n (number of matches)` matches — so exactly the first `n` matches go -/
theorem dropFirstN_spec (p : α → Bool) (n : Nat) (l : List α) :
    ∃ k, k ≤ l.length ∧
      dropFirstN p n l = (l.take k).filter (fun x => !p x) ++ l.drop k ∧
      (l.take k).countP p = min n (l.countP p) := by
  induction l generalizing n with
  | nil => exact ⟨0, by simp, by cases n <;> simp [dropFirstN], by simp⟩
  | cons a l ih =>
    cases n with
    | zero => exact ⟨0, by simp, by simp [dropFirstN], by simp⟩
    | succ n =>
      unfold dropFirstN
      by_cases hp : p a = true
      · obtain ⟨k, hk, heq, hc⟩ := ih n
        refine ⟨k + 1, by simp; omega, ?_, ?_⟩
        · simp [hp, heq]
        · simp only [List.take_succ_cons, List.countP_cons, hp, if_true, hc]
          omega
      · have hp' : p a = false := by simpa using hp
        obtain ⟨k, hk, heq, hc⟩ := ih (n + 1)
        refine ⟨k + 1, by simp; omega, ?_, ?_⟩
        · simp [hp', heq]
        · simp only [List.take_succ_cons, List.countP_cons, hp', Bool.false_eq_true, if_false, hc]
          omega

theorem replFirstN_spec (new : α) (p : α → Bool) (n : Nat) (l : List α) :
    ∃ k, k ≤ l.length ∧
      replFirstN new p n l = (l.take k).map (fun x => if p x then new else x) ++ l.drop k ∧
      (l.take k).countP p = min n (l.countP p) := by
  induction l generalizing n with
  | nil => exact ⟨0, by simp, by cases n <;> simp [replFirstN], by simp⟩
  | cons a l ih =>
    cases n with
    | zero => exact ⟨0, by simp, by simp [replFirstN], by simp⟩
    | succ n =>
      unfold replFirstN
      by_cases hp : p a = true
      · obtain ⟨k, hk, heq, hc⟩ := ih n
        refine ⟨k + 1, by simp; omega, ?_, ?_⟩
        · simp [hp, heq]
        · simp only [List.take_succ_cons, List.countP_cons, hp, if_true, hc]
          omega
      · have hp' : p a = false := by simpa using hp
        obtain ⟨k, hk, heq, hc⟩ := ih (n + 1)
        refine ⟨k + 1, by simp; omega, ?_, ?_⟩
        · simp [hp', heq]
        · simp only [List.take_succ_cons, List.countP_cons, hp', Bool.false_eq_true, if_false, hc]
          omega

theorem replFirstN_length (new : α) (p : α → Bool) (n : Nat) (l : List α) :
    (replFirstN new p n l).length = l.length := by
  induction l generalizing n with
  | nil => cases n <;> simp [replFirstN]
  | cons a l ih =>
    cases n with
    | zero => simp [replFirstN]
    | succ n =>
      unfold replFirstN
      split <;> simp [ih]

theorem dropFirstN_nil (p : α → Bool) (n : Nat) : dropFirstN p n ([] : List α) = [] := by
  cases n <;> rfl

theorem dropFirstN_zero (p : α → Bool) (l : List α) : dropFirstN p 0 l = l := by
  cases l <;> rfl

theorem dropFirstN_of_length_le (p : α → Bool) (n : Nat) (l : List α) (h : l.length ≤ n) :
    dropFirstN p n l = l.filter (fun x => !p x) := by
  induction l generalizing n with
  | nil => simp [dropFirstN_nil]
  | cons a l ih =>
    cases n with
    | zero => simp at h
    | succ n =>
      unfold dropFirstN
      simp only [List.length_cons, Nat.add_le_add_iff_right] at h
      by_cases hp : p a = true
      · simp [hp, ih n h]
      · have hp' : p a = false := by simpa using hp
        simp [hp', ih (n + 1) (by omega)]

theorem deleteFwdLoop_past (p : α → Bool) (s e lim i c : Nat) (l : List α) (h : e ≤ i) :
    deleteFwdLoop p s e lim i c l = l := by
  induction l generalizing i with
  | nil => rfl
  | cons a l ih =>
    unfold deleteFwdLoop
    rw [if_pos (by omega), ih (i + 1) (by omega)]

theorem deleteFwdLoop_inside (p : α → Bool) (s e lim i c : Nat) (l : List α) (h : s ≤ i) :
    deleteFwdLoop p s e lim i c l = dropFirstN p (lim - c) (l.take (e - i)) ++ l.drop (e - i) := by
  induction l generalizing i c with
  | nil => simp [deleteFwdLoop, dropFirstN_nil]
  | cons a l ih =>
    by_cases hei : e ≤ i
    · rw [deleteFwdLoop_past p s e lim i c _ hei]
      have : e - i = 0 := by omega
      simp [this, dropFirstN_nil]
    · have hstep : e - i = (e - (i + 1)) + 1 := by omega
      unfold deleteFwdLoop
      by_cases hlim : lim ≤ c
      · rw [if_pos (by omega), ih (i + 1) c (by omega)]
        have : lim - c = 0 := by omega
        rw [this, dropFirstN_zero, dropFirstN_zero, hstep]
        simp
      · rw [if_neg (by omega)]
        have hn : lim - c = (lim - (c + 1)) + 1 := by omega
        rw [hstep, List.take_succ_cons, List.drop_succ_cons, hn]
        unfold dropFirstN
        by_cases hp : p a = true
        · simp only [hp, if_true]
          rw [ih (i + 1) (c + 1) (by omega)]
        · have hp' : p a = false := by simpa using hp
          simp only [hp', Bool.false_eq_true, if_false]
          rw [ih (i + 1) c (by omega), ← hn]
          simp

theorem deleteFwdLoop_before (p : α → Bool) (s e lim i c : Nat) (l : List α) (h : i ≤ s) :
    deleteFwdLoop p s e lim i c l = l.take (s - i) ++ deleteFwdLoop p s e lim s c (l.drop (s - i)) := by
  induction l generalizing i with
  | nil => simp [deleteFwdLoop]
  | cons a l ih =>
    by_cases his : i = s
    · subst his; simp
    · have hstep : s - i = (s - (i + 1)) + 1 := by omega
      conv => lhs; unfold deleteFwdLoop
      rw [if_pos (by omega), ih (i + 1) (by omega), hstep]
      simp

/-- the forward loop of delete.go drops the first `lim` matches of the bounded part -/
theorem deleteFwdLoop_eq (p : α → Bool) (s e lim : Nat) (xs : List α) (hse : s ≤ e) :
    deleteFwdLoop p s e lim 0 0 xs = xs.take s ++ dropFirstN p lim (mid s e xs) ++ xs.drop e := by
  rw [deleteFwdLoop_before p s e lim 0 0 xs (by omega), deleteFwdLoop_inside p s e lim s 0 _ (by omega)]
  simp only [Nat.sub_zero, mid, List.drop_drop, List.append_assoc]
  rw [show s + (e - s) = e by omega]

theorem deleteBwdLoop_eq_fwd (p : α → Bool) (s e lim L : Nat) (c r : Nat) (l : List α)
    (hL : l.length + r = L) (he : e ≤ L) (hse : s ≤ e) :
    deleteBwdLoop p s e lim c l = deleteFwdLoop p (L - e) (L - s) lim r c l := by
  induction l generalizing c r with
  | nil => rfl
  | cons a l ih =>
    unfold deleteBwdLoop deleteFwdLoop
    simp only [List.length_cons] at hL
    have hcond : (l.length < s ∨ e ≤ l.length ∨ lim ≤ c) ↔ (r < L - e ∨ L - s ≤ r ∨ lim ≤ c) := by omega
    simp only [hcond]
    rw [ih c (r + 1) (by omega), ih (c + 1) (r + 1) (by omega)]

theorem positionFwdLoop_eq (p : α → Bool) (s i : Nat) (l : List α) :
    positionFwdLoop p s i l = (idxFirst p l).map (fun k => k + i + s) := by
  induction l generalizing i with
  | nil => rfl
  | cons a l ih =>
    unfold positionFwdLoop idxFirst
    by_cases hp : p a = true
    · simp [hp]; omega
    · have hp' : p a = false := by simpa using hp
      simp only [hp', Bool.false_eq_true, if_false, ih, Option.map_map]
      congr 1
      funext k
      simp; omega

theorem idxLast_append_singleton (p : α → Bool) (l : List α) (x : α) :
    idxLast p (l ++ [x]) = if p x then some l.length else idxLast p l := by
  induction l with
  | nil => simp [idxLast]
  | cons a l ih =>
    simp only [List.cons_append, idxLast, ih]
    by_cases hp : p x = true
    · simp [hp]
    · have hp' : p x = false := by simpa using hp
      simp [hp']

theorem positionBwdLoop_eq (p : α → Bool) (s : Nat) (rev : List α) :
    positionBwdLoop p s rev = (idxLast p rev.reverse).map (fun k => k + s) := by
  induction rev with
  | nil => rfl
  | cons a rev ih =>
    unfold positionBwdLoop
    rw [List.reverse_cons, idxLast_append_singleton]
    by_cases hp : p a = true
    · simp [hp]; omega
    · have hp' : p a = false := by simpa using hp
      simp [hp', ih]

theorem countLoop_eq (p : α → Bool) (c : Nat) (l : List α) : countLoop p c l = c + l.countP p := by
  induction l generalizing c with
  | nil => simp [countLoop]
  | cons a l ih =>
    unfold countLoop
    rw [ih]
    by_cases hp : p a = true
    · simp [hp]; omega
    · have hp' : p a = false := by simpa using hp
      simp [hp']

theorem mid_reverse (s e : Nat) (xs : List α) (hse : s ≤ e) (he : e ≤ xs.length) :
    mid (xs.length - e) (xs.length - s) xs.reverse = (mid s e xs).reverse := by
  unfold mid
  rw [List.drop_reverse, show xs.length - (xs.length - e) = e by omega,
    show xs.length - s - (xs.length - e) = e - s by omega, List.take_reverse]
  congr 1
  rw [List.length_take, Nat.min_eq_left he, show e - (e - s) = s by omega, List.drop_take]

theorem dropFirstN_limit (p : α → Bool) (cnt : Option Int) (l : List α) (m : Nat) (h : l.length ≤ m) :
    dropFirstN p (limit cnt m) l = dropFirstN p (limit cnt l.length) l := by
  cases cnt with
  | none =>
    simp only [limit]
    rw [dropFirstN_of_length_le p m l h, dropFirstN_of_length_le p l.length l (Nat.le_refl _)]
  | some c => rfl

theorem dedupKeepLast_sublist (eqv : α → α → Bool) (l : List α) : (dedupKeepLast eqv l).Sublist l := by
  induction l with
  | nil => exact List.Sublist.slnil
  | cons a l ih =>
    unfold dedupKeepLast
    split
    · exact List.Sublist.cons _ ih
    · exact List.Sublist.cons_cons _ ih

/-- an element survives (without `:from-end`) exactly when no later element matches it:
    the result is the input filtered by "has no later match", position by position -/
theorem dedupKeepLast_mem (eqv : α → α → Bool) (l : List α) (x : α) (hx : x ∈ dedupKeepLast eqv l) :
    x ∈ l := (dedupKeepLast_sublist eqv l).subset hx

/-- no two survivors match (earlier against later) -/
theorem dedupKeepLast_pairwise (eqv : α → α → Bool) (l : List α) :
    (dedupKeepLast eqv l).Pairwise (fun a b => eqv a b = false) := by
  induction l with
  | nil => exact List.Pairwise.nil
  | cons a l ih =>
    unfold dedupKeepLast
    split
    · exact ih
    · rename_i h
      apply List.Pairwise.cons _ ih
      intro b hb
      have hbl := dedupKeepLast_mem eqv l b hb
      have : ¬ (l.any (fun y => eqv a y) = true) := h
      simp only [List.any_eq_true, not_exists, not_and] at this
      simpa using this b hbl

/-- every element is represented among the survivors (for a reflexive, transitive test) -/
theorem dedupKeepLast_covers (eqv : α → α → Bool) (hrefl : ∀ a, eqv a a = true)
    (htrans : ∀ a b c, eqv a b = true → eqv b c = true → eqv a c = true) (l : List α) :
    ∀ x ∈ l, ∃ y ∈ dedupKeepLast eqv l, eqv x y = true := by
  induction l with
  | nil => simp
  | cons a l ih =>
    intro x hx
    unfold dedupKeepLast
    rcases List.mem_cons.mp hx with rfl | hxl
    · split
      · rename_i h
        obtain ⟨y, hy, hxy⟩ := List.any_eq_true.mp h
        obtain ⟨z, hz, hyz⟩ := ih y hy
        exact ⟨z, hz, htrans _ _ _ hxy hyz⟩
      · exact ⟨x, List.mem_cons_self, hrefl x⟩
    · obtain ⟨y, hy, hxy⟩ := ih x hxl
      split
      · exact ⟨y, hy, hxy⟩
      · exact ⟨y, List.mem_cons_of_mem _ hy, hxy⟩

/-- with `:from-end` the roles are mirrored: an element survives iff no earlier element matches it -/
theorem dedupKeepFirst_reverse (eqv : α → α → Bool) (l : List α) :
    dedupKeepFirst eqv l = (dedupKeepLast (fun a b => eqv b a) l.reverse).reverse := rfl

theorem dedupKeepFirst_sublist (eqv : α → α → Bool) (l : List α) : (dedupKeepFirst eqv l).Sublist l := by
  unfold dedupKeepFirst
  have := (dedupKeepLast_sublist (fun a b => eqv b a) l.reverse).reverse
  simpa using this

/-- no two survivors match (earlier against later), also with `:from-end` -/
theorem dedupKeepFirst_pairwise (eqv : α → α → Bool) (l : List α) :
    (dedupKeepFirst eqv l).Pairwise (fun a b => eqv a b = false) := by
  unfold dedupKeepFirst
  rw [List.pairwise_reverse]
  exact dedupKeepLast_pairwise (fun a b => eqv b a) l.reverse

theorem dedupKeepFirst_covers (eqv : α → α → Bool) (hrefl : ∀ a, eqv a a = true)
    (htrans : ∀ a b c, eqv a b = true → eqv b c = true → eqv a c = true) (l : List α) :
    ∀ x ∈ l, ∃ y ∈ dedupKeepFirst eqv l, eqv y x = true := by
  intro x hx
  have := dedupKeepLast_covers (fun a b => eqv b a) hrefl (fun a b c h1 h2 => htrans c b a h2 h1)
    l.reverse x (by simpa using hx)
  obtain ⟨y, hy, hxy⟩ := this
  exact ⟨y, by simpa [dedupKeepFirst] using hy, hxy⟩

/-- `matchAt`: the pattern fits and every pattern element is matched by the element under it -/
theorem matchAt_iff (eqv : α → α → Bool) (sub l : List α) :
    matchAt eqv sub l = true ↔
      sub.length ≤ l.length ∧ ∀ (i : Nat) a b, sub[i]? = some a → l[i]? = some b → eqv a b = true := by
  induction sub generalizing l with
  | nil => simp [matchAt]
  | cons x sub ih =>
    cases l with
    | nil => simp [matchAt]
    | cons y l =>
      simp only [matchAt, Bool.and_eq_true, ih, List.length_cons, Nat.add_le_add_iff_right]
      constructor
      · rintro ⟨hxy, hlen, hall⟩
        refine ⟨hlen, ?_⟩
        intro i a b ha hb
        cases i with
        | zero => simp at ha hb; subst ha; subst hb; exact hxy
        | succ i => exact hall i a b (by simpa using ha) (by simpa using hb)
      · rintro ⟨hlen, hall⟩
        refine ⟨hall 0 x y (by simp) (by simp), hlen, ?_⟩
        intro i a b ha hb
        exact hall (i + 1) a b (by simpa using ha) (by simpa using hb)

theorem searchFirst_eq_some_iff (eqv : α → α → Bool) (sub l : List α) (i : Nat) :
    searchFirst eqv sub l = some i ↔
      i ≤ l.length ∧ matchAt eqv sub (l.drop i) = true ∧
        ∀ j, j < i → matchAt eqv sub (l.drop j) = false := by
  induction l generalizing i with
  | nil =>
    unfold searchFirst
    by_cases h : matchAt eqv sub [] = true
    · simp only [h, if_true, Option.some.injEq, List.length_nil, Nat.le_zero, List.drop_nil]
      constructor
      · intro hi; subst hi; exact ⟨rfl, trivial, by intro j hj; omega⟩
      · intro hi; exact hi.1.symm
    · simp only [h, Bool.false_eq_true, if_false, reduceCtorEq, List.length_nil, Nat.le_zero,
        List.drop_nil, false_iff]
      rintro ⟨_, h2, _⟩
      exact h2
  | cons b l ih =>
    unfold searchFirst
    by_cases h : matchAt eqv sub (b :: l) = true
    · simp only [h, if_true, Option.some.injEq]
      constructor
      · intro hi; subst hi; exact ⟨by simp, by simpa using h, by intro j hj; omega⟩
      · rintro ⟨_, _, hall⟩
        cases i with
        | zero => rfl
        | succ i =>
          have := hall 0 (by omega)
          simp [h] at this
    · have h' : matchAt eqv sub (b :: l) = false := by simpa using h
      simp only [h', Bool.false_eq_true, if_false, Option.map_eq_some_iff]
      cases i with
      | zero => simp [h']
      | succ i =>
        simp only [Nat.add_right_cancel_iff, exists_eq_right, ih i, List.length_cons,
          Nat.add_le_add_iff_right, List.drop_succ_cons]
        constructor
        · rintro ⟨h1, h2, h3⟩
          refine ⟨h1, h2, ?_⟩
          intro j hj
          cases j with
          | zero => simpa using h'
          | succ j => simpa using h3 j (by omega)
        · rintro ⟨h1, h2, h3⟩
          refine ⟨h1, h2, ?_⟩
          intro j hj
          simpa using h3 (j + 1) (by omega)

theorem searchLast_eq_none_iff (eqv : α → α → Bool) (sub l : List α) :
    searchLast eqv sub l = none ↔ ∀ j, j ≤ l.length → matchAt eqv sub (l.drop j) = false := by
  induction l with
  | nil =>
    unfold searchLast
    by_cases h : matchAt eqv sub [] = true
    · simp only [h, if_true, reduceCtorEq, List.length_nil, Nat.le_zero, List.drop_nil, false_iff]
      intro hall
      have := hall 0 rfl
      simp at this
    · have h' : matchAt eqv sub [] = false := by simpa using h
      simp [h']
  | cons b l ih =>
    unfold searchLast
    cases hs : searchLast eqv sub l with
    | some k =>
      simp only [reduceCtorEq, false_iff]
      intro hall
      have : searchLast eqv sub l = none := ih.mpr (fun j hj => by
        simpa using hall (j + 1) (by simp; omega))
      simp [hs] at this
    | none =>
      have hl := ih.mp hs
      by_cases h : matchAt eqv sub (b :: l) = true
      · simp only [h, if_true, reduceCtorEq, false_iff]
        intro hall
        have := hall 0 (by omega)
        simp [h] at this
      · have h' : matchAt eqv sub (b :: l) = false := by simpa using h
        simp only [h', Bool.false_eq_true, if_false, true_iff]
        intro j hj
        cases j with
        | zero => simpa using h'
        | succ j => simpa using hl j (by simp at hj; omega)

theorem searchLast_eq_some_iff (eqv : α → α → Bool) (sub l : List α) (i : Nat) :
    searchLast eqv sub l = some i ↔
      i ≤ l.length ∧ matchAt eqv sub (l.drop i) = true ∧
        ∀ j, i < j → j ≤ l.length → matchAt eqv sub (l.drop j) = false := by
  induction l generalizing i with
  | nil =>
    unfold searchLast
    by_cases h : matchAt eqv sub [] = true
    · simp only [h, if_true, Option.some.injEq, List.length_nil, Nat.le_zero, List.drop_nil]
      constructor
      · intro hi; subst hi; exact ⟨rfl, trivial, by intro j hj hj'; omega⟩
      · intro hi; exact hi.1.symm
    · simp only [h, Bool.false_eq_true, if_false, reduceCtorEq, List.length_nil, Nat.le_zero,
        List.drop_nil, false_iff]
      rintro ⟨_, h2, _⟩
      exact h2
  | cons b l ih =>
    unfold searchLast
    cases hs : searchLast eqv sub l with
    | some k =>
      obtain ⟨hk1, hk2, hk3⟩ := (ih k).mp hs
      simp only [Option.some.injEq, List.length_cons]
      constructor
      · intro hi; subst hi
        refine ⟨by omega, by simpa using hk2, ?_⟩
        intro j hj hj'
        cases j with
        | zero => omega
        | succ j => simpa using hk3 j (by omega) (by omega)
      · rintro ⟨h1, h2, h3⟩
        cases i with
        | zero =>
          have := h3 (k + 1) (by omega) (by omega)
          simp [hk2] at this
        | succ i =>
          rcases Nat.lt_trichotomy i k with hlt | heq | hgt
          · have := h3 (k + 1) (by omega) (by omega)
            simp [hk2] at this
          · rw [heq]
          · have := hk3 i hgt (by omega)
            simp only [List.drop_succ_cons] at h2
            simp [h2] at this
    | none =>
      have hl := (searchLast_eq_none_iff eqv sub l).mp hs
      by_cases h : matchAt eqv sub (b :: l) = true
      · simp only [h, if_true, Option.some.injEq, List.length_cons]
        constructor
        · intro hi; subst hi
          refine ⟨by omega, by simpa using h, ?_⟩
          intro j hj hj'
          cases j with
          | zero => omega
          | succ j => simpa using hl j (by omega)
        · rintro ⟨h1, h2, _⟩
          cases i with
          | zero => rfl
          | succ i =>
            have := hl i (by omega)
            simp only [List.drop_succ_cons] at h2
            simp [h2] at this
      · have h' : matchAt eqv sub (b :: l) = false := by simpa using h
        simp only [h', Bool.false_eq_true, if_false, reduceCtorEq, List.length_cons, false_iff]
        rintro ⟨h1, h2, _⟩
        cases i with
        | zero => simp [h'] at h2
        | succ i =>
          have := hl i (by omega)
          simp only [List.drop_succ_cons] at h2
          simp [h2] at this

/-- `mismatchFwd` answers `none` exactly when both sequences have the same length and match
    element-wise -/
theorem mismatchFwd_eq_none_iff (eqv : α → α → Bool) (a b : List α) :
    mismatchFwd eqv a b = none ↔ a.length = b.length ∧ matchAt eqv a b = true := by
  induction a generalizing b with
  | nil => cases b <;> simp [mismatchFwd, matchAt]
  | cons x a ih =>
    cases b with
    | nil => simp [mismatchFwd, matchAt]
    | cons y b =>
      unfold mismatchFwd
      by_cases h : eqv x y = true
      · simp [h, ih, matchAt]
      · have h' : eqv x y = false := by simpa using h
        simp [h', matchAt]

/-- `mismatchFwd = some k`: the first `k` elements match pairwise, and at `k` the sequences differ
    or exactly one of them ends -/
theorem mismatchFwd_eq_some_iff (eqv : α → α → Bool) (a b : List α) (k : Nat) :
    mismatchFwd eqv a b = some k ↔
      matchAt eqv (a.take k) (b.take k) = true ∧ k ≤ a.length ∧ k ≤ b.length ∧
        ((k = a.length ∧ k < b.length) ∨ (k = b.length ∧ k < a.length) ∨
          ∃ x y, a[k]? = some x ∧ b[k]? = some y ∧ eqv x y = false) := by
  induction a generalizing b k with
  | nil =>
    cases b with
    | nil => simp [mismatchFwd]
    | cons y b =>
      simp only [mismatchFwd, Option.some.injEq, List.take_nil, List.length_nil, Nat.le_zero,
        List.length_cons, List.getElem?_nil, reduceCtorEq, false_and, exists_false, or_false]
      constructor
      · intro h; subst h; simp [matchAt]
      · rintro ⟨_, h, _⟩; exact h.symm
  | cons x a ih =>
    cases b with
    | nil =>
      simp only [mismatchFwd, Option.some.injEq, List.take_nil, List.length_nil, Nat.le_zero,
        List.length_cons, List.getElem?_nil, reduceCtorEq]
      constructor
      · intro h; subst h; simp [matchAt]
      · rintro ⟨_, _, h, _⟩; exact h.symm
    | cons y b =>
      unfold mismatchFwd
      by_cases h : eqv x y = true
      · simp only [h, if_true, Option.map_eq_some_iff]
        cases k with
        | zero => simp [h]
        | succ k =>
          simp only [Nat.add_right_cancel_iff, exists_eq_right, ih b k, List.take_succ_cons, matchAt,
            h, Bool.true_and, List.length_cons, Nat.add_le_add_iff_right, Nat.add_lt_add_iff_right,
            List.getElem?_cons_succ]
      · have h' : eqv x y = false := by simpa using h
        simp only [h', Bool.false_eq_true, if_false, Option.some.injEq]
        constructor
        · intro hk; subst hk
          simp [matchAt, h']
        · rintro ⟨hm, _, _, _⟩
          cases k with
          | zero => rfl
          | succ k => simp [matchAt, h'] at hm

theorem onRange_length (s e : Nat) (f : List α → List α) (xs : List α) (hse : s ≤ e)
    (hf : (f (mid s e xs)).length = (mid s e xs).length) : (onRange s e f xs).length = xs.length := by
  have hx := congrArg List.length (take_mid_drop s e xs hse)
  simp only [List.length_append] at hx
  simp only [onRange, List.length_append, hf]
  exact hx

theorem union_foldl_spec (eqv : α → α → Bool) (ys acc : List α) :
    (∀ z, z ∈ ys.foldl (fun acc y => if acc.any (fun a => eqv a y) then acc else acc ++ [y]) acc →
        z ∈ acc ∨ z ∈ ys) ∧
      (∀ z ∈ acc, z ∈ ys.foldl (fun acc y => if acc.any (fun a => eqv a y) then acc else acc ++ [y]) acc) ∧
      (∀ y ∈ ys, ∃ w ∈ ys.foldl (fun acc y => if acc.any (fun a => eqv a y) then acc else acc ++ [y]) acc,
        w = y ∨ eqv w y = true) := by
  induction ys generalizing acc with
  | nil => simp
  | cons y ys ih =>
    simp only [List.foldl_cons]
    by_cases h : acc.any (fun a => eqv a y) = true
    · simp only [h, if_true]
      obtain ⟨i1, i2, i3⟩ := ih acc
      refine ⟨?_, i2, ?_⟩
      · intro z hz
        rcases i1 z hz with h | h
        · exact Or.inl h
        · exact Or.inr (List.mem_cons_of_mem _ h)
      · intro y' hy'
        rcases List.mem_cons.mp hy' with rfl | hy'
        · obtain ⟨a, ha, hay⟩ := List.any_eq_true.mp h
          exact ⟨a, i2 a ha, Or.inr hay⟩
        · exact i3 y' hy'
    · simp only [h, Bool.false_eq_true, if_false]
      obtain ⟨i1, i2, i3⟩ := ih (acc ++ [y])
      refine ⟨?_, ?_, ?_⟩
      · intro z hz
        rcases i1 z hz with h | h
        · rcases List.mem_append.mp h with h | h
          · exact Or.inl h
          · exact Or.inr (by simp at h; simp [h])
        · exact Or.inr (List.mem_cons_of_mem _ h)
      · intro z hz
        exact i2 z (List.mem_append_left _ hz)
      · intro y' hy'
        rcases List.mem_cons.mp hy' with rfl | hy'
        · exact ⟨y', i2 y' (by simp), Or.inl rfl⟩
        · exact i3 y' hy'

/-- the hypothesis the language puts on a sort predicate: a strict weak order on the keys -/
structure StrictWeakOrder (lt : β → β → Bool) : Prop where
  irrefl : ∀ a, lt a a = false
  trans : ∀ a b c, lt a b = true → lt b c = true → lt a c = true
  negTrans : ∀ a b c, lt a b = false → lt b c = false → lt a c = false

theorem leOf_trans {lt : β → β → Bool} (h : StrictWeakOrder lt) (key : α → β) :
    ∀ a b c, leOf lt key a b = true → leOf lt key b c = true → leOf lt key a c = true := by
  intro a b c h1 h2
  simp only [leOf, Bool.not_eq_true'] at *
  exact h.negTrans _ _ _ h2 h1

theorem leOf_total {lt : β → β → Bool} (h : StrictWeakOrder lt) (key : α → β) :
    ∀ a b, (leOf lt key a b || leOf lt key b a) = true := by
  intro a b
  simp only [leOf, Bool.or_eq_true, Bool.not_eq_true']
  by_cases h1 : lt (key b) (key a) = true
  · by_cases h2 : lt (key a) (key b) = true
    · have := h.trans _ _ _ h1 h2
      simp [h.irrefl] at this
    · exact Or.inr (by simpa using h2)
  · exact Or.inl (by simpa using h1)

theorem pairwiseB_iff (r : α → α → Bool) (l : List α) :
    pairwiseB r l = true ↔ l.Pairwise (fun a b => r a b = true) := by
  induction l with
  | nil => simp [pairwiseB]
  | cons a l ih => simp [pairwiseB, ih, List.pairwise_cons]

theorem left_sublist_merge (le : α → α → Bool) (xs ys : List α) : xs.Sublist (List.merge xs ys le) := by
  induction xs generalizing ys with
  | nil => exact List.nil_sublist _
  | cons x xs ihx =>
    induction ys with
    | nil => simp
    | cons y ys ihy =>
      rw [List.cons_merge_cons]
      split
      · exact List.Sublist.cons_cons x (ihx (y :: ys))
      · exact List.Sublist.cons y ihy

theorem right_sublist_merge (le : α → α → Bool) (xs ys : List α) : ys.Sublist (List.merge xs ys le) := by
  induction xs generalizing ys with
  | nil => simp
  | cons x xs ihx =>
    induction ys with
    | nil => exact List.nil_sublist _
    | cons y ys ihy =>
      rw [List.cons_merge_cons]
      split
      · exact List.Sublist.cons x (ihx (y :: ys))
      · exact List.Sublist.cons_cons y ihy

theorem merge_pair (le : α → α → Bool) (htrans : ∀ a b c, le a b = true → le b c = true → le a c = true)
    (xs ys : List α) (hxs : xs.Pairwise (fun a b => le a b = true))
    (x y : α) (hx : x ∈ xs) (hy : y ∈ ys) (hxy : le x y = true) : [x, y].Sublist (List.merge xs ys le) := by
  induction xs generalizing ys with
  | nil => simp at hx
  | cons x0 xs ihx =>
    induction ys with
    | nil => simp at hy
    | cons y0 ys ihy =>
      rw [List.cons_merge_cons]
      have hx0 : ∀ z ∈ xs, le x0 z = true := (List.pairwise_cons.mp hxs).1
      split
      · rcases List.mem_cons.mp hx with rfl | hx'
        · exact List.Sublist.cons_cons _
            (List.singleton_sublist.mpr (List.mem_merge_right le hy))
        · exact List.Sublist.cons _ (ihx (y0 :: ys) (List.pairwise_cons.mp hxs).2 hx' hy)
      · rename_i hle
        rcases List.mem_cons.mp hy with rfl | hy'
        · exfalso
          rcases List.mem_cons.mp hx with rfl | hx'
          · exact hle hxy
          · exact hle (htrans _ _ _ (hx0 x hx') hxy)
        · exact List.Sublist.cons _ (ihy hy')

theorem ofList_ok (k : Kind) (l : List Obj) (r : Seq) (h : Seq.ofList k l = .ok r) :
    r.kind = k ∧ r.toList = l := by
  unfold Seq.ofList at h
  split at h
  · cases h
  · cases h; exact ⟨rfl, rfl⟩

theorem truthy_ofBool (b : Bool) : truthy (ofBool b) = b := by
  cases b <;> rfl

/-- `some` is true exactly when the function is true on some tuple -/
theorem truthy_firstTruthy (f : List Obj → Obj) (l : List (List Obj)) :
    truthy (firstTruthy f l) = l.any (fun t => truthy (f t)) := by
  induction l with
  | nil => rfl
  | cons x xs ih =>
    by_cases hx : truthy (f x) = true
    · simp [firstTruthy, hx]
    · have hx' : truthy (f x) = false := by simpa using hx
      simp [firstTruthy, hx', ih]

end SlipVerif.Seq
