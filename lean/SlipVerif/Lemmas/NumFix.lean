import SlipVerif.Model.Num
import SlipVerif.Lemmas.Num
import Mathlib.Tactic.Linarith
import Mathlib.Tactic.Ring
import Mathlib.Tactic.FieldSimp
import Mathlib.Data.Rat.Floor
import Mathlib.Tactic.Positivity
import Mathlib.Tactic.NormNum
/-
  C05 — helper lemmas for the translated fixnum code (Theorems/GenC05.lean) and for the
  Impl = Spec theorems (Theorems/C05Impl.lean): absence of wrap-around in the common prelude of the
  rounding divisions, uniqueness of the rounded quotient, bounds of `r / b`.
-/
namespace SlipVerif.Num
namespace Impl

theorem wrap64_id' (a : Int) (h : inRange a) : wrap64 a = a := by
  unfold wrap64 inRange at *; omega

/-- the common prelude `q = tn / d; r = tn - q*d` of the four rounding branches does not wrap
    (operands in the int64 range, divisor not zero, not MinInt64 / -1), and the facts about the
    truncated quotient and remainder every branch relies on -/
theorem div_prelude (a b : Int) (ha : inRange a) (hb : inRange b) (hb0 : b ≠ 0)
    (hab : ¬ (a = minFix ∧ b = -1)) :
    quoFix a b = Int.tdiv a b ∧ mulFix (Int.tdiv a b) b = Int.tdiv a b * b ∧
    subFix a (Int.tdiv a b * b) = Int.tmod a b ∧
    a - Int.tdiv a b * b = Int.tmod a b ∧
    (Int.tmod a b).natAbs < b.natAbs ∧ (0 ≤ a → 0 ≤ Int.tmod a b) ∧ (a ≤ 0 → Int.tmod a b ≤ 0) ∧
    (Int.tdiv a b).natAbs ≤ a.natAbs ∧
    (Int.tmod a b ≠ 0 → 2 * (Int.tdiv a b).natAbs ≤ a.natAbs) ∧
    (0 ≤ a → 0 < b → 0 ≤ Int.tdiv a b) ∧ (a ≤ 0 → b < 0 → 0 ≤ Int.tdiv a b) ∧
    (0 ≤ a → b < 0 → Int.tdiv a b ≤ 0) ∧ (a ≤ 0 → 0 < b → Int.tdiv a b ≤ 0) := by
  obtain ⟨e, habs, hs1, hs2⟩ := tdiv_facts a b hb0
  have hq : (Int.tdiv a b).natAbs = a.natAbs / b.natAbs := Int.natAbs_tdiv a b
  have hbpos : 0 < b.natAbs := Int.natAbs_pos.mpr hb0
  have hqle : (Int.tdiv a b).natAbs ≤ a.natAbs := by rw [hq]; exact Nat.div_le_self _ _
  have hrle : (Int.tmod a b).natAbs ≤ a.natAbs := by rw [Int.natAbs_tmod]; exact Nat.mod_le _ _
  have hqr : inRange (Int.tdiv a b) := by
    by_cases hm : b = -1
    · subst hm
      have : a ≠ minFix := fun h => hab ⟨h, rfl⟩
      unfold inRange minFix at *; simp; omega
    · exact tdiv_inRange a b ha hb0 hm
  have h1 : quoFix a b = Int.tdiv a b := by unfold quoFix; exact wrap64_id' _ hqr
  have hprod : Int.tdiv a b * b = a - Int.tmod a b := by linarith
  have hpr : inRange (Int.tdiv a b * b) := by
    rw [hprod]; unfold inRange at *
    rcases le_total 0 a with h | h
    · have := hs1 h; omega
    · have := hs2 h; omega
  have h2 : mulFix (Int.tdiv a b) b = Int.tdiv a b * b := by unfold mulFix; exact wrap64_id' _ hpr
  have h3 : subFix a (Int.tdiv a b * b) = Int.tmod a b := by
    unfold subFix; rw [e]; apply wrap64_id'
    unfold inRange at *; omega
  have hhalf : Int.tmod a b ≠ 0 → 2 * (Int.tdiv a b).natAbs ≤ a.natAbs := by
    intro hr
    have h2b : 2 ≤ b.natAbs := by omega
    rw [hq]
    have : a.natAbs / b.natAbs * b.natAbs ≤ a.natAbs := Nat.div_mul_le_self _ _
    have : a.natAbs / b.natAbs * 2 ≤ a.natAbs / b.natAbs * b.natAbs := Nat.mul_le_mul_left _ h2b
    omega
  refine ⟨h1, h2, h3, e, habs, hs1, hs2, hqle, hhalf, ?_, ?_, ?_, ?_⟩
  · intro h1 h2; exact Int.tdiv_nonneg h1 (le_of_lt h2)
  · intro h1 h2
    have := Int.tdiv_nonneg (a := -a) (b := -b) (by omega) (by omega)
    simpa using this
  · intro h1 h2
    have := Int.tdiv_nonneg (a := a) (b := -b) h1 (by omega)
    simp at this; omega
  · intro h1 h2
    have := Int.tdiv_nonneg (a := -a) (b := b) (by omega) (by omega)
    simp at this; omega

/-! ### uniqueness of the rounded quotient -/

theorem floor_unique (x : Rat) (q : Int) (h1 : (q : Rat) ≤ x) (h2 : x < (q : Rat) + 1) : x.floor = q := by
  have a : q ≤ x.floor := Rat.le_floor_iff.mpr h1
  have b : x.floor < q + 1 := by
    have := Rat.floor_le x
    have h3 : ((x.floor : Int) : Rat) < ((q + 1 : Int) : Rat) := by push_cast; linarith
    exact_mod_cast h3
  omega

theorem ceil_unique (x : Rat) (q : Int) (h1 : (q : Rat) - 1 < x) (h2 : x ≤ (q : Rat)) : ceil x = q := by
  unfold ceil
  have := floor_unique (-x) (-q) (by push_cast; linarith) (by push_cast; linarith)
  omega

theorem truncI_unique (x : Rat) (q : Int)
    (h1 : 0 ≤ x → (q : Rat) ≤ x ∧ x < (q : Rat) + 1) (h2 : x < 0 → (q : Rat) - 1 < x ∧ x ≤ (q : Rat)) :
    truncI x = q := by
  unfold truncI
  by_cases h : 0 ≤ x
  · rw [if_pos h]; exact floor_unique x q (h1 h).1 (h1 h).2
  · rw [if_neg h]; have h' := h2 (not_le.mp h); exact ceil_unique x q h'.1 h'.2

theorem roundI_unique (x : Rat) (q : Int) (h1 : (q : Rat) - 1/2 ≤ x) (h2 : x ≤ (q : Rat) + 1/2)
    (h3 : (x = (q : Rat) - 1/2 ∨ x = (q : Rat) + 1/2) → q % 2 = 0) : roundI x = q := by
  unfold roundI
  simp only
  rcases lt_or_ge x (q : Rat) with hlt | hge
  · have hf : x.floor = q - 1 := floor_unique x (q - 1) (by push_cast; linarith) (by push_cast; linarith)
    rw [hf]; push_cast
    by_cases c1 : x - ((q : Rat) - 1) < 1 / 2
    · exfalso; linarith
    · rw [if_neg c1]
      by_cases c2 : 1 / 2 < x - ((q : Rat) - 1)
      · rw [if_pos c2]; ring
      · rw [if_neg c2]
        have : x = (q : Rat) - 1/2 := by linarith
        have := h3 (Or.inl this)
        have c3 : ¬ ((q - 1) % 2 = 0) := by omega
        rw [if_neg c3]; ring
  · have hf : x.floor = q := floor_unique x q hge (by linarith)
    rw [hf]
    by_cases c1 : x - (q : Rat) < 1 / 2
    · rw [if_pos c1]
    · rw [if_neg c1]
      have : x = (q : Rat) + 1/2 := by linarith
      have he := h3 (Or.inr this)
      have c2 : ¬ (1 / 2 < x - (q : Rat)) := by linarith
      rw [if_neg c2, if_pos he]

/-- an integer quotient/remainder pair that satisfies the division identity, and whose quotient the
    rounding function selects, is the result of the spec's division -/
theorem divBy_of_identity (rnd : Rat → Int) (a b q r : Int) (hb : b ≠ 0) (hid : a = q * b + r)
    (hq : rnd ((a : Rat) / (b : Rat)) = q) : divBy rnd (a : Rat) (b : Rat) = .ok (q, (r : Rat)) := by
  unfold divBy
  have hb' : (b : Rat) ≠ 0 := by exact_mod_cast hb
  rw [if_neg hb']
  simp only [hq]
  congr 2
  have : (r : Rat) = (a : Rat) - (q : Rat) * (b : Rat) := by
    have : r = a - q * b := by linarith
    rw [this]; push_cast; ring
  rw [this]

theorem quot_decomp (a b q r : Int) (hb : b ≠ 0) (hid : a = q * b + r) :
    (a : Rat) / (b : Rat) = (q : Rat) + (r : Rat) / (b : Rat) := by
  have hb' : (b : Rat) ≠ 0 := by exact_mod_cast hb
  rw [hid]; push_cast; field_simp

/-! ### bounds of `r / b` from integer bounds, for both signs of the divisor -/

theorem frac_nonneg_lt_one (r b : Int) (h : (0 < b ∧ 0 ≤ r ∧ r < b) ∨ (b < 0 ∧ b < r ∧ r ≤ 0)) :
    0 ≤ (r : Rat) / (b : Rat) ∧ (r : Rat) / (b : Rat) < 1 := by
  rcases h with ⟨hb, h1, h2⟩ | ⟨hb, h1, h2⟩
  · have hb' : (0 : Rat) < b := by exact_mod_cast hb
    have h1' : (0 : Rat) ≤ r := by exact_mod_cast h1
    have h2' : (r : Rat) < b := by exact_mod_cast h2
    exact ⟨div_nonneg h1' (le_of_lt hb'), (div_lt_one hb').mpr h2'⟩
  · have hbq : (b : Rat) < 0 := by exact_mod_cast hb
    have hrq : (r : Rat) ≤ 0 := by exact_mod_cast h2
    have hbr : (b : Rat) < r := by exact_mod_cast h1
    have hb' : (0 : Rat) < -(b : Rat) := by linarith
    have h1' : (0 : Rat) ≤ -(r : Rat) := by linarith
    have h2' : -(r : Rat) < -(b : Rat) := by linarith
    rw [← neg_div_neg_eq]
    exact ⟨div_nonneg h1' (le_of_lt hb'), (div_lt_one hb').mpr h2'⟩

theorem frac_neg_gt_neg_one (r b : Int) (h : (0 < b ∧ -b < r ∧ r ≤ 0) ∨ (b < 0 ∧ 0 ≤ r ∧ r < -b)) :
    -1 < (r : Rat) / (b : Rat) ∧ (r : Rat) / (b : Rat) ≤ 0 := by
  have := frac_nonneg_lt_one (-r) b (by omega)
  push_cast at this
  rw [neg_div] at this
  constructor <;> linarith [this.1, this.2]

theorem frac_abs_le_half (r b : Int) (hb : b ≠ 0) (h : 2 * r.natAbs ≤ b.natAbs) :
    -(1/2 : Rat) ≤ (r : Rat) / (b : Rat) ∧ (r : Rat) / (b : Rat) ≤ 1/2 ∧
    (((r : Rat) / (b : Rat) = 1/2 ∨ (r : Rat) / (b : Rat) = -(1/2)) → 2 * r.natAbs = b.natAbs) := by
  have key : ∀ (r b : Int), 0 < b → 2 * r.natAbs ≤ b.natAbs →
      -(1/2 : Rat) ≤ (r : Rat) / (b : Rat) ∧ (r : Rat) / (b : Rat) ≤ 1/2 ∧
      (((r : Rat) / (b : Rat) = 1/2 ∨ (r : Rat) / (b : Rat) = -(1/2)) → 2 * r.natAbs = b.natAbs) := by
    intro r b hpos h
    have hb' : (0 : Rat) < (b : Rat) := by exact_mod_cast hpos
    have h1 : (2 : Rat) * (r : Rat) ≤ (b : Rat) := by
      have : 2 * r ≤ b := by omega
      exact_mod_cast this
    have h2 : -(b : Rat) ≤ (2 : Rat) * (r : Rat) := by
      have : -b ≤ 2 * r := by omega
      exact_mod_cast this
    refine ⟨?_, ?_, ?_⟩
    · rw [le_div_iff₀ hb']; linarith
    · rw [div_le_iff₀ hb']; linarith
    · rintro (e | e)
      · rw [div_eq_iff (ne_of_gt hb')] at e
        have : (2 : Rat) * (r : Rat) = (b : Rat) := by linarith
        have : 2 * r = b := by exact_mod_cast this
        omega
      · rw [div_eq_iff (ne_of_gt hb')] at e
        have : (2 : Rat) * (r : Rat) = -(b : Rat) := by linarith
        have : 2 * r = -b := by exact_mod_cast this
        omega
  rcases lt_or_gt_of_ne hb with hneg | hpos
  · have := key (-r) (-b) (by omega) (by simpa using h)
    push_cast at this
    rw [neg_div_neg_eq] at this
    simpa using this
  · exact key r b hpos h

/-! ### shifts -/

theorem ediv_unique (n P q : Int) (hp : 0 < P) (h1 : q * P ≤ n) (h2 : n < (q + 1) * P) : n / P = q := by
  have a1 : n / P * P ≤ n := Int.ediv_mul_le n (ne_of_gt hp)
  have a2 : n < (n / P + 1) * P := Int.lt_ediv_add_one_mul_self n hp
  rcases lt_trichotomy (n / P) q with h | h | h
  · exfalso
    have : (n / P + 1) * P ≤ q * P := Int.mul_le_mul_of_nonneg_right (by omega) (le_of_lt hp)
    omega
  · exact h
  · exfalso
    have : (q + 1) * P ≤ (n / P) * P := Int.mul_le_mul_of_nonneg_right (by omega) (le_of_lt hp)
    omega

theorem shr_eq_div (n : Int) (m : Nat) : n >>> m = n / (2 : Int) ^ m := by
  rw [Int.shiftRight_eq_div_pow]; push_cast; rfl

theorem pow2_pos (m : Nat) : (0 : Int) < (2 : Int) ^ m := by positivity

theorem pow2_mono (i j : Nat) (h : i ≤ j) : (2 : Int) ^ i ≤ (2 : Int) ^ j := by
  exact_mod_cast Nat.pow_le_pow_right (by norm_num) h

/-- an arithmetic right shift of an int64 stays in the int64 range -/
theorem shr_inRange (n : Int) (m : Nat) (hn : inRange n) : inRange (n >>> m) := by
  rw [shr_eq_div]
  have hp := pow2_pos m
  have a1 : n / (2 : Int) ^ m * (2 : Int) ^ m ≤ n := Int.ediv_mul_le n (ne_of_gt hp)
  have a2 : n < (n / (2 : Int) ^ m + 1) * (2 : Int) ^ m := Int.lt_ediv_add_one_mul_self n hp
  unfold inRange at *
  rcases le_or_gt 0 n with h | h
  · have h1 : 0 ≤ n / (2 : Int) ^ m := Int.ediv_nonneg h (le_of_lt hp)
    have h2 : n / (2 : Int) ^ m ≤ n := Int.ediv_le_self _ h
    omega
  · have h1 : n / (2 : Int) ^ m < 0 := Int.ediv_neg_of_neg_of_pos h hp
    have h2 : n ≤ n / (2 : Int) ^ m := by
      by_contra hc
      have : (n / (2 : Int) ^ m + 1) ≤ n := by omega
      have h3 : (n / (2 : Int) ^ m + 1) * (2 : Int) ^ m ≤ (n / (2 : Int) ^ m + 1) * 1 :=
        Int.mul_le_mul_of_nonpos_left (by omega) (by omega)
      omega
    omega

/-- shifting an int64 right by 63 or more leaves only the sign -/
theorem shr_sat (n : Int) (j : Nat) (hj : 63 ≤ j) (hn : inRange n) : n >>> j = n >>> (63 : Nat) := by
  have key : ∀ k : Nat, 63 ≤ k → n >>> k = if n < 0 then -1 else 0 := by
    intro k hk
    rw [shr_eq_div]
    have hp := pow2_pos k
    have hm := pow2_mono 63 k hk
    unfold inRange at hn
    by_cases h : n < 0
    · rw [if_pos h]; apply ediv_unique _ _ _ hp <;> norm_num at hm ⊢ <;> omega
    · rw [if_neg h]; apply ediv_unique _ _ _ hp <;> norm_num at hm ⊢ <;> omega
  rw [key j hj]; exact (key 63 (le_refl _)).symm


end Impl
end SlipVerif.Num
