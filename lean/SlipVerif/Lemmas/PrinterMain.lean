import SlipVerif.Lemmas.PrinterStruct
import SlipVerif.Lemmas.PrinterFloat
/- C03: the structural round-trip lemma (core only) -/
namespace SlipVerif.Printer
open SlipVerif.Gen

/-- a token made of letters and points -/
theorem read1_plain_token (hT : TablesOK) (c : Char) (r rest : List Char)
    (hc : needPipeChar c = false) (hr : ∀ a ∈ r, needPipeChar a = false)
    (hrest : termOrEnd rest = true) (fuel : Nat) :
    read1 10 (fuel + 1) (c :: (r ++ rest)) = mapOk (fun o => (o, rest)) (classifyTok 10 (c :: r)) := by
  have hp := noPipe_plain hT c hc
  exact read1_token hT 10 fuel c r rest hp.1 hp.2.1 hp.2.2.1 hp.2.2.2.1 hp.2.2.2.2.1 hp.2.2.2.2.2
    (noPipe_start hT c hc) (fun a ha => noPipe_token hT a (hr a ha)) hrest

theorem read1_t (hT : TablesOK) (rest : List Char) (hrest : termOrEnd rest = true) (fuel : Nat) :
    read1 10 (fuel + 1) ('t' :: rest) = .ok (.t, rest) := by
  have := read1_plain_token hT 't' [] rest (letter_noPipe hT _ (by decide)) (by simp) hrest fuel
  simp only [List.nil_append] at this
  rw [this]
  rfl

theorem caseName_nil (cs : Case) :
    caseName cs ['n', 'i', 'l'] = ['n', 'i', 'l'] ∨ caseName cs ['n', 'i', 'l'] = ['N', 'I', 'L'] ∨
    caseName cs ['n', 'i', 'l'] = ['N', 'i', 'l'] := by
  cases cs <;> decide

theorem read1_nil (hT : TablesOK) (cs : Case) (rest : List Char) (hrest : termOrEnd rest = true) (fuel : Nat) :
    read1 10 (fuel + 1) (caseName cs ['n', 'i', 'l'] ++ rest) = .ok (.nil, rest) := by
  have hl : ∀ c : Char, isLetterC c = true → needPipeChar c = false := fun c h => letter_noPipe hT c h
  rcases caseName_nil cs with h | h | h <;> rw [h] <;> simp only [List.cons_append, List.nil_append]
  · have := read1_plain_token hT 'n' ['i', 'l'] rest (hl _ (by decide))
      (by intro a ha; simp at ha; rcases ha with ha | ha <;> subst ha <;> exact hl _ (by decide)) hrest fuel
    simp only [List.cons_append, List.nil_append] at this
    rw [this]; rfl
  · have := read1_plain_token hT 'N' ['I', 'L'] rest (hl _ (by decide))
      (by intro a ha; simp at ha; rcases ha with ha | ha <;> subst ha <;> exact hl _ (by decide)) hrest fuel
    simp only [List.cons_append, List.nil_append] at this
    rw [this]; rfl
  · have := read1_plain_token hT 'N' ['i', 'l'] rest (hl _ (by decide))
      (by intro a ha; simp at ha; rcases ha with ha | ha <;> subst ha <;> exact hl _ (by decide)) hrest fuel
    simp only [List.cons_append, List.nil_append] at this
    rw [this]; rfl

/-- the point between the last two elements of a dotted list reads as the symbol `.` -/
theorem read1_dot (hT : TablesOK) (rest : List Char) (hrest : termOrEnd rest = true) (fuel : Nat) :
    read1 10 (fuel + 1) ('.' :: rest) = .ok (dotSym, rest) := by
  have hd : needPipeChar '.' = false := by
    have := hT.dot_free
    simp [needPipeChar, utf8Bytes] at this ⊢
    exact this
  have := read1_plain_token hT '.' [] rest hd (by simp) hrest fuel
  simp only [List.nil_append] at this
  rw [this]
  rfl

/-- symbol round trip: with or without bars, the printed name reads back as the name in the case
    it was printed in -/
theorem read1_printSym (hT : TablesOK) (cfg : PCfg) (name : List Char)
    (hnt : name.map lowerC ≠ ['t']) (hnn : name.map lowerC ≠ ['n', 'i', 'l'])
    (rest : List Char) (hrest : termOrEnd rest = true) (fuel : Nat) :
    read1 10 (fuel + 1) (printSym cfg name ++ rest) = .ok (.sym (caseName cfg.case name), rest) := by
  unfold printSym
  by_cases hb : needsBar cfg.base name = true
  · simp only [hb, if_true]
    exact read1_barred (caseName cfg.case name) rest fuel 10
  · have hb' : needsBar cfg.base name = false := by simpa using hb
    simp only [hb', Bool.false_eq_true, if_false]
    exact read1_sym_bare hT cfg.case cfg.base name hb' hnt hnn rest hrest fuel


/-! the structural induction -/

theorem printTail_term (cfg : PCfg) (d : Obj) (rest : List Char) : termOrEnd (printTail cfg d ++ rest) = true := by
  cases d <;> simp [printTail, termOrEnd, isTerm, isWs]

theorem caseName_dot (cs : Case) (name : List Char) (h : caseName cs name = ['.']) : name = ['.'] := by
  have hrel := caseName_rel cs name
  rw [h] at hrel
  cases name with
  | nil => exact absurd hrel (by simp [AllRel])
  | cons c r =>
    cases r with
    | cons _ _ => exact absurd hrel.2 (by simp [AllRel])
    | nil =>
      rcases hrel.1 with h1 | ⟨_, h1⟩
      · rw [h1]
      · exact absurd h1 (by decide)

theorem recase_ne_dot (cs : Case) (a : Obj) (h : a ≠ dotSym) : recase cs a ≠ dotSym := by
  intro he
  apply h
  cases a <;> simp [recase, dotSym] at he ⊢
  exact caseName_dot cs _ he

theorem WF_noDot (cs : Case) (d : Obj) (h : WF d) : NoDot (recase cs d) := by
  induction d with
  | cons a d _ ih =>
    simp only [recase, NoDot]
    exact ⟨recase_ne_dot cs a h.2.1, ih h.2.2⟩
  | _ => simp [recase, NoDot]

theorem isList_recase (cs : Case) (d : Obj) : isList (recase cs d) = isList d := by
  induction d with
  | cons a d _ ih => simp [recase, isList, ih]
  | _ => simp [recase, isList]

/-- the two halves of the induction: `P` for an object, `Q` for the rest of a list -/
def PRead (cfg : PCfg) (x : Obj) : Prop :=
  WF x → ∀ (rest : List Char) (fuel : Nat), termOrEnd rest = true → 3 * osize x + 4 ≤ fuel →
    read1 10 fuel (printFlat cfg x ++ rest) = .ok (recase cfg.case x, rest)

def QRead (cfg : PCfg) (x : Obj) : Prop :=
  WF x → ∀ (rest : List Char) (fuel : Nat) (acc : List Obj), 3 * osize x + 6 ≤ fuel →
    readElems 10 fuel (printTail cfg x ++ rest) acc = .ok (acc.reverse ++ tailElems (recase cfg.case x), rest)

/-- the rest of a dotted list: ` . atom)` -/
theorem qread_atom (hT : TablesOK) (cfg : PCfg) (t : Obj)
    (hpt : printTail cfg t = ' ' :: '.' :: ' ' :: (printFlat cfg t ++ [')']))
    (hte : tailElems (recase cfg.case t) = [dotSym, recase cfg.case t])
    (hP : PRead cfg t) : QRead cfg t := by
  intro hwf rest fuel acc hfuel
  obtain ⟨f, rfl⟩ : ∃ f, fuel = f + 1 := ⟨fuel - 1, by omega⟩
  obtain ⟨g, rfl⟩ : ∃ g, f = g + 1 := ⟨f - 1, by omega⟩
  obtain ⟨h, rfl⟩ : ∃ h, g = h + 1 := ⟨g - 1, by omega⟩
  rw [hpt, hte]
  simp only [List.cons_append, List.append_assoc, List.nil_append]
  rw [readElems_space]
  have h1 := read1_dot hT (' ' :: (printFlat cfg t ++ ')' :: rest)) (by simp [termOrEnd, isTerm, isWs]) (h + 1)
  rw [readElems_step 10 (h + 1 + 1) _ _ _ acc h1, readElems_space]
  have h2 := hP hwf (')' :: rest) (h + 1) (by simp [termOrEnd, isTerm, isWs]) (by omega)
  rw [readElems_step 10 (h + 1) _ _ _ _ h2, readElems_close]
  simp


/-- the body of a list, vector or array after the opening parenthesis -/
theorem body_read (cfg : PCfg) (a d : Obj) (hPa : PRead cfg a) (hQd : QRead cfg d) (hwa : WF a) (hwd : WF d)
    (rest : List Char) (g : Nat) (hg : 3 * osize a + 3 * osize d + 5 ≤ g) :
    readElems 10 (g + 1) (printFlat cfg a ++ (printTail cfg d ++ rest)) [] =
      .ok (recase cfg.case a :: tailElems (recase cfg.case d), rest) := by
  have hsd : 1 ≤ osize d := by cases d <;> simp [osize] <;> omega
  have hsa : 1 ≤ osize a := by cases a <;> simp [osize] <;> omega
  have h1 := hPa hwa (printTail cfg d ++ rest) g (printTail_term cfg d rest) (by omega)
  rw [readElems_step 10 g _ _ _ [] h1, hQd hwd rest g _ (by omega)]
  simp

theorem struct_roundtrip (hT : TablesOK) (cfg : PCfg) (hC : CfgOK cfg) :
    ∀ x : Obj, PRead cfg x ∧ QRead cfg x := by
  intro x
  induction x with
  | nil =>
    have hP : PRead cfg .nil := by
      intro _ rest fuel hrest hfuel
      obtain ⟨f, rfl⟩ : ∃ f, fuel = f + 1 := ⟨fuel - 1, by simp [osize] at hfuel; omega⟩
      simp only [printFlat, recase]
      exact read1_nil hT cfg.case rest hrest f
    refine ⟨hP, ?_⟩
    intro _ rest fuel acc hfuel
    obtain ⟨f, rfl⟩ : ∃ f, fuel = f + 1 := ⟨fuel - 1, by simp [osize] at hfuel; omega⟩
    simp only [printTail, recase, tailElems, List.cons_append, List.nil_append, List.append_nil]
    exact readElems_close 10 f rest acc
  | t =>
    have hP : PRead cfg .t := by
      intro _ rest fuel hrest hfuel
      obtain ⟨f, rfl⟩ : ∃ f, fuel = f + 1 := ⟨fuel - 1, by simp [osize] at hfuel; omega⟩
      simp only [printFlat, recase, List.cons_append, List.nil_append]
      exact read1_t hT rest hrest f
    exact ⟨hP, qread_atom hT cfg .t (by simp [printTail, printFlat]) (by simp [recase, tailElems]) hP⟩
  | int n =>
    have hP : PRead cfg (.int n) := by
      intro _ rest fuel hrest hfuel
      obtain ⟨f, rfl⟩ : ∃ f, fuel = f + 1 := ⟨fuel - 1, by simp [osize] at hfuel; omega⟩
      simp only [printFlat, recase]
      exact read1_printInt hT cfg hC.base_lo hC.base_hi hC.dom n rest hrest f
    exact ⟨hP, qread_atom hT cfg (.int n) (by simp [printTail, printFlat]) (by simp [recase, tailElems]) hP⟩
  | ratio num den =>
    have hP : PRead cfg (.ratio num den) := by
      intro hwf rest fuel hrest hfuel
      obtain ⟨f, rfl⟩ : ∃ f, fuel = f + 1 := ⟨fuel - 1, by simp [osize] at hfuel; omega⟩
      simp only [printFlat, recase]
      exact read1_printRatio hT cfg hC.base_lo hC.base_hi hC.dom num den hwf.1 hwf.2 rest hrest f
    exact ⟨hP, qread_atom hT cfg (.ratio num den) (by simp [printTail, printFlat]) (by simp [recase, tailElems]) hP⟩
  | str s =>
    have hP : PRead cfg (.str s) := by
      intro _ rest fuel hrest hfuel
      obtain ⟨f, rfl⟩ : ∃ f, fuel = f + 1 := ⟨fuel - 1, by simp [osize] at hfuel; omega⟩
      simp only [printFlat, recase]
      exact read1_str cfg hC.readably s rest f 10
    exact ⟨hP, qread_atom hT cfg (.str s) (by simp [printTail, printFlat]) (by simp [recase, tailElems]) hP⟩
  | chr c =>
    have hP : PRead cfg (.chr c) := by
      intro hwf rest fuel hrest hfuel
      obtain ⟨f, rfl⟩ : ∃ f, fuel = f + 1 := ⟨fuel - 1, by simp [osize] at hfuel; omega⟩
      simp only [printFlat, recase]
      exact read1_chr hT c hwf rest hrest f 10
    exact ⟨hP, qread_atom hT cfg (.chr c) (by simp [printTail, printFlat]) (by simp [recase, tailElems]) hP⟩
  | sym name =>
    have hP : PRead cfg (.sym name) := by
      intro hwf rest fuel hrest hfuel
      obtain ⟨f, rfl⟩ : ∃ f, fuel = f + 1 := ⟨fuel - 1, by simp [osize] at hfuel; omega⟩
      simp only [printFlat, recase]
      exact read1_printSym hT cfg name hwf.1 hwf.2 rest hrest f
    exact ⟨hP, qread_atom hT cfg (.sym name) (by simp [printTail, printFlat]) (by simp [recase, tailElems]) hP⟩
  | flt ff neg ds e =>
    have hP : PRead cfg (.flt ff neg ds e) := by
      intro hwf rest fuel hrest hfuel
      obtain ⟨f, rfl⟩ : ∃ f, fuel = f + 1 := ⟨fuel - 1, by simp [osize] at hfuel; omega⟩
      simp only [printFlat, recase]
      exact read1_printFloat hT cfg hC.readably ff neg ds e hwf rest hrest f
    exact ⟨hP, qread_atom hT cfg (.flt ff neg ds e) (by simp [printTail, printFlat]) (by simp [recase, tailElems]) hP⟩
  | cons a d iha ihd =>
    constructor
    · intro hwf rest fuel hrest hfuel
      obtain ⟨f, rfl⟩ : ∃ f, fuel = f + 1 := ⟨fuel - 1, by omega⟩
      obtain ⟨g, rfl⟩ : ∃ g, f = g + 1 := ⟨f - 1, by simp [osize] at hfuel; omega⟩
      simp only [printFlat, recase, List.cons_append, List.append_assoc]
      rw [read1_paren, body_read cfg a d iha.1 ihd.2 hwf.1 hwf.2.2 rest g (by simp [osize] at hfuel; omega)]
      simp only [mapOk]
      rw [closeList_tailElems _ _ (recase_ne_dot cfg.case a hwf.2.1) (WF_noDot cfg.case d hwf.2.2)]
    · intro hwf rest fuel acc hfuel
      obtain ⟨f, rfl⟩ : ∃ f, fuel = f + 1 := ⟨fuel - 1, by omega⟩
      simp only [printTail, recase, tailElems, List.cons_append, List.append_assoc]
      rw [readElems_space]
      have hsd : 1 ≤ osize d := by cases d <;> simp [osize] <;> omega
      have hsa : 1 ≤ osize a := by cases a <;> simp [osize] <;> omega
      have h1 := iha.1 hwf.1 (printTail cfg d ++ rest) f (printTail_term cfg d rest) (by simp [osize] at hfuel; omega)
      rw [readElems_step 10 f _ _ _ acc h1, ihd.2 hwf.2.2 rest f _ (by simp [osize] at hfuel; omega)]
      simp
  | vec e ih =>
    have hP : PRead cfg (.vec e) := by
      intro hwf rest fuel hrest hfuel
      obtain ⟨f, rfl⟩ : ∃ f, fuel = f + 1 := ⟨fuel - 1, by omega⟩
      obtain ⟨g, rfl⟩ : ∃ g, f = g + 1 := ⟨f - 1, by simp [osize] at hfuel; omega⟩
      simp only [printFlat, recase]
      cases e with
      | cons a d =>
        simp only [printVec, hC.array, if_true, List.cons_append, List.append_assoc]
        rw [read1_sharp_paren]
        have hq := ih.2 hwf.2 rest (g + 1) [] (by simp [osize] at hfuel ⊢; omega)
        simp only [printTail, List.cons_append, List.append_assoc] at hq
        rw [readElems_space] at hq
        rw [hq]
        simp only [mapOk, List.reverse_nil, List.nil_append]
        rw [mkProper_tailElems _ (by rw [isList_recase]; exact hwf.1)]
      | nil =>
        simp only [printVec, hC.array, if_true, List.cons_append, List.nil_append]
        rw [read1_sharp_paren, readElems_close]
        simp [mapOk, mkProper, recase]
      | _ => simp [WF, isList] at hwf
    exact ⟨hP, qread_atom hT cfg (.vec e) (by simp [printTail, printFlat]) (by simp [recase, tailElems]) hP⟩
  | arr r c ih =>
    have hP : PRead cfg (.arr r c) := by
      intro hwf rest fuel hrest hfuel
      obtain ⟨f, rfl⟩ : ∃ f, fuel = f + 1 := ⟨fuel - 1, by omega⟩
      obtain ⟨g, rfl⟩ : ∃ g, f = g + 1 := ⟨f - 1, by simp [osize] at hfuel; omega⟩
      simp only [printFlat, recase]
      cases c with
      | cons a d =>
        simp only [printArr, hC.array, if_true, List.cons_append, List.append_assoc]
        rw [read1_sharp_A]
        have hq := ih.2 hwf.2.2.2 rest (g + 1) [] (by simp [osize] at hfuel ⊢; omega)
        simp only [printTail, List.cons_append, List.append_assoc] at hq
        rw [readElems_space] at hq
        rw [hq]
        have hr1 : r ≠ 1 := by have := hwf.1; omega
        simp only [mapOk, List.reverse_nil, List.nil_append, hr1, if_false]
        rw [mkProper_tailElems _ (by rw [isList_recase]; exact hwf.2.1)]
      | nil => exact absurd rfl hwf.2.2.1
      | _ => simp [WF, isList] at hwf
    exact ⟨hP, qread_atom hT cfg (.arr r c) (by simp [printTail, printFlat]) (by simp [recase, tailElems]) hP⟩


/-! the printed text is at least as long as the object is big (the reader's fuel) -/

theorem intText_len (b : Nat) (n : Int) : 1 ≤ (intText b n).length := by
  unfold intText
  have := natText_ne_nil b n.natAbs
  split
  · simp
  · cases h : natText b n.natAbs with
    | nil => exact absurd h this
    | cons _ _ => simp

theorem printInt_len (cfg : PCfg) (n : Int) : 1 ≤ (printInt cfg n).length := by
  have := intText_len cfg.base n
  have := intText_len 10 n
  unfold printInt
  split
  · split <;> simp <;> omega
  · assumption

theorem printRatio_len (cfg : PCfg) (num : Int) (den : Nat) : 1 ≤ (printRatio cfg num den).length := by
  unfold printRatio
  split
  · exact printInt_len cfg num
  · simp; omega

theorem printStr_len (cfg : PCfg) (s : List Char) : 1 ≤ (printStr cfg s).length := by
  unfold printStr
  split <;> simp

theorem printChr_len (hT : TablesOK) (c : Char) (hc : c.toNat ≠ 0) : 1 ≤ (printChr c).length := by
  by_cases hlow : c.toNat < 128
  · have hl := hT.low_chars
    unfold lowCharsOK at hl
    rw [List.all_eq_true] at hl
    have hn := hl c.toNat (List.mem_range.mpr hlow)
    rw [Char.ofNat_toNat] at hn
    simp only [Bool.or_eq_true, beq_iff_eq, hc, false_or] at hn
    split at hn
    · rename_i c0 r0 hp
      rw [hp]; simp
    · simp at hn
  · unfold printChr
    rw [specialText_none hT c (by omega)]
    have h32 : ¬ c.toNat < 32 := by omega
    simp [h32]

theorem caseName_len (cs : Case) (name : List Char) : (caseName cs name).length = name.length := by
  cases cs with
  | down => simp [caseName]
  | up => simp [caseName]
  | cap => cases name <;> simp [caseName]
  | none => rfl

theorem printSym_len (cfg : PCfg) (name : List Char) : 1 ≤ (printSym cfg name).length := by
  unfold printSym
  split
  · simp
  · rename_i h
    cases name with
    | nil => simp [needsBar] at h
    | cons c r => rw [caseName_len]; simp

theorem printFloat_len (cfg : PCfg) (f : FFmt) (neg : Bool) (ds : List Nat) (e : Int) :
    1 ≤ (printFloat cfg f neg ds e).length := by
  have hm : ∀ ds, 1 ≤ (mantText ds).length := by
    intro ds
    cases ds with
    | nil => simp [mantText]
    | cons d r => cases r <;> simp [mantText]
  have hE : ∀ m, 1 ≤ (floatE m neg ds e).length := by
    intro m
    have := hm ds
    simp [floatE]; omega
  unfold printFloat
  split
  · exact hE _
  · split
    · exact hE _
    · unfold floatF
      cases ds with
      | nil => simp
      | cons d r =>
        simp only
        split
        · simp; omega
        · split <;> simp <;> omega

theorem size_le_length (hT : TablesOK) (cfg : PCfg) (hC : CfgOK cfg) : ∀ x : Obj,
    (WF x → osize x ≤ (printFlat cfg x).length) ∧ (WF x → osize x ≤ (printTail cfg x).length) := by
  intro x
  induction x with
  | nil => simp [osize, printFlat, printTail, caseName_len]
  | t => simp [osize, printFlat, printTail]
  | int n => have := printInt_len cfg n; simp [osize, printFlat, printTail]; omega
  | ratio num den => have := printRatio_len cfg num den; simp [osize, printFlat, printTail]; omega
  | str s => have := printStr_len cfg s; simp [osize, printFlat, printTail]; omega
  | chr c =>
    constructor
    · intro hwf; have := printChr_len hT c hwf; simp [osize, printFlat]; omega
    · intro _; simp [osize, printTail]
  | sym name => have := printSym_len cfg name; simp [osize, printFlat, printTail]; omega
  | flt ff neg ds e => have := printFloat_len cfg ff neg ds e; simp [osize, printFlat, printTail]; omega
  | cons a d iha ihd =>
    constructor
    · intro hwf
      have h1 := iha.1 hwf.1
      have h2 := ihd.2 hwf.2.2
      simp [osize, printFlat]; omega
    · intro hwf
      have h1 := iha.1 hwf.1
      have h2 := ihd.2 hwf.2.2
      simp [osize, printTail]; omega
  | vec e ih =>
    have hP : WF (.vec e) → osize (.vec e) ≤ (printFlat cfg (.vec e)).length := by
      intro hwf
      simp only [osize, printFlat]
      cases e with
      | cons a d =>
        have h2 := ih.2 hwf.2
        simp [osize, printTail, printVec, hC.array] at h2 ⊢
        omega
      | nil => simp [osize, printVec, hC.array]
      | _ => simp [WF, isList] at hwf
    refine ⟨hP, ?_⟩
    intro hwf
    have := hP hwf
    simp only [printFlat] at this
    simp [printTail]; omega
  | arr r c ih =>
    have hP : WF (.arr r c) → osize (.arr r c) ≤ (printFlat cfg (.arr r c)).length := by
      intro hwf
      simp only [osize, printFlat]
      cases c with
      | cons a d =>
        have h2 := ih.2 hwf.2.2.2
        simp [osize, printTail, printArr, hC.array] at h2 ⊢
        omega
      | nil => exact absurd rfl hwf.2.2.1
      | _ => simp [WF, isList] at hwf
    refine ⟨hP, ?_⟩
    intro hwf
    have := hP hwf
    simp only [printFlat] at this
    simp [printTail]; omega

/-- what was read is equal to what was printed (symbols up to case, as in slip) -/
theorem objEq_recase (cs : Case) : ∀ x : Obj, objEq x (recase cs x) = true := by
  intro x
  induction x with
  | sym name => simp [recase, objEq, symEq, lower_caseName]
  | cons a d iha ihd => simp [recase, objEq, iha, ihd]
  | vec e ih => simp [recase, objEq, ih]
  | arr r c ih => simp [recase, objEq, ih]
  | _ => simp [recase, objEq]

end SlipVerif.Printer
