import SlipVerif.Model.History
/-
  helper lemmas for Theorems/C20.lean (core Lean only, no Mathlib needed)
-/
namespace SlipVerif.History

/-! ## lines -/

theorem lines_append_nl (a b : Content) (h : NL ∉ a) : lines (a ++ NL :: b) = a :: lines b := by
  induction a with
  | nil => simp [lines]
  | cons c a ih =>
    have hc : c ≠ NL := by intro e; exact h (by simp [e])
    have ha : NL ∉ a := by intro e; exact h (by simp [e])
    simp [lines, hc, ih ha]

theorem lines_snoc_ne (x : Content) : lines (x ++ [NL]) ≠ [] := by
  induction x with
  | nil => simp [lines]
  | cons c x ih =>
    by_cases hc : c = NL
    · simp [lines, hc]
    · simp only [List.cons_append, lines, hc, if_false]
      cases h : lines (x ++ [NL]) with
      | nil => exact absurd h ih
      | cons l ls => simp

theorem lines_append_terminated (x y : Content) :
    lines (x ++ NL :: y) = lines (x ++ [NL]) ++ lines y := by
  induction x with
  | nil => simp [lines]
  | cons c x ih =>
    by_cases hc : c = NL
    · simp [lines, hc, ih]
    · simp only [List.cons_append, lines, hc, if_false, ih]
      cases h : lines (x ++ [NL]) with
      | nil => exact absurd h (lines_snoc_ne x)
      | cons l ls => simp

/-- a file is terminated when it is empty or ends with a newline (what whole writes of
`tabAppend` lines produce) -/
def Terminated (x : Content) : Prop := x = [] ∨ ∃ x', x = x' ++ [NL]

theorem lines_append (x y : Content) (h : Terminated x) : lines (x ++ y) = lines x ++ lines y := by
  rcases h with rfl | ⟨x', rfl⟩
  · simp [lines]
  · have := lines_append_terminated x' y
    simpa using this

theorem terminated_append {x y : Content} (hx : Terminated x) (hy : Terminated y) : Terminated (x ++ y) := by
  rcases hy with rfl | ⟨y', rfl⟩
  · simpa using hx
  · exact Or.inr ⟨x ++ y', by simp⟩

theorem lines_no_nl : ∀ (c : Content) (l : Content), l ∈ lines c → NL ∉ l := by
  intro c
  induction c with
  | nil => intro l h; simp [lines] at h
  | cons a c ih =>
    intro l h
    by_cases ha : a = NL
    · simp only [lines, ha, if_true, List.mem_cons] at h
      rcases h with rfl | h
      · simp
      · exact ih l h
    · simp only [lines, ha, if_false] at h
      cases hl : lines c with
      | nil => simp [hl] at h
      | cons l0 ls =>
        simp only [hl, List.mem_cons] at h
        rcases h with rfl | h
        · have := ih l0 (by simp [hl])
          intro hm
          rcases List.mem_cons.mp hm with e | e
          · exact ha e.symm
          · exact this e
        · exact ih l (by simp [hl, h])

/-! ## splitOn / pieces / joinTab -/

theorem splitOn_notin (sep : Char) (a : Content) (h : sep ∉ a) : splitOn sep a = (a, []) := by
  induction a with
  | nil => simp [splitOn]
  | cons c a ih =>
    have hc : c ≠ sep := by intro e; exact h (by simp [e])
    have ha : sep ∉ a := by intro e; exact h (by simp [e])
    simp [splitOn, hc, ih ha]

theorem splitOn_append_sep (sep : Char) (a b : Content) (h : sep ∉ a) :
    splitOn sep (a ++ sep :: b) = (a, pieces sep b) := by
  induction a with
  | nil => simp [splitOn, pieces]
  | cons c a ih =>
    have hc : c ≠ sep := by intro e; exact h (by simp [e])
    have ha : sep ∉ a := by intro e; exact h (by simp [e])
    simp [splitOn, hc, ih ha]

theorem pieces_notin (sep : Char) (a : Content) (h : sep ∉ a) : pieces sep a = [a] := by
  simp [pieces, splitOn_notin sep a h]

theorem pieces_append_sep (sep : Char) (a b : Content) (h : sep ∉ a) :
    pieces sep (a ++ sep :: b) = a :: pieces sep b := by
  simp [pieces, splitOn_append_sep sep a b h]

theorem pieces_joinTab : ∀ (f : Form), f ≠ [] → (∀ l ∈ f, TAB ∉ l) → pieces TAB (joinTab f) = f
  | [], h, _ => absurd rfl h
  | [l], _, h => by simpa [joinTab] using pieces_notin TAB l (h l (by simp))
  | l :: l' :: ls, _, h => by
    have hl : TAB ∉ l := h l (by simp)
    have ih := pieces_joinTab (l' :: ls) (by simp) (fun x hx => h x (by simp [hx]))
    simp only [joinTab]
    rw [pieces_append_sep TAB l _ hl, ih]

/-- every piece is free of the separator, and of anything the text is free of -/
theorem splitOn_mem (sep : Char) : ∀ (s : Content),
    (sep ∉ (splitOn sep s).1 ∧ ∀ p ∈ (splitOn sep s).2, sep ∉ p) ∧
    (∀ x, x ∉ s → x ∉ (splitOn sep s).1 ∧ ∀ p ∈ (splitOn sep s).2, x ∉ p) := by
  intro s
  induction s with
  | nil => simp [splitOn]
  | cons c s ih =>
    obtain ⟨⟨ih1, ih2⟩, ih3⟩ := ih
    by_cases hc : c = sep
    · subst hc
      refine ⟨⟨by simp [splitOn], ?_⟩, ?_⟩
      · intro p hp
        simp only [splitOn, if_true, List.mem_cons] at hp
        rcases hp with rfl | hp
        · exact ih1
        · exact ih2 p hp
      · intro x hx
        have hxs : x ∉ s := fun e => hx (by simp [e])
        refine ⟨by simp [splitOn], ?_⟩
        intro p hp
        simp only [splitOn, if_true, List.mem_cons] at hp
        rcases hp with rfl | hp
        · exact (ih3 x hxs).1
        · exact (ih3 x hxs).2 p hp
    · refine ⟨⟨?_, ?_⟩, ?_⟩
      · simp only [splitOn, hc, if_false, List.mem_cons, not_or]
        exact ⟨fun e => hc e.symm, ih1⟩
      · intro p hp
        simp only [splitOn, hc, if_false] at hp
        exact ih2 p hp
      · intro x hx
        have hxs : x ∉ s := fun e => hx (by simp [e])
        have hxc : x ≠ c := fun e => hx (by simp [e])
        refine ⟨?_, ?_⟩
        · simp only [splitOn, hc, if_false, List.mem_cons, not_or]
          exact ⟨hxc, (ih3 x hxs).1⟩
        · intro p hp
          simp only [splitOn, hc, if_false] at hp
          exact (ih3 x hxs).2 p hp

theorem pieces_sep_free (sep : Char) (s : Content) : ∀ p ∈ pieces sep s, sep ∉ p := by
  intro p hp
  simp only [pieces, List.mem_cons] at hp
  rcases hp with rfl | hp
  · exact (splitOn_mem sep s).1.1
  · exact (splitOn_mem sep s).1.2 p hp

theorem pieces_free (sep x : Char) (s : Content) (hx : x ∉ s) : ∀ p ∈ pieces sep s, x ∉ p := by
  intro p hp
  simp only [pieces, List.mem_cons] at hp
  rcases hp with rfl | hp
  · exact ((splitOn_mem sep s).2 x hx).1
  · exact ((splitOn_mem sep s).2 x hx).2 p hp

/-- the last character of the last piece is the last character of the text -/
theorem pieces_last (sep : Char) : ∀ (s : Content) (z : Char), s.getLast? = some z → z ≠ sep →
    ∃ l, (pieces sep s).getLast? = some l ∧ l.getLast? = some z := by
  intro s
  induction s with
  | nil => intro z h; simp at h
  | cons c s ih =>
    intro z hz hne
    cases s with
    | nil =>
      simp at hz
      subst hz
      refine ⟨[c], ?_, by simp⟩
      simp [pieces, splitOn, hne]
    | cons d s' =>
      have hz' : (d :: s').getLast? = some z := by simpa [List.getLast?_cons_cons] using hz
      obtain ⟨l, hl1, hl2⟩ := ih z hz' hne
      by_cases hc : c = sep
      · refine ⟨l, ?_, hl2⟩
        have : pieces sep (c :: d :: s') = [] :: pieces sep (d :: s') := by
          simp [pieces, splitOn, hc]
        rw [this]
        simp only [pieces] at hl1 ⊢
        simpa [List.getLast?_cons_cons] using hl1
      · have hp : pieces sep (c :: d :: s') =
            (c :: (splitOn sep (d :: s')).1) :: (splitOn sep (d :: s')).2 := by
          simp [pieces, splitOn, hc]
        rw [hp]
        cases h2 : (splitOn sep (d :: s')).2 with
        | nil =>
          simp only [pieces, h2] at hl1
          simp at hl1
          subst hl1
          refine ⟨c :: (splitOn sep (d :: s')).1, by simp, ?_⟩
          cases h1 : (splitOn sep (d :: s')).1 with
          | nil => simp [h1] at hl2
          | cons e r => simpa [h1, List.getLast?_cons_cons] using hl2
        | cons q qs =>
          refine ⟨l, ?_, hl2⟩
          simp only [pieces, h2] at hl1
          simpa [List.getLast?_cons_cons] using hl1

/-! ## trim -/

theorem dropWhile_head {α} (p : α → Bool) : ∀ (l : List α) (a : α) (r : List α),
    l.dropWhile p = a :: r → p a = false := by
  intro l
  induction l with
  | nil => intro a r h; simp at h
  | cons x l ih =>
    intro a r h
    by_cases hx : p x = true
    · rw [List.dropWhile_cons_of_pos hx] at h; exact ih a r h
    · have hx' : p x = false := by simpa using hx
      rw [List.dropWhile_cons_of_neg hx] at h
      injection h with h1 _
      subst h1; exact hx'

theorem dropWhile_mem {α} (p : α → Bool) (l : List α) : ∀ x ∈ l.dropWhile p, x ∈ l :=
  fun _ hx => (List.dropWhile_sublist p).subset hx

theorem dropWhile_snoc {α} (p : α → Bool) (c : α) (hc : p c = false) : ∀ (xs : List α),
    ∃ pre, (xs ++ [c]).dropWhile p = pre ++ [c] := by
  intro xs
  induction xs with
  | nil => exact ⟨[], by simp [hc]⟩
  | cons x xs ih =>
    by_cases hx : p x = true
    · obtain ⟨pre, h⟩ := ih
      exact ⟨pre, by rw [List.cons_append, List.dropWhile_cons_of_pos hx, h]⟩
    · exact ⟨x :: xs, by rw [List.cons_append, List.dropWhile_cons_of_neg hx]⟩

theorem trimLeft_fixed (c : Char) (cs : Content) (h : isSpace c = false) : trimLeft (c :: cs) = c :: cs := by
  simp [trimLeft, h]

theorem trimRight_fixed (s : Content) (z : Char) (hz : s.getLast? = some z) (h : isSpace z = false) :
    trimRight s = s := by
  obtain ⟨pre, rfl⟩ : ∃ pre, s = pre ++ [z] := by
    rcases List.eq_nil_or_concat s with rfl | ⟨pre, b, rfl⟩
    · simp at hz
    · simp at hz; subst hz; exact ⟨pre, by simp⟩
  simp [trimRight, h]

theorem trim_fixed (c : Char) (cs : Content) (z : Char) (hc : isSpace c = false)
    (hz : (c :: cs).getLast? = some z) (hzs : isSpace z = false) : trim (c :: cs) = c :: cs := by
  unfold trim
  rw [trimLeft_fixed c cs hc, trimRight_fixed _ z hz hzs]

/-- what `trim` returns starts and ends with a non-blank and only contains characters of the input -/
theorem trim_result (s : Content) (c : Char) (cs : Content) (h : trim s = c :: cs) :
    isSpace c = false ∧ (∃ z, (c :: cs).getLast? = some z ∧ isSpace z = false) ∧ ∀ x ∈ c :: cs, x ∈ s := by
  unfold trim at h
  cases hl : trimLeft s with
  | nil => simp [hl, trimRight] at h
  | cons a r =>
    have ha : isSpace a = false := dropWhile_head isSpace s a r hl
    rw [hl] at h
    unfold trimRight at h
    obtain ⟨pre, hpre⟩ := dropWhile_snoc isSpace a ha r.reverse
    have hrev : (a :: r).reverse = r.reverse ++ [a] := by simp
    rw [hrev, hpre] at h
    simp at h
    obtain ⟨h1, h2⟩ := h
    subst h1
    refine ⟨ha, ?_, ?_⟩
    · -- last of a :: cs = head of (pre ++ [a]) which fails isSpace
      cases hp : pre with
      | nil =>
        subst hp; simp at h2; subst h2
        exact ⟨a, by simp, ha⟩
      | cons y ys =>
        have hy : isSpace y = false :=
          dropWhile_head isSpace (r.reverse ++ [a]) y (ys ++ [a]) (by rw [hpre, hp]; simp)
        refine ⟨y, ?_, hy⟩
        rw [← h2, hp]
        have : a :: (y :: ys).reverse = (a :: ys.reverse) ++ [y] := by simp
        rw [this, List.getLast?_concat]
    · intro x hx
      have hsub : ∀ x ∈ pre ++ [a], x ∈ r.reverse ++ [a] := by
        intro x hx; rw [← hpre] at hx; exact dropWhile_mem isSpace _ x hx
      have hx' : x ∈ pre ++ [a] := by
        rcases List.mem_cons.mp hx with rfl | hx
        · simp
        · rw [← h2] at hx; simp at hx; simp [hx]
      have := hsub x hx'
      have hx2 : x ∈ a :: r := by
        simp at this; rcases this with h | h
        · exact List.mem_cons_of_mem _ h
        · simp [h]
      rw [← hl] at hx2
      exact dropWhile_mem isSpace s x hx2

/-! ## storable forms are read back unchanged, and only storable forms are ever read -/

theorem isSpace_TAB : isSpace TAB = true := by decide
theorem isSpace_NL : isSpace NL = true := by decide

theorem lineOK_spec (l : Line) (h : lineOK l = true) : TAB ∉ l ∧ NL ∉ l := by
  unfold lineOK at h
  rw [List.all_eq_true] at h
  constructor <;> intro hm <;> have := h _ hm <;> simp at this

theorem lineOK_of (l : Line) (h1 : TAB ∉ l) (h2 : NL ∉ l) : lineOK l = true := by
  unfold lineOK
  rw [List.all_eq_true]
  intro x hx
  have a : x ≠ TAB := fun e => h1 (e ▸ hx)
  have b : x ≠ NL := fun e => h2 (e ▸ hx)
  simp [a, b]

theorem joinTab_mem : ∀ (f : Form) (x : Char), x ∈ joinTab f → x = TAB ∨ ∃ l ∈ f, x ∈ l
  | [], x, h => by simp [joinTab] at h
  | [l], x, h => Or.inr ⟨l, by simp, by simpa [joinTab] using h⟩
  | l :: l' :: ls, x, h => by
    simp only [joinTab, List.mem_append, List.mem_cons] at h
    rcases h with h | h | h
    · exact Or.inr ⟨l, by simp, h⟩
    · exact Or.inl h
    · rcases joinTab_mem (l' :: ls) x h with h | ⟨m, hm, hx⟩
      · exact Or.inl h
      · exact Or.inr ⟨m, List.mem_cons_of_mem _ hm, hx⟩

theorem joinTab_getLast : ∀ (f : Form) (l : Line) (z : Char), f.getLast? = some l → l.getLast? = some z →
    (joinTab f).getLast? = some z
  | [], l, z, h, _ => by simp at h
  | [l0], l, z, h, hz => by simp at h; subst h; simpa [joinTab] using hz
  | l0 :: l' :: ls, l, z, h, hz => by
    have h' : (l' :: ls).getLast? = some l := by simpa [List.getLast?_cons_cons] using h
    have ih := joinTab_getLast (l' :: ls) l z h' hz
    simp only [joinTab]
    rw [List.getLast?_append, List.getLast?_cons]
    cases hj : (joinTab (l' :: ls)).getLast? with
    | none => rw [hj] at ih; cases ih
    | some w => rw [hj] at ih; injection ih with ih; subst ih; simp

structure StorableSpec (f : Form) : Prop where
  ne : f ≠ []
  noTab : ∀ l ∈ f, TAB ∉ l
  noNL : NL ∉ joinTab f
  head : ∃ c cs, joinTab f = c :: cs ∧ isSpace c = false
  last : ∃ z, (joinTab f).getLast? = some z ∧ isSpace z = false

theorem storable_spec (f : Form) (h : storable f = true) : StorableSpec f := by
  unfold storable at h
  simp only [Bool.and_eq_true] at h
  obtain ⟨⟨hall, hhead⟩, hlast⟩ := h
  rw [List.all_eq_true] at hall
  have hne : f ≠ [] := by intro e; subst e; simp [headOK] at hhead
  refine ⟨hne, fun l hl => (lineOK_spec l (hall l hl)).1, ?_, ?_, ?_⟩
  · intro hm
    rcases joinTab_mem f NL hm with e | ⟨l, hl, hx⟩
    · exact absurd e (by decide)
    · exact (lineOK_spec l (hall l hl)).2 hx
  · match f, hhead with
    | [], hh => simp [headOK] at hh
    | [] :: _, hh => simp [headOK] at hh
    | [c :: r], hh => exact ⟨c, r, by simp [joinTab], by simpa [headOK] using hh⟩
    | (c :: r) :: l' :: ls, hh =>
      exact ⟨c, r ++ TAB :: joinTab (l' :: ls), by simp [joinTab], by simpa [headOK] using hh⟩
  · unfold lastOK at hlast
    cases hl : f.getLast? with
    | none => simp [hl] at hlast
    | some l =>
      rw [hl] at hlast
      cases hz : l.getLast? with
      | none => simp [hz] at hlast
      | some z =>
        simp [hz] at hlast
        exact ⟨z, joinTab_getLast f l z hl hz, hlast⟩

theorem decodeLine_joinTab (f : Form) (h : storable f = true) : decodeLine (joinTab f) = some f := by
  obtain ⟨hne, hnt, _, ⟨c, cs, hj, hc⟩, ⟨z, hz, hzs⟩⟩ := storable_spec f h
  unfold decodeLine
  rw [hj] at hz
  rw [hj, trim_fixed c cs z hc hz hzs]
  simp only
  rw [← hj, pieces_joinTab f hne hnt]

theorem tabAppend_storable (f : Form) (h : storable f = true) : tabAppend f = joinTab f ++ [NL] := by
  have := (storable_spec f h).ne
  cases f with
  | nil => exact absurd rfl this
  | cons a r => rfl

theorem decode_tabAppend_append (f : Form) (rest : Content) (h : storable f = true) :
    decode (tabAppend f ++ rest) = f :: decode rest := by
  rw [tabAppend_storable f h]
  unfold decode
  have : joinTab f ++ [NL] ++ rest = joinTab f ++ NL :: rest := by simp
  rw [this, lines_append_nl _ _ (storable_spec f h).noNL]
  simp [List.filterMap_cons, decodeLine_joinTab f h]

theorem decode_append (x y : Content) (h : Terminated x) : decode (x ++ y) = decode x ++ decode y := by
  unfold decode
  rw [lines_append x y h, List.filterMap_append]

/-- the text of a list of forms as the history file holds them -/
def encodeAll (fs : List Form) : Content := fs.flatMap tabAppend

theorem decode_nil : decode [] = [] := by simp [decode, lines]

theorem decode_encodeAll_append (fs : List Form) (rest : Content) (h : ∀ f ∈ fs, storable f = true) :
    decode (encodeAll fs ++ rest) = fs ++ decode rest := by
  induction fs with
  | nil => simp [encodeAll]
  | cons f fs ih =>
    have hf := h f (by simp)
    have := ih (fun g hg => h g (by simp [hg]))
    simp only [encodeAll, List.flatMap_cons, List.append_assoc] at this ⊢
    rw [decode_tabAppend_append f _ hf, this]
    simp

theorem decode_encodeAll (fs : List Form) (h : ∀ f ∈ fs, storable f = true) : decode (encodeAll fs) = fs := by
  have := decode_encodeAll_append fs [] h
  simpa [decode_nil] using this

theorem terminated_tabAppend (f : Form) : Terminated (tabAppend f) := by
  cases f with
  | nil => exact Or.inl rfl
  | cons a r => exact Or.inr ⟨joinTab (a :: r), rfl⟩

theorem terminated_encodeAll (fs : List Form) : Terminated (encodeAll fs) := by
  induction fs with
  | nil => exact Or.inl rfl
  | cons f fs ih =>
    simp only [encodeAll, List.flatMap_cons]
    exact terminated_append (terminated_tabAppend f) ih

theorem decode_storable (c : Content) : ∀ f ∈ decode c, storable f = true := by
  intro f hf
  unfold decode at hf
  rw [List.mem_filterMap] at hf
  obtain ⟨l, hl, hd⟩ := hf
  have hnl : NL ∉ l := lines_no_nl c l hl
  unfold decodeLine at hd
  cases ht : trim l with
  | nil => simp [ht] at hd
  | cons a r =>
    rw [ht] at hd
    simp only [Option.some.injEq] at hd
    obtain ⟨ha, ⟨z, hz, hzs⟩, hsub⟩ := trim_result l a r ht
    have hnl' : NL ∉ a :: r := fun e => hnl (hsub _ e)
    have haT : a ≠ TAB := by intro e; rw [e, isSpace_TAB] at ha; cases ha
    have hzT : z ≠ TAB := by intro e; rw [e, isSpace_TAB] at hzs; cases hzs
    subst hd
    unfold storable
    simp only [Bool.and_eq_true]
    refine ⟨⟨?_, ?_⟩, ?_⟩
    · rw [List.all_eq_true]
      intro p hp
      exact lineOK_of p (pieces_sep_free TAB _ p hp) (pieces_free TAB NL _ hnl' p hp)
    · simp [pieces, splitOn, haT, headOK, ha]
    · obtain ⟨p, hp1, hp2⟩ := pieces_last TAB (a :: r) z hz hzT
      simp [lastOK, hp1, hp2, hzs]

/-! ## file-system steps -/

@[simp] theorem FS.get_set_same (fs : FS) (n : Name) (v : Option Content) : (fs.set n v).get n = v := by
  cases n <;> rfl

@[simp] theorem FS.set_hist_hist (fs : FS) (v : Option Content) : (fs.set .hist v).hist = v := rfl

@[simp] theorem FS.set_set (fs : FS) (n : Name) (v v' : Option Content) : (fs.set n v).set n v' = fs.set n v' := by
  cases n <;> rfl

theorem runSteps_append (fs : FS) (a b : List Step) : runSteps fs (a ++ b) = runSteps (runSteps fs a) b := by
  simp [runSteps, List.foldl_append]

@[simp] theorem runSteps_nil (fs : FS) : runSteps fs [] = fs := rfl
@[simp] theorem runSteps_cons (fs : FS) (s : Step) (r : List Step) : runSteps fs (s :: r) = runSteps (step fs s) r := rfl

theorem runSteps_writeAll (n : Name) : ∀ (forms : List Form) (fs : FS) (c : Content), fs.get n = some c →
    runSteps fs (writeAll n forms) = fs.set n (some (c ++ encodeAll forms)) := by
  intro forms
  induction forms with
  | nil =>
    intro fs c h
    cases n <;> simp [writeAll, encodeAll, FS.get] at h ⊢ <;> cases fs <;> simp_all [FS.set]
  | cons f forms ih =>
    intro fs c h
    simp only [writeAll, List.map_cons, runSteps_cons, step, h]
    have := ih (fs.set n (some (c ++ tabAppend f))) (c ++ tabAppend f) (by simp)
    simp only [writeAll] at this
    rw [this]
    simp [encodeAll]

theorem writeAll_take (n : Name) (forms : List Form) (k : Nat) :
    (writeAll n forms).take k = writeAll n (forms.take k) := by
  simp [writeAll, List.map_take]

theorem writeAll_length (n : Name) (forms : List Form) : (writeAll n forms).length = forms.length := by
  simp [writeAll]

/-- a crash inside `open :: writes ++ tail`: after the open, some prefix of the writes, some prefix of the tail -/
theorem crashAt_succ (s0 : Step) (n : Name) (kept : List Form) (tail : List Step) (k : Nat) (fs : FS) :
    crashAt (k + 1) (s0 :: (writeAll n kept ++ tail)) fs =
      runSteps (runSteps (step fs s0) (writeAll n (kept.take k))) (tail.take (k - kept.length)) := by
  simp [crashAt, List.take_append, writeAll_take, writeAll_length, runSteps_append]

/-! ## the invariant -/

/-- the history file, when present, is empty or ends with a newline -/
def TermFS (fs : FS) : Prop := ∀ c, fs.hist = some c → Terminated c

/-- what is in memory is what a restart would load -/
structure Inv (w : World) : Prop where
  term : TermFS w.fs
  sync : load w.fs = w.mem.forms

theorem load_storable (fs : FS) : ∀ f ∈ load fs, storable f = true := by
  intro f hf
  unfold load at hf
  cases h : fs.hist with
  | none => simp [h] at hf
  | some c => rw [h] at hf; exact decode_storable c f hf

theorem Inv.storable {w : World} (h : Inv w) : ∀ f ∈ w.mem.forms, storable f = true := by
  rw [← h.sync]; exact load_storable w.fs

theorem boot_inv (limit : Nat) (fs : FS) (h : TermFS fs) : Inv (boot limit fs) := ⟨h, rfl⟩

theorem load_set_hist (fs : FS) (c : Content) : load (fs.set .hist (some c)) = decode c := rfl
theorem load_set_tmp (fs : FS) (v : Option Content) : load (fs.set .tmp v) = load fs := rfl
theorem termFS_set_tmp (fs : FS) (v : Option Content) (h : TermFS fs) : TermFS (fs.set .tmp v) := h
theorem termFS_set_hist (fs : FS) (c : Content) (h : Terminated c) : TermFS (fs.set .hist (some c)) := by
  intro c' hc
  simp [FS.set] at hc
  subst hc; exact h

/-! ## clearRange -/

theorem clearRange_sublist (forms : List Form) (a b : Int) : (clearRange forms a b).Sublist forms := by
  unfold clearRange
  simp only
  by_cases h0 : forms.length = 0 ∨ (forms.length : Int) ≤ a
  · rw [if_pos h0]; exact List.Sublist.refl _
  · rw [if_neg h0]
    generalize (if b < 0 ∨ (forms.length : Int) ≤ b then forms.length - 1 else b.toNat) = e
    by_cases hse : a.toNat ≤ e
    · rw [if_pos hse]
      have hle : forms.length - 1 - e ≤ forms.length - a.toNat := by omega
      have h1 := List.drop_sublist_drop_left forms hle
      have h2 := List.Sublist.append (List.Sublist.refl (forms.take (forms.length - 1 - e))) h1
      rw [List.take_append_drop] at h2
      exact h2
    · rw [if_neg hse]; exact List.Sublist.refl _

theorem clearRange_mem (forms : List Form) (a b : Int) : ∀ f ∈ clearRange forms a b, f ∈ forms :=
  fun _ hf => (clearRange_sublist forms a b).subset hf

theorem clearRange_length_le (forms : List Form) (a b : Int) : (clearRange forms a b).length ≤ forms.length :=
  (clearRange_sublist forms a b).length_le

/-! ## what a process death leaves, operation by operation -/

theorem runSteps_take_close (fs : FS) (n : Name) (j : Nat) : runSteps fs ([Step.close n].take j) = fs := by
  cases j <;> simp [step]

theorem crashAt_zero (steps : List Step) (fs : FS) : crashAt 0 steps fs = fs := by simp [crashAt]

theorem decode_tabAppend (f : Form) (h : storable f = true) : decode (tabAppend f) = [f] := by
  have := decode_tabAppend_append f [] h
  simpa [decode_nil] using this

/-- `Clear`: before the truncating open the old history; afterwards exactly the forms written so far -/
theorem crash_clear (cfg : Cfg) (w : World) (hinv : Inv w) (a b : Int) (k : Nat) :
    TermFS (crashAt k (perform cfg w.mem (.clear a b)).2 w.fs) ∧
    load (crashAt k (perform cfg w.mem (.clear a b)).2 w.fs) =
      (if k = 0 then w.mem.forms else (clearRange w.mem.forms a b).take (k - 1)) := by
  cases k with
  | zero => simp [crashAt_zero, hinv.term, hinv.sync]
  | succ k =>
    have hst : ∀ f ∈ (clearRange w.mem.forms a b).take k, storable f = true :=
      fun f hf => hinv.storable f (clearRange_mem _ a b f (List.mem_of_mem_take hf))
    simp only [perform]
    rw [crashAt_succ, runSteps_take_close]
    simp only [step]
    rw [runSteps_writeAll .hist _ _ [] (by simp)]
    simp only [FS.set_set, List.nil_append]
    refine ⟨termFS_set_hist _ _ (terminated_encodeAll _), ?_⟩
    rw [load_set_hist, decode_encodeAll _ hst]
    simp

/-- the forms a compaction keeps are forms of the old history or the new form -/
theorem keepRecent_mem (limit : Nat) (all : List Form) : ∀ f ∈ keepRecent limit all, f ∈ all :=
  fun _ hf => List.mem_of_mem_drop hf

theorem runSteps_take_close_rename (fs : FS) (j : Nat) (c : Content) (h : fs.get .tmp = some c) :
    runSteps fs ([Step.close .tmp, Step.rename .tmp .hist].take j) =
      if j < 2 then fs else (fs.set .hist (some c)).set .tmp none := by
  match j with
  | 0 => simp
  | 1 => simp [step]
  | j + 2 =>
    have : ¬ (j + 2 < 2) := by omega
    simp [step, h, this]

/-- compaction (tmp opened with O_TRUNC): the old history until the rename, the new one after it —
whatever a stale tmp file held -/
theorem crash_compact (w : World) (hinv : Inv w) (kept : List Form) (hk : ∀ f ∈ kept, storable f = true) (k : Nat) :
    let steps := Step.openTrunc .tmp :: (writeAll .tmp kept ++ [Step.close .tmp, Step.rename .tmp .hist])
    TermFS (crashAt k steps w.fs) ∧
    load (crashAt k steps w.fs) = (if k < kept.length + 3 then w.mem.forms else kept) := by
  intro steps
  cases k with
  | zero => simp [steps, crashAt_zero, hinv.term, hinv.sync]
  | succ k =>
    simp only [steps]
    rw [crashAt_succ]
    simp only [step]
    rw [runSteps_writeAll .tmp _ _ [] (by simp)]
    simp only [FS.set_set, List.nil_append]
    rw [runSteps_take_close_rename _ _ (encodeAll (kept.take k)) (by simp)]
    by_cases hj : k - kept.length < 2
    · have hk3 : k + 1 < kept.length + 3 := by omega
      simp only [hj, hk3, if_true]
      exact ⟨termFS_set_tmp _ _ hinv.term, by rw [load_set_tmp, hinv.sync]⟩
    · have hk3 : ¬ (k + 1 < kept.length + 3) := by omega
      have htake : kept.take k = kept := List.take_of_length_le (by omega)
      simp only [hj, hk3, if_false, htake]
      refine ⟨?_, ?_⟩
      · intro c hc
        have : c = encodeAll kept := by
          simp [FS.set] at hc; exact hc.symm
        subst this; exact terminated_encodeAll _
      · show decode (encodeAll kept) = kept
        exact decode_encodeAll kept hk

/-- plain append: the old history until the write, the new one after it -/
theorem crash_append (w : World) (hinv : Inv w) (f : Form) (hf : storable f = true) (k : Nat) :
    let steps := [Step.openAppend .hist, Step.write .hist (tabAppend f), Step.close .hist]
    TermFS (crashAt k steps w.fs) ∧
    load (crashAt k steps w.fs) = (if k < 2 then w.mem.forms else w.mem.forms ++ [f]) := by
  intro steps
  have hsync := hinv.sync
  have hterm := hinv.term
  cases hh : w.fs.hist with
  | none =>
    have hload : w.mem.forms = [] := by rw [← hsync]; simp [load, hh]
    match k with
    | 0 => simp [steps, crashAt_zero, hterm, hsync]
    | 1 =>
      simp only [steps, crashAt, List.take, runSteps_cons, runSteps_nil, step, FS.get, hh]
      refine ⟨termFS_set_hist _ _ (Or.inl rfl), ?_⟩
      simp [load_set_hist, decode_nil, hload]
    | k + 2 =>
      have e : crashAt (k + 2) steps w.fs = w.fs.set .hist (some (tabAppend f)) := by
        cases k <;> simp [steps, crashAt, List.take, step, FS.get, hh]
      rw [e]
      refine ⟨termFS_set_hist _ _ (terminated_tabAppend f), ?_⟩
      simp [load_set_hist, decode_tabAppend f hf, hload]
  | some c =>
    have hc : Terminated c := hterm c hh
    have hload : decode c = w.mem.forms := by rw [← hsync]; simp [load, hh]
    match k with
    | 0 => simp [steps, crashAt_zero, hterm, hsync]
    | 1 =>
      simp only [steps, crashAt, List.take, runSteps_cons, runSteps_nil, step, FS.get, hh]
      exact ⟨hterm, by simp [hsync]⟩
    | k + 2 =>
      have e : crashAt (k + 2) steps w.fs = w.fs.set .hist (some (c ++ tabAppend f)) := by
        cases k <;> simp [steps, crashAt, List.take, step, FS.get, hh]
      rw [e]
      refine ⟨termFS_set_hist _ _ (terminated_append hc (terminated_tabAppend f)), ?_⟩
      simp [load_set_hist, decode_append c _ hc, decode_tabAppend f hf, hload]

end SlipVerif.History
